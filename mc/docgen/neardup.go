package docgen

import (
	"fmt"
	"strings"
)

// NearDupSpec: two pages, each using one member of a pair of resources that are identical except
// (when Different) for exactly one attribute.
type NearDupSpec struct {
	Kind      string // image | font | form | gstate
	Attr      string
	Different bool
	Placement string // direct | shared-subdict | inherited
}

var NearDupAttrs = map[string][]string{
	"image":  {"data", "dims", "decode", "interpolate", "smask", "colorspace", "filter"},
	"font":   {"encoding", "widths", "firstchar", "descriptor-flags", "tounicode", "basefont"},
	"form":   {"content", "bbox", "matrix", "resources"},
	"gstate": {"ca", "lw"},
}

// NearDup builds the document and returns it with a description.
func NearDup(s NearDupSpec) []byte {
	d := New()
	cat := d.Reserve()
	root := d.Reserve()
	mk := func(variant bool) int {
		v := variant && s.Different
		pick := func(attr, a, b string) string {
			if s.Attr == attr && v {
				return b
			}
			return a
		}
		switch s.Kind {
		case "image":
			data := []byte{10, 20, 30, 40, 50, 60}
			if s.Attr == "data" && v {
				data = []byte{10, 20, 30, 40, 50, 61}
			}
			dims := pick("dims", "/Width 3/Height 2", "/Width 2/Height 3")
			cs := "/ColorSpace/DeviceGray"
			if s.Attr == "colorspace" && v {
				cs = "/ColorSpace/DeviceRGB"
				dims = "/Width 2/Height 1"
			}
			extra := pick("decode", "", "/Decode[1 0]") + pick("interpolate", "", "/Interpolate true")
			if s.Attr == "smask" && v {
				sm := d.AddStream("<</Type/XObject/Subtype/Image/Width 3/Height 2/ColorSpace/DeviceGray/BitsPerComponent 8>>", []byte{1, 2, 3, 4, 5, 6})
				extra += "/SMask " + Ref(sm)
			}
			if s.Attr == "filter" && variant {
				// same decoded bytes, different encoding: merging is allowed, content must stay
				return d.AddStream(fmt.Sprintf("<</Type/XObject/Subtype/Image%s%s/BitsPerComponent 8%s/Filter/FlateDecode>>", dims, cs, extra), deflate(data))
			}
			return d.AddStream(fmt.Sprintf("<</Type/XObject/Subtype/Image%s%s/BitsPerComponent 8%s>>", dims, cs, extra), data)
		case "font":
			fd := d.Add(fmt.Sprintf("<</Type/FontDescriptor/FontName/%s/Flags %s/FontBBox[0 0 1000 1000]/ItalicAngle 0/Ascent 800/Descent -200/CapHeight 700/StemV 80>>",
				pick("basefont", "ABCDEF+Dup", "ABCDEF+Dux"), pick("descriptor-flags", "32", "96")))
			tu := ""
			if s.Attr == "tounicode" {
				cm := "/CIDInit /ProcSet findresource begin 12 dict begin begincmap /CMapName /Adobe-Identity-UCS def /CMapType 2 def 1 begincodespacerange <00> <FF> endcodespacerange 1 beginbfchar <41> <%s> endbfchar endcmap end end"
				code := "0041"
				if v {
					code = "0042"
				}
				tu = "/ToUnicode " + Ref(d.AddStream("<<>>", []byte(fmt.Sprintf(cm, code))))
			}
			return d.Add(fmt.Sprintf("<</Type/Font/Subtype/Type1/BaseFont/%s/Encoding/%s/FirstChar %s/LastChar %s/Widths[%s]/FontDescriptor %s%s>>",
				pick("basefont", "ABCDEF+Dup", "ABCDEF+Dux"), pick("encoding", "WinAnsiEncoding", "MacRomanEncoding"),
				pick("firstchar", "65", "66"), pick("firstchar", "67", "68"), pick("widths", "500 600 700", "500 600 701"), Ref(fd), tu))
		case "form":
			res := pick("resources", "<<>>", "<</ProcSet[/PDF]>>")
			return d.AddStream(fmt.Sprintf("<</Type/XObject/Subtype/Form/BBox%s/Matrix%s/Resources%s>>", pick("bbox", "[0 0 10 10]", "[0 0 10 11]"), pick("matrix", "[1 0 0 1 0 0]", "[1 0 0 1 5 0]"), res),
				[]byte(pick("content", "0 0 m 5 5 l S\n", "0 0 m 5 6 l S\n")))
		default: // gstate
			return d.Add(fmt.Sprintf("<</Type/ExtGState/CA %s/LW %s>>", pick("ca", "0.5", "0.6"), pick("lw", "2", "3")))
		}
	}
	ra, rb := mk(false), mk(true)
	cat2 := map[string]string{"image": "XObject", "form": "XObject", "font": "Font", "gstate": "ExtGState"}[s.Kind]
	use := func(name string) string {
		switch s.Kind {
		case "font":
			return fmt.Sprintf("BT /%s 12 Tf 72 700 Td (ABC) Tj ET\n", name)
		case "gstate":
			return fmt.Sprintf("/%s gs 0 0 m 9 9 l S\n", name)
		}
		return fmt.Sprintf("q 10 0 0 10 0 0 cm /%s Do Q\n", name)
	}
	c1 := d.AddStream("<<>>", []byte(MarkerContent(1)+use("RA")))
	c2 := d.AddStream("<<>>", []byte(MarkerContent(2)+use("RB")))
	f1 := d.Add("<</Type/Font/Subtype/Type1/BaseFont/Helvetica/Encoding/WinAnsiEncoding>>")
	var p1res, p2res, rootRes string
	switch s.Placement {
	case "direct":
		p1res = fmt.Sprintf("/Resources<</Font<</F1 %s>>/%s<</RA %s>>>>", Ref(f1), cat2, Ref(ra))
		p2res = fmt.Sprintf("/Resources<</Font<</F1 %s>>/%s<</RB %s>>>>", Ref(f1), cat2, Ref(rb))
		if cat2 == "Font" {
			p1res = fmt.Sprintf("/Resources<</Font<</F1 %s/RA %s>>>>", Ref(f1), Ref(ra))
			p2res = fmt.Sprintf("/Resources<</Font<</F1 %s/RB %s>>>>", Ref(f1), Ref(rb))
		}
	case "shared-subdict":
		var sub int
		if cat2 == "Font" {
			sub = d.Add(fmt.Sprintf("<</F1 %s/RA %s/RB %s>>", Ref(f1), Ref(ra), Ref(rb)))
			p1res = fmt.Sprintf("/Resources<</Font %s>>", Ref(sub))
		} else {
			sub = d.Add(fmt.Sprintf("<</RA %s/RB %s>>", Ref(ra), Ref(rb)))
			p1res = fmt.Sprintf("/Resources<</Font<</F1 %s>>/%s %s>>", Ref(f1), cat2, Ref(sub))
		}
		p2res = p1res
	case "shared-subdict+inherited-other", "shared-resources+inherited-other":
		// the pages share one dictionary for the category in question while an ancestor node passes down
		// resources of another category only
		// (a page's own /Resources replaces the inherited one, so the page dictionary names everything it uses)
		var body string
		rootRes = "/Resources<</ExtGState<</GX<</LW 1>>>>>>"
		if cat2 == "Font" {
			body = fmt.Sprintf("/Font %s", Ref(d.Add(fmt.Sprintf("<</F1 %s/RA %s/RB %s>>", Ref(f1), Ref(ra), Ref(rb)))))
		} else {
			body = fmt.Sprintf("/Font<</F1 %s>>/%s %s", Ref(f1), cat2, Ref(d.Add(fmt.Sprintf("<</RA %s/RB %s>>", Ref(ra), Ref(rb)))))
		}
		if s.Placement == "shared-resources+inherited-other" {
			p1res = "/Resources " + Ref(d.Add("<<"+body+">>"))
		} else {
			p1res = "/Resources<<" + body + ">>"
		}
		p2res = p1res
	default: // inherited
		if cat2 == "Font" {
			rootRes = fmt.Sprintf("/Resources<</Font<</F1 %s/RA %s/RB %s>>>>", Ref(f1), Ref(ra), Ref(rb))
		} else {
			rootRes = fmt.Sprintf("/Resources<</Font<</F1 %s>>/%s<</RA %s/RB %s>>>>", Ref(f1), cat2, Ref(ra), Ref(rb))
		}
	}
	pg1 := d.Add(fmt.Sprintf("<</Type/Page/Parent %s%s/Contents %s>>", Ref(root), p1res, Ref(c1)))
	pg2 := d.Add(fmt.Sprintf("<</Type/Page/Parent %s%s/Contents %s>>", Ref(root), p2res, Ref(c2)))
	d.Add("<</Unreferenced(object)>>")
	d.Set(root, fmt.Sprintf("<</Type/Pages/Kids[%s %s]/Count 2/MediaBox[0 0 595 842]%s>>", Ref(pg1), Ref(pg2), rootRes))
	d.Set(cat, fmt.Sprintf("<</Type/Catalog/Pages %s>>", Ref(root)))
	d.Root = cat
	d.Info = d.Add("<</Title(neardup)>>")
	_ = strings.Join
	return d.Bytes()
}
