package docgen

import (
	"fmt"
	"strings"
)

// SigSpec describes a hand-built document carrying signature structures (not cryptographically valid:
// the structure is what signature removal acts on).
type SigSpec struct {
	Shape      string // merged | kid | nested | nested-kid : how field and widget are arranged
	N          int    // number of signature fields (field i sits on page i)
	OtherField bool   // a text field on page 1 that must survive
	OtherGroup bool   // OtherField only: the text field is the kid of a non-terminal parent that has no /FT
	OtherAnnot bool   // a link annotation on every page that must survive
	Perms      string // "" | DocMDP | UR3 | both
	DSS        bool
	Extensions bool
	Unsigned   bool   // signature field without /V (empty signature field)
	Container  string // classic | xrefstream | objstream | classic-indirect-annots
}

func (s SigSpec) Name() string {
	of := fmt.Sprint(s.OtherField)
	if s.OtherField && s.OtherGroup {
		of = "grouped"
	}
	return fmt.Sprintf("shape=%s,n=%d,otherfield=%s,otherannot=%v,perms=%s,dss=%v,ext=%v,unsigned=%v/%s", s.Shape, s.N, of, s.OtherAnnot, s.Perms, s.DSS, s.Extensions, s.Unsigned, s.Container)
}

// PageNrs returns the object numbers of the page dictionaries in page order of creation.
func (d *Doc) PageNrs() []int {
	var out []int
	for _, nr := range sortedKeys(d.objs) {
		if strings.HasPrefix(d.objs[nr].body, "<</Type/Page/") {
			out = append(out, nr)
		}
	}
	return out
}

// AddResources merges category entries (e.g. "/XObject<</X1 5 0 R>>") into the page's /Resources dictionary.
func (d *Doc) AddResources(pageNr int, entries string) {
	o := d.objs[pageNr]
	i := strings.Index(o.body, "/Resources<<")
	if i < 0 {
		o.body = strings.TrimSuffix(o.body, ">>") + "/Resources<<" + entries + ">>>>"
		return
	}
	i += len("/Resources<<")
	o.body = o.body[:i] + entries + o.body[i:]
}

// SetContents replaces the page's /Contents value.
func (d *Doc) SetContents(pageNr int, value string) {
	o := d.objs[pageNr]
	if i := strings.Index(o.body, "/Contents "); i >= 0 {
		j := i + len("/Contents ")
		k := j
		if o.body[k] == '[' {
			k = j + strings.Index(o.body[j:], "]") + 1
		} else {
			k = j + strings.Index(o.body[j:], " R") + 2
		}
		o.body = o.body[:i] + "/Contents " + value + o.body[k:]
		return
	}
	d.AppendEntries(pageNr, "/Contents "+value)
}

// AppendEntries adds entries to the dictionary object nr.
func (d *Doc) AppendEntries(nr int, entries string) {
	o := d.objs[nr]
	o.body = strings.TrimSuffix(o.body, ">>") + entries + ">>"
}

const sigContents = "<3082010a0282010100c0ffee00000000000000000000000000000000>"

// SigDoc builds the document; pages carry markers 1..3.
func SigDoc(s SigSpec) []byte {
	d := Simple([]PageSpec{{Marker: 1}, {Marker: 2}, {Marker: 3}}, SimpleOpts{Title: "sigdoc"})
	pages := d.PageNrs()
	annots := make([][]string, len(pages))
	var fields []string
	sigDict := func(i int, typ string) int {
		ref := ""
		if typ == "DocMDP" {
			ref = "/Reference[<</Type/SigRef/TransformMethod/DocMDP/TransformParams<</Type/TransformParams/P 2/V/1.2>>>>]"
		}
		if typ == "UR3" {
			ref = "/Reference[<</Type/SigRef/TransformMethod/UR3/TransformParams<</Type/TransformParams/V/2.2/Document[/FullSave]>>>>]"
		}
		return d.Add(fmt.Sprintf("<</Type/Sig/Filter/Adobe.PPKLite/SubFilter/adbe.pkcs7.detached/ByteRange[0 %d 200 300]/Contents%s/M(D:20240101000000Z)/Name(Signer %d)%s>>", 100+i, sigContents, i, ref))
	}
	var firstSig int
	for i := 0; i < s.N; i++ {
		pg := pages[i%len(pages)]
		v := ""
		if !s.Unsigned {
			sd := sigDict(i, map[bool]string{true: "DocMDP", false: ""}[i == 0 && (s.Perms == "DocMDP" || s.Perms == "both")])
			if i == 0 {
				firstSig = sd
			}
			v = "/V " + Ref(sd)
		}
		rect := fmt.Sprintf("[%d 100 %d 150]", 50+i*10, 200+i*10)
		widget := fmt.Sprintf("/Type/Annot/Subtype/Widget/Rect%s/F 132/P %s", rect, Ref(pg))
		switch s.Shape {
		case "merged":
			f := d.Add(fmt.Sprintf("<</FT/Sig/T(Signature%d)%s%s>>", i+1, v, widget))
			fields = append(fields, Ref(f))
			annots[i%len(pages)] = append(annots[i%len(pages)], Ref(f))
		case "kid":
			f := d.Reserve()
			w := d.Add(fmt.Sprintf("<</Parent %s%s>>", Ref(f), widget))
			d.Set(f, fmt.Sprintf("<</FT/Sig/T(Signature%d)%s/Kids[%s]>>", i+1, v, Ref(w)))
			fields = append(fields, Ref(f))
			annots[i%len(pages)] = append(annots[i%len(pages)], Ref(w))
		case "nested":
			parent := d.Reserve()
			f := d.Add(fmt.Sprintf("<</FT/Sig/T(sig)/Parent %s%s%s>>", Ref(parent), v, widget))
			d.Set(parent, fmt.Sprintf("<</T(group%d)/Kids[%s]>>", i+1, Ref(f)))
			fields = append(fields, Ref(parent))
			annots[i%len(pages)] = append(annots[i%len(pages)], Ref(f))
		case "nested-kid":
			parent := d.Reserve()
			f := d.Reserve()
			w := d.Add(fmt.Sprintf("<</Parent %s%s>>", Ref(f), widget))
			d.Set(f, fmt.Sprintf("<</FT/Sig/T(sig)/Parent %s%s/Kids[%s]>>", Ref(parent), v, Ref(w)))
			d.Set(parent, fmt.Sprintf("<</T(group%d)/Kids[%s]>>", i+1, Ref(f)))
			fields = append(fields, Ref(parent))
			annots[i%len(pages)] = append(annots[i%len(pages)], Ref(w))
		}
	}
	acro := ""
	if s.OtherField {
		helv := d.Add("<</Type/Font/Subtype/Type1/BaseFont/Helvetica/Encoding/WinAnsiEncoding>>")
		var f int
		if s.OtherGroup {
			g := d.Reserve()
			f = d.Add(fmt.Sprintf("<</FT/Tx/T(keepme)/Parent %s/V(kept value)/DA(/Helv 12 Tf 0 g)/Type/Annot/Subtype/Widget/Rect[50 700 200 720]/F 4/P %s>>", Ref(g), Ref(pages[0])))
			d.Set(g, fmt.Sprintf("<</T(person)/Kids[%s]>>", Ref(f)))
			fields = append(fields, Ref(g))
		} else {
			f = d.Add(fmt.Sprintf("<</FT/Tx/T(keepme)/V(kept value)/DA(/Helv 12 Tf 0 g)/Type/Annot/Subtype/Widget/Rect[50 700 200 720]/F 4/P %s>>", Ref(pages[0])))
			fields = append(fields, Ref(f))
		}
		annots[0] = append(annots[0], Ref(f))
		acro = fmt.Sprintf("/DR<</Font<</Helv %s>>>>", Ref(helv))
	}
	if s.OtherAnnot {
		for i := range pages {
			a := d.Add(fmt.Sprintf("<</Type/Annot/Subtype/Link/Rect[10 10 60 30]/Border[0 0 0]/A<</S/URI/URI(http://example.com/p%d)>>>>", i+1))
			annots[i] = append(annots[i], Ref(a))
		}
	}
	for i, pg := range pages {
		if len(annots[i]) > 0 {
			if s.Container == "classic-indirect-annots" {
				// /Annots as a reference to an array object of its own (legal and common in other producers' files)
				arr := d.Add(fmt.Sprintf("[%s]", strings.Join(annots[i], " ")))
				d.AppendEntries(pg, "/Annots "+Ref(arr))
			} else {
				d.AppendEntries(pg, fmt.Sprintf("/Annots[%s]", strings.Join(annots[i], " ")))
			}
		}
	}
	cat := ""
	if len(fields) > 0 {
		sf := "/SigFlags 3"
		cat += fmt.Sprintf("/AcroForm<</Fields[%s]%s%s>>", strings.Join(fields, " "), sf, acro)
	}
	var perms []string
	if (s.Perms == "DocMDP" || s.Perms == "both") && firstSig != 0 {
		perms = append(perms, "/DocMDP "+Ref(firstSig))
	}
	if s.Perms == "UR3" || s.Perms == "both" {
		ur := sigDict(9, "UR3")
		perms = append(perms, "/UR3 "+Ref(ur))
	}
	if len(perms) > 0 {
		cat += "/Perms<<" + strings.Join(perms, "") + ">>"
	}
	if s.DSS {
		cert := d.AddStream("<<>>", []byte("not really a certificate"))
		cat += fmt.Sprintf("/DSS<</Certs[%s]>>", Ref(cert))
	}
	if s.Extensions {
		cat += "/Extensions<</ADBE<</BaseVersion/1.7/ExtensionLevel 8>>>>"
	}
	d.PatchCatalog(cat)
	switch s.Container {
	case "xrefstream":
		return d.BytesXRefStream(false)
	case "objstream":
		return d.BytesXRefStream(true)
	}
	return d.Bytes()
}
