// Package docgen is a small, independent PDF *writer* (own xref bookkeeping, nothing from pdfcpu)
// used to build fixture and family documents for the explorers.
package docgen

import (
	"bytes"
	"fmt"
	"sort"
	"strings"
)

type object struct {
	nr     int
	body   string // dictionary / array / scalar text (without obj/endobj); for streams the dict text
	stream []byte
	isStrm bool
}

// Doc collects numbered objects and serialises them with a classic xref table.
type Doc struct {
	objs    map[int]*object
	next    int
	Root    int
	Info    int
	Version string
	ID      [2]string // hex strings without <>
	Extra   string    // extra trailer entries
	Eol     string
	// FreeGen is the generation written for free entries other than object 0 (a deleted object has generation >= 1).
	FreeGen int
	// Override replaces computed numbers of the xref-stream serialisation by literal text:
	// keys Size, Index (array text), N, First; ObjStmPad / XRefPad append that many bytes to the decoded
	// object stream body / cross-reference stream data.
	Override map[string]string
	// PrologMutate, if set, may change the numbers of the object stream prolog (objNr offset pairs) before encoding.
	PrologMutate func(nums []int, bodyLen int) []int
	// RowsMutate, if set, may change the decoded cross-reference stream rows (type, field 2, field 3).
	RowsMutate func(rows [][3]int) [][3]int
	// IndirectLengths makes Bytes write every stream's /Length as a reference to an integer object.
	IndirectLengths bool
	// ZeroLengths (with IndirectLengths) writes 0 into every length object: a reader has to find the end of each
	// stream by scanning for endstream.
	ZeroLengths bool
}

func New() *Doc { return &Doc{objs: map[int]*object{}, next: 1, Version: "1.7", Eol: "\n"} }

// Reserve allocates an object number to be filled later with Set.
func (d *Doc) Reserve() int { n := d.next; d.next++; return n }

// SkipNumbers leaves a gap in the numbering (free entries in the xref table).
func (d *Doc) SkipNumbers(k int) { d.next += k }

func (d *Doc) Set(nr int, body string) { d.objs[nr] = &object{nr: nr, body: body} }
func (d *Doc) SetStream(nr int, dict string, data []byte) {
	d.objs[nr] = &object{nr: nr, body: dict, stream: data, isStrm: true}
}
func (d *Doc) Add(body string) int { n := d.Reserve(); d.Set(n, body); return n }
func (d *Doc) AddStream(dict string, data []byte) int {
	n := d.Reserve()
	d.SetStream(n, dict, data)
	return n
}

func Ref(n int) string { return fmt.Sprintf("%d 0 R", n) }

// Bytes serialises the document.
func (d *Doc) Bytes() []byte {
	var b bytes.Buffer
	fmt.Fprintf(&b, "%%PDF-%s%s%%\xe2\xe3\xcf\xd3%s", d.Version, d.Eol, d.Eol)
	nrs := make([]int, 0, len(d.objs))
	for n := range d.objs {
		nrs = append(nrs, n)
	}
	sort.Ints(nrs)
	objs := d.objs
	lenRef := map[int]int{}
	if d.IndirectLengths {
		// every stream's /Length becomes a reference to an integer object of its own (the way Ghostscript and
		// cairo write streams); the integer objects are numbered after the highest number in use
		objs = map[int]*object{}
		top := 0
		for _, n := range nrs {
			objs[n] = d.objs[n]
			top = n
		}
		for _, n := range append([]int{}, nrs...) {
			if d.objs[n].isStrm {
				top++
				lenRef[n] = top
				objs[top] = &object{nr: top, body: fmt.Sprint(len(d.objs[n].stream))}
				if d.ZeroLengths {
					objs[top].body = "0"
				}
				nrs = append(nrs, top)
			}
		}
	}
	off := map[int]int{}
	for _, n := range nrs {
		o := objs[n]
		off[n] = b.Len()
		fmt.Fprintf(&b, "%d 0 obj%s", n, d.Eol)
		if o.isStrm {
			dict := strings.TrimSpace(o.body)
			if !strings.HasPrefix(dict, "<<") {
				dict = "<<" + dict + ">>"
			}
			if ln, ok := lenRef[n]; ok {
				dict = dict[:len(dict)-2] + fmt.Sprintf("/Length %s>>", Ref(ln))
			} else {
				dict = dict[:len(dict)-2] + fmt.Sprintf("/Length %d>>", len(o.stream))
			}
			fmt.Fprintf(&b, "%s%sstream\n", dict, d.Eol)
			b.Write(o.stream)
			fmt.Fprintf(&b, "%sendstream%s", d.Eol, d.Eol)
		} else {
			fmt.Fprintf(&b, "%s%s", o.body, d.Eol)
		}
		fmt.Fprintf(&b, "endobj%s", d.Eol)
	}
	max := 0
	if len(nrs) > 0 {
		max = nrs[len(nrs)-1]
	}
	xref := b.Len()
	fmt.Fprintf(&b, "xref\n0 %d\n", max+1)
	// free list: chain the free entries
	free := []int{0}
	for n := 1; n <= max; n++ {
		if _, ok := objs[n]; !ok {
			free = append(free, n)
		}
	}
	nextFree := map[int]int{}
	for i, f := range free {
		if i+1 < len(free) {
			nextFree[f] = free[i+1]
		} else {
			nextFree[f] = 0
		}
	}
	for n := 0; n <= max; n++ {
		if _, ok := objs[n]; ok {
			fmt.Fprintf(&b, "%010d %05d n \n", off[n], 0)
		} else {
			g := d.FreeGen
			if n == 0 {
				g = 65535
			}
			fmt.Fprintf(&b, "%010d %05d f \n", nextFree[n], g)
		}
	}
	fmt.Fprintf(&b, "trailer\n<</Size %d/Root %s", max+1, Ref(d.Root))
	if d.Info != 0 {
		fmt.Fprintf(&b, "/Info %s", Ref(d.Info))
	}
	if d.ID[0] != "" {
		fmt.Fprintf(&b, "/ID[<%s><%s>]", d.ID[0], d.ID[1])
	}
	b.WriteString(d.Extra)
	fmt.Fprintf(&b, ">>\nstartxref\n%d\n%%%%EOF\n", xref)
	return b.Bytes()
}

// PageSpec describes one page of a simple document.
type PageSpec struct {
	Marker   int    // unique operand of the marker operator
	MediaBox string // "" = inherit from the tree root ([0 0 595 842] there)
	CropBox  string
	Rotate   int  // 0 = not set on the page
	HasRot   bool // write /Rotate even when 0
	Extra    string
	Contents []string // override: content streams (array when >1); default one marker stream
}

// MarkerContent is the content stream text carrying marker m: a real operator with a unique operand.
func MarkerContent(m int) string {
	return fmt.Sprintf("q 1 0 0 1 %d 0 cm Q\nBT /F1 12 Tf 72 720 Td (page %d) Tj ET\n", m, m)
}

type SimpleOpts struct {
	RootMediaBox string // default [0 0 595 842]
	RootRotate   int
	Title        string
	InfoExtra    string
	CatalogExtra string
	NoInfo       bool
	Nested       bool // two-level page tree (pages split into two intermediate nodes)
}

// Simple builds a document with the given pages under a single (or nested) page tree.
func Simple(pages []PageSpec, o SimpleOpts) *Doc {
	d := New()
	cat := d.Reserve()
	root := d.Reserve()
	font := d.Add("<</Type/Font/Subtype/Type1/BaseFont/Helvetica/Encoding/WinAnsiEncoding>>")
	if o.RootMediaBox == "" {
		o.RootMediaBox = "[0 0 595 842]"
	}
	mk := func(p PageSpec, parent int) int {
		var cs []string
		if p.Contents != nil {
			cs = p.Contents
		} else {
			cs = []string{MarkerContent(p.Marker)}
		}
		var refs []string
		for _, c := range cs {
			refs = append(refs, Ref(d.AddStream("<<>>", []byte(c))))
		}
		var sb strings.Builder
		fmt.Fprintf(&sb, "<</Type/Page/Parent %s/Resources<</Font<</F1 %s>>>>", Ref(parent), Ref(font))
		if len(refs) == 1 {
			fmt.Fprintf(&sb, "/Contents %s", refs[0])
		} else if len(refs) > 1 {
			fmt.Fprintf(&sb, "/Contents[%s]", strings.Join(refs, " "))
		}
		if p.MediaBox != "" {
			fmt.Fprintf(&sb, "/MediaBox%s", p.MediaBox)
		}
		if p.CropBox != "" {
			fmt.Fprintf(&sb, "/CropBox%s", p.CropBox)
		}
		if p.Rotate != 0 || p.HasRot {
			fmt.Fprintf(&sb, "/Rotate %d", p.Rotate)
		}
		sb.WriteString(p.Extra)
		sb.WriteString(">>")
		return d.Add(sb.String())
	}
	var kids []string
	if o.Nested && len(pages) >= 2 {
		h := len(pages) / 2
		for _, part := range [][]PageSpec{pages[:h], pages[h:]} {
			node := d.Reserve()
			var ks []string
			for _, p := range part {
				ks = append(ks, Ref(mk(p, node)))
			}
			d.Set(node, fmt.Sprintf("<</Type/Pages/Parent %s/Kids[%s]/Count %d>>", Ref(root), strings.Join(ks, " "), len(part)))
			kids = append(kids, Ref(node))
		}
	} else {
		for _, p := range pages {
			kids = append(kids, Ref(mk(p, root)))
		}
	}
	rot := ""
	if o.RootRotate != 0 {
		rot = fmt.Sprintf("/Rotate %d", o.RootRotate)
	}
	d.Set(root, fmt.Sprintf("<</Type/Pages/Kids[%s]/Count %d/MediaBox%s%s>>", strings.Join(kids, " "), len(pages), o.RootMediaBox, rot))
	d.Set(cat, fmt.Sprintf("<</Type/Catalog/Pages %s%s>>", Ref(root), o.CatalogExtra))
	d.Root = cat
	if !o.NoInfo {
		t := o.Title
		if t == "" {
			t = "docgen"
		}
		d.Info = d.Add(fmt.Sprintf("<</Title(%s)/Producer(docgen)%s>>", t, o.InfoExtra))
	}
	return d
}

// Marked returns a document with n pages carrying markers base+1..base+n.
func Marked(n, base int) []byte {
	ps := make([]PageSpec, n)
	for i := range ps {
		ps[i] = PageSpec{Marker: base + i + 1}
	}
	return Simple(ps, SimpleOpts{}).Bytes()
}

// HexStr writes arbitrary bytes as a PDF hex string.
func HexStr(b string) string { return fmt.Sprintf("<%x>", b) }

// AttSpec is one embedded file: name tree key, /F and /UF names (empty UF = absent), content.
type AttSpec struct {
	Key, F, UF string
	NoUF       bool
	Data       []byte
}

// WithAttachments builds a one-page document with an EmbeddedFiles name tree (single leaf).
func WithAttachments(atts []AttSpec) []byte {
	d := Simple([]PageSpec{{Marker: 1}}, SimpleOpts{})
	var names []string
	// name tree keys must be sorted
	sorted := append([]AttSpec{}, atts...)
	sort.SliceStable(sorted, func(i, j int) bool { return sorted[i].Key < sorted[j].Key })
	for _, a := range sorted {
		ef := d.AddStream("<</Type/EmbeddedFile>>", a.Data)
		uf := ""
		if !a.NoUF {
			uf = "/UF" + HexStr(a.UF)
		}
		fs := d.Add(fmt.Sprintf("<</Type/Filespec/F%s%s/EF<</F %s>>>>", HexStr(a.F), uf, Ref(ef)))
		names = append(names, HexStr(a.Key)+" "+Ref(fs))
	}
	nt := d.Add(fmt.Sprintf("<</Names[%s]>>", strings.Join(names, " ")))
	cat := d.objs[d.Root]
	cat.body = strings.TrimSuffix(cat.body, ">>") + fmt.Sprintf("/Names<</EmbeddedFiles %s>>>>", Ref(nt))
	return d.Bytes()
}

// PatchCatalog appends entries to the catalog dictionary.
func (d *Doc) PatchCatalog(entries string) {
	cat := d.objs[d.Root]
	cat.body = strings.TrimSuffix(cat.body, ">>") + entries + ">>"
}
