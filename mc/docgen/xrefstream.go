package docgen

import (
	"bytes"
	"compress/zlib"
	"fmt"
	"sort"
	"strings"
)

func deflate(b []byte) []byte {
	var z bytes.Buffer
	w := zlib.NewWriter(&z)
	w.Write(b)
	w.Close()
	return z.Bytes()
}

// BytesXRefStream serialises the document with a cross-reference stream (PDF 1.5+);
// with useObjStm every non-stream object is placed in one object stream.
func (d *Doc) BytesXRefStream(useObjStm bool) []byte {
	var b bytes.Buffer
	fmt.Fprintf(&b, "%%PDF-1.7\n%%\xe2\xe3\xcf\xd3\n")
	nrs := make([]int, 0, len(d.objs))
	for n := range d.objs {
		nrs = append(nrs, n)
	}
	sort.Ints(nrs)
	max := 0
	if len(nrs) > 0 {
		max = nrs[len(nrs)-1]
	}
	type ent struct {
		typ, a, b int
	}
	ents := map[int]ent{}
	var inStm []int
	for _, n := range nrs {
		o := d.objs[n]
		if useObjStm && !o.isStrm {
			inStm = append(inStm, n)
			continue
		}
		ents[n] = ent{1, b.Len(), 0}
		fmt.Fprintf(&b, "%d 0 obj\n", n)
		if o.isStrm {
			dict := strings.TrimSpace(o.body)
			if !strings.HasPrefix(dict, "<<") {
				dict = "<<" + dict + ">>"
			}
			dict = dict[:len(dict)-2] + fmt.Sprintf("/Length %d>>", len(o.stream))
			fmt.Fprintf(&b, "%s\nstream\n", dict)
			b.Write(o.stream)
			b.WriteString("\nendstream\n")
		} else {
			fmt.Fprintf(&b, "%s\n", o.body)
		}
		b.WriteString("endobj\n")
	}
	if len(inStm) > 0 {
		osNr := max + 1
		max = osNr
		var prolog, body bytes.Buffer
		var pnums []int
		for i, n := range inStm {
			pnums = append(pnums, n, body.Len())
			body.WriteString(d.objs[n].body)
			body.WriteString("\n")
			ents[n] = ent{2, osNr, i}
		}
		if d.PrologMutate != nil {
			pnums = d.PrologMutate(pnums, body.Len())
		}
		for _, v := range pnums {
			fmt.Fprintf(&prolog, "%d ", v)
		}
		data := append(prolog.Bytes(), body.Bytes()...)
		if d.Override["ObjStmPad"] != "" {
			var n int
			fmt.Sscan(d.Override["ObjStmPad"], &n) // pad the decoded stream to a total of n bytes
			if n > len(data) {
				data = append(data, bytes.Repeat([]byte{' '}, n-len(data))...)
			}
		}
		osParms := ""
		if d.Override["Predictor"] != "" {
			data, osParms = pngUp(data, 64), "/DecodeParms<</Predictor 12/Columns 64>>"
		}
		enc := deflate(data)
		ents[osNr] = ent{1, b.Len(), 0}
		nTxt, firstTxt := fmt.Sprint(len(inStm)), fmt.Sprint(prolog.Len())
		if d.Override["N"] != "" {
			nTxt = d.Override["N"]
		}
		if d.Override["First"] != "" {
			firstTxt = d.Override["First"]
		}
		fmt.Fprintf(&b, "%d 0 obj\n<</Type/ObjStm/N %s/First %s/Filter/FlateDecode%s/Length %d>>\nstream\n", osNr, nTxt, firstTxt, osParms, len(enc))
		b.Write(enc)
		b.WriteString("\nendstream\nendobj\n")
	}
	xNr := max + 1
	size := xNr + 1
	xOff := b.Len()
	ents[xNr] = ent{1, xOff, 0}
	// free list
	free := []int{0}
	for n := 1; n < size; n++ {
		if _, ok := ents[n]; !ok {
			free = append(free, n)
		}
	}
	next := map[int]int{}
	for i, f := range free {
		if i+1 < len(free) {
			next[f] = free[i+1]
		} else {
			next[f] = 0
		}
	}
	var rows bytes.Buffer
	var rws [][3]int
	for n := 0; n < size; n++ {
		e, ok := ents[n]
		if !ok {
			g := d.FreeGen
			if n == 0 {
				g = 65535
			}
			e = ent{0, next[n], g}
		}
		rws = append(rws, [3]int{e.typ, e.a, e.b})
	}
	if d.RowsMutate != nil {
		rws = d.RowsMutate(rws)
	}
	for _, e := range rws {
		rows.WriteByte(byte(e[0]))
		rows.Write([]byte{byte(e[1] >> 24), byte(e[1] >> 16), byte(e[1] >> 8), byte(e[1])})
		rows.Write([]byte{byte(e[2] >> 8), byte(e[2])})
	}
	if d.Override["XRefPad"] != "" {
		var n int
		fmt.Sscan(d.Override["XRefPad"], &n) // pad the decoded data to a total of n bytes
		if n > rows.Len() {
			rows.Write(make([]byte, n-rows.Len()))
		}
	}
	xdata := rows.Bytes()
	extra := ""
	if d.Override["Predictor"] != "" {
		xdata = pngUp(xdata, 7)
		extra += "/DecodeParms<</Predictor 12/Columns 7>>"
	}
	enc := deflate(xdata)
	if d.Info != 0 {
		extra += fmt.Sprintf("/Info %s", Ref(d.Info))
	}
	if d.ID[0] != "" {
		extra += fmt.Sprintf("/ID[<%s><%s>]", d.ID[0], d.ID[1])
	}
	sizeTxt := fmt.Sprint(size)
	if d.Override["Size"] != "" {
		sizeTxt = d.Override["Size"]
	}
	if d.Override["Index"] != "" {
		extra += "/Index" + d.Override["Index"]
	}
	fmt.Fprintf(&b, "%d 0 obj\n<</Type/XRef/Size %s/W[1 4 2]/Root %s%s%s/Filter/FlateDecode/Length %d>>\nstream\n", xNr, sizeTxt, Ref(d.Root), extra, d.Extra, len(enc))
	b.Write(enc)
	fmt.Fprintf(&b, "\nendstream\nendobj\nstartxref\n%d\n%%%%EOF\n", xOff)
	return b.Bytes()
}

// pngUp encodes data with the PNG Up predictor in rows of cols bytes (the last row zero padded is avoided:
// data is padded with blanks to a whole number of rows first, harmless for object stream bodies; xref rows are
// exactly 7 bytes wide).
func pngUp(data []byte, cols int) []byte {
	for len(data)%cols != 0 {
		data = append(data, ' ')
	}
	var out bytes.Buffer
	prev := make([]byte, cols)
	for i := 0; i < len(data); i += cols {
		row := data[i : i+cols]
		out.WriteByte(2)
		for j := range row {
			out.WriteByte(row[j] - prev[j])
		}
		prev = row
	}
	return out.Bytes()
}
