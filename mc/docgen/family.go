package docgen

import (
	"bytes"
	"encoding/hex"
	"fmt"
	"strings"
)

// FamDoc is one member of the enumerated document family.
type FamDoc struct {
	Name    string
	Bytes   []byte
	Markers []int    // expected marker sequence
	Rotate  []int    // expected effective rotation per page
	Media   []string // expected effective MediaBox per page, e.g. "[0 0 595 842]"
}

// famPages builds the page specs and the surrounding options for an attribute scheme.
func famTree(n int, nested bool, attrs string) (*Doc, []int, []int, []string) {
	d := New()
	cat := d.Reserve()
	root := d.Reserve()
	font := d.Add("<</Type/Font/Subtype/Type1/BaseFont/Helvetica/Encoding/WinAnsiEncoding>>")
	markers, rots, media := make([]int, n), make([]int, n), make([]string, n)
	rootBox, rootRot := "[0 0 595 842]", 0
	if attrs == "root-inherited" {
		rootRot = 90
		rootBox = "[0 0 400 500]"
	}
	pageDict := func(i, parent int, inhRot int, inhBox string) int {
		m := i + 1
		markers[i] = m
		cs := d.AddStream("<<>>", []byte(MarkerContent(m)))
		extra := ""
		rot, box := inhRot, inhBox
		if attrs == "per-page" {
			rot = []int{0, 90, 180, 270}[i%4]
			box = []string{"[0 0 595 842]", "[0 0 300 400]", "[10 10 500 700]", "[0 0 842 595]"}[i%4]
			extra = fmt.Sprintf("/Rotate %d/MediaBox%s", rot, box)
		}
		rots[i], media[i] = rot, box
		return d.Add(fmt.Sprintf("<</Type/Page/Parent %s/Resources<</Font<</F1 %s>>>>/Contents %s%s>>", Ref(parent), Ref(font), Ref(cs), extra))
	}
	var kids []string
	if nested && n >= 2 {
		h := n / 2
		idx := 0
		for part := 0; part < 2; part++ {
			cnt := h
			if part == 1 {
				cnt = n - h
			}
			node := d.Reserve()
			nodeRot, nodeBox, nodeExtra := rootRot, rootBox, ""
			if attrs == "first-subtree-defines" && part == 0 {
				// an intermediate node defines inheritable attributes; the later sibling subtree does not
				nodeRot, nodeBox = 90, "[0 0 300 400]"
				nodeExtra = "/Rotate 90/MediaBox[0 0 300 400]"
			}
			var ks []string
			for k := 0; k < cnt; k++ {
				ks = append(ks, Ref(pageDict(idx, node, nodeRot, nodeBox)))
				idx++
			}
			d.Set(node, fmt.Sprintf("<</Type/Pages/Parent %s/Kids[%s]/Count %d%s>>", Ref(root), strings.Join(ks, " "), cnt, nodeExtra))
			kids = append(kids, Ref(node))
		}
	} else {
		for i := 0; i < n; i++ {
			kids = append(kids, Ref(pageDict(i, root, rootRot, rootBox)))
		}
	}
	rot := ""
	if rootRot != 0 {
		rot = fmt.Sprintf("/Rotate %d", rootRot)
	}
	d.Set(root, fmt.Sprintf("<</Type/Pages/Kids[%s]/Count %d/MediaBox%s%s>>", strings.Join(kids, " "), n, rootBox, rot))
	d.Set(cat, fmt.Sprintf("<</Type/Catalog/Pages %s>>", Ref(root)))
	d.Root = cat
	d.Info = d.Add("<</Title(family)/Producer(docgen)/Keywords(k1; k2)>>")
	return d, markers, rots, media
}

// Family enumerates the document family. full=false gives the quick subset.
func Family(full bool) []FamDoc {
	var out []FamDoc
	add := func(name string, d *Doc, mk, rot []int, media []string, container string) {
		var b []byte
		switch container {
		case "xrefstream":
			b = d.BytesXRefStream(false)
		case "objstream":
			b = d.BytesXRefStream(true)
		case "indirect-lengths":
			d.IndirectLengths = true
			b = d.Bytes()
		case "indirect-lengths-zero":
			d.IndirectLengths, d.ZeroLengths = true, true
			b = d.Bytes()
		default:
			b = d.Bytes()
		}
		out = append(out, FamDoc{Name: name + "/" + container, Bytes: b, Markers: mk, Rotate: rot, Media: media})
	}
	// (1) page tree shapes x attribute schemes
	for n := 1; n <= 4; n++ {
		for _, nested := range []bool{false, true} {
			if nested && n < 2 {
				continue
			}
			for _, attrs := range []string{"none", "root-inherited", "per-page", "first-subtree-defines"} {
				if attrs == "first-subtree-defines" && !nested {
					continue
				}
				if !full && !(n == 3 || (n == 4 && nested) || (n == 1 && attrs == "none")) {
					continue
				}
				d, mk, rot, media := famTree(n, nested, attrs)
				add(fmt.Sprintf("pages=%d,nested=%v,attrs=%s", n, nested, attrs), d, mk, rot, media, "classic")
			}
		}
	}
	// (2) containers x numbering x extras on a 3-page nested document
	for _, container := range []string{"classic", "xrefstream", "objstream", "indirect-lengths", "indirect-lengths-zero"} {
		for _, numbering := range []string{"dense", "gaps", "dangling-free-ref", "dangling-free-ref-gen1", "dangling-free-ref-twice", "dangling-popup-ref"} {
			for _, extra := range []string{"none", "attachment", "outline", "filters", "no-info", "hazard-names", "shared-indirect-attrs"} {
				if numbering == "dangling-popup-ref" && (!(extra == "none" || extra == "no-info") || strings.HasPrefix(container, "indirect-lengths")) {
					continue
				}
				if numbering == "dangling-free-ref-twice" && (extra != "none" || strings.HasPrefix(container, "indirect-lengths")) {
					continue
				}
				if strings.HasPrefix(container, "indirect-lengths") && !(extra == "none" || extra == "filters") {
					continue
				}
				if strings.HasPrefix(container, "indirect-lengths") && numbering != "dense" && (!full || container == "indirect-lengths-zero") {
					continue
				}
				if !full && !(extra == "none" || (container == "classic" && numbering == "dense") || (extra == "hazard-names" && numbering == "dense") || (container == "objstream" && numbering == "gaps" && extra == "filters")) {
					continue
				}
				d, mk, rot, media := famTree(3, true, "first-subtree-defines")
				switch numbering {
				case "gaps":
					d.SkipNumbers(3)
					d.Add("<</Unused true>>")
				case "dangling-popup-ref":
					// as after an incremental update that deleted a popup annotation: the only free object is still
					// named by /Popup of its parent annotation, below a page
					d.FreeGen = 1 // a deleted object's entry carries the next generation
					fr := d.Reserve()
					for _, nr := range sortedKeys(d.objs) {
						o := d.objs[nr]
						if strings.Contains(o.body, "/Type/Page/") {
							an := d.Add(fmt.Sprintf("<</Type/Annot/Subtype/Text/Rect[10 10 30 30]/Contents(note)/P %s/Popup %s>>", Ref(nr), Ref(fr)))
							o.body = strings.TrimSuffix(o.body, ">>") + fmt.Sprintf("/Annots[%s]>>", Ref(an))
							break
						}
					}
				case "dangling-free-ref", "dangling-free-ref-gen1", "dangling-free-ref-twice":
					// two free objects; a live object references the second one (generation 0 reference); in the
					// gen1 variant the free entries carry generation 1, as after a real deletion
					if numbering == "dangling-free-ref-gen1" {
						d.FreeGen = 1
					}
					free1 := d.Reserve()
					free2 := d.Reserve()
					_ = free1
					d.Add("<</Unused true>>")
					cat := d.objs[d.Root]
					cat.body = strings.TrimSuffix(cat.body, ">>") + fmt.Sprintf("/Lang %s>>", Ref(free2))
					if numbering == "dangling-free-ref-twice" {
						// the same free object is referenced a second time, from below a page
						for _, nr := range sortedKeys(d.objs) {
							o := d.objs[nr]
							if strings.Contains(o.body, "/Type/Page/") {
								o.body = strings.TrimSuffix(o.body, ">>") + fmt.Sprintf("/Annots[%s]>>", Ref(free2))
								break
							}
						}
					}
				}
				switch extra {
				case "attachment":
					ef := d.AddStream("<</Type/EmbeddedFile>>", []byte("attached bytes\n"))
					fs := d.Add(fmt.Sprintf("<</Type/Filespec/F(a.txt)/UF(a.txt)/EF<</F %s>>>>", Ref(ef)))
					nt := d.Add(fmt.Sprintf("<</Names[(a.txt) %s]>>", Ref(fs)))
					cat := d.objs[d.Root]
					cat.body = strings.TrimSuffix(cat.body, ">>") + fmt.Sprintf("/Names<</EmbeddedFiles %s>>>>", Ref(nt))
				case "outline":
					ol := d.Reserve()
					// find first page object: it is referenced from the first intermediate node; use a named destination-free /Dest with page ref
					it := d.Add(fmt.Sprintf("<</Title(One)/Parent %s/Dest[%s /Fit]>>", Ref(ol), firstPageRef(d)))
					d.Set(ol, fmt.Sprintf("<</Type/Outlines/First %s/Last %s/Count 1>>", Ref(it), Ref(it)))
					cat := d.objs[d.Root]
					cat.body = strings.TrimSuffix(cat.body, ">>") + fmt.Sprintf("/Outlines %s>>", Ref(ol))
				case "filters":
					// re-encode every content stream: page 1 Flate, page 2 ASCIIHex>Flate, page 3 ASCII85-free plain
					k := 0
					for _, nr := range sortedKeys(d.objs) {
						o := d.objs[nr]
						if !o.isStrm || !strings.Contains(string(o.stream), " cm Q") {
							continue
						}
						switch k % 3 {
						case 0:
							o.stream = deflate(o.stream)
							o.body = "<</Filter/FlateDecode>>"
						case 1:
							o.stream = []byte(hex.EncodeToString(deflate(o.stream)) + ">")
							o.body = "<</Filter[/ASCIIHexDecode/FlateDecode]>>"
						}
						k++
					}
				case "hazard-names":
					// resource names and a dictionary key with bytes that need #xx escapes (UTF-8 no-break and ideographic spaces, '#', delimiter);
					// two names whose only special character is a literal '#' followed by two hex digits ("F#31" must not become "F1")
					for _, nr := range sortedKeys(d.objs) {
						o := d.objs[nr]
						if strings.Contains(o.body, "/Type/Page/") {
							o.body = strings.Replace(o.body, "/Font<</F1 ", "/Font<</Lime#c2#a0Green 3 0 R/Spot#e3#80#80One 3 0 R/A#23B#28 3 0 R/F#2331 3 0 R/Layer#2312 3 0 R/F1 ", 1)
						}
						if o.isStrm && strings.Contains(string(o.stream), " cm Q") {
							// the content uses the fonts, so that optimisation keeps them
							o.stream = append(o.stream, []byte("BT /Lime#c2#a0Green 9 Tf 10 10 Td (x) Tj /Spot#e3#80#80One 9 Tf (y) Tj /A#23B#28 9 Tf (z) Tj /F#2331 9 Tf (v) Tj /Layer#2312 9 Tf (w) Tj ET\n")...)
						}
					}
				case "shared-indirect-attrs":
					// page attributes held in indirect objects that several pages share: the pages with an explicit
					// /MediaBox all point at ONE array object per distinct box, and every page's /Resources is one
					// shared dictionary object. An operation that edits such an object in place for one page
					// changes its siblings.
					boxObj := map[string]int{}
					resObj := 0
					pi := 0
					// the shared font dictionary holds one extra name per page (P1, P2, ...), each used by its page only:
					// pruning for one page must not take away what the others use
					nPages := 0
					for _, nr := range sortedKeys(d.objs) {
						if strings.Contains(d.objs[nr].body, "/Type/Page/") {
							nPages++
						}
					}
					extraFonts := ""
					for k := 1; k <= nPages; k++ {
						extraFonts += fmt.Sprintf("/P%d 3 0 R", k)
					}
					k := 0
					for _, nr := range sortedKeys(d.objs) {
						o := d.objs[nr]
						if o.isStrm && strings.Contains(string(o.stream), " cm Q") {
							k++
							o.stream = append(o.stream, []byte(fmt.Sprintf("BT /P%d 9 Tf 10 10 Td (p) Tj ET\n", k))...)
						}
						if strings.Contains(o.body, "/Type/Page/") {
							o.body = strings.Replace(o.body, "/Font<</F1 ", "/Font<<"+extraFonts+"/F1 ", 1)
						}
					}
					for _, nr := range sortedKeys(d.objs) {
						o := d.objs[nr]
						if !strings.Contains(o.body, "/Type/Page/") {
							continue
						}
						// pages are created in page order: the pi-th page dictionary is page pi+1. A page without a box
						// of its own gets an explicit one equal to what it inherits, through the shared object.
						box := media[pi]
						pi++
						if i := strings.Index(o.body, "/MediaBox["); i >= 0 {
							j := i + strings.Index(o.body[i:], "]") + 1
							o.body = o.body[:i] + o.body[j:]
						}
						if boxObj[box] == 0 {
							boxObj[box] = d.Add(box)
						}
						o.body = strings.TrimSuffix(o.body, ">>") + "/MediaBox " + Ref(boxObj[box]) + ">>"
						if i := strings.Index(o.body, "/Resources<<"); i >= 0 {
							// balanced end of the dictionary
							depth, j := 0, i+len("/Resources")
							for k := j; k < len(o.body)-1; k++ {
								if o.body[k:k+2] == "<<" {
									depth++
									k++
								} else if o.body[k:k+2] == ">>" {
									depth--
									k++
									if depth == 0 {
										j = k + 1
										break
									}
								}
							}
							if resObj == 0 {
								resObj = d.Add(o.body[i+len("/Resources") : j])
							}
							o.body = o.body[:i] + "/Resources " + Ref(resObj) + o.body[j:]
						}
					}
				case "no-info":
					delete(d.objs, d.Info)
					d.Info = 0
				}
				if extra == "shared-indirect-attrs" {
					// ... and the page tree root passes down resources of another category only
					for _, nr := range sortedKeys(d.objs) {
						o := d.objs[nr]
						if strings.Contains(o.body, "/Type/Pages/Kids") && !strings.Contains(o.body, "/Parent") {
							o.body = strings.TrimSuffix(o.body, ">>") + "/Resources<</ExtGState<</GX<</LW 1>>>>>>>>"
						}
					}
				}
				add(fmt.Sprintf("numbering=%s,extra=%s", numbering, extra), d, mk, rot, media, container)
			}
		}
	}
	return out
}

func sortedKeys(m map[int]*object) []int {
	var ks []int
	for k := range m {
		ks = append(ks, k)
	}
	for i := 1; i < len(ks); i++ {
		for j := i; j > 0 && ks[j] < ks[j-1]; j-- {
			ks[j], ks[j-1] = ks[j-1], ks[j]
		}
	}
	return ks
}

func firstPageRef(d *Doc) string {
	for _, nr := range sortedKeys(d.objs) {
		if strings.Contains(d.objs[nr].body, "/Type/Page/") {
			return Ref(nr)
		}
	}
	return "null"
}

// CryptoDoc builds documents that carry strings and streams in every kind of place
// (for the encryption round-trip and plaintext-leak checks). marker is embedded in every string.
func CryptoDoc(kind, marker string, container string) []byte {
	d := Simple([]PageSpec{{Marker: 1, Contents: []string{fmt.Sprintf("BT /F1 12 Tf 72 720 Td (%s-content) Tj ET\nq 1 0 0 1 1 0 cm Q\n", marker)}}, {Marker: 2}}, SimpleOpts{Title: marker + "-title", InfoExtra: fmt.Sprintf("/Subject<%x>/Custom(%s-\\(custom\\)\\\\)", marker+"-hexsubject", marker)})
	switch kind {
	case "nested":
		// strings in nested arrays and dictionaries, empty strings (in a private key of an annotation dictionary)
		pg := firstPageRef(d)
		an := d.Add(fmt.Sprintf("<</Type/Annot/Subtype/Text/Rect[10 10 50 50]/Contents(%s-n)/P %s/VerifPrivate<</A[(%s-arr1)[(%s-arr2)<</K(%s-dict3)/E()>>]]/B<</C<</D(%s-deep)>>>>>>>>", marker, pg, marker, marker, marker, marker))
		for _, nr := range sortedKeys(d.objs) {
			if Ref(nr) == pg {
				o := d.objs[nr]
				o.body = strings.TrimSuffix(o.body, ">>") + fmt.Sprintf("/Annots[%s]>>", Ref(an))
			}
		}
	case "indirect-private":
		// strings in objects of their own that nothing but a private key refers to (validation never looks at
		// them): a dictionary, an array, a string literal and a hex string, each an indirect object; and the
		// annotation's /Contents as an indirect string object
		pg := firstPageRef(d)
		pd := d.Add(fmt.Sprintf("<</S(%s-pdict)/H<%x>/N<</D(%s-pnested)>>>>", marker, marker+"-phex", marker))
		pa := d.Add(fmt.Sprintf("[(%s-parr)[(%s-parr2)]]", marker, marker))
		ps := d.Add(fmt.Sprintf("(%s-pstr)", marker))
		ph := d.Add(fmt.Sprintf("<%x>", marker+"-phexobj"))
		pc := d.Add(fmt.Sprintf("(%s-pcontents)", marker))
		an := d.Add(fmt.Sprintf("<</Type/Annot/Subtype/Text/Rect[10 10 50 50]/Contents %s/P %s/VerifPrivate<</A %s/B %s/C %s/D %s>>>>", Ref(pc), pg, Ref(pd), Ref(pa), Ref(ps), Ref(ph)))
		for _, nr := range sortedKeys(d.objs) {
			if Ref(nr) == pg {
				o := d.objs[nr]
				o.body = strings.TrimSuffix(o.body, ">>") + fmt.Sprintf("/Annots[%s]>>", Ref(an))
			}
		}
	case "annotation":
		pg := firstPageRef(d)
		an := d.Add(fmt.Sprintf("<</Type/Annot/Subtype/Text/Rect[10 10 50 50]/Contents(%s-annot)/T<%x>/P %s>>", marker, marker+"-author", pg))
		for _, nr := range sortedKeys(d.objs) {
			if Ref(nr) == pg {
				o := d.objs[nr]
				o.body = strings.TrimSuffix(o.body, ">>") + fmt.Sprintf("/Annots[%s]>>", Ref(an))
			}
		}
	case "attachment":
		ef := d.AddStream("<</Type/EmbeddedFile>>", []byte(marker+"-attachment-bytes"))
		fs := d.Add(fmt.Sprintf("<</Type/Filespec/F(%s-file.txt)/UF(%s-file.txt)/Desc(%s-desc)/EF<</F %s>>>>", marker, marker, marker, Ref(ef)))
		nt := d.Add(fmt.Sprintf("<</Names[(%s-key) %s]>>", marker, Ref(fs)))
		d.PatchCatalog(fmt.Sprintf("/Names<</EmbeddedFiles %s>>", Ref(nt)))
	case "streamdict":
		// strings that live in the dictionary part of stream objects: embedded file /Params, form XObject
		// /LastModified and private data, a hex string in a content stream's dictionary
		ef := d.AddStream(fmt.Sprintf("<</Type/EmbeddedFile/Params<</CheckSum(%s-checksum)/ModDate(D:20240101000000Z)/Size 5>>>>", marker), []byte(marker+"-attachment-bytes"))
		fs := d.Add(fmt.Sprintf("<</Type/Filespec/F(%s-file.txt)/UF(%s-file.txt)/EF<</F %s>>>>", marker, marker, Ref(ef)))
		nt := d.Add(fmt.Sprintf("<</Names[(%s-key) %s]>>", marker, Ref(fs)))
		d.PatchCatalog(fmt.Sprintf("/Names<</EmbeddedFiles %s>>", Ref(nt)))
		pgs := d.PageNrs()
		fx := d.AddStream(fmt.Sprintf("<</Type/XObject/Subtype/Form/BBox[0 0 10 10]/LastModified(%s-lastmodified)/VerifPrivate<</Private(%s-private)/PrivateHex<%x>>>>>", marker, marker, marker+"-hexprivate"), []byte("0 0 m 5 5 l S\n"))
		d.AddResources(pgs[0], fmt.Sprintf("/XObject<</FX %s>>", Ref(fx)))
	case "outline":
		ol := d.Reserve()
		it := d.Add(fmt.Sprintf("<</Title(%s-bookmark)/Parent %s/Dest[%s /Fit]>>", marker, Ref(ol), firstPageRef(d)))
		d.Set(ol, fmt.Sprintf("<</Type/Outlines/First %s/Last %s/Count 1>>", Ref(it), Ref(it)))
		d.PatchCatalog(fmt.Sprintf("/Outlines %s", Ref(ol)))
	case "xmp":
		md := d.AddStream("<</Type/Metadata/Subtype/XML>>", []byte(fmt.Sprintf("<?xpacket begin='' id='W5M0MpCehiHzreSzNTczkc9d'?><x:xmpmeta xmlns:x='adobe:ns:meta/'><rdf:RDF xmlns:rdf='http://www.w3.org/1999/02/22-rdf-syntax-ns#'><rdf:Description rdf:about='' xmlns:dc='http://purl.org/dc/elements/1.1/'><dc:title>%s-xmp</dc:title></rdf:Description></rdf:RDF></x:xmpmeta><?xpacket end='w'?>", marker)))
		d.PatchCatalog(fmt.Sprintf("/Metadata %s", Ref(md)))
	case "filters":
		for _, nr := range sortedKeys(d.objs) {
			o := d.objs[nr]
			if o.isStrm && strings.Contains(string(o.stream), "-content") {
				o.stream = deflate(o.stream)
				o.body = "<</Filter/FlateDecode>>"
			}
		}
	case "sigdict", "sigdict-untyped":
		pg := firstPageRef(d)
		typ := "/Type/Sig"
		if kind == "sigdict-untyped" {
			typ = "" // /Type is optional in a signature dictionary
		}
		sig := d.Add(fmt.Sprintf("<<"+typ+"/Filter/Adobe.PPKLite/SubFilter/adbe.pkcs7.detached/Name(%s-signer)/Reason(%s-reason)/Location(%s-location)/M(D:20240101000000Z)/Contents<%s>/ByteRange[0 10 20 10]>>", marker, marker, marker, strings.Repeat("00", 32)))
		fld := d.Add(fmt.Sprintf("<</FT/Sig/T(sig1)/V %s/Type/Annot/Subtype/Widget/Rect[0 0 0 0]/F 132/P %s>>", Ref(sig), pg))
		d.PatchCatalog(fmt.Sprintf("/AcroForm<</Fields[%s]/SigFlags 3>>", Ref(fld)))
		for _, nr := range sortedKeys(d.objs) {
			if Ref(nr) == pg {
				o := d.objs[nr]
				o.body = strings.TrimSuffix(o.body, ">>") + fmt.Sprintf("/Annots[%s]>>", Ref(fld))
			}
		}
	case "blockaligned":
		// strings and a stream whose plaintext is a multiple of 16 bytes and ends in padding-like bytes
		tail := "\x03\x03\x03"
		s16 := (marker + "-pad-0123456789abcdef")[:13] + tail
		pgb := firstPageRef(d)
		anb := d.Add(fmt.Sprintf("<</Type/Annot/Subtype/Text/Rect[10 10 50 50]/Contents<%x>/T<%x>/P %s>>", s16, strings.Repeat("\x10", 16), pgb))
		for _, nr := range sortedKeys(d.objs) {
			if Ref(nr) == pgb {
				o := d.objs[nr]
				o.body = strings.TrimSuffix(o.body, ">>") + fmt.Sprintf("/Annots[%s]>>", Ref(anb))
			}
		}
		img := append([]byte(marker + "-img-")[:12], 0x04, 0x04, 0x04, 0x04)
		x := d.AddStream("<</Type/XObject/Subtype/Image/Width 4/Height 4/ColorSpace/DeviceGray/BitsPerComponent 8>>", img)
		for _, nr := range sortedKeys(d.objs) {
			o := d.objs[nr]
			if strings.Contains(o.body, "/Type/Page/") {
				o.body = strings.Replace(o.body, "/Resources<<", fmt.Sprintf("/Resources<</XObject<</Im1 %s>>", Ref(x)), 1)
			}
		}
	}
	switch container {
	case "xrefstream":
		return d.BytesXRefStream(false)
	case "objstream":
		return d.BytesXRefStream(true)
	case "indirect-lengths":
		d.IndirectLengths = true
	}
	return d.Bytes()
}

// CryptoKinds lists the location kinds of CryptoDoc.
var CryptoKinds = []string{"plain", "nested", "indirect-private", "annotation", "attachment", "outline", "xmp", "filters", "blockaligned", "sigdict", "sigdict-untyped", "streamdict"}

// FormDoc builds small AcroForm documents by hand.
//
//	"flat-own-da":      AcroForm without /DA; one top-level text field carrying its own /DA
//	"nested-inherit-da": AcroForm with /DA; a non-terminal field 'person' (no /FT) with a terminal text kid that inherits /DA
func FormDoc(variant string) []byte {
	d := Simple([]PageSpec{{Marker: 1}}, SimpleOpts{Title: "form " + variant})
	pg := firstPageRef(d)
	helv := d.Add("<</Type/Font/Subtype/Type1/BaseFont/Helvetica/Encoding/WinAnsiEncoding>>")
	var fields, annots string
	da := ""
	switch variant {
	case "flat-own-da":
		f := d.Add(fmt.Sprintf("<</FT/Tx/T(a)/V(va)/DA(/Helv 12 Tf 0 g)/Type/Annot/Subtype/Widget/Rect[50 700 200 720]/F 4/P %s>>", pg))
		fields, annots = Ref(f), Ref(f)
	default:
		da = "/DA(/Helv 10 Tf 0 g)"
		parent := d.Reserve()
		kid := d.Add(fmt.Sprintf("<</FT/Tx/T(name)/V(vn)/Parent %s/Type/Annot/Subtype/Widget/Rect[50 650 200 670]/F 4/P %s>>", Ref(parent), pg))
		d.Set(parent, fmt.Sprintf("<</T(person)/Kids[%s]>>", Ref(kid)))
		fields, annots = Ref(parent), Ref(kid)
	}
	d.PatchCatalog(fmt.Sprintf("/AcroForm<</Fields[%s]%s/DR<</Font<</Helv %s>>>>>>", fields, da, Ref(helv)))
	for _, nr := range sortedKeys(d.objs) {
		if Ref(nr) == pg {
			o := d.objs[nr]
			o.body = strings.TrimSuffix(o.body, ">>") + fmt.Sprintf("/Annots[%s]>>", annots)
		}
	}
	return d.Bytes()
}

// ForeignFormVariants lists the hand-built AcroForms of ForeignForm.
var ForeignFormVariants = []string{"classic", "classic-objstm", "hierarchy"}

// ForeignForm builds an AcroForm the way other producers write them, using structures pdfcpu's own form
// writer never emits: hierarchical field names with inherited /FT and /DA, values as UTF-16BE hex strings,
// check boxes whose on-state is not /Yes, radio groups with and without an explicit /Opt array, choice
// fields with [export display] option pairs, /I selection indices, /MaxLen, multi-line text.
// "classic-objstm" is the same document written with object streams and a cross-reference stream.
func ForeignForm(variant string) []byte {
	if variant == "hierarchy" {
		return foreignHierarchy()
	}
	d := Simple([]PageSpec{{Marker: 1}}, SimpleOpts{Title: "foreign form"})
	pg := firstPageRef(d)
	helv := d.Add("<</Type/Font/Subtype/Type1/BaseFont/Helvetica/Encoding/WinAnsiEncoding>>")
	zadb := d.Add("<</Type/Font/Subtype/Type1/BaseFont/ZapfDingbats>>")
	ap := func(w, h int) string {
		return Ref(d.AddStream(fmt.Sprintf("<</Type/XObject/Subtype/Form/BBox[0 0 %d %d]/Resources<</Font<</Helv %s/ZaDb %s>>>>>>", w, h, Ref(helv), Ref(zadb)), []byte("q Q\n")))
	}
	var fields, annots []string
	y := 760
	rect := func(w, h int) string {
		y -= h + 8
		return fmt.Sprintf("/Rect[100 %d %d %d]", y, 100+w, y+h)
	}
	widget := func(extra string, w, h int) string {
		return fmt.Sprintf("/Type/Annot/Subtype/Widget%s/F 4/P %s%s", rect(w, h), pg, extra)
	}
	top := func(body string, isWidget bool) int {
		nr := d.Add("<<" + body + ">>")
		fields = append(fields, Ref(nr))
		if isWidget {
			annots = append(annots, Ref(nr))
		}
		return nr
	}
	// 1. hierarchical text fields, /FT inherited from the non-terminal parent
	parent := d.Reserve()
	first := d.Add(fmt.Sprintf("<</T(first)/V(Ann)/Parent %s/%s/AP<</N %s>>>>", Ref(parent), widget("", 150, 18)[1:], ap(150, 18)))
	last := d.Add(fmt.Sprintf("<</T(last)/V<FEFF004D00FC006C006C00650072>/Parent %s/%s/AP<</N %s>>>>", Ref(parent), widget("", 150, 18)[1:], ap(150, 18)))
	d.Set(parent, fmt.Sprintf("<</T(name)/FT/Tx/Kids[%s %s]>>", Ref(first), Ref(last)))
	fields = append(fields, Ref(parent))
	annots = append(annots, Ref(first), Ref(last))
	// 2. MaxLen, 3. multi-line
	top(fmt.Sprintf("/FT/Tx/T(code)/MaxLen 4/V(abcd)/%s/AP<</N %s>>", widget("", 60, 18)[1:], ap(60, 18)), true)
	top(fmt.Sprintf("/FT/Tx/T(notes)/Ff 4096/V(one\\rtwo)/%s/AP<</N %s>>", widget("", 150, 40)[1:], ap(150, 40)), true)
	// 4./5. check boxes with unusual on-state names
	top(fmt.Sprintf("/FT/Btn/T(agree)/V/On/AS/On/MK<</CA(4)>>/%s/AP<</N<</On %s/Off %s>>>>", widget("", 12, 12)[1:], ap(12, 12), ap(12, 12)), true)
	top(fmt.Sprintf("/FT/Btn/T(news)/V/Off/AS/Off/MK<</CA(4)>>/%s/AP<</N<</1 %s/Off %s>>>>", widget("", 12, 12)[1:], ap(12, 12), ap(12, 12)), true)
	// 6. radio group, option names from the appearance states
	rg := d.Reserve()
	var kids []string
	for _, st := range []string{"a", "b", "c"} {
		as := "Off"
		if st == "b" {
			as = st
		}
		k := d.Add(fmt.Sprintf("<</Parent %s/AS/%s/MK<</CA(l)>>/%s/AP<</N<</%s %s/Off %s>>>>>>", Ref(rg), as, widget("", 12, 12)[1:], st, ap(12, 12), ap(12, 12)))
		kids = append(kids, Ref(k))
		annots = append(annots, Ref(k))
	}
	d.Set(rg, fmt.Sprintf("<</FT/Btn/Ff 49152/T(size)/V/b/Kids[%s]>>", strings.Join(kids, " ")))
	fields = append(fields, Ref(rg))
	// 7. radio group with explicit /Opt: appearance states are indices
	rg2 := d.Reserve()
	kids = nil
	for i := range []string{"first", "second"} {
		as := "Off"
		if i == 1 {
			as = "1"
		}
		k := d.Add(fmt.Sprintf("<</Parent %s/AS/%s/MK<</CA(l)>>/%s/AP<</N<</%d %s/Off %s>>>>>>", Ref(rg2), as, widget("", 12, 12)[1:], i, ap(12, 12), ap(12, 12)))
		kids = append(kids, Ref(k))
		annots = append(annots, Ref(k))
	}
	d.Set(rg2, fmt.Sprintf("<</FT/Btn/Ff 49152/T(rank)/V/1/Opt[(first)(second)]/Kids[%s]>>", strings.Join(kids, " ")))
	fields = append(fields, Ref(rg2))
	// 8./9. combo boxes: plain options and [export display] pairs
	top(fmt.Sprintf("/FT/Ch/Ff 131072/T(colour)/Opt[(red)(green)(blue)]/V(green)/%s/AP<</N %s>>", widget("", 100, 18)[1:], ap(100, 18)), true)
	top(fmt.Sprintf("/FT/Ch/Ff 131072/T(tier)/Opt[[(e1)(One)][(e2)(Two)][(e3)(Three)]]/V(e2)/%s/AP<</N %s>>", widget("", 100, 18)[1:], ap(100, 18)), true)
	// 10./11. list boxes: multi-select with /I, single select
	top(fmt.Sprintf("/FT/Ch/Ff 2097152/T(toppings)/Opt[(x)(y)(z)]/V[(x)(z)]/I[0 2]/%s/AP<</N %s>>", widget("", 100, 42)[1:], ap(100, 42)), true)
	top(fmt.Sprintf("/FT/Ch/T(side)/Opt[(p)(q)(r)]/V(q)/I[1]/%s/AP<</N %s>>", widget("", 100, 42)[1:], ap(100, 42)), true)

	d.PatchCatalog(fmt.Sprintf("/AcroForm<</Fields[%s]/DA(/Helv 10 Tf 0 g)/DR<</Font<</Helv %s/ZaDb %s>>>>>>", strings.Join(fields, " "), Ref(helv), Ref(zadb)))
	for _, nr := range sortedKeys(d.objs) {
		if Ref(nr) == pg {
			o := d.objs[nr]
			o.body = strings.TrimSuffix(o.body, ">>") + fmt.Sprintf("/Annots[%s]>>", strings.Join(annots, " "))
		}
	}
	if variant == "classic-objstm" {
		return d.BytesXRefStream(true)
	}
	return d.Bytes()
}

// foreignHierarchy: non-terminal fields without /FT two levels deep, one field shown by two widgets,
// flags inherited from a non-terminal parent.
func foreignHierarchy() []byte {
	d := Simple([]PageSpec{{Marker: 1}}, SimpleOpts{Title: "foreign form hierarchy"})
	pg := firstPageRef(d)
	helv := d.Add("<</Type/Font/Subtype/Type1/BaseFont/Helvetica/Encoding/WinAnsiEncoding>>")
	ap := func(w, h int) string {
		return Ref(d.AddStream(fmt.Sprintf("<</Type/XObject/Subtype/Form/BBox[0 0 %d %d]/Resources<</Font<</Helv %s>>>>>>", w, h, Ref(helv)), []byte("q Q\n")))
	}
	y := 760
	var annots []string
	widget := func(w, h int) string {
		y -= h + 8
		return fmt.Sprintf("/Type/Annot/Subtype/Widget/Rect[100 %d %d %d]/F 4/P %s/AP<</N %s>>", y, 100+w, y+h, pg, ap(w, h))
	}
	person, address := d.Reserve(), d.Reserve()
	first := d.Add(fmt.Sprintf("<</FT/Tx/T(first)/V(Ann)/Parent %s%s>>", Ref(person), widget(150, 18)))
	last := d.Add(fmt.Sprintf("<</FT/Tx/T(last)/V<FEFF004D00FC006C006C00650072>/Parent %s%s>>", Ref(person), widget(150, 18)))
	street := d.Add(fmt.Sprintf("<</FT/Tx/T(street)/V(Main St 1)/Parent %s%s>>", Ref(address), widget(150, 18)))
	city := d.Add(fmt.Sprintf("<</FT/Ch/Ff 131072/T(city)/Opt[(Wien)(Graz)(Linz)]/V(Graz)/Parent %s%s>>", Ref(address), widget(100, 18)))
	d.Set(address, fmt.Sprintf("<</T(address)/Parent %s/Kids[%s %s]>>", Ref(person), Ref(street), Ref(city)))
	d.Set(person, fmt.Sprintf("<</T(person)/Kids[%s %s %s]>>", Ref(first), Ref(last), Ref(address)))
	annots = append(annots, Ref(first), Ref(last), Ref(street), Ref(city))
	// one text field, two widgets
	twice := d.Reserve()
	w1 := d.Add(fmt.Sprintf("<</Parent %s%s>>", Ref(twice), widget(120, 18)))
	w2 := d.Add(fmt.Sprintf("<</Parent %s%s>>", Ref(twice), widget(120, 18)))
	d.Set(twice, fmt.Sprintf("<</FT/Tx/T(ref)/V(R-1)/Kids[%s %s]>>", Ref(w1), Ref(w2)))
	annots = append(annots, Ref(w1), Ref(w2))
	// a group that passes the read-only flag down
	grp := d.Reserve()
	ro := d.Add(fmt.Sprintf("<</FT/Tx/T(fixed)/V(const)/Parent %s%s>>", Ref(grp), widget(120, 18)))
	d.Set(grp, fmt.Sprintf("<</T(meta)/Ff 1/Kids[%s]>>", Ref(ro)))
	annots = append(annots, Ref(ro))
	d.PatchCatalog(fmt.Sprintf("/AcroForm<</Fields[%s %s %s]/DA(/Helv 10 Tf 0 g)/DR<</Font<</Helv %s>>>>>>", Ref(person), Ref(twice), Ref(grp), Ref(helv)))
	for _, nr := range sortedKeys(d.objs) {
		if Ref(nr) == pg {
			o := d.objs[nr]
			o.body = strings.TrimSuffix(o.body, ">>") + fmt.Sprintf("/Annots[%s]>>", strings.Join(annots, " "))
		}
	}
	return d.Bytes()
}

// TwoRevisionFreedPopup: a one-page document (the page has neither contents nor resources) in two revisions, the way
// an editor deletes an annotation: revision 1 holds a text annotation and its popup; revision 2 (an incremental
// update with /Prev) rewrites the page without the popup and puts the popup's object number on the free list with
// generation 1, while the text annotation still says /Popup 5 0 R. A reference to a free object is legal (null).
func TwoRevisionFreedPopup(withInfo bool) []byte {
	var b bytes.Buffer
	b.WriteString("%PDF-1.7\n%\xe2\xe3\xcf\xd3\n")
	rev1 := []string{
		"<< /Type /Catalog /Pages 2 0 R >>",
		"<< /Type /Pages /Kids [3 0 R] /Count 1 >>",
		"<< /Type /Page /Parent 2 0 R /MediaBox [0 0 300 300] /Annots [4 0 R 5 0 R] >>",
		"<< /Type /Annot /Subtype /Text /Rect [10 10 30 30] /Contents (a note) /Popup 5 0 R /P 3 0 R >>",
		"<< /Type /Annot /Subtype /Popup /Rect [40 40 140 100] /Parent 4 0 R /P 3 0 R >>",
	}
	info := ""
	if withInfo {
		rev1 = append(rev1, "<< /Producer (some other editor) /Title (two revisions) >>")
		info = fmt.Sprintf(" /Info %d 0 R", len(rev1))
	}
	offs := make([]int, len(rev1)+1)
	for i, o := range rev1 {
		offs[i+1] = b.Len()
		fmt.Fprintf(&b, "%d 0 obj\n%s\nendobj\n", i+1, o)
	}
	xref1 := b.Len()
	fmt.Fprintf(&b, "xref\n0 %d\n", len(rev1)+1)
	b.WriteString("0000000000 65535 f \n")
	for i := 1; i <= len(rev1); i++ {
		fmt.Fprintf(&b, "%010d 00000 n \n", offs[i])
	}
	fmt.Fprintf(&b, "trailer\n<< /Size %d /Root 1 0 R%s >>\nstartxref\n%d\n%%%%EOF\n", len(rev1)+1, info, xref1)
	off3 := b.Len()
	b.WriteString("3 0 obj\n<< /Type /Page /Parent 2 0 R /MediaBox [0 0 300 300] /Annots [4 0 R] >>\nendobj\n")
	xref2 := b.Len()
	b.WriteString("xref\n0 1\n0000000005 65535 f \n")
	fmt.Fprintf(&b, "3 1\n%010d 00000 n \n", off3)
	b.WriteString("5 1\n0000000000 00001 f \n")
	fmt.Fprintf(&b, "trailer\n<< /Size %d /Root 1 0 R%s /Prev %d >>\nstartxref\n%d\n%%%%EOF\n", len(rev1)+1, info, xref1, xref2)
	return b.Bytes()
}
