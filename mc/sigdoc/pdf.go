package sigdoc

import (
	"bytes"
	"encoding/hex"
	"fmt"
	"sort"
	"strings"
	"time"
)

// Options selects what Build produces.
type Options struct {
	// SubFilter of the (first) signature, one of Kinds. ETSI.RFC3161 yields a /Type /DocTimeStamp dictionary.
	SubFilter string
	// Second, if not empty, is the SubFilter of a second signature that is appended as an incremental update
	// (new xref section with /Prev). Signature 1 then covers revision 1 only, signature 2 the whole file.
	Second string
	// ContentsLast makes /Contents the last entry of every signature dictionary: the byte following the closing
	// '>' of the hex string is the first '>' of the dictionary's '>>'.
	ContentsLast bool
	// Exact reserves exactly the number of hex digits the signature needs (no '0' padding) even where the
	// validator tolerates padding. adbe.x509.rsa_sha1 is always exact.
	Exact bool
	// TypeDocTimeStamp writes /Type /DocTimeStamp into the (first) signature dictionary whatever its SubFilter:
	// a dictionary whose /Type and /SubFilter disagree (an attacker chooses both).
	TypeDocTimeStamp bool
	// PSS makes the signer of the (first) signature use RSASSA-PSS instead of RSA PKCS#1 v1.5 (CMS based SubFilters).
	PSS bool
}

// SigInfo locates one signature inside Doc.Bytes. All offsets are absolute file offsets.
type SigInfo struct {
	ObjNr      int    // object number of the signature dictionary
	FieldObjNr int    // object number of the signature field / widget
	FieldName  string // /T of the field
	SubFilter  string
	PSS        bool // signed with RSASSA-PSS
	ByteRange  [4]int64
	// ByteRangeStart is the offset of '[' of the /ByteRange array, ByteRangeEnd one past its ']'.
	// The array text has a fixed width (space padded) so it can be rewritten in place, see PatchByteRange.
	ByteRangeStart, ByteRangeEnd int64
	// ContentsStart is the offset of '<' of /Contents, ContentsEnd one past its '>'.
	// For a document from Build: ByteRange == {0, ContentsStart, ContentsEnd, revisionEnd-ContentsEnd}.
	ContentsStart, ContentsEnd int64
	// HexLen is the number of hex digits that are real signature; the remaining
	// ContentsEnd-ContentsStart-2-HexLen digits are '0' padding.
	HexLen int
	// RevisionEnd is the file size of the revision this signature was made in.
	RevisionEnd int64
}

// Doc is a signed PDF together with the positions of its signatures (in signing order).
type Doc struct {
	Bytes []byte
	Sigs  []SigInfo
	// When is the signing time used for /M, signing-time attributes and TSTInfo.genTime.
	When time.Time
	// Mutable lists offset ranges [from,to) of plain letters inside content streams (text string or comment).
	// Flipping bit 0 of such a byte keeps the file parseable: Mutable[0] lies before the first /Contents (first signed range of every
	// signature), Mutable[1] lies after signature 1's /Contents (second signed range of signature 1).
	// With a second signature Mutable[2] is inside the incremental update before signature 2's /Contents
	// and Mutable[3] after it.
	Mutable [][2]int64
}

const byteRangeWidth = 48 // characters between '[' and ']'

type writer struct {
	buf  bytes.Buffer
	offs map[int]int64
}

func (w *writer) obj(nr int, body string) (bodyStart int64) {
	w.offs[nr] = int64(w.buf.Len())
	fmt.Fprintf(&w.buf, "%d 0 obj\n", nr)
	bodyStart = int64(w.buf.Len())
	w.buf.WriteString(body)
	w.buf.WriteString("\nendobj\n")
	return bodyStart
}

// stream writes a content stream object and returns the file offset range of the substring safe inside the
// stream data (letters inside a text string or a comment: flipping bit 0 of any of them keeps the stream valid).
func (w *writer) stream(nr int, data, safe string) [2]int64 {
	head := fmt.Sprintf("<< /Length %d >>\nstream\n", len(data))
	start := w.obj(nr, head+data+"\nendstream")
	i := strings.Index(data, safe)
	if i < 0 || safe == "" {
		panic("sigdoc: internal error: safe marker not in stream")
	}
	from := start + int64(len(head)+i)
	return [2]int64{from, from + int64(len(safe))}
}

// xref writes a classic cross reference section for the objects written so far in this revision.
func (w *writer) xref(size int, prev int64, withFree bool) {
	xrefOff := int64(w.buf.Len())
	w.buf.WriteString("xref\n")
	nrs := make([]int, 0, len(w.offs))
	for nr := range w.offs {
		nrs = append(nrs, nr)
	}
	sort.Ints(nrs)
	if withFree {
		w.buf.WriteString("0 1\n0000000000 65535 f \n")
	}
	for i := 0; i < len(nrs); {
		j := i
		for j+1 < len(nrs) && nrs[j+1] == nrs[j]+1 {
			j++
		}
		fmt.Fprintf(&w.buf, "%d %d\n", nrs[i], j-i+1)
		for k := i; k <= j; k++ {
			fmt.Fprintf(&w.buf, "%010d 00000 n \n", w.offs[nrs[k]])
		}
		i = j + 1
	}
	fmt.Fprintf(&w.buf, "trailer\n<< /Size %d /Root 1 0 R", size)
	if prev >= 0 {
		fmt.Fprintf(&w.buf, " /Prev %d", prev)
	}
	fmt.Fprintf(&w.buf, " >>\nstartxref\n%d\n%%%%EOF\n", xrefOff)
}

func pdfDate(t time.Time) string { return t.UTC().Format("D:20060102150405") + "+00'00'" }

// sigDictBody renders a signature dictionary with placeholders and returns the offsets (relative to the body)
// of the ByteRange array and of the Contents hex string.
func sigDictBody(subFilter string, hexDigits int, contentsLast bool, when time.Time, asTimestamp bool) (body string, brAt, contAt int, err error) {
	m, err := keys()
	if err != nil {
		return "", 0, 0, err
	}
	var sb strings.Builder
	typ := "Sig"
	if subFilter == RFC3161 || asTimestamp {
		typ = "DocTimeStamp"
	}
	fmt.Fprintf(&sb, "<< /Type /%s /Filter /Adobe.PPKLite /SubFilter /%s", typ, subFilter)
	if subFilter == X509RSASHA1 {
		// sign/pkcs1.go parseP1Certificates: byte string or array of byte strings, signer first.
		fmt.Fprintf(&sb, " /Cert [<%s>]", strings.ToUpper(hex.EncodeToString(m.leaf.Raw)))
	}
	sb.WriteString(" /ByteRange ")
	brAt = sb.Len()
	sb.WriteString("[" + strings.Repeat(" ", byteRangeWidth) + "]")

	contents := func() {
		sb.WriteString(" /Contents ")
		contAt = sb.Len()
		sb.WriteString("<" + strings.Repeat("0", hexDigits) + ">")
	}
	rest := func() {
		if subFilter != RFC3161 {
			fmt.Fprintf(&sb, " /M (%s) /Name (sigdoc signer) /Reason (sigdoc test) /Location (nowhere)", pdfDate(when))
		}
	}
	if contentsLast {
		rest()
		contents()
		sb.WriteString(">>")
	} else {
		contents()
		rest()
		sb.WriteString(" >>")
	}
	return sb.String(), brAt, contAt, nil
}

// reserveHex returns the number of hex digits to reserve for the SubFilter's /Contents and the digits really needed.
func reserveHex(subFilter string, exact bool, when time.Time, pss bool) (reserved, needed int, err error) {
	// All inputs that influence the encoded length are fixed per process (RSA-2048 signatures are always 256
	// bytes, UTCTime / GeneralizedTime have constant width), so a dry run yields the exact size.
	probe, err := makeSignatureOpt(subFilter, pss, []byte("probe"), when)
	if err != nil {
		return 0, 0, err
	}
	needed = 2 * len(probe)
	if exact || !padTolerated(subFilter) {
		return needed, needed, nil
	}
	// Typical writers reserve a round amount: next multiple of 1024 bytes, at least 32 bytes of padding.
	n := (len(probe) + 32 + 1023) / 1024 * 1024
	return 2 * n, needed, nil
}

func pageContent(label string) string {
	return fmt.Sprintf("BT /F1 24 Tf 72 720 Td (%s) Tj ET\n0.5 w 72 700 m 540 700 l S\n", label)
}

func fieldBody(name string, page, sigDict int) string {
	return fmt.Sprintf("<< /Type /Annot /Subtype /Widget /FT /Sig /T (%s) /Rect [0 0 0 0] /F 132 /P %d 0 R /V %d 0 R >>",
		name, page, sigDict)
}

func catalogBody(fields ...int) string {
	return fmt.Sprintf("<< /Type /Catalog /Pages 2 0 R /AcroForm << /Fields [%s] /SigFlags 3 >> >>", refList(fields))
}

func refList(nrs []int) string {
	refs := make([]string, len(nrs))
	for i, nr := range nrs {
		refs[i] = fmt.Sprintf("%d 0 R", nr)
	}
	return strings.Join(refs, " ")
}

func page1Body(contents, annots []int) string {
	return fmt.Sprintf("<< /Type /Page /Parent 2 0 R /MediaBox [0 0 612 792] /Resources << /Font << /F1 7 0 R >> >> /Contents [%s] /Annots [%s] >>",
		refList(contents), refList(annots))
}

// Object numbers of the fixed layout.
const (
	objCatalog = 1
	objPages   = 2
	objPage1   = 3
	objPage2   = 4
	objCont1   = 5
	objCont2   = 6
	objFont    = 7
	objField1  = 8
	objCont2b  = 9 // second content stream of page 2, written after the signature dictionary
	objSig1    = 10
	objField2  = 11
	objSig2    = 12
	objCont1b  = 13 // incremental update only: extra content stream of page 1, before signature dictionary 2
	objCont1c  = 14 // incremental update only: extra content stream of page 1, after signature dictionary 2
)

// Build creates a signed two page document.
func Build(o Options) (*Doc, error) {
	if o.SubFilter == "" {
		return nil, fmt.Errorf("sigdoc: Options.SubFilter missing (one of %v)", Kinds)
	}
	when := time.Now().UTC().Truncate(time.Second)
	d := &Doc{When: when}

	// ---- revision 1 ----
	reserved, _, err := reserveHex(o.SubFilter, o.Exact, when, o.PSS)
	if err != nil {
		return nil, err
	}
	w := &writer{offs: map[int]int64{}}
	w.buf.WriteString("%PDF-1.7\n%\xe2\xe3\xcf\xd3\n")
	w.obj(objCatalog, catalogBody(objField1))
	w.obj(objPages, fmt.Sprintf("<< /Type /Pages /Kids [%d 0 R %d 0 R] /Count 2 >>", objPage1, objPage2))
	w.obj(objPage1, page1Body([]int{objCont1}, []int{objField1}))
	w.obj(objPage2, fmt.Sprintf("<< /Type /Page /Parent 2 0 R /MediaBox [0 0 612 792] /Resources << /Font << /F1 7 0 R >> >> /Contents [%d 0 R %d 0 R] >>", objCont2, objCont2b))
	m0 := w.stream(objCont1, pageContent("sigdoc page one"), "sigdoc page one")
	w.stream(objCont2, pageContent("sigdoc page two"), "sigdoc page two")
	w.obj(objFont, "<< /Type /Font /Subtype /Type1 /BaseFont /Helvetica /Encoding /WinAnsiEncoding >>")
	w.obj(objField1, fieldBody("Signature1", objPage1, objSig1))
	body, brAt, contAt, err := sigDictBody(o.SubFilter, reserved, o.ContentsLast, when, o.TypeDocTimeStamp)
	if err != nil {
		return nil, err
	}
	start := w.obj(objSig1, body)
	m1 := w.stream(objCont2b, "0 0 1 RG 72 680 m 540 680 l S\n% trailing stream of revision one\n", "trailing stream of revision one")
	w.xref(objSig1+1, -1, true)
	firstXRef := lastStartXRef(w.buf.Bytes())

	b := w.buf.Bytes()
	si := SigInfo{
		ObjNr: objSig1, FieldObjNr: objField1, FieldName: "Signature1", SubFilter: o.SubFilter, PSS: o.PSS,
		ByteRangeStart: start + int64(brAt), ByteRangeEnd: start + int64(brAt) + byteRangeWidth + 2,
		ContentsStart: start + int64(contAt), ContentsEnd: start + int64(contAt) + int64(reserved) + 2,
		RevisionEnd: int64(len(b)),
	}
	if err := finishSignature(b, &si, when); err != nil {
		return nil, err
	}
	d.Sigs = append(d.Sigs, si)
	d.Mutable = append(d.Mutable, m0, m1)

	if o.Second == "" {
		d.Bytes = append([]byte(nil), b...)
		return d, nil
	}

	// ---- revision 2: incremental update ----
	reserved2, _, err := reserveHex(o.Second, o.Exact, when, false)
	if err != nil {
		return nil, err
	}
	w2 := &writer{offs: map[int]int64{}}
	w2.buf.Write(b)
	w2.obj(objCatalog, catalogBody(objField1, objField2))
	w2.obj(objPage1, page1Body([]int{objCont1, objCont1b, objCont1c}, []int{objField1, objField2}))
	m2 := w2.stream(objCont1b, "% filler stream before signature two\n0 1 0 RG\n", "filler stream before signature two")
	w2.obj(objField2, fieldBody("Signature2", objPage1, objSig2))
	body2, brAt2, contAt2, err := sigDictBody(o.Second, reserved2, o.ContentsLast, when, false)
	if err != nil {
		return nil, err
	}
	start2 := w2.obj(objSig2, body2)
	m3 := w2.stream(objCont1c, "% filler stream after signature two\n1 0 0 RG\n", "filler stream after signature two")
	w2.xref(objCont1c+1, firstXRef, false)

	b2 := w2.buf.Bytes()
	si2 := SigInfo{
		ObjNr: objSig2, FieldObjNr: objField2, FieldName: "Signature2", SubFilter: o.Second,
		ByteRangeStart: start2 + int64(brAt2), ByteRangeEnd: start2 + int64(brAt2) + byteRangeWidth + 2,
		ContentsStart: start2 + int64(contAt2), ContentsEnd: start2 + int64(contAt2) + int64(reserved2) + 2,
		RevisionEnd: int64(len(b2)),
	}
	if err := finishSignature(b2, &si2, when); err != nil {
		return nil, err
	}
	d.Sigs = append(d.Sigs, si2)
	d.Mutable = append(d.Mutable, m2, m3)
	d.Bytes = append([]byte(nil), b2...)
	return d, nil
}

func lastStartXRef(b []byte) int64 {
	i := bytes.LastIndex(b, []byte("startxref\n"))
	var off int64
	fmt.Sscanf(string(b[i+len("startxref\n"):]), "%d", &off)
	return off
}

// finishSignature writes the ByteRange (whole revision except the Contents hex string) and the signature value.
func finishSignature(b []byte, si *SigInfo, when time.Time) error {
	if b[si.ContentsStart] != '<' || b[si.ContentsEnd-1] != '>' || b[si.ByteRangeStart] != '[' || b[si.ByteRangeEnd-1] != ']' {
		return fmt.Errorf("sigdoc: internal error: placeholder offsets wrong")
	}
	si.ByteRange = [4]int64{0, si.ContentsStart, si.ContentsEnd, si.RevisionEnd - si.ContentsEnd}
	if err := writeByteRange(b, si, si.ByteRange); err != nil {
		return err
	}
	n, err := writeSignature(b, si, si.ByteRange, when)
	if err != nil {
		return err
	}
	si.HexLen = n
	return nil
}

func writeByteRange(b []byte, si *SigInfo, br [4]int64) error {
	s := fmt.Sprintf("%d %d %d %d", br[0], br[1], br[2], br[3])
	if len(s) > byteRangeWidth {
		return fmt.Errorf("sigdoc: ByteRange %v does not fit into %d characters", br, byteRangeWidth)
	}
	s += strings.Repeat(" ", byteRangeWidth-len(s))
	copy(b[si.ByteRangeStart+1:si.ByteRangeEnd-1], s)
	return nil
}

func rangeBytes(b []byte, br [4]int64) ([]byte, error) {
	n := int64(len(b))
	for i := 0; i < 4; i += 2 {
		if br[i] < 0 || br[i+1] < 0 || br[i] > n || br[i+1] > n-br[i] {
			return nil, fmt.Errorf("sigdoc: ByteRange %v outside file of %d bytes", br, n)
		}
	}
	data := append([]byte(nil), b[br[0]:br[0]+br[1]]...)
	return append(data, b[br[2]:br[2]+br[3]]...), nil
}

// writeSignature signs the bytes selected by br and writes the hex signature into the Contents placeholder.
func writeSignature(b []byte, si *SigInfo, br [4]int64, when time.Time) (hexLen int, err error) {
	data, err := rangeBytes(b, br)
	if err != nil {
		return 0, err
	}
	sig, err := makeSignatureOpt(si.SubFilter, si.PSS, data, when)
	if err != nil {
		return 0, err
	}
	hx := strings.ToUpper(hex.EncodeToString(sig))
	room := int(si.ContentsEnd - si.ContentsStart - 2)
	switch {
	case len(hx) > room:
		return 0, fmt.Errorf("sigdoc: %s signature needs %d hex digits, %d reserved", si.SubFilter, len(hx), room)
	case len(hx) < room && !padTolerated(si.SubFilter):
		return 0, fmt.Errorf("sigdoc: %s signature needs exactly %d hex digits, %d reserved", si.SubFilter, len(hx), room)
	}
	copy(b[si.ContentsStart+1:], hx+strings.Repeat("0", room-len(hx)))
	return len(hx), nil
}

// PatchByteRange returns a copy of b in which the /ByteRange array of signature i is rewritten in place
// (fixed width, space padded) to br. Nothing else changes; the signature value becomes stale, see Resign.
func (d *Doc) PatchByteRange(b []byte, i int, br [4]int64) ([]byte, error) {
	if i < 0 || i >= len(d.Sigs) {
		return nil, fmt.Errorf("sigdoc: no signature %d", i)
	}
	si := d.Sigs[i]
	if int64(len(b)) < si.ByteRangeEnd {
		return nil, fmt.Errorf("sigdoc: document shorter than ByteRange position of signature %d", i)
	}
	out := append([]byte(nil), b...)
	if err := writeByteRange(out, &si, br); err != nil {
		return nil, err
	}
	return out, nil
}

// Resign recomputes the signature value of signature i over the bytes of b selected by br and writes it into the
// /Contents hex string of that signature (at the offsets recorded in d.Sigs[i]); it returns the new bytes and
// leaves b alone. It models an attacker who owns the signing key and re-signs over whatever the edited
// /ByteRange covers. Resign does not touch the /ByteRange text itself (use PatchByteRange for that) and hashes b
// as it is before the new signature value is written, so br should not cover the /Contents hex digits.
func (d *Doc) Resign(b []byte, i int, br [4]int64) ([]byte, error) {
	if i < 0 || i >= len(d.Sigs) {
		return nil, fmt.Errorf("sigdoc: no signature %d", i)
	}
	si := d.Sigs[i]
	if int64(len(b)) < si.ContentsEnd {
		return nil, fmt.Errorf("sigdoc: document shorter than Contents position of signature %d", i)
	}
	out := append([]byte(nil), b...)
	if _, err := writeSignature(out, &si, br, d.When); err != nil {
		return nil, err
	}
	return out, nil
}

// FlipBit returns a copy of b with bit 0 of the byte at off inverted.
func FlipBit(b []byte, off int64) []byte {
	out := append([]byte(nil), b...)
	out[off] ^= 0x01
	return out
}
