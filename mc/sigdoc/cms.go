package sigdoc

import (
	"bytes"
	"crypto"
	"crypto/rand"
	"crypto/rsa"
	"crypto/sha1" // legacy SubFilters adbe.x509.rsa_sha1 / adbe.pkcs7.sha1 mandate SHA-1
	"crypto/sha256"
	"crypto/x509"
	"encoding/asn1"
	"fmt"
	"math/big"
	"sort"
	"time"

	"github.com/pdfcpu/pdfcpu/pkg/pdfcpu/pkcs7"
)

// SubFilter names understood by Build.
const (
	X509RSASHA1   = "adbe.x509.rsa_sha1"
	PKCS7Detached = "adbe.pkcs7.detached"
	PKCS7SHA1     = "adbe.pkcs7.sha1"
	CAdESDetached = "ETSI.CAdES.detached"
	RFC3161       = "ETSI.RFC3161"
)

// Kinds lists every SubFilter Build can produce.
var Kinds = []string{X509RSASHA1, PKCS7Detached, CAdESDetached, PKCS7SHA1, RFC3161}

var (
	oidData               = asn1.ObjectIdentifier{1, 2, 840, 113549, 1, 7, 1}
	oidSignedData         = asn1.ObjectIdentifier{1, 2, 840, 113549, 1, 7, 2}
	oidAttrContentType    = asn1.ObjectIdentifier{1, 2, 840, 113549, 1, 9, 3}
	oidAttrMessageDigest  = asn1.ObjectIdentifier{1, 2, 840, 113549, 1, 9, 4}
	oidAttrSigningTime    = asn1.ObjectIdentifier{1, 2, 840, 113549, 1, 9, 5}
	oidAttrSigningCertV2  = asn1.ObjectIdentifier{1, 2, 840, 113549, 1, 9, 16, 2, 47}
	oidTSTInfo            = asn1.ObjectIdentifier{1, 2, 840, 113549, 1, 9, 16, 1, 4}
	oidSHA256             = asn1.ObjectIdentifier{2, 16, 840, 1, 101, 3, 4, 2, 1}
	oidSHA256WithRSA      = asn1.ObjectIdentifier{1, 2, 840, 113549, 1, 1, 11}
	oidTSAPolicy          = asn1.ObjectIdentifier{1, 3, 6, 1, 4, 1, 99999, 1, 1}
	tstSerial             = big.NewInt(0x7357)
	derNull               = []byte{0x05, 0x00}
	tagSeq, tagSet        = byte(0x30), byte(0x31)
	tagOctet, tagCtx0Cons = byte(0x04), byte(0xA0)
)

// padTolerated reports whether the validator of the SubFilter accepts a /Contents hex string that carries trailing
// 00 bytes after the DER object.
//
//   - PKCS#7 based SubFilters (incl. ETSI.RFC3161): pkcs7.Parse runs ber2der first, which accepts trailing data as
//     long as it is all zero (pkcs7/ber.go allZero).
//   - adbe.x509.rsa_sha1: sign/pkcs1.go unmarshals the OCTET STRING with encoding/asn1 and rejects any rest
//     ("trailing data"), so /Contents has to be sized exactly.
func padTolerated(subFilter string) bool { return subFilter != X509RSASHA1 }

func derLen(n int) []byte {
	if n < 0x80 {
		return []byte{byte(n)}
	}
	var bb []byte
	for ; n > 0; n >>= 8 {
		bb = append([]byte{byte(n)}, bb...)
	}
	return append([]byte{0x80 | byte(len(bb))}, bb...)
}

func tlv(tag byte, parts ...[]byte) []byte {
	n := 0
	for _, p := range parts {
		n += len(p)
	}
	out := append([]byte{tag}, derLen(n)...)
	for _, p := range parts {
		out = append(out, p...)
	}
	return out
}

func der(v any) []byte {
	bb, err := asn1.Marshal(v)
	if err != nil {
		panic(fmt.Sprintf("sigdoc: asn1.Marshal(%T): %v", v, err))
	}
	return bb
}

func derUTCTime(t time.Time) []byte { return der(t.UTC().Truncate(time.Second)) }

type cmsAttr struct {
	oid   asn1.ObjectIdentifier
	value []byte // DER of the single attribute value
}

func (a cmsAttr) encode() []byte { return tlv(tagSeq, der(a.oid), tlv(tagSet, a.value)) }

// encodeAttrs returns the DER sorted concatenation of the encoded attributes (the content octets of the SET OF).
func encodeAttrs(attrs []cmsAttr) []byte {
	enc := make([][]byte, len(attrs))
	for i, a := range attrs {
		enc[i] = a.encode()
	}
	sort.Slice(enc, func(i, j int) bool { return bytes.Compare(enc[i], enc[j]) < 0 })
	return bytes.Join(enc, nil)
}

// signingCertificateV2 returns the DER value of the ESS signing-certificate-v2 attribute for cert
// (SHA-256, i.e. the DEFAULT hashAlgorithm is omitted, issuerSerial present).
func signingCertificateV2(cert *x509.Certificate) []byte {
	h := sha256.Sum256(cert.Raw)
	generalNames := tlv(tagSeq, tlv(0xA4, cert.RawIssuer)) // directoryName [4] EXPLICIT Name
	issuerSerial := tlv(tagSeq, generalNames, der(cert.SerialNumber))
	essCertIDv2 := tlv(tagSeq, tlv(tagOctet, h[:]), issuerSerial)
	return tlv(tagSeq, tlv(tagSeq, essCertIDv2))
}

// buildSignedData assembles a one-signer CMS SignedData (RSA PKCS#1 v1.5 with SHA-256 over the signed attributes).
// eContent == nil yields a detached signature; contentDigest is then the SHA-256 of the external content.
func buildSignedData(
	eContentType asn1.ObjectIdentifier,
	eContent []byte,
	contentDigest []byte,
	cert *x509.Certificate,
	key *rsa.PrivateKey,
	extra []cmsAttr,
	pss bool,
) ([]byte, error) {
	if eContent != nil {
		h := sha256.Sum256(eContent)
		contentDigest = h[:]
	}
	attrs := append([]cmsAttr{
		{oidAttrContentType, der(eContentType)},
		{oidAttrMessageDigest, tlv(tagOctet, contentDigest)},
	}, extra...)
	attrBytes := encodeAttrs(attrs)

	toSign := sha256.Sum256(tlv(tagSet, attrBytes))
	var sig []byte
	var err error
	sigAlg := tlv(tagSeq, der(oidSHA256WithRSA), derNull)
	if pss {
		// RSASSA-PSS (RFC 4055): SHA-256, MGF1 with SHA-256, salt length 32, all parameters written out
		sig, err = rsa.SignPSS(rand.Reader, key, crypto.SHA256, toSign[:], &rsa.PSSOptions{SaltLength: 32, Hash: crypto.SHA256})
		sha := tlv(tagSeq, der(oidSHA256), derNull)
		mgf := tlv(tagSeq, der(asn1.ObjectIdentifier{1, 2, 840, 113549, 1, 1, 8}), sha)
		params := tlv(tagSeq, tlv(0xA0, sha), tlv(0xA1, mgf), tlv(0xA2, der(32)))
		sigAlg = tlv(tagSeq, der(asn1.ObjectIdentifier{1, 2, 840, 113549, 1, 1, 10}), params)
	} else {
		sig, err = rsa.SignPKCS1v15(rand.Reader, key, crypto.SHA256, toSign[:])
	}
	if err != nil {
		return nil, fmt.Errorf("sigdoc: sign attributes: %w", err)
	}

	signerInfo := tlv(tagSeq,
		der(1),
		tlv(tagSeq, cert.RawIssuer, der(cert.SerialNumber)),
		tlv(tagSeq, der(oidSHA256)),
		tlv(tagCtx0Cons, attrBytes),
		sigAlg,
		tlv(tagOctet, sig),
	)

	encap := tlv(tagSeq, der(eContentType))
	version := 1
	if eContent != nil {
		encap = tlv(tagSeq, der(eContentType), tlv(tagCtx0Cons, tlv(tagOctet, eContent)))
	}
	if !eContentType.Equal(oidData) {
		version = 3
	}

	signedData := tlv(tagSeq,
		der(version),
		tlv(tagSet, tlv(tagSeq, der(oidSHA256))),
		encap,
		tlv(tagCtx0Cons, cert.Raw),
		tlv(tagSet, signerInfo),
	)
	return tlv(tagSeq, der(oidSignedData), tlv(tagCtx0Cons, signedData)), nil
}

type tstMessageImprint struct {
	HashAlgorithm struct{ Algorithm asn1.ObjectIdentifier }
	HashedMessage []byte
}

type tstInfo struct {
	Version        int
	Policy         asn1.ObjectIdentifier
	MessageImprint tstMessageImprint
	SerialNumber   *big.Int
	GenTime        time.Time `asn1:"generalized"`
}

// makeSignature returns the bytes that go into /Contents for the given SubFilter over data
// (data = concatenation of the two byte ranges).
func makeSignature(subFilter string, data []byte, when time.Time) ([]byte, error) {
	return makeSignatureOpt(subFilter, false, data, when)
}

// makeSignatureOpt: pss selects an RSASSA-PSS signer for the CMS based SubFilters (the harness's own SignedData
// assembly is then used for the detached ones as well; adbe.x509.rsa_sha1 has no such variant).
func makeSignatureOpt(subFilter string, pss bool, data []byte, when time.Time) ([]byte, error) {
	m, err := keys()
	if err != nil {
		return nil, err
	}
	when = when.UTC().Truncate(time.Second)

	switch subFilter {

	case X509RSASHA1:
		// sign/pkcs1.go: Contents is a DER OCTET STRING holding the RSA PKCS#1 v1.5 signature over SHA-1(data).
		h := sha1.Sum(data)
		sig, err := rsa.SignPKCS1v15(rand.Reader, m.leafKey, crypto.SHA1, h[:])
		if err != nil {
			return nil, fmt.Errorf("sigdoc: rsa_sha1: %w", err)
		}
		return tlv(tagOctet, sig), nil

	case PKCS7Detached, CAdESDetached:
		if pss {
			h := sha256.Sum256(data)
			attrs := []cmsAttr{{oidAttrSigningCertV2, signingCertificateV2(m.leaf)}}
			if subFilter == PKCS7Detached {
				attrs = append(attrs, cmsAttr{oidAttrSigningTime, derUTCTime(when)})
			}
			return buildSignedData(oidData, nil, h[:], m.leaf, m.leafKey, attrs, true)
		}
		// The repository's own signer: detached SignedData, eContentType id-data, signed attributes
		// contentType + messageDigest + extras.
		sd, err := pkcs7.NewSignedData()
		if err != nil {
			return nil, err
		}
		h := sha256.Sum256(data)
		conf := pkcs7.SignerInfoConfig{}
		if subFilter == PKCS7Detached {
			conf.ExtraSignedAttributes = append(conf.ExtraSignedAttributes,
				pkcs7.Attribute{Type: oidAttrSigningTime, Value: when})
		}
		// sign/pkcs7.go validateCAdESBaselineBProfile requires exactly one ESS signing-certificate(-v2)
		// attribute matching the signer certificate; harmless (ignored) for adbe.pkcs7.detached.
		conf.ExtraSignedAttributes = append(conf.ExtraSignedAttributes,
			pkcs7.Attribute{Type: oidAttrSigningCertV2, Value: asn1.RawValue{FullBytes: signingCertificateV2(m.leaf)}})
		if err := sd.AddSigner(m.leaf, m.leafKey, h[:], pkcs7.OIDDigestAlgorithmSHA256, conf); err != nil {
			return nil, err
		}
		return sd.Finish()

	case PKCS7SHA1:
		// Encapsulated content = SHA-1(data); the repository signer cannot encapsulate content, so the
		// SignedData is assembled here.
		h := sha1.Sum(data)
		return buildSignedData(oidData, h[:], nil, m.leaf, m.leafKey, []cmsAttr{
			{oidAttrSigningTime, derUTCTime(when)},
		}, pss)

	case RFC3161:
		h := sha256.Sum256(data)
		info := tstInfo{Version: 1, Policy: oidTSAPolicy, SerialNumber: tstSerial, GenTime: when}
		info.MessageImprint.HashAlgorithm.Algorithm = oidSHA256
		info.MessageImprint.HashedMessage = h[:]
		return buildSignedData(oidTSTInfo, der(info), nil, m.tsa, m.tsaKey, []cmsAttr{
			{oidAttrSigningTime, derUTCTime(when)},
			{oidAttrSigningCertV2, signingCertificateV2(m.tsa)},
		}, pss)
	}
	return nil, fmt.Errorf("sigdoc: unsupported SubFilter %q", subFilter)
}
