package sigdoc

import (
	"bytes"
	"crypto/x509"
	"fmt"
	"io"
	"os"
	"path/filepath"
	"sort"
	"sync"

	"github.com/pdfcpu/pdfcpu/pkg/api"
	"github.com/pdfcpu/pdfcpu/pkg/pdfcpu/model"
	"github.com/pdfcpu/pdfcpu/pkg/pdfcpu/sign"
	"github.com/pdfcpu/pdfcpu/pkg/pdfcpu/types"
)

// Verdict is the flattened outcome for one signature.
type Verdict struct {
	ObjNr       int    // ValidateSeam: object number of the signature dictionary; ValidateAPI: of the signature field
	Field       string // /T of the signature field (empty if unknown)
	SubFilter   string
	Status      string   // "valid" | "invalid" | "unknown"
	Reason      string   // model.SignatureReason.String()
	DocModified string   // "false" | "true" | "unknown" (how model.SignatureValidationResult prints its tri-state)
	Problems    []string // result problems followed by every signer's problems
	Err         string   // error returned by the validator for this signature ("" if none)
}

func (v Verdict) String() string {
	return fmt.Sprintf("obj#%d %s %s: status=%s reason=%q docModified=%s err=%q problems=%q",
		v.ObjNr, v.Field, v.SubFilter, v.Status, v.Reason, v.DocModified, v.Err, v.Problems)
}

func triState(i int) string {
	switch i {
	case model.False:
		return "false"
	case model.True:
		return "true"
	}
	return "unknown"
}

func statusWord(s model.SignatureStatus) string {
	switch s {
	case model.SignatureStatusValid:
		return "valid"
	case model.SignatureStatusInvalid:
		return "invalid"
	case model.SignatureStatusUnknown:
		return "unknown"
	}
	return fmt.Sprintf("status(%d)", int(s))
}

func verdictOf(r *model.SignatureValidationResult, err error) Verdict {
	v := Verdict{}
	if err != nil {
		v.Err = err.Error()
	}
	if r == nil {
		return v
	}
	v.ObjNr = r.ObjNr
	v.Field = r.Details.FieldName
	v.SubFilter = r.Details.SubFilter
	v.Status = statusWord(r.Status)
	v.Reason = r.Reason.String()
	v.DocModified = triState(r.DocModified)
	v.Problems = append(v.Problems, r.Problems...)
	for _, s := range r.Details.Signers {
		if s != nil {
			v.Problems = append(v.Problems, s.Problems...)
		}
	}
	return v
}

// pdfcpu keeps its configuration and trust store in package level variables; serialize every helper.
var globalMu sync.Mutex

// offlineConf returns an offline configuration without touching the user's configuration directory:
// api.DisableConfigDir() makes model.NewDefaultConfiguration() return the built-in defaults instead of
// creating / reading $XDG_CONFIG_HOME/pdfcpu.
func offlineConf() *model.Configuration {
	api.DisableConfigDir()
	conf := model.NewDefaultConfiguration()
	conf.Offline = true
	conf.ValidationMode = model.ValidationRelaxed
	return conf
}

type seamHandler func(io.ReaderAt, types.Dict, bool, bool, bool, int, *x509.CertPool, *model.SignatureValidationResult, *model.Context) error

func seamHandlerFor(subFilter string) seamHandler {
	switch subFilter {
	case X509RSASHA1:
		return sign.ValidateX509RSASHA1Signature
	case PKCS7Detached, PKCS7SHA1, CAdESDetached:
		return sign.ValidatePKCS7Signatures
	case RFC3161:
		return sign.ValidateDTS
	}
	return nil
}

// ValidateSeam parses b with pdfcpu's reader only (api.ReadContext, no document validation) and runs the exported
// per-SubFilter validator of package sign (ValidateX509RSASHA1Signature / ValidatePKCS7Signatures / ValidateDTS) on
// every signature dictionary found in the cross reference table (any dictionary having /ByteRange and /Contents),
// in ascending object number order, i.e. in Doc.Sigs order. Trust roots = RootPool(), configuration offline.
// The result starts out as pkg/pdfcpu/sign.go prepares it (status, reason, DocModified all unknown; SubFilter set);
// certified=false, authoritative=true, validateAll=true, perms=0. None of the increment / revision boundary
// logic of pkg/pdfcpu/sign.go is applied at this seam.
func ValidateSeam(b []byte) ([]Verdict, error) {
	globalMu.Lock()
	defer globalMu.Unlock()

	conf := offlineConf()
	conf.Cmd = model.VALIDATESIGNATURES
	ctx, err := api.ReadContext(bytes.NewReader(b), conf)
	if err != nil {
		return nil, fmt.Errorf("sigdoc: read: %w", err)
	}

	nrs := make([]int, 0, len(ctx.XRefTable.Table))
	for nr, e := range ctx.XRefTable.Table {
		if e != nil && !e.Free {
			nrs = append(nrs, nr)
		}
	}
	sort.Ints(nrs)

	// field name lookup: signature dict object number -> field
	type fieldRef struct {
		nr   int
		name string
	}
	fields := map[int]fieldRef{}
	dicts := map[int]types.Dict{}
	for _, nr := range nrs {
		o, err := ctx.Dereference(*types.NewIndirectRef(nr, *ctx.XRefTable.Table[nr].Generation))
		if err != nil {
			continue
		}
		d, ok := o.(types.Dict)
		if !ok {
			continue
		}
		dicts[nr] = d
		if ft := d.NameEntry("FT"); ft != nil && *ft == "Sig" {
			if ir := d.IndirectRefEntry("V"); ir != nil {
				name := ""
				if sl := d.StringLiteralEntry("T"); sl != nil {
					name = sl.Value()
				}
				fields[ir.ObjectNumber.Value()] = fieldRef{nr, name}
			}
		}
	}

	var out []Verdict
	ra := bytes.NewReader(b)
	for _, nr := range nrs {
		d, ok := dicts[nr]
		if !ok {
			continue
		}
		if _, ok := d.Find("ByteRange"); !ok {
			continue
		}
		if _, ok := d.Find("Contents"); !ok {
			continue
		}
		subFilter := ""
		if n := d.NameEntry("SubFilter"); n != nil {
			subFilter = *n
		}
		r := &model.SignatureValidationResult{
			Signature:   model.Signature{Type: model.SigTypeForm, ObjNr: nr, Signed: true, Authoritative: true},
			Status:      model.SignatureStatusUnknown,
			Reason:      model.SignatureReasonUnknown,
			DocModified: model.Unknown,
		}
		r.Details.SignerIdentity = "Unknown"
		r.Details.SubFilter = subFilter
		r.Details.FieldName = fields[nr].name
		if typ := d.Type(); typ != nil && *typ == "DocTimeStamp" {
			r.Signature.Type = model.SigTypeDTS
		}
		h := seamHandlerFor(subFilter)
		if h == nil {
			v := verdictOf(r, fmt.Errorf("sigdoc: no seam validator for SubFilter %q", subFilter))
			out = append(out, v)
			continue
		}
		err := h(ra, d, false, true, true, 0, RootPool(), r, ctx)
		out = append(out, verdictOf(r, err))
	}
	return out, nil
}

// ValidateAPI runs the public entry point api.ValidateSignaturesRaw(rs, all=true, conf) with an offline
// configuration and returns the results in the order the API reports them (latest increment first).
//
// Trust injection: the public API takes its roots from pdfcpu.LoadCertificates(), which walks the directory named
// by the exported variable model.TrustedCertDir (normally <user config dir>/pdfcpu/certs, set as a side effect of
// loading the configuration). ValidateAPI never loads the user configuration (api.DisableConfigDir). Instead it
// creates a scratch directory holding only RootPEM() as root.pem, points model.TrustedCertDir at it, calls
// model.MarkCertificateStoreChanged() so the cached pool is rebuilt, runs the API, then restores the previous
// model.TrustedCertDir (again bumping the store revision) and deletes the scratch directory.
// With the configuration directory disabled and model.TrustedCertDir left empty the API cannot be used at all:
// LoadCertificates fails walking "" ("load trust pool").
var (
	trustOnce sync.Once
	trustDir  string
	trustErr  error
)

// Cleanup removes the scratch trust directory created by ValidateAPI.
func Cleanup() {
	if trustDir != "" {
		os.RemoveAll(trustDir)
	}
}

// ValidateAPI runs the public api.ValidateSignaturesRaw(all=true). The scratch trust directory holding RootPEM()
// is created once per process (remove it with Cleanup) and model.TrustedCertDir points at it from then on.
func ValidateAPI(b []byte) ([]Verdict, error) {
	globalMu.Lock()
	defer globalMu.Unlock()

	conf := offlineConf()
	trustOnce.Do(func() {
		trustDir, trustErr = os.MkdirTemp("", "sigdoc-certs-")
		if trustErr == nil {
			trustErr = os.WriteFile(filepath.Join(trustDir, "root.pem"), RootPEM(), 0o600)
		}
		model.TrustedCertDir = trustDir
		model.MarkCertificateStoreChanged()
	})
	if trustErr != nil {
		return nil, fmt.Errorf("sigdoc: scratch trust dir: %w", trustErr)
	}

	results, err := api.ValidateSignaturesRaw(bytes.NewReader(b), true, conf)
	if err != nil {
		return nil, err
	}
	out := make([]Verdict, 0, len(results))
	for _, r := range results {
		out = append(out, verdictOf(r, nil))
	}
	return out, nil
}
