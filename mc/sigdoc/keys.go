package sigdoc

import (
	"crypto/rand"
	"crypto/rsa"
	"crypto/x509"
	"crypto/x509/pkix"
	"encoding/asn1"
	"encoding/pem"
	"fmt"
	"math/big"
	"sync"
	"time"
)

// material is the process-wide key material. RSA key generation is slow, so everything is made exactly once.
type material struct {
	rootKey *rsa.PrivateKey
	root    *x509.Certificate
	leafKey *rsa.PrivateKey
	leaf    *x509.Certificate
	tsaKey  *rsa.PrivateKey
	tsa     *x509.Certificate
	err     error
}

var (
	matOnce sync.Once
	mat     material
)

var (
	oidExtKeyUsage      = asn1.ObjectIdentifier{2, 5, 29, 37}
	oidEKUTimeStamping  = asn1.ObjectIdentifier{1, 3, 6, 1, 5, 5, 7, 3, 8}
	oidEKUDocumentSign  = asn1.ObjectIdentifier{1, 3, 6, 1, 5, 5, 7, 3, 36}
	certValidityBack    = 2 * 365 * 24 * time.Hour
	certValidityForward = 8 * 365 * 24 * time.Hour
)

func keys() (*material, error) {
	matOnce.Do(func() { mat.err = mat.generate() })
	if mat.err != nil {
		return nil, mat.err
	}
	return &mat, nil
}

func (m *material) generate() error {
	now := time.Now().UTC().Truncate(time.Second)
	notBefore, notAfter := now.Add(-certValidityBack), now.Add(certValidityForward)

	var err error
	if m.rootKey, err = rsa.GenerateKey(rand.Reader, 2048); err != nil {
		return fmt.Errorf("sigdoc: root key: %w", err)
	}
	if m.leafKey, err = rsa.GenerateKey(rand.Reader, 2048); err != nil {
		return fmt.Errorf("sigdoc: leaf key: %w", err)
	}
	if m.tsaKey, err = rsa.GenerateKey(rand.Reader, 2048); err != nil {
		return fmt.Errorf("sigdoc: tsa key: %w", err)
	}

	rootTmpl := &x509.Certificate{
		SerialNumber:          big.NewInt(0x51D0C001),
		Subject:               pkix.Name{Country: []string{"XX"}, Organization: []string{"sigdoc"}, CommonName: "sigdoc Test Root CA"},
		NotBefore:             notBefore,
		NotAfter:              notAfter,
		IsCA:                  true,
		BasicConstraintsValid: true,
		KeyUsage:              x509.KeyUsageCertSign | x509.KeyUsageCRLSign,
		SubjectKeyId:          []byte{0x51, 0xD0, 0xC0, 0x01},
	}
	if m.root, err = issue(rootTmpl, rootTmpl, &m.rootKey.PublicKey, m.rootKey); err != nil {
		return fmt.Errorf("sigdoc: root certificate: %w", err)
	}

	// Signing certificate. pkcs1.go and the ESS binding check in dts.go require digitalSignature or
	// contentCommitment whenever a KeyUsage extension is present; path building uses ExtKeyUsageAny, so the
	// (non-critical) EKUs are informational only.
	leafTmpl := &x509.Certificate{
		SerialNumber:          big.NewInt(0x51D0C002),
		Subject:               pkix.Name{Country: []string{"XX"}, Organization: []string{"sigdoc"}, CommonName: "sigdoc Test Signer"},
		NotBefore:             notBefore,
		NotAfter:              notAfter,
		BasicConstraintsValid: true,
		KeyUsage:              x509.KeyUsageDigitalSignature | x509.KeyUsageContentCommitment,
		ExtKeyUsage:           []x509.ExtKeyUsage{x509.ExtKeyUsageEmailProtection},
		UnknownExtKeyUsage:    []asn1.ObjectIdentifier{oidEKUDocumentSign},
		SubjectKeyId:          []byte{0x51, 0xD0, 0xC0, 0x02},
	}
	if m.leaf, err = issue(leafTmpl, m.root, &m.leafKey.PublicKey, m.rootKey); err != nil {
		return fmt.Errorf("sigdoc: signer certificate: %w", err)
	}

	// TSA certificate. dts.go validateTimestampingEKU wants exactly one EKU (id-kp-timeStamping) in a CRITICAL
	// extension. crypto/x509 always emits a non-critical EKU extension, so the extension is supplied verbatim
	// through ExtraExtensions (which overrides the generated one).
	ekuDER, err := asn1.Marshal([]asn1.ObjectIdentifier{oidEKUTimeStamping})
	if err != nil {
		return fmt.Errorf("sigdoc: tsa eku: %w", err)
	}
	tsaTmpl := &x509.Certificate{
		SerialNumber:          big.NewInt(0x51D0C003),
		Subject:               pkix.Name{Country: []string{"XX"}, Organization: []string{"sigdoc"}, CommonName: "sigdoc Test TSA"},
		NotBefore:             notBefore,
		NotAfter:              notAfter,
		BasicConstraintsValid: true,
		KeyUsage:              x509.KeyUsageDigitalSignature | x509.KeyUsageContentCommitment,
		ExtraExtensions:       []pkix.Extension{{Id: oidExtKeyUsage, Critical: true, Value: ekuDER}},
		SubjectKeyId:          []byte{0x51, 0xD0, 0xC0, 0x03},
	}
	if m.tsa, err = issue(tsaTmpl, m.root, &m.tsaKey.PublicKey, m.rootKey); err != nil {
		return fmt.Errorf("sigdoc: tsa certificate: %w", err)
	}
	return nil
}

func issue(tmpl, parent *x509.Certificate, pub *rsa.PublicKey, signer *rsa.PrivateKey) (*x509.Certificate, error) {
	der, err := x509.CreateCertificate(rand.Reader, tmpl, parent, pub, signer)
	if err != nil {
		return nil, err
	}
	return x509.ParseCertificate(der)
}

func mustKeys() *material {
	m, err := keys()
	if err != nil {
		panic(err)
	}
	return m
}

// RootCert returns the self-signed root CA that issued the signing and the TSA certificate.
func RootCert() *x509.Certificate { return mustKeys().root }

// RootDER returns the DER encoding of RootCert.
func RootDER() []byte { return append([]byte(nil), mustKeys().root.Raw...) }

// RootPEM returns RootCert as a single PEM "CERTIFICATE" block.
func RootPEM() []byte {
	return pem.EncodeToMemory(&pem.Block{Type: "CERTIFICATE", Bytes: mustKeys().root.Raw})
}

// RootPool returns a fresh pool containing only RootCert.
func RootPool() *x509.CertPool {
	p := x509.NewCertPool()
	p.AddCert(mustKeys().root)
	return p
}

// SignerCert returns the end-entity certificate used for all non-timestamp signatures.
func SignerCert() *x509.Certificate { return mustKeys().leaf }

// TSACert returns the certificate (critical, exclusive EKU timeStamping) used for ETSI.RFC3161 document timestamps.
func TSACert() *x509.Certificate { return mustKeys().tsa }
