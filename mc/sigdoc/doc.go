// Package sigdoc builds small, genuinely (cryptographically) signed PDF documents with its own minimal PDF writer
// and validates them with pdfcpu's signature validators. It exists so that checks can tamper with known-good signed
// documents (flip bits, edit /ByteRange, re-sign, append revisions) and observe what pdfcpu concludes.
//
// # Documents
//
// Build(Options) writes a classic-xref PDF 1.7 file with two pages (distinct content streams), a catalog with
// /AcroForm << /Fields [...] /SigFlags 3 >>, a signature field merged with its (invisible) widget annotation that is
// listed in page 1's /Annots, and an indirect signature dictionary
//
//	<< /Type /Sig /Filter /Adobe.PPKLite /SubFilter /<kind> [/Cert [<..>]] /ByteRange [0 a b c   ] /Contents <hex> /M (D:..) ... >>
//
// (/Type /DocTimeStamp for ETSI.RFC3161). The /ByteRange array has a fixed width and is space padded, /Contents
// is a hex string of reserved size; the excluded gap [a, b) is exactly the hex string including both angle
// brackets, and b+c is the size of the revision. Object order in the file: catalog, pages, page 1, page 2, content
// stream 1, content stream 2, font, signature field, signature dictionary, a further content stream of page 2, xref,
// trailer. So there is real signed content before and after /Contents; Doc.Mutable names byte offsets inside
// content streams that can be bit-flipped without breaking the PDF syntax.
//
// Options.Second adds a second signature as an incremental update (rewritten catalog and page 1, two more
// content streams, field "Signature2", its signature dictionary, an xref section with /Prev): signature 1 covers
// revision 1 only, signature 2 covers the whole file. Options.ContentsLast puts /Contents last in the signature
// dictionary so that the hex string is immediately followed by ">>". Options.Exact reserves exactly the needed
// number of hex digits.
//
// # SubFilters (Kinds) and padding
//
//   - adbe.x509.rsa_sha1: /Contents is the DER OCTET STRING of an RSA PKCS#1 v1.5 signature over the SHA-1 of the
//     byte ranges, /Cert carries the signer certificate. sign/pkcs1.go rejects trailing bytes, so /Contents is
//     always sized exactly (520 hex digits for RSA-2048).
//   - adbe.pkcs7.detached, ETSI.CAdES.detached: detached CMS SignedData made with the repository's own
//     pkcs7.NewSignedData/AddSigner/Finish (SHA-256, signed attributes contentType, messageDigest,
//     signing-certificate-v2, plus signingTime for the adbe kind).
//   - adbe.pkcs7.sha1: CMS SignedData whose encapsulated id-data content is the SHA-1 of the byte ranges
//     (assembled here with encoding/asn1, the repository signer cannot encapsulate content).
//   - ETSI.RFC3161: RFC 3161 TimeStampToken, i.e. SignedData with eContentType id-ct-TSTInfo whose messageImprint is
//     the SHA-256 of the byte ranges, signed by a TSA certificate with a critical, exclusive timeStamping EKU and
//     carrying signing-certificate-v2 (both demanded by sign/dts.go).
//
// For all CMS based kinds pkcs7.Parse tolerates trailing 00 bytes (ber2der/allZero), so by default their /Contents
// is reserved to the next multiple of 1024 bytes and the unused tail is filled with '0' digits (SigInfo.HexLen tells
// where the real signature ends).
//
// # Keys
//
// One self-signed RSA-2048 root CA, one signing certificate (keyUsage digitalSignature+contentCommitment) and one
// TSA certificate, generated once per process (sync.Once). RootCert/RootDER/RootPEM/RootPool expose the root.
//
// # Validation helpers
//
// ValidateSeam calls the exported per-SubFilter validators of pkg/pdfcpu/sign directly on every signature
// dictionary with RootPool() as trust roots. ValidateAPI calls the public api.ValidateSignaturesRaw(all=true).
// Both use an offline configuration obtained after api.DisableConfigDir(), so the user's configuration directory
// is neither read nor created. The public API has no parameter for trust roots: it loads every certificate file
// below the directory named by the exported variable model.TrustedCertDir. ValidateAPI therefore writes RootPEM()
// into a scratch directory (os.MkdirTemp), points model.TrustedCertDir at it, bumps the store revision with
// model.MarkCertificateStoreChanged(), runs the API, restores the variable and removes the directory.
//
// Offline, no revocation source can conclude (embedded/archived CRLs are never treated as applicable either), so
// the best attainable result is Status "unknown" with Reason "signer's certificate revocation status is unknown";
// the useful oracle is DocModified: "false" for an untampered document at the seam, "true" plus Status "invalid"
// after tampering. Through the public API form signatures never report DocModified "false" (it is rewritten to
// "unknown" because the reader numbers the newest xref section 1 while pkg/pdfcpu/sign.go treats only increment 0
// as the current revision); document timestamps do.
//
// Resign and PatchByteRange model an attacker who owns the signing key: edit the /ByteRange text in place and
// recompute the signature value over whatever the new ranges cover.
package sigdoc
