package sigdoc

import (
	"bytes"
	"fmt"
	"os"
	"strings"
	"testing"
)

func build(t *testing.T, o Options) *Doc {
	t.Helper()
	d, err := Build(o)
	if err != nil {
		t.Fatalf("Build(%+v): %v", o, err)
	}
	return d
}

func seam(t *testing.T, b []byte) []Verdict {
	t.Helper()
	vv, err := ValidateSeam(b)
	if err != nil {
		t.Fatalf("ValidateSeam: %v", err)
	}
	return vv
}

// checkLayout verifies the structural promises of SigInfo against the bytes.
func checkLayout(t *testing.T, d *Doc, o Options) {
	t.Helper()
	b := d.Bytes
	for i, s := range d.Sigs {
		if b[s.ContentsStart] != '<' || b[s.ContentsEnd-1] != '>' {
			t.Fatalf("sig %d: Contents offsets do not delimit <...>", i)
		}
		if s.ByteRange != [4]int64{0, s.ContentsStart, s.ContentsEnd, s.RevisionEnd - s.ContentsEnd} {
			t.Fatalf("sig %d: ByteRange %v does not exclude exactly the hex string", i, s.ByteRange)
		}
		want := fmt.Sprintf("[%d %d %d %d", s.ByteRange[0], s.ByteRange[1], s.ByteRange[2], s.ByteRange[3])
		if got := string(b[s.ByteRangeStart:s.ByteRangeEnd]); !strings.HasPrefix(got, want+" ") && got != want+"]" {
			t.Fatalf("sig %d: ByteRange text %q, want prefix %q", i, got, want)
		}
		hexDigits := b[s.ContentsStart+1 : s.ContentsEnd-1]
		if pad := hexDigits[s.HexLen:]; len(bytes.Trim(pad, "0")) != 0 {
			t.Fatalf("sig %d: padding is not all '0'", i)
		}
		if !padTolerated(s.SubFilter) && s.HexLen != len(hexDigits) {
			t.Fatalf("sig %d: %s must not be padded", i, s.SubFilter)
		}
		if o.Exact && s.HexLen != len(hexDigits) {
			t.Fatalf("sig %d: Exact requested but %d of %d digits used", i, s.HexLen, len(hexDigits))
		}
		if o.ContentsLast && string(b[s.ContentsEnd:s.ContentsEnd+2]) != ">>" {
			t.Fatalf("sig %d: ContentsLast but hex string is followed by %q", i, b[s.ContentsEnd:s.ContentsEnd+8])
		}
	}
	last := d.Sigs[len(d.Sigs)-1]
	if last.RevisionEnd != int64(len(b)) {
		t.Fatalf("last signature does not cover the whole file: %d != %d", last.RevisionEnd, len(b))
	}
}

// TestKinds: for every SubFilter (a) untampered => DocModified false at the seam, (b) one flipped bit in either
// signed range => DocModified != false and status != valid, (c) the public API runs without error.
func TestKinds(t *testing.T) {
	for _, kind := range Kinds {
		for _, o := range []Options{
			{SubFilter: kind},
			{SubFilter: kind, ContentsLast: true, Exact: true},
		} {
			o := o
			t.Run(fmt.Sprintf("%s/last=%v,exact=%v", kind, o.ContentsLast, o.Exact), func(t *testing.T) {
				d := build(t, o)
				checkLayout(t, d, o)
				s := d.Sigs[0]
				t.Logf("size=%d ByteRange=%v hexLen=%d reserved=%d", len(d.Bytes), s.ByteRange, s.HexLen, s.ContentsEnd-s.ContentsStart-2)

				// (a)
				vv := seam(t, d.Bytes)
				if len(vv) != 1 {
					t.Fatalf("seam: want 1 verdict, got %d", len(vv))
				}
				t.Logf("SEAM untampered: %s", vv[0])
				if vv[0].Err != "" || vv[0].DocModified != "false" || vv[0].Status == "invalid" {
					t.Fatalf("seam: untampered document not reported unmodified: %s", vv[0])
				}
				// Exact verdict offline: trust path resolves to the injected root, revocation cannot conclude.
				const offlineReason = "signer's certificate revocation status is unknown"
				if vv[0].Status != "unknown" || vv[0].Reason != offlineReason {
					t.Fatalf("seam: unexpected verdict: %s", vv[0])
				}
				if vv[0].SubFilter != kind || vv[0].Field != "Signature1" || vv[0].ObjNr != s.ObjNr {
					t.Fatalf("seam: wrong identification: %s", vv[0])
				}

				// (b)
				for ri, m := range d.Mutable {
					off := m[0] + 3
					inFirst := off >= s.ByteRange[0] && off < s.ByteRange[0]+s.ByteRange[1]
					inSecond := off >= s.ByteRange[2] && off < s.ByteRange[2]+s.ByteRange[3]
					if (ri == 0 && !inFirst) || (ri == 1 && !inSecond) {
						t.Fatalf("Mutable[%d]=%v not inside signed range %d", ri, m, ri+1)
					}
					tv := seam(t, FlipBit(d.Bytes, off))
					if len(tv) != 1 {
						t.Fatalf("seam tampered: want 1 verdict, got %d", len(tv))
					}
					t.Logf("SEAM bit flip @%d (range %d): %s", off, ri+1, tv[0])
					if tv[0].DocModified == "false" || tv[0].Status == "valid" {
						t.Fatalf("seam: tampering in range %d not detected: %s", ri+1, tv[0])
					}
				}

				// (c)
				av, err := ValidateAPI(d.Bytes)
				if err != nil {
					t.Fatalf("ValidateAPI: %v", err)
				}
				for _, v := range av {
					t.Logf("API untampered: %s", v)
				}
				// The public API reports DocModified=false only for document timestamps: form signatures always
				// arrive with increment >= 1 (the reader numbers the latest xref section 1, pkg/pdfcpu/sign.go
				// treats only increment 0 as the current revision) and applyHistoricalRevisionReporting rewrites
				// false -> unknown. So the API level oracle is "not true / not invalid".
				wantAPI := "unknown"
				if kind == RFC3161 {
					wantAPI = "false"
				}
				if len(av) != 1 || av[0].DocModified != wantAPI || av[0].Status != "unknown" || av[0].Reason != offlineReason {
					t.Fatalf("API: untampered document: want DocModified=%s, got %v", wantAPI, av)
				}
				for ri, m := range d.Mutable {
					tv, err := ValidateAPI(FlipBit(d.Bytes, m[0]+3))
					if err != nil {
						t.Fatalf("ValidateAPI tampered: %v", err)
					}
					t.Logf("API bit flip (range %d): %s", ri+1, tv[0])
					if tv[0].DocModified != "true" || tv[0].Status != "invalid" {
						t.Fatalf("API: tampering in range %d not detected: %s", ri+1, tv[0])
					}
				}
			})
		}
	}
}

// TestTwoSignatures: second signature as incremental update.
func TestTwoSignatures(t *testing.T) {
	for _, o := range []Options{
		{SubFilter: PKCS7Detached, Second: CAdESDetached},
		{SubFilter: X509RSASHA1, Second: PKCS7SHA1, ContentsLast: true},
		{SubFilter: CAdESDetached, Second: RFC3161},
	} {
		o := o
		t.Run(o.SubFilter+"+"+o.Second, func(t *testing.T) {
			d := build(t, o)
			checkLayout(t, d, o)
			if len(d.Sigs) != 2 || len(d.Mutable) != 4 {
				t.Fatalf("want 2 signatures and 4 mutable ranges, got %d/%d", len(d.Sigs), len(d.Mutable))
			}
			s1, s2 := d.Sigs[0], d.Sigs[1]
			if s1.RevisionEnd >= s2.ContentsStart || !bytes.HasSuffix(d.Bytes[:s1.RevisionEnd], []byte("%%EOF\n")) {
				t.Fatalf("signature 1 does not end at the first revision")
			}
			vv := seam(t, d.Bytes)
			if len(vv) != 2 {
				t.Fatalf("seam: want 2 verdicts, got %d", len(vv))
			}
			for i, v := range vv {
				t.Logf("SEAM untampered sig %d: %s", i+1, v)
				if v.DocModified != "false" || v.Err != "" || v.SubFilter != d.Sigs[i].SubFilter {
					t.Fatalf("seam: signature %d: %s", i+1, v)
				}
			}
			// Which signature notices a flip where (seam level).
			//   Mutable[0]: revision 1 before Contents 1 -> both
			//   Mutable[1]: revision 1 after Contents 1  -> both
			//   Mutable[2], Mutable[3]: revision 2       -> signature 2 only
			for ri, m := range d.Mutable {
				tv := seam(t, FlipBit(d.Bytes, m[0]+3))
				t.Logf("SEAM flip in Mutable[%d]: sig1 docModified=%s status=%s | sig2 docModified=%s status=%s",
					ri, tv[0].DocModified, tv[0].Status, tv[1].DocModified, tv[1].Status)
				want1 := ri < 2
				if got := tv[0].DocModified != "false"; got != want1 {
					t.Fatalf("seam: flip in Mutable[%d]: signature 1 modified=%v want %v: %s", ri, got, want1, tv[0])
				}
				if tv[1].DocModified == "false" {
					t.Fatalf("seam: flip in Mutable[%d]: signature 2 did not notice: %s", ri, tv[1])
				}
			}
			av, err := ValidateAPI(d.Bytes)
			if err != nil {
				t.Fatalf("ValidateAPI: %v", err)
			}
			for _, v := range av {
				t.Logf("API untampered: %s", v)
			}
			if len(av) != 2 {
				t.Fatalf("API: want 2 verdicts, got %d", len(av))
			}
		})
	}
}

// TestResign: an attacker owning the key shrinks the second range of the ByteRange, re-signs, and the signature
// value verifies again over the reduced ranges (whether the validator then objects is the subject of the checks
// built on top of this package, it is only logged here).
func TestResign(t *testing.T) {
	for _, kind := range Kinds {
		t.Run(kind, func(t *testing.T) {
			d := build(t, Options{SubFilter: kind})
			s := d.Sigs[0]

			// Identity: re-signing over the unchanged ranges keeps the document unmodified.
			b, err := d.Resign(d.Bytes, 0, s.ByteRange)
			if err != nil {
				t.Fatal(err)
			}
			if v := seam(t, b)[0]; v.DocModified != "false" {
				t.Fatalf("resign identity: %s", v)
			}

			// Tamper + re-sign: the signature follows the content.
			b, err = d.Resign(FlipBit(d.Bytes, d.Mutable[1][0]+3), 0, s.ByteRange)
			if err != nil {
				t.Fatal(err)
			}
			if v := seam(t, b)[0]; v.DocModified != "false" {
				t.Fatalf("tamper+resign: %s", v)
			}

			// Shrink the second range by 10 bytes (no longer reaching EOF), patch the text and re-sign.
			br := s.ByteRange
			br[3] -= 10
			b, err = d.PatchByteRange(d.Bytes, 0, br)
			if err != nil {
				t.Fatal(err)
			}
			if v := seam(t, b)[0]; v.DocModified == "false" {
				t.Fatalf("patched ByteRange without re-signing still unmodified: %s", v)
			}
			b, err = d.Resign(b, 0, br)
			if err != nil {
				t.Fatal(err)
			}
			t.Logf("SEAM shrunk ByteRange %v + resign: %s", br, seam(t, b)[0])
			av, err := ValidateAPI(b)
			if err != nil {
				t.Logf("API  shrunk ByteRange + resign: error %v", err)
			} else {
				t.Logf("API  shrunk ByteRange %v + resign: %s", br, av[0])
			}
		})
	}
}

// TestAppendAfterEOF logs (does not judge) what pdfcpu says when bytes are appended after the signed revision
// without any xref section: the signature value still verifies, only a revision boundary check could object.
func TestAppendAfterEOF(t *testing.T) {
	for _, kind := range Kinds {
		d := build(t, Options{SubFilter: kind})
		b := append(append([]byte(nil), d.Bytes...), []byte("% appended after the signed revision\n")...)
		sv := seam(t, b)
		t.Logf("SEAM %s + appended comment: %s", kind, sv[0])
		if sv[0].DocModified != "false" {
			t.Fatalf("seam: signed ranges untouched, yet: %s", sv[0])
		}
		av, err := ValidateAPI(b)
		if err != nil {
			t.Logf("API  %s + appended comment: error %v", kind, err)
			continue
		}
		t.Logf("API  %s + appended comment: %s", kind, av[0])
	}
}

func TestRootMaterial(t *testing.T) {
	if RootCert() == nil || !RootCert().IsCA || len(RootPEM()) == 0 || len(RootDER()) == 0 {
		t.Fatal("root material missing")
	}
	if err := SignerCert().CheckSignatureFrom(RootCert()); err != nil {
		t.Fatal(err)
	}
	if err := TSACert().CheckSignatureFrom(RootCert()); err != nil {
		t.Fatal(err)
	}
}

func TestNoScratchLeft(t *testing.T) {
	if _, err := ValidateAPI(build(t, Options{SubFilter: PKCS7Detached}).Bytes); err != nil {
		t.Fatal(err)
	}
	Cleanup()
	ee, _ := os.ReadDir(os.TempDir())
	for _, e := range ee {
		if strings.HasPrefix(e.Name(), "sigdoc-certs-") {
			t.Fatalf("scratch trust dir %s left behind", e.Name())
		}
	}
}
