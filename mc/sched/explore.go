// Package sched is the stateless, preemption-bounded DFS explorer over the cooperative scheduler of
// the vsync/vatomic shims (github.com/pdfcpu/pdfcpu/vx/vsched).
package sched

import (
	"fmt"

	"github.com/pdfcpu/pdfcpu/vx/vsched"
)

// Exec is one complete execution.
type Exec struct {
	Choices  []int
	Enabled  [][]int
	Running  []int
	Trace    []string
	Deadlock bool
	Livelock bool
	Panics   []string
	Obs      any // whatever the scenario's run function returns (histories, results)
}

// Scenario: Run must build fresh state, create the thread bodies, run them under s and return observations.
type Scenario struct {
	Name string
	Run  func(s *vsched.Scheduler) any
}

type Explorer struct {
	Bound      int // preemption bound
	MaxExecs   int // cap (0 = none); hitting it is reported
	Execs      int
	Capped     bool
	Points     int
	MaxDepth   int
	OnExec     func(x *Exec) bool // return false to stop the exploration
	stop       bool
	Divergence string
}

// run replays prefix (an out-of-range choice fails loudly) and then takes choice 0 everywhere.
func (e *Explorer) run(sc *Scenario, prefix []int) *Exec {
	s := vsched.New(func(step, running int, enabled []int, pending []string) int {
		if step < len(prefix) {
			if prefix[step] >= len(enabled) {
				panic(fmt.Sprintf("sched: replay divergence at step %d: choice %d but only %d enabled", step, prefix[step], len(enabled)))
			}
			return prefix[step]
		}
		return 0
	})
	obs := sc.Run(s)
	return &Exec{Choices: s.Choices, Enabled: s.Enabled, Running: s.Running, Trace: s.Trace, Deadlock: s.Deadlock, Livelock: s.Livelock, Panics: s.Panics, Obs: obs}
}

// Replay runs one schedule.
func (e *Explorer) Replay(sc *Scenario, choices []int) *Exec { return e.run(sc, choices) }

func preemptionsBefore(x *Exec, i int) int {
	n := 0
	for k := 0; k < i; k++ {
		// a preemption: the previously running thread was still enabled (it is enabled[0] by the canonical order) and another was chosen
		if x.Running[k] >= 0 && len(x.Enabled[k]) > 0 && x.Enabled[k][0] == x.Running[k] && x.Choices[k] != 0 {
			n++
		}
	}
	return n
}

// Explore enumerates every schedule with at most Bound preemptions.
func (e *Explorer) Explore(sc *Scenario) {
	e.explore(sc, nil)
}

func (e *Explorer) explore(sc *Scenario, prefix []int) {
	if e.stop {
		return
	}
	if e.MaxExecs > 0 && e.Execs >= e.MaxExecs {
		e.Capped = true
		return
	}
	x := e.run(sc, prefix)
	e.Execs++
	e.Points += len(x.Choices)
	if len(x.Choices) > e.MaxDepth {
		e.MaxDepth = len(x.Choices)
	}
	for i := 0; i < len(prefix) && i < len(x.Choices); i++ {
		if x.Choices[i] != prefix[i] {
			e.Divergence = fmt.Sprintf("replayed prefix diverged at step %d", i)
			e.stop = true
			return
		}
	}
	if e.OnExec != nil && !e.OnExec(x) {
		e.stop = true
		return
	}
	for i := len(prefix); i < len(x.Choices); i++ {
		cost := preemptionsBefore(x, i)
		runningEnabled := x.Running[i] >= 0 && x.Enabled[i][0] == x.Running[i]
		if runningEnabled {
			cost++
		}
		if cost > e.Bound {
			continue
		}
		for alt := 1; alt < len(x.Enabled[i]); alt++ {
			np := append(append([]int{}, x.Choices[:i]...), alt)
			e.explore(sc, np)
			if e.stop {
				return
			}
		}
	}
}
