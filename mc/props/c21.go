package props

import (
	"bytes"
	"fmt"
	"image/color"
	"io"
	"os"
	"path/filepath"
	"strings"

	"github.com/pdfcpu/pdfcpu/pkg/api"
	"github.com/pdfcpu/pdfcpu/pkg/pdfcpu"
	"github.com/pdfcpu/pdfcpu/pkg/pdfcpu/model"
	"github.com/pdfcpu/pdfcpu/pkg/pdfcpu/types"
	"verif/mc/core"
	"verif/mc/docgen"
)

// C21: every output produced from a valid input validates.
func init() {
	core.Register(&core.Check{
		ID:    "C21",
		Level: "exploration",
		Rule: "every transforming operation of the API (optimize, rotate, trim, collect, insert/remove pages, keywords, properties, page layout/mode, viewer preferences, boxes add/remove, crop, resize, zoom, text/image/PDF stamps and watermarks + removal, annotations add/remove, bookmarks add/remove/import, attachments add/remove, n-up, grid, booklet, merge, zip-merge, import images onto a PDF, encrypt x4 algorithms, decrypt, change passwords, set permissions, form fill/lock/unlock/reset/remove fields, split spans, n-down/poster/cut parts) x a grid of valid parameter values per operation (2-12 variants, full product per operation) x inputs that pass validation (quick: 6 = flat, nested+inherited, per-page attributes, object-stream input with filters, outline+attachment, a form, shared indirect page attributes, referenced stream lengths, and four hand-built documents in other producers' style: AcroForm, multi-level name tree, outline with named destinations, metadata with XMP; thorough: the whole C19 family + form + stamped + encrypted-then-decrypted); oracle: success => the re-read output passes pdfcpu's relaxed validation (with the password where encrypted); an operation that fails is not judged here; " +
			"non-trivial = every successful case",
		Run: runC21,
	})
}

type vop struct {
	name     string
	variants int
	pw       string
	run      func(dir string, in []byte, v int) ([][]byte, error) // one or more outputs
}

func one(b []byte, err error) ([][]byte, error) {
	if err != nil {
		return nil, err
	}
	return [][]byte{b}, nil
}

func c21ops() []vop {
	buf := func(f func(rs io.ReadSeeker, w io.Writer) error, in []byte) ([][]byte, error) {
		var out bytes.Buffer
		err := f(bytes.NewReader(in), &out)
		return one(out.Bytes(), err)
	}
	sels := [][]string{nil, {"1"}, {"l"}, {"even"}, {"1-2"}}
	img := tinyPNG(8, 6, color.RGBA{10, 200, 10, 255})
	other := docgen.Marked(2, 300)
	dirParts := func(dir string) ([][]byte, error) {
		es, err := os.ReadDir(dir)
		if err != nil {
			return nil, err
		}
		var out [][]byte
		for _, e := range es {
			if strings.HasSuffix(e.Name(), ".pdf") {
				b, err := os.ReadFile(filepath.Join(dir, e.Name()))
				if err != nil {
					return nil, err
				}
				out = append(out, b)
			}
		}
		return out, nil
	}
	ops := []vop{
		{"optimize", 1, "", func(d string, in []byte, v int) ([][]byte, error) {
			return buf(func(rs io.ReadSeeker, w io.Writer) error { return api.Optimize(rs, w, newConf()) }, in)
		}},
		{"rotate", 15, "", func(d string, in []byte, v int) ([][]byte, error) {
			return buf(func(rs io.ReadSeeker, w io.Writer) error {
				return api.Rotate(rs, w, []int{90, 180, 270}[v%3], sels[v/3], newConf())
			}, in)
		}},
		{"trim", 4, "", func(d string, in []byte, v int) ([][]byte, error) {
			return buf(func(rs io.ReadSeeker, w io.Writer) error { return api.Trim(rs, w, sels[v+1], newConf()) }, in)
		}},
		{"collect", 3, "", func(d string, in []byte, v int) ([][]byte, error) {
			return buf(func(rs io.ReadSeeker, w io.Writer) error {
				return api.Collect(rs, w, [][]string{{"l", "1"}, {"1", "1"}, {"1-"}}[v], newConf())
			}, in)
		}},
		{"insertpages", 10, "", func(d string, in []byte, v int) ([][]byte, error) {
			return buf(func(rs io.ReadSeeker, w io.Writer) error { return api.InsertPages(rs, w, sels[v/2], v%2 == 0, nil, newConf()) }, in)
		}},
		{"insertpages-A5L", 2, "", func(d string, in []byte, v int) ([][]byte, error) {
			pc, err := pdfcpu.ParsePageConfiguration("f:A5L", types.POINTS)
			if err != nil {
				return nil, err
			}
			return buf(func(rs io.ReadSeeker, w io.Writer) error { return api.InsertPages(rs, w, []string{"1"}, v == 0, pc, newConf()) }, in)
		}},
		{"removepages", 2, "", func(d string, in []byte, v int) ([][]byte, error) {
			return buf(func(rs io.ReadSeeker, w io.Writer) error { return api.RemovePages(rs, w, sels[v+1], newConf()) }, in)
		}},
		{"addkeywords", 2 + len(c21Hazards), "", func(d string, in []byte, v int) ([][]byte, error) {
			kws := [][]string{{"k"}, {"ü €", "two words"}}
			for _, h := range c21Hazards {
				kws = append(kws, []string{h, "plain"})
			}
			return buf(func(rs io.ReadSeeker, w io.Writer) error { return api.AddKeywords(rs, w, kws[v], newConf()) }, in)
		}},
		{"addproperties", 2 + 2*len(c21Hazards), "", func(d string, in []byte, v int) ([][]byte, error) {
			ps := []map[string]string{{"A": "1"}, {"Ключ": "(x)\\", "B": ""}}
			for _, h := range c21Hazards {
				ps = append(ps, map[string]string{"Key": h}, map[string]string{h: "value"}) // hazard as value and as key
			}
			return buf(func(rs io.ReadSeeker, w io.Writer) error { return api.AddProperties(rs, w, ps[v], newConf()) }, in)
		}},
		{"setpagelayout", 6, "", func(d string, in []byte, v int) ([][]byte, error) {
			return buf(func(rs io.ReadSeeker, w io.Writer) error { return api.SetPageLayout(rs, w, model.PageLayout(v), newConf()) }, in)
		}},
		{"setpagemode", 6, "", func(d string, in []byte, v int) ([][]byte, error) {
			return buf(func(rs io.ReadSeeker, w io.Writer) error { return api.SetPageMode(rs, w, model.PageMode(v), newConf()) }, in)
		}},
		{"setviewerprefs", len(c21ViewerPrefs), "", func(d string, in []byte, v int) ([][]byte, error) {
			js := c21ViewerPrefs[v]
			return buf(func(rs io.ReadSeeker, w io.Writer) error { return api.SetViewerPreferencesFromJSONBytes(rs, w, []byte(js), newConf()) }, in)
		}},
		{"addboxes", 8, "", func(d string, in []byte, v int) ([][]byte, error) {
			pb, err := api.PageBoundaries([]string{"crop:[10 10 200 200]", "trim:[10 10 200 200], bleed:[5 5 250 250]", "art:10", "media:[0 0 300 300]"}[v%4], types.POINTS)
			if err != nil {
				return nil, err
			}
			return buf(func(rs io.ReadSeeker, w io.Writer) error { return api.AddBoxes(rs, w, sels[v/4], pb, newConf()) }, in)
		}},
		{"crop", 6, "", func(d string, in []byte, v int) ([][]byte, error) {
			b, err := api.Box([]string{"[0 0 100 100]", "10", "0.2 0.1 rel"}[v%3], types.POINTS)
			if err != nil {
				return nil, err
			}
			return buf(func(rs io.ReadSeeker, w io.Writer) error { return api.Crop(rs, w, sels[v/3], b, newConf()) }, in)
		}},
		{"resize", 8, "", func(d string, in []byte, v int) ([][]byte, error) {
			rc, err := pdfcpu.ParseResizeConfig([]string{"sc:0.5", "sc:2", "f:A5", "dim:200 300, enforce:true"}[v%4], types.POINTS)
			if err != nil {
				return nil, err
			}
			return buf(func(rs io.ReadSeeker, w io.Writer) error { return api.Resize(rs, w, sels[v/4], rc, newConf()) }, in)
		}},
		{"zoom", 6, "", func(d string, in []byte, v int) ([][]byte, error) {
			z, err := pdfcpu.ParseZoomConfig([]string{"factor:0.5", "factor:2", "hmargin:20, border:true"}[v%3], types.POINTS)
			if err != nil {
				return nil, err
			}
			return buf(func(rs io.ReadSeeker, w io.Writer) error { return api.Zoom(rs, w, sels[v/3], z, newConf()) }, in)
		}},
		{"stamp", 24, "", func(d string, in []byte, v int) ([][]byte, error) {
			desc := []string{"pos:tl", "pos:c, rot:45, op:0.5", "pos:br, scale:1 abs", "pos:bc, margins:10, border:2, bgcol:#ff0000"}[v%4]
			onTop := (v/4)%2 == 0
			var wm *model.Watermark
			var err error
			switch v / 8 {
			case 0:
				wm, err = api.TextWatermark("Stamp\nüline", desc, onTop, false, types.POINTS)
			case 1:
				wm, err = api.ImageWatermarkForReader(bytes.NewReader(img), desc, onTop, false, types.POINTS)
			default:
				wm, err = api.PDFWatermarkForReadSeeker(bytes.NewReader(other), 1, desc, onTop, false, types.POINTS)
			}
			if err != nil {
				return nil, err
			}
			return buf(func(rs io.ReadSeeker, w io.Writer) error { return api.AddWatermarks(rs, w, sels[v%5], wm, newConf()) }, in)
		}},
		{"stamp+remove", 2, "", func(d string, in []byte, v int) ([][]byte, error) {
			wm, err := api.TextWatermark("S", "pos:c", v == 0, false, types.POINTS)
			if err != nil {
				return nil, err
			}
			var mid bytes.Buffer
			if err := api.AddWatermarks(bytes.NewReader(in), &mid, nil, wm, newConf()); err != nil {
				return nil, err
			}
			return buf(func(rs io.ReadSeeker, w io.Writer) error { return api.RemoveWatermarks(rs, w, nil, newConf()) }, mid.Bytes())
		}},
		{"addannotation", 4, "", func(d string, in []byte, v int) ([][]byte, error) {
			var ann model.AnnotationRenderer
			if v%2 == 0 {
				ann = model.NewTextAnnotation(*types.NewRectangle(10, 10, 60, 60), 0, "c ü", "id1", "", 0, nil, "t", nil, nil, "", "", 0, 0, 0, true, "")
			} else {
				ann = model.NewLinkAnnotation(*types.NewRectangle(10, 10, 60, 60), 0, "", "id2", "", 0, nil, nil, "https://example.invalid", nil, true, 1, model.BSSolid)
			}
			return buf(func(rs io.ReadSeeker, w io.Writer) error { return api.AddAnnotations(rs, w, sels[v/2], ann, newConf()) }, in)
		}},
		{"removeannotations", 9, "", func(d string, in []byte, v int) ([][]byte, error) {
			pages := [][]string{nil, {"1"}, {"2-"}}[v/3]
			what := [][]string{nil, {"Text"}, {"Link"}}[v%3]
			return buf(func(rs io.ReadSeeker, w io.Writer) error { return api.RemoveAnnotations(rs, w, pages, what, nil, newConf()) }, in)
		}},
		{"addbookmarks", 3 + len(c21Hazards) + 4, "", func(d string, in []byte, v int) ([][]byte, error) {
			all := [][]pdfcpu.Bookmark{
				{{Title: "One", PageFrom: 1}},
				{{Title: "ü(", PageFrom: 1, Bold: true, Kids: []pdfcpu.Bookmark{{Title: "kid", PageFrom: 1, Italic: true}}}},
				{{Title: "A", PageFrom: 1}, {Title: "B", PageFrom: 1}},
			}
			for _, h := range c21Hazards {
				all = append(all, []pdfcpu.Bookmark{{Title: h, PageFrom: 1}, {Title: "after", PageFrom: 1}})
			}
			// page boundary values and colour
			all = append(all,
				[]pdfcpu.Bookmark{{Title: "zero", PageFrom: 0}},
				[]pdfcpu.Bookmark{{Title: "beyond", PageFrom: 9999}},
				[]pdfcpu.Bookmark{{Title: "negative", PageFrom: -1}},
				[]pdfcpu.Bookmark{{Title: "deep", PageFrom: 1, Kids: []pdfcpu.Bookmark{{Title: "k1", PageFrom: 1, Kids: []pdfcpu.Bookmark{{Title: "k2", PageFrom: 1}}}}}},
			)
			return buf(func(rs io.ReadSeeker, w io.Writer) error { return api.AddBookmarks(rs, w, all[v], true, newConf()) }, in)
		}},
		{"addattachment", 2, "", func(d string, in []byte, v int) ([][]byte, error) {
			p := filepath.Join(d, []string{"a.txt", "ä b.bin"}[v])
			os.WriteFile(p, []byte("attached"), 0o644)
			return buf(func(rs io.ReadSeeker, w io.Writer) error { return api.AddAttachments(rs, w, []string{p}, v == 1, newConf()) }, in)
		}},
		{"nup", 7, "", func(d string, in []byte, v int) ([][]byte, error) {
			nup, err := api.PDFNUpConfig([]int{2, 3, 4, 8, 9, 12, 16}[v], "", newConf())
			if err != nil {
				return nil, err
			}
			return buf(func(rs io.ReadSeeker, w io.Writer) error { return api.NUp(rs, w, nil, nil, nup, newConf()) }, in)
		}},
		{"grid", 4, "", func(d string, in []byte, v int) ([][]byte, error) {
			nup, err := api.PDFGridConfig(1+v%2, 1+v/2, "", newConf())
			if err != nil {
				return nil, err
			}
			return buf(func(rs io.ReadSeeker, w io.Writer) error { return api.NUp(rs, w, nil, nil, nup, newConf()) }, in)
		}},
		{"booklet", 6, "", func(d string, in []byte, v int) ([][]byte, error) {
			nup, err := api.PDFBookletConfig([]int{2, 4, 2, 4, 6, 8}[v], []string{"formsize:A4", "formsize:A4", "formsize:A4, btype:perfectbound", "formsize:A4L, btype:bookletadvanced, binding:short", "formsize:A4", "formsize:A4"}[v], newConf())
			if err != nil {
				return nil, err
			}
			return buf(func(rs io.ReadSeeker, w io.Writer) error { return api.Booklet(rs, w, nil, nil, nup, newConf()) }, in)
		}},
		{"merge", 2, "", func(d string, in []byte, v int) ([][]byte, error) {
			var out bytes.Buffer
			err := api.MergeRaw([]io.ReadSeeker{bytes.NewReader(in), bytes.NewReader(other)}, &out, v == 1, newConf())
			return one(out.Bytes(), err)
		}},
		{"zipmerge", 2, "", func(d string, in []byte, v int) ([][]byte, error) {
			var out bytes.Buffer
			var err error
			if v == 0 {
				err = api.MergeCreateZip(bytes.NewReader(in), bytes.NewReader(other), &out, newConf())
			} else {
				err = api.MergeCreateZip(bytes.NewReader(other), bytes.NewReader(in), &out, newConf())
			}
			return one(out.Bytes(), err)
		}},
		{"importimage", 2, "", func(d string, in []byte, v int) ([][]byte, error) {
			imp, err := api.Import([]string{"f:A5, pos:c", "pos:full"}[v], types.POINTS)
			if err != nil {
				return nil, err
			}
			return buf(func(rs io.ReadSeeker, w io.Writer) error {
				return api.ImportImages(rs, w, []io.Reader{bytes.NewReader(img)}, imp, newConf())
			}, in)
		}},
		{"split", 3, "", func(d string, in []byte, v int) ([][]byte, error) {
			ps, err := api.SplitRaw(bytes.NewReader(in), 1+v, newConf())
			if err != nil {
				return nil, err
			}
			var out [][]byte
			for _, p := range ps {
				b, _ := io.ReadAll(p.Reader)
				out = append(out, b)
			}
			return out, nil
		}},
		{"ndown", 3, "", func(d string, in []byte, v int) ([][]byte, error) {
			n := []int{2, 3, 4}[v]
			cut, err := pdfcpu.ParseCutConfigForN(n, "", types.POINTS)
			if err != nil {
				return nil, err
			}
			od := filepath.Join(d, fmt.Sprintf("ndown%d", v))
			os.MkdirAll(od, 0o755)
			if err := api.NDown(bytes.NewReader(in), od, "x", []string{"1"}, n, cut, newConf()); err != nil {
				return nil, err
			}
			return dirParts(od)
		}},
		{"poster", 2, "", func(d string, in []byte, v int) ([][]byte, error) {
			cut, err := pdfcpu.ParseCutConfigForPoster([]string{"f:A6", "dim:200 300"}[v], types.POINTS)
			if err != nil {
				return nil, err
			}
			od := filepath.Join(d, fmt.Sprintf("poster%d", v))
			os.MkdirAll(od, 0o755)
			if err := api.Poster(bytes.NewReader(in), od, "x", []string{"1"}, cut, newConf()); err != nil {
				return nil, err
			}
			return dirParts(od)
		}},
		{"cut", 2, "", func(d string, in []byte, v int) ([][]byte, error) {
			cut, err := pdfcpu.ParseCutConfig([]string{"hor:0.5", "hor:0.25 0.5, vert:0.5, margin:10, border:on"}[v], types.POINTS)
			if err != nil {
				return nil, err
			}
			od := filepath.Join(d, fmt.Sprintf("cut%d", v))
			os.MkdirAll(od, 0o755)
			if err := api.Cut(bytes.NewReader(in), od, "x", []string{"1"}, cut, newConf()); err != nil {
				return nil, err
			}
			return dirParts(od)
		}},
	}
	for _, a := range calgs {
		a := a
		ops = append(ops, vop{"encrypt-" + a.name, 2, "u", func(d string, in []byte, v int) ([][]byte, error) {
			return buf(func(rs io.ReadSeeker, w io.Writer) error {
				return api.Encrypt(rs, w, encConf(a, "u", "o", []int{0xF0C3, 0xFFFF}[v]))
			}, in)
		}})
	}
	ops = append(ops, vop{"encrypt+changepw+decrypt", 4, "", func(d string, in []byte, v int) ([][]byte, error) {
		a := calgs[v]
		var e, c1, c2 bytes.Buffer
		if err := api.Encrypt(bytes.NewReader(in), &e, encConf(a, "u", "o", 0xFFFF)); err != nil {
			return nil, err
		}
		c := newConf()
		c.OwnerPW = "o"
		if err := api.ChangeUserPassword(bytes.NewReader(e.Bytes()), &c1, "u", "u2", c); err != nil {
			return nil, err
		}
		c = newConf()
		c.UserPW = "u2"
		if err := api.ChangeOwnerPassword(bytes.NewReader(c1.Bytes()), &c2, "o", "o2", c); err != nil {
			return nil, err
		}
		c = newConf()
		c.UserPW, c.OwnerPW = "u2", "o2"
		return buf(func(rs io.ReadSeeker, w io.Writer) error { return api.Decrypt(rs, w, c) }, c2.Bytes())
	}})
	return ops
}

func runC21(r *core.R) {
	api.DisableConfigDir()
	base := core.Scratch("c21")
	defer os.RemoveAll(base)
	type input struct {
		name string
		b    []byte
	}
	var inputs []input
	want := map[string]bool{
		"pages=3,nested=false,attrs=none/classic": true, "pages=4,nested=true,attrs=first-subtree-defines/classic": true,
		"pages=3,nested=false,attrs=per-page/classic": true, "numbering=gaps,extra=filters/objstream": true, "numbering=dense,extra=outline/classic": true, "numbering=dense,extra=attachment/classic": true,
	}
	for _, f := range docgen.Family(true) {
		if !r.Quick() || want[f.Name] {
			inputs = append(inputs, input{f.Name, f.Bytes})
		}
	}
	var form bytes.Buffer
	if err := api.Create(nil, bytes.NewReader([]byte(c37formJSON)), &form, newConf()); err != nil {
		r.HarnessError("create form: %v", err)
		return
	}
	inputs = append(inputs, input{"form", form.Bytes()})
	// documents structured the way other producers write them
	fbm := []pdfcpu.Bookmark{{Title: "One", PageFrom: 1, Kids: []pdfcpu.Bookmark{{Title: "Two", PageFrom: 2}}}, {Title: "Three", PageFrom: 3}}
	inputs = append(inputs,
		input{"foreign:acroform", docgen.ForeignForm("classic")},
		input{"foreign:name-tree (1 (1 1 1))", c39TreeDoc(ntShape{Kids: []ntShape{{Leaf: 1}, {Kids: []ntShape{{Leaf: 1}, {Leaf: 1}, {Leaf: 1}}}}}, []string{"b.txt", "d.txt", "f.txt", "h.txt"})},
		input{"foreign:outline named destinations", c36ForeignOutline(fbm, "named-name-tree-array")},
		input{"foreign:metadata", c35ForeignDoc()},
		input{"foreign:shared /Annots array", c21SharedAnnotsDoc()},
		input{"foreign:two revisions, freed popup still referenced (dangling-free-ref), no Info", docgen.TwoRevisionFreedPopup(false)},
		input{"foreign:two revisions, freed popup still referenced (dangling-free-ref), Info", docgen.TwoRevisionFreedPopup(true)},
	)
	if r.Quick() {
		for _, f := range docgen.Family(true) {
			if f.Name == "numbering=dense,extra=shared-indirect-attrs/classic" || f.Name == "numbering=dense,extra=none/indirect-lengths" || f.Name == "numbering=dangling-free-ref-twice,extra=none/classic" || f.Name == "numbering=dangling-popup-ref,extra=no-info/classic" || f.Name == "numbering=dangling-popup-ref,extra=none/classic" {
				inputs = append(inputs, input{f.Name, f.Bytes})
			}
		}
	}
	for _, in := range inputs {
		if err := api.Validate(bytes.NewReader(in.b), newConf()); err != nil {
			r.HarnessError("input %s does not validate: %v", in.name, err)
			return
		}
	}
	ops := c21ops()
	// form operations (only meaningful on the form input)
	formOps := []vop{
		{"form-lock", 2, "", func(d string, in []byte, v int) ([][]byte, error) {
			var out bytes.Buffer
			err := api.LockFormFields(bytes.NewReader(in), &out, [][]string{nil, {"t1"}}[v], newConf())
			return one(out.Bytes(), err)
		}},
		{"form-reset", 1, "", func(d string, in []byte, v int) ([][]byte, error) {
			var out bytes.Buffer
			err := api.ResetFormFields(bytes.NewReader(in), &out, nil, newConf())
			return one(out.Bytes(), err)
		}},
		{"form-remove-field", 3, "", func(d string, in []byte, v int) ([][]byte, error) {
			var out bytes.Buffer
			err := api.RemoveFormFields(bytes.NewReader(in), &out, [][]string{{"t1"}, {"r1"}, {"l1", "c1"}}[v], newConf())
			return one(out.Bytes(), err)
		}},
		{"form-fill", 3, "", func(d string, in []byte, v int) ([][]byte, error) {
			raw, _, err := exportValues(in)
			if err != nil {
				return nil, err
			}
			set := []map[string]fval{{"t1": {"x", false}}, {"l1": {[]string{"y", "z"}, true}, "c1": {true, false}}, {"r1": {"c", false}, "cb1": {"three", true}}}[v]
			out, err := fillDoc(in, withValues(raw, set))
			return one(out, err)
		}},
	}
	formDocs := [][]byte{docgen.FormDoc("flat-own-da"), docgen.FormDoc("nested-inherit-da"), form.Bytes()}
	for i, fd := range formDocs[:2] {
		if err := api.Validate(bytes.NewReader(fd), newConf()); err != nil {
			r.HarnessError("hand-built form %d does not validate: %v", i, err)
			return
		}
		inputs = append(inputs, input{fmt.Sprintf("handbuilt-form-%d", i), fd})
	}
	formOps = append(formOps, vop{"merge-forms", 9, "", func(d string, in []byte, v int) ([][]byte, error) {
		var out bytes.Buffer
		err := api.MergeRaw([]io.ReadSeeker{bytes.NewReader(formDocs[v/3]), bytes.NewReader(formDocs[v%3])}, &out, false, newConf())
		return one(out.Bytes(), err)
	}})
	r.Note("inputs", len(inputs))
	r.Note("operations", len(ops)+len(formOps))
	type job struct {
		in input
		op vop
		v  int
	}
	var jobs []job
	for _, in := range inputs {
		for _, op := range ops {
			for v := 0; v < op.variants; v++ {
				jobs = append(jobs, job{in, op, v})
			}
		}
		if in.name == "form" {
			for _, op := range formOps {
				for v := 0; v < op.variants; v++ {
					jobs = append(jobs, job{in, op, v})
				}
			}
		}
	}
	r.Note("cases", len(jobs))
	core.ParFor(len(jobs), func(ji int) {
		if r.Expired() {
			r.Cut("internal deadline")
			return
		}
		j := jobs[ji]
		dir := filepath.Join(base, fmt.Sprintf("j%d", ji))
		os.MkdirAll(dir, 0o755)
		defer os.RemoveAll(dir)
		var outs [][]byte
		var err error
		pv, _ := core.Try(func() { outs, err = j.op.run(dir, j.in.b, j.v) })
		r.Eval(1)
		rep := map[string]any{"input": j.in.name, "operation": j.op.name, "variant": j.v}
		if pv != nil {
			key := "panic:" + j.op.name
			if r.Want(key) {
				r.Violation(key, fmt.Sprintf("%s variant %d on %s panicked: %v", j.op.name, j.v, j.in.name, pv), rep)
			}
			return
		}
		if err != nil {
			r.Count("operation_refused", 1)
			r.SetAdd("refusals", j.op.name+": "+firstLineOf(err)[:min(90, len(firstLineOf(err)))])
			return
		}
		r.Nontrivial(1)
		r.SetAdd("operations_succeeded", j.op.name)
		for oi, out := range outs {
			c := newConf()
			c.UserPW = j.op.pw
			verr := api.Validate(bytes.NewReader(out), c)
			if verr != nil {
				key := "output-invalid:" + j.op.name
				if strings.Contains(j.in.name, "dangling-free-ref") || strings.Contains(j.in.name, "dangling-popup-ref") {
					// separate root cause (reuse of a free object number that is still referenced): own key,
					// so that any other invalid output of the same operation is still reported
					key += ":input-references-a-free-object"
				}
				if r.Want(key) {
					r.Violation(key, fmt.Sprintf("%s variant %d on %s succeeded but output %d does not validate: %v", j.op.name, j.v, j.in.name, oi+1, verr), rep)
				}
			}
		}
		if ji%499 == 0 {
			r.Sample(rep)
		}
	})
}


// c21ViewerPrefs: one JSON per field x boundary value (values pdfcpu refuses are counted as refusals; whatever
// it accepts must yield a document that validates).
var c21ViewerPrefs = func() []string {
	out := []string{
		`{"hideToolbar": true}`,
		`{"fitWindow": true, "nonFullScreenPageMode": "UseOutlines", "duplex": "simplex"}`,
		`{"printScaling": "none", "numCopies": 3, "printPageRange": [1, 2]}`,
	}
	for _, k := range []string{"hideToolbar", "hideMenubar", "hideWindowUI", "fitWindow", "centerWindow", "displayDocTitle", "pickTrayByPDFSize"} {
		out = append(out, `{"`+k+`": true}`, `{"`+k+`": false}`)
	}
	for _, v := range []string{"UseNone", "UseOutlines", "UseThumbs", "UseOC"} {
		out = append(out, `{"nonFullScreenPageMode": "`+v+`"}`)
	}
	for _, v := range []string{"L2R", "R2L"} {
		out = append(out, `{"direction": "`+v+`"}`)
	}
	for _, k := range []string{"viewArea", "viewClip", "printArea", "printClip"} {
		for _, v := range []string{"MediaBox", "CropBox", "TrimBox", "BleedBox", "ArtBox"} {
			out = append(out, `{"`+k+`": "`+v+`"}`)
		}
	}
	for _, v := range []string{"none", "appDefault"} {
		out = append(out, `{"printScaling": "`+v+`"}`)
	}
	for _, v := range []string{"simplex", "duplexFlipShortEdge", "duplexFlipLongEdge"} {
		out = append(out, `{"duplex": "`+v+`"}`)
	}
	for _, v := range []string{"[1, 2]", "[1, 1]", "[2, 2]", "[1, 2, 4, 4]", "[1, 2, 3, 4]", "[2, 1]", "[1, 2, 2, 3]", "[0, 1]", "[1]", "[]", "[3, 9]"} {
		out = append(out, `{"printPageRange": `+v+`}`)
	}
	for _, v := range []string{"0", "1", "3", "-1", "1000000"} {
		out = append(out, `{"numCopies": `+v+`}`)
	}
	return out
}()


// c21Hazards: strings with one representative per lexical hazard of the PDF syntax and of text encodings.
var c21Hazards = []string{"", " ", "(", ")", "((", "\\", "a\nb", "a\rb", "\t", "<", ">", "[", "]", "/", "#", "%", "ü", "€", "日本", "\u2028", "\x7f", "\x01",
	strings.Repeat("long ", 80), "a(b)c\\d", "D:20240101", "true", "null", "1 0 R"}

// c21SharedAnnotsDoc: two pages refer to ONE indirect /Annots array (holding one link and one text annotation);
// a third page has an array of its own.
func c21SharedAnnotsDoc() []byte {
	d := docgen.Simple([]docgen.PageSpec{{Marker: 1}, {Marker: 2}, {Marker: 3}}, docgen.SimpleOpts{Title: "shared annots"})
	pn := d.PageNrs()
	link := d.Add("<</Type/Annot/Subtype/Link/Rect[10 10 100 30]/Border[0 0 0]/A<</S/URI/URI(https://example.org/)>>>>")
	text := d.Add("<</Type/Annot/Subtype/Text/Rect[10 50 30 70]/Contents(shared note)>>")
	own := d.Add("<</Type/Annot/Subtype/Text/Rect[10 50 30 70]/Contents(own note)>>")
	arr := d.Add(fmt.Sprintf("[%s %s]", docgen.Ref(link), docgen.Ref(text)))
	d.AppendEntries(pn[0], "/Annots "+docgen.Ref(arr))
	d.AppendEntries(pn[1], "/Annots "+docgen.Ref(arr))
	d.AppendEntries(pn[2], fmt.Sprintf("/Annots[%s]", docgen.Ref(own)))
	return d.Bytes()
}
