package props

import (
	"bytes"
	"errors"
	"fmt"
	"image/color"
	"io"
	"os"
	"path/filepath"
	"strings"

	"github.com/pdfcpu/pdfcpu/pkg/api"
	"github.com/pdfcpu/pdfcpu/pkg/filter"
	"github.com/pdfcpu/pdfcpu/pkg/pdfcpu"
	"github.com/pdfcpu/pdfcpu/pkg/pdfcpu/model"
	"github.com/pdfcpu/pdfcpu/pkg/pdfcpu/types"
	"verif/mc/core"
	"verif/mc/docgen"
)

// c09BombDoc builds a one page document whose stream of the given role decodes to n bytes (Flate).
func c09BombDoc(role string, n int) []byte {
	bomb := flateEnc(bytes.Repeat([]byte{' '}, n))
	use := map[string]string{"form xobject": "q /X1 Do Q\n", "image": "q 10 0 0 10 0 0 cm /I1 Do Q\n"}[role]
	d := docgen.Simple([]docgen.PageSpec{{Marker: 1, Contents: []string{docgen.MarkerContent(1) + use}}}, docgen.SimpleOpts{Title: "bomb " + role})
	pg := d.PageNrs()[0]
	switch role {
	case "page content":
		s := d.AddStream("<</Filter/FlateDecode>>", bomb)
		d.SetContents(pg, docgen.Ref(s))
	case "second content stream":
		s := d.AddStream("<</Filter/FlateDecode>>", bomb)
		ok := d.AddStream("<<>>", []byte(docgen.MarkerContent(1)))
		d.SetContents(pg, fmt.Sprintf("[%s %s]", docgen.Ref(ok), docgen.Ref(s)))
	case "form xobject":
		x := d.AddStream("<</Type/XObject/Subtype/Form/BBox[0 0 10 10]/Filter/FlateDecode>>", bomb)
		d.AddResources(pg, fmt.Sprintf("/XObject<</X1 %s>>", docgen.Ref(x)))
	case "image":
		// n gray pixels, 1 row
		x := d.AddStream(fmt.Sprintf("<</Type/XObject/Subtype/Image/Width %d/Height 1/ColorSpace/DeviceGray/BitsPerComponent 8/Filter/FlateDecode>>", n), bomb)
		d.AddResources(pg, fmt.Sprintf("/XObject<</I1 %s>>", docgen.Ref(x)))
	case "metadata":
		m := d.AddStream("<</Type/Metadata/Subtype/XML/Filter/FlateDecode>>", bomb)
		d.PatchCatalog("/Metadata " + docgen.Ref(m))
	case "embedded file":
		ef := d.AddStream("<</Type/EmbeddedFile/Filter/FlateDecode>>", bomb)
		fs := d.Add(fmt.Sprintf("<</Type/Filespec/F(bomb.txt)/UF(bomb.txt)/EF<</F %s>>>>", docgen.Ref(ef)))
		d.PatchCatalog(fmt.Sprintf("/Names<</EmbeddedFiles<</Names[(bomb.txt) %s]>>>>", docgen.Ref(fs)))
	case "font file":
		ff := d.AddStream(fmt.Sprintf("<</Length1 %d/Filter/FlateDecode>>", n), bomb)
		fd := d.Add(fmt.Sprintf("<</Type/FontDescriptor/FontName/ABCDEF+Bomb/Flags 4/FontBBox[0 0 1000 1000]/ItalicAngle 0/Ascent 800/Descent -200/CapHeight 700/StemV 80/FontFile2 %s>>", docgen.Ref(ff)))
		f := d.Add(fmt.Sprintf("<</Type/Font/Subtype/TrueType/BaseFont/ABCDEF+Bomb/FirstChar 32/LastChar 32/Widths[500]/FontDescriptor %s>>", docgen.Ref(fd)))
		d.AddResources(pg, fmt.Sprintf("/ExtGState<</G0<</Font[%s 12]>>>>", docgen.Ref(f)))
	case "unreferenced stream":
		d.AddStream("<</Filter/FlateDecode>>", bomb)
	case "object stream body":
		// every non-stream object lives in one object stream whose decoded body is padded to n bytes
		d.Override = map[string]string{"ObjStmPad": fmt.Sprint(n)}
		return d.BytesXRefStream(true)
	case "xref stream data":
		d.Override = map[string]string{"XRefPad": fmt.Sprint(n)}
		return d.BytesXRefStream(false)
	case "page content with predictor":
		rows := (n + 63) / 64
		var pre bytes.Buffer
		for i := 0; i < rows; i++ {
			pre.WriteByte(2)
			if i == 0 {
				pre.Write(bytes.Repeat([]byte{' '}, 64))
			} else {
				pre.Write(make([]byte, 64)) // Up predictor: same as the row above
			}
		}
		s := d.AddStream("<</Filter/FlateDecode/DecodeParms<</Predictor 12/Columns 64>>>>", flateEnc(pre.Bytes()))
		d.SetContents(pg, docgen.Ref(s))
	case "object stream body with predictor":
		d.Override = map[string]string{"ObjStmPad": fmt.Sprint(n), "Predictor": "12"}
		return d.BytesXRefStream(true)
	case "xref stream data with predictor":
		d.Override = map[string]string{"XRefPad": fmt.Sprint(n), "Predictor": "12"}
		return d.BytesXRefStream(false)
	}
	return d.Bytes()
}

type c09Entry struct {
	name string
	run  func(b []byte, conf *model.Configuration, scratch string) (*model.Context, error)
}

func c09Entries() []c09Entry {
	return []c09Entry{
		{"ReadContext", func(b []byte, conf *model.Configuration, _ string) (*model.Context, error) {
			return api.ReadContext(bytes.NewReader(b), conf)
		}},
		{"ReadValidateAndOptimize", func(b []byte, conf *model.Configuration, _ string) (*model.Context, error) {
			conf.Cmd = model.OPTIMIZE
			return api.ReadValidateAndOptimize(bytes.NewReader(b), conf)
		}},
		{"Validate", func(b []byte, conf *model.Configuration, _ string) (*model.Context, error) {
			return nil, api.Validate(bytes.NewReader(b), conf)
		}},
		{"Optimize", func(b []byte, conf *model.Configuration, _ string) (*model.Context, error) {
			return nil, api.Optimize(bytes.NewReader(b), io.Discard, conf)
		}},
		{"ExtractContent", func(b []byte, conf *model.Configuration, _ string) (*model.Context, error) {
			return nil, api.ExtractContent(bytes.NewReader(b), nil, func(rd io.Reader, _ int) error { _, err := io.Copy(io.Discard, rd); return err }, conf)
		}},
		{"ExtractImages", func(b []byte, conf *model.Configuration, _ string) (*model.Context, error) {
			return nil, api.ExtractImages(bytes.NewReader(b), nil, func(img model.Image, _ bool, _ int) error {
				if img.Reader != nil {
					io.Copy(io.Discard, img.Reader)
				}
				return nil
			}, conf)
		}},
		{"ExtractFonts", func(b []byte, conf *model.Configuration, _ string) (*model.Context, error) {
			return nil, api.ExtractFonts(bytes.NewReader(b), nil, func(f pdfcpu.Font) error {
				if f.Reader != nil {
					io.Copy(io.Discard, f.Reader)
				}
				return nil
			}, conf)
		}},
		{"ExtractMetadata", func(b []byte, conf *model.Configuration, _ string) (*model.Context, error) {
			return nil, api.ExtractMetadata(bytes.NewReader(b), func(m pdfcpu.Metadata) error {
				if m.Reader != nil {
					io.Copy(io.Discard, m.Reader)
				}
				return nil
			}, conf)
		}},
		{"ExtractAttachments", func(b []byte, conf *model.Configuration, scratch string) (*model.Context, error) {
			return nil, api.ExtractAttachments(bytes.NewReader(b), scratch, nil, conf)
		}},
		{"Rotate", func(b []byte, conf *model.Configuration, _ string) (*model.Context, error) {
			return nil, api.Rotate(bytes.NewReader(b), io.Discard, 90, nil, conf)
		}},
	}
}

func c09ScanContext(ctx *model.Context, maxDecode, maxStream int64) (worst string) {
	for nr, e := range ctx.Table {
		if e == nil || e.Free {
			continue
		}
		var sd *types.StreamDict
		switch o := e.Object.(type) {
		case types.StreamDict:
			sd = &o
		case types.ObjectStreamDict:
			sd = &o.StreamDict
		case types.XRefStreamDict:
			sd = &o.StreamDict
		}
		if sd == nil {
			continue
		}
		if int64(len(sd.Content)) > maxDecode && len(sd.FilterPipeline) > 0 {
			worst = fmt.Sprintf("obj %d holds %d decoded bytes (limit %d)", nr, len(sd.Content), maxDecode)
		}
		if int64(len(sd.Raw)) > maxStream {
			worst = fmt.Sprintf("obj %d holds %d raw bytes (stream limit %d)", nr, len(sd.Raw), maxStream)
		}
	}
	return
}

func c09Documents(r *core.R) {
	scratch := core.Scratch("c09")
	defer os.RemoveAll(scratch)
	roles := []string{"page content", "second content stream", "form xobject", "image", "metadata", "embedded file", "font file", "unreferenced stream", "object stream body", "xref stream data",
		"page content with predictor", "object stream body with predictor", "xref stream data with predictor"}
	type lim struct {
		name           string
		decode, stream int64
	}
	Ls := []int{16 << 10}
	if !r.Quick() {
		Ls = []int{16 << 10, 4 << 10, 256 << 10}
	}
	for _, L := range Ls {
		for _, role := range roles {
			sizes := []int{L, L + 1, 1024 * L}
			if L == 256<<10 {
				sizes = []int{L, L + 1, 128 * L}
			}
			for _, n := range sizes {
				doc := c09BombDoc(role, n)
				lims := []lim{{fmt.Sprintf("MaxDecodeBytes=%dKiB", L>>10), int64(L), 512 << 20}}
				if L == 16<<10 {
					lims = append(lims, lim{"default limits", 512 << 20, 512 << 20})
				}
				for _, lm := range lims {
					for _, ep := range c09Entries() {
						if r.Expired() {
							r.Cut("deadline in layer 3")
							return
						}
						conf := newConf()
						conf.ValidationMode = model.ValidationRelaxed
						conf.Limits.MaxDecodeBytes = lm.decode
						conf.Limits.MaxStreamBytes = lm.stream
						out := filepath.Join(scratch, "out")
						os.RemoveAll(out)
						os.MkdirAll(out, 0o755)
						var ctx *model.Context
						var err error
						var pv any
						alloc := measured(func() {
							pv, _ = core.Try(func() { ctx, err = ep.run(doc, conf, out) })
						})
						r.Eval(1)
						over := int64(n) > lm.decode
						if over {
							r.Nontrivial(1)
							if ep.name == "Optimize" && n > 2*L {
								r.Sample(map[string]any{"layer": "document", "role": role, "decoded_size": n, "limits": lm.name, "entry_point": ep.name, "error": trimTo(fmt.Sprint(err), 200), "allocated": alloc})
							}
						}
						rep := map[string]any{"layer": "document", "role": role, "decoded_size": n, "limits": lm.name, "entry_point": ep.name}
						what := fmt.Sprintf("%s of %d decoded bytes, %s, %s", role, n, lm.name, ep.name)
						key := role + ":" + ep.name
						if pv != nil {
							r.Violation("panic:"+key, fmt.Sprintf("%s: panic: %v", what, pv), rep)
							continue
						}
						if ctx != nil {
							if w := c09ScanContext(ctx, lm.decode, lm.stream); w != "" {
								r.Violation("context-holds-oversized-stream:"+key, fmt.Sprintf("%s: %s", what, w), rep)
							}
						}
						if !over {
							if err != nil && errors.Is(err, filter.ErrDecodeLimitExceeded) {
								r.Violation("within-limit-rejected:"+key, fmt.Sprintf("%s: rejected with a limit error although within the limit: %v", what, err), rep)
							}
							continue
						}
						bound := uint64(64*(int(lm.decode)+len(doc)) + 8<<20)
						if lm.decode == int64(L) && alloc > bound {
							r.Violation("allocation-unbounded:"+key, fmt.Sprintf("%s: the call allocated %d bytes (bound %d = 64 x (limit + input %d) + 8 MiB): the stream was decoded beyond the configured limit (returned error: %v)", what, alloc, bound, len(doc), err), rep)
						}
						if err != nil && !errors.Is(err, filter.ErrDecodeLimitExceeded) && strings.Contains(err.Error(), "limit") {
							r.Count("limit_errors_not_matching_ErrDecodeLimitExceeded", 1)
						}
					}
				}
			}
		}
	}
	c09Structural(r)
	c09Images(r)
}

// c09Images: image pixel / byte limits on import (image file -> PDF) and on extraction (PDF image -> file).
func c09Images(r *core.R) {
	const limPix = 10000
	for _, dim := range [][2]int{{100, 100}, {101, 100}, {100, 101}, {1, 10001}, {20000, 20000}} {
		w, h := dim[0], dim[1]
		over := w*h > limPix
		// extraction: an image XObject that declares w x h gray pixels over highly compressible data
		d := docgen.Simple([]docgen.PageSpec{{Marker: 1, Contents: []string{docgen.MarkerContent(1) + "q 10 0 0 10 0 0 cm /I1 Do Q\n"}}}, docgen.SimpleOpts{})
		n := w * h
		data := flateEnc(make([]byte, minInt(n, 1<<20)))
		if n > 1<<20 {
			// the declared dimensions are a lie: a small stream claims 400 megapixels
			data = flateEnc(make([]byte, 4096))
		}
		x := d.AddStream(fmt.Sprintf("<</Type/XObject/Subtype/Image/Width %d/Height %d/ColorSpace/DeviceGray/BitsPerComponent 8/Filter/FlateDecode>>", w, h), data)
		d.AddResources(d.PageNrs()[0], fmt.Sprintf("/XObject<</I1 %s>>", docgen.Ref(x)))
		doc := d.Bytes()
		conf := newConf()
		conf.ValidationMode = model.ValidationRelaxed
		conf.Limits.MaxImagePixels = limPix
		var err error
		var pv any
		digested := 0
		alloc := measured(func() {
			pv, _ = core.Try(func() {
				err = api.ExtractImages(bytes.NewReader(doc), nil, func(img model.Image, _ bool, _ int) error {
					digested++
					if img.Reader != nil {
						io.Copy(io.Discard, img.Reader)
					}
					return nil
				}, conf)
			})
		})
		r.Eval(1)
		if over {
			r.Nontrivial(1)
		}
		rep := map[string]any{"layer": "document", "case": fmt.Sprintf("extract image %dx%d, MaxImagePixels %d", w, h, limPix)}
		what := fmt.Sprintf("ExtractImages of a %dx%d image with MaxImagePixels %d", w, h, limPix)
		switch {
		case pv != nil:
			r.Violation("panic:image-extract", fmt.Sprintf("%s: panic: %v", what, pv), rep)
		case over && err == nil && digested > 0:
			r.Violation("beyond-limit-accepted:image-extract", what+": the image was extracted", rep)
		case !over && (err != nil || digested == 0):
			r.Violation("within-limit-rejected:image-extract", fmt.Sprintf("%s: err=%v, images=%d", what, err, digested), rep)
		}
		if bound := uint64(64*(4*limPix+len(doc)) + 8<<20); over && alloc > bound {
			r.Violation("allocation-unbounded:image-extract", fmt.Sprintf("%s: allocated %d bytes (bound %d)", what, alloc, bound), rep)
		}
		// import: a PNG file of w x h pixels
		if n <= 1<<22 {
			png := tinyPNG(w, h, color.RGBA{1, 2, 3, 255})
			conf := newConf()
			conf.Limits.MaxImagePixels = limPix
			var out bytes.Buffer
			pv, _ := core.Try(func() { err = api.ImportImages(nil, &out, []io.Reader{bytes.NewReader(png)}, nil, conf) })
			r.Eval(1)
			what := fmt.Sprintf("ImportImages of a %dx%d PNG with MaxImagePixels %d", w, h, limPix)
			switch {
			case pv != nil:
				r.Violation("panic:image-import", fmt.Sprintf("%s: panic: %v", what, pv), rep)
			case over && err == nil:
				r.Violation("beyond-limit-accepted:image-import", what+": accepted", rep)
			case !over && err != nil:
				r.Violation("within-limit-rejected:image-import", fmt.Sprintf("%s: %v", what, err), rep)
			}
		}
	}
}

func minInt(a, b int) int {
	if a < b {
		return a
	}
	return b
}

func c09MaxDepth(ctx *model.Context) int {
	var depth func(o types.Object, d int) int
	depth = func(o types.Object, d int) int {
		if d > 50000 {
			return d
		}
		m := d
		switch v := o.(type) {
		case types.Array:
			for _, e := range v {
				if x := depth(e, d+1); x > m {
					m = x
				}
			}
		case types.Dict:
			for _, e := range v {
				if x := depth(e, d+1); x > m {
					m = x
				}
			}
		case types.StreamDict:
			return depth(v.Dict, d)
		}
		return m
	}
	max := 0
	for _, e := range ctx.Table {
		if e != nil && !e.Free && e.Object != nil {
			if x := depth(e.Object, 0); x > max {
				max = x
			}
		}
	}
	return max
}

// c09Structural: counts and depths against their limits.
func c09Structural(r *core.R) {
	mk := func(nobj int) *docgen.Doc {
		d := docgen.Simple([]docgen.PageSpec{{Marker: 1}}, docgen.SimpleOpts{})
		for i := 0; i < nobj; i++ {
			d.Add(fmt.Sprintf("<</K %d>>", i))
		}
		return d
	}
	type cs struct {
		name       string
		doc        []byte
		set        func(l *model.ResourceLimits)
		over       bool
		limName    string
		depthLimit int // > 0: nesting case, judged on what the returned context holds
	}
	var cases []cs
	// the plain document has 7+20 objects, Size 29 with xref stream, 28 objects in the object stream
	base := mk(20).BytesXRefStream(true)
	ctx0, err := api.ReadContext(bytes.NewReader(base), newConf())
	if err != nil {
		r.HarnessError("structural base document: %v", err)
		return
	}
	size := *ctx0.Size
	var nInStm int
	if i := bytes.Index(base, []byte("/Type/ObjStm/N ")); i > 0 {
		fmt.Sscan(string(base[i+15:i+25]), &nInStm)
	}
	for _, delta := range []int{0, -1} {
		delta := delta
		cases = append(cases,
			cs{fmt.Sprintf("xref stream /Size %d with MaxObjectCount %d", size, size+delta), base, func(l *model.ResourceLimits) { l.MaxObjectCount = size + delta }, delta < 0, "MaxObjectCount", 0},
			cs{fmt.Sprintf("xref stream with %d entries, MaxXRefEntries %d", size, size+delta), base, func(l *model.ResourceLimits) { l.MaxXRefEntries = size + delta }, delta < 0, "MaxXRefEntries", 0},
			cs{fmt.Sprintf("object stream /N %d with MaxObjectStreamCount %d", nInStm, nInStm+delta), base, func(l *model.ResourceLimits) { l.MaxObjectStreamCount = nInStm + delta }, delta < 0, "MaxObjectStreamCount", 0},
		)
	}
	for _, huge := range []string{"2147483648", "4611686018427387904", "9223372036854775807"} {
		for _, key := range []string{"Size", "N", "First"} {
			d := mk(20)
			d.Override = map[string]string{key: huge}
			cases = append(cases, cs{fmt.Sprintf("/%s %s with default limits", key, huge), d.BytesXRefStream(true), func(l *model.ResourceLimits) {}, true, "default", 0})
		}
		d := mk(20)
		d.Override = map[string]string{"Index": "[0 " + huge + "]"}
		cases = append(cases, cs{"/Index [0 " + huge + "] with default limits", d.BytesXRefStream(true), func(l *model.ResourceLimits) {}, true, "default", 0})
	}
	// /Index with several subsections, each within MaxXRefEntries, their sum beyond it
	for _, km := range [][2]int{{3, size}, {200, 50000}, {2, size}} {
		k, m := km[0], km[1]
		var sb strings.Builder
		sb.WriteString("[")
		for i := 0; i < k; i++ {
			fmt.Fprintf(&sb, "0 %d ", m)
		}
		sb.WriteString("]")
		d := mk(20)
		d.Override = map[string]string{"Index": sb.String()}
		cases = append(cases, cs{fmt.Sprintf("/Index of %d subsections of %d entries each with MaxXRefEntries %d", k, m, m), d.BytesXRefStream(true), func(l *model.ResourceLimits) { l.MaxXRefEntries = m }, true, "MaxXRefEntries", 0})
		// disjoint subsections
		sb.Reset()
		sb.WriteString("[")
		for i := 0; i < k; i++ {
			fmt.Fprintf(&sb, "%d %d ", i*m, m)
		}
		sb.WriteString("]")
		d = mk(20)
		d.Override = map[string]string{"Index": sb.String()}
		cases = append(cases, cs{fmt.Sprintf("/Index of %d disjoint subsections of %d entries each with MaxXRefEntries %d", k, m, m), d.BytesXRefStream(true), func(l *model.ResourceLimits) { l.MaxXRefEntries = m }, true, "MaxXRefEntries", 0})
	}
	// /First against MaxObjectStreamFirst
	{
		d := mk(20)
		b := d.BytesXRefStream(true)
		var first int
		if i := bytes.Index(b, []byte("/First ")); i > 0 {
			fmt.Sscan(string(b[i+7:i+20]), &first)
		}
		for _, delta := range []int{0, -1} {
			delta := delta
			cases = append(cases, cs{fmt.Sprintf("object stream /First %d with MaxObjectStreamFirst %d", first, first+delta), b, func(l *model.ResourceLimits) { l.MaxObjectStreamFirst = int64(first + delta) }, delta < 0, "MaxObjectStreamFirst", 0})
		}
	}
	// nesting depth against MaxRecursionDepth
	for _, lim := range []int{10, 100} {
		for _, depth := range []int{lim - 2, lim + 2, 20000} {
			lim, depth := lim, depth
			d := docgen.Simple([]docgen.PageSpec{{Marker: 1}}, docgen.SimpleOpts{})
			d.Add(strings.Repeat("[", depth) + "1" + strings.Repeat("]", depth))
			cases = append(cases, cs{fmt.Sprintf("array nesting depth %d with MaxRecursionDepth %d", depth, lim), d.Bytes(), func(l *model.ResourceLimits) { l.MaxRecursionDepth = lim }, depth > lim, "MaxRecursionDepth", 0})
			cases[len(cases)-1].depthLimit = lim
			dd := docgen.Simple([]docgen.PageSpec{{Marker: 1}}, docgen.SimpleOpts{})
			dd.Add(strings.Repeat("<</D ", depth) + "1" + strings.Repeat(">>", depth))
			cases = append(cases, cs{fmt.Sprintf("dict nesting depth %d with MaxRecursionDepth %d", depth, lim), dd.Bytes(), func(l *model.ResourceLimits) { l.MaxRecursionDepth = lim }, depth > lim, "MaxRecursionDepth", 0})
			cases[len(cases)-1].depthLimit = lim
		}
	}
	for _, c := range cases {
		for _, ep := range c09Entries()[:4] {
			conf := newConf()
			conf.ValidationMode = model.ValidationRelaxed
			c.set(&conf.Limits)
			var err error
			var pv any
			var ctx *model.Context
			alloc := measured(func() { pv, _ = core.Try(func() { ctx, err = ep.run(c.doc, conf, "") }) })
			r.Eval(1)
			if c.over {
				r.Nontrivial(1)
			}
			rep := map[string]any{"layer": "document", "case": c.name, "entry_point": ep.name}
			key := c.limName + ":" + strings.SplitN(c.name, " ", 3)[0] + strings.SplitN(c.name, " ", 3)[1] + ":" + ep.name
			switch {
			case pv != nil:
				r.Violation("panic:"+key, fmt.Sprintf("%s, %s: panic: %v", c.name, ep.name, pv), rep)
			case c.depthLimit > 0:
				// in relaxed mode an unparsable object is dropped rather than failing the read: what counts is
				// that nothing nested deeper than the limit is materialised
				if ctx != nil {
					if dpt := c09MaxDepth(ctx); dpt > c.depthLimit {
						r.Violation("nesting-beyond-limit-materialised:"+key, fmt.Sprintf("%s, %s: the returned context holds an object nested %d deep", c.name, ep.name, dpt), rep)
					}
				}
				if !c.over && err != nil {
					r.Violation("within-limit-rejected:"+key, fmt.Sprintf("%s, %s: rejected although within the limit: %v", c.name, ep.name, err), rep)
				}
			case c.over && err == nil:
				r.Violation("beyond-limit-accepted:"+key, fmt.Sprintf("%s, %s: accepted although beyond the limit", c.name, ep.name), rep)
			case !c.over && err != nil:
				r.Violation("within-limit-rejected:"+key, fmt.Sprintf("%s, %s: rejected although within the limit: %v", c.name, ep.name, err), rep)
			}
			if bound := uint64(64*len(c.doc) + 8<<20); c.over && alloc > bound {
				r.Violation("allocation-unbounded:"+key, fmt.Sprintf("%s, %s: allocated %d bytes (bound %d)", c.name, ep.name, alloc, bound), rep)
			}
		}
	}
}
