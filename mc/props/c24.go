package props

import (
	"bytes"
	"errors"
	"fmt"
	"strings"
	"unicode/utf8"

	"github.com/pdfcpu/pdfcpu/pkg/api"
	"github.com/pdfcpu/pdfcpu/pkg/pdfcpu"
	"github.com/pdfcpu/pdfcpu/pkg/pdfcpu/model"
	"verif/mc/core"
	"verif/mc/docgen"
	"verif/mc/isocrypt"
	"verif/mc/strictpdf"
)

// C24: encryption parameters interoperate with the ISO 32000 algorithms.
func init() {
	core.Register(&core.Check{
		ID:    "C24",
		Level: "exploration",
		Rule: "password alphabet {empty, a, 31/32/33/127/128-byte ASCII, 'a b' (space), 'ä' (Latin-1), U+00AA (SASLprep maps to 'a'), 'x<U+00AD>y' (mapped to nothing), 'x<U+00A0>y' (mapped to space), a control character} as user and as owner password (all ordered pairs with a non-empty owner) x 4 permission words x 3 file identifiers (hex, literal ASCII, literal binary); write side: pdfcpu encrypts with {RC4-40, RC4-128, AES-128, AES-256}, the harness parses /O /U /OE /UE /Perms /P /R /Length with its own reader and checks them with an independent implementation of ISO 32000 algorithms 2-13 (both passwords prepared as the standard prescribes must validate and give the same file key, O/U recomputed, Perms checked, the Info title decrypted with the independently derived key); read side: files built by the independent implementation for R in {2,3,4-RC4,4-AES,5,6}: pdfcpu must accept exactly the passwords the algorithms accept (right user, right owner, wrong neighbours); " +
			"non-trivial = a case with a password longer than 31 bytes, a non-ASCII password, or a binary file identifier",
		Assume: []string{"mc/isocrypt (written from the ISO text, known-answer tests for RC4/AES/padding, cross-checked both ways against pdfcpu for ASCII passwords) is the oracle", "for revisions 2-4 the standard prescribes PDFDocEncoding, for 5/6 SASLprep + UTF-8 truncated to 127 bytes"},
		Run:    runC24,
	})
}

type pwSpec struct {
	s     string
	class string
}

func c24passwords() []pwSpec {
	return []pwSpec{
		{"", "empty"}, {"a", "ascii"}, {strings.Repeat("p", 31), "ascii"}, {strings.Repeat("q", 32), "ascii-32"}, {strings.Repeat("r", 33), "ascii-long"},
		{strings.Repeat("s", 127), "ascii-long"}, {strings.Repeat("t", 128), "ascii-long"},
		{"a b", "space"}, {"pässwörd", "latin1"}, {"ª", "saslprep-nfkc"}, {"x­y", "saslprep-map-to-nothing"}, {"x y", "saslprep-map-to-space"}, {"x\u0007y", "prohibited-control"},
	}
}

// c24cause maps a password class and revision to the root cause it exercises ("" = none known):
// finding keys are per root cause, not per password.
func c24cause(side string, R int, classes ...string) string {
	for _, cl := range classes {
		nonASCII := cl == "latin1" || strings.HasPrefix(cl, "saslprep")
		switch {
		case R <= 4 && nonASCII:
			return side + ":R2-4:non-ASCII-password-used-as-UTF-8-instead-of-PDFDocEncoding"
		case R >= 5 && strings.HasPrefix(cl, "saslprep"):
			return side + ":R5-6:SASLprep-mapping-not-applied"
		case R >= 5 && cl == "ascii-long":
			return side + ":R5-6:password-not-truncated-to-127-bytes"
		}
	}
	for _, cl := range classes {
		if R >= 5 && cl == "space" {
			return side + ":R5-6:password-containing-a-space"
		}
	}
	return ""
}

type c24alg struct {
	name string
	aes  bool
	kl   int
}

func encFromPdfcpu(out []byte) (isocrypt.Enc, error) { return isocrypt.ExtractEnc(out) }

func runC24(r *core.R) {
	api.DisableConfigDir()
	pws := c24passwords()
	algs := []c24alg{{"RC4-40", false, 40}, {"RC4-128", false, 128}, {"AES-128", true, 128}, {"AES-256", true, 256}}
	perms := []int{0xF0C3, 0xFFFF, 0xF8C7, 0xF2D3}
	ids := []struct{ name, id string }{
		{"hex", "<00112233445566778899AABBCCDDEEFF>"},
		{"literal-ascii", "(ABCDEFGHIJKLMNOP)"},
		{"literal-binary", "(\\001\\377\\200ab\\(\\)\\\\\\351\\376\\377xyz\\000Q)"},
	}
	type wcase struct {
		alg      c24alg
		u, o     pwSpec
		p        int
		idi      int
	}
	var wcs []wcase
	for _, a := range algs {
		for _, u := range pws {
			for _, o := range pws {
				if o.s == "" {
					continue
				}
				if r.Quick() && !(u.class == "ascii" || o.class == "ascii" || u.s == o.s) {
					continue
				}
				for pi, p := range perms {
					for idi := range ids {
						if r.Quick() && !(pi == 0 || (idi == 0 && u.s == "a")) {
							continue
						}
						wcs = append(wcs, wcase{a, u, o, p, idi})
					}
				}
			}
		}
	}
	r.Note("write_side_cases", len(wcs))
	srcFor := make([][]byte, len(ids))
	for i, id := range ids {
		d := docgen.Simple([]docgen.PageSpec{{Marker: 1}}, docgen.SimpleOpts{Title: "secret title"})
		d.Extra = fmt.Sprintf("/ID[%s %s]", id.id, id.id)
		srcFor[i] = d.Bytes()
	}
	core.ParFor(len(wcs), func(i int) {
		c := wcs[i]
		r.Eval(1)
		nt := len(c.u.s) > 31 || len(c.o.s) > 31 || c.u.class != "ascii" && c.u.class != "empty" || c.idi == 2
		if nt {
			r.Nontrivial(1)
		}
		var conf *model.Configuration
		if c.alg.aes {
			conf = model.NewAESConfiguration(c.u.s, c.o.s, c.alg.kl)
		} else {
			conf = model.NewRC4Configuration(c.u.s, c.o.s, c.alg.kl)
		}
		conf.ValidationMode = model.ValidationRelaxed
		conf.Permissions = model.PermissionFlags(c.p)
		conf.WriteObjectStream, conf.WriteXRefStream = false, false
		var out bytes.Buffer
		var err error
		pv, _ := core.Try(func() { err = api.Encrypt(bytes.NewReader(srcFor[c.idi]), &out, conf) })
		rep := map[string]any{"alg": c.alg.name, "user_pw": c.u.s, "owner_pw": c.o.s, "P": fmt.Sprintf("%#x", c.p), "id": ids[c.idi].name}
		cls := fmt.Sprintf("%s:user=%s,owner=%s", c.alg.name, c.u.class, c.o.class)
		if pv != nil {
			r.Violation("write:panic:"+c.alg.name, fmt.Sprintf("Encrypt panicked: %v (%v)", pv, rep), rep)
			return
		}
		if err != nil {
			r.Count("encrypt_refused", 1)
			r.SetAdd("encrypt_refusals", cls)
			return
		}
		e, err := encFromPdfcpu(out.Bytes())
		if err != nil {
			r.HarnessError("cannot extract /Encrypt from pdfcpu output (%v): %v", rep, err)
			return
		}
		if c.alg.kl == 256 && e.R != 6 {
			key := "write:AES-256:revision-not-6"
			if r.Want(key) {
				r.Violation(key, fmt.Sprintf("AES-256 output declares /R %d (/V %d): ISO 32000-2 defines revision 6 (Algorithm 2.B); revision 5 is the deprecated Adobe extension level 3 scheme", e.R, e.V), rep)
			}
		}
		up, uerr := isocrypt.PreparePassword(c.u.s, e.R)
		op, oerr := isocrypt.PreparePassword(c.o.s, e.R)
		if uerr != nil || oerr != nil {
			// the standard does not allow this password: pdfcpu accepted it on the write side
			key := fmt.Sprintf("write:R%d:accepts-password-the-standard-prohibits", e.R)
			_ = cls
			if r.Want(key) {
				r.Violation(key, fmt.Sprintf("%s: Encrypt accepted a password that cannot be prepared per ISO 32000 (%v %v)", c.alg.name, uerr, oerr), rep)
			}
			return
		}
		ku, okU := isocrypt.CheckUserPassword(up, e)
		ko, okO := isocrypt.CheckOwnerPassword(op, e)
		what := ""
		switch {
		case !okU:
			what = "user-password-not-accepted-by-ISO-algorithms"
		case !okO:
			what = "owner-password-not-accepted-by-ISO-algorithms"
		case !bytes.Equal(ku, ko):
			what = "user-and-owner-file-keys-differ"
		}
		if what == "" && e.R <= 4 {
			if o2 := isocrypt.ComputeO(op, up, e.R, e.KeyBits); !bytes.Equal(o2, e.O) {
				what = "O-differs-from-algorithm-3"
			}
			u2 := isocrypt.ComputeU(up, e)
			n := 32
			if e.R >= 3 {
				n = 16
			}
			if what == "" && !bytes.Equal(u2[:n], e.U[:n]) {
				what = "U-differs-from-algorithm-4/5"
			}
		}
		if what == "" && e.R >= 5 && !isocrypt.CheckPerms(ku, e) {
			what = "Perms-do-not-validate"
		}
		if what == "" && int32(int16(c.p)) != e.P && uint16(e.P) != uint16(c.p) {
			what = fmt.Sprintf("P-differs(%#x)", uint32(e.P))
		}
		if what == "" {
			// decrypt the Info title with the independently derived key
			sf := strictpdf.Parse(out.Bytes())
			if ref, ok := sf.Trailer["Info"].(strictpdf.Ref); ok {
				if o := sf.Objects[ref.Nr]; o != nil && o.Dict != nil {
					if t, ok := o.Dict["Title"].(strictpdf.String); ok {
						pt, derr := isocrypt.DecryptString(ku, ref.Nr, ref.Gen, e, []byte(t))
						if derr != nil || string(pt) != "secret title" {
							what = "title-does-not-decrypt-with-ISO-derived-key"
						}
					} else {
						r.Count("title_not_found", 1)
					}
				}
			}
		}
		if what != "" {
			key := "write:" + what + ":" + cls
			if c.idi == 2 {
				key += ":binary-id"
			}
			if strings.Contains(what, "password-not-accepted") {
				if cause := c24cause("write", e.R, c.u.class, c.o.class); cause != "" {
					key = cause
				}
			}
			if r.Want(key) {
				r.Violation(key, fmt.Sprintf("%s (R%d): %s (%v)", c.alg.name, e.R, what, rep), rep)
			}
		}
		if i%499 == 0 {
			r.Sample(rep)
		}
	})
	// ---- read side
	type rcase struct {
		R    int
		aes  bool
		bits int
		u, o pwSpec
		p    int32
		idb  bool
	}
	var rcs []rcase
	for _, rv := range []struct {
		R    int
		aes  bool
		bits int
	}{{2, false, 40}, {3, false, 128}, {3, false, 56}, {4, false, 128}, {4, true, 128}, {5, true, 256}, {6, true, 256}} {
		for _, u := range pws {
			for _, o := range pws {
				if o.s == "" || (r.Quick() && !(u.class == "ascii" || o.class == "ascii")) {
					continue
				}
				for _, idb := range []bool{false, true} {
					rcs = append(rcs, rcase{rv.R, rv.aes, rv.bits, u, o, -1340, idb})
				}
			}
		}
	}
	r.Note("read_side_cases", len(rcs))
	core.ParFor(len(rcs), func(i int) {
		c := rcs[i]
		up, uerr := isocrypt.PreparePassword(c.u.s, c.R)
		op, oerr := isocrypt.PreparePassword(c.o.s, c.R)
		if uerr != nil || oerr != nil {
			return // not a password the standard allows
		}
		id0 := []byte("0123456789abcdef")
		if c.idb {
			id0 = []byte{1, 0xFF, 0x80, 'a', 'b', '(', ')', '\\', 0xE9, 0xFE, 0xFF, 'x', 'y', 'z', 0, 'Q'}
		}
		pdf, e, _ := isocrypt.BuildEncryptedPDF(isocrypt.DocSpec{R: c.R, AES: c.aes, KeyBits: c.bits, UserPw: up, OwnerPw: op, P: c.p, ID0: id0, EncryptMetadata: true, Marker: "read side marker", LiteralStrings: c.idb})
		cls := fmt.Sprintf("R%d:aes=%v", c.R, c.aes)
		try := func(userSlot, ownerSlot string) error {
			conf := model.NewDefaultConfiguration()
			conf.ValidationMode = model.ValidationRelaxed
			conf.UserPW, conf.OwnerPW = userSlot, ownerSlot
			var err error
			pv, _ := core.Try(func() {
				var ctx *model.Context
				ctx, err = api.ReadContext(bytes.NewReader(pdf), conf)
				if err == nil {
					err = api.ValidateContext(ctx)
				}
			})
			if pv != nil {
				return fmt.Errorf("panic: %v", pv)
			}
			return err
		}
		judge := func(slot string, pw pwSpec, mustOpen bool) {
			r.Eval(1)
			if len(pw.s) > 31 || (pw.class != "ascii" && pw.class != "empty") || c.idb {
				r.Nontrivial(1)
			}
			var err error
			if slot == "user" {
				err = try(pw.s, "")
			} else {
				err = try("", pw.s)
			}
			rep := map[string]any{"R": c.R, "aes": c.aes, "bits": c.bits, "slot": slot, "password": pw.s, "doc_user_pw": c.u.s, "doc_owner_pw": c.o.s, "binary_id": c.idb}
			if mustOpen && err != nil {
				key := fmt.Sprintf("read:%s:rejects-correct-%s-password:%s", cls, slot, pw.class)
				if c.idb {
					key += ":binary-id"
				}
				if cause := c24cause("read", c.R, pw.class); cause != "" {
					key = cause
				}
				if r.Want(key) {
					r.Violation(key, fmt.Sprintf("R%d file built by the ISO algorithms: pdfcpu rejects the correct %s password %q: %v", c.R, slot, pw.s, err), rep)
				}
			}
			if !mustOpen && err == nil {
				key := fmt.Sprintf("read:%s:accepts-wrong-%s-password", cls, slot)
				if r.Want(key) {
					r.Violation(key, fmt.Sprintf("R%d file (user %q owner %q): pdfcpu accepts %q in the %s slot", c.R, c.u.s, c.o.s, pw.s, slot), rep)
				}
			} else if !mustOpen && !errors.Is(err, pdfcpu.ErrWrongPassword) {
				r.Count("wrong_password_other_error", 1)
			}
		}
		judge("user", c.u, true)
		judge("owner", c.o, true)
		// wrong neighbours: every other alphabet member that the algorithms reject
		for _, w := range pws {
			wp, err := isocrypt.PreparePassword(w.s, c.R)
			if err != nil || !utf8.ValidString(w.s) {
				continue
			}
			_, okU := isocrypt.CheckUserPassword(wp, e)
			_, okO := isocrypt.CheckOwnerPassword(wp, e)
			if !okU && !okO && w.class == "ascii" && c.u.s != "" {
				// (with an empty user password every open legitimately succeeds through the user slot)
				judge("user", w, false)
				judge("owner", w, false)
			}
		}
	})
	r.Sample(map[string]any{"read_side": "R6 file built by isocrypt, user password 'a b'"})
}
