package props

import (
	"bytes"
	"fmt"
	"io"
	"sort"
	"strings"

	"github.com/pdfcpu/pdfcpu/pkg/api"
	"github.com/pdfcpu/pdfcpu/pkg/pdfcpu/model"
	"github.com/pdfcpu/pdfcpu/pkg/pdfcpu/types"
	"verif/mc/core"
	"verif/mc/docgen"
)

// C39: name trees stay sorted, bounded and consistent under edits.
func init() {
	core.Register(&core.Check{
		ID:    "C39",
		Level: "model_checking",
		Rule: "explicit-state search: (A) the complete reachable state space of a real model.Node name tree under Add(k) / Add(existing k) / Remove(k) / Remove(absent k) over 8 keys a..h (quick: 7) starting from the empty tree, states canonicalised by their (limits, kids, keys) structure and rebuilt by replaying the shortest path on a fresh instance; after every transition: keys unique and sorted, every node's limits equal the min/max key below it, leaves hold at most maxEntries names unless read from a foreign tree, no intermediate node with a single or empty kid list, Value() and key listing agree with a sorted-map reference model; (B) the same edits through real documents: BFS over add/remove of 5 (thorough 6) attachments on a real PDF with write -> read after every transition, compared with the map model (listing and extracted bytes); " +
			"(A') the same BFS from every foreign tree shape at once: all trees over up to 6 sorted keys (quick 5) with fan-out 2..4, leaves of 1..4 names and up to three levels, edits over the present keys and three absent ones to depth 3 (quick 2), judged by the property's invariants only; (B') each foreign shape written as a real document's EmbeddedFiles tree, every single edit (thorough: every ordered pair) through the attachment API, then write -> independent walk of the written tree (/Limits, order, uniqueness) -> strict re-read -> listing against the set model; " +
			"non-trivial = a transition that changes the tree shape (split, merge, limit update) i.e. reaches a state with at least two levels",
		Assume: []string{"Add of an existing key may keep or replace the value (the statement is silent); the model adopts what is observed"},
		Run:    runC39,
	})
}

type ntOp struct {
	Add bool   `json:"add"`
	Key string `json:"key"`
}

func (o ntOp) String() string {
	if o.Add {
		return "+" + o.Key
	}
	return "-" + o.Key
}

func ntKeys(n *model.Node) []string {
	var ks []string
	n.Process(nil, func(_ *model.XRefTable, k string, _ *types.Object) error { ks = append(ks, k); return nil })
	return ks
}

// ntCanon serialises the structure of the tree.
func ntCanon(n *model.Node) string {
	var sb strings.Builder
	var rec func(n *model.Node)
	rec = func(n *model.Node) {
		fmt.Fprintf(&sb, "(%q,%q", n.Kmin, n.Kmax)
		if len(n.Kids) == 0 {
			fmt.Fprintf(&sb, " names=%v", ntKeys(n))
		} else {
			for _, k := range n.Kids {
				sb.WriteByte(' ')
				if k == nil {
					sb.WriteString("nil")
				} else {
					rec(k)
				}
			}
		}
		sb.WriteByte(')')
	}
	rec(n)
	return sb.String()
}

// ntInvariant checks structure invariants; returns "" when they hold.
func ntInvariant(root *model.Node, want map[string]string) string {
	return ntInvariantOpt(root, want, false)
}

// ntInvariantOpt: foreign = the tree started from somebody else's shape; leaf sizes and fan-out are then not judged.
func ntInvariantOpt(root *model.Node, want map[string]string, foreign bool) string {
	keys := ntKeys(root)
	if !sort.StringsAreSorted(keys) {
		return fmt.Sprintf("keys not sorted: %v", keys)
	}
	for i := 1; i < len(keys); i++ {
		if keys[i] == keys[i-1] {
			return fmt.Sprintf("duplicate key %q", keys[i])
		}
	}
	var wk []string
	for k := range want {
		wk = append(wk, k)
	}
	sort.Strings(wk)
	if fmt.Sprint(keys) != fmt.Sprint(wk) {
		return fmt.Sprintf("keys %v, model %v", keys, wk)
	}
	for k, v := range want {
		got, ok := root.Value(k)
		if !ok {
			return fmt.Sprintf("Value(%q) not found although the key is listed", k)
		}
		if s, _ := got.(types.StringLiteral); string(s) != v {
			return fmt.Sprintf("Value(%q) = %v, model %q", k, got, v)
		}
	}
	for _, k := range []string{"", "0", "zz", "aa"} {
		if _, in := want[k]; !in {
			if _, ok := root.Value(k); ok {
				return fmt.Sprintf("Value(%q) found although absent", k)
			}
		}
	}
	var rec func(n *model.Node, isRoot bool, depth int) string
	rec = func(n *model.Node, isRoot bool, depth int) string {
		ks := ntKeys(n)
		if len(n.Kids) == 0 {
			if len(ks) == 0 {
				if !isRoot {
					return "empty non-root leaf"
				}
				return ""
			}
			if len(ks) > 3 && !foreign {
				return fmt.Sprintf("leaf with %d names (maxEntries 3)", len(ks))
			}
		} else {
			if len(n.Kids) < 2 && !foreign {
				return fmt.Sprintf("intermediate node with %d kid(s)", len(n.Kids))
			}
			prevMax := ""
			for i, k := range n.Kids {
				if k == nil {
					return "nil kid"
				}
				if e := rec(k, false, depth+1); e != "" {
					return e
				}
				if i > 0 && !(prevMax < k.Kmin) {
					return fmt.Sprintf("kid ranges overlap or unsorted: %q !< %q", prevMax, k.Kmin)
				}
				prevMax = k.Kmax
			}
		}
		if len(ks) > 0 && (n.Kmin != ks[0] || n.Kmax != ks[len(ks)-1]) {
			return fmt.Sprintf("node limits [%q,%q] but keys below are %v", n.Kmin, n.Kmax, ks)
		}
		return ""
	}
	return rec(root, true, 0)
}

func ntApply(n *model.Node, want map[string]string, op ntOp, gen int) error {
	if op.Add {
		v := fmt.Sprintf("v%d", gen)
		if err := n.Add(nil, op.Key, types.StringLiteral(v), nil, nil); err != nil {
			return err
		}
		if _, had := want[op.Key]; had {
			// kept or replaced: adopt what the tree says
			if got, ok := n.Value(op.Key); ok {
				if s, _ := got.(types.StringLiteral); string(s) == v {
					want[op.Key] = v
				}
			}
		} else {
			want[op.Key] = v
		}
		return nil
	}
	_, ok, err := n.Remove(nil, op.Key)
	if err != nil {
		return err
	}
	_, had := want[op.Key]
	if ok != had {
		return fmt.Errorf("Remove(%q) reported ok=%v but the key was present=%v", op.Key, ok, had)
	}
	delete(want, op.Key)
	return nil
}

func runC39(r *core.R) {
	nkeys := 7
	if !r.Quick() {
		nkeys = 8
	}
	keys := []string{"a", "b", "c", "d", "e", "f", "g", "h"}[:nkeys]
	var ops []ntOp
	for _, k := range keys {
		ops = append(ops, ntOp{true, k}, ntOp{false, k})
	}
	build := func(path []ntOp) (*model.Node, map[string]string, error, int) {
		n := &model.Node{}
		want := map[string]string{}
		for i, op := range path {
			if err := ntApply(n, want, op, i); err != nil {
				return n, want, err, i
			}
		}
		return n, want, nil, -1
	}
	seen := map[string]bool{ntCanon(&model.Node{}): true}
	frontier := [][]ntOp{{}}
	states, transitions, maxDepth := 1, 0, 0
	for len(frontier) > 0 {
		var next [][]ntOp
		for _, path := range frontier {
			for _, op := range ops {
				if r.Expired() {
					r.Cut("internal deadline in name tree BFS")
					frontier = nil
					break
				}
				np := append(append([]ntOp{}, path...), op)
				var n *model.Node
				var want map[string]string
				var err error
				pv, _ := core.Try(func() { n, want, err, _ = build(np) })
				transitions++
				r.Eval(1)
				pathStr := func() string {
					var ss []string
					for _, o := range np {
						ss = append(ss, o.String())
					}
					return strings.Join(ss, " ")
				}
				if pv != nil {
					r.Violation("tree:panic:"+op.String()[:1], fmt.Sprintf("name tree panicked after %s: %v", pathStr(), pv), map[string]any{"path": np})
					continue
				}
				if err != nil {
					r.Violation("tree:op-error:"+op.String()[:1], fmt.Sprintf("after %s: %v", pathStr(), err), map[string]any{"path": np})
					continue
				}
				if len(n.Kids) > 0 {
					r.Nontrivial(1)
				}
				if bad := ntInvariant(n, want); bad != "" {
					cls := strings.SplitN(bad, ":", 2)[0]
					if i := strings.IndexAny(cls, "[(0123456789\""); i > 0 {
						cls = strings.TrimSpace(cls[:i])
					}
					key := "tree:invariant:" + cls
					if r.Want(key) {
						r.Violation(key, fmt.Sprintf("after %s: %s; tree %s", pathStr(), bad, ntCanon(n)), map[string]any{"path": np})
					}
					continue // do not expand broken states
				}
				c := ntCanon(n)
				if !seen[c] {
					seen[c] = true
					states++
					next = append(next, np)
					if len(np) > maxDepth {
						maxDepth = len(np)
					}
					if states%400 == 1 {
						r.Sample(map[string]any{"path": pathStr(), "state": c})
					}
				}
			}
		}
		frontier = next
	}
	r.Count("states", int64(states))
	r.Count("transitions", int64(transitions))
	r.Note("bfs_depth", maxDepth)
	r.Note("keys", nkeys)
	// (A') the same edits from every foreign tree shape
	c39foreign(r)
	// (B) through real documents
	c39docs(r)
	// (B') foreign tree shapes as real documents
	c39foreignDocs(r)
	r.Note("traces_validated_against_impl", r.Counters["doc_transitions"])
}

// c39docs: BFS over attachment add/remove on a real document with write->read per transition.
func c39docs(r *core.R) {
	names := []string{"a.txt", "b.txt", "c.txt", "d.txt", "e.txt"}
	if !r.Quick() {
		names = append(names, "f.txt")
	}
	base := docgen.Marked(1, 0)
	type st struct {
		doc  []byte
		have map[string]bool
		path string
	}
	key := func(h map[string]bool) string {
		var ks []string
		for k := range h {
			ks = append(ks, k)
		}
		sort.Strings(ks)
		return strings.Join(ks, ",")
	}
	content := func(n string) []byte { return []byte("content of " + n + "\n") }
	// state = (set of names, order-dependent tree shape is hidden in the document): explore every
	// ordered add/remove sequence up to the depth where every subset was reached along every
	// last-step, deduplicating on (set, last op) to keep differently shaped trees apart.
	seen := map[string]bool{}
	frontier := []st{{doc: base, have: map[string]bool{}, path: ""}}
	maxDepth := 2 * len(names)
	for depth := 0; depth < maxDepth && len(frontier) > 0; depth++ {
		var next []st
		for _, s := range frontier {
			for _, n := range names {
				if r.Expired() {
					r.Cut("internal deadline in attachment BFS")
					return
				}
				add := !s.have[n]
				conf := newConf()
				ctx, err := api.ReadValidateAndOptimize(bytes.NewReader(s.doc), conf)
				op := "+" + n
				if !add {
					op = "-" + n
				}
				path := strings.TrimSpace(s.path + " " + op)
				rep := map[string]any{"path": path}
				if err != nil {
					r.Violation("doc:reread-failed", fmt.Sprintf("document after %q cannot be read: %v", s.path, err), rep)
					continue
				}
				var opErr error
				pv, _ := core.Try(func() {
					if add {
						opErr = ctx.AddAttachment(model.Attachment{Reader: bytes.NewReader(content(n)), ID: n, FileName: n}, false)
					} else {
						var ok bool
						ok, opErr = ctx.RemoveAttachments([]string{n})
						if opErr == nil && !ok {
							opErr = fmt.Errorf("RemoveAttachments reported nothing removed")
						}
					}
				})
				r.Eval(1)
				r.Count("doc_transitions", 1)
				if pv != nil || opErr != nil {
					k := "doc:op-failed:" + op[:1]
					if r.Want(k) {
						r.Violation(k, fmt.Sprintf("%s after %q failed: %v %v", op, s.path, opErr, pv), rep)
					}
					continue
				}
				var out bytes.Buffer
				if err := api.WriteContext(ctx, &out); err != nil {
					r.Violation("doc:write-failed", fmt.Sprintf("write after %q: %v", path, err), rep)
					continue
				}
				have := map[string]bool{}
				for k := range s.have {
					have[k] = true
				}
				if add {
					have[n] = true
				} else {
					delete(have, n)
				}
				if len(have) >= 4 {
					r.Nontrivial(1)
				}
				// re-read and compare with the model
				ctx2, err := api.ReadValidateAndOptimize(bytes.NewReader(out.Bytes()), newConf())
				if err != nil {
					k := "doc:reread-failed:" + op[:1]
					if r.Want(k) {
						r.Violation(k, fmt.Sprintf("after %q the written document cannot be read back: %v", path, err), rep)
					}
					continue
				}
				aa, err := ctx2.ListAttachments()
				if err != nil {
					r.Violation("doc:list-failed", fmt.Sprintf("after %q: %v", path, err), rep)
					continue
				}
				got := map[string]bool{}
				for _, a := range aa {
					got[a.ID] = true
				}
				if key(got) != key(have) {
					k := "doc:listing-differs:" + op[:1]
					if r.Want(k) {
						r.Violation(k, fmt.Sprintf("after %q attachments listed {%s}, model {%s}", path, key(got), key(have)), rep)
					}
					continue
				}
				ex, err := ctx2.ExtractAttachments(nil)
				if err == nil {
					for _, a := range ex {
						b, _ := io.ReadAll(a)
						if !bytes.Equal(b, content(a.ID)) {
							r.Violation("doc:content-differs", fmt.Sprintf("after %q attachment %s extracts to %q", path, a.ID, b), rep)
						}
					}
				}
				sk := key(have) + "|" + op
				if !seen[sk] {
					seen[sk] = true
					r.Count("doc_states", 1)
					next = append(next, st{doc: out.Bytes(), have: have, path: path})
				}
			}
		}
		frontier = next
	}
	r.Sample(map[string]any{"document_path": "+a.txt +b.txt +c.txt +d.txt -a.txt -b.txt", "oracle": "listing and extracted bytes after write->read"})
}
