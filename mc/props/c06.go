package props

import (
	"encoding/binary"
	"bytes"
	"crypto/ecdsa"
	"crypto/elliptic"
	"crypto/rand"
	"crypto/x509"
	"crypto/x509/pkix"
	"encoding/pem"
	"fmt"
	"math/big"
	"os"
	"path/filepath"
	"strings"
	"sync"
	"time"

	"github.com/pdfcpu/pdfcpu/pkg/api"
	"github.com/pdfcpu/pdfcpu/pkg/font"
	"github.com/pdfcpu/pdfcpu/pkg/pdfcpu/model"
	"verif/mc/core"
	"verif/mc/fsx"
)

// C06: batch installs of fonts and certificates are all-or-nothing.
func init() {
	core.Register(&core.Check{
		ID:    "C06",
		Level: "fault_enumeration",
		Rule: "for every batch driver (InstallFonts with 1-2 inputs x subsets of pre-existing targets, a two-member TrueType collection, a batch with a corrupt member, InstallTrueTypeFont, ImportCertificates with 1-2 inputs x pre-existing targets, CreateCheatSheetsUserFonts x pre-existing sheet): one fault-free run, then errno at every intercepted filesystem event (bound 1); bound 2 = a second errno at every later cleanup/rollback event (remove, rename, removeall, syncdir) of the faulted execution (quick: cleanup events only; thorough: every later event); " +
			"non-trivial = a faulted execution whose first fault fired after the first staging/backup name had been created",
		Assume:   []string{"gob files are compared by size and by pdfcpu's own reload, because gob encodes maps in random order"},
		Run:      func(r *core.R) { core.Sharded(r, core.Workers()) },
		RunShard: c06shard,
		QuickSecs: 240,
	})
}

var (
	gobMu    sync.Mutex
	gobCache = map[string][]byte{}
)

var (
	fontOnce         sync.Once
	fontA, fontB     []byte
	certPEM1, certPEM2 []byte
)

func utf16beBytes(s string) []byte {
	var b []byte
	for _, c := range s {
		b = append(b, 0, byte(c))
	}
	return b
}

func loadFontFixtures() {
	fontOnce.Do(func() {
		bb, err := os.ReadFile(filepath.Join(core.RepoDir(), "pkg/testdata/fonts/Roboto-Regular.ttf"))
		if err != nil {
			panic(err)
		}
		fontA = bb
		v := bytes.ReplaceAll(bb, []byte("Roboto-Regular"), []byte("RobotX-Regular"))
		fontB = bytes.ReplaceAll(v, utf16beBytes("Roboto-Regular"), utf16beBytes("RobotX-Regular"))
		certPEM1 = makeCertPEM("verif one")
		certPEM2 = makeCertPEM("verif two")
	})
}

// buildTTC wraps sfnt fonts into a version 1.0 TrueType collection (table offsets become absolute file offsets).
func buildTTC(fonts ...[]byte) []byte {
	pad := func(n int) int { return (n + 3) &^ 3 }
	out := make([]byte, 12+4*len(fonts))
	copy(out, "ttcf")
	binary.BigEndian.PutUint32(out[4:], 0x00010000)
	binary.BigEndian.PutUint32(out[8:], uint32(len(fonts)))
	for i, f := range fonts {
		base := pad(len(out))
		out = append(out, make([]byte, base-len(out))...)
		binary.BigEndian.PutUint32(out[12+4*i:], uint32(base))
		member := append([]byte(nil), f...)
		n := int(binary.BigEndian.Uint16(member[4:]))
		for j := 0; j < n; j++ {
			e := 12 + 16*j
			binary.BigEndian.PutUint32(member[e+8:], binary.BigEndian.Uint32(member[e+8:])+uint32(base))
		}
		out = append(out, member...)
	}
	return append(out, make([]byte, pad(len(out))-len(out))...)
}

func makeCertPEM(cn string) []byte {
	key, _ := ecdsa.GenerateKey(elliptic.P256(), rand.Reader)
	tmpl := &x509.Certificate{SerialNumber: big.NewInt(int64(len(cn))), Subject: pkix.Name{CommonName: cn},
		NotBefore: time.Date(2020, 1, 1, 0, 0, 0, 0, time.UTC), NotAfter: time.Date(2040, 1, 1, 0, 0, 0, 0, time.UTC),
		IsCA: true, BasicConstraintsValid: true, KeyUsage: x509.KeyUsageCertSign}
	der, err := x509.CreateCertificate(rand.Reader, tmpl, tmpl, &key.PublicKey, key)
	if err != nil {
		panic(err)
	}
	return pem.EncodeToMemory(&pem.Block{Type: "CERTIFICATE", Bytes: der})
}

type c06driver struct {
	name  string
	setup func(dir string) // prepares dir (inputs, target dirs, pre-existing targets) without hooks
	run   func(dir string) error
}

func c06drivers() []c06driver {
	loadFontFixtures()
	fontSetup := func(pre ...string) func(dir string) {
		return func(dir string) {
			os.MkdirAll(filepath.Join(dir, "fonts"), 0o755)
			os.WriteFile(filepath.Join(dir, "a.ttf"), fontA, 0o644)
			os.WriteFile(filepath.Join(dir, "b.ttf"), fontB, 0o644)
			os.WriteFile(filepath.Join(dir, "bad.ttf"), fontA[:len(fontA)/3], 0o644)
			os.WriteFile(filepath.Join(dir, "ab.ttc"), buildTTC(fontA, fontB), 0o644)
			font.UserFontDir = filepath.Join(dir, "fonts")
			for _, p := range pre {
				// a genuinely installed older representation (valid gob), produced once and copied
				gobMu.Lock()
				g, ok := gobCache[p]
				if !ok {
					src := map[string]string{"Roboto-Regular": "a.ttf", "RobotX-Regular": "b.ttf"}[p]
					tmp := filepath.Join(dir, "pre-"+p)
					os.MkdirAll(tmp, 0o755)
					font.UserFontDir = tmp
					if err := api.InstallFonts([]string{filepath.Join(dir, src)}); err != nil {
						panic(fmt.Sprintf("c06 setup: %v", err))
					}
					g, _ = os.ReadFile(filepath.Join(tmp, p+".gob"))
					os.RemoveAll(tmp)
					gobCache[p] = g
					font.UserFontDir = filepath.Join(dir, "fonts")
				}
				gobMu.Unlock()
				os.WriteFile(filepath.Join(dir, "fonts", p+".gob"), g, 0o644)
			}
			font.ReloadUserFonts()
		}
	}
	inst := func(files ...string) func(dir string) error {
		return func(dir string) error {
			var fs []string
			for _, f := range files {
				fs = append(fs, filepath.Join(dir, f))
			}
			return api.InstallFonts(fs)
		}
	}
	certSetup := func(pre ...string) func(dir string) {
		return func(dir string) {
			os.MkdirAll(filepath.Join(dir, "certs"), 0o755)
			os.WriteFile(filepath.Join(dir, "one.pem"), certPEM1, 0o644)
			os.WriteFile(filepath.Join(dir, "two.pem"), certPEM2, 0o644)
			model.TrustedCertDir = filepath.Join(dir, "certs")
			for _, p := range pre {
				os.WriteFile(filepath.Join(dir, "certs", p+".p7c"), []byte("previous "+p+"\n"), 0o640)
				os.Chmod(filepath.Join(dir, "certs", p+".p7c"), 0o640)
			}
		}
	}
	imp := func(files ...string) func(dir string) error {
		return func(dir string) error {
			var fs []string
			for _, f := range files {
				fs = append(fs, filepath.Join(dir, f))
			}
			_, err := api.ImportCertificates(fs)
			return err
		}
	}
	sheetSetup := func(pre bool) func(dir string) {
		return func(dir string) {
			fontSetup("Roboto-Regular")(dir)
			os.MkdirAll(filepath.Join(dir, "sheets"), 0o755)
			if pre {
				os.WriteFile(filepath.Join(dir, "sheets", "Roboto-Regular_BMP.pdf"), []byte("previous sheet\n"), 0o640)
			}
		}
	}
	sheets := func(dir string) error {
		cwd, _ := os.Getwd()
		defer os.Chdir(cwd)
		os.Chdir(filepath.Join(dir, "sheets"))
		return api.CreateCheatSheetsUserFonts([]string{"Roboto-Regular"})
	}
	return []c06driver{
		{"InstallFonts[A]/fresh", fontSetup(), inst("a.ttf")},
		{"InstallFonts[A]/A-exists", fontSetup("Roboto-Regular"), inst("a.ttf")},
		{"InstallFonts[collection A+B]/fresh", fontSetup(), inst("ab.ttc")},
		{"InstallFonts[collection A+B]/B-exists", fontSetup("RobotX-Regular"), inst("ab.ttc")},
		{"InstallFonts[A]/B-exists", fontSetup("RobotX-Regular"), inst("a.ttf")},
		{"InstallFonts[A,B]/fresh", fontSetup(), inst("a.ttf", "b.ttf")},
		{"InstallFonts[A,B]/A-exists", fontSetup("Roboto-Regular"), inst("a.ttf", "b.ttf")},
		{"InstallFonts[A,B]/A,B-exist", fontSetup("Roboto-Regular", "RobotX-Regular"), inst("a.ttf", "b.ttf")},
		{"InstallFonts[A,bad]/A-exists", fontSetup("Roboto-Regular"), inst("a.ttf", "bad.ttf")},
		{"InstallTrueTypeFont[A]/A-exists", fontSetup("Roboto-Regular"), func(dir string) error {
			_, err := font.InstallTrueTypeFont(filepath.Join(dir, "fonts"), filepath.Join(dir, "a.ttf"))
			return err
		}},
		{"ImportCertificates[one]/fresh", certSetup(), imp("one.pem")},
		{"ImportCertificates[one]/one-exists", certSetup("one"), imp("one.pem")},
		{"ImportCertificates[one,two]/fresh", certSetup(), imp("one.pem", "two.pem")},
		{"ImportCertificates[one,two]/one-exists", certSetup("one"), imp("one.pem", "two.pem")},
		{"ImportCertificates[one,two]/both-exist", certSetup("one", "two"), imp("one.pem", "two.pem")},
		{"CreateCheatSheetsUserFonts[A]/fresh", sheetSetup(false), sheets},
		{"CreateCheatSheetsUserFonts[A]/sheet-exists", sheetSetup(true), sheets},
	}
}

type c06res struct {
	err    error
	pv     any
	trace  []fsx.Ev
	fired  []int
	t0, t1 fsx.Tree
	dir    string
}

func c06exec(base string, d *c06driver, plan []fsx.Fault) *c06res {
	dir := filepath.Join(base, "w")
	os.RemoveAll(dir)
	os.MkdirAll(dir, 0o755)
	d.setup(dir)
	res := &c06res{dir: dir}
	res.t0 = fsx.Snap(dir)
	ctl := &fsx.Ctl{Root: dir, Plan: plan}
	res.err, res.pv = ctl.Run(func() error { return d.run(dir) })
	res.trace = append([]fsx.Ev{}, ctl.Trace...)
	res.fired = ctl.Fired
	res.t1 = fsx.Snap(dir)
	return res
}

func cleanupKind(k string) bool {
	switch k {
	case "remove", "removeall", "rename", "syncdir":
		return true
	}
	return false
}

// c06judge: all-or-nothing oracle.
func c06judge(r *core.R, d *c06driver, plan []fsx.Fault, b *c06res, res *c06res) {
	var fdesc []string
	for _, f := range plan {
		fdesc = append(fdesc, f.Kind+"@"+strings.ReplaceAll(f.Class, " ", ":"))
	}
	site := d.name + "/" + strings.Join(fdesc, "+")
	cs := map[string]any{"driver": d.name, "plan": plan}
	if res.pv != nil {
		r.Violation(site+"/panic", fmt.Sprintf("%s panicked: %v", site, res.pv), cs)
		return
	}
	if res.err == nil {
		// success: every target holds its new content (sizes equal the fault-free run), no transaction names
		for name, be := range b.t1 {
			if _, was := b.t0[name]; was && b.t0[name].Sum == be.Sum {
				continue
			}
			if be.Mode.IsDir() || fsx.IsStaging(name) {
				continue
			}
			e, ok := res.t1[name]
			if !ok || e.Size != be.Size {
				r.Violation(site+"/success-target-missing:"+c01canonName(name), fmt.Sprintf("%s returned nil but target %s is missing or has size %d (fault-free run: %d)", site, name, e.Size, be.Size), cs)
			}
		}
		for name := range res.t1 {
			if _, was := res.t0[name]; was {
				continue
			}
			if _, fin := b.t1[name]; fin {
				continue
			}
			if exemptCleanupTargetTree(plan, name) {
				continue
			}
			r.Violation(site+"/success-leaves:"+c01canonName(name), fmt.Sprintf("%s returned nil and left %s behind", site, name), cs)
		}
		return
	}
	// failure: every directory restored exactly
	var diffs []string
	for _, df := range fsx.Diff(res.t0, res.t1) {
		name := df[strings.Index(df, ":")+1:]
		if i := strings.Index(name, "("); i >= 0 {
			name = name[:i]
		}
		if !exemptCleanupTargetTree(plan, name) {
			diffs = append(diffs, df)
		}
	}
	if len(diffs) == 0 {
		return
	}
	// fully published although an error is returned (a post-publication durability/cleanup step failed)
	if len(plan) > 0 {
		near := func(x, y int64, name string) bool {
			if strings.HasSuffix(name, ".pdf") {
				return x-y < 64 && y-x < 64
			}
			return x == y
		}
		complete := true
		for _, df := range diffs {
			name := df[strings.Index(df, ":")+1:]
			if i := strings.Index(name, "("); i >= 0 {
				name = name[:i]
			}
			be, fin := b.t1[name]
			if !fin || be.Mode.IsDir() || fsx.IsStaging(name) || !near(res.t1[name].Size, be.Size, name) {
				complete = false
			}
		}
		for name, be := range b.t1 {
			if be.Mode.IsDir() {
				continue
			}
			if e, ok := res.t1[name]; !ok || !near(e.Size, be.Size, name) {
				complete = false
			}
		}
		if complete {
			fam := d.name
			if i := strings.Index(fam, "["); i > 0 {
				fam = fam[:i]
			}
			r.Violation(fam+"/error-after-complete-publication", fmt.Sprintf("%s returned an error (%s) although every target holds its new content and nothing was rolled back", site, firstLineOf(res.err)), cs)
			return
		}
	}
	// a rollback/cleanup step failed (bound 2): the error must say where the backup was kept and it must hold the original bytes
	// Any second fault lands after the first failure, i.e. in the rollback/cleanup phase: that includes the
	// open/close of a directory handle around its fsync, not only remove/rename/removeall/syncdir events.
	rollbackFault := len(plan) > 1
	for _, df := range diffs {
		kind := df[:strings.Index(df, ":")]
		name := df[strings.Index(df, ":")+1:]
		if i := strings.Index(name, "("); i >= 0 {
			name = name[:i]
		}
		if exemptCleanupTargetTree(plan, name) {
			continue
		}
		if rollbackFault {
			// accept: originals are recoverable from a retained backup named in the error
			if c06backupNamed(res, name, kind) {
				r.Count("rollback_failed_backup_reported", 1)
				continue
			}
		}
		r.Violation(site+"/"+kind+":"+c01canonName(name), fmt.Sprintf("%s failed (%v) but the directory was not restored: %s; events: %s", site, firstLineOf(res.err), df, traceTail(res.trace)), cs)
	}
}

func firstLineOf(err error) string {
	s := err.Error()
	s = strings.ReplaceAll(s, "\n", " | ")
	if len(s) > 400 {
		s = s[:400]
	}
	return s
}

// exemptCleanupTargetTree: the leftover is (inside) the target of a faulted remove/removeall.
func exemptCleanupTargetTree(plan []fsx.Fault, name string) bool {
	cn := c01canonName(name)
	for _, f := range plan {
		parts := strings.SplitN(f.Class, " ", 2)
		if len(parts) != 2 {
			continue
		}
		if parts[0] == "remove" || parts[0] == "removeall" {
			t := c01canonName(parts[1])
			if cn == t || strings.HasPrefix(cn, t+"/") {
				return true
			}
		}
	}
	return false
}

// c06backupNamed: a changed/removed original (or leftover backup) is acceptable after a failed rollback
// step when the error text names a retained backup location that exists.
func c06backupNamed(res *c06res, name, kind string) bool {
	msg := res.err.Error()
	for n := range res.t1 {
		if _, was := res.t0[n]; was {
			continue
		}
		// transaction names carry a unique random suffix: the error names the location when it contains it
		top := strings.SplitN(strings.TrimPrefix(n, "fonts/"), "/", 2)[0]
		for _, cand := range []string{filepath.Base(n), top} {
			if strings.HasPrefix(cand, ".") && strings.Contains(msg, cand) {
				return true
			}
		}
	}
	return false
}

func c06shard(r *core.R, shard, n int) {
	base := core.Scratch("c06")
	defer os.RemoveAll(base)
	api.DisableConfigDir()
	ds := c06drivers()
	type job struct {
		d     *c06driver
		class string
		k     int
	}
	// enumerate jobs deterministically from the baseline of each driver; shard over jobs
	idx := 0
	for di := range ds {
		d := &ds[di]
		b := c06exec(base, d, nil)
		if b.pv != nil {
			r.HarnessError("%s: baseline panicked: %v", d.name, b.pv)
			continue
		}
		expectFail := strings.Contains(d.name, "bad")
		if (b.err != nil) != expectFail {
			r.HarnessError("%s: baseline unexpected result: %v", d.name, b.err)
			continue
		}
		if shard == 0 {
			r.Count("drivers", 1)
			r.Count("baseline_events", int64(len(b.trace)))
			if b.err != nil {
				c06judge(r, d, nil, b, b)
			}
		}
		firstStage := len(b.trace) + 1
		for i, e := range b.trace {
			if e.Kind == "mkdirtemp" || e.Kind == "createtemp" {
				firstStage = i + 1
				break
			}
		}
		var classes []string
		cnt := map[string]int{}
		for _, e := range b.trace {
			c := e.Class()
			if cnt[c] == 0 {
				classes = append(classes, c)
			}
			cnt[c]++
		}
		for _, c := range classes {
			kd := strings.SplitN(c, " ", 2)[0]
			kmax := cnt[c]
			if (kd == "read" || kd == "readat" || kd == "seek") && kmax > 3 {
				kmax = 3 // input reads: first three occurrences (all equivalent: the input is unreadable)
			}
			for k := 1; k <= kmax; k++ {
				idx++
				if idx%n != shard {
					continue
				}
				if r.Expired() {
					r.Cut("internal deadline")
					return
				}
				f1 := fsx.Fault{Class: c, K: k, Kind: "errno"}
				res := c06exec(base, d, []fsx.Fault{f1})
				r.Eval(1)
				if len(res.fired) == 0 {
					// a planned fault that never fires is a hole in the enumeration (e.g. a random name that is not
					// canonicalised): only input reads may legitimately vary with map iteration order
					if kd == "read" || kd == "readat" || kd == "seek" {
						r.Count("read_fault_not_reached", 1)
					} else {
						r.HarnessError("%s: planned fault %s #%d did not fire", d.name, c, k)
					}
					continue
				}
				if res.fired[0] > firstStage {
					r.Nontrivial(1)
				}
				if res.err != nil {
					r.Count("outcome_error", 1)
				} else {
					r.Count("outcome_ok", 1)
				}
				c06judge(r, d, []fsx.Fault{f1}, b, res)
				if idx%97 == 0 {
					r.Sample(map[string]any{"driver": d.name, "plan": []fsx.Fault{f1}, "error": res.err != nil})
				}
				// bound 2
				seen := map[string]int{}
				for j, e := range res.trace {
					seen[e.Class()]++
					if j+1 <= res.fired[0] {
						continue
					}
					if r.Quick() && !cleanupKind(e.Kind) {
						continue
					}
					if r.Expired() {
						r.Cut("internal deadline (bound 2)")
						return
					}
					plan := []fsx.Fault{f1, {Class: e.Class(), K: seen[e.Class()], Kind: "errno"}}
					res2 := c06exec(base, d, plan)
					r.Eval(1)
					r.Count("bound2_executions", 1)
					if len(res2.fired) == 2 {
						r.Nontrivial(1)
						c06judge(r, d, plan, b, res2)
					}
				}
			}
		}
	}
}
