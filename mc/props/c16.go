package props

import (
	"bytes"
	"compress/zlib"
	"errors"
	"fmt"
	"io"

	"github.com/pdfcpu/pdfcpu/pkg/filter"
	"github.com/pdfcpu/pdfcpu/pkg/pdfcpu/types"
	"verif/mc/core"
	"verif/mc/pngtiff"
)

// C16: decode limits are exact and bounded decoding yields prefixes.
func init() {
	core.Register(&core.Check{
		ID:    "C16",
		Level: "exploration",
		Rule: "every encoding of: all strings of length <=4 over {00,01,80,FF}, run/literal mixes (lengths 1..12 and around 128), through each of the 6 filter variants and every 2-stage pipeline, plus Flate streams with PNG/TIFF predictor rows; with decoded length n: every explicit limit L in 1..n+2 (and L around n for long data) for unbounded decoding, every bounded length m in 0..n+2 at filter level (DecodeLength) and stream level (DecodeLengthWithLimit); " +
			"non-trivial = a case with 0 < L < n+2 or 0 < m, on non-empty data",
		Assume: []string{"a limit of 0 is the Go zero value and documented as 'use the default limit'; explicit limits are enumerated from 1", "DecodeLength documents 'at least maxLen bytes': at filter level a longer prefix is accepted, at stream level the result must have exactly min(m, n) bytes"},
		Run:    runC16,
	})
}

func c16data() [][]byte {
	out := smallData(4)
	for n := 1; n <= 12; n++ {
		out = append(out, bytes.Repeat([]byte{'d'}, n))
		out = append(out, append([]byte("abc"), bytes.Repeat([]byte{'d'}, n)...))
		out = append(out, append(bytes.Repeat([]byte{'d'}, n), []byte("xyz")...))
	}
	for _, n := range []int{127, 128, 129, 130, 200} {
		out = append(out, bytes.Repeat([]byte{'r'}, n), append([]byte{'q'}, bytes.Repeat([]byte{'r'}, n)...), noise(n))
	}
	return out
}

func runC16(r *core.R) {
	data := c16data()
	pipes := allPipelines(2)
	r.Note("data_strings", len(data))
	r.Note("pipelines", len(pipes))
	limitsFor := func(n int) []int64 {
		var ls []int64
		if n <= 16 {
			for l := 1; l <= n+2; l++ {
				ls = append(ls, int64(l))
			}
			return ls
		}
		for _, l := range []int{1, 2, 3, n / 2, n - 2, n - 1, n, n + 1, n + 2} {
			ls = append(ls, int64(l))
		}
		if n <= 200 {
			for l := 4; l < n-2; l++ { // every limit strictly inside long runs too
				ls = append(ls, int64(l))
			}
		}
		return ls
	}
	judgeUnbounded := func(desc string, n int, d []byte, L int64, got []byte, err error, rep func() any) {
		r.Eval(1)
		if n > 0 && L < int64(n+2) {
			r.Nontrivial(1)
		}
		switch {
		case int64(n) <= L:
			if err != nil || !bytes.Equal(got, d) {
				key := desc + "/within-limit-rejected-or-wrong"
				if r.Want(key) {
					r.Violation(key, fmt.Sprintf("%s: n=%d <= L=%d but err=%v, got %d bytes", desc, n, L, err, len(got)), rep())
				}
			}
		default:
			if !errors.Is(err, filter.ErrDecodeLimitExceeded) {
				key := desc + "/over-limit-not-rejected"
				if r.Want(key) {
					r.Violation(key, fmt.Sprintf("%s: n=%d > L=%d but err=%v, returned %d bytes", desc, n, L, err, len(got)), rep())
				}
			}
		}
	}
	core.ParFor(len(pipes), func(pi int) {
		p := pipes[pi]
		last := p[len(p)-1]
		for _, d := range data {
			enc, err := encodePipe(p, d)
			if err != nil {
				r.HarnessError("encode %s: %v", pipeString(p), err)
				return
			}
			n := len(d)
			rep := func(L, m int64) func() any {
				return func() any {
					return map[string]any{"pipeline": pipeString(p), "data_hex": fmt.Sprintf("%x", trunc(d, 40)), "n": n, "limit": L, "bounded": m}
				}
			}
			// decode the leading stages without limit, apply the limit to the last stage (each stage has its own limit;
			// intermediate encodings are larger than n for the ASCII filters)
			pre, err := decodePipe(p[:len(p)-1], enc, 0)
			if err != nil {
				r.HarnessError("predecode %s: %v", pipeString(p), err)
				return
			}
			for _, L := range limitsFor(n) {
				f, _ := filter.NewFilter(last.name, last.parms, L)
				rd, err := f.Decode(bytes.NewReader(pre))
				var got []byte
				if err == nil {
					got, err = io.ReadAll(rd)
				}
				judgeUnbounded("filter:"+last.String(), n, d, L, got, err, rep(L, -1))
				// stream level with the whole pipeline: the limit applies to every stage, so only judge when
				// no intermediate stage exceeds it (single-stage pipelines)
				if len(p) == 1 {
					sd := types.StreamDict{Dict: types.Dict{}, Raw: enc, FilterPipeline: []types.PDFFilter{{Name: last.name, DecodeParms: parmsDict(last.parms)}}}
					err := sd.DecodeWithLimit(L)
					judgeUnbounded("streamdict:"+last.String(), n, d, L, sd.Content, err, rep(L, -1))
				}
			}
			// bounded decoding
			for m := int64(0); m <= int64(n+2); m++ {
				if n > 16 && m > 3 && m < int64(n-2) && m%17 != 0 {
					continue
				}
				r.Eval(1)
				if m > 0 && n > 0 {
					r.Nontrivial(1)
				}
				f, _ := filter.NewFilter(last.name, last.parms)
				rd, err := f.DecodeLength(bytes.NewReader(pre), m)
				var got []byte
				if err == nil {
					got, err = io.ReadAll(rd)
				}
				want := m
				if int64(n) < m {
					want = int64(n)
				}
				tooShort := err != nil && (errors.Is(err, io.EOF) || errors.Is(err, io.ErrUnexpectedEOF))
				if err != nil && !(tooShort && m > int64(n)) {
					key := "filter:" + last.String() + "/bounded-decode-error"
					if r.Want(key) {
						r.Violation(key, fmt.Sprintf("DecodeLength(%d) of %d-byte data through %s failed: %v", m, n, last, err), rep(-1, m)())
					}
				} else if err == nil && (int64(len(got)) < want || !bytes.HasPrefix(d, got)) {
					key := "filter:" + last.String() + "/bounded-decode-not-a-prefix"
					if r.Want(key) {
						r.Violation(key, fmt.Sprintf("DecodeLength(%d) of %d-byte data through %s returned %d bytes %s which is not a prefix of length >= %d", m, n, last, len(got), hexHead(got), want), rep(-1, m)())
					}
				}
				if len(p) == 1 {
					sd := types.StreamDict{Dict: types.Dict{}, Raw: enc, FilterPipeline: []types.PDFFilter{{Name: last.name, DecodeParms: parmsDict(last.parms)}}}
					got, err := sd.DecodeLengthWithLimit(m, filter.DefaultMaxDecodeBytes)
					r.Eval(1)
					tooShort := err != nil && (errors.Is(err, io.EOF) || errors.Is(err, io.ErrUnexpectedEOF))
					if m > int64(n) {
						if !tooShort && !(err == nil && bytes.Equal(got, d)) {
							key := "streamdict:" + last.String() + "/bounded-beyond-data"
							if r.Want(key) {
								r.Violation(key, fmt.Sprintf("DecodeLengthWithLimit(%d) of %d-byte data: err=%v got %d bytes", m, n, err, len(got)), rep(-1, m)())
							}
						}
					} else if err != nil || int64(len(got)) != m || !bytes.HasPrefix(d, got) {
						key := "streamdict:" + last.String() + "/bounded-decode-wrong"
						if r.Want(key) {
							r.Violation(key, fmt.Sprintf("DecodeLengthWithLimit(%d) of %d-byte data: err=%v got %d bytes %s", m, n, err, len(got), hexHead(got)), rep(-1, m)())
						}
					}
				}
			}
		}
	})
	r.Sample(map[string]any{"pipeline": "RunLengthDecode", "data": "abc + 8 x 'd'", "limits": "1..13", "bounded": "0..13"})
	// predictor rows through Flate: limits on the post-processed output
	type pc struct{ pred, colors, bpc, cols, rows int }
	var grid []pc
	for _, pred := range []int{2, 10, 12, 15} {
		for _, colors := range []int{1, 3} {
			for _, bpc := range []int{4, 8} {
				for _, cols := range []int{1, 2, 5} {
					for rows := 1; rows <= 3; rows++ {
						grid = append(grid, pc{pred, colors, bpc, cols, rows})
					}
				}
			}
		}
	}
	core.ParFor(len(grid), func(i int) {
		g := grid[i]
		rb := pngtiff.RowBytes(g.colors, g.bpc, g.cols)
		var raw []byte
		for row := 0; row < g.rows; row++ {
			if g.pred >= 10 {
				raw = append(raw, byte([]int{0, 1, 2, 3, 4}[(row+g.cols)%5]))
			}
			for k := 0; k < rb; k++ {
				raw = append(raw, byte(row*31+k*7+1))
			}
		}
		want, err := pngtiff.Undo(raw, g.pred, g.colors, g.bpc, g.cols)
		if err != nil {
			return
		}
		if g.pred == 2 && g.bpc != 8 {
			return // TIFF differencing for other widths is C17's subject
		}
		var zb bytes.Buffer
		zw := zlib.NewWriter(&zb)
		zw.Write(raw)
		zw.Close()
		parms := map[string]int{"Predictor": g.pred, "Colors": g.colors, "BitsPerComponent": g.bpc, "Columns": g.cols}
		n := len(want)
		for L := int64(1); L <= int64(n+2); L++ {
			f, _ := filter.NewFilter(filter.Flate, parms, L)
			rd, err := f.Decode(bytes.NewReader(zb.Bytes()))
			var got []byte
			if err == nil {
				got, err = io.ReadAll(rd)
			}
			// the row buffer itself (rowLen = rb or rb+1 bytes) is also held to the limit: a limit below one raw row is rejected
			rowLen := rb
			if g.pred >= 10 {
				rowLen++
			}
			if int64(rowLen) > L && int64(n) <= L {
				r.Eval(1)
				continue // statement is silent about the raw row buffer; do not judge
			}
			judgeUnbounded(fmt.Sprintf("filter:Flate{Predictor=%d}", g.pred), n, want, L, got, err, func() any {
				return map[string]any{"parms": parms, "rows": g.rows, "limit": L}
			})
		}
	})
	r.Sample(map[string]any{"filter": "FlateDecode", "parms": map[string]int{"Predictor": 12, "Colors": 3, "BitsPerComponent": 8, "Columns": 5}, "rows": 3, "limits": "1..n+2"})
}

func parmsDict(m map[string]int) types.Dict {
	if len(m) == 0 {
		return nil
	}
	d := types.Dict{}
	for k, v := range m {
		d[k] = types.Integer(v)
	}
	return d
}
