package props

import (
	"bytes"
	"crypto/sha256"
	"fmt"
	"io"
	"os"
	"path/filepath"
	"sort"
	"strings"

	"github.com/pdfcpu/pdfcpu/pkg/api"
	"github.com/pdfcpu/pdfcpu/pkg/font"
	"github.com/pdfcpu/pdfcpu/pkg/pdfcpu/model"
	"github.com/pdfcpu/pdfcpu/pkg/pdfcpu/types"
	"verif/mc/docgen"
)

// C40Body is one whole-API operation on its own input; Run returns a normalised result string.
type C40Body struct {
	Name   string
	Run    func(slot int) string
	Varies bool // result legitimately depends on concurrent reloads (never set for independent inputs)
}

func c40Norm(b []byte, err error) string {
	if err != nil {
		return "error: " + err.Error()
	}
	cn, err := c41Canon(b)
	if err != nil {
		return "unreadable output: " + err.Error()
	}
	h := sha256.Sum256([]byte(cn))
	return fmt.Sprintf("ok canon=%x len(canon)=%d", h[:8], len(cn))
}

// C40Bodies prepares inputs under dir (incl. a user font directory with two installed fonts).
func C40Bodies(dir string) ([]C40Body, error) {
	api.DisableConfigDir()
	if err := c40Gobs(); err != nil {
		return nil, err
	}
	fdir := filepath.Join(dir, "fonts")
	os.MkdirAll(fdir, 0o755)
	os.WriteFile(filepath.Join(fdir, fA+".gob"), c40GobA, 0o644)
	os.WriteFile(filepath.Join(fdir, fB+".gob"), c40GobB, 0o644)
	font.UserFontDir = fdir
	if err := font.LoadUserFonts(); err != nil {
		return nil, err
	}
	fx := GetFixtures()
	in := fx.Files["in.pdf"]
	form := new(bytes.Buffer)
	if err := api.Create(nil, strings.NewReader(c37formJSON), form, newConf()); err != nil {
		return nil, err
	}
	raw, _, err := exportValues(form.Bytes())
	if err != nil {
		return nil, err
	}
	fill := withValues(raw, map[string]fval{"t1": {"concurrent", false}})
	big := docgen.Marked(6, 500)
	op := func(name string, f func(w *bytes.Buffer) error) C40Body {
		return C40Body{Name: name, Run: func(int) string {
			var w bytes.Buffer
			err := f(&w)
			return c40Norm(w.Bytes(), err)
		}}
	}
	wm := func(fontName string) func(w *bytes.Buffer) error {
		return func(w *bytes.Buffer) error {
			m, err := api.TextWatermark("Concurrent", "font:"+fontName+", points:24, pos:c", true, false, types.POINTS)
			if err != nil {
				return err
			}
			return api.AddWatermarks(bytes.NewReader(in), w, nil, m, newConf())
		}
	}
	// every security handler revision: the per-object key derivation of R2-R4 differs from R5/R6
	type encMode struct {
		name string
		aes  bool
		bits int
	}
	encModes := []encMode{{"rc4-40", false, 40}, {"rc4-128", false, 128}, {"aes-128", true, 128}, {"aes-256", true, 256}}
	encConf := func(m encMode) *model.Configuration {
		c := newConf()
		c.UserPW, c.OwnerPW = "upw", "opw"
		c.EncryptUsingAES, c.EncryptKeyLength = m.aes, m.bits
		return c
	}
	var cryptoBodies []C40Body
	for _, m := range encModes {
		m := m
		var enc bytes.Buffer
		if err := api.Encrypt(bytes.NewReader(big), &enc, encConf(m)); err != nil {
			return nil, fmt.Errorf("c40 fixture encrypt %s: %w", m.name, err)
		}
		encrypted := enc.Bytes()
		if m.bits != 256 {
			cryptoBodies = append(cryptoBodies, op("encrypt "+m.name, func(w *bytes.Buffer) error {
				return api.Encrypt(bytes.NewReader(in), w, encConf(m))
			}))
		}
		cryptoBodies = append(cryptoBodies,
			op("decrypt "+m.name, func(w *bytes.Buffer) error {
				return api.Decrypt(bytes.NewReader(encrypted), w, encConf(m))
			}),
			op("change user password "+m.name, func(w *bytes.Buffer) error {
				return api.ChangeUserPassword(bytes.NewReader(encrypted), w, "upw", "new", encConf(m))
			}),
		)
	}
	// every core font, with a text holding codes the font has no glyph for (no-break space, soft hyphen, a control
	// character): whatever is worked out on first use for such a code is shared by all goroutines
	var coreFontBodies []C40Body
	for _, fn := range []string{"Helvetica", "Helvetica-Bold", "Times-Roman", "Times-Italic", "Courier", "Courier-Oblique", "Symbol", "ZapfDingbats"} {
		fn := fn
		coreFontBodies = append(coreFontBodies, op("stamp "+fn+" unmapped codes", func(w *bytes.Buffer) error {
			m, err := api.TextWatermark("a\u00a0b\u00adc\td", "font:"+fn+", points:24, pos:c", true, false, types.POINTS)
			if err != nil {
				return err
			}
			return api.AddWatermarks(bytes.NewReader(in), w, nil, m, newConf())
		}), C40Body{Name: "text width " + fn + " unmapped codes", Run: func(int) string {
			w1, err := font.TextWidth("a\u00a0b\u00adc\td", fn, 12)
			return fmt.Sprintf("%.3f %v", w1, err)
		}})
	}
	bodies := []C40Body{
		{Name: "read+validate", Run: func(int) string {
			conf := newConf()
			ctx, err := api.ReadValidateAndOptimize(bytes.NewReader(big), conf)
			if err != nil {
				return "error: " + err.Error()
			}
			return fmt.Sprintf("ok pages=%d objects=%d", ctx.PageCount, len(ctx.Table))
		}},
		op("optimize", func(w *bytes.Buffer) error { return api.Optimize(bytes.NewReader(big), w, newConf()) }),
		op("stamp core font", wm("Helvetica")),
		op("stamp user font", wm(fA)),
		op("form fill", func(w *bytes.Buffer) error {
			return api.FillForm(bytes.NewReader(form.Bytes()), bytes.NewReader(fill), w, newConf())
		}),
		op("encrypt", func(w *bytes.Buffer) error {
			c := newConf()
			c.UserPW, c.OwnerPW = "upw", "opw"
			c.EncryptUsingAES, c.EncryptKeyLength = true, 256
			return api.Encrypt(bytes.NewReader(in), w, c)
		}),
		op("merge", func(w *bytes.Buffer) error {
			return api.MergeRaw([]io.ReadSeeker{bytes.NewReader(in), bytes.NewReader(fx.Files["other.pdf"])}, w, false, newConf())
		}),
		op("trim", func(w *bytes.Buffer) error { return api.Trim(bytes.NewReader(big), w, []string{"2-4"}, newConf()) }),
		op("rotate", func(w *bytes.Buffer) error { return api.Rotate(bytes.NewReader(in), w, 90, nil, newConf()) }),
		{Name: "split", Run: func(slot int) string {
			out := filepath.Join(dir, fmt.Sprintf("split%d", slot))
			os.RemoveAll(out)
			os.MkdirAll(out, 0o755)
			if err := api.Split(bytes.NewReader(big), out, "doc", 2, newConf()); err != nil {
				return "error: " + err.Error()
			}
			cn, err := c41DirCanon(out)
			if err != nil {
				return "error: " + err.Error()
			}
			h := sha256.Sum256([]byte(cn))
			return fmt.Sprintf("ok %x", h[:8])
		}},
		{Name: "font lookups", Run: func(int) string {
			a, e1 := font.IsUserFont(fA)
			b, e2 := font.IsUserFont(fB)
			ns, e3 := font.UserFontNames()
			sort.Strings(ns)
			w, e4 := font.TextWidth("Width", fA, 12)
			return fmt.Sprintf("%v %v %v %v|%v %v %v %.3f", e1, e2, e3, e4, a, b, ns, w)
		}},
		{Name: "font reload (unchanged directory)", Run: func(int) string {
			return fmt.Sprint(font.ReloadUserFonts())
		}},
		{Name: "default configuration", Run: func(int) string {
			c := model.NewDefaultConfiguration()
			return fmt.Sprint(c.ValidationMode, c.Eol, c.WriteObjectStream)
		}},
	}
	bodies = append(bodies, coreFontBodies...)
	return append(bodies, cryptoBodies...), nil
}
