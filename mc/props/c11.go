package props

import (
	"context"
	"fmt"
	"math"
	"sort"
	"strings"

	"github.com/pdfcpu/pdfcpu/pkg/pdfcpu"
	"github.com/pdfcpu/pdfcpu/pkg/pdfcpu/model"
	"github.com/pdfcpu/pdfcpu/pkg/pdfcpu/types"
	"verif/mc/core"
)

// C11: any PDF object pdfcpu writes parses back to the same object.
func init() {
	core.Register(&core.Check{
		ID:    "C11",
		Level: "exploration",
		Rule: "atoms: null, booleans, integers {0,-1,7,MaxInt64,MinInt64}, reals {0,0.5,-0.000001,1e-13,123456789.123456789,1e15,-2.5}, names {empty,A,'A B',#,/,(,1,e-acute,0x7F,tab,'A#20'}, literal strings (escaped forms of {empty,(,),\\,a CR b,\\1,0x80,'(()',LF}), hex strings {empty,AB,ab01}, references {1 0 R,12 5 R}; composites: every array of length <=3 over atoms + {[],<<>>,[1],<</K 1>>}, every dict of <=2 entries over 4 keys (one needing # escapes) x those values, and every ordered pair nested one level deeper in an array and in a dict; both writers (PDFString and the appendPDFObject serializer); " +
			"non-trivial = a composite with at least two members (adjacent-token separator logic is exercised)",
		Run: runC11,
	})
}

func c11atoms() []types.Object {
	var out []types.Object
	out = append(out, nil, types.Boolean(true), types.Boolean(false))
	for _, i := range []int{0, -1, 7, math.MaxInt64, math.MinInt64} {
		out = append(out, types.Integer(i))
	}
	for _, f := range []float64{0, 0.5, -0.000001, 1e-13, 123456789.123456789, 1e15, -2.5} {
		out = append(out, types.Float(f))
	}
	for _, n := range []string{"", "A", "A B", "#", "/", "(", "1", "é", "\x7f", "a\tb", "A#20", "Lime\xc2\xa0Green", "x\xe3\x80\x80y"} {
		out = append(out, types.Name(n))
	}
	for _, s := range []string{"", "(", ")", "\\", "a\rb", "\\1", "\x80", "(()", "\n"} {
		e, _ := types.Escape(s)
		out = append(out, types.StringLiteral(*e))
	}
	for _, h := range []string{"", "AB", "ab01"} {
		out = append(out, types.HexLiteral(h))
	}
	out = append(out, *types.NewIndirectRef(1, 0), *types.NewIndirectRef(12, 5))
	return out
}

func c11equal(a, b types.Object) bool {
	if a == nil || b == nil {
		return a == nil && b == nil
	}
	num := func(o types.Object) (float64, bool) {
		switch v := o.(type) {
		case types.Integer:
			return float64(v), true
		case types.Float:
			return v.Value(), true
		}
		return 0, false
	}
	switch x := a.(type) {
	case types.Boolean:
		y, ok := b.(types.Boolean)
		return ok && x == y
	case types.Integer:
		y, ok := b.(types.Integer)
		return ok && x == y
	case types.Float:
		fy, ok := num(b)
		if !ok {
			return false
		}
		fx := x.Value()
		return math.Round(fx*1e12) == math.Round(fy*1e12) || math.Abs(fx-fy) <= math.Abs(fx)*1e-15
	case types.Name:
		y, ok := b.(types.Name)
		return ok && x == y
	case types.StringLiteral:
		y, ok := b.(types.StringLiteral)
		if !ok {
			return false
		}
		bx, e1 := types.Unescape(x.Value())
		by, e2 := types.Unescape(y.Value())
		return e1 == nil && e2 == nil && string(bx) == string(by)
	case types.HexLiteral:
		y, ok := b.(types.HexLiteral)
		return ok && strings.EqualFold(x.Value(), y.Value())
	case types.IndirectRef:
		y, ok := b.(types.IndirectRef)
		return ok && x.ObjectNumber == y.ObjectNumber && x.GenerationNumber == y.GenerationNumber
	case types.Array:
		y, ok := b.(types.Array)
		if !ok || len(x) != len(y) {
			return false
		}
		for i := range x {
			if !c11equal(x[i], y[i]) {
				return false
			}
		}
		return true
	case types.Dict:
		y, ok := b.(types.Dict)
		if !ok {
			return false
		}
		nx, ny := 0, 0
		for k, v := range x {
			if v == nil {
				continue
			}
			nx++
			if w, ok := y[k]; !ok || !c11equal(v, w) {
				return false
			}
		}
		for _, w := range y {
			if w != nil {
				ny++
			}
		}
		return nx == ny
	}
	return false
}

func c11one(r *core.R, obj types.Object, nontrivial bool) {
	texts := map[string]string{}
	if obj == nil {
		texts["PDFString"] = "null"
	} else {
		texts["PDFString"] = obj.PDFString()
	}
	if b, err := pdfcpu.VerifAppendPDFObject(nil, obj); err == nil {
		texts["appendPDFObject"] = string(b)
	} else {
		r.Violation("appendPDFObject:error", fmt.Sprintf("appendPDFObject(%v): %v", obj, err), map[string]any{"object": fmt.Sprint(obj)})
	}
	for w, text := range texts {
		r.Eval(1)
		if nontrivial {
			r.Nontrivial(1)
		}
		line := text
		got, err := model.ParseObjectContext(context.Background(), &line, 0)
		rest := strings.TrimSpace(line)
		if err != nil || rest != "" || !c11equal(obj, got) {
			key := w + ":" + c11shape(obj)
			if r.Want(key) {
				r.Violation(key, fmt.Sprintf("%s wrote %q; parsed back as %v (err=%v, unconsumed %q); original %v", w, text, got, err, rest, obj),
					map[string]any{"writer": w, "written": text, "object": fmt.Sprint(obj)})
			}
		}
	}
}

// c11shape is the kind skeleton of an object: the finding key.
func c11shape(o types.Object) string {
	switch x := o.(type) {
	case nil:
		return "null"
	case types.Boolean:
		return "bool"
	case types.Integer:
		return "int"
	case types.Float:
		return "real"
	case types.Name:
		return "name"
	case types.StringLiteral:
		return "str"
	case types.HexLiteral:
		return "hex"
	case types.IndirectRef:
		return "ref"
	case types.Array:
		var ss []string
		for _, e := range x {
			ss = append(ss, c11shape(e))
		}
		return "[" + strings.Join(ss, " ") + "]"
	case types.Dict:
		var ss []string
		ks := make([]string, 0, len(x))
		for k := range x {
			ks = append(ks, k)
		}
		sort.Strings(ks)
		for _, k := range ks {
			ss = append(ss, c11shape(x[k]))
		}
		return "<<" + strings.Join(ss, " ") + ">>"
	}
	return "?"
}

func runC11(r *core.R) {
	atoms := c11atoms()
	for _, a := range atoms {
		c11one(r, a, false)
	}
	vals := append([]types.Object{}, atoms...)
	vals = append(vals, types.Array{}, types.Dict{}, types.Array{types.Integer(1)}, types.Dict{"K": types.Integer(1)})
	n := len(vals)
	r.Note("values", n)
	// arrays of length 1..3
	core.ParFor(n, func(i int) {
		c11one(r, types.Array{vals[i]}, false)
		for j := 0; j < n; j++ {
			c11one(r, types.Array{vals[i], vals[j]}, true)
			for k := 0; k < n; k++ {
				c11one(r, types.Array{vals[i], vals[j], vals[k]}, true)
			}
		}
	})
	r.Sample(map[string]any{"object": "[true /A (\\() <AB> 12 5 R]"})
	keys := []string{"K", "A B", "Z#", "Length"}
	core.ParFor(n, func(i int) {
		for ki, k := range keys {
			c11one(r, types.Dict{k: vals[i]}, false)
			for kj := ki + 1; kj < len(keys); kj++ {
				for j := 0; j < n; j++ {
					c11one(r, types.Dict{k: vals[i], keys[kj]: vals[j]}, true)
				}
			}
		}
		// every ordered pair nested one level deeper
		for j := 0; j < n; j++ {
			pair := types.Array{vals[i], vals[j]}
			c11one(r, types.Array{pair, pair}, true)
			c11one(r, types.Array{types.Integer(1), pair}, true)
			c11one(r, types.Dict{"K": pair, "L": types.Dict{"M": vals[i], "N": vals[j]}}, true)
		}
	})
	r.Sample(map[string]any{"object": "<</A#20B 0.5/K [null (a\\rb)]>>"})
}
