package props

import "fmt"

// Minimal DER walker (definite lengths only) used to locate the authenticated parts of a CMS SignedData
// inside a /Contents value: the encapsulated content info, the signed attributes and the signature octets.

type derTLV struct {
	tag        byte
	start, end int // whole TLV
	vstart     int // start of the value
}

func derRead(b []byte, p int) (derTLV, error) {
	if p+2 > len(b) {
		return derTLV{}, fmt.Errorf("short")
	}
	t := derTLV{tag: b[p], start: p}
	l := int(b[p+1])
	q := p + 2
	if l&0x80 != 0 {
		n := l & 0x7f
		if n == 0 || n > 4 || q+n > len(b) {
			return derTLV{}, fmt.Errorf("bad length")
		}
		l = 0
		for i := 0; i < n; i++ {
			l = l<<8 | int(b[q+i])
		}
		q += n
	}
	if q+l > len(b) {
		return derTLV{}, fmt.Errorf("value beyond input")
	}
	t.vstart, t.end = q, q+l
	return t, nil
}

func derChildren(b []byte, t derTLV) ([]derTLV, error) {
	var out []derTLV
	for p := t.vstart; p < t.end; {
		c, err := derRead(b, p)
		if err != nil {
			return nil, err
		}
		out = append(out, c)
		p = c.end
	}
	return out, nil
}

// cmsAuthenticated returns [start,end) byte regions of der that a CMS signature authenticates
// (or that are the signature itself), per signer.
func cmsAuthenticated(der []byte) ([][2]int, error) {
	ci, err := derRead(der, 0)
	if err != nil || ci.tag != 0x30 {
		return nil, fmt.Errorf("no ContentInfo")
	}
	cc, err := derChildren(der, ci)
	if err != nil || len(cc) < 2 || cc[1].tag != 0xa0 {
		return nil, fmt.Errorf("no [0] content")
	}
	sdw, err := derChildren(der, cc[1])
	if err != nil || len(sdw) != 1 || sdw[0].tag != 0x30 {
		return nil, fmt.Errorf("no SignedData")
	}
	f, err := derChildren(der, sdw[0])
	if err != nil || len(f) < 4 {
		return nil, fmt.Errorf("short SignedData")
	}
	var regs [][2]int
	// version, digestAlgorithms, encapContentInfo, [0] certs?, [1] crls?, signerInfos
	regs = append(regs, [2]int{f[2].start, f[2].end})
	si := f[len(f)-1]
	if si.tag != 0x31 {
		return nil, fmt.Errorf("no signerInfos")
	}
	signers, err := derChildren(der, si)
	if err != nil {
		return nil, err
	}
	for _, s := range signers {
		sf, err := derChildren(der, s)
		if err != nil {
			return nil, err
		}
		for _, x := range sf {
			switch x.tag {
			case 0xa0: // signedAttrs
				regs = append(regs, [2]int{x.start, x.end})
			case 0x04: // signature
				regs = append(regs, [2]int{x.vstart, x.end})
			}
		}
	}
	return regs, nil
}
