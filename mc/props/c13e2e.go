package props

import (
	"bytes"
	"fmt"
	"sort"
	"strings"
	"unicode/utf16"

	"github.com/pdfcpu/pdfcpu/pkg/api"
	"github.com/pdfcpu/pdfcpu/pkg/pdfcpu"
	"github.com/pdfcpu/pdfcpu/pkg/pdfcpu/model"
	"github.com/pdfcpu/pdfcpu/pkg/pdfcpu/types"
	"verif/mc/core"
	"verif/mc/docgen"
)

// End-to-end channels of C13: the text goes in through the API that stores it as a PDF text string and comes
// back through the API that lists it. Every Unicode scalar value from U+0020 up is exercised: the scalars
// are packed 64 per string ("a" + 64 consecutive scalars + "b") and 64 strings per document operation.
// Form values are restricted to what the core font can show (Latin-1), as pdfcpu refuses other text there.

type c13Channel struct {
	name  string
	skip  func(cp rune) bool
	store func(doc []byte, texts []string) ([]byte, error)
	load  func(doc []byte, n int) ([]string, error)
}

func c13Channels() []c13Channel {
	conf := func() *model.Configuration { return newConf() }
	return []c13Channel{
		{"document property value", nil,
			func(doc []byte, texts []string) ([]byte, error) {
				m := map[string]string{}
				for i, t := range texts {
					m[fmt.Sprintf("K%03d", i)] = t
				}
				var out bytes.Buffer
				err := api.AddProperties(bytes.NewReader(doc), &out, m, conf())
				return out.Bytes(), err
			},
			func(doc []byte, n int) ([]string, error) {
				ps, err := api.Properties(bytes.NewReader(doc), conf())
				if err != nil {
					return nil, err
				}
				out := make([]string, n)
				for i := range out {
					out[i] = ps[fmt.Sprintf("K%03d", i)]
				}
				return out, nil
			}},
		{"keyword", func(cp rune) bool { return cp == ',' || cp == ';' }, // keyword lists are comma separated by definition
			func(doc []byte, texts []string) ([]byte, error) {
				var out bytes.Buffer
				err := api.AddKeywords(bytes.NewReader(doc), &out, texts, conf())
				return out.Bytes(), err
			},
			func(doc []byte, n int) ([]string, error) {
				ks, err := api.Keywords(bytes.NewReader(doc), conf())
				if err != nil {
					return nil, err
				}
				for i := range ks {
					ks[i] = strings.TrimPrefix(ks[i], " ")
				}
				return ks, nil
			}},
		{"bookmark title", nil,
			func(doc []byte, texts []string) ([]byte, error) {
				var bms []pdfcpu.Bookmark
				for _, t := range texts {
					bms = append(bms, pdfcpu.Bookmark{Title: t, PageFrom: 1})
				}
				var out bytes.Buffer
				err := api.AddBookmarks(bytes.NewReader(doc), &out, bms, true, conf())
				return out.Bytes(), err
			},
			func(doc []byte, n int) ([]string, error) {
				bms, err := api.Bookmarks(bytes.NewReader(doc), conf())
				if err != nil {
					return nil, err
				}
				var out []string
				for _, b := range bms {
					out = append(out, b.Title)
				}
				return out, nil
			}},
		{"annotation contents", nil,
			func(doc []byte, texts []string) ([]byte, error) {
				cur := doc
				for i, t := range texts {
					ann := model.NewTextAnnotation(*types.NewRectangle(10, float64(10+i), 60, float64(20+i)), 0, t, fmt.Sprintf("id%03d", i), "", 0, nil, "t", nil, nil, "", "", 0, 0, 0, true, "")
					var out bytes.Buffer
					if err := api.AddAnnotations(bytes.NewReader(cur), &out, []string{"1"}, ann, conf()); err != nil {
						return nil, err
					}
					cur = out.Bytes()
				}
				return cur, nil
			},
			func(doc []byte, n int) ([]string, error) {
				m, err := api.Annotations(bytes.NewReader(doc), nil, conf())
				if err != nil {
					return nil, err
				}
				byID := map[string]string{}
				for _, pa := range m {
					for _, a := range pa {
						for _, r := range a.Map {
							byID[r.ID()] = r.Content()
						}
					}
				}
				out := make([]string, n)
				for i := range out {
					out[i] = byID[fmt.Sprintf("id%03d", i)]
				}
				return out, nil
			}},
	}
}

func c13EndToEnd(r *core.R) {
	api.DisableConfigDir()
	base := docgen.Marked(1, 0)
	// all scalars >= U+0020 in strings of 64
	var texts []string
	var firsts []rune
	var sb strings.Builder
	n := 0
	var first rune
	flush := func() {
		if n > 0 {
			texts = append(texts, "a"+sb.String()+"b")
			firsts = append(firsts, first)
			sb.Reset()
			n = 0
		}
	}
	for cp := rune(0x20); cp <= 0x10FFFF; cp++ {
		if cp >= 0xD800 && cp <= 0xDFFF {
			continue
		}
		if n == 0 {
			first = cp
		}
		sb.WriteRune(cp)
		n++
		if n == 64 {
			flush()
		}
	}
	flush()
	chans := c13Channels()
	perDoc := 64
	if r.Quick() {
		// quick: the BMP, plane 1 and the last plane (every class of code point); thorough: all 17 planes
		var t2 []string
		var f2 []rune
		for i, f := range firsts {
			if f < 0x20000 || f >= 0x10FF00 || (f >= 0xE0000 && f < 0xE0200) || (f >= 0xF0000 && f < 0xF0100) {
				t2 = append(t2, texts[i])
				f2 = append(f2, f)
			}
		}
		texts, firsts = t2, f2
	}
	r.Note("end_to_end_strings_of_64_scalars", len(texts))
	type job struct {
		ch   int
		from int
	}
	var jobs []job
	for ci, ch := range chans {
		step := perDoc
		if ch.name == "annotation contents" {
			step = 16 // one API call per annotation
		}
		for i := 0; i < len(texts); i += step {
			jobs = append(jobs, job{ci, i})
		}
	}
	core.ParFor(len(jobs), func(ji int) {
		if r.Expired() {
			return
		}
		j := jobs[ji]
		ch := chans[j.ch]
		step := perDoc
		if ch.name == "annotation contents" {
			step = 16
		}
		to := j.from + step
		if to > len(texts) {
			to = len(texts)
		}
		batch := append([]string{}, texts[j.from:to]...)
		if ch.skip != nil {
			for i, t := range batch {
				batch[i] = strings.Map(func(c rune) rune {
					if ch.skip(c) {
						return -1
					}
					return c
				}, t)
			}
		}
		doc, err := ch.store(base, batch)
		r.Eval(int64(len(batch)))
		r.Nontrivial(int64(len(batch)))
		rep := map[string]any{"channel": ch.name, "first_scalar": fmt.Sprintf("U+%04X", firsts[j.from]), "strings": len(batch)}
		if err != nil {
			r.Violation("e2e:store-failed:"+ch.name+":"+c13Block(firsts[j.from]), fmt.Sprintf("%s: storing strings starting at U+%04X failed: %v", ch.name, firsts[j.from], err), rep)
			return
		}
		got, err := ch.load(doc, len(batch))
		if err != nil {
			r.Violation("e2e:load-failed:"+ch.name+":"+c13Block(firsts[j.from]), fmt.Sprintf("%s: reading back strings starting at U+%04X failed: %v", ch.name, firsts[j.from], err), rep)
			return
		}
		want := batch
		if ch.name == "keyword" {
			// order is not part of the channel
			want = append([]string{}, batch...)
			sort.Strings(want)
			got = append([]string{}, got...)
			sort.Strings(got)
		}
		for i := range want {
			g := ""
			if i < len(got) {
				g = got[i]
			}
			if g != want[i] {
				// first differing scalar
				wr, gr := []rune(want[i]), []rune(g)
				k := 0
				for k < len(wr) && k < len(gr) && wr[k] == gr[k] {
					k++
				}
				cp := rune(0)
				if k < len(wr) {
					cp = wr[k]
				}
				r.Violation("e2e:text-changed:"+ch.name+":"+c13Block(cp), fmt.Sprintf("%s: text containing U+%04X does not read back unchanged (stored %d scalars, read %d; first difference at U+%04X)", ch.name, cp, len(wr), len(gr), cp), rep)
				return
			}
		}
	})
	c13Encrypted(r, base)
}

// c13Encrypted: the property-value channel through an ENCRYPTED document (stored, then encrypted with each
// algorithm, then listed with the password): every text length from 1 to 24 UTF-16 code units (so that BOM +
// text hits every alignment to the 16-byte cipher block) x a final character from a set whose last stored
// byte ranges over padding-like values (U+0101, U+3002, U+010D, U+0410, U+200D, U+1F601 -> low surrogate DE01)
// and ordinary ones.
func c13Encrypted(r *core.R, base []byte) {
	finals := []string{"z", "\u0101", "\u3002", "\u010d", "\u0410", "\u200d", "\U0001F601", "\u0110", "\u0210"}
	var texts []string
	for L := 1; L <= 24; L++ {
		for _, f := range finals {
			fu := 1
			if []rune(f)[0] >= 0x10000 {
				fu = 2
			}
			if L < fu {
				continue
			}
			texts = append(texts, strings.Repeat("\u3042", L-fu)+f) // hiragana A forces UTF-16 storage
		}
	}
	type alg struct {
		name string
		aes  bool
		bits int
	}
	for _, a := range []alg{{"RC4-128", false, 128}, {"AES-128", true, 128}, {"AES-256", true, 256}} {
		for from := 0; from < len(texts); from += 64 {
			to := from + 64
			if to > len(texts) {
				to = len(texts)
			}
			batch := texts[from:to]
			m := map[string]string{}
			for i, t := range batch {
				m[fmt.Sprintf("K%03d", i)] = t
			}
			r.Eval(int64(len(batch)))
			r.Nontrivial(int64(len(batch)))
			rep := map[string]any{"channel": "document property value, encrypted " + a.name, "from": from}
			var d1, d2 bytes.Buffer
			if err := api.AddProperties(bytes.NewReader(base), &d1, m, newConf()); err != nil {
				r.Violation("e2e:store-failed:encrypted:"+a.name, fmt.Sprintf("AddProperties: %v", err), rep)
				continue
			}
			c := newConf()
			c.UserPW, c.OwnerPW, c.EncryptUsingAES, c.EncryptKeyLength = "u", "o", a.aes, a.bits
			if err := api.Encrypt(bytes.NewReader(d1.Bytes()), &d2, c); err != nil {
				r.Violation("e2e:store-failed:encrypted:"+a.name, fmt.Sprintf("Encrypt: %v", err), rep)
				continue
			}
			c2 := newConf()
			c2.UserPW = "u"
			ps, err := api.Properties(bytes.NewReader(d2.Bytes()), c2)
			if err != nil {
				r.Violation("e2e:load-failed:encrypted:"+a.name, fmt.Sprintf("Properties on the %s-encrypted document: %v", a.name, err), rep)
				continue
			}
			for i, t := range batch {
				if g := ps[fmt.Sprintf("K%03d", i)]; g != t {
					if r.Want("e2e:text-changed:encrypted:" + a.name) {
						r.Violation("e2e:text-changed:encrypted:"+a.name, fmt.Sprintf("property value %+q (%d UTF-16 code units) reads back as %+q from the %s-encrypted document", t, len(utf16.Encode([]rune(t))), g, a.name), rep)
					}
					break
				}
			}
		}
	}
}

// c13Block names the class of a scalar for grouping findings.
func c13Block(cp rune) string {
	switch {
	case cp < 0x20:
		return "C0"
	case cp < 0x7f:
		return "ASCII"
	case cp < 0xA0:
		return "DEL-C1"
	case cp < 0x100:
		return "Latin-1"
	case cp >= 0x2000 && cp < 0x2070:
		return "general-punctuation"
	case cp >= 0xE000 && cp < 0xF900:
		return "private-use"
	case cp >= 0xFFF0 && cp <= 0xFFFF:
		return "specials"
	case cp < 0x10000:
		return "BMP"
	case cp >= 0xF0000:
		return "private-use-planes"
	}
	return fmt.Sprintf("plane-%d", cp>>16)
}
