package props

import (
	"fmt"
	"sort"
	"strings"

	"github.com/pdfcpu/pdfcpu/pkg/api"
	"verif/mc/core"
	"verif/mc/pagesel"
)

// C31: page selections mean exactly what the selection syntax says.
func init() {
	core.Register(&core.Check{
		ID:    "C31",
		Level: "exploration",
		Rule: "semantics: page counts 0..40 x every expression of 1 and 2 terms (terms = even, odd, and {plain,!,n} x the 11 forms #, -#, #-, #-#, l, l-#, l-#-, -l, -l-#, #-l, #-l-# with numbers from {0,1,2,pc-1,pc,pc+1,99}); 3-term expressions for page counts {0,1,2,7} over the reduced number set {0,1,pc,pc+1} and negation marker '!' only (thorough: all page counts 0..40); checked for PagesForPageSelection, RemainingPagesForPageRemoval, PagesForPageCollection against an independent evaluator; syntax: every string of <=5 (thorough 6) tokens over {0,1,-,l,!,n,',',even,odd,x,space}: accepted iff in the grammar; " +
			"non-trivial = an expression with >=2 terms, or a term whose page set is clipped by the page count",
		Assume: []string{"inside page collections a negated term is read as removing every occurrence of its pages collected so far (the statement says a negated term deselects its pages)"},
		Run:    runC31,
	})
}

func c31terms(pc int, nums []int, negs ...string) []string {
	if len(negs) == 0 {
		negs = []string{"", "!", "n"}
	}
	seen := map[string]bool{}
	var out []string
	add := func(s string) {
		if !seen[s] {
			seen[s] = true
			out = append(out, s)
		}
	}
	add("even")
	add("odd")
	for _, neg := range negs {
		add(neg + "l")
		add(neg + "-l")
		for _, a := range nums {
			add(fmt.Sprintf("%s%d", neg, a))
			add(fmt.Sprintf("%s-%d", neg, a))
			add(fmt.Sprintf("%s%d-", neg, a))
			add(fmt.Sprintf("%sl-%d", neg, a))
			add(fmt.Sprintf("%sl-%d-", neg, a))
			add(fmt.Sprintf("%s-l-%d", neg, a))
			add(fmt.Sprintf("%s%d-l", neg, a))
			for _, b := range nums {
				add(fmt.Sprintf("%s%d-%d", neg, a, b))
				add(fmt.Sprintf("%s%d-l-%d", neg, a, b))
			}
		}
	}
	return out
}

func numsFor(pc int, reduced bool) []int {
	cand := []int{0, 1, 2, pc - 1, pc, pc + 1, 99}
	if reduced {
		cand = []int{0, 1, pc, pc + 1}
	}
	seen := map[int]bool{}
	var out []int
	for _, c := range cand {
		if c >= 0 && !seen[c] {
			seen[c] = true
			out = append(out, c)
		}
	}
	sort.Ints(out)
	return out
}

func sameSet(a, b map[int]bool) bool {
	if len(a) != len(b) {
		return false
	}
	for k := range a {
		if !b[k] {
			return false
		}
	}
	return true
}

func sameInts(a, b []int) bool {
	if len(a) != len(b) {
		return false
	}
	for i := range a {
		if a[i] != b[i] {
			return false
		}
	}
	return true
}

func setString(m map[int]bool) string {
	var ps []int
	for p, v := range m {
		if v {
			ps = append(ps, p)
		}
	}
	sort.Ints(ps)
	return fmt.Sprint(ps)
}

// c31class is the finding key class of an expression: the forms of its terms.
func c31class(expr string) string {
	var cs []string
	for _, t := range strings.Split(expr, ",") {
		f := strings.TrimLeft(t, "!n")
		var b strings.Builder
		prevDigit := false
		for _, c := range f {
			if c >= '0' && c <= '9' {
				if !prevDigit {
					b.WriteByte('#')
				}
				prevDigit = true
			} else {
				b.WriteRune(c)
				prevDigit = false
			}
		}
		cs = append(cs, b.String())
	}
	return strings.Join(cs, ",")
}

func c31eval(r *core.R, pc int, expr string, nontrivial bool) {
	r.Eval(1)
	if nontrivial {
		r.Nontrivial(1)
	}
	terms, ok := pagesel.Parse(expr)
	if !ok {
		r.HarnessError("generated expression %q not in reference grammar", expr)
		return
	}
	rep := func() any { return map[string]any{"page_count": pc, "expression": expr} }
	toks, err := api.ParsePageSelection(expr)
	if err != nil {
		key := "syntax:rejects-valid:" + c31class(expr)
		if r.Want(key) {
			r.Violation(key, fmt.Sprintf("ParsePageSelection(%q) rejected a valid expression: %v", expr, err), rep())
		}
		return
	}
	want := pagesel.Select(terms, pc)
	got, err := api.PagesForPageSelection(pc, toks, false, false)
	if err != nil {
		key := "select:error:" + c31class(expr)
		if r.Want(key) {
			r.Violation(key, fmt.Sprintf("PagesForPageSelection(%d, %q): %v", pc, expr, err), rep())
		}
	} else {
		gs := map[int]bool{}
		oor := false
		for p, v := range got {
			if v {
				gs[p] = true
				if p < 1 || p > pc {
					oor = true
				}
			}
		}
		if oor {
			key := "select:page-out-of-range:" + c31class(expr)
			if r.Want(key) {
				r.Violation(key, fmt.Sprintf("PagesForPageSelection(%d, %q) selects %s: outside 1..%d", pc, expr, setString(gs), pc), rep())
			}
		} else if !sameSet(gs, want) {
			key := "select:wrong-pages:" + c31class(expr)
			if r.Want(key) {
				r.Violation(key, fmt.Sprintf("PagesForPageSelection(%d, %q) = %s, syntax says %s", pc, expr, setString(gs), setString(want)), rep())
			}
		}
	}
	// removal: remaining = all pages minus the selection
	rem, err := api.RemainingPagesForPageRemoval(pc, toks, false)
	if err == nil {
		wr := map[int]bool{}
		for p := 1; p <= pc; p++ {
			if !want[p] {
				wr[p] = true
			}
		}
		gr := map[int]bool{}
		for p, v := range rem {
			if v {
				gr[p] = true
			}
		}
		if !sameSet(gr, wr) {
			key := "remove:wrong-remaining:" + c31class(expr)
			if r.Want(key) {
				r.Violation(key, fmt.Sprintf("RemainingPagesForPageRemoval(%d, %q) = %s, syntax says %s", pc, expr, setString(gr), setString(wr)), rep())
			}
		}
	}
	// collection
	col, err := api.PagesForPageCollection(pc, toks)
	wc, plain := pagesel.Collect(terms, pc)
	if err != nil {
		if plain && len(wc) > 0 {
			key := "collect:error:" + c31class(expr)
			if r.Want(key) {
				r.Violation(key, fmt.Sprintf("PagesForPageCollection(%d, %q): %v; syntax says %v", pc, expr, err, wc), rep())
			}
		}
		return
	}
	for _, p := range col {
		if p < 1 || p > pc {
			key := "collect:page-out-of-range:" + c31class(expr)
			if r.Want(key) {
				r.Violation(key, fmt.Sprintf("PagesForPageCollection(%d, %q) = %v: page %d outside 1..%d", pc, expr, col, p, pc), rep())
			}
			return
		}
	}
	if plain && !sameInts(col, wc) {
		key := "collect:wrong-pages:" + c31class(expr)
		if r.Want(key) {
			r.Violation(key, fmt.Sprintf("PagesForPageCollection(%d, %q) = %v, syntax says %v", pc, expr, col, wc), rep())
		}
	}
	if !plain {
		// "a term ... when negated, deselects its pages": every occurrence collected so far goes
		if wn := pagesel.CollectNeg(terms, pc); !sameInts(col, wn) {
			key := "collect:negation:" + c31class(expr)
			if r.Want(key) {
				r.Violation(key, fmt.Sprintf("PagesForPageCollection(%d, %q) = %v, but a negated term deselects every occurrence of its pages collected so far: %v", pc, expr, col, wn), rep())
			}
		}
	}
}

func runC31(r *core.R) {
	// semantics
	core.ParFor(41, func(pc int) {
		terms := c31terms(pc, numsFor(pc, false))
		for _, a := range terms {
			c31eval(r, pc, a, false)
			for _, b := range terms {
				c31eval(r, pc, a+","+b, true)
			}
		}
	})
	r.Sample(map[string]any{"page_count": 7, "expression": "n3-l-1,even"})
	pcs3 := []int{0, 1, 2, 7}
	if !r.Quick() {
		pcs3 = nil
		for pc := 0; pc <= 40; pc++ {
			pcs3 = append(pcs3, pc)
		}
	}
	for _, pc := range pcs3 {
		terms := c31terms(pc, numsFor(pc, true), "", "!")
		core.ParFor(len(terms), func(i int) {
			for _, b := range terms {
				for _, c := range terms {
					c31eval(r, pc, terms[i]+","+b+","+c, true)
				}
			}
		})
	}
	r.Sample(map[string]any{"page_count": 40, "expression": "1-l-40,!-3,odd"})
	// syntax: all token strings
	toks := []string{"0", "1", "-", "l", "!", "n", ",", "even", "odd", "x", " "}
	maxTok := 5
	if !r.Quick() {
		maxTok = 6
	}
	core.ParFor(len(toks)*len(toks), func(i int) {
		var rec func(cur string, depth int)
		rec = func(cur string, depth int) {
			r.Eval(1)
			_, want := pagesel.Parse(cur)
			tk, err := api.ParsePageSelection(cur)
			if err == nil {
				// rejection may also happen when the accepted tokens are evaluated
				if _, err = api.PagesForPageSelection(5, tk, false, false); err == nil {
					_, err = api.PagesForPageCollection(5, tk)
					if err != nil && err.Error() == "no page selected" {
						err = nil
					}
				}
			}
			if want {
				r.Nontrivial(1)
			}
			if want != (err == nil) {
				what := "rejects-valid"
				if !want {
					what = "accepts-invalid"
				}
				key := "syntax:" + what + ":" + c31class(cur)
				if r.Want(key) {
					r.Violation(key, fmt.Sprintf("ParsePageSelection(%q): err=%v, reference grammar says valid=%v", cur, err, want), map[string]any{"expression": cur})
				}
			}
			if depth == maxTok {
				return
			}
			for _, t := range toks {
				rec(cur+t, depth+1)
			}
		}
		rec(toks[i/len(toks)]+toks[i%len(toks)], 2)
	})
	for _, t := range toks {
		_, want := pagesel.Parse(t)
		tk, err := api.ParsePageSelection(t)
		if err == nil {
			_, err = api.PagesForPageSelection(5, tk, false, false)
		}
		r.Eval(1)
		if want != (err == nil) {
			r.Violation("syntax:single-token:"+t, fmt.Sprintf("ParsePageSelection(%q): err=%v, reference says valid=%v", t, err, want), map[string]any{"expression": t})
		}
	}
	r.Sample(map[string]any{"expression": "n1-l-0,even", "syntax_enumeration": fmt.Sprintf("all strings of <=%d tokens", maxTok)})
}
