package props

import (
	"bytes"
	"fmt"
	"image/color"
	"regexp"
	"strings"

	"github.com/pdfcpu/pdfcpu/pkg/api"
	"github.com/pdfcpu/pdfcpu/pkg/pdfcpu/model"
	"github.com/pdfcpu/pdfcpu/pkg/pdfcpu/types"
	"verif/mc/core"
	"verif/mc/docgen"
	"verif/mc/pdfx"
)

// C38: removing watermarks undoes adding them.
func init() {
	core.Register(&core.Check{
		ID:    "C38",
		Level: "exploration",
		Rule: "documents {3 pages single content stream, 3 pages with two content streams per page, a page without content, pages whose content already has q..Q, two pages sharing one content stream and one resources dictionary, pages inheriting /Resources and /MediaBox from an intermediate node} (unrotated) x kind {text, image, PDF} x {stamp, watermark} x position {tl, c, br} x scale {0.5 rel, 1 abs} x rotation {0, 45} x opacity {1, 0.5} x pages {all, 1, even, 1-2} (full product) and add -> add -> remove: HasWatermarks false before, true after adding, false after removal; after removal each page's decoded content equals the original up to whitespace and enclosing q/Q pairs, no Artifact/watermark XObject or ExtGState remains; " +
			"non-trivial = every case (each adds and removes real watermarks); cases where the last page is not watermarked exercise detection separately",
		Run: runC38,
	})
}

var qWrapRe = regexp.MustCompile(`^q (.*) Q$`)

// stripQ removes enclosing save/restore pairs.
func stripQ(s string) string {
	s = strings.TrimSpace(s)
	for {
		if s == "q Q" {
			return "" // a save/restore pair around nothing
		}
		m := qWrapRe.FindStringSubmatch(s)
		if m == nil {
			return s
		}
		// make sure the outer q/Q really match each other
		depth := 0
		ok := true
		toks := strings.Fields(m[1])
		for _, t := range toks {
			if t == "q" {
				depth++
			} else if t == "Q" {
				depth--
				if depth < 0 {
					ok = false
					break
				}
			}
		}
		if !ok || depth != 0 {
			return s
		}
		s = strings.TrimSpace(m[1])
	}
}

func runC38(r *core.R) {
	api.DisableConfigDir()
	docs := map[string][]byte{
		"single-stream": docgen.Marked(3, 0),
		"two-streams": docgen.Simple([]docgen.PageSpec{
			{Marker: 1, Contents: []string{docgen.MarkerContent(1), "0 0 m 10 10 l S\n"}},
			{Marker: 2, Contents: []string{docgen.MarkerContent(2), "0 0 m 20 20 l S\n"}},
			{Marker: 3, Contents: []string{docgen.MarkerContent(3), "0 0 m 30 30 l S\n"}},
		}, docgen.SimpleOpts{}).Bytes(),
		"empty-page": docgen.Simple([]docgen.PageSpec{{Marker: 1}, {Marker: 2, Contents: []string{}}, {Marker: 3}}, docgen.SimpleOpts{}).Bytes(),
		"shared-stream": c38SharedStreamDoc(),
		"inherited-resources": c38InheritedResourcesDoc(),
		"existing-q": docgen.Simple([]docgen.PageSpec{
			{Marker: 1, Contents: []string{"q " + docgen.MarkerContent(1) + " Q\n"}},
			{Marker: 2, Contents: []string{"q 0.5 0 0 0.5 0 0 cm " + docgen.MarkerContent(2) + " Q q 1 0 0 1 5 5 cm Q\n"}},
			{Marker: 3},
		}, docgen.SimpleOpts{}).Bytes(),
	}
	img := tinyPNG(8, 6, color.RGBA{10, 200, 10, 255})
	wmPDF := docgen.Marked(1, 900)
	type wcase struct {
		doc, kind, pos, scale, sel string
		onTop                      bool
		rot                        int
		op                         float64
	}
	var cases []wcase
	for dn := range docs {
		for _, kind := range []string{"text", "image", "pdf"} {
			for _, onTop := range []bool{true, false} {
				for _, pos := range []string{"tl", "c", "br"} {
					for _, scale := range []string{"0.5 rel", "1 abs"} {
						for _, rot := range []int{0, 45} {
							for _, op := range []float64{1, 0.5} {
								for _, sel := range []string{"", "1", "even", "1-2"} {
									if r.Quick() && !(pos == "c" || (scale == "0.5 rel" && rot == 0 && op == 1)) {
										continue
									}
									cases = append(cases, wcase{dn, kind, pos, scale, sel, onTop, rot, op})
								}
							}
						}
					}
				}
			}
		}
	}
	r.Note("cases", len(cases))
	view := func(b []byte) ([]string, *model.Context, []pdfx.Page, error) {
		ctx, err := pdfx.Read(b, nil)
		if err != nil {
			return nil, nil, nil, err
		}
		pgs, err := pdfx.Pages(ctx)
		if err != nil {
			return nil, nil, nil, err
		}
		var cs []string
		for _, p := range pgs {
			cs = append(cs, stripQ(pdfx.NormContent(p)))
		}
		return cs, ctx, pgs, nil
	}
	orig := map[string][]string{}
	for dn, b := range docs {
		cs, _, _, err := view(b)
		if err != nil {
			r.HarnessError("doc %s: %v", dn, err)
			return
		}
		orig[dn] = cs
		if ok, err := api.HasWatermarks(bytes.NewReader(b), newConf()); err != nil || ok {
			r.Violation("detect:false-positive:"+dn, fmt.Sprintf("HasWatermarks on the pristine %s document = %v, %v", dn, ok, err), map[string]any{"doc": dn})
		}
	}
	core.ParFor(len(cases), func(i int) {
		c := cases[i]
		desc := fmt.Sprintf("pos:%s, scale:%s, rot:%d, op:%g", c.pos, c.scale, c.rot, c.op)
		mk := func() (*model.Watermark, error) {
			switch c.kind {
			case "text":
				return api.TextWatermark("WM", desc, c.onTop, false, types.POINTS)
			case "image":
				return api.ImageWatermarkForReader(bytes.NewReader(img), desc, c.onTop, false, types.POINTS)
			default:
				return api.PDFWatermarkForReadSeeker(bytes.NewReader(wmPDF), 1, desc, c.onTop, false, types.POINTS)
			}
		}
		rep := map[string]any{"doc": c.doc, "kind": c.kind, "onTop": c.onTop, "desc": desc, "pages": c.sel}
		class := fmt.Sprintf("%s:onTop=%v", c.kind, c.onTop)
		r.Eval(1)
		r.Nontrivial(1)
		wm, err := mk()
		if err != nil {
			r.HarnessError("watermark config %q: %v", desc, err)
			return
		}
		var d1 bytes.Buffer
		pv, _ := core.Try(func() { err = api.AddWatermarks(bytes.NewReader(docs[c.doc]), &d1, selArg(c.sel), wm, newConf()) })
		if pv != nil || err != nil {
			key := "add:failed:" + class
			if r.Want(key) {
				r.Violation(key, fmt.Sprintf("AddWatermarks(%v): %v %v", rep, err, pv), rep)
			}
			return
		}
		if ok, err := api.HasWatermarks(bytes.NewReader(d1.Bytes()), newConf()); err != nil || !ok {
			key := "detect:missed:" + class + ":pages=" + c.sel
			if r.Want(key) {
				r.Violation(key, fmt.Sprintf("HasWatermarks after adding (%v) = %v, %v", rep, ok, err), rep)
			}
		}
		var d2 bytes.Buffer
		pv, _ = core.Try(func() { err = api.RemoveWatermarks(bytes.NewReader(d1.Bytes()), &d2, nil, newConf()) })
		if pv != nil || err != nil {
			key := "remove:failed:" + class
			if r.Want(key) {
				r.Violation(key, fmt.Sprintf("RemoveWatermarks after (%v): %v %v", rep, err, pv), rep)
			}
			return
		}
		if ok, err := api.HasWatermarks(bytes.NewReader(d2.Bytes()), newConf()); err != nil || ok {
			key := "detect:after-removal:" + class
			if r.Want(key) {
				r.Violation(key, fmt.Sprintf("HasWatermarks after removal (%v) = %v, %v", rep, ok, err), rep)
			}
		}
		cs, ctx, pgs, err := view(d2.Bytes())
		if err != nil {
			r.Violation("remove:unreadable:"+class, fmt.Sprintf("after removal (%v): %v", rep, err), rep)
			return
		}
		if len(cs) != len(orig[c.doc]) {
			r.Violation("remove:page-count:"+class, fmt.Sprintf("after removal (%v): %d pages", rep, len(cs)), rep)
			return
		}
		for pi := range cs {
			if cs[pi] != orig[c.doc][pi] {
				key := "remove:content-differs:" + class + ":" + c.doc
				if r.Want(key) {
					r.Violation(key, fmt.Sprintf("after add+remove (%v) page %d content is %q, original %q", rep, pi+1, trimTo(cs[pi], 300), trimTo(orig[c.doc][pi], 300)), rep)
				}
			}
			res := "none"
			if pgs[pi].Resources != nil {
				res = pdfx.Canon(ctx, pgs[pi].Resources, nil)
			}
			if strings.Contains(res, "Watermark") || strings.Contains(res, "/Artifact") || strings.Contains(cs[pi], "/Artifact") {
				key := "remove:leftover:" + class
				if r.Want(key) {
					r.Violation(key, fmt.Sprintf("after add+remove (%v) page %d still references a watermark/artifact: content %q resources %s", rep, pi+1, trimTo(cs[pi], 200), trimTo(res, 300)), rep)
				}
			}
		}
		if i%997 == 0 {
			r.Sample(rep)
		}
	})
	// add -> add -> remove: both orders of background watermark and stamp, the second one on all pages or on page 1
	for dn, b := range docs {
		for _, top1 := range []bool{false, true} {
			for _, top2 := range []bool{false, true} {
				for _, sel2 := range [][]string{nil, {"1"}} {
					wm1, _ := api.TextWatermark("ONE", "pos:tl", top1, false, types.POINTS)
					wm2, _ := api.TextWatermark("TWO", "pos:br", top2, false, types.POINTS)
					var d1, d2, d3 bytes.Buffer
					r.Eval(1)
					r.Nontrivial(1)
					cfg := fmt.Sprintf("%s: first onTop=%v, second onTop=%v on %v", dn, top1, top2, sel2)
					rep := map[string]any{"doc": dn, "first_on_top": top1, "second_on_top": top2, "second_selection": sel2}
					var err error
					if pv, _ := core.Try(func() { err = api.AddWatermarks(bytes.NewReader(b), &d1, nil, wm1, newConf()) }); pv != nil || err != nil {
						r.Violation("addadd:first-failed", fmt.Sprintf("%s: %v %v", cfg, err, pv), rep)
						continue
					}
					if pv, _ := core.Try(func() { err = api.AddWatermarks(bytes.NewReader(d1.Bytes()), &d2, sel2, wm2, newConf()) }); pv != nil {
						r.Violation("addadd:second-add-panicked", fmt.Sprintf("%s: %v", cfg, pv), rep)
						continue
					} else if err != nil {
						r.Count("second_add_refused", 1)
						d2 = d1
					}
					if pv, _ := core.Try(func() { err = api.RemoveWatermarks(bytes.NewReader(d2.Bytes()), &d3, nil, newConf()) }); pv != nil || err != nil {
						if r.Want("addadd:remove-failed") {
							r.Violation("addadd:remove-failed", fmt.Sprintf("%s: %v %v", cfg, err, pv), rep)
						}
						continue
					}
					cs, _, _, err := view(d3.Bytes())
					if err != nil || fmt.Sprint(cs) != fmt.Sprint(orig[dn]) {
						if r.Want("addadd:content-differs:" + dn) {
							r.Violation("addadd:content-differs:"+dn, fmt.Sprintf("%s after add,add,remove: %q vs original %q (%v)", cfg, cs, orig[dn], err), rep)
						}
					}
				}
			}
		}
	}
}

// c38SharedStreamDoc: three pages; pages 1 and 2 refer to the SAME content stream object and the same
// resources dictionary object (as files assembled from a template do), page 3 has its own.
func c38SharedStreamDoc() []byte {
	d := docgen.New()
	cat, pages := d.Reserve(), d.Reserve()
	font := d.Add("<</Type/Font/Subtype/Type1/BaseFont/Helvetica/Encoding/WinAnsiEncoding>>")
	res := d.Add(fmt.Sprintf("<</Font<</F1 %s>>>>", docgen.Ref(font)))
	shared := d.AddStream("<<>>", []byte(docgen.MarkerContent(1)))
	own := d.AddStream("<<>>", []byte(docgen.MarkerContent(3)))
	p1 := d.Add(fmt.Sprintf("<</Type/Page/Parent %s/Resources %s/Contents %s>>", docgen.Ref(pages), docgen.Ref(res), docgen.Ref(shared)))
	p2 := d.Add(fmt.Sprintf("<</Type/Page/Parent %s/Resources %s/Contents[%s]>>", docgen.Ref(pages), docgen.Ref(res), docgen.Ref(shared)))
	p3 := d.Add(fmt.Sprintf("<</Type/Page/Parent %s/Resources %s/Contents %s>>", docgen.Ref(pages), docgen.Ref(res), docgen.Ref(own)))
	d.Set(pages, fmt.Sprintf("<</Type/Pages/Kids[%s %s %s]/Count 3/MediaBox[0 0 595 842]>>", docgen.Ref(p1), docgen.Ref(p2), docgen.Ref(p3)))
	d.Set(cat, fmt.Sprintf("<</Type/Catalog/Pages %s>>", docgen.Ref(pages)))
	d.Root = cat
	return d.Bytes()
}

// c38InheritedResourcesDoc: pages 1 and 2 sit under an intermediate /Pages node and have no /Resources and no
// /MediaBox of their own (both inherited from that node; page 2 has two content streams); page 3 carries its own.
func c38InheritedResourcesDoc() []byte {
	d := docgen.New()
	cat, root, node := d.Reserve(), d.Reserve(), d.Reserve()
	font := d.Add("<</Type/Font/Subtype/Type1/BaseFont/Helvetica/Encoding/WinAnsiEncoding>>")
	c1 := d.AddStream("<<>>", []byte(docgen.MarkerContent(1)))
	c2a := d.AddStream("<<>>", []byte(docgen.MarkerContent(2)))
	c2b := d.AddStream("<<>>", []byte("0 0 m 20 20 l S\n"))
	c3 := d.AddStream("<<>>", []byte(docgen.MarkerContent(3)))
	p1 := d.Add(fmt.Sprintf("<</Type/Page/Parent %s/Contents %s>>", docgen.Ref(node), docgen.Ref(c1)))
	p2 := d.Add(fmt.Sprintf("<</Type/Page/Parent %s/Contents[%s %s]>>", docgen.Ref(node), docgen.Ref(c2a), docgen.Ref(c2b)))
	p3 := d.Add(fmt.Sprintf("<</Type/Page/Parent %s/MediaBox[0 0 595 842]/Resources<</Font<</F1 %s>>>>/Contents %s>>", docgen.Ref(root), docgen.Ref(font), docgen.Ref(c3)))
	d.Set(node, fmt.Sprintf("<</Type/Pages/Parent %s/Kids[%s %s]/Count 2/MediaBox[0 0 595 842]/Resources<</Font<</F1 %s>>>>>>", docgen.Ref(root), docgen.Ref(p1), docgen.Ref(p2), docgen.Ref(font)))
	d.Set(root, fmt.Sprintf("<</Type/Pages/Kids[%s %s]/Count 3>>", docgen.Ref(node), docgen.Ref(p3)))
	d.Set(cat, fmt.Sprintf("<</Type/Catalog/Pages %s>>", docgen.Ref(root)))
	d.Root = cat
	return d.Bytes()
}
