package props

import (
	"bytes"
	"fmt"
	"strings"

	"github.com/pdfcpu/pdfcpu/pkg/api"
	"github.com/pdfcpu/pdfcpu/pkg/pdfcpu"
	"github.com/pdfcpu/pdfcpu/pkg/pdfcpu/model"
	"github.com/pdfcpu/pdfcpu/pkg/pdfcpu/types"
	"verif/mc/core"
	"verif/mc/docgen"
	"verif/mc/pdfx"
)

// C34: booklet and n-up imposition place every selected page exactly once.
func init() {
	core.Register(&core.Check{
		ID:    "C34",
		Level: "exploration",
		Rule: "booklet: every configuration PDFBookletConfig accepts out of N {2,4,6,8} x type {booklet, bookletadvanced, perfectbound} x binding {long, short} x form {A4, A4L} x multifolio {off, on with folio size 1..12}, x selected page count 1..64 (thorough 1..200) x selection shape {1..k, every second page}: the ordering function must place every selected page exactly once, blanks elsewhere, slot count a multiple of 2N; n-up N in {2,3,4,8,9,12,16} and grid rows x cols in 1..3 (thorough 1..5) end-to-end through api.NUp on marked documents of 1..12 (20) pages: ceil(k/cells) output pages with the markers in order; " +
			"non-trivial = a case whose page count is not a multiple of the sheet/cell capacity (padding logic is exercised)",
		Run: runC34,
	})
}

func runC34(r *core.R) {
	maxPages := 64
	if !r.Quick() {
		maxPages = 200
	}
	type cfg struct {
		n    int
		desc string
	}
	var cfgs []cfg
	for _, n := range []int{2, 4, 6, 8} {
		for _, bt := range []string{"booklet", "bookletadvanced", "perfectbound"} {
			for _, bd := range []string{"long", "short"} {
				for _, form := range []string{"A4", "A4L"} {
					base := fmt.Sprintf("formsize:%s, btype:%s, binding:%s", form, bt, bd)
					cfgs = append(cfgs, cfg{n, base})
					for fs := 1; fs <= 12; fs++ {
						cfgs = append(cfgs, cfg{n, fmt.Sprintf("%s, multifolio:on, foliosize:%d", base, fs)})
					}
				}
			}
		}
	}
	r.Note("booklet_configurations_tried", len(cfgs))
	core.ParFor(len(cfgs), func(ci int) {
		c := cfgs[ci]
		nup, err := pdfcpu.PDFBookletConfig(c.n, c.desc, model.NewDefaultConfiguration())
		if err != nil {
			r.Count("booklet_configurations_refused", 1)
			return
		}
		r.Count("booklet_configurations_accepted", 1)
		class := fmt.Sprintf("n=%d,%s,multifolio=%v", c.n, map[model.BookletType]string{model.Booklet: "booklet", model.BookletAdvanced: "bookletadvanced", model.BookletPerfectBound: "perfectbound"}[nup.BookletType], nup.MultiFolio)
		if nup.MultiFolio {
			// the known multi-folio defects depend on whether a signature (4 x folio size pages) is a whole number
			// of sheets (2N pages): keyed separately so that configurations that hold today stay guarded
			whole := (4*nup.FolioSize)%(2*c.n) == 0
			class += fmt.Sprintf(",signature-is-whole-sheets=%v", whole)
		}
		for k := 1; k <= maxPages; k++ {
			for shape := 0; shape < 2; shape++ {
				pages := types.IntSet{}
				for i := 1; i <= k; i++ {
					if shape == 0 {
						pages[i] = true
					} else {
						pages[2*i] = true
					}
				}
				r.Eval(1)
				if k%(2*c.n) != 0 {
					r.Nontrivial(1)
				}
				var ord []model.BookletPage
				pv, _ := core.Try(func() { ord = pdfcpu.VerifBookletOrdering(pages, nup) })
				rep := func() any {
					return map[string]any{"n": c.n, "desc": c.desc, "selected_pages": k, "shape": []string{"1..k", "2,4,..,2k"}[shape]}
				}
				if pv != nil {
					key := "booklet:panic:" + class
					if r.Want(key) {
						r.Violation(key, fmt.Sprintf("booklet ordering panicked for n=%d %q with %d selected pages: %v", c.n, c.desc, k, pv), rep())
					}
					continue
				}
				count := map[int]int{}
				for _, bp := range ord {
					count[bp.Number]++
				}
				bad := ""
				for p := range pages {
					if count[p] != 1 {
						bad = fmt.Sprintf("page %d placed %d times", p, count[p])
						break
					}
				}
				if bad == "" {
					for p, cnt := range count {
						if p != 0 && !pages[p] {
							bad = fmt.Sprintf("unselected page %d placed %d times", p, cnt)
						}
					}
				}
				if bad == "" && len(ord)%(2*c.n) != 0 {
					bad = fmt.Sprintf("%d slots is not a whole number of sheets (2N=%d)", len(ord), 2*c.n)
				}
				if bad != "" {
					key := "booklet:misplaced:" + class
					if r.Want(key) {
						r.Violation(key, fmt.Sprintf("booklet n=%d %q with %d selected pages: %s", c.n, c.desc, k, bad), rep())
					}
				}
			}
		}
	})
	r.Sample(map[string]any{"n": 4, "desc": "formsize:A4, btype:bookletadvanced, binding:long", "selected_pages": 13})
	// n-up and grid end-to-end
	maxDoc := 12
	maxGrid := 3
	if !r.Quick() {
		maxDoc, maxGrid = 20, 5
	}
	type ncase struct {
		kind       string
		n, rows, cols int
	}
	var ncs []ncase
	for _, n := range []int{2, 3, 4, 8, 9, 12, 16} {
		ncs = append(ncs, ncase{"nup", n, 0, 0})
	}
	for rows := 1; rows <= maxGrid; rows++ {
		for cols := 1; cols <= maxGrid; cols++ {
			ncs = append(ncs, ncase{"grid", 0, rows, cols})
		}
	}
	docs := make([][]byte, maxDoc+1)
	for k := 1; k <= maxDoc; k++ {
		docs[k] = docgen.Marked(k, 0)
	}
	core.ParFor(len(ncs), func(i int) {
		nc := ncs[i]
		for k := 1; k <= maxDoc; k++ {
			conf := newConf()
			var nup *model.NUp
			var err error
			cells := nc.n
			if nc.kind == "nup" {
				nup, err = api.PDFNUpConfig(nc.n, "", conf)
			} else {
				nup, err = api.PDFGridConfig(nc.rows, nc.cols, "", conf)
				cells = nc.rows * nc.cols
			}
			if err != nil {
				r.HarnessError("config %v: %v", nc, err)
				return
			}
			r.Eval(1)
			if k%cells != 0 {
				r.Nontrivial(1)
			}
			var out bytes.Buffer
			var opErr error
			pv, _ := core.Try(func() { opErr = api.NUp(bytes.NewReader(docs[k]), &out, nil, nil, nup, conf) })
			rep := map[string]any{"kind": nc.kind, "n": nc.n, "rows": nc.rows, "cols": nc.cols, "pages": k}
			class := fmt.Sprintf("%s:%d/%dx%d", nc.kind, nc.n, nc.rows, nc.cols)
			if pv != nil || opErr != nil {
				r.Violation("nup:failed:"+class, fmt.Sprintf("%v on %d pages failed: %v %v", nc, k, opErr, pv), rep)
				continue
			}
			ctx, err := pdfx.Read(out.Bytes(), nil)
			if err != nil {
				r.Violation("nup:unreadable:"+class, fmt.Sprintf("%v on %d pages: output unreadable: %v", nc, k, err), rep)
				continue
			}
			pgs, err := pdfx.Pages(ctx)
			if err != nil {
				r.Violation("nup:unreadable:"+class, fmt.Sprintf("%v on %d pages: %v", nc, k, err), rep)
				continue
			}
			want := (k + cells - 1) / cells
			if nc.kind == "grid" {
				// a grid places each input page on its own cell of a rows x cols sheet
			}
			var seq []int
			for _, p := range pgs {
				seq = append(seq, pdfx.Markers(ctx, p)...)
			}
			var ws []int
			for m := 1; m <= k; m++ {
				ws = append(ws, m)
			}
			if len(pgs) != want {
				key := "nup:page-count:" + class
				if r.Want(key) {
					r.Violation(key, fmt.Sprintf("%v on %d pages gives %d output pages, want ceil(%d/%d)=%d", nc, k, len(pgs), k, cells, want), rep)
				}
			} else if fmt.Sprint(seq) != fmt.Sprint(ws) {
				key := "nup:order:" + class
				if r.Want(key) {
					r.Violation(key, fmt.Sprintf("%v on %d pages places markers %v, want %v", nc, k, seq, ws), rep)
				}
			}
		}
	})
	r.Sample(map[string]any{"kind": "grid", "rows": 2, "cols": 3, "pages": 7})
	_ = strings.Join
}
