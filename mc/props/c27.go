package props

import (
	"encoding/hex"
	"fmt"
	"os"
	"path/filepath"
	"regexp"
	"sort"
	"strings"

	"github.com/pdfcpu/pdfcpu/pkg/api"
	"verif/mc/core"
	"verif/mc/sigdoc"
)

// C27: tampering with signed bytes is never reported as a valid signature.
func init() {
	core.Register(&core.Check{
		ID:    "C27",
		Level: "exploration",
		Rule: "signed documents are built by the harness with fresh keys (adbe.x509.rsa_sha1, adbe.pkcs7.detached, adbe.pkcs7.sha1, ETSI.CAdES.detached, ETSI.RFC3161 document timestamp; one and two signatures) and validated at two seams: the public api.ValidateSignaturesRaw and the exported per-SubFilter validators of pkg/pdfcpu/sign (trust root injected); tampering alphabet: EVERY byte offset inside the signed ranges x bit flips (thorough: all 8 bits; quick: bit 0 at every offset and all 8 bits at every 16th), every hex digit of /Contents x 2 replacement digits (edits that leave the decoded signature value unchanged - case, zero padding - are not modifications and are skipped), each /ByteRange element +-{1,2,16} without re-signing; oracle: for a signature whose ranges cover the edit, no variant yields Status valid or DocModified false at either seam (unreadable documents count as rejected); vacuity guard: every untampered document reports DocModified false at the validator seam; " +
			"non-trivial = a tampered variant that was still readable and judged by a validator",
		Assume:   []string{"through the public API form signatures currently never report DocModified=false even when untouched (the evidence states how many baselines are non-vacuous per seam)", "offline: revocation status cannot conclude, so Status is at best unknown; DocModified is the discriminating observation"},
		Run:      runC27,
		RunShard: c27shard,
	})
}

type c27Doc struct {
	name string
	opt  sigdoc.Options
}

func c27Docs() []c27Doc {
	var ds []c27Doc
	for _, k := range sigdoc.Kinds {
		ds = append(ds, c27Doc{k, sigdoc.Options{SubFilter: k}})
	}
	ds = append(ds, c27Doc{"adbe.pkcs7.detached+exact,contents-last", sigdoc.Options{SubFilter: "adbe.pkcs7.detached", Exact: true, ContentsLast: true}})
	// RSASSA-PSS signers (valid, and what newer signing software produces; none of the repository's samples has one)
	for _, k := range []string{"adbe.pkcs7.detached", "ETSI.CAdES.detached", "adbe.pkcs7.sha1", "ETSI.RFC3161"} {
		ds = append(ds, c27Doc{k + ",RSASSA-PSS", sigdoc.Options{SubFilter: k, PSS: true}})
	}
	ds = append(ds, c27Doc{"adbe.pkcs7.detached then ETSI.CAdES.detached", sigdoc.Options{SubFilter: "adbe.pkcs7.detached", Second: "ETSI.CAdES.detached"}})
	ds = append(ds, c27Doc{"ETSI.CAdES.detached then ETSI.RFC3161", sigdoc.Options{SubFilter: "ETSI.CAdES.detached", Second: "ETSI.RFC3161"}})
	return ds
}

type c27Variant struct {
	kind   string // flip | contents | byterange
	off    int64
	bit    int
	digit  byte
	sig    int
	brIdx  int
	brDiff int64
}

func (v c27Variant) String() string {
	switch v.kind {
	case "flip":
		return fmt.Sprintf("flip bit %d of byte %d", v.bit, v.off)
	case "contents":
		return fmt.Sprintf("hex digit at %d of signature %d := %c", v.off, v.sig+1, v.digit)
	}
	return fmt.Sprintf("ByteRange[%d] of signature %d %+d", v.brIdx, v.sig+1, v.brDiff)
}

func covers(s sigdoc.SigInfo, off int64) bool {
	br := s.ByteRange
	return (off >= br[0] && off < br[0]+br[1]) || (off >= br[2] && off < br[2]+br[3])
}

// hexValue decodes a PDF hex string body (whitespace ignored, odd digit count padded with 0).
func hexValue(b []byte) ([]byte, bool) {
	var ds []byte
	for _, c := range b {
		switch {
		case c == ' ' || c == '\n' || c == '\r' || c == '\t' || c == '\f' || c == 0:
		case (c >= '0' && c <= '9') || (c >= 'a' && c <= 'f') || (c >= 'A' && c <= 'F'):
			ds = append(ds, c)
		default:
			return nil, false
		}
	}
	if len(ds)%2 == 1 {
		ds = append(ds, '0')
	}
	out, err := hex.DecodeString(string(ds))
	return out, err == nil
}

func trimZeros(b []byte) []byte {
	for len(b) > 0 && b[len(b)-1] == 0 {
		b = b[:len(b)-1]
	}
	return b
}

func c27Variants(d *sigdoc.Doc, thorough bool) []c27Variant {
	var vs []c27Variant
	n := int64(len(d.Bytes))
	for off := int64(0); off < n; off++ {
		in := false
		for _, s := range d.Sigs {
			if covers(s, off) {
				in = true
			}
		}
		if !in {
			continue
		}
		if thorough || off%16 == 0 {
			for bit := 0; bit < 8; bit++ {
				vs = append(vs, c27Variant{kind: "flip", off: off, bit: bit})
			}
		} else {
			vs = append(vs, c27Variant{kind: "flip", off: off, bit: 0})
		}
	}
	for si, s := range d.Sigs {
		step := int64(1)
		if !thorough {
			step = 3
		}
		for off := s.ContentsStart + 1; off < s.ContentsEnd-1; off += step {
			for _, dg := range []byte{'1', 'e'} {
				if d.Bytes[off] != dg {
					vs = append(vs, c27Variant{kind: "contents", off: off, digit: dg, sig: si})
				}
			}
		}
		for i := 0; i < 4; i++ {
			for _, df := range []int64{-16, -2, -1, 1, 2, 16} {
				vs = append(vs, c27Variant{kind: "byterange", sig: si, brIdx: i, brDiff: df})
			}
		}
	}
	return vs
}

func runC27(r *core.R) {
	api.DisableConfigDir()
	core.Sharded(r, 16)
}

func c27shard(r *core.R, shard, n int) {
	api.DisableConfigDir()
	defer sigdoc.Cleanup()
	for _, dd := range c27Docs() {
		doc, err := sigdoc.Build(dd.opt)
		if err != nil {
			r.HarnessError("build %s: %v", dd.name, err)
			continue
		}
		// baselines
		seam0, err := sigdoc.ValidateSeam(doc.Bytes)
		if err != nil || len(seam0) != len(doc.Sigs) {
			r.HarnessError("%s: baseline at the validator seam: %v (%d verdicts)", dd.name, err, len(seam0))
			continue
		}
		api0, aerr := sigdoc.ValidateAPI(doc.Bytes)
		if shard == 0 {
			for i, v := range seam0 {
				r.Eval(1)
				if v.DocModified != "false" {
					r.HarnessError("%s: untampered signature %d is not reported unmodified at the validator seam: %s", dd.name, i+1, v)
				} else {
					r.Count("nonvacuous_baselines_validator_seam", 1)
				}
			}
			if aerr != nil {
				r.HarnessError("%s: baseline through the public API: %v", dd.name, aerr)
			}
			for _, v := range api0 {
				if v.DocModified == "false" || v.Status == "valid" {
					r.Count("nonvacuous_baselines_public_api", 1)
				} else {
					r.Count("vacuous_baselines_public_api", 1)
				}
			}
			r.Sample(map[string]any{"document": dd.name, "size": len(doc.Bytes), "baseline_validator_seam": fmt.Sprint(seam0), "baseline_public_api": fmt.Sprint(api0)})
		}
		vs := c27Variants(doc, !r.Quick())
		for vi, v := range vs {
			if vi%n != shard {
				continue
			}
			if r.Expired() {
				r.Cut("deadline in " + dd.name)
				return
			}
			b := append([]byte{}, doc.Bytes...)
			affected := make([]bool, len(doc.Sigs))
			switch v.kind {
			case "flip":
				b[v.off] ^= 1 << uint(v.bit)
				for i, s := range doc.Sigs {
					affected[i] = covers(s, v.off)
				}
			case "contents":
				s := doc.Sigs[v.sig]
				b[v.off] = v.digit
				before, _ := hexValue(doc.Bytes[s.ContentsStart+1 : s.ContentsEnd-1])
				after, ok := hexValue(b[s.ContentsStart+1 : s.ContentsEnd-1])
				same := ok && string(before) == string(after)
				if s.SubFilter != "adbe.x509.rsa_sha1" && ok && string(trimZeros(before)) == string(trimZeros(after)) {
					same = true // trailing zero padding of a CMS value is not part of the value
				}
				if same {
					r.Count("contents_edits_leaving_the_value_unchanged_skipped", 1)
					continue
				}
				if s.SubFilter != "adbe.x509.rsa_sha1" {
					// a CMS blob also carries parts no signature authenticates (certificate set, unsigned
					// attributes, outer framing): only edits of the signature octets, the signed attributes
					// and the encapsulated content are modifications "of the signature value itself"
					regs, err := cmsAuthenticated(before)
					if err != nil {
						r.HarnessError("%s: cannot locate the CMS parts of signature %d: %v", dd.name, v.sig+1, err)
						continue
					}
					bi := int(v.off-s.ContentsStart-1) / 2
					in := false
					for _, rg := range regs {
						if bi >= rg[0] && bi < rg[1] {
							in = true
						}
					}
					if !in {
						r.Count("contents_edits_in_unauthenticated_cms_parts_not_judged", 1)
						continue
					}
				}
				affected[v.sig] = true
				// a later signature covering this /Contents is affected as well
				for i, s2 := range doc.Sigs {
					if i != v.sig && covers(s2, v.off) {
						affected[i] = true
					}
				}
			case "byterange":
				s := doc.Sigs[v.sig]
				br := s.ByteRange
				br[v.brIdx] += v.brDiff
				if br[v.brIdx] < 0 {
					continue
				}
				nb, err := doc.PatchByteRange(b, v.sig, br)
				if err != nil {
					continue
				}
				b = nb
				affected[v.sig] = true
				for i, s2 := range doc.Sigs {
					if i != v.sig && covers(s2, s.ByteRangeStart) {
						affected[i] = true
					}
				}
			}
			r.Eval(2) // one judgement per seam (per-SubFilter validator, public API)
			judge := func(seam string, vd []sigdoc.Verdict, err error, byField bool) {
				if err != nil {
					r.Count("rejected_unreadable_"+seam, 1)
					return
				}
				r.Nontrivial(1)
				for i, s := range doc.Sigs {
					if !affected[i] {
						continue
					}
					for _, x := range vd {
						match := x.ObjNr == s.ObjNr
						if byField {
							match = x.Field == s.FieldName || x.ObjNr == s.FieldObjNr
						}
						if !match {
							continue
						}
						if x.Status == "valid" || x.DocModified == "false" {
							r.Violation("tamper-accepted:"+seam+":"+s.SubFilter+":"+v.kind, fmt.Sprintf("%s: after %s signature %d (%s) is still reported status=%s docModified=%s at the %s seam (reason %q)", dd.name, v, i+1, s.SubFilter, x.Status, x.DocModified, seam, x.Reason),
								map[string]any{"document": dd.name, "variant": v.String(), "seam": seam})
						}
					}
				}
			}
			var sv, av []sigdoc.Verdict
			var serr, aerr error
			if pv, _ := core.Try(func() { sv, serr = sigdoc.ValidateSeam(b) }); pv != nil {
				c27Crash(r, dd.name, v, b, "reading the document (api.ReadContext)", pv)
				continue
			}
			judge("validator", sv, serr, false)
			if pv, _ := core.Try(func() { av, aerr = sigdoc.ValidateAPI(b) }); pv != nil {
				c27Crash(r, dd.name, v, b, "api.ValidateSignaturesRaw", pv)
				continue
			}
			judge("public-api", av, aerr, true)
		}
	}
	if !r.Quick() {
		c27Samples(r, shard, n)
	}
}

var c27BR = regexp.MustCompile(`/ByteRange\s*\[\s*(\d+)\s+(\d+)\s+(\d+)\s+(\d+)\s*\]`)
var c27Obj = regexp.MustCompile(`(\d+)\s+(\d+)\s+obj\b`)

// c27Samples: the repository's signed samples, bit 0 of every stride-th signed byte, validator seam only
// (a reduced bound, stated in the evidence).
func c27Samples(r *core.R, shard, n int) {
	files, _ := filepath.Glob(filepath.Join(core.RepoDir(), "pkg", "samples", "signatures", "*", "*.pdf"))
	sort.Strings(files)
	const stride = 23
	for _, fn := range files {
		b, err := os.ReadFile(fn)
		if err != nil {
			continue
		}
		name := "sample:" + filepath.Base(filepath.Dir(fn)) + "/" + filepath.Base(fn)
		base, err := sigdoc.ValidateSeam(b)
		if err != nil {
			r.SetAdd("samples_not_validated_at_the_seam", name+": "+err.Error())
			continue
		}
		// signature dictionaries: object number -> byte range
		type sg struct {
			objNr int
			br    [4]int64
		}
		var sgs []sg
		for _, m := range c27BR.FindAllSubmatchIndex(b, -1) {
			var br [4]int64
			for i := 0; i < 4; i++ {
				fmt.Sscan(string(b[m[2+2*i]:m[3+2*i]]), &br[i])
			}
			objs := c27Obj.FindAllSubmatch(b[:m[0]], -1)
			if len(objs) == 0 {
				continue
			}
			var nr int
			fmt.Sscan(string(objs[len(objs)-1][1]), &nr)
			sgs = append(sgs, sg{nr, br})
		}
		live := map[int]bool{}
		for _, v := range base {
			if v.DocModified == "false" {
				live[v.ObjNr] = true
			}
		}
		if shard == 0 {
			r.Note("sample_baseline:"+name, fmt.Sprintf("%d signature dictionaries, %d report DocModified=false untouched (non-vacuous)", len(sgs), len(live)))
		}
		if len(live) == 0 {
			continue
		}
		k := 0
		for off := int64(0); off < int64(len(b)); off += stride {
			var aff []int
			for _, s := range sgs {
				if live[s.objNr] && ((off >= s.br[0] && off < s.br[0]+s.br[1]) || (off >= s.br[2] && off < s.br[2]+s.br[3])) {
					aff = append(aff, s.objNr)
				}
			}
			if len(aff) == 0 {
				continue
			}
			k++
			if k%n != shard {
				continue
			}
			if r.Expired() {
				r.Cut("deadline in " + name)
				return
			}
			t := append([]byte{}, b...)
			t[off] ^= 1
			var vd []sigdoc.Verdict
			var verr error
			if pv, _ := core.Try(func() { vd, verr = sigdoc.ValidateSeam(t) }); pv != nil {
				c27Crash(r, name, c27Variant{kind: "flip", off: off}, t, "reading the document (api.ReadContext)", pv)
				continue
			}
			r.Eval(1)
			r.Count("sample_variants", 1)
			if verr != nil {
				r.Count("rejected_unreadable_validator", 1)
				continue
			}
			r.Nontrivial(1)
			for _, x := range vd {
				for _, a := range aff {
					if x.ObjNr == a && (x.Status == "valid" || x.DocModified == "false") {
						r.Violation("tamper-accepted:validator:"+name, fmt.Sprintf("%s: after flipping bit 0 of byte %d the signature in obj %d (%s) is still reported status=%s docModified=%s", name, off, a, x.SubFilter, x.Status, x.DocModified), map[string]any{"document": name, "offset": off})
					}
				}
			}
		}
	}
}

// c27Crash: a panic escaping pdfcpu on a tampered document is not what C27 is about (that is C08), but the
// input is kept so that it is not lost: it is written below replay/ and counted.
func c27Crash(r *core.R, doc string, v c27Variant, b []byte, where string, pv any) {
	r.Count("panics_escaping_pdfcpu_on_tampered_input(see_C08)", 1)
	dir := filepath.Join(core.VerifDir(), "replay", "crashers")
	os.MkdirAll(dir, 0o755)
	name := filepath.Join(dir, fmt.Sprintf("C27-%s-%s.pdf", strings.NewReplacer(" ", "_", "/", "_", ",", "_", "+", "_").Replace(doc), strings.NewReplacer(" ", "_").Replace(v.String())))
	os.WriteFile(name, b, 0o644)
	r.SetAdd("crashing_inputs", fmt.Sprintf("%s: %s: %s: %v", doc, v, where, pv))
}
