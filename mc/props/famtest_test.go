package props

import (
	"bytes"
	"testing"

	"github.com/pdfcpu/pdfcpu/pkg/api"
	"verif/mc/docgen"
	"verif/mc/strictpdf"
)

func TestFamilyValid(t *testing.T) {
	api.DisableConfigDir()
	fam := docgen.Family(true)
	t.Logf("%d family members", len(fam))
	for _, f := range fam {
		sf := strictpdf.Parse(f.Bytes)
		if !sf.OK() {
			t.Errorf("%s: strictpdf: %v", f.Name, sf.Problems)
		}
		if err := api.Validate(bytes.NewReader(f.Bytes), newConf()); err != nil {
			t.Errorf("%s: pdfcpu validate: %v", f.Name, err)
		}
	}
}
