package props

import (
	"bytes"
	"fmt"
	"regexp"

	"github.com/pdfcpu/pdfcpu/pkg/api"
	"verif/mc/core"
	"verif/mc/sigdoc"
)

// C28: a signature is reported as covering the document only if it covers every byte.
func init() {
	core.Register(&core.Check{
		ID:    "C28",
		Level: "exploration",
		Rule: "harness-signed documents (5 SubFilters x /Contents last in its dictionary or not x exactly sized or zero padded; the four legacy SubFilters in a dictionary typed /DocTimeStamp; plus two-signature documents) are manipulated the way an attacker owning the signing key can: (a) bytes appended after the signed revision {newline, space, comment, second %%EOF}; (b) a valid incremental update appended (new object, xref section with /Prev); (c) /ByteRange rewritten and the signature RE-COMPUTED over the new ranges: first offset != 0, gap start shifted by every d1 in -8..8 x gap end shifted by every d2 in -8..8 (full product, includes widened, narrowed, shifted and overlapping gaps), last range ending short of / beyond the end of file; (d) in two-signature documents the first signature (covering revision 1 only); oracle: DocModified=false is reported for a signature only if its ranges start at 0, the gap is exactly the /Contents hex string and (public API seam) the last range ends at the end of the file; the per-SubFilter validators of pkg/pdfcpu/sign are judged on the first two conditions, the public API on all three; " +
			"non-trivial = a manipulated variant that a validator judged (not rejected as unreadable)",
		Assume:   []string{"through the public API form signatures currently never report DocModified=false even when untouched, so for them the public-API judgement is vacuous; document timestamps are not (counted in the evidence)"},
		Run:      func(r *core.R) { api.DisableConfigDir(); core.Sharded(r, 16) },
		RunShard: c28shard,
	})
}

var (
	c28Root = regexp.MustCompile(`/Root (\d+) 0 R`)
	c28Size = regexp.MustCompile(`/Size (\d+)`)
	c28SX   = regexp.MustCompile(`startxref\s+(\d+)\s+%%EOF\s*$`)
)

// c28Increment appends a valid incremental update (one new object) to b.
func c28Increment(b []byte) ([]byte, error) {
	roots := c28Root.FindAllSubmatch(b, -1)
	sizes := c28Size.FindAllSubmatch(b, -1)
	sx := c28SX.FindSubmatch(b)
	if len(roots) == 0 || len(sizes) == 0 || sx == nil {
		return nil, fmt.Errorf("trailer not found")
	}
	var root, size, prev int
	fmt.Sscan(string(roots[len(roots)-1][1]), &root)
	fmt.Sscan(string(sizes[len(sizes)-1][1]), &size)
	fmt.Sscan(string(sx[1]), &prev)
	var w bytes.Buffer
	w.Write(b)
	if !bytes.HasSuffix(b, []byte("\n")) {
		w.WriteByte('\n')
	}
	off := w.Len()
	fmt.Fprintf(&w, "%d 0 obj\n<< /Added (after signing) >>\nendobj\n", size)
	xo := w.Len()
	fmt.Fprintf(&w, "xref\n%d 1\n%010d 00000 n \ntrailer\n<< /Size %d /Root %d 0 R /Prev %d >>\nstartxref\n%d\n%%%%EOF\n", size, off, size+1, root, prev, xo)
	return w.Bytes(), nil
}

type c28Var struct {
	name     string
	b        []byte
	sig      int
	exactGap bool // ranges start at 0 and the gap is exactly the hex string
	toEOF    bool // last range ends at the end of the file
	resigned bool
}

func c28shard(r *core.R, shard, n int) {
	api.DisableConfigDir()
	defer sigdoc.Cleanup()
	type dspec struct {
		name string
		opt  sigdoc.Options
	}
	var docs []dspec
	for _, k := range sigdoc.Kinds {
		for _, cl := range []bool{false, true} {
			for _, ex := range []bool{false, true} {
				docs = append(docs, dspec{fmt.Sprintf("%s,contentsLast=%v,exact=%v", k, cl, ex), sigdoc.Options{SubFilter: k, ContentsLast: cl, Exact: ex}})
			}
		}
	}
	// /Type and /SubFilter disagree: a legacy signature dictionary typed as a document timestamp
	for _, k := range sigdoc.Kinds {
		if k != "ETSI.RFC3161" {
			docs = append(docs, dspec{k + ",typed-as-DocTimeStamp", sigdoc.Options{SubFilter: k, TypeDocTimeStamp: true}})
		}
	}
	docs = append(docs, dspec{"adbe.pkcs7.detached then ETSI.CAdES.detached", sigdoc.Options{SubFilter: "adbe.pkcs7.detached", Second: "ETSI.CAdES.detached"}})
	docs = append(docs, dspec{"ETSI.RFC3161 then ETSI.RFC3161", sigdoc.Options{SubFilter: "ETSI.RFC3161", Second: "ETSI.RFC3161"}})
	docs = append(docs, dspec{"ETSI.CAdES.detached then ETSI.RFC3161,contentsLast", sigdoc.Options{SubFilter: "ETSI.CAdES.detached", Second: "ETSI.RFC3161", ContentsLast: true}})
	vi := 0
	for _, dd := range docs {
		doc, err := sigdoc.Build(dd.opt)
		if err != nil {
			r.HarnessError("build %s: %v", dd.name, err)
			continue
		}
		if shard == 0 {
			// baselines: the last signature of an untouched document covers everything
			sv, err := sigdoc.ValidateSeam(doc.Bytes)
			av, aerr := sigdoc.ValidateAPI(doc.Bytes)
			if err != nil || aerr != nil {
				r.HarnessError("%s: baseline: %v %v", dd.name, err, aerr)
			}
			last := doc.Sigs[len(doc.Sigs)-1]
			for _, v := range sv {
				if v.ObjNr == last.ObjNr {
					if v.DocModified == "false" {
						r.Count("nonvacuous_baselines_validator_seam", 1)
					} else {
						r.HarnessError("%s: untouched document not reported unmodified at the validator seam: %s", dd.name, v)
					}
				}
			}
			for _, v := range av {
				if v.Field == last.FieldName {
					if v.DocModified == "false" {
						r.Count("nonvacuous_baselines_public_api", 1)
					} else {
						r.Count("vacuous_baselines_public_api", 1)
					}
				}
			}
		}
		var vars []c28Var
		lastSig := len(doc.Sigs) - 1
		// (a) appended bytes
		for _, tail := range []string{"\n", " ", "% appended after the signed revision\n", "%%EOF\n", "\x00"} {
			vars = append(vars, c28Var{name: fmt.Sprintf("appended %q", tail), b: append(append([]byte{}, doc.Bytes...), tail...), sig: lastSig, exactGap: true, toEOF: false})
		}
		// (b) appended incremental update
		if inc, err := c28Increment(doc.Bytes); err == nil {
			vars = append(vars, c28Var{name: "appended incremental update", b: inc, sig: lastSig, exactGap: true, toEOF: false})
		} else {
			r.HarnessError("%s: %v", dd.name, err)
		}
		// (d) earlier signatures of multi-signature documents
		for i := 0; i < lastSig; i++ {
			vars = append(vars, c28Var{name: fmt.Sprintf("signature %d of %d (covers its own revision only)", i+1, len(doc.Sigs)), b: doc.Bytes, sig: i, exactGap: true, toEOF: false})
		}
		// (c) rewritten ranges, re-signed
		s := doc.Sigs[lastSig]
		addBR := func(name string, br [4]int64) {
			if br[0] < 0 || br[1] < 0 || br[2] < 0 || br[3] < 0 || br[2]+br[3] > int64(len(doc.Bytes)) || br[0]+br[1] > int64(len(doc.Bytes)) {
				return
			}
			exact := br[0] == 0 && br[1] == s.ContentsStart && br[2] == s.ContentsEnd
			vars = append(vars, c28Var{name: name, sig: lastSig, exactGap: exact, toEOF: br[2]+br[3] == int64(len(doc.Bytes)), resigned: true, b: nil})
			vars[len(vars)-1].b = []byte(fmt.Sprint(br)) // placeholder: ranges are applied lazily (re-signing is the cost)
		}
		for d1 := int64(-8); d1 <= 8; d1++ {
			for d2 := int64(-8); d2 <= 8; d2++ {
				if d1 == 0 && d2 == 0 {
					continue
				}
				br := s.ByteRange
				br[1] += d1
				br[2] += d2
				br[3] -= d2
				addBR(fmt.Sprintf("gap start %+d, gap end %+d, re-signed", d1, d2), br)
			}
		}
		for _, d0 := range []int64{1, 2, 9} {
			br := s.ByteRange
			br[0] += d0
			br[1] -= d0
			addBR(fmt.Sprintf("first offset %d, re-signed", d0), br)
		}
		for _, d3 := range []int64{-1, -10, -100} {
			br := s.ByteRange
			br[3] += d3
			addBR(fmt.Sprintf("last range ends %d before the end of the file, re-signed", -d3), br)
		}
		{
			br := s.ByteRange // overlapping ranges: the second starts inside the first
			br[2] = br[1] - 20
			br[3] = int64(len(doc.Bytes)) - br[2]
			addBR("second range starts inside the first, re-signed", br)
		}
		for _, v := range vars {
			vi++
			if vi%n != shard {
				continue
			}
			if r.Expired() {
				r.Cut("deadline in " + dd.name)
				return
			}
			b := v.b
			if v.resigned {
				var br [4]int64
				fmt.Sscanf(string(v.b), "[%d %d %d %d]", &br[0], &br[1], &br[2], &br[3])
				pb, err := doc.PatchByteRange(append([]byte{}, doc.Bytes...), v.sig, br)
				if err != nil {
					r.Count("range_variants_not_expressible", 1)
					continue
				}
				b, err = doc.Resign(pb, v.sig, br)
				if err != nil {
					r.Count("range_variants_not_resignable", 1)
					continue
				}
			}
			r.Eval(2) // one judgement per seam (per-SubFilter validator, public API)
			si := doc.Sigs[v.sig]
			rep := map[string]any{"document": dd.name, "variant": v.name}
			var sv, av []sigdoc.Verdict
			var serr, aerr error
			if pv, _ := core.Try(func() { sv, serr = sigdoc.ValidateSeam(b) }); pv != nil {
				c27Crash(r, dd.name, c27Variant{kind: "byterange"}, b, "validator seam", pv)
				continue
			}
			if pv, _ := core.Try(func() { av, aerr = sigdoc.ValidateAPI(b) }); pv != nil {
				c27Crash(r, dd.name, c27Variant{kind: "byterange"}, b, "api.ValidateSignaturesRaw", pv)
				continue
			}
			if serr == nil {
				r.Nontrivial(1)
				for _, x := range sv {
					if x.ObjNr == si.ObjNr && x.DocModified == "false" && !v.exactGap {
						r.Violation("inexact-gap-accepted:validator:"+si.SubFilter, fmt.Sprintf("%s: %s: the %s validator reports DocModified=false although the ranges do not start at 0 or the gap is not exactly the /Contents string (status=%s)", dd.name, v.name, si.SubFilter, x.Status), rep)
					}
				}
			} else {
				r.Count("rejected_unreadable_validator", 1)
			}
			if aerr == nil {
				r.Nontrivial(1)
				for _, x := range av {
					if (x.Field == si.FieldName || x.ObjNr == si.FieldObjNr) && x.DocModified == "false" && !(v.exactGap && v.toEOF) {
						r.Violation("partial-coverage-accepted:public-api:"+si.SubFilter, fmt.Sprintf("%s: %s: the public API reports DocModified=false for a %s signature that does not cover the whole file (status=%s)", dd.name, v.name, si.SubFilter, x.Status), rep)
					}
				}
			} else {
				r.Count("rejected_unreadable_public-api", 1)
			}
			if vi%211 == 0 {
				r.Sample(map[string]any{"document": dd.name, "variant": v.name, "validator_seam": fmt.Sprint(sv), "public_api": trimTo(fmt.Sprint(av), 300)})
			}
		}
	}
}
