package props

import (
	"bytes"
	"fmt"
	"io"
	"sort"
	"strings"

	"github.com/pdfcpu/pdfcpu/pkg/api"
	"github.com/pdfcpu/pdfcpu/pkg/pdfcpu/model"
	"github.com/pdfcpu/pdfcpu/pkg/pdfcpu/types"
	"verif/mc/core"
	"verif/mc/docgen"
	"verif/mc/pagesel"
	"verif/mc/pdfx"
)

// C32: page operations act exactly on the selected pages.
func init() {
	core.Register(&core.Check{
		ID:    "C32",
		Level: "model_checking",
		Rule: "explicit-state search over real document bytes: initial documents = {3 pages flat, 4 pages in a nested tree whose first subtree defines inherited /Rotate 90 and MediaBox [0 0 300 400] while the later sibling subtree inherits from the root, 3 pages with per-page attributes, 3 pages sharing one indirect /MediaBox array and one /Resources dictionary}; operations (26): insert blank before/after x {1, l, even, 2-}, remove x {1, l, odd}, rotate x {90, 180, -90} x {all, 1, even}, trim x {2-, 1,l}, collect x {l,1 ; 1,1 ; 2-}, add trim box, remove trim box, crop x {all, 1}; breadth-first to depth 2 (quick) / 3 (thorough) with deduplication on the model state; after every transition the output is re-read with the harness's own page walker and compared with a page-list model (marker, rotation mod 360, MediaBox, CropBox, TrimBox); " +
			"non-trivial = a transition from a non-initial state",
		Assume: []string{"inserted blank pages: position, emptiness and MediaBox (that of the reference page) are demanded, their rotation is not (the statement does not fix it)", "selections are evaluated by the independent pagesel reference (C31)"},
		Run:    runC32,
	})
}

type mpage struct {
	Marker int // 0 = blank
	Rot    int
	Media  string
	Crop   string // "" = none
	Trim   string
	Blank  bool
}

func (p mpage) String() string {
	return fmt.Sprintf("{m%d r%d %s c%s t%s}", p.Marker, p.Rot, p.Media, p.Crop, p.Trim)
}

func modelKey(ps []mpage) string {
	var ss []string
	for _, p := range ps {
		q := p
		if q.Blank {
			q.Rot = -1
		}
		ss = append(ss, q.String())
	}
	return strings.Join(ss, "")
}

type pop struct {
	name  string
	apply func(in []byte) ([]byte, error)
	model func(ps []mpage) ([]mpage, bool) // ok=false: the operation must fail
}

func selPages(expr string, pc int) []int {
	if expr == "" {
		var all []int
		for i := 1; i <= pc; i++ {
			all = append(all, i)
		}
		return all
	}
	t, _ := pagesel.Parse(expr)
	m := pagesel.Select(t, pc)
	var out []int
	for p := range m {
		out = append(out, p)
	}
	sort.Ints(out)
	return out
}

func selArg(expr string) []string {
	if expr == "" {
		return nil
	}
	return strings.Split(expr, ",")
}

func c32ops() []pop {
	buf := func(f func(rs io.ReadSeeker, w io.Writer) error) func(in []byte) ([]byte, error) {
		return func(in []byte) ([]byte, error) {
			var out bytes.Buffer
			err := f(bytes.NewReader(in), &out)
			return out.Bytes(), err
		}
	}
	var ops []pop
	for _, before := range []bool{true, false} {
		for _, sel := range []string{"1", "l", "even", "2-"} {
			before, sel := before, sel
			ops = append(ops, pop{
				name:  fmt.Sprintf("insert(before=%v,%s)", before, sel),
				apply: buf(func(rs io.ReadSeeker, w io.Writer) error { return api.InsertPages(rs, w, selArg(sel), before, nil, newConf()) }),
				model: func(ps []mpage) ([]mpage, bool) {
					s := map[int]bool{}
					for _, p := range selPages(sel, len(ps)) {
						s[p] = true
					}
					if len(s) == 0 {
						return ps, true
					}
					var out []mpage
					for i, p := range ps {
						blank := mpage{Blank: true, Media: p.Media}
						if s[i+1] && before {
							out = append(out, blank)
						}
						out = append(out, p)
						if s[i+1] && !before {
							out = append(out, blank)
						}
					}
					return out, true
				},
			})
		}
	}
	for _, sel := range []string{"1", "l", "odd"} {
		sel := sel
		ops = append(ops, pop{
			name:  "remove(" + sel + ")",
			apply: buf(func(rs io.ReadSeeker, w io.Writer) error { return api.RemovePages(rs, w, selArg(sel), newConf()) }),
			model: func(ps []mpage) ([]mpage, bool) {
				s := map[int]bool{}
				for _, p := range selPages(sel, len(ps)) {
					s[p] = true
				}
				var out []mpage
				for i, p := range ps {
					if !s[i+1] {
						out = append(out, p)
					}
				}
				return out, len(out) > 0
			},
		})
	}
	for _, rot := range []int{90, 180, -90} {
		for _, sel := range []string{"", "1", "even"} {
			rot, sel := rot, sel
			ops = append(ops, pop{
				name:  fmt.Sprintf("rotate(%d,%q)", rot, sel),
				apply: buf(func(rs io.ReadSeeker, w io.Writer) error { return api.Rotate(rs, w, rot, selArg(sel), newConf()) }),
				model: func(ps []mpage) ([]mpage, bool) {
					out := append([]mpage{}, ps...)
					for _, p := range selPages(sel, len(ps)) {
						out[p-1].Rot = ((out[p-1].Rot+rot)%360 + 360) % 360
					}
					return out, true
				},
			})
		}
	}
	for _, sel := range []string{"2-", "1,l"} {
		sel := sel
		ops = append(ops, pop{
			name:  "trim(" + sel + ")",
			apply: buf(func(rs io.ReadSeeker, w io.Writer) error { return api.Trim(rs, w, selArg(sel), newConf()) }),
			model: func(ps []mpage) ([]mpage, bool) {
				var out []mpage
				for _, p := range selPages(sel, len(ps)) {
					out = append(out, ps[p-1])
				}
				return out, len(out) > 0
			},
		})
	}
	for _, sel := range []string{"l,1", "1,1", "2-"} {
		sel := sel
		ops = append(ops, pop{
			name:  "collect(" + sel + ")",
			apply: buf(func(rs io.ReadSeeker, w io.Writer) error { return api.Collect(rs, w, selArg(sel), newConf()) }),
			model: func(ps []mpage) ([]mpage, bool) {
				t, _ := pagesel.Parse(sel)
				col, _ := pagesel.Collect(t, len(ps))
				var out []mpage
				for _, p := range col {
					out = append(out, ps[p-1])
				}
				return out, len(out) > 0
			},
		})
	}
	ops = append(ops, pop{
		name: "addbox(trim)",
		apply: buf(func(rs io.ReadSeeker, w io.Writer) error {
			pb, err := api.PageBoundaries("trim:[10 10 200 200]", types.POINTS)
			if err != nil {
				return err
			}
			return api.AddBoxes(rs, w, nil, pb, newConf())
		}),
		model: func(ps []mpage) ([]mpage, bool) {
			out := append([]mpage{}, ps...)
			for i := range out {
				out[i].Trim = "[10 10 200 200]"
			}
			return out, true
		},
	}, pop{
		name: "removebox(trim)",
		apply: buf(func(rs io.ReadSeeker, w io.Writer) error {
			pb, err := api.PageBoundariesFromBoxList("trim")
			if err != nil {
				return err
			}
			return api.RemoveBoxes(rs, w, nil, pb, newConf())
		}),
		model: func(ps []mpage) ([]mpage, bool) {
			out := append([]mpage{}, ps...)
			for i := range out {
				out[i].Trim = ""
			}
			return out, true
		},
	})
	for _, sel := range []string{"", "1"} {
		sel := sel
		ops = append(ops, pop{
			name: "crop(" + sel + ")",
			apply: buf(func(rs io.ReadSeeker, w io.Writer) error {
				b, err := api.Box("[0 0 100 100]", types.POINTS)
				if err != nil {
					return err
				}
				return api.Crop(rs, w, selArg(sel), b, newConf())
			}),
			model: func(ps []mpage) ([]mpage, bool) {
				out := append([]mpage{}, ps...)
				for _, p := range selPages(sel, len(ps)) {
					out[p-1].Crop = "[0 0 100 100]"
				}
				return out, true
			},
		})
	}
	return ops
}

func observePages(b []byte) ([]mpage, error) {
	ctx, err := pdfx.Read(b, nil)
	if err != nil {
		return nil, err
	}
	pgs, err := pdfx.Pages(ctx)
	if err != nil {
		return nil, err
	}
	var out []mpage
	for _, p := range pgs {
		mk := pdfx.Markers(ctx, p)
		m := mpage{Rot: p.Rotate, Media: fmtBox(p.MediaBox)}
		if len(mk) == 1 {
			m.Marker = mk[0]
		} else if len(mk) == 0 && strings.TrimSpace(pdfx.NormContent(p)) == "" {
			m.Blank = true
		} else {
			m.Marker = -1
		}
		if p.CropBox != nil {
			m.Crop = fmtBox(p.CropBox)
		}
		if tb, ok := p.Boxes["TrimBox"]; ok {
			m.Trim = fmtBox(tb)
		}
		out = append(out, m)
	}
	return out, nil
}

func runC32(r *core.R) {
	depth := 2
	if !r.Quick() {
		depth = 3
	}
	ops := c32ops()
	r.Note("operations", len(ops))
	var inits [][]byte
	inits = append(inits, docgen.Marked(3, 0))
	for _, f := range docgen.Family(true) {
		if f.Name == "pages=4,nested=true,attrs=first-subtree-defines/classic" {
			inits = append(inits, f.Bytes)
		}
	}
	// per-page attributes with boxes anchored at the origin
	inits = append(inits, docgen.Simple([]docgen.PageSpec{
		{Marker: 1, MediaBox: "[0 0 300 400]", Rotate: 90},
		{Marker: 2},
		{Marker: 3, MediaBox: "[0 0 842 595]", Rotate: 270},
	}, docgen.SimpleOpts{}).Bytes())
	// pages whose /MediaBox is one shared array object and whose /Resources is one shared dictionary object
	// (the way some producers write them): an operation that edits such an object in place for one page
	// changes its siblings
	for _, f := range docgen.Family(true) {
		if f.Name == "numbering=dense,extra=shared-indirect-attrs/classic" {
			inits = append(inits, f.Bytes)
		}
	}
	type state struct {
		doc   []byte
		model []mpage
		path  []string
	}
	var states, transitions int64
	for di, init := range inits {
		m0, err := observePages(init)
		if err != nil {
			r.HarnessError("initial doc %d: %v", di, err)
			return
		}
		seen := map[string]bool{modelKey(m0): true}
		states++
		frontier := []state{{init, m0, nil}}
		for d := 0; d < depth; d++ {
			next := make([][]state, len(frontier))
			core.ParFor(len(frontier), func(fi int) {
				s := frontier[fi]
				for _, op := range ops {
					if r.Expired() {
						r.Cut("internal deadline")
						return
					}
					want, ok := op.model(s.model)
					var out []byte
					var err error
					pv, _ := core.Try(func() { out, err = op.apply(s.doc) })
					r.Eval(1)
					if len(s.path) > 0 {
						r.Nontrivial(1)
					}
					path := append(append([]string{}, s.path...), op.name)
					rep := map[string]any{"initial_document": di, "path": path}
					opk := strings.SplitN(op.name, "(", 2)[0]
					if pv != nil {
						r.Violation("panic:"+opk, fmt.Sprintf("doc %d after %v: panic %v", di, path, pv), rep)
						continue
					}
					if !ok {
						// the operation selects nothing / would leave no page: the statement does not say what happens
						r.Count("empty_result_not_judged", 1)
						continue
					}
					if err != nil {
						key := "op-failed:" + op.name
						if r.Want(key) {
							r.Violation(key, fmt.Sprintf("doc %d after %v: %v", di, path, err), rep)
						}
						continue
					}
					got, err := observePages(out)
					if err != nil {
						r.Violation("unreadable:"+opk, fmt.Sprintf("doc %d after %v: output unreadable: %v", di, path, err), rep)
						continue
					}
					// compare
					bad := ""
					if len(got) != len(want) {
						bad = fmt.Sprintf("%d pages, model %d", len(got), len(want))
					} else {
						for i := range want {
							w, g := want[i], got[i]
							if w.Blank {
								if !g.Blank || g.Media != w.Media {
									bad = fmt.Sprintf("page %d should be a blank page with MediaBox %s, got %v", i+1, w.Media, g)
								}
								want[i].Rot = g.Rot // rotation of a blank page is not specified: adopt
								want[i].Crop, want[i].Trim = g.Crop, g.Trim
							} else if w.Marker != g.Marker || w.Rot != g.Rot || w.Media != g.Media || w.Crop != g.Crop || w.Trim != g.Trim {
								bad = fmt.Sprintf("page %d is %v, model %v", i+1, g, w)
							}
							if bad != "" {
								break
							}
						}
					}
					if bad != "" {
						key := "page-model-mismatch:" + opk
						if r.Want(key) {
							r.Violation(key, fmt.Sprintf("doc %d after %v: %s", di, path, bad), rep)
						}
						continue
					}
					next[fi] = append(next[fi], state{out, want, path})
				}
			})
			var nf []state
			for _, ss := range next {
				for _, s := range ss {
					transitions++
					k := modelKey(s.model)
					if !seen[k] && len(s.model) <= 8 {
						seen[k] = true
						states++
						nf = append(nf, s)
					}
				}
			}
			frontier = nf
			if len(frontier) > 0 {
				r.Sample(map[string]any{"initial_document": di, "path": frontier[len(frontier)/2].path, "model": modelKey(frontier[len(frontier)/2].model)})
			}
		}
	}
	r.Count("states", states)
	r.Count("transitions", transitions)
	r.Note("traces_validated_against_impl", transitions)
	r.Note("depth", depth)
	_ = model.ValidationRelaxed
}
