package props

import (
	"bytes"
	"fmt"
	"image"
	"image/color"
	"image/png"
	"os"
	"path/filepath"
	"sync"

	"github.com/pdfcpu/pdfcpu/pkg/api"
	"github.com/pdfcpu/pdfcpu/pkg/pdfcpu"
	"github.com/pdfcpu/pdfcpu/pkg/pdfcpu/model"
	"github.com/pdfcpu/pdfcpu/pkg/pdfcpu/types"
	"verif/mc/core"
	"verif/mc/docgen"
)

// Fixtures: small documents used by the file-level explorers. Derived fixtures are produced by
// pdfcpu itself on the unhooked path once per process.
type Fixtures struct {
	Files map[string][]byte
}

var (
	fixOnce sync.Once
	fix     *Fixtures
)

func newConf() *model.Configuration {
	c := model.NewDefaultConfiguration()
	c.ValidationMode = model.ValidationRelaxed
	return c
}

func mustPDF(name string, f func(rs *bytes.Reader, w *bytes.Buffer) error, in []byte) []byte {
	var w bytes.Buffer
	if err := f(bytes.NewReader(in), &w); err != nil {
		panic(fmt.Sprintf("fixture %s: %v", name, err))
	}
	return w.Bytes()
}

func tinyPNG(w, h int, c color.Color) []byte {
	img := image.NewRGBA(image.Rect(0, 0, w, h))
	for y := 0; y < h; y++ {
		for x := 0; x < w; x++ {
			img.Set(x, y, c)
		}
	}
	var b bytes.Buffer
	png.Encode(&b, img)
	return b.Bytes()
}

func GetFixtures() *Fixtures {
	fixOnce.Do(func() {
		api.DisableConfigDir()
		f := &Fixtures{Files: map[string][]byte{}}
		in := docgen.Marked(3, 0)
		f.Files["in.pdf"] = in
		f.Files["other.pdf"] = docgen.Marked(2, 100)
		f.Files["existing.pdf"] = docgen.Marked(1, 200)
		f.Files["a.txt"] = []byte("attachment a\n")
		f.Files["img.png"] = tinyPNG(8, 6, color.RGBA{200, 10, 10, 255})
		f.Files["kw.pdf"] = mustPDF("kw", func(rs *bytes.Reader, w *bytes.Buffer) error {
			return api.AddKeywords(rs, w, []string{"k1", "k2"}, newConf())
		}, in)
		f.Files["prop.pdf"] = mustPDF("prop", func(rs *bytes.Reader, w *bytes.Buffer) error {
			return api.AddProperties(rs, w, map[string]string{"A": "1"}, newConf())
		}, in)
		f.Files["att.pdf"] = mustPDF("att", func(rs *bytes.Reader, w *bytes.Buffer) error {
			ctx, err := api.ReadValidateAndOptimize(rs, newConf())
			if err != nil {
				return err
			}
			a := model.Attachment{Reader: bytes.NewReader([]byte("attachment a\n")), ID: "a.txt", FileName: "a.txt"}
			if err := ctx.AddAttachment(a, false); err != nil {
				return err
			}
			return api.WriteContext(ctx, w)
		}, in)
		f.Files["att3.pdf"] = mustPDF("att3", func(rs *bytes.Reader, w *bytes.Buffer) error {
			ctx, err := api.ReadValidateAndOptimize(rs, newConf())
			if err != nil {
				return err
			}
			for _, n := range []string{"a.txt", "b.txt", "c.txt"} {
				a := model.Attachment{Reader: bytes.NewReader([]byte("attachment " + n + "\n")), ID: n, FileName: n}
				if err := ctx.AddAttachment(a, false); err != nil {
					return err
				}
			}
			return api.WriteContext(ctx, w)
		}, in)
		f.Files["wm.pdf"] = mustPDF("wm", func(rs *bytes.Reader, w *bytes.Buffer) error {
			wm, err := api.TextWatermark("WM", "pos:c, scale:0.5 rel", true, false, types.POINTS)
			if err != nil {
				return err
			}
			return api.AddWatermarks(rs, w, nil, wm, newConf())
		}, in)
		f.Files["enc.pdf"] = mustPDF("enc", func(rs *bytes.Reader, w *bytes.Buffer) error {
			c := model.NewAESConfiguration("upw", "opw", 256)
			c.ValidationMode = model.ValidationRelaxed
			return api.Encrypt(rs, w, c)
		}, in)
		f.Files["bm.pdf"] = mustPDF("bm", func(rs *bytes.Reader, w *bytes.Buffer) error {
			return api.AddBookmarks(rs, w, []pdfcpu.Bookmark{{Title: "One", PageFrom: 1}, {Title: "Two", PageFrom: 2}}, true, newConf())
		}, in)
		f.Files["pl.pdf"] = mustPDF("pl", func(rs *bytes.Reader, w *bytes.Buffer) error {
			return api.SetPageLayout(rs, w, model.PageLayoutTwoColumnLeft, newConf())
		}, in)
		f.Files["bm.json"] = []byte(`{"bookmarks":[{"title":"J1","page":1},{"title":"J2","page":3}]}`)
		f.Files["vp.json"] = []byte(`{"viewerPreferences":{"HideToolbar":true}}`)
		fix = f
	})
	return fix
}

// WriteTo writes the named fixtures into dir.
func (f *Fixtures) WriteTo(dir string, names ...string) {
	for _, n := range names {
		b, ok := f.Files[n]
		if !ok {
			panic("no fixture " + n)
		}
		if err := os.WriteFile(filepath.Join(dir, n), b, 0o644); err != nil {
			panic(err)
		}
	}
}

var _ = core.Scratch
