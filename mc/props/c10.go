package props

import (
	"bytes"
	"context"
	"errors"
	"fmt"
	"io"
	"os"
	"path/filepath"
	"sort"
	"sync"
	"sync/atomic"
	"time"

	"github.com/pdfcpu/pdfcpu/pkg/api"
	"github.com/pdfcpu/pdfcpu/pkg/pdfcpu"
	"github.com/pdfcpu/pdfcpu/pkg/pdfcpu/model"
	"verif/mc/core"
	"verif/mc/docgen"
)

// C10: cancelling a read stops it promptly with the cancellation error.
func init() {
	core.Register(&core.Check{
		ID:    "C10",
		Level: "model_checking",
		Rule: "the reader can observe cancellation only by polling the context (Err/Done); a scripted context answers nil for the first k polls and the context error from then on; for each document the fault-free read is run to count K polls, then EVERY k in 0..K is run (deviation = the poll at which cancellation becomes visible) x context error {Canceled, DeadlineExceeded}; oracle: a read in which some poll returned the error yields no document and an error matching the context's error; one in which none did behaves like the fault-free read; promptness as work after the first failing poll (further polls and bytes consumed are bounded independently of document size); " +
			"non-trivial = an execution in which cancellation became visible",
		Assume: []string{"context polls are the only observation points: Done() is instrumented too and its use is reported"},
		Run:    runC10,
	})
}

type scriptCtx struct {
	cancelAt  int64 // poll index from which Err answers the error; <0 never
	cerr      error
	polls     atomic.Int64
	failed    atomic.Int64 // polls answered with the error
	doneCalls atomic.Int64
	done      chan struct{}
	closed    atomic.Bool
	rd        *countRS
}

func (s *scriptCtx) Deadline() (time.Time, bool) { return time.Time{}, false }
func (s *scriptCtx) Value(any) any                { return nil }
func (s *scriptCtx) Done() <-chan struct{} {
	s.doneCalls.Add(1)
	s.check(false)
	return s.done
}
func (s *scriptCtx) check(count bool) error {
	n := s.polls.Load()
	if count {
		n = s.polls.Add(1) - 1
		s.rd.poll()
	}
	if s.cancelAt >= 0 && n >= s.cancelAt {
		if s.closed.CompareAndSwap(false, true) {
			close(s.done)
			s.rd.markCancel()
		}
		if count {
			s.failed.Add(1)
		}
		return s.cerr
	}
	return nil
}
func (s *scriptCtx) Err() error { return s.check(true) }

type countRS struct {
	r           *bytes.Reader
	bytesRead   int64
	calls       int64
	cancelled   bool
	bytesAfter  int64
	callsAfter  int64
	atLastPoll  int64
	maxGapBytes int64 // fault-free: largest number of bytes consumed between two polls
}

func (c *countRS) markCancel() { c.cancelled = true }
func (c *countRS) poll() {
	if g := c.bytesRead - c.atLastPoll; g > c.maxGapBytes {
		c.maxGapBytes = g
	}
	c.atLastPoll = c.bytesRead
}
func (c *countRS) Read(p []byte) (int, error) {
	n, err := c.r.Read(p)
	c.bytesRead += int64(n)
	c.calls++
	if c.cancelled {
		c.bytesAfter += int64(n)
		c.callsAfter++
	}
	return n, err
}
func (c *countRS) Seek(o int64, w int) (int64, error) { return c.r.Seek(o, w) }

type c10Doc struct {
	name string
	b    []byte
	conf func() *model.Configuration
}

func c10Docs(thorough bool) []c10Doc {
	relaxed := func() *model.Configuration { c := newConf(); c.ValidationMode = model.ValidationRelaxed; return c }
	strict := func() *model.Configuration { c := newConf(); c.ValidationMode = model.ValidationStrict; return c }
	var ds []c10Doc
	add := func(n string, b []byte) { ds = append(ds, c10Doc{n, b, relaxed}) }
	add("marked3-classic", docgen.Marked(3, 0))
	// many small objects, classic xref
	mk := func(nobj int) *docgen.Doc {
		d := docgen.Simple([]docgen.PageSpec{{Marker: 1}}, docgen.SimpleOpts{})
		for i := 0; i < nobj; i++ {
			d.Add(fmt.Sprintf("<</K %d/S (filler %d)/A [1 2 3 <</N /X>>]>>", i, i))
		}
		return d
	}
	nSmall, nBig := 300, 1200
	if thorough {
		nSmall, nBig = 2000, 5000
	}
	add(fmt.Sprintf("objects%d-classic", nSmall), mk(nSmall).Bytes())
	add(fmt.Sprintf("objects%d-xrefstream", nSmall), mk(nSmall).BytesXRefStream(false))
	add(fmt.Sprintf("objects%d-objstm", nBig), mk(nBig).BytesXRefStream(true))
	ds = append(ds, c10Doc{fmt.Sprintf("objects%d-objstm-strict", nSmall), mk(nSmall).BytesXRefStream(true), strict})
	// broken xref offset => repair path
	b := mk(nSmall).Bytes()
	if i := bytes.LastIndex(b, []byte("startxref")); i > 0 {
		c := append([]byte{}, b[:i]...)
		c = append(c, []byte("startxref\n7\n%%EOF\n")...)
		add("broken-startxref-repair", c)
	}
	bx := mk(nSmall).BytesXRefStream(true)
	if i := bytes.LastIndex(bx, []byte("startxref")); i > 0 {
		c := append([]byte{}, bx[:i]...)
		c = append(c, []byte("startxref\n9\n%%EOF\n")...)
		add("broken-startxref-objstm-repair", c)
	}
	// the xref section parses but every offset is a few bytes short (as after a text-mode transfer that changed the
	// line ends): readable only through the offset repair that runs while objects are dereferenced (second stage)
	for _, shift := range []int{3, 7} {
		sb := mk(nSmall).Bytes()
		if i := bytes.LastIndex(sb, []byte("\nxref\n")); i > 0 {
			c := append([]byte{}, sb...)
			lines := bytes.Split(c[i:], []byte("\n"))
			pos := i
			for _, ln := range lines {
				if len(ln) == 19 && bytes.HasSuffix(ln, []byte(" n ")) {
					var off int
					fmt.Sscanf(string(ln[:10]), "%d", &off)
					if off > shift {
						copy(c[pos:pos+10], []byte(fmt.Sprintf("%010d", off-shift)))
					}
				}
				pos += len(ln) + 1
			}
			add(fmt.Sprintf("offsets-short-by-%d-second-stage-repair", shift), c)
		}
	}
	fx := GetFixtures()
	add("encrypted", fx.Files["enc.pdf"])
	ds[len(ds)-1].conf = func() *model.Configuration { c := relaxed(); c.UserPW, c.OwnerPW = "upw", "opw"; return c }
	add("attachments", fx.Files["att.pdf"])
	add("watermarked", fx.Files["wm.pdf"])
	for _, fd := range docgen.Family(false) {
		if len(ds) > 40 && !thorough {
			break
		}
		add("family:"+fd.Name, fd.Bytes)
	}
	if thorough {
		files, _ := filepath.Glob(filepath.Join(core.RepoDir(), "pkg", "testdata", "*.pdf"))
		sort.Strings(files)
		for _, f := range files {
			fi, err := os.Stat(f)
			if err != nil || fi.Size() > 300<<10 {
				continue
			}
			b, _ := os.ReadFile(f)
			add("corpus:"+filepath.Base(f), b)
		}
	}
	return ds
}

type c10Worst struct{ k, after, bytes, polls int64 }

type c10Run struct {
	ctx         *model.Context
	err         error
	polls       int64
	failedPolls int64
	doneCalls   int64
	bytesAfter  int64
	callsAfter  int64
	bytes       int64
	panicked    any
	maxGap      int64
}

func c10Read(d c10Doc, cancelAt int64, cerr error) c10Run {
	rd := &countRS{r: bytes.NewReader(d.b)}
	sc := &scriptCtx{cancelAt: cancelAt, cerr: cerr, done: make(chan struct{}), rd: rd}
	var out c10Run
	pv, _ := core.Try(func() { out.ctx, out.err = pdfcpu.ReadWithContext(sc, rd, d.conf()) })
	out.panicked = pv
	out.polls, out.failedPolls, out.doneCalls = sc.polls.Load(), sc.failed.Load(), sc.doneCalls.Load()
	out.bytesAfter, out.callsAfter, out.bytes = rd.bytesAfter, rd.callsAfter, rd.bytesRead
	rd.poll()
	out.maxGap = rd.maxGapBytes
	return out
}

func runC10(r *core.R) {
	api.DisableConfigDir()
	docs := c10Docs(!r.Quick())
	r.Note("documents", len(docs))
	type job struct {
		di   int
		k    int64
		cerr error
	}
	var jobs []job
	type base struct {
		K      int64
		ok     bool
		errStr string
		bytes  int64
	}
	bases := make([]base, len(docs))
	for di, d := range docs {
		// K may vary between runs (map iteration order in the reader): take the maximum of 3 fault-free runs
		var K int64
		var b0 c10Run
		for i := 0; i < 3; i++ {
			b0 = c10Read(d, -1, nil)
			if b0.polls > K {
				K = b0.polls
			}
		}
		bases[di] = base{K: K, ok: b0.err == nil, bytes: b0.bytes}
		if b0.err != nil {
			bases[di].errStr = b0.err.Error()
		}
		if b0.doneCalls > 0 {
			r.SetAdd("documents_where_Done_was_called", d.name)
		}
		r.Note("K_polls:"+d.name, K)
		for k := int64(0); k <= K+1; k++ {
			jobs = append(jobs, job{di, k, context.Canceled})
			if k%7 == 0 || !r.Quick() {
				jobs = append(jobs, job{di, k, context.DeadlineExceeded})
			}
		}
	}
	// poll density on large documents (fault-free runs only; the all-k enumeration above uses small ones)
	for _, n := range []int{4000, 12000} {
		for ci, mkb := range []func(*docgen.Doc) []byte{func(d *docgen.Doc) []byte { return d.Bytes() }, func(d *docgen.Doc) []byte { return d.BytesXRefStream(false) }, func(d *docgen.Doc) []byte { return d.BytesXRefStream(true) }} {
			d := docgen.Simple([]docgen.PageSpec{{Marker: 1}}, docgen.SimpleOpts{})
			for i := 0; i < n; i++ {
				d.Add(fmt.Sprintf("<</K %d/S (filler %d)/A [1 2 3 <</N /X>>]>>", i, i))
			}
			b := mkb(d)
			run := c10Read(c10Doc{"large", b, newConf}, -1, nil)
			r.Eval(1)
			name := fmt.Sprintf("large-%d-%s", n, []string{"classic", "xrefstream", "objstm"}[ci])
			if lim := int64(len(b)); run.maxGap > lim && run.maxGap > 256<<10 {
				r.Violation("poll-gap:"+name, fmt.Sprintf("%s: %d bytes were consumed between two consecutive context polls (file %d bytes)", name, run.maxGap, len(b)), map[string]any{"document": name})
			}
			r.Note("gap:"+name, fmt.Sprintf("file %d bytes, %d polls, %d bytes read in total, largest run of bytes consumed between two polls %d, err=%v", len(b), run.polls, run.bytes, run.maxGap, run.err))
		}
	}
	r.Note("executions", len(jobs))
	var maxPollsAfter, maxBytesAfter atomic.Int64
	var worstMu sync.Mutex
	worst := make([]c10Worst, len(docs))
	core.ParFor(len(jobs), func(ji int) {
		if r.Expired() {
			return
		}
		j := jobs[ji]
		d := docs[j.di]
		run := c10Read(d, j.k, j.cerr)
		r.Eval(1)
		rep := func() any {
			return map[string]any{"document": d.name, "cancel_at_poll": j.k, "context_error": j.cerr.Error()}
		}
		if run.panicked != nil {
			r.Violation("panic:"+d.name, fmt.Sprintf("%s: read panicked with cancellation at poll %d: %v", d.name, j.k, run.panicked), rep())
			return
		}
		if run.failedPolls == 0 {
			// cancellation never became visible: must behave like the fault-free read
			if (run.err == nil) != bases[j.di].ok {
				r.Violation("uncancelled-differs:"+d.name, fmt.Sprintf("%s: no poll saw the cancellation (k=%d) yet the outcome differs from the fault-free read: %v", d.name, j.k, run.err), rep())
			}
			return
		}
		r.Nontrivial(1)
		if j.k%97 == 0 && j.di%5 == 0 {
			r.Sample(map[string]any{"document": d.name, "cancel_at_poll": j.k, "context_error": j.cerr.Error(), "returned_error": trimTo(fmt.Sprint(run.err), 160), "polls_after": run.failedPolls - 1})
		}
		switch {
		case run.err == nil:
			r.Violation("cancel-ignored:"+d.name, fmt.Sprintf("%s: poll %d returned %v but the read returned a document and no error", d.name, j.k, j.cerr), rep())
		case run.ctx != nil:
			r.Violation("document-with-error:"+d.name, fmt.Sprintf("%s: cancelled at poll %d: a document was returned together with error %v", d.name, j.k, run.err), rep())
		case !errors.Is(run.err, j.cerr):
			r.Violation("error-not-context-error:"+d.name, fmt.Sprintf("%s: cancelled at poll %d with %v: returned error does not match it: %q", d.name, j.k, j.cerr, trimTo(run.err.Error(), 200)), rep())
		}
		after := run.failedPolls - 1
		for {
			m := maxPollsAfter.Load()
			if after <= m || maxPollsAfter.CompareAndSwap(m, after) {
				break
			}
		}
		for {
			m := maxBytesAfter.Load()
			if run.bytesAfter <= m || maxBytesAfter.CompareAndSwap(m, run.bytesAfter) {
				break
			}
		}
		r.SetAdd("polls_after_first_failing_poll", fmt.Sprint(after))
		if after > 3 || run.bytesAfter > 128<<10 {
			r.Violation("work-after-cancellation:"+d.name, fmt.Sprintf("%s (%d bytes): after poll %d had returned %v the read made %d further polls and consumed %d more bytes before returning (bound: 3 polls, 128 KiB)", d.name, len(d.b), j.k, j.cerr, after, run.bytesAfter), rep())
		}
		worstMu.Lock()
		w := worst[j.di]
		if after > w.after || (after == w.after && run.bytesAfter > w.bytes) {
			worst[j.di] = c10Worst{j.k, after, run.bytesAfter, run.polls}
		}
		worstMu.Unlock()
		if run.bytesAfter > 0 {
			r.SetAdd("docs_reading_after_cancel", d.name)
		}
		_ = io.EOF
	})
	for di, w := range worst {
		r.Note("worst:"+docs[di].name, fmt.Sprintf("cancel at poll %d: %d further polls, %d bytes read afterwards (file %d bytes, K=%d)", w.k, w.after, w.bytes, len(docs[di].b), bases[di].K))
	}
	r.Note("max_polls_after_cancellation_seen", maxPollsAfter.Load())
	r.Note("max_bytes_read_after_cancellation_seen", maxBytesAfter.Load())
}
