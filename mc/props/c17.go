package props

import (
	"bytes"
	"compress/zlib"
	"fmt"
	"io"

	"github.com/pdfcpu/pdfcpu/pkg/filter"
	"verif/mc/core"
	"verif/mc/pngtiff"
)

// C17: predictor decoding matches the PNG and TIFF specifications.
func init() {
	core.Register(&core.Check{
		ID:    "C17",
		Level: "exploration",
		Rule: "Predictor {1,2,10..15} x Colors 1-4 x BitsPerComponent {1,2,4,8,16} x Columns 1-8 (1 280 parameter sets) x 1-2 rows (thorough: 3) x every assignment of row filter bytes {0..4} (plus invalid 5, 255) x row data (all byte strings over {00,01,7F,80,FF} for rows of <=2 bytes, 6 patterns for wider rows), compressed by the harness with zlib (Flate) and by pdfcpu's LZW encoder, decoded by pdfcpu with the parameters and compared with an independent RFC 2083 / TIFF 6 implementation; " +
			"non-trivial = a case with a predictor other than 1 whose reference output differs from the raw input",
		Assume: []string{"the reference un-filter (mc/pngtiff) is validated against hand-computed RFC 2083 vectors at start-up"},
		Run:    runC17,
	})
}

func c17selftest() error {
	// Sub, bpp=1: 01 | 10 20 30 -> 10 30 60
	got, _ := pngtiff.Undo([]byte{1, 0x10, 0x20, 0x30}, 10, 1, 8, 3)
	if !bytes.Equal(got, []byte{0x10, 0x30, 0x60}) {
		return fmt.Errorf("sub vector: %x", got)
	}
	// 12-bit pixels (colors 3, bpc 4): bpp = 2: 01 | 10 20 30 -> 10 20 40
	got, _ = pngtiff.Undo([]byte{1, 0x10, 0x20, 0x30}, 11, 3, 4, 2)
	if !bytes.Equal(got, []byte{0x10, 0x20, 0x40}) {
		return fmt.Errorf("sub 12-bit vector: %x", got)
	}
	// Up then Average: rows (00| 0A 14), (02| 01 01) -> 0B 15, (03| 02 04): avg: x0 = 2 + floor((0+0B)/2)=7; x1 = 4+floor((7+0x15)/2)=4+14=18
	got, _ = pngtiff.Undo([]byte{0, 0x0A, 0x14, 2, 1, 1, 3, 2, 4}, 15, 1, 8, 2)
	if !bytes.Equal(got, []byte{0x0A, 0x14, 0x0B, 0x15, 7, 18}) {
		return fmt.Errorf("up/avg vector: %x", got)
	}
	// Paeth: prev row 10 20, cur (04| 05 06): x0: a=0,b=0x10,c=0 -> p=0x10, pa=0x10,pb=0,pc=0x10 -> b: 0x15; x1: a=0x15,b=0x20,c=0x10 -> p=0x25: pa=0x10,pb=5,pc=0x15 -> b: 0x26
	got, _ = pngtiff.Undo([]byte{0, 0x10, 0x20, 4, 5, 6}, 14, 1, 8, 2)
	if !bytes.Equal(got, []byte{0x10, 0x20, 0x15, 0x26}) {
		return fmt.Errorf("paeth vector: %x", got)
	}
	// TIFF 8-bit RGB, 2 pixels: 01 02 03 | 01 01 01 -> 01 02 03 02 03 04 ; 16-bit: 00FF | 0001 -> 00FF 0100
	got, _ = pngtiff.Undo([]byte{1, 2, 3, 1, 1, 1}, 2, 3, 8, 2)
	if !bytes.Equal(got, []byte{1, 2, 3, 2, 3, 4}) {
		return fmt.Errorf("tiff8 vector: %x", got)
	}
	got, _ = pngtiff.Undo([]byte{0, 0xFF, 0, 1}, 2, 1, 16, 2)
	if !bytes.Equal(got, []byte{0, 0xFF, 1, 0}) {
		return fmt.Errorf("tiff16 vector: %x", got)
	}
	// TIFF 4-bit gray: samples 1,1,1,1 packed 11 11 -> 1,2,3,4 -> 12 34
	got, _ = pngtiff.Undo([]byte{0x11, 0x11}, 2, 1, 4, 4)
	if !bytes.Equal(got, []byte{0x12, 0x34}) {
		return fmt.Errorf("tiff4 vector: %x", got)
	}
	return nil
}

func c17rows(rb int) [][]byte {
	if rb <= 2 {
		alpha := []byte{0x00, 0x01, 0x7F, 0x80, 0xFF}
		var out [][]byte
		if rb == 1 {
			for _, a := range alpha {
				out = append(out, []byte{a})
			}
			return out
		}
		for _, a := range alpha {
			for _, b := range alpha {
				out = append(out, []byte{a, b})
			}
		}
		return out
	}
	mk := func(f func(i int) byte) []byte {
		b := make([]byte, rb)
		for i := range b {
			b[i] = f(i)
		}
		return b
	}
	return [][]byte{
		mk(func(i int) byte { return 0 }),
		mk(func(i int) byte { return 0xFF }),
		mk(func(i int) byte { return byte(i*37 + 1) }),
		mk(func(i int) byte { return []byte{0x7F, 0x80}[i%2] }),
		mk(func(i int) byte { return []byte{0xFF, 0x01, 0x10}[i%3] }),
		mk(func(i int) byte { return byte(0xF0 - i*13) }),
	}
}

func runC17(r *core.R) {
	if err := c17selftest(); err != nil {
		r.HarnessError("reference self-test failed: %v", err)
		return
	}
	type pcase struct{ pred, colors, bpc, cols int }
	var grid []pcase
	for _, pred := range []int{1, 2, 10, 11, 12, 13, 14, 15} {
		for colors := 1; colors <= 4; colors++ {
			for _, bpc := range []int{1, 2, 4, 8, 16} {
				for cols := 1; cols <= 8; cols++ {
					grid = append(grid, pcase{pred, colors, bpc, cols})
				}
			}
		}
	}
	r.Note("parameter_sets", len(grid))
	maxRows := 2
	if !r.Quick() {
		maxRows = 3
	}
	lzwEnc, _ := filter.NewFilter(filter.LZW, nil)
	core.ParFor(len(grid), func(gi int) {
		g := grid[gi]
		rb := pngtiff.RowBytes(g.colors, g.bpc, g.cols)
		rows := c17rows(rb)
		parms := map[string]int{"Predictor": g.pred, "Colors": g.colors, "BitsPerComponent": g.bpc, "Columns": g.cols}
		ftypes := []byte{0}
		if g.pred >= 10 {
			ftypes = []byte{0, 1, 2, 3, 4, 5, 255}
		}
		var ev, nt int64
		var zb bytes.Buffer
		zw, _ := zlib.NewWriterLevel(&zb, zlib.BestSpeed)
		nrowsCur := 1
		one := func(raw []byte, desc func() string) {
			want, werr := pngtiff.Undo(raw, g.pred, g.colors, g.bpc, g.cols)
			for _, fname := range []string{filter.Flate, filter.LZW} {
				if fname == filter.LZW && nrowsCur > 1 {
					continue // LZW shares no predictor code with Flate; one-row cases decide its behaviour
				}
				ev++
				var enc []byte
				if fname == filter.Flate {
					zb.Reset()
					zw.Reset(&zb)
					zw.Write(raw)
					zw.Close()
					enc = append([]byte{}, zb.Bytes()...)
				} else {
					rd, err := lzwEnc.Encode(bytes.NewReader(raw))
					if err != nil {
						continue
					}
					enc, _ = io.ReadAll(rd)
				}
				f, _ := filter.NewFilter(fname, parms)
				rd, err := f.Decode(bytes.NewReader(enc))
				var got []byte
				if err == nil {
					got, err = io.ReadAll(rd)
				}
				if werr == nil && g.pred != 1 && !bytes.Equal(want, raw) {
					nt++
				}
				rep := func() any {
					return map[string]any{"filter": fname, "parms": parms, "predicted_hex": fmt.Sprintf("%x", raw)}
				}
				cls := "png"
				if g.pred == 2 {
					cls = "tiff"
				} else if g.pred == 1 {
					cls = "none"
				}
				if werr != nil {
					// invalid row filter byte: an error is the specified outcome; silently returning data is not
					if err == nil {
						key := fmt.Sprintf("%s/invalid-row-filter-accepted", fname)
						if r.Want(key) {
							r.Violation(key, fmt.Sprintf("%s %v: predicted data %s has an invalid row filter byte but decoding returned %x", fname, parms, desc(), got), rep())
						}
					}
					continue
				}
				if err != nil {
					key := fmt.Sprintf("%s/predictor=%s/valid-parameters-rejected", fname, cls)
					if r.Want(key) {
						r.Violation(key, fmt.Sprintf("%s %v rejected valid predicted data %s: %v", fname, parms, desc(), err), rep())
					}
					continue
				}
				if !bytes.Equal(got, want) {
					key := fmt.Sprintf("%s/predictor=%s/bpc=%d/wrong-bytes", fname, cls, g.bpc)
					if cls == "png" {
						key = fmt.Sprintf("%s/predictor=png/colors=%d,bpc=%d/wrong-bytes", fname, g.colors, g.bpc)
					}
					if r.Want(key) {
						r.Violation(key, fmt.Sprintf("%s %v: predicted %s decodes to %x, reference %x", fname, parms, desc(), got, want), rep())
					}
				}
			}
		}
		for nrows := 1; nrows <= maxRows; nrows++ {
			nrowsCur = nrows
			ftypes := ftypes
			if nrows > 1 && len(ftypes) > 5 {
				ftypes = ftypes[:5] // invalid row filter bytes are decided by the one-row cases
			}
			// enumerate row data tuples and filter-byte tuples
			idx := make([]int, nrows)
			fidx := make([]int, nrows)
			for {
				var raw []byte
				for k := 0; k < nrows; k++ {
					if g.pred >= 10 {
						raw = append(raw, ftypes[fidx[k]])
					}
					raw = append(raw, rows[idx[k]]...)
				}
				one(raw, func() string { return fmt.Sprintf("%x", raw) })
				// advance filter bytes, then data
				k := 0
				for ; k < nrows; k++ {
					fidx[k]++
					if fidx[k] < len(ftypes) {
						break
					}
					fidx[k] = 0
				}
				if k == nrows {
					j := 0
					for ; j < nrows; j++ {
						idx[j]++
						if idx[j] < len(rows) && !(nrows == 3 && len(rows) > 6 && idx[j] >= 6) {
							break
						}
						idx[j] = 0
					}
					if j == nrows {
						break
					}
				}
			}
		}
		r.Eval(ev)
		r.Nontrivial(nt)
	})
	r.Sample(map[string]any{"filter": "FlateDecode", "parms": map[string]int{"Predictor": 11, "Colors": 3, "BitsPerComponent": 4, "Columns": 2}, "predicted_hex": "01102030"})
	r.Sample(map[string]any{"filter": "FlateDecode", "parms": map[string]int{"Predictor": 2, "Colors": 1, "BitsPerComponent": 16, "Columns": 2}, "predicted_hex": "00ff0001"})
}
