package props

import (
	"bytes"
	"errors"
	"fmt"
	"os"
	"path/filepath"
	"strings"
	"syscall"
	"unicode"
	"unicode/utf8"

	"github.com/pdfcpu/pdfcpu/pkg/api"
	"github.com/pdfcpu/pdfcpu/pkg/pdfcpu/sanitize"
	vos "github.com/pdfcpu/pdfcpu/vx/vos"
	"verif/mc/core"
	"verif/mc/docgen"
	"verif/mc/fsx"
)

// C05: extracted files never escape the output directory or clobber each other.
func init() {
	core.Register(&core.Check{
		ID:    "C05",
		Level: "exploration",
		Rule: "(1) sanitize.Path / PathOr on every string of <=4 (thorough 5) symbols over a 23-symbol alphabet with one representative per class the sanitizer branches on (/ \\ . space tab : NUL 0x01 0x7F U+0085 U+00A0 U+2028 < * _ a, an invalid UTF-8 byte, and the tokens '..', 'C:', 'CON', 'nul', 'COM1', 'LPT9.txt'), plus long names: every prefix of <=2 symbols before/after a filler of 60..4096 bytes x 6 suffixes; (2) call sites under a filesystem monitor (every path handed to a creating os call must have the output directory as parent): ExtractAttachmentsFile on documents carrying every (name tree key, /F = /UF) pair of a 9 x 44 hostile name product and (/F, /UF) pairs of a 12-name subset; (3) every ordered pair of attachment names from a 26-string set with sanitizer- and case-equivalent members: both files exist with their own bytes, or the collision error is returned and the directory is unchanged; " +
			"non-trivial = an input containing a separator, dot-dot, drive, control or reserved token",
		Assume:   []string{"call sites covered so far: attachment extraction (file and name tree key paths); split-by-bookmark, image/font/content/page extraction and multi-fill names are driven through the same sanitizer (part 1) but not yet through their own call sites"},
		Run:      func(r *core.R) { core.Sharded(r, core.Workers()) },
		RunShard: c05shard,
	})
}

var c05alpha = []string{"/", "\\", ".", " ", "\t", ":", "\x00", "\x01", "\x7f", "\u0085", "\u00a0", "\u2028", "<", "*", "_", "a", "\xff", "..", "C:", "CON", "nul", "COM1", "LPT9.txt"}

var c05reserved = map[string]bool{"CON": true, "PRN": true, "AUX": true, "NUL": true}

func init() {
	for i := 1; i <= 9; i++ {
		c05reserved[fmt.Sprintf("COM%d", i)] = true
		c05reserved[fmt.Sprintf("LPT%d", i)] = true
	}
}

// c05nameOK judges a sanitized name; returns "" when fine.
func c05nameOK(res string) string {
	if res == "" {
		return "empty"
	}
	if res == "." || res == ".." {
		return "dot name"
	}
	for _, r := range res {
		if r == '/' || r == '\\' {
			return "contains a separator"
		}
		if r == 0 || r < 0x20 || unicode.IsControl(r) {
			return fmt.Sprintf("contains control rune U+%04X", r)
		}
	}
	if strings.HasPrefix(res, " ") || strings.HasSuffix(res, " ") || strings.HasPrefix(res, ".") && strings.Trim(res, ".") == "" || strings.HasSuffix(res, ".") {
		return "leading/trailing space or trailing dot"
	}
	out := "/out/dir"
	if filepath.Dir(filepath.Join(out, res)) != out {
		return "joins outside the output directory"
	}
	stem := res
	if i := strings.IndexByte(stem, '.'); i >= 0 {
		stem = stem[:i]
	}
	if c05reserved[strings.ToUpper(stem)] {
		return "reserved device name " + stem
	}
	return ""
}

func c05hostile(s string) bool {
	return strings.ContainsAny(s, "/\\:\x00\x01\x7f<*") || strings.Contains(s, "..") || !utf8.ValidString(s) || c05reserved[strings.ToUpper(strings.SplitN(s, ".", 2)[0])]
}

func c05shard(r *core.R, shard, n int) {
	// ---- (1) sanitizer, sharded on the first symbol
	maxLen := 4
	if !r.Quick() {
		maxLen = 5
	}
	for ai, first := range c05alpha {
		if ai%n != shard {
			continue
		}
		var rec func(cur string, depth int)
		rec = func(cur string, depth int) {
			r.Eval(1)
			if c05hostile(cur) {
				r.Nontrivial(1)
			}
			res, err := sanitize.Path(cur)
			if err == nil {
				if bad := c05nameOK(res); bad != "" {
					key := "sanitize.Path:" + bad
					if i := strings.Index(key, "U+"); i > 0 {
						key = key[:i+6]
					}
					if r.Want(key) {
						r.Violation(key, fmt.Sprintf("sanitize.Path(%q) = %q: %s", cur, res, bad), map[string]any{"input": cur})
					}
				}
			}
			po := sanitize.PathOr(cur, "fallback")
			if (err == nil && po != res) || (err != nil && po != "fallback") {
				r.Violation("sanitize.PathOr:inconsistent", fmt.Sprintf("PathOr(%q)=%q but Path gives (%q,%v)", cur, po, res, err), map[string]any{"input": cur})
			}
			if depth == maxLen {
				return
			}
			for _, a := range c05alpha {
				rec(cur+a, depth+1)
			}
		}
		rec(first, 1)
	}
	// ---- (1b) long names: the same oracle on (prefix of <=2 symbols) + filler of a length around every plausible
	// internal limit + suffix: a sanitizer that shortens, hashes or windows long names must stay safe
	if true {
		fillers := []int{60, 120, 199, 200, 201, 254, 255, 256, 300, 1024, 4096}
		suffixes := []string{"", ".txt", "/..", "/x", "\\..\\x", " "}
		var prefixes []string
		prefixes = append(prefixes, "")
		for _, a := range c05alpha {
			prefixes = append(prefixes, a)
			for _, b := range c05alpha {
				prefixes = append(prefixes, a+b)
			}
		}
		k := 0
		for _, pre := range prefixes {
			for _, fl := range fillers {
				for _, suf := range suffixes {
					k++
					if k%n != shard {
						continue
					}
					for _, cur := range []string{pre + strings.Repeat("A", fl) + suf, strings.Repeat("A", fl) + pre + suf} {
						r.Eval(1)
						r.Nontrivial(1)
						res, err := sanitize.Path(cur)
						if err != nil {
							continue
						}
						if bad := c05nameOK(res); bad != "" {
							key := "sanitize.Path:long-name:" + bad
							if r.Want(key) {
								r.Violation(key, fmt.Sprintf("sanitize.Path(%q + %d x A + %q) = %q: %s", pre, fl, suf, trimTo(res, 80), bad), map[string]any{"prefix": pre, "filler": fl, "suffix": suf})
							}
						}
					}
				}
			}
		}
	}
	if shard == 0 {
		sanitize.Path("")
		r.Sample(map[string]any{"sanitizer_input": "..\\C:/CON .txt"})
	}
	// ---- (2) call sites under the monitor
	api.DisableConfigDir()
	base := core.Scratch("c05")
	defer os.RemoveAll(base)
	names := []string{"a.txt", "..", ".", "/", "", " ", "...", "a\x00b", "../x.txt", "../../x", "/abs/x.txt", "C:\\x.txt", "C:x", "\\\\srv\\share\\x", "CON", "nul.txt", "COM1", "a/b", "a\\b", "..\\y", "x\ny", "x\ty", "\x01", "x\x7fy", "x\u0085y", "x\u2028y", "a:b", "<x>", "x*?", "\xff\xfe", " lead", "trail ", "trail.", ".hidden", "..a", "a..", "a/../b", "./a", "a/.", "a//b", "\u00a0", "con.TXT.txt", "lpt9", "x|y"}
	keys := []string{"k.txt", "../escaped.txt", "/abs/k", "..", "a/../../k", "C:\\k", "k\x00k", "CON", " "}
	// failAt >= 0: the failAt-th intercepted call of the extraction fails with failWith (descriptor exhaustion etc.)
	failAt, failWith, nEvents := -1, syscall.EMFILE, 0
	run := func(doc []byte, tag string, judgeCollision bool, want map[string][]byte) {
		dir := filepath.Join(base, "w")
		os.RemoveAll(dir)
		out := filepath.Join(dir, "deep", "er", "out")
		os.MkdirAll(out, 0o755)
		os.WriteFile(filepath.Join(dir, "in.pdf"), doc, 0o644)
		os.WriteFile(filepath.Join(dir, "deep", "victim.txt"), []byte("victim"), 0o644)
		t0 := fsx.Snap(dir)
		var escapes []string
		nEvents = 0
		vos.Before = func(ev *vos.Event) error {
			nEvents++
			if nEvents-1 == failAt {
				return failWith
			}
			creating := false
			p := ev.Path
			switch ev.Kind {
			case "create", "mkdir", "mkdirall", "symlink", "link", "rename":
				creating = true
				if ev.Path2 != "" {
					p = ev.Path2
				}
			case "createtemp", "mkdirtemp":
				creating = true
				p = filepath.Join(ev.Path, "x")
			case "openfile":
				creating = ev.Flag&(os.O_CREATE|os.O_WRONLY|os.O_RDWR|os.O_TRUNC) != 0
			case "remove", "removeall", "chmod", "truncate":
				creating = true
			}
			if creating {
				ap := p
				if !filepath.IsAbs(ap) {
					wd, _ := os.Getwd()
					ap = filepath.Join(wd, ap)
				}
				if filepath.Dir(filepath.Clean(ap)) != out {
					escapes = append(escapes, ev.Kind+" "+ap)
				}
			}
			return nil
		}
		var err error
		pv, _ := core.Try(func() { err = api.ExtractAttachmentsFile(filepath.Join(dir, "in.pdf"), out, nil, newConf()) })
		vos.Before = nil
		t1 := fsx.Snap(dir)
		r.Eval(1)
		r.Nontrivial(1)
		rep := map[string]any{"case": tag}
		if pv != nil {
			r.Violation("extract:panic", fmt.Sprintf("%s: ExtractAttachmentsFile panicked: %v", tag, pv), rep)
			return
		}
		if len(escapes) > 0 {
			key := "extract:creating-call-outside-outdir"
			if r.Want(key) {
				r.Violation(key, fmt.Sprintf("%s: filesystem call outside the output directory: %v", tag, escapes), rep)
			}
		}
		for _, df := range fsx.Diff(t0, t1) {
			name := df[strings.Index(df, ":")+1:]
			if i := strings.Index(name, "("); i >= 0 {
				name = name[:i]
			}
			if filepath.Dir(name) != "deep/er/out" {
				key := "extract:file-changed-outside-outdir"
				if r.Want(key) {
					r.Violation(key, fmt.Sprintf("%s: %s", tag, df), rep)
				}
			} else if bad := c05nameOK(filepath.Base(name)); bad != "" && !strings.HasPrefix(bad, "leading") {
				key := "extract:bad-output-name:" + strings.SplitN(bad, " U+", 2)[0]
				if r.Want(key) {
					r.Violation(key, fmt.Sprintf("%s: created %q: %s", tag, filepath.Base(name), bad), rep)
				}
			}
		}
		if judgeCollision {
			nfiles := 0
			for name, e := range t1 {
				if filepath.Dir(name) == "deep/er/out" && !e.Mode.IsDir() {
					nfiles++
				}
			}
			if err != nil && failAt >= 0 {
				// the injected failure made the extraction fail: what is left behind is C01's subject
				r.Count("faulted_pair_failed", 1)
			} else if err != nil {
				if !errors.Is(err, api.ErrAttachmentOutputCollision) {
					r.Count("pair_other_error", 1)
				} else {
					r.Count("pair_collision_reported", 1)
				}
				if nfiles != 0 {
					key := "collision:error-but-files-written"
					if r.Want(key) {
						r.Violation(key, fmt.Sprintf("%s: error %v but %d file(s) were written", tag, err, nfiles), rep)
					}
				}
			} else {
				r.Count("pair_both_written", 1)
				// every attachment must exist exactly with its own bytes
				found := 0
				for name := range t1 {
					if filepath.Dir(name) != "deep/er/out" {
						continue
					}
					b, _ := os.ReadFile(filepath.Join(dir, name))
					for _, w := range want {
						if bytes.Equal(b, w) {
							found++
							break
						}
					}
				}
				if nfiles != len(want) || found != len(want) {
					key := "collision:silent-overwrite"
					if r.Want(key) {
						r.Violation(key, fmt.Sprintf("%s: %d attachments extracted into %d files (%d with their own bytes) and no error", tag, len(want), nfiles, found), rep)
					}
				}
			}
		}
	}
	idx := 0
	for _, k := range keys {
		for _, f := range names {
			idx++
			if idx%n != shard {
				continue
			}
			doc := docgen.WithAttachments([]docgen.AttSpec{{Key: k, F: f, UF: f, Data: []byte("data-" + k)}})
			run(doc, fmt.Sprintf("key=%q F=UF=%q", k, f), false, nil)
		}
	}
	sub := []string{"a.txt", "..", "/", "", "a\x00b", "../x.txt", "C:\\x.txt", "CON", "..\\y", " ", "x\ny", "/abs/x"}
	for _, f := range sub {
		for _, uf := range sub {
			idx++
			if idx%n != shard {
				continue
			}
			doc := docgen.WithAttachments([]docgen.AttSpec{{Key: "../k", F: f, UF: uf, Data: []byte("d")}, {Key: "k2", F: uf, NoUF: true, Data: []byte("e")}})
			run(doc, fmt.Sprintf("F=%q UF=%q", f, uf), false, nil)
		}
	}
	// ---- (3) collisions
	cset := []string{"a.txt", "A.TXT", "a.txt ", " a.txt", "a.txt.", "dir/a.txt", "dir\\a.txt", "../a.txt", "a_txt", "a:txt", "a<txt", "a*txt", "a__txt", "b.txt", "CON", "_CON", "con", "x/y", "x_y", "x\\y", "..", "attachment_1", "attachment_2", "", "/", "a\x01txt"}
	for i, n1 := range cset {
		for j, n2 := range cset {
			idx++
			if idx%n != shard {
				continue
			}
			d1, d2 := []byte(fmt.Sprintf("first-%d", i)), []byte(fmt.Sprintf("second-%d-%d", i, j))
			doc := docgen.WithAttachments([]docgen.AttSpec{{Key: "k1", F: n1, UF: n1, Data: d1}, {Key: "k2", F: n2, UF: n2, Data: d2}})
			run(doc, fmt.Sprintf("pair %q , %q", n1, n2), true, map[string][]byte{"1": d1, "2": d2})
		}
	}
	// ---- (4) collisions while the process runs out of descriptors (or hits an I/O error): three attachments, the first and
	// the last mapping to the same output name, every intercepted call failing in turn. Whatever pdfcpu does about the
	// failure, reporting success with fewer files than attachments (one written over the other) is never acceptable.
	for pi, pr := range [][2]string{{"a.txt", "dir/a.txt"}, {"C:report.txt", "report.txt"}, {"x/y", "x_y"}, {"a.txt", "a.txt"}} {
		d1, d2, d3 := []byte("first"), []byte("middle"), []byte("last")
		doc := docgen.WithAttachments([]docgen.AttSpec{{Key: "k1", F: pr[0], UF: pr[0], Data: d1}, {Key: "k2", F: "m.bin", UF: "m.bin", Data: d2}, {Key: "k3", F: pr[1], UF: pr[1], Data: d3}})
		want := map[string][]byte{"1": d1, "2": d2, "3": d3}
		failAt = -1
		run(doc, fmt.Sprintf("triple %q , m.bin , %q", pr[0], pr[1]), true, want)
		total := nEvents
		for _, en := range []syscall.Errno{syscall.EMFILE, syscall.EIO} {
			for at := 0; at < total+3; at++ {
				idx++
				if idx%n != shard {
					continue
				}
				failAt, failWith = at, en
				run(doc, fmt.Sprintf("triple %d (%q , m.bin , %q) with call %d failing with %v", pi, pr[0], pr[1], at+1, en), true, want)
				r.Count("faulted_collision_runs", 1)
			}
		}
		failAt = -1
	}
	if shard == 0 {
		r.Sample(map[string]any{"attachment": map[string]string{"key": "../escaped.txt", "F": "..", "UF": ".."}})
		r.Sample(map[string]any{"pair": []string{"a.txt", "A.TXT"}})
	}
}
