package props

import (
	"crypto/x509"
	"encoding/pem"
	"fmt"
	"os"
	"path/filepath"
	"sort"
	"strings"
	"time"

	"github.com/anishathalye/porcupine"
	"github.com/pdfcpu/pdfcpu/pkg/pdfcpu"
	"github.com/pdfcpu/pdfcpu/pkg/pdfcpu/model"
	"github.com/pdfcpu/pdfcpu/vx/vsched"
	"verif/mc/core"
	"verif/mc/sched"
)

type certHist struct {
	thread    int
	op        certOp
	arg       string
	res       certRes
	call, ret int64
}

type certIn struct{ Kind, Arg string }

type certState struct {
	dir    string
	rev    int
	loaded bool
	crev   int
	pool   string
	has    bool // a pool has been loaded at least once
}

var certModel = porcupine.Model{
	Init: func() interface{} { return certState{} },
	Step: func(state, input, output interface{}) (bool, interface{}) {
		st := state.(certState)
		in := input.(certIn)
		res := output.(certRes)
		if res.Err != "" {
			return false, st
		}
		switch in.Kind {
		case "seed": // initial directory content, no revision change
			st.dir = setAdd(st.dir, in.Arg)
		case "import":
			st.dir = setAdd(st.dir, in.Arg)
			st.rev++
		case "load":
			if !(st.loaded && st.crev == st.rev) {
				st.pool, st.crev, st.loaded, st.has = st.dir, st.rev, true, true
			}
		case "invalidate":
			st.loaded = false
		case "pool":
			return res.Subjects == st.pool, st
		}
		return true, st
	},
	Equal: func(a, b interface{}) bool { return a.(certState) == b.(certState) },
}

var c40CertPEM = map[string][]byte{}

func c40Cert(name string) []byte {
	if b, ok := c40CertPEM[name]; ok {
		return b
	}
	b := makeCertPEM(name)
	c40CertPEM[name] = b
	return b
}

func runCertOp(dir string, in certIn) certRes {
	switch in.Kind {
	case "seed":
		os.WriteFile(filepath.Join(dir, in.Arg+".pem"), c40Cert(in.Arg), 0o644)
	case "import":
		if err := os.WriteFile(filepath.Join(dir, in.Arg+".pem"), c40Cert(in.Arg), 0o644); err != nil {
			return certRes{Err: err.Error()}
		}
		model.MarkCertificateStoreChanged()
	case "load":
		if err := pdfcpu.LoadCertificates(); err != nil {
			return certRes{Err: err.Error()}
		}
	case "invalidate":
		pdfcpu.InvalidateCertificatePool()
	case "pool":
		var names []string
		for _, raw := range pdfcpu.VerifUserCertificatePoolSubjects() {
			names = append(names, subjectCN([]byte(raw)))
		}
		sort.Strings(names)
		return certRes{Subjects: strings.Join(names, ",")}
	}
	return certRes{}
}

func subjectCN(rawSubject []byte) string {
	// the harness certificates are self-signed with CN only: find the certificate with this raw subject
	for name, p := range c40CertPEM {
		blk, _ := pem.Decode(p)
		if c, err := x509.ParseCertificate(blk.Bytes); err == nil && string(c.RawSubject) == string(rawSubject) {
			return name
		}
	}
	return "?"
}

type certScenario struct {
	name      string
	initial   []string
	preloaded bool
	threads   [][]certIn
}

func c40CertScenarios() []certScenario {
	return []certScenario{
		{"first load race while a certificate is imported", []string{"c1"}, false,
			[][]certIn{{{"load", ""}, {"pool", ""}}, {{"import", "c2"}, {"load", ""}, {"pool", ""}}, {{"pool", ""}, {"load", ""}, {"pool", ""}}}},
		{"invalidate and import against a loaded pool", []string{"c1"}, true,
			[][]certIn{{{"invalidate", ""}, {"load", ""}, {"pool", ""}}, {{"import", "c2"}, {"load", ""}, {"pool", ""}}, {{"pool", ""}}}},
		{"two importers", []string{"c1"}, true,
			[][]certIn{{{"import", "c2"}, {"load", ""}, {"pool", ""}}, {{"import", "c3"}, {"load", ""}, {"pool", ""}}}},
	}
}

func runC40Certs(r *core.R, base string, bound int) {
	for _, n := range []string{"c1", "c2", "c3"} {
		c40Cert(n)
	}
	seq := 0
	for _, cs := range c40CertScenarios() {
		cs := cs
		sc := &sched.Scenario{Name: cs.name, Run: func(s *vsched.Scheduler) any {
			seq++
			dir := filepath.Join(base, fmt.Sprintf("c%d", seq%4))
			os.RemoveAll(dir)
			os.MkdirAll(dir, 0o755)
			pdfcpu.VerifResetCertificatePool()
			model.TrustedCertDir = dir
			s.Name(model.VerifRevisionObject(), "certificateStoreRevision")
			var clock int64
			var hist []certHist
			for _, c := range cs.initial {
				runCertOp(dir, certIn{"seed", c})
				clock++
				hist = append(hist, certHist{thread: -1, arg: "seed:" + c, call: clock, ret: clock})
			}
			if cs.preloaded {
				pdfcpu.LoadCertificates()
				clock++
				hist = append(hist, certHist{thread: -1, arg: "load:", call: clock, ret: clock})
			}
			bodies := make([]func(), len(cs.threads))
			for ti, ops := range cs.threads {
				ti, ops := ti, ops
				bodies[ti] = func() {
					for _, in := range ops {
						clock++
						call := clock
						res := runCertOp(dir, in)
						clock++
						hist = append(hist, certHist{thread: ti, arg: in.Kind + ":" + in.Arg, res: res, call: call, ret: clock})
					}
				}
			}
			s.Run(bodies)
			return hist
		}}
		outcomes := map[string]bool{}
		ex := &sched.Explorer{Bound: bound}
		ex.OnExec = func(x *sched.Exec) bool {
			r.Eval(1)
			pre := 0
			for k := range x.Choices {
				if x.Running[k] >= 0 && x.Enabled[k][0] == x.Running[k] && x.Choices[k] != 0 {
					pre++
				}
			}
			if pre > 0 {
				r.Nontrivial(1)
			}
			h := x.Obs.([]certHist)
			var ops []porcupine.Operation
			var sb, ob strings.Builder
			for _, e := range h {
				kv := strings.SplitN(e.arg, ":", 2)
				ops = append(ops, porcupine.Operation{ClientId: e.thread + 1, Input: certIn{kv[0], kv[1]}, Call: e.call, Output: e.res, Return: e.ret})
				fmt.Fprintf(&sb, "[t%d %s -> %v @%d..%d] ", e.thread, e.arg, e.res, e.call, e.ret)
				if e.thread >= 0 && kv[0] == "pool" {
					fmt.Fprintf(&ob, "t%d=%s ", e.thread, e.res.Subjects)
				}
			}
			outcomes[ob.String()] = true
			rep := func() any {
				return map[string]any{"scenario": cs.name, "schedule": x.Choices, "trace": x.Trace, "history": sb.String()}
			}
			switch {
			case x.Deadlock:
				r.Violation("deadlock:"+cs.name, fmt.Sprintf("%s: deadlock: %s", cs.name, x.Trace[len(x.Trace)-1]), rep())
			case x.Livelock:
				r.Violation("livelock:"+cs.name, cs.name+": horizon of scheduling points reached", rep())
			case len(x.Panics) > 0:
				r.Violation("panic:"+cs.name, fmt.Sprintf("%s: %s", cs.name, trimTo(x.Panics[0], 300)), rep())
			default:
				if res := porcupine.CheckOperationsTimeout(certModel, ops, 10*time.Second); res == porcupine.Illegal {
					r.Violation("not-linearizable:"+cs.name, fmt.Sprintf("%s: history is not linearizable against the sequential pool-cache model: %s (schedule %v)", cs.name, trimTo(sb.String(), 700), x.Choices), rep())
				}
			}
			return !r.Expired()
		}
		ex.Explore(sc)
		if ex.Divergence != "" {
			r.HarnessError("%s: %s", cs.name, ex.Divergence)
		}
		r.Note("schedules:"+cs.name, fmt.Sprintf("%d executions, %d scheduling points, longest %d, %d distinct outcomes", ex.Execs, ex.Points, ex.MaxDepth, len(outcomes)))
		if r.Expired() {
			r.Cut("deadline during " + cs.name)
			break
		}
	}
}
