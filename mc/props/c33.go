package props

import (
	"bytes"
	"fmt"
	"io"
	"os"
	"path/filepath"
	"sort"
	"strings"

	"github.com/pdfcpu/pdfcpu/pkg/api"
	"verif/mc/core"
	"verif/mc/docgen"
	"verif/mc/pdfx"
)

// C33: split and merge preserve the page sequence.
func init() {
	core.Register(&core.Check{
		ID:    "C33",
		Level: "exploration",
		Rule: "split: marked documents with 1..16 (thorough 30) pages x span 1..pages+1 through SplitRaw and through Split into a directory; x every page-number list of length <=2 (and {2, n/2, n} triples) through SplitByPageNr; merge: every sequence of 1-3 documents out of 8 (page counts 1,2,3,5; one with inherited attributes, one with shared indirect page attributes, two with unused object numbers below /Size, one hand-built AcroForm) through MergeRaw with divider pages off/on, every ordered pair through MergeCreateZip, and file-based create/append; oracle: concatenated markers of the parts equal the original sequence (merge: concatenation / interleaving, blank dividers only where requested), inputs byte-identical afterwards; " +
			"non-trivial = a case with a final short part, more than one input, or unequal lengths (zip)",
		Run: runC33,
	})
}

func docMarkers(b []byte) ([][]int, error) {
	ctx, err := pdfx.Read(b, nil)
	if err != nil {
		return nil, err
	}
	pgs, err := pdfx.Pages(ctx)
	if err != nil {
		return nil, err
	}
	var out [][]int
	for _, p := range pgs {
		out = append(out, pdfx.Markers(ctx, p))
	}
	return out, nil
}

func flatMarkers(b []byte) ([]int, int, error) {
	mm, err := docMarkers(b)
	if err != nil {
		return nil, 0, err
	}
	var out []int
	blanks := 0
	for _, m := range mm {
		if len(m) == 0 {
			blanks++
			out = append(out, 0)
		}
		out = append(out, m...)
	}
	return out, blanks, nil
}

func seq(from, n int) []int {
	var s []int
	for i := 0; i < n; i++ {
		s = append(s, from+i)
	}
	return s
}

func runC33(r *core.R) {
	maxN := 16
	if !r.Quick() {
		maxN = 30
	}
	// ---- split by span
	core.ParFor(maxN, func(i int) {
		n := i + 1
		doc := docgen.Marked(n, 0)
		for span := 1; span <= n+1; span++ {
			r.Eval(1)
			if n%span != 0 {
				r.Nontrivial(1)
			}
			rep := map[string]any{"pages": n, "span": span}
			var ps []*api.PageSpan
			var err error
			pv, _ := core.Try(func() { ps, err = api.SplitRaw(bytes.NewReader(doc), span, newConf()) })
			if pv != nil || err != nil {
				key := "split-span:failed"
				if r.Want(key) {
					r.Violation(key, fmt.Sprintf("SplitRaw(%d pages, span %d): %v %v", n, span, err, pv), rep)
				}
				continue
			}
			var got []int
			wantParts := (n + span - 1) / span
			bad := ""
			if len(ps) != wantParts {
				bad = fmt.Sprintf("%d parts, want %d", len(ps), wantParts)
			}
			for pi, p := range ps {
				b, _ := io.ReadAll(p.Reader)
				mk, _, err := flatMarkers(b)
				if err != nil {
					bad = fmt.Sprintf("part %d unreadable: %v", pi+1, err)
					break
				}
				if pi < len(ps)-1 && len(mk) != span {
					bad = fmt.Sprintf("part %d has %d pages, span %d", pi+1, len(mk), span)
				}
				if len(mk) > 0 && (p.From != mk[0] || p.Thru != mk[len(mk)-1]) {
					bad = fmt.Sprintf("part %d reports pages %d-%d but holds %v", pi+1, p.From, p.Thru, mk)
				}
				got = append(got, mk...)
			}
			if bad == "" && fmt.Sprint(got) != fmt.Sprint(seq(1, n)) {
				bad = fmt.Sprintf("concatenated parts give %v", got)
			}
			if bad != "" {
				key := "split-span:wrong-sequence"
				if r.Want(key) {
					r.Violation(key, fmt.Sprintf("SplitRaw(%d pages, span %d): %s", n, span, bad), rep)
				}
			}
		}
	})
	r.Sample(map[string]any{"op": "SplitRaw", "pages": 7, "span": 3})
	// ---- split into a directory by span and by page numbers
	base := core.Scratch("c33")
	defer os.RemoveAll(base)
	readDirSeq := func(dir string) ([]int, []string, error) {
		es, err := os.ReadDir(dir)
		if err != nil {
			return nil, nil, err
		}
		type part struct {
			name string
			mk   []int
		}
		var parts []part
		for _, e := range es {
			b, err := os.ReadFile(filepath.Join(dir, e.Name()))
			if err != nil {
				return nil, nil, err
			}
			mk, _, err := flatMarkers(b)
			if err != nil {
				return nil, nil, fmt.Errorf("%s: %v", e.Name(), err)
			}
			parts = append(parts, part{e.Name(), mk})
		}
		sort.Slice(parts, func(i, j int) bool {
			if len(parts[i].mk) == 0 || len(parts[j].mk) == 0 {
				return parts[i].name < parts[j].name
			}
			return parts[i].mk[0] < parts[j].mk[0]
		})
		var all []int
		var names []string
		for _, p := range parts {
			all = append(all, p.mk...)
			names = append(names, p.name)
		}
		return all, names, nil
	}
	core.ParFor(maxN, func(i int) {
		n := i + 1
		doc := docgen.Marked(n, 0)
		var lists [][]int
		for a := 1; a <= n+1; a++ {
			lists = append(lists, []int{a})
			for b := a; b <= n+1; b++ {
				lists = append(lists, []int{a, b})
			}
		}
		lists = append(lists, []int{2, (n + 1) / 2, n}, []int{n, 2})
		for li, l := range lists {
			dir := filepath.Join(base, fmt.Sprintf("n%d-l%d", n, li))
			os.MkdirAll(dir, 0o755)
			r.Eval(1)
			r.Nontrivial(1)
			var err error
			pv, _ := core.Try(func() { err = api.SplitByPageNr(bytes.NewReader(doc), dir, "doc", l, newConf()) })
			rep := map[string]any{"pages": n, "page_numbers": l}
			valid := true
			for i, p := range l {
				if p < 2 || p > n || (i > 0 && p <= l[i-1]) {
					valid = false // pdfcpu demands strictly ascending page numbers within 2..n
				}
			}
			if pv != nil {
				r.Violation("split-pagenr:panic", fmt.Sprintf("SplitByPageNr(%d pages, %v) panicked: %v", n, l, pv), rep)
			} else if err != nil {
				if valid {
					key := "split-pagenr:failed"
					if r.Want(key) {
						r.Violation(key, fmt.Sprintf("SplitByPageNr(%d pages, %v): %v", n, l, err), rep)
					}
				}
			} else {
				got, names, err := readDirSeq(dir)
				if err != nil || fmt.Sprint(got) != fmt.Sprint(seq(1, n)) {
					key := "split-pagenr:wrong-sequence"
					if r.Want(key) {
						r.Violation(key, fmt.Sprintf("SplitByPageNr(%d pages, %v): parts %v give %v (%v)", n, l, names, got, err), rep)
					}
				}
			}
			os.RemoveAll(dir)
		}
		// Split into a directory
		for _, span := range []int{1, 2, 3, n} {
			dir := filepath.Join(base, fmt.Sprintf("n%d-s%d", n, span))
			os.MkdirAll(dir, 0o755)
			r.Eval(1)
			err := api.Split(bytes.NewReader(doc), dir, "doc", span, newConf())
			got, names, rerr := readDirSeq(dir)
			if err != nil || rerr != nil || fmt.Sprint(got) != fmt.Sprint(seq(1, n)) {
				key := "split-dir:wrong-sequence"
				if r.Want(key) {
					r.Violation(key, fmt.Sprintf("Split(%d pages, span %d): err=%v parts %v give %v (%v)", n, span, err, names, got, rerr), map[string]any{"pages": n, "span": span})
				}
			}
			os.RemoveAll(dir)
		}
	})
	r.Sample(map[string]any{"op": "SplitByPageNr", "pages": 9, "page_numbers": []int{2, 5, 9}})
	// ---- merge
	inherit := ""
	for _, f := range docgen.Family(true) {
		if f.Name == "pages=3,nested=true,attrs=first-subtree-defines/classic" {
			inherit = string(f.Bytes)
		}
	}
	type src struct {
		b  []byte
		mk []int
	}
	srcs := []src{{docgen.Marked(1, 100), seq(101, 1)}, {docgen.Marked(2, 200), seq(201, 2)}, {[]byte(inherit), seq(1, 3)}, {docgen.Marked(5, 500), seq(501, 5)}}
	// two inputs in other producers' style: pages sharing one indirect /MediaBox array and one /Resources
	// dictionary (3 pages), and a hand-built AcroForm (1 page)
	for _, f := range docgen.Family(true) {
		if f.Name == "numbering=dense,extra=shared-indirect-attrs/classic" || f.Name == "numbering=gaps,extra=none/classic" || f.Name == "numbering=gaps,extra=none/xrefstream" {
			// (the gapped ones leave object numbers below /Size unused, as incrementally edited files do)
			srcs = append(srcs, src{f.Bytes, seq(1, 3)})
		}
	}
	srcs = append(srcs, src{docgen.ForeignForm("classic"), seq(1, 1)})
	nsrc := len(srcs)
	var combos [][]int
	for a := 0; a < nsrc; a++ {
		combos = append(combos, []int{a})
		for b := 0; b < nsrc; b++ {
			combos = append(combos, []int{a, b})
			for c := 0; c < nsrc; c++ {
				if r.Quick() && (a >= 4 || b >= 4) && c >= 4 {
					continue
				}
				combos = append(combos, []int{a, b, c})
			}
		}
	}
	core.ParFor(len(combos), func(ci int) {
		c := combos[ci]
		for _, divider := range []bool{false, true} {
			r.Eval(1)
			if len(c) > 1 {
				r.Nontrivial(1)
			}
			var rsc []io.ReadSeeker
			var want []int
			var copies [][]byte
			for i, s := range c {
				cp := append([]byte{}, srcs[s].b...)
				copies = append(copies, cp)
				rsc = append(rsc, bytes.NewReader(cp))
				if divider && i > 0 {
					want = append(want, 0)
				}
				want = append(want, srcs[s].mk...)
			}
			var out bytes.Buffer
			var err error
			pv, _ := core.Try(func() { err = api.MergeRaw(rsc, &out, divider, newConf()) })
			rep := map[string]any{"inputs": c, "divider": divider}
			if pv != nil || err != nil {
				key := "merge:failed"
				if r.Want(key) {
					r.Violation(key, fmt.Sprintf("MergeRaw(%v, divider=%v): %v %v", c, divider, err, pv), rep)
				}
				continue
			}
			got, _, err := flatMarkers(out.Bytes())
			if err != nil || fmt.Sprint(got) != fmt.Sprint(want) {
				key := fmt.Sprintf("merge:wrong-sequence:divider=%v", divider)
				if r.Want(key) {
					r.Violation(key, fmt.Sprintf("MergeRaw(%v, divider=%v) gives %v, want %v (%v)", c, divider, got, want, err), rep)
				}
			}
			for i, s := range c {
				if !bytes.Equal(copies[i], srcs[s].b) {
					r.Violation("merge:input-modified", fmt.Sprintf("MergeRaw(%v) modified input %d", c, i), rep)
				}
			}
		}
	})
	r.Sample(map[string]any{"op": "MergeRaw", "inputs": []int{2, 0, 3}, "divider": true})
	// zip: every ordered pair
	for a := 0; a < nsrc; a++ {
		for b := 0; b < nsrc; b++ {
			r.Eval(1)
			if len(srcs[a].mk) != len(srcs[b].mk) {
				r.Nontrivial(1)
			}
			var want []int
			for i := 0; i < len(srcs[a].mk) || i < len(srcs[b].mk); i++ {
				if i < len(srcs[a].mk) {
					want = append(want, srcs[a].mk[i])
				}
				if i < len(srcs[b].mk) {
					want = append(want, srcs[b].mk[i])
				}
			}
			var out bytes.Buffer
			var err error
			pv, _ := core.Try(func() {
				err = api.MergeCreateZip(bytes.NewReader(srcs[a].b), bytes.NewReader(srcs[b].b), &out, newConf())
			})
			rep := map[string]any{"zip": []int{a, b}}
			if pv != nil || err != nil {
				r.Violation("zip:failed", fmt.Sprintf("MergeCreateZip(%d,%d): %v %v", a, b, err, pv), rep)
				continue
			}
			got, _, err := flatMarkers(out.Bytes())
			if err != nil || fmt.Sprint(got) != fmt.Sprint(want) {
				key := "zip:wrong-sequence"
				if len(srcs[a].mk) < len(srcs[b].mk) {
					key += ":second-longer"
				} else if len(srcs[a].mk) > len(srcs[b].mk) {
					key += ":first-longer"
				}
				if r.Want(key) {
					r.Violation(key, fmt.Sprintf("MergeCreateZip(%d pages, %d pages) gives %v, want %v (%v)", len(srcs[a].mk), len(srcs[b].mk), got, want, err), rep)
				}
			}
		}
	}
	r.Sample(map[string]any{"op": "MergeCreateZip", "pages": []int{2, 5}})
	// file based create / append
	for a := 0; a < nsrc; a++ {
		for b := 0; b < nsrc; b++ {
			dir := filepath.Join(base, fmt.Sprintf("m%d%d", a, b))
			os.MkdirAll(dir, 0o755)
			pa, pb, po := filepath.Join(dir, "a.pdf"), filepath.Join(dir, "b.pdf"), filepath.Join(dir, "out.pdf")
			os.WriteFile(pa, srcs[a].b, 0o644)
			os.WriteFile(pb, srcs[b].b, 0o644)
			r.Eval(1)
			r.Nontrivial(1)
			err := api.MergeCreateFile([]string{pa, pb}, po, false, newConf())
			ob, _ := os.ReadFile(po)
			got, _, rerr := flatMarkers(ob)
			want := append(append([]int{}, srcs[a].mk...), srcs[b].mk...)
			if err != nil || rerr != nil || fmt.Sprint(got) != fmt.Sprint(want) {
				r.Violation("merge-create-file:wrong-sequence", fmt.Sprintf("MergeCreateFile(%d,%d): err=%v gives %v want %v", a, b, err, got, want), map[string]any{"inputs": []int{a, b}})
			}
			// append b to the output again
			err = api.MergeAppendFile([]string{pb}, po, false, newConf())
			ob, _ = os.ReadFile(po)
			got, _, rerr = flatMarkers(ob)
			want = append(want, srcs[b].mk...)
			if err != nil || rerr != nil || fmt.Sprint(got) != fmt.Sprint(want) {
				r.Violation("merge-append-file:wrong-sequence", fmt.Sprintf("MergeAppendFile(%d onto %d+%d): err=%v gives %v want %v", b, a, b, err, got, want), map[string]any{"inputs": []int{a, b}})
			}
			ia, _ := os.ReadFile(pa)
			ib, _ := os.ReadFile(pb)
			if !bytes.Equal(ia, srcs[a].b) || !bytes.Equal(ib, srcs[b].b) {
				r.Violation("merge-file:input-modified", fmt.Sprintf("file merge (%d,%d) modified an input", a, b), nil)
			}
			os.RemoveAll(dir)
		}
	}
	_ = strings.Join
}
