package props

import (
	"bytes"
	"fmt"
	"os"
	"path/filepath"
	"sort"
	"strings"

	"github.com/pdfcpu/pdfcpu/pkg/api"
	"github.com/pdfcpu/pdfcpu/pkg/pdfcpu/model"
	"github.com/pdfcpu/pdfcpu/pkg/pdfcpu/types"
	"verif/mc/core"
	"verif/mc/docgen"
	"verif/mc/pdfx"
	"verif/mc/strictpdf"
)

// C20: optimization never changes what a document shows.
func init() {
	core.Register(&core.Check{
		ID:    "C20",
		Level: "exploration",
		Rule: "near-duplicate family: two pages each using one member of a pair of images / fonts / form XObjects / ExtGStates that are identical except for exactly one attribute out of a list (image: data byte, dimensions, Decode, Interpolate, SMask, ColorSpace, filter-only; font: Encoding, Widths, FirstChar, descriptor Flags, ToUnicode, BaseFont; form: content, BBox, Matrix, Resources; gstate: CA, LW) x {equal, different} x resource placement {direct per page, shared indirect sub dictionary holding both names, inherited from the Pages node}, plus an unreferenced object; plus the C19 document family (incl. resource names that need #xx escapes); thorough adds the repository's sample documents; oracle: page count/order by marker, per-page fingerprint (decoded content, effective boxes/rotation, deep canonical serialisation of exactly the resources the page's content uses) unchanged, and optimize(optimize(x)) has the same object count as optimize(x); " +
			"non-trivial = a case whose two resources differ (must not be merged) or are equal (may be merged without changing either page)",
		Assume: []string{"'uses' is computed by the harness from the page content (operators Tf, Do, gs) so that pruning of unused resource names is allowed while loss of a used one is not"},
		Run:    runC20,
	})
}

// usedFingerprint: content + boxes + the resources actually referenced by the content.
func usedFingerprints(b []byte) ([]string, []int, int, error) {
	ctx, err := pdfx.Read(b, nil)
	if err != nil {
		return nil, nil, 0, err
	}
	pgs, err := pdfx.Pages(ctx)
	if err != nil {
		return nil, nil, 0, err
	}
	var fps []string
	var mks []int
	for _, p := range pgs {
		content := pdfx.NormContent(p)
		used := map[string][]string{}
		toks := strings.Fields(content)
		for i, t := range toks {
			if i == 0 || !strings.HasPrefix(toks[i-1], "/") && !(i >= 2 && strings.HasPrefix(toks[i-2], "/")) {
				continue
			}
			switch t {
			case "Do":
				used["XObject"] = append(used["XObject"], toks[i-1][1:])
			case "gs":
				used["ExtGState"] = append(used["ExtGState"], toks[i-1][1:])
			case "Tf":
				if i >= 2 {
					used["Font"] = append(used["Font"], toks[i-2][1:])
				}
			}
		}
		var parts []string
		for _, cat := range []string{"ExtGState", "Font", "XObject"} {
			names := used[cat]
			sort.Strings(names)
			for _, raw := range names {
				name, _ := types.DecodeName(raw)
				val := "MISSING"
				if p.Resources != nil {
					if sub, ok := p.Resources.Find(cat); ok {
						if sd, err := ctx.DereferenceDict(sub); err == nil && sd != nil {
							if o, ok := sd.Find(name); ok {
								val = pdfx.Canon(ctx, o, nil)
							}
						}
					}
				}
				parts = append(parts, cat+"/"+name+"="+val)
			}
		}
		fps = append(fps, fmt.Sprintf("content=%s|mb=%v|cb=%v|rot=%d|%s", content, p.MediaBox, p.CropBox, p.Rotate, strings.Join(parts, ";")))
		mk := pdfx.Markers(ctx, p)
		if len(mk) > 0 {
			mks = append(mks, mk[0])
		} else {
			mks = append(mks, 0)
		}
	}
	n := 0
	for _, e := range ctx.Table {
		if e != nil && !e.Free {
			n++
		}
	}
	return fps, mks, n, nil
}

func runC20(r *core.R) {
	api.DisableConfigDir()
	type dcase struct {
		name string
		doc  []byte
	}
	var cases []dcase
	kinds := []string{"image", "font", "form", "gstate"}
	for _, k := range kinds {
		for _, attr := range docgen.NearDupAttrs[k] {
			for _, diff := range []bool{false, true} {
				for _, pl := range []string{"direct", "shared-subdict", "inherited", "shared-subdict+inherited-other", "shared-resources+inherited-other"} {
					s := docgen.NearDupSpec{Kind: k, Attr: attr, Different: diff, Placement: pl}
					cases = append(cases, dcase{fmt.Sprintf("neardup:%s/%s/different=%v/%s", k, attr, diff, pl), docgen.NearDup(s)})
				}
			}
		}
	}
	for _, f := range docgen.Family(!r.Quick()) {
		cases = append(cases, dcase{"family:" + f.Name, f.Bytes})
	}
	if !r.Quick() {
		files, _ := filepath.Glob(filepath.Join(core.RepoDir(), "pkg/testdata/*.pdf"))
		for _, fn := range files {
			if fi, err := os.Stat(fn); err == nil && fi.Size() < 400<<10 {
				if b, err := os.ReadFile(fn); err == nil {
					cases = append(cases, dcase{"corpus:" + filepath.Base(fn), b})
				}
			}
		}
	}
	r.Note("documents", len(cases))
	core.ParFor(len(cases), func(i int) {
		c := cases[i]
		r.Eval(1)
		r.Nontrivial(1)
		rep := map[string]any{"document": c.name}
		cls := strings.SplitN(c.name, "/different", 2)[0]
		before, mk0, _, err := usedFingerprints(c.doc)
		if err != nil {
			if strings.HasPrefix(c.name, "corpus:") {
				r.Count("corpus_unreadable_by_walker", 1)
				return
			}
			r.HarnessError("%s: %v", c.name, err)
			return
		}
		conf := model.NewDefaultConfiguration()
		conf.ValidationMode = model.ValidationRelaxed
		// plain containers, so that object counts of successive passes are comparable
		conf.WriteObjectStream, conf.WriteXRefStream = false, false
		var o1 bytes.Buffer
		var oerr error
		pv, _ := core.Try(func() { oerr = api.Optimize(bytes.NewReader(c.doc), &o1, conf) })
		if pv != nil || oerr != nil {
			if strings.HasPrefix(c.name, "corpus:") && pv == nil {
				r.Count("corpus_optimize_refused", 1)
				return
			}
			r.Violation("optimize:failed:"+cls, fmt.Sprintf("Optimize(%s): %v %v", c.name, oerr, pv), rep)
			return
		}
		after, mk1, _, err := usedFingerprints(o1.Bytes())
		n1 := len(strictpdf.Parse(o1.Bytes()).Objects)
		if err != nil {
			r.Violation("optimize:output-unreadable:"+cls, fmt.Sprintf("%s: %v", c.name, err), rep)
			return
		}
		if fmt.Sprint(mk0) != fmt.Sprint(mk1) || len(before) != len(after) {
			r.Violation("optimize:page-sequence-changed:"+cls, fmt.Sprintf("%s: pages %v -> %v", c.name, mk0, mk1), rep)
			return
		}
		for p := range before {
			if before[p] != after[p] {
				key := "optimize:page-changed:" + cls
				if r.Want(key) {
					r.Violation(key, fmt.Sprintf("%s page %d changed by optimisation:\n  before: %s\n  after : %s", c.name, p+1, trimTo(before[p], 900), trimTo(after[p], 900)), rep)
				}
			}
		}
		var o2 bytes.Buffer
		if err := api.Optimize(bytes.NewReader(o1.Bytes()), &o2, conf); err != nil {
			r.Violation("optimize:second-pass-failed:"+cls, fmt.Sprintf("%s: %v", c.name, err), rep)
			return
		}
		n2 := len(strictpdf.Parse(o2.Bytes()).Objects)
		if n2 != n1 {
			key := "optimize:not-idempotent:" + cls
			if r.Want(key) {
				r.Violation(key, fmt.Sprintf("%s: optimize(optimize(x)) has %d objects, optimize(x) has %d (%v)", c.name, n2, n1, err), rep)
			}
		}
		if i%37 == 0 {
			r.Sample(rep)
		}
	})
}
