package props

import "encoding/json"

func jsonUnmarshal(b []byte, v any) error { return json.Unmarshal(b, v) }
