package props

import (
	"path/filepath"

	"github.com/pdfcpu/pdfcpu/pkg/api"
	"github.com/pdfcpu/pdfcpu/pkg/pdfcpu"
	"github.com/pdfcpu/pdfcpu/pkg/pdfcpu/model"
	"github.com/pdfcpu/pdfcpu/pkg/pdfcpu/types"
)

// FSDriver is one file-based entry point with valid arguments.
type FSDriver struct {
	Name    string
	Kind    string   // single | create | multi
	Fixture string   // input fixture name (copied to <dir>/in.pdf)
	Extra   []string // additional fixtures copied under their own names
	// Run is called with absolute paths. For single: out may be "" (in place). For multi: out is a directory.
	Run func(dir, in, out string) error
}

func pw(conf *model.Configuration, u, o string) *model.Configuration {
	conf.UserPW, conf.OwnerPW = u, o
	return conf
}

func fsDrivers() []FSDriver {
	S := func(name, fixture string, run func(dir, in, out string) error, extra ...string) FSDriver {
		return FSDriver{Name: name, Kind: "single", Fixture: fixture, Run: run, Extra: extra}
	}
	C := func(name, fixture string, run func(dir, in, out string) error, extra ...string) FSDriver {
		return FSDriver{Name: name, Kind: "create", Fixture: fixture, Run: run, Extra: extra}
	}
	M := func(name, fixture string, run func(dir, in, out string) error, extra ...string) FSDriver {
		return FSDriver{Name: name, Kind: "multi", Fixture: fixture, Run: run, Extra: extra}
	}
	ds := []FSDriver{
		S("api.OptimizeFile", "in.pdf", func(d, in, out string) error { return api.OptimizeFile(in, out, newConf()) }),
		S("api.RotateFile", "in.pdf", func(d, in, out string) error { return api.RotateFile(in, out, 90, nil, newConf()) }),
		S("api.TrimFile", "in.pdf", func(d, in, out string) error { return api.TrimFile(in, out, []string{"1-2"}, newConf()) }),
		S("api.CollectFile", "in.pdf", func(d, in, out string) error { return api.CollectFile(in, out, []string{"3", "1"}, newConf()) }),
		S("api.InsertPagesFile", "in.pdf", func(d, in, out string) error {
			return api.InsertPagesFile(in, out, []string{"1"}, true, nil, newConf())
		}),
		S("api.RemovePagesFile", "in.pdf", func(d, in, out string) error { return api.RemovePagesFile(in, out, []string{"2"}, newConf()) }),
		S("api.AddKeywordsFile", "in.pdf", func(d, in, out string) error { return api.AddKeywordsFile(in, out, []string{"x"}, newConf()) }),
		S("api.RemoveKeywordsFile", "kw.pdf", func(d, in, out string) error { return api.RemoveKeywordsFile(in, out, []string{"k1"}, newConf()) }),
		S("api.AddPropertiesFile", "in.pdf", func(d, in, out string) error {
			return api.AddPropertiesFile(in, out, map[string]string{"B": "2"}, newConf())
		}),
		S("api.RemovePropertiesFile", "prop.pdf", func(d, in, out string) error { return api.RemovePropertiesFile(in, out, []string{"A"}, newConf()) }),
		S("api.AddAttachmentsFile", "in.pdf", func(d, in, out string) error {
			return api.AddAttachmentsFile(in, out, []string{filepath.Join(d, "a.txt")}, false, newConf())
		}, "a.txt"),
		S("api.RemoveAttachmentsFile", "att.pdf", func(d, in, out string) error { return api.RemoveAttachmentsFile(in, out, nil, newConf()) }),
		S("api.AddTextWatermarksFile", "in.pdf", func(d, in, out string) error {
			return api.AddTextWatermarksFile(in, out, nil, true, "S", "pos:tl", newConf())
		}),
		S("api.AddImageWatermarksFile", "in.pdf", func(d, in, out string) error {
			return api.AddImageWatermarksFile(in, out, nil, false, filepath.Join(d, "img.png"), "pos:c", newConf())
		}, "img.png"),
		S("api.AddPDFWatermarksFile", "in.pdf", func(d, in, out string) error {
			return api.AddPDFWatermarksFile(in, out, nil, false, filepath.Join(d, "other.pdf"), "pos:c", newConf())
		}, "other.pdf"),
		S("api.RemoveWatermarksFile", "wm.pdf", func(d, in, out string) error { return api.RemoveWatermarksFile(in, out, nil, newConf()) }),
		S("api.EncryptFile", "in.pdf", func(d, in, out string) error {
			c := model.NewAESConfiguration("u", "o", 256)
			c.ValidationMode = model.ValidationRelaxed
			return api.EncryptFile(in, out, c)
		}),
		S("api.DecryptFile", "enc.pdf", func(d, in, out string) error { return api.DecryptFile(in, out, pw(newConf(), "upw", "opw")) }),
		S("api.ChangeUserPasswordFile", "enc.pdf", func(d, in, out string) error {
			return api.ChangeUserPasswordFile(in, out, "upw", "new", pw(newConf(), "", "opw"))
		}),
		S("api.ChangeOwnerPasswordFile", "enc.pdf", func(d, in, out string) error {
			return api.ChangeOwnerPasswordFile(in, out, "opw", "new", pw(newConf(), "upw", ""))
		}),
		S("api.SetPermissionsFile", "enc.pdf", func(d, in, out string) error {
			c := pw(newConf(), "upw", "opw")
			c.Permissions = model.PermissionsNone
			return api.SetPermissionsFile(in, out, c)
		}),
		S("api.SetPageLayoutFile", "in.pdf", func(d, in, out string) error {
			return api.SetPageLayoutFile(in, out, model.PageLayoutTwoPageLeft, newConf())
		}),
		S("api.ResetPageLayoutFile", "pl.pdf", func(d, in, out string) error { return api.ResetPageLayoutFile(in, out, newConf()) }),
		S("api.SetPageModeFile", "in.pdf", func(d, in, out string) error { return api.SetPageModeFile(in, out, model.PageModeUseOutlines, newConf()) }),
		S("api.SetViewerPreferencesFileFromJSONFile", "in.pdf", func(d, in, out string) error {
			return api.SetViewerPreferencesFileFromJSONFile(in, out, filepath.Join(d, "vp.json"), newConf())
		}, "vp.json"),
		S("api.AddBoxesFile", "in.pdf", func(d, in, out string) error {
			pb, err := api.PageBoundaries("crop:[10 10 200 200]", types.POINTS)
			if err != nil {
				return err
			}
			return api.AddBoxesFile(in, out, nil, pb, newConf())
		}),
		S("api.CropFile", "in.pdf", func(d, in, out string) error {
			b, err := api.Box("[0 0 100 100]", types.POINTS)
			if err != nil {
				return err
			}
			return api.CropFile(in, out, nil, b, newConf())
		}),
		S("api.ResizeFile", "in.pdf", func(d, in, out string) error {
			rc, err := pdfcpu.ParseResizeConfig("sc:0.5", types.POINTS)
			if err != nil {
				return err
			}
			return api.ResizeFile(in, out, nil, rc, newConf())
		}),
		S("api.ZoomFile", "in.pdf", func(d, in, out string) error {
			z, err := pdfcpu.ParseZoomConfig("factor:0.5", types.POINTS)
			if err != nil {
				return err
			}
			return api.ZoomFile(in, out, nil, z, newConf())
		}),
		S("api.AddBookmarksFile", "in.pdf", func(d, in, out string) error {
			return api.AddBookmarksFile(in, out, []pdfcpu.Bookmark{{Title: "T", PageFrom: 1}}, true, newConf())
		}),
		S("api.RemoveBookmarksFile", "bm.pdf", func(d, in, out string) error { return api.RemoveBookmarksFile(in, out, newConf()) }),
		S("api.ImportBookmarksFile", "in.pdf", func(d, in, out string) error {
			return api.ImportBookmarksFile(in, filepath.Join(d, "bm.json"), out, true, newConf())
		}, "bm.json"),
		S("api.AddAnnotationsFile", "in.pdf", func(d, in, out string) error {
			ann := model.NewTextAnnotation(*types.NewRectangle(10, 10, 60, 60), 0, "c", "id1", "", 0, nil, "t", nil, nil, "", "", 0, 0, 0, true, "")
			return api.AddAnnotationsFile(in, out, nil, ann, newConf(), false)
		}),
		S("api.AddAnnotationsFile(incr)", "in.pdf", func(d, in, out string) error {
			ann := model.NewTextAnnotation(*types.NewRectangle(10, 10, 60, 60), 0, "c", "id1", "", 0, nil, "t", nil, nil, "", "", 0, 0, 0, true, "")
			return api.AddAnnotationsFile(in, out, nil, ann, newConf(), true)
		}),
		C("api.MergeAppendFile", "in.pdf", func(d, in, out string) error {
			return api.MergeAppendFile([]string{in, filepath.Join(d, "other.pdf")}, out, false, newConf())
		}, "other.pdf"),
		C("api.NUpFile", "in.pdf", func(d, in, out string) error {
			nup, err := api.PDFNUpConfig(2, "", newConf())
			if err != nil {
				return err
			}
			return api.NUpFile([]string{in}, out, nil, nup, newConf())
		}),
		C("api.GridFile", "in.pdf", func(d, in, out string) error {
			nup, err := api.PDFGridConfig(1, 2, "", newConf())
			if err != nil {
				return err
			}
			return api.GridFile([]string{in}, out, nil, nup, newConf())
		}),
		C("api.BookletFile", "in.pdf", func(d, in, out string) error {
			nup, err := api.PDFBookletConfig(2, "formsize:A4", newConf())
			if err != nil {
				return err
			}
			return api.BookletFile([]string{in}, out, nil, nup, newConf())
		}),
		C("api.MergeCreateFile", "in.pdf", func(d, in, out string) error {
			return api.MergeCreateFile([]string{in, filepath.Join(d, "other.pdf")}, out, false, newConf())
		}, "other.pdf"),
		C("api.MergeCreateZipFile", "in.pdf", func(d, in, out string) error {
			return api.MergeCreateZipFile(in, filepath.Join(d, "other.pdf"), out, newConf())
		}, "other.pdf"),
		C("api.ImportImagesFile", "in.pdf", func(d, in, out string) error {
			return api.ImportImagesFile([]string{filepath.Join(d, "img.png")}, out, nil, newConf())
		}, "img.png"),
		C("api.ExportBookmarksFile", "bm.pdf", func(d, in, out string) error { return api.ExportBookmarksFile(in, out, newConf()) }),
		C("api.WriteContextFile", "in.pdf", func(d, in, out string) error {
			ctx, err := api.ReadContextFile(in)
			if err != nil {
				return err
			}
			return api.WriteContextFile(ctx, out)
		}),
		C("pdfcpu.WriteContext(file mode)", "in.pdf", func(d, in, out string) error {
			ctx, err := api.ReadContextFile(in)
			if err != nil {
				return err
			}
			ctx.Write.DirName = filepath.Dir(out)
			ctx.Write.FileName = filepath.Base(out)
			return pdfcpu.WriteContext(ctx)
		}),
		M("api.SplitFile", "in.pdf", func(d, in, out string) error { return api.SplitFile(in, out, 1, newConf()) }),
		M("api.SplitByPageNrFile", "in.pdf", func(d, in, out string) error { return api.SplitByPageNrFile(in, out, []int{2}, newConf()) }),
		M("api.ExtractPagesFile", "in.pdf", func(d, in, out string) error { return api.ExtractPagesFile(in, out, []string{"1", "3"}, newConf()) }),
		M("api.ExtractContentFile", "in.pdf", func(d, in, out string) error { return api.ExtractContentFile(in, out, nil, newConf()) }),
		M("api.ExtractAttachmentsFile", "att.pdf", func(d, in, out string) error { return api.ExtractAttachmentsFile(in, out, nil, newConf()) }),
		// several outputs per call: failures at the 2nd, 3rd... output exercise what was done for the earlier ones
		M("api.ExtractAttachmentsFile[3 attachments]", "att3.pdf", func(d, in, out string) error { return api.ExtractAttachmentsFile(in, out, nil, newConf()) }),
		M("api.NDownFile", "in.pdf", func(d, in, out string) error {
			cut, err := pdfcpu.ParseCutConfigForN(2, "", types.POINTS)
			if err != nil {
				return err
			}
			return api.NDownFile(in, out, "in", []string{"1"}, 2, cut, newConf())
		}),
	}
	return ds
}
