package props

import (
	"bufio"
	"bytes"
	"crypto/ecdsa"
	"crypto/elliptic"
	"crypto/rand"
	"crypto/x509"
	"crypto/x509/pkix"
	"fmt"
	"math/big"
	"net"
	"net/http"
	"net/url"
	"os"
	"strings"
	"sync"
	"time"

	"github.com/pdfcpu/pdfcpu/pkg/api"
	"github.com/pdfcpu/pdfcpu/pkg/pdfcpu/primitives"
	"github.com/pdfcpu/pdfcpu/pkg/pdfcpu/sign"
	vnet "github.com/pdfcpu/pdfcpu/vx/vnet"
	"verif/mc/core"
)

// C30: network fetches never reach private or local addresses.
func init() {
	core.Register(&core.Check{
		ID:    "C30",
		Level: "model_checking",
		Rule: "the real HTTP clients (remote image fetch of create definitions through api.Create; CRL and OCSP fetch through the real revocation functions) run against an owned network environment: every name lookup and every dial made by pdfcpu goes through the harness, which answers DNS from a script (answers may change between consecutive lookups of one name) and serves each connection in memory with 200 or a 302 to any URL of the alphabet; explored: (A) every ordered answer set of size <= 2 over 14 addresses of all blocked classes and public ones x rebinding {stable, second answer loopback} x first connection attempt {served, refused} x client x allow-list; (B) 36 URL spellings x client x allow-list; (C) every redirect chain of depth <= 2 (thorough: 3) over the URL alphabet; (D) redirect cap; monitor on every execution: all network activity belongs to an http(s), credential-free, host-bearing URL; every dial is to an IP literal that pdfcpu validated (never a name), not loopback/private/link-local/multicast/unspecified unless the URL's host is allow-listed (revocation only); the sentinel proxy from the environment is never contacted; " +
			"non-trivial = an execution in which the policy had to refuse something (a blocked address, a forbidden URL, a redirect to one)",
		Assume:   []string{"the overlay rewrites import \"net\" in every non-test file of pdfcpu; net/http itself is the real package and reaches the network only through the DialContext pdfcpu installs (a Transport without DialContext would bypass the harness: detected as a request that is served by nobody and reported as harness error)"},
		Run:      runC30,
		RunShard: runC30Shard,
	})
}

var c30Addrs = []string{"93.184.216.34", "2606:2800:220:1:248:1893:25c8:1946", "127.0.0.1", "10.1.2.3", "172.16.5.5", "192.168.1.1", "169.254.169.254", "224.0.0.251", "0.0.0.0", "::1", "fc00::1", "fe80::1", "::ffff:127.0.0.1", "::ffff:8.8.8.8"}

func c30Blocked(ip net.IP) bool {
	// independent statement of the classes named by the property
	if ip4 := ip.To4(); ip4 != nil {
		switch {
		case ip4[0] == 127, ip4[0] == 10, ip4[0] == 172 && ip4[1]&0xf0 == 16, ip4[0] == 192 && ip4[1] == 168,
			ip4[0] == 169 && ip4[1] == 254, ip4[0] >= 224 && ip4[0] <= 239, ip4.Equal(net.IPv4zero):
			return true
		}
		return false
	}
	switch {
	case ip.Equal(net.IPv6loopback), ip.Equal(net.IPv6unspecified), ip[0]&0xfe == 0xfc, ip[0] == 0xfe && ip[1]&0xc0 == 0x80, ip[0] == 0xff:
		return true
	}
	return false
}

// fixed DNS of parts B-D
var c30DNS = map[string][]string{
	"pub.example":    {"93.184.216.34"},
	"pub2.example":   {"2606:2800:220:1:248:1893:25c8:1946"},
	"priv.example":   {"10.1.2.3"},
	"mixed.example":  {"93.184.216.34", "127.0.0.1"},
	"allow.example":  {"127.0.0.1"},
	"localhost":      {"127.0.0.1"},
	"meta.example":   {"169.254.169.254"},
	"proxy.sentinel": {"9.9.9.9"},
}

var c30URLs = []string{
	"http://pub.example/x", "https://pub.example/x", "HTTP://PUB.EXAMPLE/x", "http://pub2.example/x", "http://pub.example:8080/x",
	"ftp://pub.example/x", "file:///etc/passwd", "gopher://pub.example/", "//pub.example/x", "pub.example/x",
	"http://user:pw@pub.example/x", "http://user@pub.example/x", "http:///x",
	"http://127.0.0.1/x", "http://10.1.2.3/x", "http://172.16.5.5/x", "http://192.168.1.1/x", "http://169.254.169.254/latest/meta-data", "http://224.0.0.251/x", "http://0.0.0.0/x",
	"http://[::1]/x", "http://[fc00::1]/x", "http://[fe80::1]/x", "http://[::ffff:127.0.0.1]/x", "http://[::ffff:8.8.8.8]/x", "http://93.184.216.34/x",
	"http://2130706433/x", "http://0x7f.0.0.1/x", "http://127.1/x",
	"http://priv.example/x", "http://mixed.example/x", "http://localhost/x", "http://meta.example/x",
	"http://allow.example/x", "http://ALLOW.Example./x", "https://allow.example:8443/x",
}

type c30Env struct {
	mu        sync.Mutex
	dns       func(host string, nth int) []string
	lookups   map[string]int
	reply     func(hop int, req *http.Request) (status int, location string)
	hop       int
	curURL    string // URL currently being fetched (start URL, then each served Location)
	lastHost  string // host of the most recent lookup
	log       []string
	viol      []string
	refusedOK int // number of times the reference policy says the hop must not cause network activity and it did not
	served    int
	allow     map[string]bool
	client    string
	refuse    int
	wg        sync.WaitGroup
}

func normHost(h string) string { return strings.TrimSuffix(strings.ToLower(strings.TrimSpace(h)), ".") }

// urlPermitted: may pdfcpu cause any network activity for this URL at all?
func c30URLPermitted(raw string) (host string, ok bool) {
	u, err := url.Parse(raw)
	if err != nil {
		return "", false
	}
	if !strings.EqualFold(u.Scheme, "http") && !strings.EqualFold(u.Scheme, "https") {
		return "", false
	}
	if u.User != nil || u.Hostname() == "" {
		return "", false
	}
	return u.Hostname(), true
}

func (e *c30Env) violate(f string, a ...any) {
	e.viol = append(e.viol, fmt.Sprintf(f, a...))
}

func (e *c30Env) lookup(host string) ([]net.IPAddr, error) {
	e.mu.Lock()
	defer e.mu.Unlock()
	n := e.lookups[host]
	e.lookups[host]++
	e.lastHost = host
	e.log = append(e.log, fmt.Sprintf("lookup %s #%d", host, n))
	if normHost(host) == "proxy.sentinel" {
		e.violate("the proxy named by the environment was looked up")
	}
	if _, ok := c30URLPermitted(e.curURL); !ok {
		e.violate("name lookup of %q while fetching the forbidden URL %q", host, e.curURL)
	}
	if ip := net.ParseIP(host); ip != nil {
		return []net.IPAddr{{IP: ip}}, nil
	}
	as := e.dns(normHost(host), n)
	if len(as) == 0 {
		return nil, &net.DNSError{Err: "no such host", Name: host, IsNotFound: true}
	}
	var out []net.IPAddr
	for _, a := range as {
		out = append(out, net.IPAddr{IP: net.ParseIP(a)})
	}
	return out, nil
}

func (e *c30Env) dial(via, network, addr string) (net.Conn, error) {
	e.mu.Lock()
	e.log = append(e.log, fmt.Sprintf("dial %s %s (%s)", network, addr, via))
	host, _, err := net.SplitHostPort(addr)
	if err != nil {
		host = addr
	}
	urlHost, permitted := c30URLPermitted(e.curURL)
	if !permitted {
		e.violate("connection to %s while fetching the forbidden URL %q", addr, e.curURL)
	}
	ip := net.ParseIP(host)
	switch {
	case ip == nil:
		e.violate("connection opened by NAME %q (the address connected to is resolved again and never checked) for %q", addr, e.curURL)
	case ip.Equal(net.ParseIP("9.9.9.9")):
		e.violate("connection to the proxy named by the environment")
	case c30Blocked(ip):
		if !(e.client != "image" && e.allow[normHost(urlHost)]) {
			e.violate("connection to blocked address %s for URL %q (host %q, allow-listed=%v)", addr, e.curURL, urlHost, e.allow[normHost(urlHost)])
		}
	}
	if e.refuse > 0 {
		e.refuse--
		e.mu.Unlock()
		return nil, vnet.ErrRefused
	}
	hop := e.hop
	e.hop++
	e.mu.Unlock()
	c1, c2 := net.Pipe()
	e.wg.Add(1)
	go func() {
		defer e.wg.Done()
		defer c2.Close()
		c2.SetDeadline(time.Now().Add(5 * time.Second))
		br := bufio.NewReader(c2)
		first, err := br.Peek(1)
		if err != nil || first[0] == 0x16 {
			return // TLS hello: the dial was observed, nothing is served
		}
		req, err := http.ReadRequest(br)
		if err != nil {
			return
		}
		if req.Body != nil {
			var sink bytes.Buffer
			sink.ReadFrom(req.Body)
		}
		e.mu.Lock()
		e.served++
		if _, _, ok := req.BasicAuth(); ok {
			e.violate("request carries credentials")
		}
		st, loc := e.reply(hop, req)
		if st == 302 {
			e.curURL = loc
			if u, err := url.Parse(loc); err == nil && !u.IsAbs() {
				// relative Location: resolved against the request URL by the client
				e.curURL = "http://" + req.Host + "/" + strings.TrimPrefix(loc, "/")
				if strings.HasPrefix(loc, "//") {
					e.curURL = "http:" + loc
				}
			}
		}
		e.mu.Unlock()
		if st == 302 {
			fmt.Fprintf(c2, "HTTP/1.1 302 Found\r\nLocation: %s\r\nContent-Length: 0\r\nConnection: close\r\n\r\n", loc)
		} else {
			body := "not an image, not a CRL"
			fmt.Fprintf(c2, "HTTP/1.1 200 OK\r\nContent-Type: application/octet-stream\r\nContent-Length: %d\r\nConnection: close\r\n\r\n%s", len(body), body)
		}
	}()
	return c1, nil
}

var (
	c30Once            sync.Once
	c30Cert, c30Issuer *x509.Certificate
)

func c30Certs() (*x509.Certificate, *x509.Certificate) {
	c30Once.Do(func() {
		key, _ := ecdsa.GenerateKey(elliptic.P256(), rand.Reader)
		ca := &x509.Certificate{SerialNumber: big.NewInt(1), Subject: pkix.Name{CommonName: "c30 ca"}, NotBefore: time.Now().Add(-time.Hour), NotAfter: time.Now().Add(24 * time.Hour), IsCA: true, BasicConstraintsValid: true, KeyUsage: x509.KeyUsageCertSign | x509.KeyUsageCRLSign}
		der, err := x509.CreateCertificate(rand.Reader, ca, ca, &key.PublicKey, key)
		if err != nil {
			panic(err)
		}
		c30Issuer, _ = x509.ParseCertificate(der)
		leaf := &x509.Certificate{SerialNumber: big.NewInt(2), Subject: pkix.Name{CommonName: "c30 leaf"}, NotBefore: time.Now().Add(-time.Hour), NotAfter: time.Now().Add(24 * time.Hour)}
		lkey, _ := ecdsa.GenerateKey(elliptic.P256(), rand.Reader)
		der, err = x509.CreateCertificate(rand.Reader, leaf, c30Issuer, &lkey.PublicKey, key)
		if err != nil {
			panic(err)
		}
		c30Cert, _ = x509.ParseCertificate(der)
	})
	return c30Cert, c30Issuer
}

type c30Case struct {
	Part   string   `json:"part"`
	Client string   `json:"client"` // image | crl | ocsp
	Allow  bool     `json:"allow_listed"`
	URL    string   `json:"url"`
	DNS1   []string `json:"dns_first,omitempty"`
	DNS2   []string `json:"dns_later,omitempty"`
	Chain  []string `json:"redirects,omitempty"` // Location served at hop i (then 200)
	Refuse int      `json:"refused_dials,omitempty"` // the first n connection attempts are refused (observed, not served)
}

// c30Exec runs one execution and returns (violations, log, whether the policy had something to refuse).
func c30Exec(c c30Case) (viol []string, log []string, refusing bool, harnessErr string) {
	e := &c30Env{lookups: map[string]int{}, curURL: c.URL, allow: map[string]bool{}, client: c.Client, refuse: c.Refuse}
	if c.Allow {
		e.allow["allow.example"] = true
		e.allow["name.test"] = true
	}
	e.dns = func(host string, nth int) []string {
		if host == "name.test" {
			if nth == 0 || c.DNS2 == nil {
				return c.DNS1
			}
			return c.DNS2
		}
		return c30DNS[host]
	}
	e.reply = func(hop int, req *http.Request) (int, string) {
		if hop < len(c.Chain) {
			return 302, c.Chain[hop]
		}
		return 200, ""
	}
	vnet.SetHooks(e.lookup, e.dial)
	defer vnet.SetHooks(nil, nil)
	conf := newConf()
	conf.Offline = false
	conf.Timeout, conf.TimeoutCRL, conf.TimeoutOCSP = 3, 3, 3
	if c.Allow {
		conf.AllowedRevocationHosts = []string{"allow.example", "name.test"}
	}
	pv, st := core.Try(func() {
		switch c.Client {
		case "image":
			js := fmt.Sprintf(`{"paper":"A6","pages":{"1":{"content":{"image":[{"src":%q,"pos":[10,10],"width":50,"height":50}]}}}}`, c.URL)
			var w bytes.Buffer
			api.Create(nil, strings.NewReader(js), &w, conf)
		case "crl":
			cert, issuer := c30Certs()
			cc := *cert
			cc.CRLDistributionPoints = []string{c.URL}
			sign.VerifCheckCRL(&cc, issuer, conf)
		case "ocsp":
			cert, issuer := c30Certs()
			cc := *cert
			cc.OCSPServer = []string{c.URL}
			sign.VerifCheckOCSP(&cc, issuer, conf)
		}
	})
	e.wg.Wait()
	if pv != nil {
		harnessErr = fmt.Sprintf("panic: %v\n%s", pv, st)
	}
	e.mu.Lock()
	defer e.mu.Unlock()
	// did the policy have anything to refuse in this execution?
	urls := append([]string{c.URL}, c.Chain...)
	for _, u := range urls {
		h, ok := c30URLPermitted(u)
		if !ok {
			refusing = true
			continue
		}
		var as []string
		if ip := net.ParseIP(h); ip != nil {
			as = []string{h}
		} else if normHost(h) == "name.test" {
			as = append(append([]string{}, c.DNS1...), c.DNS2...)
		} else {
			as = c30DNS[normHost(h)]
		}
		for _, a := range as {
			if ip := net.ParseIP(a); ip != nil && c30Blocked(ip) {
				refusing = true
			}
		}
	}
	return e.viol, e.log, refusing, harnessErr
}

func c30Cases(thorough bool) []c30Case {
	var cs []c30Case
	clients := []struct {
		n     string
		allow []bool
	}{{"image", []bool{false}}, {"crl", []bool{false, true}}, {"ocsp", []bool{false, true}}}
	// A: DNS answer sets
	var sets [][]string
	for _, a := range c30Addrs {
		sets = append(sets, []string{a})
	}
	for _, a := range c30Addrs {
		for _, b := range c30Addrs {
			if a != b {
				sets = append(sets, []string{a, b})
			}
		}
	}
	for _, cl := range clients {
		for _, al := range cl.allow {
			for _, s := range sets {
				cs = append(cs, c30Case{Part: "A", Client: cl.n, Allow: al, URL: "http://name.test/x", DNS1: s})
				cs = append(cs, c30Case{Part: "A", Client: cl.n, Allow: al, URL: "http://name.test/x", DNS1: s, DNS2: []string{"127.0.0.1"}})
				// environment deviation: the first connection attempt(s) are refused, so a client that falls
				// back to further addresses of the answer set shows which ones it is prepared to use
				cs = append(cs, c30Case{Part: "A", Client: cl.n, Allow: al, URL: "http://name.test/x", DNS1: s, Refuse: 1})
				cs = append(cs, c30Case{Part: "A", Client: cl.n, Allow: al, URL: "http://name.test/x", DNS1: s, DNS2: []string{"127.0.0.1"}, Refuse: 1})
			}
			// B: URL spellings
			for _, u := range c30URLs {
				cs = append(cs, c30Case{Part: "B", Client: cl.n, Allow: al, URL: u})
			}
			// C: redirect chains
			for _, u1 := range c30URLs {
				cs = append(cs, c30Case{Part: "C1", Client: cl.n, Allow: al, URL: "http://pub.example/start", Chain: []string{u1}})
				cs = append(cs, c30Case{Part: "C1", Client: cl.n, Allow: al, URL: "http://allow.example/start", Chain: []string{u1}})
				for _, u2 := range c30URLs {
					cs = append(cs, c30Case{Part: "C2", Client: cl.n, Allow: al, URL: "http://pub.example/start", Chain: []string{u1, u2}})
					if thorough {
						for _, u3 := range c30URLs {
							if _, ok := c30URLPermitted(u1); !ok {
								continue // the chain ends at the first forbidden hop: already covered by C1
							}
							cs = append(cs, c30Case{Part: "C3", Client: cl.n, Allow: al, URL: "http://pub.example/start", Chain: []string{u1, u2, u3}})
						}
					}
				}
			}
			// redirect to a name whose answer changes / relative redirects
			cs = append(cs, c30Case{Part: "C1", Client: cl.n, Allow: al, URL: "http://pub.example/start", Chain: []string{"http://name.test/x"}, DNS1: []string{"93.184.216.34"}, DNS2: []string{"127.0.0.1"}})
			cs = append(cs, c30Case{Part: "C1", Client: cl.n, Allow: al, URL: "http://pub.example/start", Chain: []string{"/relative"}})
			cs = append(cs, c30Case{Part: "C1", Client: cl.n, Allow: al, URL: "http://pub.example/start", Chain: []string{"//priv.example/x"}})
		}
	}
	return cs
}

func runC30(r *core.R) {
	api.DisableConfigDir()
	cs := c30Cases(!r.Quick())
	r.Note("executions_planned", len(cs))
	core.Sharded(r, 16)
	// E: structure of the two clients: all connections must go through the guarded dial function
	for name, cl := range map[string]*http.Client{"image": primitives.VerifImageBoxHTTPClient(3), "revocation": sign.VerifRevocationHTTPClient(nil)} {
		r.Eval(1)
		tr, ok := cl.Transport.(*http.Transport)
		switch {
		case !ok:
			r.Violation("client-structure:"+name, fmt.Sprintf("%s client: transport is %T, connections cannot be attributed to the guarded dialer", name, cl.Transport), nil)
		case tr.DialContext == nil:
			r.Violation("client-structure:"+name, name+" client: Transport.DialContext is not set: connections bypass the address policy", nil)
		case tr.DialTLSContext != nil || tr.DialTLS != nil:
			r.Violation("client-structure:"+name, name+" client: a TLS dial function is set: https connections bypass the address policy", nil)
		case cl.CheckRedirect == nil:
			r.Violation("client-structure:"+name, name+" client: no redirect policy", nil)
		}
		if ok && tr.Proxy != nil {
			req, _ := http.NewRequest("GET", "http://pub.example/x", nil)
			if u, _ := tr.Proxy(req); u != nil {
				r.Violation("client-structure:"+name, fmt.Sprintf("%s client uses proxy %v", name, u), nil)
			}
		}
	}
	// D: redirect cap of the revocation client (single process part)
	os.Setenv("HTTP_PROXY", "http://proxy.sentinel:3128")
	for _, cl := range []string{"crl", "ocsp"} {
		chain := make([]string, 14)
		for i := range chain {
			chain[i] = fmt.Sprintf("http://pub.example/hop%d", i+1)
		}
		e := c30Case{Part: "D", Client: cl, URL: "http://pub.example/start", Chain: chain}
		viol, log, _, herr := c30Exec(e)
		r.Eval(1)
		if herr != "" {
			r.HarnessError("%s", herr)
		}
		dials := 0
		for _, l := range log {
			if strings.HasPrefix(l, "dial") {
				dials++
			}
		}
		r.Note("redirect_cap_dials:"+cl, dials)
		if dials > 11 {
			r.Violation("redirect-cap:"+cl, fmt.Sprintf("%s client followed %d hops of an endless redirect chain (cap 10 redirects)", cl, dials), e)
		}
		for _, v := range viol {
			r.Violation("policy:"+cl+":D", v, e)
		}
	}
}

func runC30Shard(r *core.R, shard, n int) {
	api.DisableConfigDir()
	for _, k := range []string{"HTTP_PROXY", "HTTPS_PROXY", "ALL_PROXY", "http_proxy", "https_proxy", "all_proxy"} {
		os.Setenv(k, "http://proxy.sentinel:3128")
	}
	os.Unsetenv("NO_PROXY")
	cs := c30Cases(!r.Quick())
	for i, c := range cs {
		if i%n != shard {
			continue
		}
		if r.Expired() {
			r.Cut("deadline")
			return
		}
		viol, log, refusing, herr := c30Exec(c)
		r.Eval(1)
		r.Count("part_"+c.Part, 1)
		if herr != "" {
			r.HarnessError("%v: %s", c, herr)
			continue
		}
		if refusing {
			r.Nontrivial(1)
		}
		if len(log) > 0 {
			r.Count("executions_with_network_activity", 1)
		}
		if c.Part == "B" && c.URL == "http://pub.example/x" {
			// liveness of the harness itself: a permitted public URL must be seen being fetched
			seen := false
			for _, l := range log {
				if strings.HasPrefix(l, "dial tcp 93.184.216.34:80") {
					seen = true
				}
			}
			if !seen {
				r.Violation("unobserved-fetch:"+c.Client, fmt.Sprintf("%s client: fetching %s produced no connection through the guarded dialer (trace %v): the fetch either bypasses it or public URLs are refused", c.Client, c.URL, log), c)
			}
		}
		for _, v := range viol {
			key := "policy:" + c.Client + ":" + c30Kind(v)
			r.Violation(key, fmt.Sprintf("%s client, start %q, redirects %v, dns %v then %v, allow-listed=%v: %s; trace: %s", c.Client, c.URL, c.Chain, c.DNS1, c.DNS2, c.Allow, v, trimTo(strings.Join(log, " | "), 300)), c)
		}
		if i%997 == 0 {
			r.Sample(map[string]any{"case": c, "trace": log})
		}
	}
}

func c30Kind(v string) string {
	switch {
	case strings.Contains(v, "by NAME"):
		return "dial-by-name"
	case strings.Contains(v, "blocked address"):
		return "blocked-address"
	case strings.Contains(v, "forbidden URL"):
		return "forbidden-url"
	case strings.Contains(v, "proxy"):
		return "proxy"
	case strings.Contains(v, "credentials"):
		return "credentials"
	}
	return "other"
}
