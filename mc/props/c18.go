package props

import (
	"bytes"
	"fmt"
	"io"
	"os"
	"path/filepath"
	"strings"

	"github.com/pdfcpu/pdfcpu/pkg/api"
	"github.com/pdfcpu/pdfcpu/pkg/pdfcpu/model"
	"github.com/pdfcpu/pdfcpu/pkg/pdfcpu/types"
	"verif/mc/core"
	"verif/mc/docgen"
	"verif/mc/isocrypt"
	"verif/mc/pdfx"
	"verif/mc/strictpdf"
)

// C18 (file structure of every written PDF) and C19 (write -> read preserves the document)
// share the enumeration: document family x writer configuration x writing operation.

type wconf struct {
	xrefStream, objStream bool
	eol                   string
}

func (w wconf) String() string {
	e := map[string]string{"\n": "LF", "\r": "CR", "\r\n": "CRLF"}[w.eol]
	return fmt.Sprintf("xrefstream=%v,objstream=%v,eol=%s", w.xrefStream, w.objStream, e)
}

func wconfs() []wconf {
	var out []wconf
	for _, xs := range []bool{false, true} {
		for _, os := range []bool{false, true} {
			for _, eol := range []string{"\n", "\r", "\r\n"} {
				out = append(out, wconf{xs, os, eol})
			}
		}
	}
	return out
}

func (w wconf) conf() *model.Configuration {
	c := model.NewDefaultConfiguration()
	c.ValidationMode = model.ValidationRelaxed
	c.WriteXRefStream = w.xrefStream
	c.WriteObjectStream = w.objStream
	c.Eol = w.eol
	return c
}

type wop struct {
	name     string
	preserve bool   // output must show the same pages (markers, rotation, boxes, info) as the input
	pw       string // password needed to read the output
	run      func(in []byte, c *model.Configuration) ([]byte, error)
}

func wops(full bool) []wop {
	buf := func(f func(rs io.ReadSeeker, w io.Writer) error) func(in []byte) ([]byte, error) {
		return func(in []byte) ([]byte, error) {
			var out bytes.Buffer
			err := f(bytes.NewReader(in), &out)
			return out.Bytes(), err
		}
	}
	enc := func(aes bool, kl int) func(in []byte, c *model.Configuration) ([]byte, error) {
		return func(in []byte, c *model.Configuration) ([]byte, error) {
			c.EncryptUsingAES, c.EncryptKeyLength, c.UserPW, c.OwnerPW = aes, kl, "u", "o"
			return buf(func(rs io.ReadSeeker, w io.Writer) error { return api.Encrypt(rs, w, c) })(in)
		}
	}
	ops := []wop{
		{"optimize", true, "", func(in []byte, c *model.Configuration) ([]byte, error) {
			return buf(func(rs io.ReadSeeker, w io.Writer) error { return api.Optimize(rs, w, c) })(in)
		}},
		{"rewrite-no-optimize", true, "", func(in []byte, c *model.Configuration) ([]byte, error) {
			c.Optimize = false
			c.OptimizeBeforeWriting = false
			ctx, err := api.ReadContext(bytes.NewReader(in), c)
			if err != nil {
				return nil, err
			}
			if err := api.ValidateContext(ctx); err != nil {
				return nil, err
			}
			var out bytes.Buffer
			err = api.WriteContext(ctx, &out)
			return out.Bytes(), err
		}},
		{"setpagemode", true, "", func(in []byte, c *model.Configuration) ([]byte, error) {
			return buf(func(rs io.ReadSeeker, w io.Writer) error { return api.SetPageMode(rs, w, model.PageModeUseOutlines, c) })(in)
		}},
		{"addkeywords", true, "", func(in []byte, c *model.Configuration) ([]byte, error) {
			return buf(func(rs io.ReadSeeker, w io.Writer) error { return api.AddKeywords(rs, w, []string{"kw"}, c) })(in)
		}},
		{"encrypt-aes256", true, "u", enc(true, 256)},
		{"encrypt-rc4-128", true, "u", enc(false, 128)},
	}
	if full {
		ops = append(ops,
			wop{"encrypt-rc4-40", true, "u", enc(false, 40)},
			wop{"encrypt-aes128", true, "u", enc(true, 128)},
			wop{"rotate", false, "", func(in []byte, c *model.Configuration) ([]byte, error) {
				return buf(func(rs io.ReadSeeker, w io.Writer) error { return api.Rotate(rs, w, 90, nil, c) })(in)
			}},
			wop{"merge-self", false, "", func(in []byte, c *model.Configuration) ([]byte, error) {
				var out bytes.Buffer
				err := api.MergeRaw([]io.ReadSeeker{bytes.NewReader(in), bytes.NewReader(in)}, &out, false, c)
				return out.Bytes(), err
			}},
		)
	}
	ops = append(ops, wop{"add-annotation-as-increment", true, "", func(in []byte, c *model.Configuration) ([]byte, error) {
		dir := core.Scratch("c18incr")
		defer os.RemoveAll(dir)
		p := filepath.Join(dir, "f.pdf")
		os.WriteFile(p, in, 0o644)
		f, err := os.OpenFile(p, os.O_RDWR, 0o644)
		if err != nil {
			return nil, err
		}
		ann := model.NewTextAnnotation(*types.NewRectangle(10, 10, 60, 60), 0, "c", "id1", "", 0, nil, "t", nil, nil, "", "", 0, 0, 0, true, "")
		err = api.AddAnnotationsAsIncrement(f, []string{"1"}, ann, c)
		f.Close()
		if err != nil {
			return nil, err
		}
		return os.ReadFile(p)
	}})
	return ops
}

func init() {
	rule := "document family (page counts 1-4 x flat/nested tree x attribute inheritance schemes; classic / xref-stream / object-stream input x dense / gapped numbering / live reference to a free object that is not first on the free list x attachment / outline / filtered content / no info) x 12 writer configurations (xref table|stream x object streams on|off x EOL LF|CR|CRLF) x writing operations (optimize, rewrite without optimization, set page mode, add keywords, encrypt RC4-128 / AES-256, incremental annotation; thorough adds RC4-40, AES-128, rotate, merge); "
	core.Register(&core.Check{
		ID:     "C18",
		Level:  "exploration",
		Rule:   rule + "every output is parsed by an independent strict, non-repairing structure reader (mc/strictpdf): header, startxref target, exact 20-byte xref entries or xref stream rows, every in-use entry locating 'n g obj' (or a valid object-stream index), /Size, free-list chain, exact /Length, /Prev chain; the same oracle on decrypt / change-user-password / rotate of encrypted inputs pdfcpu did not write (mc/isocrypt: R2..R6, RC4 and AES, /Length direct or a reference) under every writer configuration; non-trivial = an output with at least one free object, object stream, increment or non-LF EOL",
		Assume: []string{"mc/strictpdf is the oracle (hand-built conforming files parse clean, each required corruption is reported - its own tests); for encrypted outputs object-stream contents cannot be inspected"},
		Run:    func(r *core.R) { runC18C19(r, true) },
	})
	core.Register(&core.Check{
		ID:     "C19",
		Level:  "exploration",
		Rule:   rule + "every output is read back and compared with the input as seen through the harness's own page-tree walker: page sequence by content markers, decoded content, effective MediaBox/CropBox/Rotate, the resources its content uses (canonical deep serialisation; names nothing refers to may be pruned), Info title, and for plain rewrites the canonical serialisation of the whole object graph from the catalog; non-trivial = an output written with object streams, xref stream, non-LF EOL or encryption",
		Assume: []string{"pdfcpu's reader is trusted for tokenising the files (the property is phrased in terms of reading back); inheritance, page order and graph comparison are the harness's own"},
		Run:    func(r *core.R) { runC18C19(r, false) },
	})
}

func runC18C19(r *core.R, structure bool) {
	fam := docgen.Family(!r.Quick())
	confs := wconfs()
	ops := wops(!r.Quick())
	r.Note("family_documents", len(fam))
	r.Note("writer_configurations", len(confs))
	r.Note("operations", len(ops))
	type inView struct {
		fps   []string
		title string
		graph string
	}
	views := make([]*inView, len(fam))
	for i, f := range fam {
		ctx, err := pdfx.Read(f.Bytes, nil)
		if err != nil {
			r.HarnessError("family %s unreadable: %v", f.Name, err)
			return
		}
		pgs, err := pdfx.Pages(ctx)
		if err != nil {
			r.HarnessError("family %s: %v", f.Name, err)
			return
		}
		v := &inView{}
		for _, p := range pgs {
			v.fps = append(v.fps, pdfx.UsedFingerprint(ctx, p))
		}
		// self-check of the family expectations through the harness walker
		for pi, p := range pgs {
			if mk := pdfx.Markers(ctx, p); len(mk) != 1 || mk[0] != f.Markers[pi] || p.Rotate != f.Rotate[pi] || fmtBox(p.MediaBox) != f.Media[pi] {
				r.HarnessError("family %s page %d: walker sees markers %v rot %d box %s, expected %d %d %s", f.Name, pi+1, mk, p.Rotate, fmtBox(p.MediaBox), f.Markers[pi], f.Rotate[pi], f.Media[pi])
				return
			}
		}
		views[i] = v
	}
	type job struct{ fi, ci, oi int }
	var jobs []job
	for fi := range fam {
		for ci := range confs {
			for oi := range ops {
				if ops[oi].name == "add-annotation-as-increment" && strings.HasSuffix(fam[fi].Name, "/indirect-lengths-zero") {
					// an incremental update keeps the input bytes as its first revision: the deliberately wrong
					// lengths of this input are still there and are not something pdfcpu wrote
					continue
				}
				jobs = append(jobs, job{fi, ci, oi})
			}
		}
	}
	core.ParFor(len(jobs), func(ji int) {
		if r.Expired() {
			r.Cut("internal deadline")
			return
		}
		j := jobs[ji]
		f, wc, op := fam[j.fi], confs[j.ci], ops[j.oi]
		var out []byte
		var err error
		pv, _ := core.Try(func() { out, err = op.run(f.Bytes, wc.conf()) })
		r.Eval(1)
		rep := map[string]any{"document": f.Name, "writer": wc.String(), "operation": op.name}
		site := op.name + "/" + wc.String()
		if pv != nil {
			key := "panic:" + op.name
			if r.Want(key) {
				r.Violation(key, fmt.Sprintf("%s on %s with %s panicked: %v", op.name, f.Name, wc, pv), rep)
			}
			return
		}
		if err != nil && op.name == "add-annotation-as-increment" && strings.Contains(f.Name, "dangling-popup-ref") {
			// the new annotation recycles the free object number that /Popup still names, pdfcpu's own validation
			// then refuses to write the increment: nothing is written, so neither property is at stake (the
			// recycling itself is the recorded C21/C18 finding)
			r.Count("increment_refused_after_recycling_a_referenced_free_number(not judged)", 1)
			return
		}
		if err != nil {
			key := "operation-failed:" + op.name + ":" + famClass(f.Name)
			if r.Want(key) {
				r.Violation(key, fmt.Sprintf("%s on %s with %s failed: %v", op.name, f.Name, wc, err), rep)
			}
			return
		}
		if structure {
			sf := strictpdf.Parse(out)
			if len(sf.Free) > 1 || wc.objStream || wc.eol != "\n" || len(sf.Sections) > 1 {
				r.Nontrivial(1)
			}
			for _, p := range sf.Problems {
				if strings.Contains(p, "keyword stream is followed by CR alone") {
					// ISO 32000 7.3.8.1 forbids a lone CR after the stream keyword, but the property
					// statement does not list it (and /Length still equals the byte count): counted, not judged
					r.Count("stream_keyword_followed_by_CR_alone(not judged)", 1)
					continue
				}
				cls := problemClass(p)
				key := "structure:" + cls + ":" + op.name + ":xrefstream=" + fmt.Sprint(wc.xrefStream)
				if r.Want(key) {
					r.Violation(key, fmt.Sprintf("%s on %s with %s: %s", op.name, f.Name, wc, p), rep)
				}
			}
			if ji%997 == 0 {
				r.Sample(map[string]any{"document": f.Name, "writer": wc.String(), "operation": op.name, "output": sf.Summary()})
			}
			return
		}
		// ---- C19: read back and compare
		if wc.objStream || wc.xrefStream || wc.eol != "\n" || op.pw != "" {
			r.Nontrivial(1)
		}
		c := newConf()
		c.UserPW = op.pw
		ctx, err := pdfx.Read(out, c)
		if err != nil {
			key := "readback-failed:" + site
			if r.Want(key) {
				r.Violation(key, fmt.Sprintf("%s on %s with %s: output cannot be read back: %v", op.name, f.Name, wc, err), rep)
			}
			return
		}
		pgs, err := pdfx.Pages(ctx)
		if err != nil {
			r.Violation("readback-pagetree:"+op.name, fmt.Sprintf("%s on %s with %s: %v", op.name, f.Name, wc, err), rep)
			return
		}
		if !op.preserve {
			return
		}
		if len(pgs) != len(f.Markers) {
			r.Violation("page-count:"+op.name, fmt.Sprintf("%s on %s with %s: %d pages, input has %d", op.name, f.Name, wc, len(pgs), len(f.Markers)), rep)
			return
		}
		for pi, p := range pgs {
			mk := pdfx.Markers(ctx, p)
			what := ""
			switch {
			case len(mk) != 1 || mk[0] != f.Markers[pi]:
				what = fmt.Sprintf("content markers %v, want [%d]", mk, f.Markers[pi])
			case p.Rotate != f.Rotate[pi]:
				what = fmt.Sprintf("effective /Rotate %d, want %d", p.Rotate, f.Rotate[pi])
			case fmtBox(p.MediaBox) != f.Media[pi]:
				what = fmt.Sprintf("effective MediaBox %s, want %s", fmtBox(p.MediaBox), f.Media[pi])
			}
			if what == "" && op.name != "add-annotation-as-increment" {
				fp := pdfx.UsedFingerprint(ctx, p)
				if fp != views[j.fi].fps[pi] {
					what = fmt.Sprintf("page fingerprint differs:\n  in : %s\n  out: %s", trimTo(views[j.fi].fps[pi], 3000), trimTo(fp, 3000))
				}
			}
			if what != "" {
				key := "page-differs:" + op.name + ":" + strings.SplitN(what, " ", 3)[0] + strings.SplitN(what, " ", 3)[1]
				if r.Want(key) {
					r.Violation(key, fmt.Sprintf("%s on %s with %s: page %d: %s", op.name, f.Name, wc, pi+1, what), rep)
				}
			}
		}
		// document information
		if !strings.Contains(f.Name, "no-info") {
			title := infoString(ctx, "Title")
			if title != "family" {
				key := "info-title:" + op.name
				if r.Want(key) {
					r.Violation(key, fmt.Sprintf("%s on %s with %s: Info /Title reads back as %q", op.name, f.Name, wc, title), rep)
				}
			}
		}
		if ji%997 == 0 {
			r.Sample(rep)
		}
	})
	if structure {
		c18Encrypted(r)
	}
}

// c18Encrypted: the structure oracle on outputs derived from ENCRYPTED inputs that pdfcpu did not write itself
// (mc/isocrypt: revisions 2..6, RC4 and AES, the content stream's /Length direct or a reference): decrypt,
// change the user password (decrypt + re-encrypt), rotate with the password supplied, under every writer
// configuration. Stream lengths change between cipher text and plain text; a length taken from the wrong side
// shows up as an inexact /Length.
func c18Encrypted(r *core.R) {
	type alg struct {
		name string
		rev  int
		aes  bool
		kl   int
	}
	algs := []alg{{"R2-RC4-40", 2, false, 40}, {"R3-RC4-128", 3, false, 128}, {"R4-RC4-128", 4, false, 128}, {"R4-AES-128", 4, true, 128}, {"R5-AES-256", 5, true, 256}, {"R6-AES-256", 6, true, 256}}
	type eop struct {
		name string
		run  func(in []byte, c *model.Configuration) ([]byte, error)
	}
	buf := func(f func(rs io.ReadSeeker, w io.Writer) error) func(in []byte) ([]byte, error) {
		return func(in []byte) ([]byte, error) {
			var out bytes.Buffer
			err := f(bytes.NewReader(in), &out)
			return out.Bytes(), err
		}
	}
	eops := []eop{
		{"decrypt", func(in []byte, c *model.Configuration) ([]byte, error) {
			return buf(func(rs io.ReadSeeker, w io.Writer) error { return api.Decrypt(rs, w, c) })(in)
		}},
		{"change-user-password", func(in []byte, c *model.Configuration) ([]byte, error) {
			return buf(func(rs io.ReadSeeker, w io.Writer) error { return api.ChangeUserPassword(rs, w, "u", "new", c) })(in)
		}},
		{"rotate-encrypted", func(in []byte, c *model.Configuration) ([]byte, error) {
			return buf(func(rs io.ReadSeeker, w io.Writer) error { return api.Rotate(rs, w, 90, nil, c) })(in)
		}},
	}
	type job struct {
		a        alg
		indirect bool
		wc       wconf
		op       eop
	}
	var jobs []job
	for _, a := range algs {
		for _, ind := range []bool{false, true} {
			for _, wc := range wconfs() {
				if r.Quick() && wc.eol != "\n" {
					continue
				}
				for _, op := range eops {
					jobs = append(jobs, job{a, ind, wc, op})
				}
			}
		}
	}
	r.Note("encrypted_input_jobs", len(jobs))
	core.ParFor(len(jobs), func(i int) {
		j := jobs[i]
		in, _, _ := isocrypt.BuildEncryptedPDF(isocrypt.DocSpec{R: j.a.rev, AES: j.a.aes, KeyBits: j.a.kl, UserPw: []byte("u"), OwnerPw: []byte("o"),
			P: -44, EncryptMetadata: true, Marker: "c18", IndirectLength: j.indirect})
		c := j.wc.conf()
		c.UserPW, c.OwnerPW = "u", "o"
		var out []byte
		var err error
		pv, _ := core.Try(func() { out, err = j.op.run(in, c) })
		r.Eval(1)
		name := fmt.Sprintf("isocrypt %s, indirect /Length=%v", j.a.name, j.indirect)
		rep := map[string]any{"document": name, "writer": j.wc.String(), "operation": j.op.name}
		if pv != nil {
			if key := "panic:" + j.op.name; r.Want(key) {
				r.Violation(key, fmt.Sprintf("%s on %s with %s panicked: %v", j.op.name, name, j.wc, pv), rep)
			}
			return
		}
		if err != nil {
			// revisions pdfcpu refuses to process are C26's subject
			r.Count("encrypted_input_operation_refused", 1)
			return
		}
		r.Nontrivial(1)
		sf := strictpdf.Parse(out)
		for _, p := range sf.Problems {
			if strings.Contains(p, "keyword stream is followed by CR alone") {
				continue
			}
			key := fmt.Sprintf("structure:%s:%s:encrypted-input:indirect-length=%v", problemClass(p), j.op.name, j.indirect)
			if r.Want(key) {
				r.Violation(key, fmt.Sprintf("%s on %s with %s: %s", j.op.name, name, j.wc, p), rep)
			}
		}
	})
}

func fmtBox(b []float64) string {
	var ss []string
	for _, v := range b {
		ss = append(ss, fmt.Sprintf("%g", v))
	}
	return "[" + strings.Join(ss, " ") + "]"
}

func trimTo(s string, n int) string {
	if len(s) > n {
		return s[:n] + "…"
	}
	return s
}

func famClass(name string) string {
	if i := strings.LastIndex(name, "/"); i >= 0 {
		return name[i+1:]
	}
	return name
}

func infoString(ctx *model.Context, key string) string {
	if ctx.Info == nil {
		return ""
	}
	d, err := ctx.DereferenceDict(*ctx.Info)
	if err != nil || d == nil {
		return ""
	}
	o, ok := d.Find(key)
	if !ok {
		return ""
	}
	o, _ = ctx.Dereference(o)
	s, err := types.StringOrHexLiteral(o)
	if err != nil || s == nil {
		return ""
	}
	return *s
}

// problemClass strips numbers from a strictpdf problem line.
func problemClass(p string) string {
	var sb strings.Builder
	prevDigit := false
	for _, c := range p {
		if c >= '0' && c <= '9' {
			if !prevDigit {
				sb.WriteByte('#')
			}
			prevDigit = true
			continue
		}
		prevDigit = false
		sb.WriteRune(c)
	}
	s := sb.String()
	if len(s) > 90 {
		s = s[:90]
	}
	return s
}
