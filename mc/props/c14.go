package props

import (
	"fmt"
	"time"

	"github.com/pdfcpu/pdfcpu/pkg/pdfcpu/types"
	"verif/mc/core"
)

// C14: dates written by pdfcpu are valid ISO 32000 date strings and parse back to the same instant.
func init() {
	core.Register(&core.Check{
		ID:    "C14",
		Level: "exploration",
		Rule: "(i) every calendar day of years 0..9999 x times of day {00:00:00, 12:34:56, 23:59:59} (quick: 1) x offsets {0, +00:01, -00:01, -23:59, +14:00, +05:30, -03:30}; (ii) every whole-minute offset in [-23:59,+23:59] x 60 boundary datetimes; DateString -> grammar check -> DateTime(strict) must give the same instant and offset; " +
			"non-trivial = year < 1000, or offset with non-zero minutes, or negative offset, or a month/year boundary",
		Run: runC14,
	})
}


func c14class(t time.Time) string {
	_, off := t.Zone()
	c := ""
	if t.Year() < 1000 {
		c += "year<1000"
	} else {
		c += "year>=1000"
	}
	switch {
	case off == 0:
		c += ",offset=0"
	case off > 0 && (off/60)%60 == 0:
		c += ",offset>0,min=0"
	case off > 0:
		c += ",offset>0,min!=0"
	case (-off/60)%60 == 0:
		c += ",offset<0,min=0"
	default:
		c += ",offset<0,min!=0"
	}
	return c
}

func c14one(r *core.R, t time.Time) {
	s := types.DateString(t)
	rep := func() any { return map[string]any{"time": t.Format(time.RFC3339), "written": s} }
	// D:YYYYMMDDHHmmSSOHH'mm' (trailing apostrophe optional, ISO 32000-2 dropped it)
	bad := !(len(s) == 23 || len(s) == 22) || s[:2] != "D:" || s[19] != '\'' || (len(s) == 23 && s[22] != '\'') ||
		!(s[16] == '+' || s[16] == '-' || s[16] == 'Z')
	num := func(a, b int) int {
		v := 0
		for i := a; i < b; i++ {
			if s[i] < '0' || s[i] > '9' {
				bad = true
				return 0
			}
			v = v*10 + int(s[i]-'0')
		}
		return v
	}
	if !bad {
		num(2, 6)
		mo, d, h, mi, se, oh, om := num(6, 8), num(8, 10), num(10, 12), num(12, 14), num(14, 16), num(17, 19), num(20, 22)
		bad = bad || mo < 1 || mo > 12 || d < 1 || d > 31 || h > 23 || mi > 59 || se > 59 || oh > 23 || om > 59
	}
	if bad {
		if !r.Want("grammar:" + c14class(t)) {
			return
		}
		r.Violation("grammar:"+c14class(t), fmt.Sprintf("DateString(%s) = %q is not a valid ISO 32000 date string", t.Format(time.RFC3339), s), rep())
		return
	}
	p, ok := types.DateTime(s, false)
	if !ok {
		r.Violation("strict-parse-rejects:"+c14class(t), fmt.Sprintf("DateTime(%q, strict) rejected (written for %s)", s, t.Format(time.RFC3339)), rep())
		return
	}
	_, o1 := t.Zone()
	_, o2 := p.Zone()
	if (!p.Equal(t) || o1 != o2) && r.Want("instant:"+c14class(t)) {
		r.Violation("instant:"+c14class(t), fmt.Sprintf("DateTime(DateString(%s)=%q) = %s (offsets %d vs %d s)", t.Format(time.RFC3339), s, p.Format(time.RFC3339), o1, o2), rep())
	}
}

func runC14(r *core.R) {
	offs := []int{0, 1, -1, -(23*60 + 59), 14 * 60, 5*60 + 30, -(3*60 + 30)}
	tods := [][3]int{{12, 34, 56}}
	if !r.Quick() {
		tods = [][3]int{{0, 0, 0}, {12, 34, 56}, {23, 59, 59}}
	}
	locs := make([]*time.Location, len(offs))
	for i, o := range offs {
		locs[i] = time.FixedZone("", o*60)
	}
	core.ParFor(10000, func(y int) {
		var ev, nt int64
		for d := time.Date(y, 1, 1, 0, 0, 0, 0, time.UTC); d.Year() == y; d = d.AddDate(0, 0, 1) {
			for _, tod := range tods {
				for i, loc := range locs {
					t := time.Date(y, d.Month(), d.Day(), tod[0], tod[1], tod[2], 0, loc)
					c14one(r, t)
					ev++
					if y < 1000 || offs[i]%60 != 0 || offs[i] < 0 || d.Day() == 1 {
						nt++
					}
				}
			}
		}
		r.Eval(ev)
		r.Nontrivial(nt)
	})
	r.Sample(map[string]any{"time": "0999-12-31T12:34:56-23:59"})
	// (ii) all offsets x boundary datetimes
	var bds []time.Time
	for _, y := range []int{0, 1, 9, 10, 99, 100, 999, 1000, 1999, 2000, 2024, 9999} {
		for _, md := range [][2]int{{1, 1}, {2, 28}, {2, 29}, {3, 1}, {12, 31}} {
			if md == [2]int{2, 29} && !(y%4 == 0 && (y%100 != 0 || y%400 == 0)) {
				continue
			}
			bds = append(bds, time.Date(y, time.Month(md[0]), md[1], 0, 0, 0, 0, time.UTC))
		}
	}
	r.Note("boundary_datetimes", len(bds)*2)
	core.ParFor(2*(23*60+59)+1, func(i int) {
		off := i - (23*60 + 59)
		loc := time.FixedZone("", off*60)
		var ev int64
		for _, b := range bds {
			for _, tod := range [][3]int{{0, 0, 0}, {23, 59, 59}} {
				c14one(r, time.Date(b.Year(), b.Month(), b.Day(), tod[0], tod[1], tod[2], 0, loc))
				ev++
			}
		}
		r.Eval(ev)
		r.Nontrivial(ev)
	})
	r.Count("offsets", 2*(23*60+59)+1)
	r.Sample(map[string]any{"time": "2000-02-29T23:59:59", "offset_minutes": -1439})
}
