package props

import (
	"bytes"
	"encoding/json"
	"errors"
	"fmt"
	"strings"
	"time"

	"github.com/pdfcpu/pdfcpu/pkg/api"
	"github.com/pdfcpu/pdfcpu/pkg/pdfcpu"
	"github.com/pdfcpu/pdfcpu/pkg/pdfcpu/color"
	"verif/mc/core"
	"verif/mc/docgen"
)

// C36: bookmark export and import round-trip; reading terminates on any outline.
func init() {
	core.Register(&core.Check{
		ID:    "C36",
		Level: "exploration",
		Rule: "every ordered forest with <=4 nodes and depth <=3 (21 shapes) x every target-page assignment over 4 pages (valid ones: siblings non-decreasing, first kid >= parent - must round-trip; invalid ones must be rejected with the invalid-bookmark error) x title variation one node at a time over {A, ü, '(', U+1D11E, 'Part<U+00A0>1', 'a<U+200C>b', '第1章<U+3000>序'} x every partition of the nodes into classes of EQUAL titles x style variation one node at a time {bold, italic, both, colour}: AddBookmarks -> export J1 -> import(replace) into a fresh copy -> export J2, J1 == J2 == the tree that was added; plus depth-5 chains and 6-sibling rows; plus docgen-written outlines (UTF-16BE titles) exported directly; corrupted outlines: every assignment of /Next, /First, /Parent, /Prev, /Last of each node of a 3-node outline to every node: listing and export must terminate with a result or an error; " +
			"non-trivial = a tree with >=2 nodes or a non-ASCII title",
		Assume: []string{"JSON trees are compared structurally after parsing (title, page, bold, italic, colour, kids, order); header fields are ignored"},
		Run:    runC36,
	})
}

type bmNode struct {
	kids []*bmNode
}

// forests enumerates ordered forests with exactly n nodes and depth <= d.
func forests(n, d int) [][]*bmNode {
	if n == 0 {
		return [][]*bmNode{nil}
	}
	if d == 0 {
		return nil
	}
	var out [][]*bmNode
	// first tree takes k nodes (1 root + k-1 in its child forest), rest n-k
	for k := 1; k <= n; k++ {
		for _, cf := range forests(k-1, d-1) {
			for _, rest := range forests(n-k, d) {
				f := append([]*bmNode{{kids: cf}}, rest...)
				out = append(out, f)
			}
		}
	}
	return out
}

func countNodes(f []*bmNode) int {
	n := 0
	for _, t := range f {
		n += 1 + countNodes(t.kids)
	}
	return n
}

// build assigns pages/titles/styles in preorder.
func buildBms(f []*bmNode, pages []int, titles []string, styles []int, idx *int) []pdfcpu.Bookmark {
	var out []pdfcpu.Bookmark
	for _, t := range f {
		i := *idx
		*idx++
		b := pdfcpu.Bookmark{Title: titles[i], PageFrom: pages[i]}
		switch styles[i] {
		case 1:
			b.Bold = true
		case 2:
			b.Italic = true
		case 3:
			b.Bold, b.Italic = true, true
		case 4:
			b.Color = &color.SimpleColor{R: 1, G: 0.5, B: 0}
		}
		b.Kids = buildBms(t.kids, pages, titles, styles, idx)
		out = append(out, b)
	}
	return out
}

func validPages(bms []pdfcpu.Bookmark, parent *int) bool {
	for i, b := range bms {
		if i == 0 && parent != nil && b.PageFrom < *parent {
			return false
		}
		if i > 0 && b.PageFrom < bms[i-1].PageFrom {
			return false
		}
		p := b.PageFrom
		if !validPages(b.Kids, &p) {
			return false
		}
	}
	return true
}

type jbm struct {
	Title  string             `json:"title"`
	Page   int                `json:"page"`
	Bold   bool               `json:"bold"`
	Italic bool               `json:"italic"`
	Color  *color.SimpleColor `json:"color"`
	Kids   []jbm              `json:"kids"`
}

func canonJ(bs []jbm) string {
	var sb strings.Builder
	for _, b := range bs {
		c := "-"
		if b.Color != nil {
			c = fmt.Sprintf("%.2f/%.2f/%.2f", b.Color.R, b.Color.G, b.Color.B)
		}
		fmt.Fprintf(&sb, "{%q p%d b%v i%v c%s [%s]}", b.Title, b.Page, b.Bold, b.Italic, c, canonJ(b.Kids))
	}
	return sb.String()
}

func canonB(bs []pdfcpu.Bookmark) string {
	var js []jbm
	var conv func(b pdfcpu.Bookmark) jbm
	conv = func(b pdfcpu.Bookmark) jbm {
		j := jbm{Title: b.Title, Page: b.PageFrom, Bold: b.Bold, Italic: b.Italic, Color: b.Color}
		for _, k := range b.Kids {
			j.Kids = append(j.Kids, conv(k))
		}
		return j
	}
	for _, b := range bs {
		js = append(js, conv(b))
	}
	return canonJ(js)
}

func exportTree(doc []byte) (string, []byte, error) {
	var out bytes.Buffer
	if err := api.ExportBookmarksJSON(bytes.NewReader(doc), &out, "src", newConf()); err != nil {
		return "", nil, err
	}
	var t struct {
		Bookmarks []jbm `json:"bookmarks"`
	}
	if err := json.Unmarshal(out.Bytes(), &t); err != nil {
		return "", out.Bytes(), fmt.Errorf("exported JSON invalid: %v", err)
	}
	return canonJ(t.Bookmarks), out.Bytes(), nil
}

func c36roundtrip(r *core.R, base []byte, bms []pdfcpu.Bookmark, class string, nontrivial bool) {
	r.Eval(1)
	if nontrivial {
		r.Nontrivial(1)
	}
	rep := map[string]any{"bookmarks": canonB(bms)}
	valid := validPages(bms, nil)
	var d1 bytes.Buffer
	var err error
	pv, _ := core.Try(func() { err = api.AddBookmarks(bytes.NewReader(base), &d1, bms, true, newConf()) })
	if pv != nil {
		r.Violation("add:panic", fmt.Sprintf("AddBookmarks(%s) panicked: %v", canonB(bms), pv), rep)
		return
	}
	if !valid {
		if err == nil {
			key := "add:invalid-accepted"
			if r.Want(key) {
				r.Violation(key, fmt.Sprintf("AddBookmarks accepted a tree with descending pages: %s", canonB(bms)), rep)
			}
		} else if !errors.Is(err, pdfcpu.ErrInvalidBookmark) {
			r.Count("invalid_rejected_with_other_error", 1)
		} else {
			r.Count("invalid_rejected", 1)
		}
		return
	}
	if err != nil {
		key := "add:valid-rejected:" + class
		if r.Want(key) {
			r.Violation(key, fmt.Sprintf("AddBookmarks rejected a valid tree %s: %v", canonB(bms), err), rep)
		}
		return
	}
	j1, raw1, err := exportTree(d1.Bytes())
	if err != nil {
		key := "export:failed:" + class
		if r.Want(key) {
			r.Violation(key, fmt.Sprintf("export after AddBookmarks(%s): %v", canonB(bms), err), rep)
		}
		return
	}
	if j1 != canonB(bms) {
		key := "export:differs-from-added-tree:" + class
		if r.Want(key) {
			r.Violation(key, fmt.Sprintf("exported tree differs from the tree that was added:\n  added   : %s\n  exported: %s", canonB(bms), j1), rep)
		}
	}
	var d2 bytes.Buffer
	pv, _ = core.Try(func() { err = api.ImportBookmarks(bytes.NewReader(base), bytes.NewReader(raw1), &d2, true, newConf()) })
	if pv != nil || err != nil {
		key := "import:failed:" + class
		if r.Want(key) {
			r.Violation(key, fmt.Sprintf("importing the exported JSON of %s failed: %v %v", canonB(bms), err, pv), rep)
		}
		return
	}
	j2, _, err := exportTree(d2.Bytes())
	if err != nil || j1 != j2 {
		key := "roundtrip:export-import-export-differs:" + class
		if r.Want(key) {
			r.Violation(key, fmt.Sprintf("export -> import -> export differs (%v):\n  first : %s\n  second: %s", err, j1, j2), rep)
		}
	}
}

func runC36(r *core.R) {
	base := docgen.Marked(4, 0)
	titles := []string{"A", "ü", "(", "\U0001D11E", "Part 1", "a‌b", "第1章　序"}
	maxNodes := 4
	type fcase struct {
		f []*bmNode
		n int
	}
	var fcs []fcase
	for n := 1; n <= maxNodes; n++ {
		for _, f := range forests(n, 3) {
			fcs = append(fcs, fcase{f, n})
		}
	}
	r.Note("forest_shapes", len(fcs))
	core.ParFor(len(fcs), func(fi int) {
		fc := fcs[fi]
		n := fc.n
		def := make([]string, n)
		zero := make([]int, n)
		for i := range def {
			def[i] = fmt.Sprintf("T%d", i+1)
		}
		// every page assignment over 4 pages
		pages := make([]int, n)
		var rec func(i int)
		rec = func(i int) {
			if i == n {
				idx := 0
				bms := buildBms(fc.f, pages, def, zero, &idx)
				c36roundtrip(r, base, bms, "pages", n >= 2)
				return
			}
			for p := 1; p <= 4; p++ {
				pages[i] = p
				rec(i + 1)
			}
		}
		if n <= 3 || r.Quick() == false {
			rec(0)
		} else {
			// 4 nodes in quick tier: pages from {1,2,4}
			var rec3 func(i int)
			rec3 = func(i int) {
				if i == n {
					idx := 0
					c36roundtrip(r, base, buildBms(fc.f, pages, def, zero, &idx), "pages", true)
					return
				}
				for _, p := range []int{1, 2, 4} {
					pages[i] = p
					rec3(i + 1)
				}
			}
			rec3(0)
		}
		// title and style variation, one node at a time, on the all-ascending page assignment
		asc := make([]int, n)
		for i := range asc {
			asc[i] = 1 + i*3/n
		}
		ok := func() bool { idx := 0; return validPages(buildBms(fc.f, asc, def, zero, &idx), nil) }()
		if !ok {
			for i := range asc {
				asc[i] = 2
			}
		}
		// equal titles: every partition of the nodes into title classes (all equal, pairs equal, ...): named
		// destinations and name-tree keys derived from titles must not make equal titles share a target
		{
			var part func(i int, cls []int, k int)
			part = func(i int, cls []int, k int) {
				if i == n {
					if k == n {
						return // all distinct: covered above
					}
					ts := make([]string, n)
					for j, c := range cls {
						ts[j] = []string{"Same", "Other", "Third", "Fourth"}[c]
					}
					// spread the pages so that equal titles point at different pages where the shape allows it
					idx := 0
					bms := buildBms(fc.f, asc, ts, zero, &idx)
					c36roundtrip(r, base, bms, "equal-titles", true)
					return
				}
				for c := 0; c <= k && c < 4; c++ {
					nk := k
					if c == k {
						nk = k + 1
					}
					part(i+1, append(cls, c), nk)
				}
			}
			part(0, nil, 0)
		}
		for i := 0; i < n; i++ {
			for _, t := range titles {
				ts := append([]string{}, def...)
				ts[i] = t
				idx := 0
				c36roundtrip(r, base, buildBms(fc.f, asc, ts, zero, &idx), "titles", true)
			}
			for st := 1; st <= 4; st++ {
				ss := make([]int, n)
				ss[i] = st
				idx := 0
				c36roundtrip(r, base, buildBms(fc.f, asc, def, ss, &idx), "styles", true)
			}
		}
	})
	r.Sample(map[string]any{"forest": "A(B(C)) D", "pages": []int{1, 2, 2, 4}, "title_variation": "Part<U+00A0>1"})
	// chains and rows
	chain := []pdfcpu.Bookmark{{Title: "c5", PageFrom: 3}}
	for i := 4; i >= 1; i-- {
		chain = []pdfcpu.Bookmark{{Title: fmt.Sprintf("c%d", i), PageFrom: 1 + i/2, Kids: chain}}
	}
	c36roundtrip(r, base, chain, "chain", true)
	var row []pdfcpu.Bookmark
	for i := 0; i < 6; i++ {
		row = append(row, pdfcpu.Bookmark{Title: fmt.Sprintf("r%d", i), PageFrom: 1 + i/2, Bold: i%2 == 0})
	}
	c36roundtrip(r, base, row, "row", true)
	// docgen-written outline exported directly
	for _, t := range titles {
		doc := outlineDoc([]string{t, "B", "C"}, nil)
		r.Eval(1)
		r.Nontrivial(1)
		j, _, err := exportTree(doc)
		want := canonJ([]jbm{{Title: t, Page: 1}, {Title: "B", Page: 2}, {Title: "C", Page: 3}})
		if err != nil || j != want {
			key := "export:differs-from-document"
			if r.Want(key) {
				r.Violation(key, fmt.Sprintf("outline written by the harness with title %q exports as %s (%v), want %s", t, j, err, want), map[string]any{"title": t})
			}
		}
	}
	// outlines written by the harness in every destination style
	c36Foreign(r)
	// corrupted outlines: every single pointer reassignment
	fields := []string{"Next", "First", "Parent", "Prev", "Last"}
	type cc struct {
		node  int
		field string
		to    int
	}
	var ccs []cc
	for node := 0; node < 4; node++ { // 0 = outlines root, 1..3 items
		for _, f := range fields {
			for to := 0; to < 4; to++ {
				ccs = append(ccs, cc{node, f, to})
			}
		}
	}
	core.ParFor(len(ccs), func(i int) {
		c := ccs[i]
		doc := outlineDoc([]string{"A", "B", "C"}, &c36mut{c.node, c.field, c.to})
		r.Eval(1)
		r.Nontrivial(1)
		done := make(chan string, 1)
		go func() {
			pv, _ := core.Try(func() {
				api.Bookmarks(bytes.NewReader(doc), newConf())
				var out bytes.Buffer
				api.ExportBookmarksJSON(bytes.NewReader(doc), &out, "s", newConf())
			})
			if pv != nil {
				done <- fmt.Sprintf("panic: %v", pv)
			} else {
				done <- ""
			}
		}()
		select {
		case res := <-done:
			if res != "" {
				key := "corrupt-outline:panic:" + c.field
				if r.Want(key) {
					r.Violation(key, fmt.Sprintf("outline with node %d /%s -> node %d: %s", c.node, c.field, c.to, res), map[string]any{"node": c.node, "field": c.field, "to": c.to})
				}
			}
		case <-time.After(60 * time.Second):
			key := "corrupt-outline:hang:" + c.field
			r.Violation(key, fmt.Sprintf("outline with node %d /%s -> node %d: listing/export did not terminate within 60 s", c.node, c.field, c.to), map[string]any{"node": c.node, "field": c.field, "to": c.to})
		}
	})
	r.Sample(map[string]any{"corrupted_outline": "item 2 /Next -> item 1 (cycle)"})
}

type c36mut struct {
	node  int
	field string
	to    int
}

// outlineDoc: 3-page document with a flat 3-item outline written by docgen (UTF-16BE hex titles).
func outlineDoc(titles []string, mut *c36mut) []byte {
	d := docgen.Simple([]docgen.PageSpec{{Marker: 1}, {Marker: 2}, {Marker: 3}}, docgen.SimpleOpts{})
	// page object numbers: Simple allocates cat=1, root=2, font=3, then per page: content, page
	pageObj := []int{5, 7, 9}
	ol := d.Reserve()
	items := []int{d.Reserve(), d.Reserve(), d.Reserve()}
	nodes := append([]int{ol}, items...)
	utf16 := func(s string) string {
		b := []byte{0xFE, 0xFF}
		for _, rr := range []rune(s) {
			if rr >= 0x10000 {
				rr -= 0x10000
				hi, lo := 0xD800+(rr>>10), 0xDC00+(rr&0x3FF)
				b = append(b, byte(hi>>8), byte(hi), byte(lo>>8), byte(lo))
			} else {
				b = append(b, byte(rr>>8), byte(rr))
			}
		}
		return fmt.Sprintf("<%x>", b)
	}
	entries := make([]map[string]string, 4)
	entries[0] = map[string]string{"Type": "/Outlines", "First": docgen.Ref(items[0]), "Last": docgen.Ref(items[2]), "Count": "3"}
	for i := 0; i < 3; i++ {
		e := map[string]string{"Title": utf16(titles[i]), "Parent": docgen.Ref(ol), "Dest": fmt.Sprintf("[%s /Fit]", docgen.Ref(pageObj[i]))}
		if i > 0 {
			e["Prev"] = docgen.Ref(items[i-1])
		}
		if i < 2 {
			e["Next"] = docgen.Ref(items[i+1])
		}
		entries[i+1] = e
	}
	if mut != nil {
		entries[mut.node][mut.field] = docgen.Ref(nodes[mut.to])
	}
	for i, e := range entries {
		var sb strings.Builder
		sb.WriteString("<<")
		for _, k := range []string{"Type", "Title", "Parent", "Prev", "Next", "First", "Last", "Count", "Dest"} {
			if v, ok := e[k]; ok {
				fmt.Fprintf(&sb, "/%s %s", k, v)
			}
		}
		sb.WriteString(">>")
		d.Set(nodes[i], sb.String())
	}
	d.PatchCatalog(fmt.Sprintf("/Outlines %s", docgen.Ref(ol)))
	return d.Bytes()
}
