package props

import (
	"bytes"
	"fmt"
	"io"
	"os"
	"path/filepath"
	"regexp"
	"runtime/debug"
	"sort"
	"strings"

	"github.com/pdfcpu/pdfcpu/pkg/api"
	"github.com/pdfcpu/pdfcpu/pkg/pdfcpu"
	"github.com/pdfcpu/pdfcpu/pkg/pdfcpu/model"
	"github.com/pdfcpu/pdfcpu/pkg/pdfcpu/pkcs7"
	"github.com/pdfcpu/pdfcpu/pkg/pdfcpu/types"
	"verif/mc/core"
	"verif/mc/docgen"
	"verif/mc/sigdoc"
)

// C08: malformed input never crashes, overflows the stack or hangs.
func init() {
	core.Register(&core.Check{
		ID:    "C08",
		Level: "exploration",
		Rule: "bounded mutation closure: the COMPLETE single-mutation neighbourhood of a fixed seed set under a fixed mutation alphabet, through a fixed list of entry points. Seeds: minimal generated documents (classic xref, nested page tree with inheritance, xref stream, object streams, incremental update, filters, outlines, attachments, AcroForm, encrypted, signed, hazardous names, annotations) plus earlier crashers; non-PDF seeds (PKCS#7 blob, certificate file, form-fill JSON). Mutations: every truncation; at every offset each of 12 replacement bytes and deletion; every integer token -> {0, -1, 2^31, 2^63-1, 2^64, 10^20}; every indirect reference -> every object number of the file (all self references and cycles); startxref -> every object offset; every name -> every other name of the file; inside compressed containers: every number of the object stream prolog and every field of every cross-reference stream row -> boundary values. Entry points: read -> validate -> optimize -> write (relaxed), strict validation, info, content/image/font/metadata extraction, annotations, attachments, bookmarks, form export, rotate, trim, text stamp, signature validation; oracle: the call returns (a value or an error): no panic escapes, the worker process does not die (stack overflow, fatal error, out of memory), no stall (60 s without progress, confirmed by the kill), and the bytes read from the input stay within 4096 x (input size + 4 KiB); " +
			"non-trivial = a mutated input that the reader did not reject outright (some entry point got past reading)",
		Assume:   []string{"the closure is relative to the seed set and alphabet stated; arbitrary byte strings beyond it are not covered", "wall clock is used only as a stall detector for killing a worker, never as a pass/fail oracle on a completed run"},
		Run:      runC08,
		RunShard: c08shard,
	})
}

type c08Seed struct {
	name string
	kind string // pdf | pkcs7 | cert | json
	b    []byte
	pw   [2]string
	// build re-creates the seed's document builder for structure-aware mutations of compressed containers
	build  func() *docgen.Doc
	objstm bool
}

func c08Seeds(thorough bool) []c08Seed {
	fx := GetFixtures()
	var ss []c08Seed
	add := func(n string, b []byte) { ss = append(ss, c08Seed{name: n, kind: "pdf", b: b}) }
	add("classic-1page", docgen.Marked(1, 0))
	one := func(o docgen.SimpleOpts) *docgen.Doc { return docgen.Simple([]docgen.PageSpec{{Marker: 1}, {Marker: 2, Rotate: 90}}, o) }
	ss = append(ss, c08Seed{name: "xrefstream", kind: "pdf", b: one(docgen.SimpleOpts{}).BytesXRefStream(false), build: func() *docgen.Doc { return one(docgen.SimpleOpts{}) }})
	ss = append(ss, c08Seed{name: "objstream", kind: "pdf", b: one(docgen.SimpleOpts{}).BytesXRefStream(true), build: func() *docgen.Doc { return one(docgen.SimpleOpts{}) }, objstm: true})
	add("nested-tree-inherit", one(docgen.SimpleOpts{Nested: true, RootRotate: 180}).Bytes())
	if inc, err := c28Increment(docgen.Marked(1, 0)); err == nil {
		add("incremental-update", inc)
	}
	for _, fd := range docgen.Family(false) {
		switch {
		case strings.Contains(fd.Name, "extra=filters/classic"), strings.Contains(fd.Name, "extra=outline/classic"),
			strings.Contains(fd.Name, "extra=hazard-names/classic"), strings.Contains(fd.Name, "extra=attachment/classic"),
			strings.Contains(fd.Name, "numbering=gaps,extra=none/objstream"), strings.Contains(fd.Name, "dangling-free-ref,extra=none/classic"):
			add("family:"+fd.Name, fd.Bytes)
		}
	}
	add("acroform-nested", docgen.FormDoc("nested-inherit-da"))
	// an ancestor passing down resources of one category while the pages share an indirect sub dictionary of another
	add("shared-subdict+inherited-other", docgen.NearDup(docgen.NearDupSpec{Kind: "form", Attr: "content", Different: true, Placement: "shared-subdict+inherited-other"}))
	add("annotation", docgen.CryptoDoc("annotation", "M", "classic"))
	add("sigfields", docgen.SigDoc(docgen.SigSpec{Shape: "nested-kid", N: 1, OtherField: true, OtherGroup: true, Perms: "both", DSS: true, Container: "classic"}))
	if thorough {
		ss = append(ss, c08Seed{name: "encrypted", kind: "pdf", b: fx.Files["enc.pdf"], pw: [2]string{"upw", "opw"}})
		if d, err := sigdoc.Build(sigdoc.Options{SubFilter: "adbe.x509.rsa_sha1"}); err == nil {
			add("signed-rsa-sha1", d.Bytes)
		}
		add("watermarked(pdfcpu-written)", fx.Files["wm.pdf"])
		// documents in other producers' style
		add("foreign:acroform", docgen.ForeignForm("classic"))
		add("foreign:name-tree", c39TreeDoc(ntShape{Kids: []ntShape{{Leaf: 1}, {Kids: []ntShape{{Leaf: 1}, {Leaf: 1}, {Leaf: 1}}}}}, []string{"b.txt", "d.txt", "f.txt", "h.txt"}))
		add("foreign:outline-named-destinations", c36ForeignOutline([]pdfcpu.Bookmark{{Title: "One", PageFrom: 1, Kids: []pdfcpu.Bookmark{{Title: "Two", PageFrom: 2}}}, {Title: "Three", PageFrom: 3}}, "named-name-tree-array"))
		for _, fd := range docgen.Family(true) {
			if fd.Name == "numbering=dense,extra=none/indirect-lengths" || fd.Name == "numbering=dense,extra=shared-indirect-attrs/classic" {
				add("family:"+fd.Name, fd.Bytes)
			}
		}
		if d, err := sigdoc.Build(sigdoc.Options{SubFilter: "adbe.pkcs7.detached", Exact: true}); err == nil {
			s := d.Sigs[0]
			if raw, ok := hexValue(d.Bytes[s.ContentsStart+1 : s.ContentsEnd-1]); ok {
				ss = append(ss, c08Seed{name: "pkcs7-signeddata", kind: "pkcs7", b: raw})
			}
		}
		ss = append(ss, c08Seed{name: "certificate-pem", kind: "cert", b: makeCertPEM("c08")})
		var form bytes.Buffer
		if api.Create(nil, strings.NewReader(c37formJSON), &form, newConf()) == nil {
			if raw, _, err := exportValues(form.Bytes()); err == nil {
				ss = append(ss, c08Seed{name: "form-fill-json", kind: "json", b: withValues(raw, map[string]fval{"t1": {"x", false}})})
			}
		}
	}
	// regression seeds: inputs that crashed pdfcpu earlier (kept verbatim)
	files, _ := filepath.Glob(filepath.Join(core.VerifDir(), "mc", "props", "testdata", "c08", "*.pdf"))
	sort.Strings(files)
	for _, f := range files {
		if b, err := os.ReadFile(f); err == nil {
			ss = append(ss, c08Seed{name: "regression:" + filepath.Base(f), kind: "regression", b: b})
		}
	}
	return ss
}

var (
	c08Int  = regexp.MustCompile(`-?\d+`)
	c08Ref  = regexp.MustCompile(`(\d+) (\d+) R\b`)
	c08ObjH = regexp.MustCompile(`(?m)^(\d+) (\d+) obj\b`)
	c08Name = regexp.MustCompile(`/[A-Za-z0-9#_.+-]+`)
	c08SXre = regexp.MustCompile(`startxref\s+(\d+)`)
)

var c08Bytes = []byte{0x00, 0xff, '(', ')', '<', '>', '[', ']', '/', '%', ' ', '9'}
var c08Ints = []string{"0", "-1", "2147483648", "9223372036854775807", "18446744073709551616", "100000000000000000000"}

// c08Mutations enumerates the single-mutation neighbourhood; f is called with a label and the mutated bytes
// (valid only during the call) and returns false to stop.
func c08Mutations(s c08Seed, thorough bool, f func(label string, b []byte) bool) {
	b := s.b
	buf := make([]byte, 0, len(b)+32)
	emit := func(label string, parts ...[]byte) bool {
		buf = buf[:0]
		for _, p := range parts {
			buf = append(buf, p...)
		}
		return f(label, buf)
	}
	if s.kind == "regression" {
		emit("verbatim", b)
		return
	}
	stride := 1
	if len(b) > 6000 && !thorough {
		stride = 5
	}
	// truncations
	for n := 0; n < len(b); n += stride {
		if !emit(fmt.Sprintf("truncate to %d", n), b[:n]) {
			return
		}
	}
	// byte replacement and deletion
	for off := 0; off < len(b); off += stride {
		for _, c := range c08Bytes {
			if b[off] == c {
				continue
			}
			if !emit(fmt.Sprintf("byte %d := %#02x", off, c), b[:off], []byte{c}, b[off+1:]) {
				return
			}
		}
		if !emit(fmt.Sprintf("delete byte %d", off), b[:off], b[off+1:]) {
			return
		}
	}
	if s.kind != "pdf" {
		return
	}
	// structure-aware mutations inside compressed containers: object stream prolog and xref stream rows
	if s.build != nil {
		probe := s.build()
		var nProlog, bodyLen, nRows int
		probe.PrologMutate = func(nums []int, bl int) []int { nProlog, bodyLen = len(nums), bl; return nums }
		probe.RowsMutate = func(rows [][3]int) [][3]int { nRows = len(rows); return rows }
		probe.BytesXRefStream(s.objstm)
		for i := 0; i < nProlog; i++ {
			for _, v := range []int{0, 1, 7, bodyLen - 1, bodyLen, bodyLen + 1, 1000000, 2147483647, -1} {
				d := s.build()
				i, v := i, v
				d.PrologMutate = func(nums []int, _ int) []int { nums[i] = v; return nums }
				if !emit(fmt.Sprintf("object stream prolog number %d := %d", i, v), d.BytesXRefStream(s.objstm)) {
					return
				}
			}
		}
		for i := 0; i < nRows; i++ {
			for fld := 0; fld < 3; fld++ {
				for _, v := range []int{0, 1, 2, 3, 255, len(b) - 1, len(b), len(b) + 1, 65535, 2147483647} {
					d := s.build()
					i, fld, v := i, fld, v
					d.RowsMutate = func(rows [][3]int) [][3]int { rows[i][fld] = v; return rows }
					if !emit(fmt.Sprintf("xref stream row %d field %d := %d", i, fld, v), d.BytesXRefStream(s.objstm)) {
						return
					}
				}
			}
		}
	}
	// integer tokens
	for _, m := range c08Int.FindAllIndex(b, -1) {
		for _, v := range c08Ints {
			if string(b[m[0]:m[1]]) == v {
				continue
			}
			if !emit(fmt.Sprintf("integer at %d (%s) := %s", m[0], b[m[0]:m[1]], v), b[:m[0]], []byte(v), b[m[1]:]) {
				return
			}
		}
	}
	// references -> every object number
	maxObj := 0
	var offs []int
	for _, m := range c08ObjH.FindAllSubmatchIndex(b, -1) {
		var n int
		fmt.Sscan(string(b[m[2]:m[3]]), &n)
		if n > maxObj {
			maxObj = n
		}
		offs = append(offs, m[0])
	}
	if maxObj > 40 {
		maxObj = 40
	}
	for _, m := range c08Ref.FindAllSubmatchIndex(b, -1) {
		for n := 0; n <= maxObj+1; n++ {
			v := fmt.Sprint(n)
			if string(b[m[2]:m[3]]) == v {
				continue
			}
			if !emit(fmt.Sprintf("reference at %d (%s) -> object %d", m[0], b[m[0]:m[1]], n), b[:m[2]], []byte(v), b[m[3]:]) {
				return
			}
		}
	}
	// startxref -> every object offset
	if m := c08SXre.FindSubmatchIndex(b); m != nil {
		for _, o := range offs {
			if !emit(fmt.Sprintf("startxref := %d", o), b[:m[2]], []byte(fmt.Sprint(o)), b[m[3]:]) {
				return
			}
		}
	}
	// names -> every other name
	nameSet := map[string]bool{}
	for _, m := range c08Name.FindAll(b, -1) {
		nameSet[string(m)] = true
	}
	var names []string
	for n := range nameSet {
		names = append(names, n)
	}
	sort.Strings(names)
	for _, m := range c08Name.FindAllIndex(b, -1) {
		for _, n := range names {
			if string(b[m[0]:m[1]]) == n {
				continue
			}
			if !emit(fmt.Sprintf("name at %d (%s) := %s", m[0], b[m[0]:m[1]], n), b[:m[0]], []byte(n), b[m[1]:]) {
				return
			}
		}
	}
}

type cntReader struct {
	r *bytes.Reader
	n int64
}

func (c *cntReader) Read(p []byte) (int, error) { n, err := c.r.Read(p); c.n += int64(n); return n, err }
func (c *cntReader) Seek(o int64, w int) (int64, error) { return c.r.Seek(o, w) }

type c08Entry struct {
	name string
	run  func(b []byte, s c08Seed, rd *cntReader) (pastRead bool, err error)
}

func c08Conf(s c08Seed, mode int) *model.Configuration {
	c := newConf()
	c.ValidationMode = mode
	c.UserPW, c.OwnerPW = s.pw[0], s.pw[1]
	c.Offline = true
	return c
}

func c08Entries(thorough bool) []c08Entry {
	simple := func(name string, f func(rs io.ReadSeeker, conf *model.Configuration) error) c08Entry {
		return c08Entry{name, func(b []byte, s c08Seed, rd *cntReader) (bool, error) {
			err := f(rd, c08Conf(s, model.ValidationRelaxed))
			return err == nil, err
		}}
	}
	es := []c08Entry{
		{"read->validate->optimize->write (relaxed)", func(b []byte, s c08Seed, rd *cntReader) (bool, error) {
			conf := c08Conf(s, model.ValidationRelaxed)
			ctx, err := api.ReadContext(rd, conf)
			if err != nil {
				return false, err
			}
			if err := api.ValidateContext(ctx); err != nil {
				return true, err
			}
			if err := api.OptimizeContext(ctx); err != nil {
				return true, err
			}
			return true, api.WriteContext(ctx, io.Discard)
		}},
		{"validate (strict)", func(b []byte, s c08Seed, rd *cntReader) (bool, error) {
			err := api.Validate(rd, c08Conf(s, model.ValidationStrict))
			return err == nil, err
		}},
		{"info", func(b []byte, s c08Seed, rd *cntReader) (bool, error) {
			_, err := api.PDFInfo(rd, "x.pdf", nil, true, c08Conf(s, model.ValidationRelaxed))
			return err == nil, err
		}},
	}
	if !thorough {
		return es
	}
	es = append(es,
		simple("extract content", func(rs io.ReadSeeker, c *model.Configuration) error {
			return api.ExtractContent(rs, nil, func(r io.Reader, _ int) error { io.Copy(io.Discard, r); return nil }, c)
		}),
		simple("extract images", func(rs io.ReadSeeker, c *model.Configuration) error {
			return api.ExtractImages(rs, nil, func(model.Image, bool, int) error { return nil }, c)
		}),
		simple("extract fonts", func(rs io.ReadSeeker, c *model.Configuration) error {
			return api.ExtractFonts(rs, nil, func(pdfcpu.Font) error { return nil }, c)
		}),
		simple("extract metadata", func(rs io.ReadSeeker, c *model.Configuration) error {
			return api.ExtractMetadata(rs, func(pdfcpu.Metadata) error { return nil }, c)
		}),
		simple("annotations", func(rs io.ReadSeeker, c *model.Configuration) error { _, err := api.Annotations(rs, nil, c); return err }),
		simple("attachments", func(rs io.ReadSeeker, c *model.Configuration) error { _, err := api.Attachments(rs, c); return err }),
		simple("bookmarks export", func(rs io.ReadSeeker, c *model.Configuration) error {
			return api.ExportBookmarksJSON(rs, io.Discard, "x.pdf", c)
		}),
		simple("form export", func(rs io.ReadSeeker, c *model.Configuration) error {
			return api.ExportFormJSON(rs, io.Discard, "x.pdf", c)
		}),
		simple("rotate", func(rs io.ReadSeeker, c *model.Configuration) error { return api.Rotate(rs, io.Discard, 90, nil, c) }),
		simple("trim", func(rs io.ReadSeeker, c *model.Configuration) error { return api.Trim(rs, io.Discard, []string{"1"}, c) }),
		simple("text stamp", func(rs io.ReadSeeker, c *model.Configuration) error {
			wm, err := api.TextWatermark("S", "pos:c, points:12", true, false, types.POINTS)
			if err != nil {
				return err
			}
			return api.AddWatermarks(rs, io.Discard, nil, wm, c)
		}),
		c08Entry{"signature validation", func(b []byte, s c08Seed, rd *cntReader) (bool, error) {
			_, err := api.ValidateSignaturesRaw(bytes.NewReader(b), true, c08Conf(s, model.ValidationRelaxed))
			return err == nil, err
		}},
		simple("remove signatures", func(rs io.ReadSeeker, c *model.Configuration) error {
			return api.RemoveSignatures(rs, io.Discard, c)
		}),
	)
	return es
}

func c08NonPDF(s c08Seed, b []byte, dir string, form []byte) error {
	switch s.kind {
	case "pkcs7":
		_, err := pkcs7.Parse(b)
		return err
	case "cert":
		fn := filepath.Join(dir, "c.pem")
		os.WriteFile(fn, b, 0o644)
		_, err := pdfcpu.LoadCertificatesFile(fn)
		return err
	case "json":
		return api.FillForm(bytes.NewReader(form), bytes.NewReader(b), io.Discard, newConf())
	}
	return nil
}

var c08Frame = regexp.MustCompile(`github\.com/pdfcpu/pdfcpu/(\S+?)\((?:0x|\.\.\.|\{|\)|[a-z"])`)

// c08PanicKey: the innermost pdfcpu function of the panicking stack (root cause grouping).
func c08PanicKey(stack string) string {
	i := strings.Index(stack, "panic(")
	if i < 0 {
		i = 0
	}
	for _, m := range c08Frame.FindAllStringSubmatch(stack[i:], -1) {
		if strings.Contains(m[1], "fault.") || strings.Contains(m[1], "/vx/") {
			continue
		}
		return m[1]
	}
	return "unknown"
}

func runC08(r *core.R) {
	api.DisableConfigDir()
	core.ShardedResilient(r, 16, 60, func(caseID, kind, detail string) {
		key := "process-death:" + c08DeathKey(detail)
		if strings.HasPrefix(kind, "no progress") {
			key = "stall:" + strings.SplitN(caseID, " | ", 3)[0]
		}
		r.Violation(key, fmt.Sprintf("%s while running case [%s]: %s", kind, caseID, trimTo(detail, 700)), map[string]any{"case": caseID})
	})
}

func c08DeathKey(detail string) string {
	switch {
	case strings.Contains(detail, "stack exceeds") || strings.Contains(detail, "stack overflow"):
		for _, m := range c08Frame.FindAllStringSubmatch(detail, -1) {
			return "stack-overflow:" + m[1]
		}
		return "stack-overflow"
	case strings.Contains(detail, "out of memory") || strings.Contains(detail, "cannot allocate"):
		return "out-of-memory"
	case strings.Contains(detail, "concurrent map"):
		return "concurrent-map"
	}
	return "other"
}

func c08shard(r *core.R, shard, n int) {
	api.DisableConfigDir()
	debug.SetMaxStack(256 << 20)
	thorough := !r.Quick()
	resume := core.ResumeAfter()
	scratch := core.Scratch(fmt.Sprintf("c08-%d", shard))
	defer os.RemoveAll(scratch)
	defer sigdoc.Cleanup()
	var form bytes.Buffer
	api.Create(nil, strings.NewReader(c37formJSON), &form, newConf())
	entries := c08Entries(thorough)
	seq := 0
	var maxRatio float64
	var maxRatioCase string
	for _, s := range c08Seeds(thorough) {
		s := s
		stop := false
		c08Mutations(s, thorough, func(label string, b []byte) bool {
			seq++
			if seq%n != shard {
				return true
			}
			if seq <= resume {
				return true
			}
			if r.Expired() {
				r.Cut("deadline in seed " + s.name)
				stop = true
				return false
			}
			caseID := s.name + " | " + label
			core.Inflight(seq, caseID)
			if seq%(n*2000) == shard {
				r.Snapshot()
			}
			if s.kind != "pdf" && s.kind != "regression" {
				var err error
				pv, st := core.Try(func() { err = c08NonPDF(s, b, scratch, form.Bytes()) })
				r.Eval(1)
				if err == nil {
					r.Nontrivial(1)
				}
				if pv != nil {
					r.Violation("panic:"+c08PanicKey(st), fmt.Sprintf("%s input %s: panic: %v\n%s", s.kind, caseID, pv, trimTo(st, 900)), map[string]any{"seed": s.name, "mutation": label, "entry_point": s.kind})
				}
				return true
			}
			past := false
			for _, ep := range entries {
				rd := &cntReader{r: bytes.NewReader(b)}
				var ok bool
				pv, st := core.Try(func() { ok, _ = ep.run(b, s, rd) })
				r.Eval(1)
				if ok {
					past = true
				}
				if pv != nil {
					key := "panic:" + c08PanicKey(st)
					if r.Want(key) {
						c08Keep(s.name, label, b)
					}
					r.Violation(key, fmt.Sprintf("%s, entry point %q: panic: %v\n%s", caseID, ep.name, pv, trimTo(st, 900)), map[string]any{"seed": s.name, "mutation": label, "entry_point": ep.name})
				}
				if ratio := float64(rd.n) / float64(len(b)+4096); ratio > maxRatio {
					maxRatio, maxRatioCase = ratio, caseID+" @ "+ep.name
				}
				if rd.n > 4096*int64(len(b)+4096) {
					r.Violation("read-amplification:"+ep.name, fmt.Sprintf("%s, entry point %q: %d bytes were read from an input of %d bytes", caseID, ep.name, rd.n, len(b)), map[string]any{"seed": s.name, "mutation": label, "entry_point": ep.name})
				}
			}
			if past {
				r.Nontrivial(1)
			}
			r.Count("mutants:"+s.name, 1)
			return true
		})
		if stop {
			break
		}
	}
	r.Note(fmt.Sprintf("max_read_amplification_shard_%02d", shard), fmt.Sprintf("%.1f x (input + 4 KiB): %s", maxRatio, maxRatioCase))
	if shard == 0 {
		var names []string
		for _, s := range c08Seeds(thorough) {
			names = append(names, fmt.Sprintf("%s (%s, %d bytes)", s.name, s.kind, len(s.b)))
		}
		r.Note("seeds", names)
		var en []string
		for _, e := range entries {
			en = append(en, e.name)
		}
		r.Note("entry_points", en)
		r.Sample(map[string]any{"seed": "classic-1page", "example_mutation": "reference at N (5 0 R) -> object 2", "entry_points": en})
	}
}

// c08Keep stores a crashing input below replay/crashers for analysis (and later promotion to a regression seed).
func c08Keep(seed, label string, b []byte) {
	dir := filepath.Join(core.VerifDir(), "replay", "crashers")
	os.MkdirAll(dir, 0o755)
	name := strings.NewReplacer(" ", "_", "/", "_", ":", "_", "(", "", ")", "", "=", "", ",", "_", ">", "", "#", "").Replace("C08-" + seed + "-" + label)
	if len(name) > 150 {
		name = name[:150]
	}
	os.WriteFile(filepath.Join(dir, name+".pdf"), append([]byte{}, b...), 0o644)
}
