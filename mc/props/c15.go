package props

import (
	"bytes"
	"compress/zlib"
	"errors"
	"fmt"
	"io"
	"sort"
	"strings"

	"github.com/pdfcpu/pdfcpu/pkg/filter"
	"github.com/pdfcpu/pdfcpu/pkg/pdfcpu/types"
	"verif/mc/core"
	"verif/mc/pngtiff"
)

// Shared machinery for C15 (round trip), C16 (limits) and C17 (predictors).

type fstage struct {
	name  string
	parms map[string]int
}

func (s fstage) String() string {
	if len(s.parms) == 0 {
		return s.name
	}
	ks := []string{}
	for k := range s.parms {
		ks = append(ks, k)
	}
	sort.Strings(ks)
	var ps []string
	for _, k := range ks {
		ps = append(ps, fmt.Sprintf("%s=%d", k, s.parms[k]))
	}
	return s.name + "{" + strings.Join(ps, ",") + "}"
}

func pipeString(p []fstage) string {
	var ss []string
	for _, s := range p {
		ss = append(ss, s.String())
	}
	return strings.Join(ss, ">")
}

var fvariants = []fstage{
	{filter.ASCII85, nil}, {filter.ASCIIHex, nil}, {filter.RunLength, nil},
	{filter.LZW, map[string]int{"EarlyChange": 0}}, {filter.LZW, map[string]int{"EarlyChange": 1}}, {filter.Flate, nil},
}

func allPipelines(maxLen int) [][]fstage {
	var out [][]fstage
	var rec func(cur []fstage)
	rec = func(cur []fstage) {
		if len(cur) > 0 {
			out = append(out, append([]fstage{}, cur...))
		}
		if len(cur) == maxLen {
			return
		}
		for _, v := range fvariants {
			rec(append(cur, v))
		}
	}
	rec(nil)
	return out
}

// encodePipe encodes like StreamDict.Encode does: last stage first.
func encodePipe(p []fstage, data []byte, limit ...int64) ([]byte, error) {
	cur := data
	for i := len(p) - 1; i >= 0; i-- {
		f, err := filter.NewFilter(p[i].name, p[i].parms)
		if err != nil {
			return nil, err
		}
		r, err := f.Encode(bytes.NewReader(cur))
		if err != nil {
			return nil, err
		}
		b, err := io.ReadAll(r)
		if err != nil {
			return nil, err
		}
		cur = b
	}
	return cur, nil
}

func decodePipe(p []fstage, enc []byte, limit int64) ([]byte, error) {
	cur := enc
	for i := 0; i < len(p); i++ {
		var f filter.Filter
		var err error
		if limit != 0 {
			f, err = filter.NewFilter(p[i].name, p[i].parms, limit)
		} else {
			f, err = filter.NewFilter(p[i].name, p[i].parms)
		}
		if err != nil {
			return nil, err
		}
		r, err := f.Decode(bytes.NewReader(cur))
		if err != nil {
			return nil, err
		}
		b, err := io.ReadAll(r)
		if err != nil {
			return nil, err
		}
		cur = b
	}
	return cur, nil
}

func smallData(maxLen int) [][]byte {
	alpha := []byte{0x00, 0x01, 0x80, 0xFF}
	out := [][]byte{{}}
	var rec func(cur []byte)
	rec = func(cur []byte) {
		if len(cur) > 0 {
			out = append(out, append([]byte{}, cur...))
		}
		if len(cur) == maxLen {
			return
		}
		for _, a := range alpha {
			rec(append(cur, a))
		}
	}
	rec(nil)
	return out
}

// pseudo-random but fixed incompressible stream
func noise(n int) []byte {
	b := make([]byte, n)
	x := uint64(0x9E3779B97F4A7C15)
	for i := range b {
		x ^= x << 13
		x ^= x >> 7
		x ^= x << 17
		b[i] = byte(x >> 32)
	}
	return b
}

func structuredData() [][]byte {
	var out [][]byte
	for n := 1; n <= 131; n++ { // RunLength 128 boundary
		out = append(out, bytes.Repeat([]byte{'a'}, n))
	}
	for _, n := range []int{126, 127, 128, 129, 130, 255, 256, 257} {
		out = append(out, append(bytes.Repeat([]byte{'x'}, n), 'y', 'z'))           // run then literals
		out = append(out, append([]byte("abc"), bytes.Repeat([]byte{'d'}, n)...))   // literals then run
		lit := noise(n)
		out = append(out, lit, append(lit, bytes.Repeat([]byte{0}, 5)...))
	}
	alt := make([]byte, 300)
	for i := range alt {
		alt[i] = byte(i % 2)
	}
	out = append(out, alt)
	for n := 0; n <= 9; n++ { // ASCII85 group remainders, incl. all-zero groups ('z')
		out = append(out, bytes.Repeat([]byte{0xFF}, n), bytes.Repeat([]byte{0}, n))
	}
	out = append(out, make([]byte, 64<<10))
	return out
}

func init() {
	core.Register(&core.Check{
		ID:    "C15",
		Level: "exploration",
		Rule: "(1) every byte string of length <=4 (quick) / <=6 (thorough) over {00,01,80,FF} x every pipeline of 1-3 stages over {ASCII85, ASCIIHex, RunLength, LZW ec=0, LZW ec=1, Flate} (258), filters alone and through StreamDict.Encode/Decode; (2) structured data (runs 1..131, literal/run mixes around 128, ASCII85 remainders, 64 KiB zeros) x 1-2-stage pipelines; (3) every prefix length 0..2100 of an incompressible stream through LZW ec=0/1 (every code-width boundary) alone and behind Flate/ASCII85; (4) Flate and LZW with Predictor {1,2,10..15} x Colors 1-4 x BPC {1,2,4,8,16} x Columns 1-8 on data of exactly 1-2 rows: Decode(Encode(x)) == x or Encode refuses; " +
			"non-trivial = non-empty data",
		Run: runC15,
	})
}

func runC15(r *core.R) {
	maxLen := 4
	if !r.Quick() {
		maxLen = 6
	}
	data := smallData(maxLen)
	pipes := allPipelines(3)
	r.Note("pipelines", len(pipes))
	r.Note("small_data_strings", len(data))
	check := func(p []fstage, d []byte, via string) {
		r.Eval(1)
		if len(d) > 0 {
			r.Nontrivial(1)
		}
		var got []byte
		var err error
		if via == "filters" {
			var enc []byte
			enc, err = encodePipe(p, d)
			if err == nil {
				got, err = decodePipe(p, enc, 0)
			}
		} else {
			sd := types.StreamDict{Dict: types.Dict{}, Content: append([]byte{}, d...)}
			for _, s := range p {
				pf := types.PDFFilter{Name: s.name}
				if len(s.parms) > 0 {
					pf.DecodeParms = types.Dict{}
					for k, v := range s.parms {
						pf.DecodeParms[k] = types.Integer(v)
					}
				}
				sd.FilterPipeline = append(sd.FilterPipeline, pf)
			}
			if d == nil {
				sd.Content = []byte{}
			}
			err = sd.Encode()
			if err == nil {
				sd2 := types.StreamDict{Dict: sd.Dict, FilterPipeline: sd.FilterPipeline, Raw: sd.Raw}
				err = sd2.Decode()
				got = sd2.Content
				if err == nil && sd.StreamLength != nil && *sd.StreamLength != int64(len(sd.Raw)) {
					err = fmt.Errorf("StreamLength %d != len(Raw) %d", *sd.StreamLength, len(sd.Raw))
				}
			}
		}
		if err != nil || !bytes.Equal(got, d) {
			key := fmt.Sprintf("%s/%s/len=%d", via, pipeString(p), len(d))
			if r.Want(key) {
				r.Violation(key, fmt.Sprintf("round trip through %s via %s of %d bytes %s failed: err=%v, got %d bytes %s", pipeString(p), via, len(d), hexHead(d), err, len(got), hexHead(got)),
					map[string]any{"pipeline": pipeString(p), "via": via, "data_hex": fmt.Sprintf("%x", trunc(d, 64)), "len": len(d)})
			}
		}
	}
	core.ParFor(len(pipes), func(i int) {
		for _, d := range data {
			check(pipes[i], d, "filters")
			check(pipes[i], d, "streamdict")
		}
	})
	r.Sample(map[string]any{"pipeline": pipeString(pipes[len(pipes)-1]), "data_hex": "0180ff00"})
	// (2) structured data x 1-2-stage pipelines
	sdata := structuredData()
	p2 := allPipelines(2)
	core.ParFor(len(p2), func(i int) {
		for _, d := range sdata {
			check(p2[i], d, "filters")
		}
	})
	r.Sample(map[string]any{"pipeline": "RunLengthDecode", "data": "129 x 'a'"})
	// (3) every prefix length of noise through LZW (code-width boundaries)
	maxN := 2100
	if !r.Quick() {
		maxN = 4400
	}
	nz := noise(maxN)
	lzwPipes := [][]fstage{{fvariants[3]}, {fvariants[4]}, {fvariants[5], fvariants[3]}, {fvariants[0], fvariants[4]}, {fvariants[3], fvariants[4]}}
	core.ParFor(maxN+1, func(n int) {
		for _, p := range lzwPipes {
			check(p, nz[:n], "filters")
		}
		check(lzwPipes[0], nz[:n], "streamdict")
		check(lzwPipes[1], nz[:n], "streamdict")
	})
	r.Sample(map[string]any{"pipeline": "LZWDecode{EarlyChange=0}", "data": "noise prefix of every length 0.." + fmt.Sprint(maxN)})
	// (4) predictor parameter grid
	type pcase struct{ pred, colors, bpc, cols int }
	var grid []pcase
	for _, pred := range []int{1, 2, 10, 11, 12, 13, 14, 15} {
		for colors := 1; colors <= 4; colors++ {
			for _, bpc := range []int{1, 2, 4, 8, 16} {
				for cols := 1; cols <= 8; cols++ {
					grid = append(grid, pcase{pred, colors, bpc, cols})
				}
			}
		}
	}
	r.Note("predictor_parameter_sets", len(grid))
	core.ParFor(len(grid), func(i int) {
		g := grid[i]
		rb := pngtiff.RowBytes(g.colors, g.bpc, g.cols)
		for _, fname := range []string{filter.Flate, filter.LZW} {
			for rows := 1; rows <= 2; rows++ {
				for _, pat := range rowPatterns(rb * rows) {
					parms := map[string]int{"Predictor": g.pred, "Colors": g.colors, "BitsPerComponent": g.bpc, "Columns": g.cols}
					p := []fstage{{fname, parms}}
					r.Eval(1)
					r.Nontrivial(1)
					enc, err := encodePipe(p, pat)
					if err != nil {
						r.Count("encoder_refused", 1)
						continue
					}
					got, err := decodePipe(p, enc, 0)
					if err != nil || !bytes.Equal(got, pat) {
						cls := "none"
						switch {
						case g.pred == 2:
							cls = "tiff"
						case g.pred >= 10:
							cls = "png"
						}
						what := "decodes-to-different-bytes"
						if err != nil {
							what = "decode-error"
						}
						key := fmt.Sprintf("%s/predictor=%s/encode-accepts-but-%s", fname, cls, what)
						if r.Want(key) {
							r.Violation(key, fmt.Sprintf("%s with %v: Encode accepted the parameters, Decode(Encode(x)) gave err=%v, %s (x=%s)", fname, parms, err, hexHead(got), hexHead(pat)),
								map[string]any{"filter": fname, "parms": parms, "data_hex": fmt.Sprintf("%x", pat)})
						}
					}
				}
			}
		}
	})
	r.Sample(map[string]any{"filter": "FlateDecode", "parms": map[string]int{"Predictor": 12, "Colors": 3, "BitsPerComponent": 4, "Columns": 5}})
}

func rowPatterns(n int) [][]byte {
	mk := func(f func(i int) byte) []byte {
		b := make([]byte, n)
		for i := range b {
			b[i] = f(i)
		}
		return b
	}
	return [][]byte{
		mk(func(i int) byte { return 0 }),
		mk(func(i int) byte { return 0xFF }),
		mk(func(i int) byte { return byte(i*37 + 1) }),
		mk(func(i int) byte { return []byte{0x7F, 0x80}[i%2] }),
		mk(func(i int) byte { return []byte{0xFF, 0x01, 0x10}[i%3] }),
	}
}

func hexHead(b []byte) string {
	if len(b) > 24 {
		return fmt.Sprintf("%x…(%d bytes)", b[:24], len(b))
	}
	return fmt.Sprintf("%x", b)
}

func trunc(b []byte, n int) []byte {
	if len(b) > n {
		return b[:n]
	}
	return b
}

var _ = zlib.NewWriter
var _ = errors.Is
