package props

import (
	"bytes"
	"image/color"
	"fmt"
	"os"
	"os/exec"
	"path/filepath"
	"regexp"
	"sort"
	"strings"

	"github.com/pdfcpu/pdfcpu/pkg/api"
	"verif/mc/core"
	"verif/mc/docgen"
	"verif/mc/fsx"
)

// C04: the CLI never overwrites existing outputs without --force.
func init() {
	core.Register(&core.Check{
		ID:    "C04",
		Level: "exploration",
		Rule: "the command tree is discovered from the real binary built from the working tree (pdfcpu --help recursively); every leaf whose usage names outFile / outFileJSON / outDir is driven from a template table of valid arguments (leaves without a template are listed as coverage gaps); output state in {absent, present, present + --force, omitted (in place), equal to the input} for file outputs and {empty, non-empty, non-empty + --force} for directory outputs x output name {plain, a name containing glob metacharacters and a space}; full product; oracle: present without --force => exit status != 0, a refusal message, and the whole scratch tree byte- and mode-identical; every other state proceeds (exit 0, output exists); " +
			"non-trivial = a run with a pre-existing output (with or without --force)",
		Assume: []string{"the binary is rebuilt from /repo's working tree by bin/build before the check runs"},
		Run:    runC04,
	})
}

func cliBin() string { return filepath.Join(core.VerifDir(), ".work", "bin", "pdfcpu") }

type cliRes struct {
	code   int
	stdout []byte
	stderr []byte
}

func runCLI(dir string, stdin []byte, args ...string) cliRes {
	cmd := exec.Command(cliBin(), args...)
	cmd.Dir = dir
	cmd.Env = append(os.Environ(), "HOME="+dir, "XDG_CONFIG_HOME="+filepath.Join(dir, ".cfg"))
	var so, se bytes.Buffer
	cmd.Stdout, cmd.Stderr = &so, &se
	if stdin != nil {
		cmd.Stdin = bytes.NewReader(stdin)
	}
	err := cmd.Run()
	code := 0
	if err != nil {
		if ee, ok := err.(*exec.ExitError); ok {
			code = ee.ExitCode()
		} else {
			code = -1
		}
	}
	return cliRes{code, so.Bytes(), se.Bytes()}
}

// discoverCLI walks the command tree and returns leaf command path -> usage line.
func discoverCLI() (map[string]string, error) {
	leaves := map[string]string{}
	var walk func(path []string, depth int) error
	sub := regexp.MustCompile(`(?m)^  ([a-z][a-zA-Z]*) +\S`)
	walk = func(path []string, depth int) error {
		if depth > 3 {
			return nil
		}
		res := runCLI(os.TempDir(), nil, append(append([]string{}, path...), "--help")...)
		out := string(res.stdout) + string(res.stderr)
		i := strings.Index(out, "Available Commands:")
		if i < 0 {
			if u := strings.Index(out, "Usage:"); u >= 0 {
				line := strings.SplitN(strings.TrimSpace(out[u+6:]), "\n", 2)[0]
				leaves[strings.Join(path, " ")] = strings.TrimSpace(line)
			}
			return nil
		}
		j := strings.Index(out[i:], "\n\n")
		block := out[i:]
		if j > 0 {
			block = out[i : i+j]
		}
		for _, m := range sub.FindAllStringSubmatch(block, -1) {
			if m[1] == "help" || m[1] == "completion" {
				continue
			}
			if err := walk(append(append([]string{}, path...), m[1]), depth+1); err != nil {
				return err
			}
		}
		return nil
	}
	if err := walk(nil, 0); err != nil {
		return nil, err
	}
	if len(leaves) < 20 {
		return nil, fmt.Errorf("only %d leaf commands discovered", len(leaves))
	}
	return leaves, nil
}

// cliTemplate: arguments with placeholders IN (input pdf), OUT (output file), OUTDIR, plus fixture names.
type cliTemplate struct {
	args    []string
	input   string // fixture for IN (default in.pdf)
	outKind string // file | json | dir
	inplace bool   // OUT may be omitted
}

func cliTemplates() map[string]cliTemplate {
	t := map[string]cliTemplate{
		"annotations remove": {args: []string{"annotations", "remove", "IN", "OUT"}, input: "annot.pdf", outKind: "file", inplace: true},
		"attachments extract": {args: []string{"attachments", "extract", "IN", "OUTDIR"}, input: "att.pdf", outKind: "dir"},
		"booklet":            {args: []string{"booklet", "formsize:A4", "OUT", "2", "IN"}, outKind: "file"},
		"bookmarks export":   {args: []string{"bookmarks", "export", "IN", "OUT"}, input: "bm.pdf", outKind: "json", inplace: true},
		"bookmarks import":   {args: []string{"bookmarks", "import", "IN", "bm.json", "OUT"}, outKind: "file", inplace: true},
		"bookmarks remove":   {args: []string{"bookmarks", "remove", "IN", "OUT"}, input: "bm.pdf", outKind: "file", inplace: true},
		"boxes add":          {args: []string{"boxes", "add", "crop:[10 10 200 200]", "IN", "OUT"}, outKind: "file", inplace: true},
		"boxes remove":       {args: []string{"boxes", "remove", "crop", "IN", "OUT"}, input: "box.pdf", outKind: "file", inplace: true},
		"changeopw":          {args: []string{"changeopw", "--upw", "upw", "IN", "opw", "new", "OUT"}, input: "enc.pdf", outKind: "file", inplace: true},
		"changeupw":          {args: []string{"changeupw", "--opw", "opw", "IN", "upw", "new", "OUT"}, input: "enc.pdf", outKind: "file", inplace: true},
		"collect":            {args: []string{"collect", "-p", "3,1", "IN", "OUT"}, outKind: "file", inplace: true},
		"create":             {args: []string{"create", "form.json", "OUT"}, outKind: "file"},
		"crop":               {args: []string{"crop", "[0 0 100 100]", "IN", "OUT"}, outKind: "file", inplace: true},
		"cut":                {args: []string{"cut", "-p", "1", "hor:0.5", "IN", "OUTDIR"}, outKind: "dir"},
		"decrypt":            {args: []string{"decrypt", "--upw", "upw", "--opw", "opw", "IN", "OUT"}, input: "enc.pdf", outKind: "file", inplace: true},
		"encrypt":            {args: []string{"encrypt", "--opw", "o", "IN", "OUT"}, outKind: "file", inplace: true},
		"extract":            {args: []string{"extract", "-m", "page", "IN", "OUTDIR"}, outKind: "dir"},
		"form export":        {args: []string{"form", "export", "IN", "OUT"}, input: "form.pdf", outKind: "json", inplace: true},
		"form fill":          {args: []string{"form", "fill", "IN", "fill.json", "OUT"}, input: "form.pdf", outKind: "file", inplace: true},
		"form lock":          {args: []string{"form", "lock", "IN", "OUT"}, input: "form.pdf", outKind: "file", inplace: true},
		"form unlock":        {args: []string{"form", "unlock", "IN", "OUT"}, input: "form.pdf", outKind: "file", inplace: true},
		"form reset":         {args: []string{"form", "reset", "IN", "OUT"}, input: "form.pdf", outKind: "file", inplace: true},
		"form remove":        {args: []string{"form", "remove", "IN", "OUT", "t1"}, input: "form.pdf", outKind: "file"},
		"form multifill":     {args: []string{"form", "multifill", "IN", "fill.json", "OUTDIR"}, input: "form.pdf", outKind: "dir"},
		"grid":               {args: []string{"grid", "OUT", "1", "2", "IN"}, outKind: "file"},
		"images extract":     {args: []string{"images", "extract", "IN", "OUTDIR"}, input: "img.pdf", outKind: "dir"},
		"import":             {args: []string{"import", "OUT", "img.png"}, outKind: "file"},
		"keywords add":       {args: []string{"keywords", "add", "IN", "OUT", "kw"}, outKind: "file"},
		"keywords remove":    {args: []string{"keywords", "remove", "IN", "OUT"}, input: "kw.pdf", outKind: "file", inplace: true},
		"merge":              {args: []string{"merge", "OUT", "IN", "other.pdf"}, outKind: "file"},
		"merge#zip":          {args: []string{"merge", "-m", "zip", "OUT", "IN", "other.pdf"}, outKind: "file"},
		"merge#append":       {args: []string{"merge", "-m", "append", "OUT", "IN", "other.pdf"}, outKind: "file"},
		"extract#image":      {args: []string{"extract", "-m", "image", "IN", "OUTDIR"}, input: "img.pdf", outKind: "dir"},
		"extract#font":       {args: []string{"extract", "-m", "font", "IN", "OUTDIR"}, outKind: "dir"},
		"extract#content":    {args: []string{"extract", "-m", "content", "IN", "OUTDIR"}, outKind: "dir"},
		"stamp add#image":    {args: []string{"stamp", "add", "-m", "image", "img.png", "pos:c", "IN", "OUT"}, outKind: "file", inplace: true},
		"stamp add#pdf":      {args: []string{"stamp", "add", "-m", "pdf", "other.pdf:1", "pos:c", "IN", "OUT"}, outKind: "file", inplace: true},
		"portfolio extract":  {args: []string{"portfolio", "extract", "IN", "OUTDIR"}, input: "portfolio.pdf", outKind: "dir"},
		"images update":      {args: []string{"images", "update", "IN", "img32.png", "OUT", "1", "RA"}, input: "img.pdf", outKind: "file", inplace: true},
		"split#page":         {args: []string{"split", "-m", "page", "IN", "OUTDIR", "2"}, outKind: "dir"},
		"ndown":              {args: []string{"ndown", "-p", "1", "2", "IN", "OUTDIR"}, outKind: "dir"},
		"nup":                {args: []string{"nup", "OUT", "2", "IN"}, outKind: "file"},
		"optimize":           {args: []string{"optimize", "IN", "OUT"}, outKind: "file", inplace: true},
		"pagelayout set":     {args: []string{"pagelayout", "set", "IN", "TwoColumnLeft", "OUT"}, outKind: "file", inplace: true},
		"pagelayout reset":   {args: []string{"pagelayout", "reset", "IN", "OUT"}, input: "pl.pdf", outKind: "file", inplace: true},
		"pagemode set":       {args: []string{"pagemode", "set", "IN", "UseOutlines", "OUT"}, outKind: "file", inplace: true},
		"pagemode reset":     {args: []string{"pagemode", "reset", "IN", "OUT"}, input: "pm.pdf", outKind: "file", inplace: true},
		"pages insert":       {args: []string{"pages", "insert", "-p", "1", "IN", "OUT"}, outKind: "file", inplace: true},
		"pages remove":       {args: []string{"pages", "remove", "-p", "2", "IN", "OUT"}, outKind: "file", inplace: true},
		"permissions set":    {args: []string{"permissions", "set", "--upw", "upw", "--opw", "opw", "--perm", "all", "IN", "OUT"}, input: "enc.pdf", outKind: "file", inplace: true},
		"poster":             {args: []string{"poster", "-p", "1", "f:A6", "IN", "OUTDIR"}, outKind: "dir"},
		"properties add":     {args: []string{"properties", "add", "IN", "OUT", "A = 1"}, outKind: "file"},
		"properties remove":  {args: []string{"properties", "remove", "IN", "OUT"}, input: "prop.pdf", outKind: "file", inplace: true},
		"resize":             {args: []string{"resize", "sc:0.5", "IN", "OUT"}, outKind: "file", inplace: true},
		"rotate":             {args: []string{"rotate", "IN", "90", "OUT"}, outKind: "file", inplace: true},
		"split":              {args: []string{"split", "IN", "OUTDIR", "1"}, outKind: "dir"},
		"stamp add":          {args: []string{"stamp", "add", "S", "pos:c", "IN", "OUT"}, outKind: "file", inplace: true},
		"stamp remove":       {args: []string{"stamp", "remove", "IN", "OUT"}, input: "wm.pdf", outKind: "file", inplace: true},
		"stamp update":       {args: []string{"stamp", "update", "T", "pos:c", "IN", "OUT"}, input: "wm.pdf", outKind: "file", inplace: true},
		"trim":               {args: []string{"trim", "-p", "1-2", "IN", "OUT"}, outKind: "file", inplace: true},
		"viewerpref set":     {args: []string{"viewerpref", "set", "IN", "{\"HideToolbar\": true}", "OUT"}, outKind: "file", inplace: true},
		"viewerpref reset":   {args: []string{"viewerpref", "reset", "IN", "OUT"}, input: "vp.pdf", outKind: "file", inplace: true},
		"watermark add":      {args: []string{"watermark", "add", "W", "pos:c", "IN", "OUT"}, outKind: "file", inplace: true},
		"watermark remove":   {args: []string{"watermark", "remove", "IN", "OUT"}, input: "wm.pdf", outKind: "file", inplace: true},
		"watermark update":   {args: []string{"watermark", "update", "T", "pos:c", "IN", "OUT"}, input: "wm.pdf", outKind: "file", inplace: true},
		"zoom":               {args: []string{"zoom", "factor:0.5", "IN", "OUT"}, outKind: "file", inplace: true},
	}
	return t
}

// cliFixtures writes all fixture files needed by the templates into dir.
func cliFixtures(dir string) error {
	fx := GetFixtures()
	for n, b := range fx.Files {
		if err := os.WriteFile(filepath.Join(dir, n), b, 0o644); err != nil {
			return err
		}
	}
	var form bytes.Buffer
	if err := api.Create(nil, bytes.NewReader([]byte(c37formJSON)), &form, newConf()); err != nil {
		return err
	}
	os.WriteFile(filepath.Join(dir, "form.pdf"), form.Bytes(), 0o644)
	os.WriteFile(filepath.Join(dir, "form.json"), []byte(c37formJSON), 0o644)
	raw, _, err := exportValues(form.Bytes())
	if err != nil {
		return err
	}
	os.WriteFile(filepath.Join(dir, "fill.json"), withValues(raw, map[string]fval{"t1": {"cli", false}}), 0o644)
	in := fx.Files["in.pdf"]
	mk := func(name string, f func(w *bytes.Buffer) error) error {
		var w bytes.Buffer
		if err := f(&w); err != nil {
			return fmt.Errorf("%s: %w", name, err)
		}
		return os.WriteFile(filepath.Join(dir, name), w.Bytes(), 0o644)
	}
	if err := mk("box.pdf", func(w *bytes.Buffer) error {
		pb, err := api.PageBoundaries("crop:[10 10 200 200]", 0)
		if err != nil {
			return err
		}
		return api.AddBoxes(bytes.NewReader(in), w, nil, pb, newConf())
	}); err != nil {
		return err
	}
	if err := mk("pm.pdf", func(w *bytes.Buffer) error { return api.SetPageMode(bytes.NewReader(in), w, 1, newConf()) }); err != nil {
		return err
	}
	if err := mk("vp.pdf", func(w *bytes.Buffer) error {
		return api.SetViewerPreferencesFromJSONBytes(bytes.NewReader(in), w, []byte(`{"hideToolbar": true}`), newConf())
	}); err != nil {
		return err
	}
	os.WriteFile(filepath.Join(dir, "annot.pdf"), docgen.CryptoDoc("annotation", "M", "classic"), 0o644)
	if err := mk("portfolio.pdf", func(w *bytes.Buffer) error {
		return api.AddAttachments(bytes.NewReader(in), w, []string{filepath.Join(dir, "a.txt")}, true, newConf())
	}); err != nil {
		return err
	}
	os.WriteFile(filepath.Join(dir, "img32.png"), tinyPNG(3, 2, color.RGBA{9, 9, 9, 255}), 0o644)
	os.WriteFile(filepath.Join(dir, "img.pdf"), docgen.NearDup(docgen.NearDupSpec{Kind: "image", Attr: "data", Different: true, Placement: "direct"}), 0o644)
	return nil
}

func hasArg(a []string, x string) bool {
	for _, y := range a {
		if y == x {
			return true
		}
	}
	return false
}

func leafOf(k string) string {
	if i := strings.IndexByte(k, '#'); i >= 0 {
		return k[:i]
	}
	return k
}

// CLIFixtures is used by "mc clifixtures <dir>" for manual experiments.
func CLIFixtures(dir string) error { os.MkdirAll(dir, 0o755); return cliFixtures(dir) }

func buildArgs(t cliTemplate, in, out, outdir string, force bool) []string {
	var a []string
	for _, x := range t.args {
		switch x {
		case "IN":
			a = append(a, in)
		case "OUT":
			if out != "" {
				a = append(a, out)
			}
		case "OUTDIR":
			a = append(a, outdir)
		default:
			a = append(a, x)
		}
	}
	if force {
		// global flag after the command words
		n := 1
		if len(t.args) > 1 && !strings.ContainsAny(t.args[1], ":[-") && t.args[1] != "IN" && t.args[1] != "OUT" {
			n = 2
		}
		a = append(append(append([]string{}, a[:n]...), "--force"), a[n:]...)
	}
	return a
}

func runC04(r *core.R) {
	api.DisableConfigDir()
	if _, err := os.Stat(cliBin()); err != nil {
		r.HarnessError("CLI binary missing: %v", err)
		return
	}
	leaves, err := discoverCLI()
	if err != nil {
		r.HarnessError("command discovery: %v", err)
		return
	}
	r.Note("leaf_commands_discovered", len(leaves))
	tmpl := cliTemplates()
	var gaps []string
	var names []string
	for path, usage := range leaves {
		if strings.Contains(usage, "outFile") || strings.Contains(usage, "outDir") {
			if _, ok := tmpl[path]; !ok {
				gaps = append(gaps, path)
			}
		}
	}
	for path := range tmpl {
		if _, ok := leaves[leafOf(path)]; !ok {
			r.HarnessError("template for %q but the binary has no such command", path)
		}
	}
	for path := range tmpl {
		names = append(names, path)
	}
	sort.Strings(gaps)
	sort.Strings(names)
	r.Note("commands_with_output_argument_driven", len(names))
	r.Note("coverage_gaps_no_template", gaps)
	base := core.Scratch("c04")
	defer os.RemoveAll(base)
	fixdir := filepath.Join(base, "fix")
	os.MkdirAll(fixdir, 0o755)
	if err := cliFixtures(fixdir); err != nil {
		r.HarnessError("fixtures: %v", err)
		return
	}
	type job struct {
		path, state string
		special     bool   // output name with characters that are special to glob / shell style matching
		cfgFlip     string // boolean key of config.yml set to the opposite of its default ("" = default configuration)
	}
	// the refusal must not depend on any configuration switch: every boolean of the configuration file, one at a time
	cfgKeys := []string{"checkFileNameExt", "optimize", "writeObjectStream", "postProcessValidate"}
	if !r.Quick() {
		cfgKeys = append(cfgKeys, "reader15", "decodeAllStreams", "writeXRefStream", "encryptUsingAES", "optimizeResourceDicts", "optimizeDuplicateContentStreams", "createBookmarks", "needAppearances", "offline")
	}
	var jobs []job
	for _, n := range names {
		t := tmpl[n]
		if t.outKind == "dir" {
			for _, st := range []string{"empty", "nonempty", "nonempty+force"} {
				jobs = append(jobs, job{n, st, false, ""})
				jobs = append(jobs, job{n, st, true, ""})
			}
			for _, k := range cfgKeys {
				jobs = append(jobs, job{n, "nonempty", false, k})
			}
		} else {
			for _, st := range []string{"absent", "present", "present+force"} {
				jobs = append(jobs, job{n, st, false, ""})
				jobs = append(jobs, job{n, st, true, ""})
			}
			if n != "import" && n != "merge#append" { // their documented append semantics are the two recorded findings
				for _, k := range cfgKeys {
					jobs = append(jobs, job{n, "present", false, k})
				}
			}
			if hasArg(t.args, "IN") {
				jobs = append(jobs, job{n, "equal", false, ""})
			}
			if t.inplace {
				jobs = append(jobs, job{n, "omitted", false, ""})
			}
		}
	}
	r.Note("cases", len(jobs))
	core.ParFor(len(jobs), func(ji int) {
		j := jobs[ji]
		t := tmpl[j.path]
		dir := filepath.Join(base, fmt.Sprintf("j%d", ji))
		if err := fsx.CopyTree(fixdir, dir); err != nil {
			r.HarnessError("copy fixtures: %v", err)
			return
		}
		defer os.RemoveAll(dir)
		in := t.input
		if in == "" {
			in = "in.pdf"
		}
		// work on a copy so that in-place runs do not disturb other fixtures
		b, _ := os.ReadFile(filepath.Join(dir, in))
		os.WriteFile(filepath.Join(dir, "work.pdf"), b, 0o644)
		out := "out.pdf"
		if t.outKind == "json" {
			out = "out.json"
		}
		outdir := "outdir"
		if j.special {
			// a perfectly ordinary name on disk that happens to be a glob pattern matching nothing
			outdir = "scans[2024] *"
			out = "report[v2] *" + filepath.Ext(out)
		}
		force := strings.HasSuffix(j.state, "+force")
		switch j.state {
		case "present", "present+force":
			prec := docgen.Marked(1, 900)
			if t.outKind == "json" {
				prec = []byte("{\"precious\": true}\n")
			}
			os.WriteFile(filepath.Join(dir, out), prec, 0o600)
		case "equal":
			out = "work.pdf"
		case "omitted":
			out = ""
		case "empty":
			os.Mkdir(filepath.Join(dir, outdir), 0o755)
		case "nonempty", "nonempty+force":
			os.Mkdir(filepath.Join(dir, outdir), 0o755)
			os.WriteFile(filepath.Join(dir, outdir, "precious.txt"), []byte("precious\n"), 0o600)
		}
		if j.cfgFlip != "" {
			// let the CLI write its default configuration file, then flip one switch in it
			runCLI(dir, nil, "version")
			cf := filepath.Join(dir, ".cfg", "pdfcpu", "config.yml")
			cb, err := os.ReadFile(cf)
			re := regexp.MustCompile(`(?m)^` + j.cfgFlip + `: (true|false)\s*$`)
			m := re.FindSubmatch(cb)
			if err != nil || m == nil {
				r.HarnessError("configuration file has no boolean %q (%v)", j.cfgFlip, err)
				return
			}
			nv := "true"
			if string(m[1]) == "true" {
				nv = "false"
			}
			os.WriteFile(cf, re.ReplaceAll(cb, []byte(j.cfgFlip+": "+nv)), 0o644)
		}
		t0 := fsx.Snap(dir)
		args := buildArgs(t, "work.pdf", out, outdir, force)
		res := runCLI(dir, nil, args...)
		t1 := fsx.Snap(dir)
		delete(t0, ".cfg")
		r.Eval(1)
		if j.state != "absent" && j.state != "empty" && j.state != "omitted" {
			r.Nontrivial(1)
		}
		rep := map[string]any{"command": j.path, "state": j.state, "args": args, "special_output_name": j.special, "config_switch_flipped": j.cfgFlip}
		var diffs []string
		for _, d := range fsx.Diff(t0, t1) {
			if !strings.Contains(d, ".cfg") {
				diffs = append(diffs, d)
			}
		}
		msg := strings.ToLower(string(res.stderr) + string(res.stdout))
		switch j.state {
		case "equal":
			// the statement does not say whether naming the input as output counts as in place or as an
			// existing output; judged: either it proceeds, or it refuses and nothing changed.
			if res.code != 0 && len(diffs) > 0 {
				r.Violation("equal-to-input-failed-and-changed:"+j.path, fmt.Sprintf("pdfcpu %s failed (exit %d) but changed %v", strings.Join(args, " "), res.code, diffs), rep)
			}
		case "present", "nonempty":
			what := ""
			switch {
			case res.code == 0:
				what = "exit status 0"
			case len(diffs) > 0:
				what = fmt.Sprintf("files changed: %v", diffs)
			case !strings.Contains(msg, "force") && !strings.Contains(msg, "exist") && !strings.Contains(msg, "not empty") && !strings.Contains(msg, "overwrite"):
				what = "no refusal message"
			}
			if what != "" {
				key := "overwrites-without-force:" + j.path
				if what == "no refusal message" {
					key = "no-refusal-message:" + j.path
				}
				cfgNote := ""
				if j.cfgFlip != "" {
					key += ":config " + j.cfgFlip + " flipped"
					cfgNote = " (configuration file with " + j.cfgFlip + " set to the opposite of its default)"
				}
				r.Violation(key, fmt.Sprintf("pdfcpu %s with an existing output and no --force%s: %s (exit %d; stderr %q)", strings.Join(args, " "), cfgNote, what, res.code, trimTo(string(res.stderr), 200)), rep)
			}
		default:
			if res.code != 0 {
				key := "valid-invocation-failed:" + j.path + ":" + j.state
				r.Violation(key, fmt.Sprintf("pdfcpu %s (output state %s) failed: exit %d; stderr %q", strings.Join(args, " "), j.state, res.code, trimTo(string(res.stderr), 300)), rep)
			} else if len(diffs) == 0 {
				// "proceeds" is all the statement asks; a template that produces nothing is weak, so it is listed
				r.SetAdd("proceeded_without_writing_anything", j.path)
			}
		}
		if ji%29 == 0 {
			r.Sample(rep)
		}
	})
}
