package props

import (
	"fmt"
	"os"
	"path/filepath"
	"sort"
	"strings"
	"time"

	"github.com/pdfcpu/pdfcpu/pkg/api"
	vrand "github.com/pdfcpu/pdfcpu/vx/vrand"
	vtime "github.com/pdfcpu/pdfcpu/vx/vtime"
	"verif/mc/core"
	"verif/mc/fsx"
)

// C01: a failed or aborted file operation never damages or leaves behind files.
func init() {
	core.Register(&core.Check{
		ID:    "C01",
		Level: "fault_enumeration",
		Rule: "for every driver (file-based API entry point with valid arguments) x path configuration (in-place, out==in, new output, existing output 0600; empty / colliding output directory): one fault-free run gives the N intercepted filesystem events; then exactly one fault at each event i in 1..N: errno on every event, short write + ENOSPC on every write, panic on every data-plane event (read/seek/write); thorough: two faults (second after the first) for the staging drivers; " +
			"non-trivial = a faulted execution whose fault fired after the first output/staging file had been created",
		Assume: []string{"filesystem calls reach the kernel only through package os: cross-checked in the thorough tier by running every driver under strace and matching every mutating system call on scratch paths with an intercepted event", "a panic injected at a data-plane call stands for a panic of the processing code around it"},
		Run: func(r *core.R) {
			if os.Getenv("C01_ONLY_STRACE") != "" { // development aid: only the shim conformance step
				c01StraceConformance(r)
				return
			}
			core.Sharded(r, core.Workers())
			if !r.Quick() {
				c01StraceConformance(r)
			}
		},
		RunShard: c01shard,
		Replay:   c01replay,
		QuickSecs: 200,
	})
}

type c01case struct {
	Driver string      `json:"driver"`
	Cfg    string      `json:"config"`
	Plan   []fsx.Fault `json:"plan"`
}

func c01configs(kind string) []string {
	switch kind {
	case "single":
		return []string{"inplace", "same", "new", "existing"}
	case "create":
		return []string{"new", "existing"}
	default:
		return []string{"emptydir", "collide"}
	}
}

type c01res struct {
	err    error
	pv     any
	trace  []fsx.Ev
	fired  []int
	t0, t1 fsx.Tree
	out    string
	dir    string
}

// c01exec runs one execution in a fresh directory.
func c01exec(base string, d *FSDriver, cfg string, plan []fsx.Fault, collideName string) *c01res {
	dir := filepath.Join(base, "w")
	os.RemoveAll(dir)
	os.MkdirAll(dir, 0o755)
	fx := GetFixtures()
	os.WriteFile(filepath.Join(dir, "in.pdf"), fx.Files[d.Fixture], 0o644)
	fx.WriteTo(dir, d.Extra...)
	in := filepath.Join(dir, "in.pdf")
	out := ""
	switch cfg {
	case "inplace":
	case "same":
		out = in
	case "new":
		out = filepath.Join(dir, "out.pdf")
	case "existing":
		out = filepath.Join(dir, "out.pdf")
		os.WriteFile(out, fx.Files["existing.pdf"], 0o600)
		os.Chmod(out, 0o600)
	case "emptydir":
		out = filepath.Join(dir, "outdir")
		os.Mkdir(out, 0o755)
	case "collide":
		out = filepath.Join(dir, "outdir")
		os.Mkdir(out, 0o755)
		if collideName != "" {
			os.WriteFile(filepath.Join(out, collideName), []byte("pre-existing file\n"), 0o600)
			os.Chmod(filepath.Join(out, collideName), 0o600)
		}
	}
	res := &c01res{out: out, dir: dir}
	res.t0 = fsx.Snap(dir)
	ctl := &fsx.Ctl{Root: dir, Plan: plan}
	vtime.Pinned = time.Date(2024, 5, 6, 7, 8, 9, 0, time.UTC)
	vrand.Pin(42)
	defer func() { vtime.Pinned = time.Time{}; vrand.Unpin() }()
	res.err, res.pv = ctl.Run(func() error { return d.Run(dir, in, out) })
	res.trace = append([]fsx.Ev{}, ctl.Trace...)
	res.fired = ctl.Fired
	res.t1 = fsx.Snap(dir)
	return res
}

func dataPlane(kind string) bool {
	switch kind {
	case "read", "readat", "seek", "write", "writeat":
		return true
	}
	return false
}

func c01canonName(s string) string {
	return fsx.CanonName(s)
}

// c01judge applies the oracle to one faulted execution and records violations.
// exemptCleanupTarget: a leftover is not held against the code when the injected fault is the
// failing remove (or rename) whose target/source is exactly that file.
func exemptCleanupTarget(plan []fsx.Fault, res *c01res, name string) bool {
	cn := c01canonName(name)
	for _, f := range plan {
		parts := strings.SplitN(f.Class, " ", 2)
		if len(parts) != 2 {
			continue
		}
		switch parts[0] {
		case "remove", "removeall":
			if c01canonName(parts[1]) == cn {
				return true
			}
		}
	}
	return false
}

// c01complete: name is one of the operation's final outputs and holds a complete result.
func c01complete(res *c01res, baseT1 fsx.Tree, name string) bool {
	be, ok := baseT1[name]
	if !ok || fsx.IsStaging(name) {
		return false
	}
	e := res.t1[name]
	if e.Sum == be.Sum {
		return true
	}
	if strings.HasSuffix(name, ".pdf") {
		return api.ValidateFile(filepath.Join(res.dir, name), newConf()) == nil
	}
	return false
}

func c01judge(r *core.R, d *FSDriver, cfg string, plan []fsx.Fault, baseT1 fsx.Tree, res *c01res) {
	cs := c01case{Driver: d.Name, Cfg: cfg, Plan: plan}
	var fdesc []string
	for _, f := range plan {
		fdesc = append(fdesc, f.Kind+"@"+strings.ReplaceAll(f.Class, " ", ":"))
	}
	site := d.Name + "/" + cfg + "/" + strings.Join(fdesc, "+")
	failed := res.err != nil || res.pv != nil
	if failed {
		for _, df := range fsx.Diff(res.t0, res.t1) {
			kind := df[:strings.Index(df, ":")]
			name := df[strings.Index(df, ":")+1:]
			if i := strings.Index(name, "("); i >= 0 {
				name = name[:i]
			}
			if exemptCleanupTarget(plan, res, name) {
				// the injected fault is the failing remove/rename of exactly this file: the
				// environment made the cleanup impossible
				continue
			}
			if strings.HasSuffix(d.Name, "(incr)") && kind == "content" && name == "in.pdf" {
				if nb, err := os.ReadFile(filepath.Join(res.dir, "in.pdf")); err == nil {
					ob := GetFixtures().Files[d.Fixture]
					if len(nb) > len(ob) && string(nb[:len(ob)]) == string(ob) {
						r.Violation(d.Name+"/increment-appended-in-place-not-rolled-back", fmt.Sprintf("%s failed (%v%v) after appending %d bytes of a partial increment to the input (%s)", d.Name, res.err, pvs(res.pv), len(nb)-len(ob), site), cs)
						continue
					}
				}
			}
			if d.Kind == "multi" && baseT1 != nil && (kind == "new" || kind == "content") && c01complete(res, baseT1, name) {
				// a complete earlier output of a multi-output operation stayed (or replaced a
				// pre-existing file) although a later output failed: one finding per operation
				r.Violation(d.Name+"/multi-output-not-atomic", fmt.Sprintf("%s failed (%v%v) after publishing complete output %s; earlier outputs are kept/replaced when a later one fails (%s)", d.Name, res.err, pvs(res.pv), name, site), cs)
				continue
			}
			key := site + "/" + kind + ":" + c01canonName(name)
			how := "error"
			if res.pv != nil {
				how = "panic"
			}
			r.Violation(key, fmt.Sprintf("%s failed (%s: %v%v) but the directory changed: %s; events: %s", d.Name, how, res.err, pvs(res.pv), df, traceTail(res.trace)), cs)
		}
		return
	}
	// success despite the fault: the C03 success oracle (light form)
	for name := range res.t1 {
		if _, was := res.t0[name]; !was && fsx.IsStaging(name) {
			r.Violation(site+"/success-leaves-staging:"+c01canonName(name), fmt.Sprintf("%s returned nil although a fault was injected and left %s", d.Name, name), cs)
		}
	}
	if d.Kind != "multi" {
		o := "out.pdf"
		if cfg == "inplace" || cfg == "same" {
			o = "in.pdf"
		}
		e, ok := res.t1[o]
		if !ok || e.Size == 0 {
			r.Violation(site+"/success-without-output", fmt.Sprintf("%s returned nil although a fault was injected and %s is missing or empty", d.Name, o), cs)
		}
		if o == "out.pdf" && res.t0["in.pdf"].Sum != res.t1["in.pdf"].Sum {
			r.Violation(site+"/success-modified-input", fmt.Sprintf("%s returned nil and modified its input", d.Name), cs)
		}
	}
}

func pvs(pv any) string {
	if pv == nil {
		return ""
	}
	return fmt.Sprintf(" %v", pv)
}

func traceTail(t []fsx.Ev) string {
	var ss []string
	from := 0
	if len(t) > 14 {
		from = len(t) - 14
	}
	for i := from; i < len(t); i++ {
		s := fmt.Sprintf("%d:%s", i+1, t[i].String())
		if t[i].Err {
			s += "!"
		}
		ss = append(ss, s)
	}
	return strings.Join(ss, "; ")
}

func c01shard(r *core.R, shard, n int) {
	base := core.Scratch("c01")
	defer os.RemoveAll(base)
	ds := fsDrivers()
	type pair struct {
		d   *FSDriver
		cfg string
	}
	var pairs []pair
	for i := range ds {
		for _, cfg := range c01configs(ds[i].Kind) {
			pairs = append(pairs, pair{&ds[i], cfg})
		}
	}
	for pi, p := range pairs {
		if pi%n != shard {
			continue
		}
		d, cfg := p.d, p.cfg
		collide := ""
		if cfg == "collide" {
			b0 := c01exec(base, d, "emptydir", nil, "")
			var names []string
			for name := range b0.t1 {
				if _, was := b0.t0[name]; !was && strings.HasPrefix(name, "outdir/") {
					names = append(names, strings.TrimPrefix(name, "outdir/"))
				}
			}
			sort.Strings(names)
			if len(names) == 0 {
				r.HarnessError("%s: no outputs in baseline", d.Name)
				continue
			}
			collide = names[len(names)-1] // the last output: earlier ones are written first
		}
		b := c01exec(base, d, cfg, nil, collide)
		if b.pv != nil {
			r.HarnessError("%s/%s: baseline panicked: %v", d.Name, cfg, b.pv)
			continue
		}
		if b.err != nil && cfg != "collide" {
			r.HarnessError("%s/%s: baseline failed: %v", d.Name, cfg, b.err)
			continue
		}
		r.Count("driver_configs", 1)
		r.SetAdd("drivers", d.Name)
		N := len(b.trace)
		r.Count("baseline_events", int64(N))
		if b.err != nil {
			// a refusal (collision) is itself a failed operation: judge it
			c01judge(r, d, cfg, nil, b.t1, b)
		}
		firstCreate := N + 1
		for i, e := range b.trace {
			if e.Kind == "createtemp" || e.Kind == "create" || (e.Kind == "openfile" && !strings.HasSuffix(e.Path, "in.pdf")) || e.Kind == "mkdirtemp" {
				firstCreate = i + 1
				break
			}
		}
		one := func(plan []fsx.Fault) *c01res {
			res := c01exec(base, d, cfg, plan, collide)
			r.Eval(1)
			if len(res.fired) == 0 {
				if dataPlane(strings.SplitN(plan[0].Class, " ", 2)[0]) {
					r.Count("read_fault_not_reached", 1) // read/seek counts vary with map iteration order
				} else {
					r.HarnessError("%s/%s: fault %v did not fire (trace len %d, baseline %d)", d.Name, cfg, plan, len(res.trace), N)
				}
				return res
			}
			if res.fired[0] > firstCreate {
				r.Nontrivial(1)
			}
			outcome := "ok"
			if res.pv != nil {
				outcome = "panic"
			} else if res.err != nil {
				outcome = "error"
			}
			r.Count("outcome_"+outcome, 1)
			c01judge(r, d, cfg, plan, b.t1, res)
			return res
		}
		// enumerate fault positions as (event class, occurrence)
		var classes []string
		cnt := map[string]int{}
		for _, e := range b.trace {
			c := e.Class()
			if cnt[c] == 0 {
				classes = append(classes, c)
			}
			cnt[c]++
		}
		r.Count("event_classes", int64(len(classes)))
		for _, c := range classes {
			k0 := strings.SplitN(c, " ", 2)[0]
			for k := 1; k <= cnt[c]; k++ {
				if r.Expired() {
					r.Cut("internal deadline reached in " + d.Name + "/" + cfg)
					return
				}
				one([]fsx.Fault{{Class: c, K: k, Kind: "errno"}})
				if k0 == "write" || k0 == "writeat" {
					one([]fsx.Fault{{Class: c, K: k, Kind: "short"}})
				}
				if dataPlane(k0) {
					one([]fsx.Fault{{Class: c, K: k, Kind: "panic"}})
				}
			}
		}
		if pi%7 == 0 {
			r.Sample(c01case{Driver: d.Name, Cfg: cfg, Plan: []fsx.Fault{{Class: classes[len(classes)-1], K: 1, Kind: "errno"}}})
		}
		// bound 2 (thorough): after each first fault, a second errno at every later event of that execution
		if !r.Quick() && d.Kind != "multi" {
			for _, c := range classes {
				if dataPlane(strings.SplitN(c, " ", 2)[0]) && !strings.Contains(c, "tmp-") && !strings.Contains(c, "out.pdf") {
					// input reads: first, last occurrence only (their order is not deterministic)
					if cnt[c] > 2 {
						cnt[c] = 2
					}
				}
				for k := 1; k <= cnt[c]; k++ {
					f1 := fsx.Fault{Class: c, K: k, Kind: "errno"}
					first := c01exec(base, d, cfg, []fsx.Fault{f1}, collide)
					if len(first.fired) == 0 {
						continue
					}
					seen := map[string]int{}
					for idx, e := range first.trace {
						seen[e.Class()]++
						if idx+1 <= first.fired[0] {
							continue
						}
						if r.Expired() {
							r.Cut("internal deadline reached in bound-2 of " + d.Name + "/" + cfg)
							return
						}
						plan := []fsx.Fault{f1, {Class: e.Class(), K: seen[e.Class()], Kind: "errno"}}
						res := c01exec(base, d, cfg, plan, collide)
						r.Eval(1)
						r.Count("bound2_executions", 1)
						if len(res.fired) == 2 {
							r.Nontrivial(1)
							c01judge(r, d, cfg, plan, b.t1, res)
						}
					}
				}
			}
		}
	}
}

func c01replay(r *core.R, data []byte) {
	var cs c01case
	if err := jsonUnmarshal(data, &cs); err != nil {
		r.HarnessError("bad replay case: %v", err)
		return
	}
	base := core.Scratch("c01r")
	defer os.RemoveAll(base)
	ds := fsDrivers()
	for i := range ds {
		if ds[i].Name != cs.Driver {
			continue
		}
		collide := ""
		if cs.Cfg == "collide" {
			b0 := c01exec(base, &ds[i], "emptydir", nil, "")
			var names []string
			for name := range b0.t1 {
				if _, was := b0.t0[name]; !was && strings.HasPrefix(name, "outdir/") {
					names = append(names, strings.TrimPrefix(name, "outdir/"))
				}
			}
			sort.Strings(names)
			if len(names) > 0 {
				collide = names[len(names)-1]
			}
		}
		res := c01exec(base, &ds[i], cs.Cfg, cs.Plan, collide)
		fmt.Printf("replay %s/%s plan=%v: err=%v panic=%v\n", cs.Driver, cs.Cfg, cs.Plan, res.err, res.pv)
		for i, e := range res.trace {
			mark := ""
			if e.Err {
				mark = "  <== fault"
			}
			fmt.Printf("  %3d %s%s\n", i+1, e.String(), mark)
		}
		for _, d := range fsx.Diff(res.t0, res.t1) {
			fmt.Println("  diff:", d)
		}
		b := c01exec(base+"b", &ds[i], cs.Cfg, nil, collide)
		c01judge(r, &ds[i], cs.Cfg, cs.Plan, b.t1, res)
		os.RemoveAll(base + "b")
	}
}
