package props

import (
	"bytes"
	"encoding/hex"
	"fmt"

	"github.com/pdfcpu/pdfcpu/pkg/pdfcpu/types"
	"verif/mc/core"
)

// C12: Escape/Unescape and EncodeName/DecodeName are lossless.
func init() {
	core.Register(&core.Check{
		ID:    "C12",
		Level: "exploration",
		Rule: "all byte strings of length <=3 over the full byte domain (16 843 009) and all strings of length <=6 (quick) / <=7 (thorough) over the 16 classes the escape and name automata distinguish, through Escape->Unescape and EncodeName->DecodeName; " +
			"non-trivial = the string contains at least one byte that needs escaping (escape) or hex-encoding (name)",
		Assume: []string{"strings longer than the bound behave like their length-<=7 windows (the Unescape automaton has 4x3 control states; length 7 reaches every state x input x successor chain)"},
		Run:    runC12,
	})
}

var c12classes = []byte{'\n', '\r', '\t', '\b', '\f', '\\', '(', ')', '0', '7', '8', 'n', '#', 'A', 0x80, ' '}

func c12one(r *core.R, s []byte, nt *int64) {
	str := string(s)
	special := false
	for _, c := range s {
		switch c {
		case '\n', '\r', '\t', '\b', '\f', '\\', '(', ')':
			special = true
		}
	}
	// --- literal string escaping
	ep, err := types.Escape(str)
	if err != nil || ep == nil {
		r.Violation("escape:error:"+hex.EncodeToString(s), fmt.Sprintf("Escape(%q) failed: %v", str, err), map[string]any{"hex": hex.EncodeToString(s)})
	} else {
		e := *ep
		esc := false
		for i := 0; i < len(e); i++ {
			c := e[i]
			if esc {
				esc = false
				continue
			}
			if c == '\\' {
				esc = true
				continue
			}
			if c == '(' || c == ')' {
				r.Violation("escape:unescaped-paren:"+hex.EncodeToString(s), fmt.Sprintf("Escape(%q)=%q has an unescaped parenthesis", str, e), map[string]any{"hex": hex.EncodeToString(s)})
				break
			}
		}
		if esc {
			r.Violation("escape:dangling-backslash:"+hex.EncodeToString(s), fmt.Sprintf("Escape(%q)=%q ends inside an escape", str, e), map[string]any{"hex": hex.EncodeToString(s)})
		}
		u, err := types.Unescape(e)
		if err != nil || !bytes.Equal(u, s) {
			r.Violation("escape:roundtrip:"+hex.EncodeToString(s), fmt.Sprintf("Unescape(Escape(%q)=%q) = %q, %v", str, e, u, err), map[string]any{"hex": hex.EncodeToString(s)})
		}
	}
	// --- names (strings without NUL)
	hasNul := bytes.IndexByte(s, 0) >= 0
	needsHex := false
	if !hasNul {
		enc := types.EncodeName(str)
		for i := 0; i < len(enc); i++ {
			c := enc[i]
			bad := c < '!' || c > '~'
			switch c {
			case '(', ')', '<', '>', '[', ']', '{', '}', '/', '%':
				bad = true
			case '#':
				if i+2 >= len(enc) || !isHex(enc[i+1]) || !isHex(enc[i+2]) {
					bad = true
				} else {
					i += 2
				}
			}
			if bad {
				r.Violation("name:encoded-form:"+hex.EncodeToString(s), fmt.Sprintf("EncodeName(%q)=%q contains irregular byte %q at %d", str, enc, c, i), map[string]any{"hex": hex.EncodeToString(s)})
				break
			}
		}
		if enc != str {
			needsHex = true
		}
		dec, err := types.DecodeName(enc)
		if err != nil || dec != str {
			r.Violation("name:roundtrip:"+hex.EncodeToString(s), fmt.Sprintf("DecodeName(EncodeName(%q)=%q) = %q, %v", str, enc, dec, err), map[string]any{"hex": hex.EncodeToString(s)})
		}
	}
	if special || needsHex {
		*nt++
	}
}

func isHex(c byte) bool {
	return c >= '0' && c <= '9' || c >= 'a' && c <= 'f' || c >= 'A' && c <= 'F'
}

func runC12(r *core.R) {
	// (1) all byte strings of length <= 3
	var nt0 int64
	c12one(r, nil, &nt0)
	r.Eval(1)
	core.ParFor(256, func(a int) {
		var nt, ev int64
		buf := make([]byte, 3)
		buf[0] = byte(a)
		c12one(r, buf[:1], &nt)
		ev++
		for b := 0; b < 256; b++ {
			buf[1] = byte(b)
			c12one(r, buf[:2], &nt)
			ev++
			for c := 0; c < 256; c++ {
				buf[2] = byte(c)
				c12one(r, buf[:3], &nt)
				ev++
			}
		}
		r.Eval(ev)
		r.Nontrivial(nt)
	})
	r.Count("all_bytes_len_le3", 1+256+65536+16777216)
	r.Sample(map[string]any{"hex": "5c0d28", "via": "Escape/Unescape, EncodeName/DecodeName"})
	// (2) class strings up to maxLen; shard on the first two symbols
	maxLen := 6
	if !r.Quick() {
		maxLen = 7
	}
	k := len(c12classes)
	core.ParFor(k*k, func(p int) {
		var nt, ev int64
		buf := make([]byte, maxLen)
		buf[0] = c12classes[p/k]
		buf[1] = c12classes[p%k]
		var rec func(pos int)
		rec = func(pos int) {
			if pos >= 4 { // lengths <=3 are covered by (1)
				c12one(r, buf[:pos], &nt)
				ev++
			}
			if pos == maxLen {
				return
			}
			for _, c := range c12classes {
				buf[pos] = c
				rec(pos + 1)
			}
		}
		rec(2)
		r.Eval(ev)
		r.Nontrivial(nt)
	})
	r.Note("class_alphabet", fmt.Sprintf("%q", c12classes))
	r.Note("class_max_len", maxLen)
	r.Sample(map[string]any{"classes": "\\ \\r \\n ( 0 7 8", "len": maxLen})
}
