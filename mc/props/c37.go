package props

import (
	"bytes"
	"encoding/json"
	"fmt"
	"sort"
	"strings"

	"github.com/pdfcpu/pdfcpu/pkg/api"
	"verif/mc/core"
)

// C37: form export and fill round-trip.
func init() {
	core.Register(&core.Check{
		ID:    "C37",
		Level: "exploration",
		Rule: "a form created through api.Create with one field of every type (text, multiline text, date d.m.yyyy, checkbox, radio group of 3, combo box of 3, multi-select list box of 3); (a) fill(export(x)) leaves every exported value unchanged, on the initial form and after every fill; (b) per field the full value domain with the other fields at their defaults (text {empty, x, 'ü(', 300 chars}; multiline {empty, two lines, ü}; date {31.12.1999, 1.2.2003}; checkbox both; each radio/combo option; every subset of list options incl. empty, and reorderings) x locked {off,on}, plus the full product of the three choice fields x checkbox; (c) shrinking selections: every ordered pair (S1 -> S2) of list box subsets filled one after the other; fill then export must report exactly the filled values and lock state for every field (compared as a set keyed by field name); (d) forms the harness did not create: the repository's core-font form samples (quick 4, thorough 24) and hand-built AcroForms (hierarchical names, inherited /FT, UTF-16 values, unusual check box states, radio groups with and without /Opt, [export display] option pairs, /I, /MaxLen; classic and object-stream containers): fill(export(x)) is the identity and, for every unlocked field, every alternative value of a per-kind domain derived from the export (each option, empty and single selections, a pair for multi-select, toggled check box, two dates in the field's format, three texts) filled alone shows up in the export with every other field unchanged; " +
			"non-trivial = a fill that changes at least one value or lock flag",
		Assume: []string{"'locked fields keep their values' is read in the weaker, documented sense: the locked attribute sets the read-only flag and does not alter the value filled in the same step; a locked field not mentioned in the fill data is untouched"},
		Run:    runC37,
	})
}

const c37formJSON = `{
 "paper": "A4P", "origin": "LowerLeft", "contentBox": false,
 "fonts": {"label": {"name": "Helvetica", "size": 11}, "input": {"name": "Helvetica", "size": 11}},
 "pages": {"1": {"content": {
   "textfield": [
     {"id": "t1", "value": "Jackie", "pos": [150, 700], "width": 120, "label": {"value": "T1:", "width": 60, "gap": 10, "pos": "left", "font": {"name": "$label"}}},
     {"id": "tm", "maxlen": 5, "value": "abc", "pos": [150, 660], "width": 120, "label": {"value": "TM:", "width": 60, "gap": 10, "pos": "left", "font": {"name": "$label"}}},
     {"id": "ta", "multiline": true, "value": "line", "pos": [150, 600], "width": 120, "height": 50, "label": {"value": "TA:", "width": 60, "gap": 10, "pos": "left", "font": {"name": "$label"}}}
   ],
   "datefield": [{"id": "d1", "pos": [150, 560], "width": 80, "format": "d.m.yyyy", "value": "1.2.2003", "label": {"value": "D1:", "width": 60, "gap": 10, "pos": "left", "font": {"name": "$label"}}}],
   "checkbox": [{"id": "c1", "value": false, "pos": [150, 520], "width": 12, "label": {"value": "C1:", "width": 60, "gap": 10, "pos": "left", "font": {"name": "$label"}}}],
   "radiobuttongroup": [{"id": "r1", "value": "a", "orientation": "hor", "pos": [150, 480], "width": 12, "buttons": {"values": ["a", "b", "c"], "label": {"value": "x", "width": 30, "gap": 5, "pos": "right", "font": {"name": "$label"}}}, "label": {"value": "R1:", "width": 60, "gap": 10, "pos": "left", "font": {"name": "$label"}}}],
   "combobox": [{"id": "cb1", "value": "one", "options": ["one", "two", "three"], "edit": false, "pos": [150, 440], "width": 100, "label": {"value": "CB:", "width": 60, "gap": 10, "pos": "left", "font": {"name": "$label"}}}],
   "listbox": [{"id": "l1", "value": "x", "options": ["x", "y", "z"], "multi": true, "pos": [150, 360], "width": 100, "height": 42, "label": {"value": "L1:", "width": 60, "gap": 10, "pos": "left", "font": {"name": "$label"}}}]
 }}}
}`

type fval struct {
	v      any // string, bool or []string
	locked bool
}

func (f fval) String() string {
	if ss, ok := f.v.([]string); ok {
		s := append([]string{}, ss...)
		sort.Strings(s)
		return fmt.Sprintf("%q/locked=%v", s, f.locked)
	}
	return fmt.Sprintf("%#v/locked=%v", f.v, f.locked)
}

// exportValues returns the raw export JSON and name -> value.
func exportValues(doc []byte) (map[string]any, map[string]fval, error) {
	var js bytes.Buffer
	if err := api.ExportFormJSON(bytes.NewReader(doc), &js, "src", newConf()); err != nil {
		return nil, nil, err
	}
	var raw map[string]any
	if err := json.Unmarshal(js.Bytes(), &raw); err != nil {
		return nil, nil, fmt.Errorf("export JSON invalid: %v", err)
	}
	vals := map[string]fval{}
	forms, _ := raw["forms"].([]any)
	for _, f := range forms {
		fm, _ := f.(map[string]any)
		for _, arr := range fm {
			fields, _ := arr.([]any)
			for _, fd := range fields {
				m, _ := fd.(map[string]any)
				name, _ := m["name"].(string)
				fv := fval{}
				if l, ok := m["locked"].(bool); ok {
					fv.locked = l
				}
				if vs, ok := m["values"]; ok {
					var ss []string
					if a, ok := vs.([]any); ok {
						for _, x := range a {
							ss = append(ss, fmt.Sprint(x))
						}
					}
					fv.v = ss
				} else if v, ok := m["value"]; ok {
					fv.v = v
				} else if _, isList := m["multi"]; isList {
					fv.v = []string(nil)
				} else {
					fv.v = ""
				}
				vals[name] = fv
			}
		}
	}
	return raw, vals, nil
}

// withValues returns fill JSON: the export with values/locks replaced for the named fields.
func withValues(raw map[string]any, set map[string]fval) []byte {
	b, _ := json.Marshal(raw)
	var cp map[string]any
	json.Unmarshal(b, &cp)
	forms, _ := cp["forms"].([]any)
	for _, f := range forms {
		fm, _ := f.(map[string]any)
		for _, arr := range fm {
			fields, _ := arr.([]any)
			for _, fd := range fields {
				m, _ := fd.(map[string]any)
				name, _ := m["name"].(string)
				nv, ok := set[name]
				if !ok {
					continue
				}
				m["locked"] = nv.locked
				if ss, isList := nv.v.([]string); isList {
					delete(m, "value")
					a := []any{}
					for _, s := range ss {
						a = append(a, s)
					}
					m["values"] = a
				} else {
					m["value"] = nv.v
				}
			}
		}
	}
	out, _ := json.Marshal(cp)
	return out
}

func fillDoc(doc, fillJSON []byte) ([]byte, error) {
	var out bytes.Buffer
	err := api.FillForm(bytes.NewReader(doc), bytes.NewReader(fillJSON), &out, newConf())
	if err != nil && strings.Contains(err.Error(), "no form fields affected") {
		return doc, nil
	}
	return out.Bytes(), err
}

func sameVals(a, b map[string]fval) string {
	for k, v := range a {
		if w, ok := b[k]; !ok || v.String() != w.String() {
			return fmt.Sprintf("field %s: %v vs %v", k, v, b[k])
		}
	}
	for k := range b {
		if _, ok := a[k]; !ok {
			return "field " + k + " appeared"
		}
	}
	return ""
}

func subsets(opts []string) [][]string {
	var out [][]string
	for m := 0; m < 1<<len(opts); m++ {
		var s []string
		for i, o := range opts {
			if m&(1<<i) != 0 {
				s = append(s, o)
			}
		}
		out = append(out, s)
	}
	return out
}

func runC37(r *core.R) {
	api.DisableConfigDir()
	var base bytes.Buffer
	if err := api.Create(nil, bytes.NewReader([]byte(c37formJSON)), &base, newConf()); err != nil {
		r.HarnessError("create form: %v", err)
		return
	}
	doc0 := base.Bytes()
	raw0, vals0, err := exportValues(doc0)
	if err != nil {
		r.HarnessError("export initial form: %v", err)
		return
	}
	if len(vals0) != 8 {
		r.HarnessError("expected 8 fields, export lists %d: %v", len(vals0), vals0)
		return
	}
	long := strings.Repeat("abcdefghij", 30)
	domain := map[string][]any{
		"t1":  {"", "x", "ü(", long, "Jackie"},
		"ta":  {"", "a\nb", "ü", "line"},
		"tm":  {"", "abcde", "Küche", "üüüüü", "é", "abc"}, // MaxLen 5: every value has at most 5 characters, some more than 5 bytes
		"d1":  {"31.12.1999", "1.2.2003"},
		"c1":  {true, false},
		"r1":  {"a", "b", "c"},
		"cb1": {"one", "two", "three"},
	}
	type fcase struct{ set map[string]fval }
	var cases []fcase
	for name, vs := range domain {
		for _, v := range vs {
			for _, lk := range []bool{false, true} {
				cases = append(cases, fcase{map[string]fval{name: {v, lk}}})
			}
		}
	}
	ls := subsets([]string{"x", "y", "z"})
	ls = append(ls, []string{"z", "x"}, []string{"z", "y", "x"})
	for _, s := range ls {
		for _, lk := range []bool{false, true} {
			cases = append(cases, fcase{map[string]fval{"l1": {s, lk}}})
		}
	}
	for _, rv := range domain["r1"] {
		for _, cv := range domain["cb1"] {
			for _, lv := range subsets([]string{"x", "y", "z"}) {
				for _, ck := range []bool{true, false} {
					cases = append(cases, fcase{map[string]fval{"r1": {rv, false}, "cb1": {cv, false}, "l1": {lv, false}, "c1": {ck, false}}})
				}
			}
		}
	}
	r.Note("fill_cases", len(cases))
	check := func(doc []byte, raw map[string]any, before map[string]fval, set map[string]fval, tag string) ([]byte, map[string]any, map[string]fval) {
		r.Eval(1)
		want := map[string]fval{}
		changed := false
		for k, v := range before {
			want[k] = v
		}
		for k, v := range set {
			if want[k].String() != v.String() {
				changed = true
			}
			want[k] = v
		}
		if changed {
			r.Nontrivial(1)
		}
		rep := map[string]any{"fill": fmt.Sprint(set), "case": tag}
		var out []byte
		var err error
		pv, _ := core.Try(func() { out, err = fillDoc(doc, withValues(raw, set)) })
		var fields []string
		for k := range set {
			fields = append(fields, k)
		}
		sort.Strings(fields)
		class := strings.Join(fields, "+")
		if pv != nil || err != nil {
			key := "fill:failed:" + class
			if r.Want(key) {
				r.Violation(key, fmt.Sprintf("%s: fill %v failed: %v %v", tag, set, err, pv), rep)
			}
			return nil, nil, nil
		}
		raw1, got, err := exportValues(out)
		if err != nil {
			r.Violation("export:failed-after-fill:"+class, fmt.Sprintf("%s: export after fill %v: %v", tag, set, err), rep)
			return nil, nil, nil
		}
		if d := sameVals(want, got); d != "" {
			key := "fill-export-mismatch:" + class
			if r.Want(key) {
				r.Violation(key, fmt.Sprintf("%s: after filling %v the export differs: %s", tag, set, d), rep)
			}
			return nil, nil, nil
		}
		// (a) fill(export(x)) is the identity
		out2, err := fillDoc(out, withValues(raw1, nil))
		if err != nil {
			r.Violation("refill:failed:"+class, fmt.Sprintf("%s: filling the form with its own export failed: %v", tag, err), rep)
			return out, raw1, got
		}
		_, got2, err := exportValues(out2)
		if err != nil || sameVals(got, got2) != "" {
			key := "refill-changes-values:" + class
			if r.Want(key) {
				r.Violation(key, fmt.Sprintf("%s: fill(export(x)) changed values: %s %v", tag, sameVals(got, got2), err), rep)
			}
		}
		return out, raw1, got
	}
	check(doc0, raw0, vals0, nil, "initial")
	core.ParFor(len(cases), func(i int) {
		check(doc0, raw0, vals0, cases[i].set, "single fill")
	})
	r.Sample(map[string]any{"fill": map[string]any{"l1": []string{"x", "z"}, "locked": true}})
	// (c) shrinking / changing selections: ordered pairs of list box subsets
	core.ParFor(len(ls), func(i int) {
		d1, raw1, v1 := check(doc0, raw0, vals0, map[string]fval{"l1": {ls[i], false}}, "first of pair")
		if d1 == nil {
			return
		}
		for _, s2 := range ls {
			check(d1, raw1, v1, map[string]fval{"l1": {s2, false}}, fmt.Sprintf("second of pair after l1=%q", ls[i]))
		}
		for _, tv := range []any{"", "x", "Jackie"} {
			check(d1, raw1, v1, map[string]fval{"t1": {tv, false}}, "text after list fill")
		}
	})
	r.Sample(map[string]any{"pair": [][]string{{"x", "y", "z"}, {"x", "z"}}})
	// (d) forms the harness did not create: repository samples and hand-built AcroForms
	c37Samples(r)
}
