package props

import (
	"fmt"
	"os"
	"path/filepath"
	"strings"
	"syscall"

	"github.com/pdfcpu/pdfcpu/pkg/api"
	"github.com/pdfcpu/pdfcpu/pkg/font"
	vos "github.com/pdfcpu/pdfcpu/vx/vos"
	"verif/mc/core"
)

// C07: installed fonts survive power loss once installation reports success.
func init() {
	core.Register(&core.Check{
		ID:    "C07",
		Level: "fault_enumeration",
		Rule: "the persistence trace (create, write, fsync(file), fsync(dir), rename, unlink, mkdir with resolved absolute paths) of every real install driver is recorded (each driver with the font directory a real directory, four of them also with the path ending in a symbolic link); crash point p ranges over every prefix of the trace; at each p every subset of the directory-entry operations not yet covered by an fsync of their directory may have reached the disk, and file data is durable only up to the file's last fsync; one deviation: for every driver every single hooked file system call is made to fail in turn (EIO) and, whenever the install still reports success (the failed step is one pdfcpu only warns about), that run's trace is put through the same crash enumeration, an acknowledged install having to survive every crash after its return; " +
			"non-trivial = a crash state in which at least one directory operation is pending",
		Assume: []string{"persistence model: data durable only after fsync(file); a directory entry operation durable only after fsync(that directory); pending entry operations of one directory may persist in any subset, applied in order; a rename inside one directory is atomic; nothing synced is lost",
			"trace events are the os-level calls pdfcpu makes (fsync = File.Sync on the file or directory descriptor)"},
		Run: runC07,
	})
}

type pev struct {
	kind     string // create | write | fsync | fsyncdir | rename | unlink | mkdir | rmtree
	path, p2 string
	n        int
}

func absClean(p string) string {
	if !filepath.IsAbs(p) {
		wd, _ := os.Getwd()
		p = filepath.Join(wd, p)
	}
	return filepath.Clean(p)
}

// recordPersistence runs f with a recorder on the vos shim.
func recordPersistence(f func() error) ([]pev, error) {
	tr, _, _, err := recordPersistenceFault(f, -1)
	return tr, err
}

// recordPersistenceFault: as recordPersistence, but the failAt-th hooked call (0-based, -1 = none) fails with
// EIO. Returns the trace, the number of hooked calls and a description of the failed call.
func recordPersistenceFault(f func() error, failAt int) ([]pev, int, string, error) {
	var tr []pev
	nev := 0
	failed := ""
	vos.SkipRealSync = true
	vos.ResetSeq()
	vos.Before = func(ev *vos.Event) error {
		i := nev
		nev++
		if i == failAt {
			failed = ev.Kind + " " + absClean(ev.Path)
			return syscall.EIO
		}
		return nil
	}
	vos.After = func(ev *vos.Event, err error) {
		if err != nil {
			return
		}
		switch ev.Kind {
		case "createtemp":
			tr = append(tr, pev{kind: "create", path: absClean(ev.Path2)})
		case "create":
			tr = append(tr, pev{kind: "create", path: absClean(ev.Path)})
		case "openfile":
			if ev.Flag&os.O_CREATE != 0 {
				tr = append(tr, pev{kind: "create", path: absClean(ev.Path)})
			}
		case "write", "writeat":
			tr = append(tr, pev{kind: "write", path: absClean(ev.Path), n: ev.N})
		case "sync":
			tr = append(tr, pev{kind: "fsync", path: absClean(ev.Path)})
		case "syncdir":
			tr = append(tr, pev{kind: "fsyncdir", path: absClean(ev.Path)})
		case "rename":
			tr = append(tr, pev{kind: "rename", path: absClean(ev.Path), p2: absClean(ev.Path2)})
		case "remove":
			tr = append(tr, pev{kind: "unlink", path: absClean(ev.Path)})
		case "removeall":
			tr = append(tr, pev{kind: "rmtree", path: absClean(ev.Path)})
		case "mkdir", "mkdirall":
			tr = append(tr, pev{kind: "mkdir", path: absClean(ev.Path)})
		case "mkdirtemp":
			tr = append(tr, pev{kind: "mkdir", path: absClean(ev.Path2)})
		}
	}
	defer func() { vos.Before, vos.After = nil, nil }()
	var err error
	pv, _ := core.Try(func() { err = f() })
	if pv != nil {
		return tr, nev, failed, fmt.Errorf("panic: %v", pv)
	}
	return tr, nev, failed, err
}

type pinode struct {
	id      int
	old     bool // pre-existing complete durable file
	written int
	synced  int // bytes covered by the last fsync
	final   int // total bytes ever written in the whole trace
	label   string
}

type dirop struct {
	link bool
	name string
	ino  *pinode
	pair int // id of the atomic rename this op belongs to (same-directory rename), 0 = none
}

// c07model replays the trace prefix [0,p) and enumerates crash states of fontDir.
type c07model struct {
	cur     map[string]map[string]*pinode // current (volatile) view: dir -> name -> inode
	dur     map[string]map[string]*pinode // durable view at last fsync(dir)
	pending map[string][]dirop
	inodes  []*pinode
}

func newC07model(pre map[string][]string) *c07model {
	m := &c07model{cur: map[string]map[string]*pinode{}, dur: map[string]map[string]*pinode{}, pending: map[string][]dirop{}}
	for dir, names := range pre {
		m.cur[dir] = map[string]*pinode{}
		m.dur[dir] = map[string]*pinode{}
		for _, n := range names {
			ino := &pinode{id: len(m.inodes) + 1, old: true, label: "previous " + n}
			m.inodes = append(m.inodes, ino)
			m.cur[dir][n] = ino
			m.dur[dir][n] = ino
		}
	}
	return m
}

func (m *c07model) dirOf(p string) (string, string) { return filepath.Dir(p), filepath.Base(p) }

func (m *c07model) ensure(dir string) {
	if m.cur[dir] == nil {
		m.cur[dir] = map[string]*pinode{}
	}
	if m.dur[dir] == nil {
		m.dur[dir] = map[string]*pinode{}
	}
}

func (m *c07model) apply(e pev, seq int) {
	switch e.kind {
	case "create":
		d, n := m.dirOf(e.path)
		m.ensure(d)
		if m.cur[d][n] == nil {
			ino := &pinode{id: len(m.inodes) + 1, label: "new " + n}
			m.inodes = append(m.inodes, ino)
			m.cur[d][n] = ino
			m.pending[d] = append(m.pending[d], dirop{link: true, name: n, ino: ino})
		}
	case "write":
		d, n := m.dirOf(e.path)
		if ino := m.cur[d][n]; ino != nil {
			ino.written += e.n
		}
	case "fsync":
		d, n := m.dirOf(e.path)
		if ino := m.cur[d][n]; ino != nil {
			ino.synced = ino.written
		}
	case "fsyncdir":
		d := e.path
		m.ensure(d)
		m.dur[d] = map[string]*pinode{}
		for k, v := range m.cur[d] {
			m.dur[d][k] = v
		}
		m.pending[d] = nil
	case "rename":
		sd, sn := m.dirOf(e.path)
		dd, dn := m.dirOf(e.p2)
		m.ensure(sd)
		m.ensure(dd)
		ino := m.cur[sd][sn]
		if ino == nil {
			return
		}
		delete(m.cur[sd], sn)
		m.cur[dd][dn] = ino
		if sd == dd {
			m.pending[sd] = append(m.pending[sd], dirop{link: false, name: sn, ino: ino, pair: seq}, dirop{link: true, name: dn, ino: ino, pair: seq})
		} else {
			m.pending[sd] = append(m.pending[sd], dirop{link: false, name: sn, ino: ino})
			m.pending[dd] = append(m.pending[dd], dirop{link: true, name: dn, ino: ino})
		}
	case "unlink":
		d, n := m.dirOf(e.path)
		m.ensure(d)
		if ino := m.cur[d][n]; ino != nil {
			delete(m.cur[d], n)
			m.pending[d] = append(m.pending[d], dirop{link: false, name: n, ino: ino})
		}
	case "rmtree":
		for d := range m.cur {
			if d == e.path || strings.HasPrefix(d, e.path+"/") {
				for n, ino := range m.cur[d] {
					delete(m.cur[d], n)
					m.pending[d] = append(m.pending[d], dirop{link: false, name: n, ino: ino})
				}
			}
		}
	}
}

// crashViews enumerates the durable views of dir: every subset of its pending ops (atomic pairs together).
func (m *c07model) crashViews(dir string, visit func(view map[string]*pinode, npending int)) int {
	ops := m.pending[dir]
	// group atomic pairs
	var groups [][]dirop
	for i := 0; i < len(ops); i++ {
		if ops[i].pair != 0 && i+1 < len(ops) && ops[i+1].pair == ops[i].pair {
			groups = append(groups, []dirop{ops[i], ops[i+1]})
			i++
		} else {
			groups = append(groups, []dirop{ops[i]})
		}
	}
	k := len(groups)
	if k > 16 {
		k = 16
	}
	count := 0
	for mask := 0; mask < 1<<k; mask++ {
		view := map[string]*pinode{}
		for n, v := range m.dur[dir] {
			view[n] = v
		}
		for gi := 0; gi < k; gi++ {
			if mask&(1<<gi) == 0 {
				continue
			}
			for _, op := range groups[gi] {
				if op.link {
					view[op.name] = op.ino
				} else if view[op.name] == op.ino {
					delete(view, op.name)
				}
			}
		}
		visit(view, len(groups))
		count++
	}
	return count
}

type c07drv struct {
	name     string
	pre      []string // pre-existing font names
	run      func(dir string) error
	installs []string
}

func runC07(r *core.R) {
	api.DisableConfigDir()
	loadFontFixtures()
	base := core.Scratch("c07")
	defer os.RemoveAll(base)
	inst := func(files ...string) func(dir string) error {
		return func(dir string) error {
			var fs []string
			for _, f := range files {
				fs = append(fs, filepath.Join(dir, f))
			}
			return api.InstallFonts(fs)
		}
	}
	A, B := "Roboto-Regular", "RobotX-Regular"
	drivers := []c07drv{
		{"InstallFonts[A]/fresh", nil, inst("a.ttf"), []string{A}},
		{"InstallFonts[A]/A-exists", []string{A}, inst("a.ttf"), []string{A}},
		{"InstallFonts[A,B]/fresh", nil, inst("a.ttf", "b.ttf"), []string{A, B}},
		{"InstallFonts[A,B]/A-exists", []string{A}, inst("a.ttf", "b.ttf"), []string{A, B}},
		{"InstallFonts[A,B]/A,B-exist", []string{A, B}, inst("a.ttf", "b.ttf"), []string{A, B}},
		{"InstallTrueTypeFont[A]/fresh", nil, func(dir string) error {
			_, err := font.InstallTrueTypeFont(filepath.Join(dir, "fonts"), filepath.Join(dir, "a.ttf"))
			return err
		}, []string{A}},
		{"InstallTrueTypeFont[A]/A-exists", []string{A}, func(dir string) error {
			_, err := font.InstallTrueTypeFont(filepath.Join(dir, "fonts"), filepath.Join(dir, "a.ttf"))
			return err
		}, []string{A}},
		{"InstallFontFromBytes[A]/A-exists", []string{A}, func(dir string) error {
			return font.InstallFontFromBytes(filepath.Join(dir, "fonts"), "a.ttf", fontA)
		}, []string{A}},
		{"InstallFontFromBytes[A]/fresh(cwd elsewhere)", nil, func(dir string) error {
			return font.InstallFontFromBytes(filepath.Join(dir, "fonts"), "a.ttf", fontA)
		}, []string{A}},
		// TrueType collections: every member is written and published separately
		{"InstallFonts[collection A+B]/fresh", nil, inst("ab.ttc"), []string{A, B}},
		{"InstallFonts[collection A+B]/A-exists", []string{A}, inst("ab.ttc"), []string{A, B}},
		{"InstallTrueTypeCollection[A+B]/fresh", nil, func(dir string) error {
			_, err := font.InstallTrueTypeCollection(filepath.Join(dir, "fonts"), filepath.Join(dir, "ab.ttc"))
			return err
		}, []string{A, B}},
	}
	// the same installs with the font directory reached through a symbolic link (e.g. ~/.config/pdfcpu/fonts
	// linked onto another volume): every flush has to reach the directory behind the link
	for _, i := range []int{0, 3, 6, 9} {
		ld := drivers[i]
		ld.name += " (font directory is a symbolic link)"
		drivers = append(drivers, ld)
	}
	cwd, _ := os.Getwd()
	defer os.Chdir(cwd)
	prep := func(d c07drv, dir string) bool {
		os.RemoveAll(dir)
		os.MkdirAll(dir, 0o755)
		// setup (unhooked)
		if strings.Contains(d.name, "symbolic link") { // the font directory path ends in a link to a real directory next to it
			os.MkdirAll(filepath.Join(dir, "fonts-real"), 0o755)
			os.Symlink("fonts-real", filepath.Join(dir, "fonts"))
		} else {
			os.MkdirAll(filepath.Join(dir, "fonts"), 0o755)
		}
		os.MkdirAll(filepath.Join(dir, "elsewhere"), 0o755)
		os.WriteFile(filepath.Join(dir, "a.ttf"), fontA, 0o644)
		os.WriteFile(filepath.Join(dir, "b.ttf"), fontB, 0o644)
		os.WriteFile(filepath.Join(dir, "ab.ttc"), buildTTC(fontA, fontB), 0o644)
		font.UserFontDir = filepath.Join(dir, "fonts")
		for _, p := range d.pre {
			src := map[string]string{A: "a.ttf", B: "b.ttf"}[p]
			if err := api.InstallFonts([]string{filepath.Join(dir, src)}); err != nil {
				r.HarnessError("setup %s: %v", d.name, err)
				return false
			}
		}
		return true
	}
	analyse := func(di int, d c07drv, dir string, tr []pev) {
		fontDir := filepath.Join(dir, "fonts")
		r.Count("traces", 1)
		r.Count("trace_events", int64(len(tr)))
		nsync, ndsync := 0, 0
		for _, e := range tr {
			if e.kind == "fsync" {
				nsync++
			}
			if e.kind == "fsyncdir" {
				ndsync++
			}
		}
		r.Count("fsync_file_events", int64(nsync))
		r.Count("fsync_dir_events", int64(ndsync))
		// final sizes per created inode: replay the full trace once
		full := newC07model(map[string][]string{fontDir: gobNames(d.pre)})
		for i, e := range tr {
			full.apply(e, i+1)
		}
		finals := map[string]int{} // label -> written
		for _, ino := range full.inodes {
			finals[fmt.Sprintf("%d", ino.id)] = ino.written
		}
		for p := 0; p <= len(tr); p++ {
			m := newC07model(map[string][]string{fontDir: gobNames(d.pre)})
			for i := 0; i < p; i++ {
				m.apply(tr[i], i+1)
			}
			for _, ino := range m.inodes {
				ino.final = finals[fmt.Sprintf("%d", ino.id)]
			}
			atEnd := p == len(tr)
			where := "mid-install"
			if atEnd {
				where = "after-success"
			}
			evdesc := "end"
			if p < len(tr) {
				evdesc = tr[p].kind + " " + rel(dir, tr[p].path)
			}
			states := m.crashViews(fontDir, func(view map[string]*pinode, npend int) {
				r.Eval(1)
				if npend > 0 {
					r.Nontrivial(1)
				}
				for name, ino := range view {
					if !strings.HasSuffix(name, ".gob") {
						continue
					}
					complete := ino.old || (ino.final > 0 && ino.synced == ino.final)
					if !complete {
						key := fmt.Sprintf("%s/%s/visible-entry-with-unsynced-data", strings.SplitN(d.name, "[", 2)[0], where)
						r.Violation(key, fmt.Sprintf("%s: power loss before event %d (%s): %s may be visible in the font directory while only %d of %d bytes are flushed", d.name, p+1, evdesc, name, ino.synced, ino.final),
							map[string]any{"driver": d.name, "crash_before_event": p + 1, "trace": traceStrings(dir, tr)})
					}
				}
				if atEnd {
					for _, fn := range d.installs {
						ino := view[fn+".gob"]
						if ino == nil || ino.old || !(ino.final > 0 && ino.synced == ino.final) {
							what := "absent"
							if ino != nil && ino.old {
								what = "the previous representation"
							} else if ino != nil {
								what = "unsynced"
							}
							key := fmt.Sprintf("%s/after-success/installed-font-not-durable", strings.SplitN(d.name, "[", 2)[0])
							r.Violation(key, fmt.Sprintf("%s returned success but after a power loss %s.gob can be %s (its directory entry was not flushed after publication)", d.name, fn, what),
								map[string]any{"driver": d.name, "trace": traceStrings(dir, tr)})
						}
					}
				}
			})
			r.Count("crash_points", 1)
			_ = states
		}
		if di%3 == 0 && !strings.Contains(d.name, "tolerated fault") {
			r.Sample(map[string]any{"driver": d.name, "trace": traceStrings(dir, tr)})
		}
	}
	for di, d := range drivers {
		dir := filepath.Join(base, fmt.Sprintf("d%d", di))
		if !prep(d, dir) {
			continue
		}
		os.Chdir(filepath.Join(dir, "elsewhere")) // the process working directory is never the font directory
		tr, nev, _, err := recordPersistenceFault(func() error { return d.run(dir) }, -1)
		os.Chdir(cwd)
		if err != nil {
			r.HarnessError("%s: install failed: %v", d.name, err)
			continue
		}
		analyse(di, d, dir, tr)
		// one deviation: every single hooked call fails in turn. An install that still reports success (the failed
		// step is one pdfcpu only warns about) has acknowledged the fonts: its trace is judged like any other.
		for k := 0; k < nev; k++ {
			if r.Expired() {
				r.Cut("internal deadline in tolerated-fault variants")
				return
			}
			if !prep(d, dir) {
				break
			}
			os.Chdir(filepath.Join(dir, "elsewhere"))
			ftr, _, failed, ferr := recordPersistenceFault(func() error { return d.run(dir) }, k)
			os.Chdir(cwd)
			r.Count("single_fault_runs", 1)
			if ferr != nil || failed == "" {
				continue // the install reported the failure: rollback is C06's subject
			}
			r.Count("single_fault_runs_reporting_success", 1)
			fd := d
			kp := strings.SplitN(failed, " ", 2)
			fd.name = fmt.Sprintf("%s + tolerated fault at call %d (%s %s)", d.name, k+1, kp[0], rel(dir, kp[1]))
			analyse(di, fd, dir, ftr)
		}
	}
}

func gobNames(ns []string) []string {
	var out []string
	for _, n := range ns {
		out = append(out, n+".gob")
	}
	return out
}

func rel(dir, p string) string {
	if r, err := filepath.Rel(dir, p); err == nil && !strings.HasPrefix(r, "..") {
		return r
	}
	return p
}

func traceStrings(dir string, tr []pev) []string {
	var out []string
	for _, e := range tr {
		s := e.kind + " " + rel(dir, e.path)
		if e.p2 != "" {
			s += " -> " + rel(dir, e.p2)
		}
		if e.kind == "write" {
			s += fmt.Sprintf(" (%d)", e.n)
		}
		out = append(out, s)
	}
	// compress runs of writes
	var c []string
	for _, s := range out {
		if len(c) > 0 && strings.HasPrefix(s, "write ") && strings.HasPrefix(c[len(c)-1], "write ") && strings.Fields(s)[1] == strings.Fields(c[len(c)-1])[1] {
			c[len(c)-1] = "write " + strings.Fields(s)[1] + " (…)"
			continue
		}
		c = append(c, s)
	}
	return c
}
