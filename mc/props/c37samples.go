package props

import (
	"bytes"
	"encoding/json"
	"fmt"
	"os"
	"path/filepath"
	"sort"
	"strings"
	"sync"

	"github.com/pdfcpu/pdfcpu/pkg/api"
	"verif/mc/core"
	"verif/mc/docgen"
)

// Part (d) of C37: forms the harness did not create itself - the repository's form samples that need no user
// font, and hand-built AcroForms (mc/docgen) with structures pdfcpu's own writer never produces. For each:
// fill(export(x)) is the identity, and for every field every alternative value of a per-kind domain (derived
// from the export: options, date format, multiline) is filled alone; the export afterwards must show the new
// value in that field and every other field unchanged.

type c37Field struct {
	key    string // name, or #id for unnamed fields
	group  string // textfield, datefield, checkbox, radiobuttongroup, combobox, listbox
	gi, fi int    // position in the export (form index is always 0..n, flattened below)
	form   int
	m      map[string]any
}

func c37Fields(raw map[string]any) []c37Field {
	var out []c37Field
	forms, _ := raw["forms"].([]any)
	for fi, f := range forms {
		fm, _ := f.(map[string]any)
		var groups []string
		for g := range fm {
			groups = append(groups, g)
		}
		sort.Strings(groups)
		for _, g := range groups {
			fields, _ := fm[g].([]any)
			for i, fd := range fields {
				m, _ := fd.(map[string]any)
				name, _ := m["name"].(string)
				if name == "" {
					name = "#" + fmt.Sprint(m["id"])
				}
				out = append(out, c37Field{key: name, group: g, gi: i, form: fi, m: m})
			}
		}
	}
	return out
}

func c37ValueOf(f c37Field) string {
	if vs, ok := f.m["values"]; ok {
		var ss []string
		if a, ok := vs.([]any); ok {
			for _, x := range a {
				ss = append(ss, fmt.Sprint(x))
			}
		}
		sort.Strings(ss)
		return fmt.Sprintf("%q", ss)
	}
	if v, ok := f.m["value"]; ok {
		if f.group == "listbox" {
			if s, _ := v.(string); s == "" {
				return "[]"
			}
			return fmt.Sprintf("%q", []string{fmt.Sprint(v)})
		}
		return fmt.Sprintf("%#v", v)
	}
	if f.group == "listbox" {
		return "[]"
	}
	return `""`
}

func c37Snapshot(raw map[string]any) map[string]string {
	out := map[string]string{}
	for _, f := range c37Fields(raw) {
		lk, _ := f.m["locked"].(bool)
		out[f.key] = fmt.Sprintf("%s locked=%v", c37ValueOf(f), lk)
	}
	return out
}

func c37Export(doc []byte) (map[string]any, error) {
	var js bytes.Buffer
	if err := api.ExportFormJSON(bytes.NewReader(doc), &js, "src", newConf()); err != nil {
		return nil, err
	}
	var raw map[string]any
	if err := json.Unmarshal(js.Bytes(), &raw); err != nil {
		return nil, fmt.Errorf("export JSON invalid: %v", err)
	}
	return raw, nil
}

func c37Clone(raw map[string]any) map[string]any {
	b, _ := json.Marshal(raw)
	var cp map[string]any
	json.Unmarshal(b, &cp)
	return cp
}

// c37Alternatives: the values tried for one field (as JSON-ready values), never the current one.
func c37Alternatives(f c37Field) []any {
	strs := func(v any) []string {
		var ss []string
		if a, ok := v.([]any); ok {
			for _, x := range a {
				ss = append(ss, fmt.Sprint(x))
			}
		}
		return ss
	}
	var out []any
	switch f.group {
	case "textfield":
		out = []any{"x", "", "Zz 9 (a)"}
		if ml, _ := f.m["multiline"].(bool); ml {
			out = append(out, "a\nb")
		}
	case "datefield":
		format, _ := f.m["format"].(string)
		if format == "" {
			return nil
		}
		mk := func(d, m, y string) string {
			s := format
			s = strings.Replace(s, "yyyy", y, 1)
			if strings.Contains(s, "dd") {
				s = strings.Replace(s, "dd", fmt.Sprintf("%02s", d), 1)
			} else {
				s = strings.Replace(s, "d", d, 1)
			}
			if strings.Contains(s, "mm") {
				s = strings.Replace(s, "mm", fmt.Sprintf("%02s", m), 1)
			} else {
				s = strings.Replace(s, "m", m, 1)
			}
			return s
		}
		out = []any{mk("9", "8", "2011"), mk("28", "12", "1999")}
	case "checkbox":
		cur, _ := f.m["value"].(bool)
		out = []any{!cur}
	case "radiobuttongroup", "combobox":
		opts := strs(f.m["options"])
		if len(opts) > 4 {
			opts = append(opts[:3:3], opts[len(opts)-1])
		}
		for _, o := range opts {
			out = append(out, o)
		}
	case "listbox":
		opts := strs(f.m["options"])
		if len(opts) > 3 {
			opts = append(opts[:2:2], opts[len(opts)-1])
		}
		out = append(out, []string{})
		for _, o := range opts {
			out = append(out, []string{o})
		}
		if multi, _ := f.m["multi"].(bool); multi && len(opts) >= 2 {
			out = append(out, []string{opts[0], opts[len(opts)-1]})
		}
	}
	return out
}

func c37Set(f c37Field, v any) string {
	if ss, ok := v.([]string); ok {
		delete(f.m, "value")
		a := []any{}
		for _, s := range ss {
			a = append(a, s)
		}
		f.m["values"] = a
		s := append([]string{}, ss...)
		sort.Strings(s)
		if len(s) == 0 {
			return "[]"
		}
		return fmt.Sprintf("%q", s)
	}
	f.m["value"] = v
	delete(f.m, "values")
	return fmt.Sprintf("%#v", v)
}

type c37Form struct {
	name    string
	doc     []byte
	foreign bool
}

func c37SampleForms(quick bool) []c37Form {
	var out []c37Form
	root := filepath.Join(core.RepoDir(), "pkg", "samples", "form")
	rels := []string{"demoSinglePage/english.pdf", "demoSinglePage/person.pdf", "lock/english-locked.pdf", "reset/person-reset.pdf"}
	if !quick {
		rels = append(rels, "demo/english.pdf", "fill/english.pdf", "fill/person.pdf", "lock/person-locked.pdf", "lock/person-unlocked.pdf", "lock/english-unlocked.pdf",
			"flow/createFormAndUpdatePageCoreFont.pdf", "flow/readFormAndUpdateFormCoreFont.pdf", "remove/removedField.pdf", "reset/english-reset.pdf",
			"primitives/checkbox.pdf", "primitives/combobox.pdf", "primitives/datefield.pdf", "primitives/listbox.pdf", "primitives/radiobuttonsHor.pdf",
			"primitives/radiobuttonsVertL.pdf", "primitives/textarea.pdf", "primitives/textfield.pdf", "primitives/textfieldGroup.pdf", "primitives/checkboxGroup.pdf")
	}
	for _, rel := range rels {
		b, err := os.ReadFile(filepath.Join(root, rel))
		if err != nil {
			continue
		}
		out = append(out, c37Form{name: "samples/form/" + rel, doc: b})
	}
	for _, v := range docgen.ForeignFormVariants {
		out = append(out, c37Form{name: "hand-built:" + v, doc: docgen.ForeignForm(v), foreign: true})
	}
	return out
}

func c37Samples(r *core.R) {
	forms := c37SampleForms(r.Quick())
	r.Count("sample_forms", int64(len(forms)))
	var mu sync.Mutex
	viol := func(key, msg string, rep map[string]any) {
		mu.Lock()
		defer mu.Unlock()
		if r.Want(key) {
			r.Violation(key, msg, rep)
		}
	}
	type job struct {
		form  c37Form
		raw   map[string]any
		field int
		alt   int
	}
	var jobs []job
	for _, fm := range forms {
		raw, err := c37Export(fm.doc)
		if err != nil {
			if fm.foreign {
				// a structure pdfcpu declines to export is not judged by this property; listed for the reader
				r.SetAdd("foreign_forms_not_exportable", fm.name+": "+trimTo(err.Error(), 120))
				continue
			}
			r.HarnessError("export of %s failed: %v", fm.name, err)
			continue
		}
		fields := c37Fields(raw)
		if len(fields) == 0 {
			r.SetAdd("forms_without_fields", fm.name)
			continue
		}
		jobs = append(jobs, job{fm, raw, -1, 0})
		for i, f := range fields {
			if lk, _ := f.m["locked"].(bool); lk {
				continue // what a fill does to an already locked field is not stated; it must only stay untouched by other edits
			}
			for a := range c37Alternatives(f) {
				jobs = append(jobs, job{fm, raw, i, a})
			}
		}
	}
	core.ParFor(len(jobs), func(ji int) {
		j := jobs[ji]
		if r.Expired() {
			return
		}
		before := c37Snapshot(j.raw)
		cp := c37Clone(j.raw)
		want := map[string]string{}
		for k, v := range before {
			want[k] = v
		}
		desc := j.form.name + ": fill(export(x))"
		class := "identity"
		if j.field >= 0 {
			f := c37Fields(cp)[j.field]
			alt := c37Alternatives(f)[j.alt]
			nv := c37Set(f, alt)
			lk, _ := f.m["locked"].(bool)
			want[f.key] = fmt.Sprintf("%s locked=%v", nv, lk)
			desc = fmt.Sprintf("%s: fill %s %q := %s", j.form.name, f.group, f.key, nv)
			class = f.group
		}
		origin := "sample"
		if j.form.foreign {
			origin = "hand-built"
		}
		rep := map[string]any{"form": j.form.name, "field": j.field, "alternative": j.alt}
		fillJSON, _ := json.Marshal(cp)
		var out []byte
		var err error
		pv, _ := core.Try(func() { out, err = fillDoc(j.form.doc, fillJSON) })
		mu.Lock()
		r.Eval(1)
		if want[""] == "" && fmt.Sprint(want) != fmt.Sprint(before) {
			r.Nontrivial(1)
		}
		r.Count("sample_form_fills", 1)
		mu.Unlock()
		if pv != nil || err != nil {
			viol(origin+":fill-failed:"+class, fmt.Sprintf("%s failed: %v %v", desc, err, pv), rep)
			return
		}
		raw1, err := c37Export(out)
		if err != nil {
			viol(origin+":export-failed-after-fill:"+class, fmt.Sprintf("%s: export afterwards failed: %v", desc, err), rep)
			return
		}
		got := c37Snapshot(raw1)
		var diffs []string
		for k, v := range want {
			if got[k] != v {
				diffs = append(diffs, fmt.Sprintf("%s: exported %s, expected %s", k, got[k], v))
			}
		}
		for k := range got {
			if _, ok := want[k]; !ok {
				diffs = append(diffs, "field "+k+" appeared")
			}
		}
		sort.Strings(diffs)
		if len(diffs) > 0 {
			viol(origin+":fill-export-mismatch:"+class, fmt.Sprintf("%s: %s", desc, strings.Join(diffs, "; ")), rep)
		}
	})
	if r.Expired() {
		r.Cut("internal deadline in sample forms")
	}
}
