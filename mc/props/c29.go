package props

import (
	"bytes"
	"errors"
	"fmt"
	"os"
	"path/filepath"
	"sort"
	"strings"

	"github.com/pdfcpu/pdfcpu/pkg/api"
	"github.com/pdfcpu/pdfcpu/pkg/pdfcpu/model"
	"verif/mc/core"
	"verif/mc/docgen"
	"verif/mc/fsx"
	"verif/mc/pdfx"
	"verif/mc/strictpdf"
)

// C29: removing signatures removes them all and nothing else.
func init() {
	core.Register(&core.Check{
		ID:    "C29",
		Level: "exploration",
		Rule: "hand-built signed documents: field/widget arrangement {merged, separate widget kid, nested under a non-terminal parent, nested + separate kid} x signature fields {0, 1, 2 on different pages} x surviving text field {no, top-level, kid of an untyped group} x surviving link annotations {no, yes} x /Perms {none, DocMDP, UR3, both} x /DSS x /Extensions x container {classic, xref stream, object streams} (full product, 2,300+ documents; 0 fields only with a usage-rights signature) plus the repository's signed samples; api.RemoveSignatures; the output is re-read with an independent strict reader and every object of the file is inspected; oracle: no signature dictionary (/Type /Sig|/DocTimeStamp or /ByteRange+/Contents), no /FT /Sig field (own or inherited), no widget of such a field in any /Annots, no /Perms /DSS, AcroForm without /SigFlags, same pages (markers, boxes, rotation), surviving field and link annotations still present; unsigned documents: error matches ErrNoSignatures, nothing written (writer and file variants); " +
			"non-trivial = a signed document whose signatures were removed",
		Run: runC29,
	})
}

func c29Specs(full bool) []docgen.SigSpec {
	shapes := []string{"merged", "kid", "nested", "nested-kid"}
	perms := []string{"", "DocMDP", "UR3", "both"}
	conts := []string{"classic", "xrefstream", "objstream", "classic-indirect-annots"}
	bools := []bool{false, true}
	var all []docgen.SigSpec
	for _, sh := range shapes {
		for _, n := range []int{0, 1, 2} {
			for _, of := range []string{"no", "flat", "grouped"} {
				for _, oa := range bools {
					for _, p := range perms {
						if n == 0 && (p != "UR3" || sh != "merged") {
							continue // without a signature field only a usage-rights signature can exist
						}
						for _, dss := range bools {
							for _, ext := range bools {
								for _, c := range conts {
									all = append(all, docgen.SigSpec{Shape: sh, N: n, OtherField: of != "no", OtherGroup: of == "grouped", OtherAnnot: oa, Perms: p, DSS: dss, Extensions: ext, Container: c})
								}
							}
						}
					}
				}
			}
		}
	}
	if full {
		return all
	}
	// quick: greedy all-pairs cover over the 8 dimensions
	val := func(s docgen.SigSpec) []string {
		return []string{"s" + s.Shape, fmt.Sprint("n", s.N), fmt.Sprint("f", s.OtherField, s.OtherGroup), fmt.Sprint("a", s.OtherAnnot), "p" + s.Perms, fmt.Sprint("d", s.DSS), fmt.Sprint("e", s.Extensions), "c" + s.Container}
	}
	covered := map[string]bool{}
	var out []docgen.SigSpec
	for {
		best, bestGain := -1, 0
		for i, s := range all {
			v := val(s)
			g := 0
			for a := 0; a < len(v); a++ {
				for b := a + 1; b < len(v); b++ {
					if !covered[fmt.Sprint(a, v[a], b, v[b])] {
						g++
					}
				}
			}
			if g > bestGain {
				best, bestGain = i, g
			}
		}
		if best < 0 {
			break
		}
		v := val(all[best])
		for a := 0; a < len(v); a++ {
			for b := a + 1; b < len(v); b++ {
				covered[fmt.Sprint(a, v[a], b, v[b])] = true
			}
		}
		out = append(out, all[best])
	}
	return out
}

// c29Inspect returns the list of signature remnants in a file.
func c29Inspect(b []byte) (remnants []string, f *strictpdf.File) {
	f = strictpdf.Parse(b)
	add := func(format string, a ...any) { remnants = append(remnants, fmt.Sprintf(format, a...)) }
	name := func(v any) string {
		if n, ok := f.Resolve(v).(strictpdf.Name); ok {
			return string(n)
		}
		return ""
	}
	isSigField := func(d strictpdf.Dict) bool {
		for i := 0; d != nil && i < 10; i++ {
			if ft := name(d["FT"]); ft != "" {
				return ft == "Sig"
			}
			p, _ := f.Resolve(d["Parent"]).(strictpdf.Dict)
			d = p
		}
		return false
	}
	var walk func(v any, where string, depth int)
	walk = func(v any, where string, depth int) {
		if depth > 12 {
			return
		}
		switch x := v.(type) {
		case strictpdf.Dict:
			t := name(x["Type"])
			_, br := x["ByteRange"]
			_, ct := x["Contents"]
			if t == "Sig" || t == "DocTimeStamp" || (br && ct) {
				add("%s: signature dictionary (Type=%q ByteRange=%v Contents=%v)", where, t, br, ct)
			}
			if name(x["FT"]) == "Sig" {
				add("%s: field dictionary with /FT /Sig", where)
			}
			for k, e := range x {
				if _, isRef := e.(strictpdf.Ref); !isRef {
					walk(e, where+"/"+k, depth+1)
				}
			}
		case []any:
			for i, e := range x {
				if _, isRef := e.(strictpdf.Ref); !isRef {
					walk(e, fmt.Sprintf("%s[%d]", where, i), depth+1)
				}
			}
		}
	}
	var nrs []int
	for nr := range f.Objects {
		nrs = append(nrs, nr)
	}
	sort.Ints(nrs)
	for _, nr := range nrs {
		o := f.Objects[nr]
		if o.Dict != nil {
			walk(o.Dict, fmt.Sprintf("obj %d", nr), 0)
		} else {
			walk(o.Value, fmt.Sprintf("obj %d", nr), 0)
		}
		if o.Dict != nil && name(o.Dict["Type"]) == "Page" {
			annots, _ := f.Resolve(o.Dict["Annots"]).([]any)
			for i, a := range annots {
				ad, _ := f.Resolve(a).(strictpdf.Dict)
				if ad != nil && isSigField(ad) {
					add("page obj %d /Annots[%d]: widget of a signature field", nr, i)
				}
			}
		}
	}
	cat, _ := f.Resolve(f.Trailer["Root"]).(strictpdf.Dict)
	if cat == nil {
		add("no catalog")
		return
	}
	for _, k := range []string{"Perms", "DSS"} {
		if _, ok := cat[k]; ok {
			add("catalog still has /%s", k)
		}
	}
	if af, _ := f.Resolve(cat["AcroForm"]).(strictpdf.Dict); af != nil {
		if _, ok := af["SigFlags"]; ok {
			add("AcroForm still has /SigFlags")
		}
	}
	return
}

func c29PageSummary(b []byte) (string, error) {
	ctx, err := pdfx.Read(b, nil)
	if err != nil {
		return "", err
	}
	ps, err := pdfx.Pages(ctx)
	if err != nil {
		return "", err
	}
	var sb strings.Builder
	for i, p := range ps {
		fmt.Fprintf(&sb, "p%d markers=%v fp=%s\n", i+1, pdfx.Markers(ctx, p), pdfx.PageFingerprint(ctx, p))
	}
	return sb.String(), nil
}

func runC29(r *core.R) {
	api.DisableConfigDir()
	type in struct {
		name   string
		b      []byte
		spec   *docgen.SigSpec
		signed bool
	}
	var ins []in
	for _, s := range c29Specs(true) {
		s := s
		ins = append(ins, in{s.Name(), docgen.SigDoc(s), &s, true})
	}
	r.Note("generated_signed_documents", len(ins))
	files, _ := filepath.Glob(filepath.Join(core.RepoDir(), "pkg", "samples", "signatures", "*", "*.pdf"))
	sort.Strings(files)
	for _, fn := range files {
		b, err := os.ReadFile(fn)
		if err == nil {
			ins = append(ins, in{"sample:" + filepath.Base(filepath.Dir(fn)) + "/" + filepath.Base(fn), b, nil, true})
		}
	}
	r.Note("repository_samples", len(files))
	// unsigned documents
	fx := GetFixtures()
	for _, n := range []string{"in.pdf", "att.pdf", "bm.pdf", "wm.pdf"} {
		ins = append(ins, in{"unsigned:" + n, fx.Files[n], nil, false})
	}
	ins = append(ins, in{"unsigned:form", docgen.FormDoc("flat-own-da"), nil, false})
	base := core.Scratch("c29")
	defer os.RemoveAll(base)
	core.ParFor(len(ins), func(i int) {
		x := ins[i]
		rep := map[string]any{"document": x.name}
		conf := newConf()
		conf.ValidationMode = model.ValidationRelaxed
		var w bytes.Buffer
		var err error
		pv, _ := core.Try(func() { err = api.RemoveSignatures(bytes.NewReader(x.b), &w, conf) })
		r.Eval(1)
		if pv != nil {
			r.Violation("panic:"+c29Key(x.name), fmt.Sprintf("%s: RemoveSignatures panicked: %v", x.name, pv), rep)
			return
		}
		if !x.signed {
			r.Nontrivial(1)
			if err == nil || !errors.Is(err, api.ErrNoSignatures) {
				r.Violation("unsigned-no-error:"+x.name, fmt.Sprintf("%s has no signatures but RemoveSignatures returned %v", x.name, err), rep)
			}
			if w.Len() > 0 {
				r.Violation("unsigned-wrote:"+x.name, fmt.Sprintf("%s has no signatures yet %d bytes were written", x.name, w.Len()), rep)
			}
			// file variant
			dir := filepath.Join(base, fmt.Sprintf("u%d", i))
			os.MkdirAll(dir, 0o755)
			defer os.RemoveAll(dir)
			os.WriteFile(filepath.Join(dir, "in.pdf"), x.b, 0o644)
			for _, out := range []string{"out.pdf", ""} {
				t0 := fsx.Snap(dir)
				var ferr error
				outPath := ""
				if out != "" {
					outPath = filepath.Join(dir, out)
				}
				core.Try(func() { ferr = api.RemoveSignaturesFile(filepath.Join(dir, "in.pdf"), outPath, newConf()) })
				r.Eval(1)
				if ferr == nil || !errors.Is(ferr, api.ErrNoSignatures) {
					r.Violation("unsigned-no-error-file:"+x.name, fmt.Sprintf("%s (file, out=%q): returned %v", x.name, out, ferr), rep)
				}
				if d := fsx.Diff(t0, fsx.Snap(dir)); len(d) > 0 {
					r.Violation("unsigned-wrote-file:"+x.name, fmt.Sprintf("%s (file, out=%q): files changed: %v", x.name, out, d), rep)
				}
			}
			return
		}
		if err != nil {
			r.Violation("signed-removal-failed:"+c29Key(x.name), fmt.Sprintf("%s: RemoveSignatures failed: %v", x.name, err), rep)
			return
		}
		r.Nontrivial(1)
		before, _ := c29Inspect(x.b)
		if len(before) == 0 {
			r.HarnessError("%s: the input shows no signature structures to the inspector", x.name)
			return
		}
		rem, _ := c29Inspect(w.Bytes())
		if len(rem) > 0 {
			sort.Strings(rem)
			kind := map[string]bool{}
			for _, m := range rem {
				kind[c29Kind(m)] = true
			}
			var ks []string
			for k := range kind {
				ks = append(ks, k)
			}
			sort.Strings(ks)
			r.Violation("remnants:"+strings.Join(ks, "+")+":"+c29Class(x.name, x.spec), fmt.Sprintf("%s: after removal the output still contains: %s", x.name, trimTo(strings.Join(rem, "; "), 500)), rep)
		}
		// pages and other content
		pb, e1 := c29PageSummary(x.b)
		pa, e2 := c29PageSummary(w.Bytes())
		if e1 != nil || e2 != nil {
			if e2 != nil {
				r.Violation("output-unreadable:"+c29Key(x.name), fmt.Sprintf("%s: output cannot be read: %v", x.name, e2), rep)
			}
			return
		}
		if pb != pa {
			r.Violation("pages-changed:"+c29Class(x.name, x.spec), fmt.Sprintf("%s: pages differ after removal (%s)", x.name, firstDiff(pb, pa)), rep)
		}
		if x.spec != nil {
			out := w.Bytes()
			fo := strictpdf.Parse(out)
			links, keep, keepOnPage := 0, 0, 0
			for _, o := range fo.Objects {
				if o.Dict == nil {
					continue
				}
				if n, _ := o.Dict["Subtype"].(strictpdf.Name); n == "Link" {
					links++
				}
				if t, _ := fo.Resolve(o.Dict["T"]).(strictpdf.String); string(t) == "keepme" {
					keep++
				}
				if n, _ := o.Dict["Type"].(strictpdf.Name); n == "Page" {
					annots, _ := fo.Resolve(o.Dict["Annots"]).([]any)
					for _, a := range annots {
						if ad, _ := fo.Resolve(a).(strictpdf.Dict); ad != nil {
							if t, _ := fo.Resolve(ad["T"]).(strictpdf.String); string(t) == "keepme" {
								keepOnPage++
							}
						}
					}
				}
			}
			if x.spec.OtherAnnot && links != 3 {
				r.Violation("link-annotations-lost:"+c29Class(x.name, x.spec), fmt.Sprintf("%s: %d of 3 link annotations left", x.name, links), rep)
			}
			if x.spec.OtherField {
				cat, _ := fo.Resolve(fo.Trailer["Root"]).(strictpdf.Dict)
				af, _ := fo.Resolve(cat["AcroForm"]).(strictpdf.Dict)
				fields, _ := fo.Resolve(af["Fields"]).([]any)
				inFields := 0
				var count func(fs []any, depth int)
				count = func(fs []any, depth int) {
					for _, fr := range fs {
						if fd, _ := fo.Resolve(fr).(strictpdf.Dict); fd != nil && depth < 5 {
							if t, _ := fo.Resolve(fd["T"]).(strictpdf.String); string(t) == "keepme" {
								inFields++
							}
							kids, _ := fo.Resolve(fd["Kids"]).([]any)
							count(kids, depth+1)
						}
					}
				}
				count(fields, 0)
				if keep != 1 || keepOnPage != 1 || inFields != 1 {
					r.Violation("other-field-lost:"+c29Class(x.name, x.spec), fmt.Sprintf("%s: the text field must survive: objects=%d, on page=%d, in AcroForm.Fields=%d", x.name, keep, keepOnPage, inFields), rep)
				}
			}
		}
		if i%17 == 0 {
			r.Sample(map[string]any{"document": x.name, "remnants_before": len(before), "remnants_after": len(rem)})
		}
	})
}

func c29Kind(m string) string {
	switch {
	case strings.Contains(m, "signature dictionary"):
		return "sigdict"
	case strings.Contains(m, "/FT /Sig"):
		return "sigfield"
	case strings.Contains(m, "widget of a signature"):
		return "widget"
	case strings.Contains(m, "/Perms"):
		return "Perms"
	case strings.Contains(m, "/DSS"):
		return "DSS"
	case strings.Contains(m, "SigFlags"):
		return "SigFlags"
	}
	return "other"
}

func c29Key(name string) string {
	if i := strings.IndexByte(name, '/'); i > 0 && strings.HasPrefix(name, "shape=") {
		return name[:i]
	}
	return name
}

// c29Class: the dimensions that can matter for a remnant (shape, perms, other field), not the container.
func c29Class(name string, s *docgen.SigSpec) string {
	if s == nil {
		return name
	}
	return fmt.Sprintf("shape=%s,perms=%s,otherfield=%v,grouped=%v", s.Shape, s.Perms, s.OtherField, s.OtherGroup)
}
