package props

import (
	"fmt"
	"os"
	"path/filepath"
	"strings"
	"time"

	vos "github.com/pdfcpu/pdfcpu/vx/vos"
	vrand "github.com/pdfcpu/pdfcpu/vx/vrand"
	vtime "github.com/pdfcpu/pdfcpu/vx/vtime"
	"verif/mc/core"
	"verif/mc/fsx"
)

// C02: replacing an existing file is atomic at every crash point.
func init() {
	core.Register(&core.Check{
		ID:    "C02",
		Level: "fault_enumeration",
		Rule: "for every driver x replacing configuration (in-place, out==in, existing output; colliding file in an output directory): one fault-free execution with a directory snapshot before every intercepted filesystem event and a torn-write snapshot (first half of the buffer applied) inside every write; each snapshot is the directory a kill -9 at that point leaves behind; one deviation: every file-creating call (thorough: every call) of that execution fails once with EIO and once with EACCES, and every run that still reports success (pdfcpu took another route) goes through the same snapshot enumeration; " +
			"non-trivial = a snapshot taken after the first staging file exists and before the operation returned",
		Assume:    []string{"process-kill model: the page cache survives, so the directory contents at an event boundary are what a killed process leaves (power loss is C07's model)", "all filesystem calls go through package os (intercepted)"},
		Run:       func(r *core.R) { core.Sharded(r, core.Workers()) },
		RunShard:  c02shard,
		QuickSecs: 200,
	})
}

type c02snap struct {
	at   int
	torn bool
	ev   string
	tree fsx.Tree
}

func c02shard(r *core.R, shard, n int) {
	base := core.Scratch("c02")
	defer os.RemoveAll(base)
	ds := fsDrivers()
	type pair struct {
		d   *FSDriver
		cfg string
	}
	var pairs []pair
	for i := range ds {
		for _, cfg := range c01configs(ds[i].Kind) {
			if cfg == "new" || cfg == "emptydir" {
				continue
			}
			pairs = append(pairs, pair{&ds[i], cfg})
			if cfg == "inplace" || cfg == "existing" {
				pairs = append(pairs, pair{&ds[i], cfg + "-readonly"}) // destination mode 0444
			}
		}
	}
	for pi, p := range pairs {
		if pi%n != shard {
			continue
		}
		d, cfg := p.d, p.cfg
		collide := ""
		if cfg == "collide" {
			b0 := c01exec(base, d, "emptydir", nil, "")
			for name := range b0.t1 {
				if _, was := b0.t0[name]; !was && strings.HasPrefix(name, "outdir/") {
					nm := strings.TrimPrefix(name, "outdir/")
					if nm > collide {
						collide = nm
					}
				}
			}
		}
		baseViol := map[string]bool{}
		analyse := func(plan []fsx.Fault, planDesc string) ([]c02snap, *c01res) {
			// run with snapshots
			dir := filepath.Join(base, "w")
			var snaps []c02snap
			res := c02exec(base, d, cfg, collide, func(c *fsx.Ctl) {
				c.SplitWrites = true
				c.Plan = plan
				c.OnEvent = func(k int, ev *vos.Event) {
					snaps = append(snaps, c02snap{at: k, ev: ev.Kind + " " + c.Canon(ev.Path), tree: fsx.Snap(dir)})
				}
				c.OnMid = func(k int, ev *vos.Event) {
					snaps = append(snaps, c02snap{at: k, torn: true, ev: ev.Kind + " " + c.Canon(ev.Path), tree: fsx.Snap(dir)})
				}
			})
			if res.err != nil || res.pv != nil {
				if cfg == "collide" || plan != nil {
					return nil, nil // refusal (nothing replaced) / the injected fault made the operation fail: C01's subject
				}
				r.HarnessError("%s/%s: fault-free run failed: %v %v", d.Name, cfg, res.err, res.pv)
				return nil, nil
			}
			if plan != nil {
				if len(res.fired) == 0 {
					return nil, nil
				}
				r.Count("tolerated_fault_runs_reporting_success", 1)
			}
			r.Count("executions", 1)
			r.SetAdd("drivers", d.Name)
			dest := "out.pdf"
			switch cfg {
			case "inplace", "same", "inplace-readonly":
				dest = "in.pdf"
			case "collide":
				dest = "outdir/" + collide
			}
			old, fin := res.t0[dest], res.t1[dest]
			if old.Sum == fin.Sum {
				r.Count("dest_not_replaced", 1)
			}
			firstStage := -1
			for _, s := range snaps {
				r.Eval(1)
				r.Count("snapshots", 1)
				if s.torn {
					r.Count("torn_write_snapshots", 1)
				}
				staged := false
				for name := range s.tree {
					if _, was := res.t0[name]; !was {
						staged = true
					}
				}
				if staged && firstStage < 0 {
					firstStage = s.at
				}
				if staged {
					r.Nontrivial(1)
				}
				cs := map[string]any{"driver": d.Name, "config": cfg, "kill_before_event": s.at, "torn": s.torn, "event": s.ev, "tolerated_fault": plan}
				killAt := "/kill@" + strings.ReplaceAll(s.ev, " ", ":")
				if s.torn {
					killAt += "(torn)"
				}
				site := fmt.Sprintf("%s/%s%s%s", d.Name, cfg, planDesc, killAt)
				baseSite := fmt.Sprintf("%s/%s%s", d.Name, cfg, killAt)
				viol := func(suffix, msg string) {
					if plan == nil {
						baseViol[baseSite+suffix] = true
					} else if baseViol[baseSite+suffix] {
						return // the fault-free run of this driver shows the same thing at the same kill point: not a new observation
					}
					r.Violation(site+suffix, msg, cs)
				}
				e, ok := s.tree[dest]
				if !ok {
					viol("/dest-missing", fmt.Sprintf("kill before event %d (%s): %s does not exist", s.at, s.ev, dest))
				} else if !(e.Sum == old.Sum && e.Mode == old.Mode) && !(e.Sum == fin.Sum) && strings.HasSuffix(d.Name, "(incr)") && e.Size > old.Size {
					r.Violation(d.Name+"/increment-appended-in-place-torn-write", fmt.Sprintf("kill inside the write of the increment (%s, event %d, %s): %s holds its previous bytes plus a partial increment (%d bytes; old %d, final %d)", cfg, s.at, s.ev, dest, e.Size, old.Size, fin.Size), cs)
				} else if !(e.Sum == old.Sum && e.Mode == old.Mode) && !(e.Sum == fin.Sum) {
					viol("/dest-partial", fmt.Sprintf("kill before event %d (%s): %s holds neither its previous nor its final bytes (%d bytes; old %d, final %d)", s.at, s.ev, dest, e.Size, old.Size, fin.Size))
				}
				for name, ne := range s.tree {
					if name == dest {
						continue
					}
					if oe, was := res.t0[name]; was {
						// every other pre-existing file is untouched, except final outputs of a multi-output run
						if oe.Sum != ne.Sum && !(d.Kind == "multi" && res.t1[name].Sum == ne.Sum) {
							viol("/other-file-changed:"+c01canonName(name), fmt.Sprintf("kill before event %d (%s): %s changed", s.at, s.ev, name))
						}
						continue
					}
					if fe, isFinal := res.t1[name]; isFinal && !fsx.IsStaging(name) {
						// a new final output of a multi-output operation: must be complete
						if d.Kind == "multi" && fe.Sum == ne.Sum {
							continue
						}
						if d.Kind == "multi" {
							viol("/new-output-partial:"+c01canonName(name), fmt.Sprintf("kill before event %d (%s): new output %s is partial (%d of %d bytes)", s.at, s.ev, name, ne.Size, fe.Size))
							continue
						}
					}
					b := filepath.Base(name)
					if !fsx.IsStaging(name) || !strings.HasPrefix(b, ".") || filepath.Dir(name) != filepath.Dir(dest) {
						viol("/leftover-not-hidden-staging:"+c01canonName(name), fmt.Sprintf("kill before event %d (%s): leftover %s is not a hidden staging file next to %s", s.at, s.ev, name, dest))
					}
				}
			}
			return snaps, res
		}
		snaps, res := analyse(nil, "")
		if res != nil {
			// one deviation: every staging-related call (thorough: every call) fails once with EIO / EACCES; a run that still
			// reports success (pdfcpu fell back to something else) is put through the same kill enumeration
			type cls struct {
				c string
				k int
			}
			seen := map[string]int{}
			var sites []cls
			for _, e := range res.trace {
				c := e.Class()
				seen[c]++
				if r.Quick() && !(strings.HasPrefix(e.Kind, "create") || e.Kind == "openfile" || e.Kind == "mkdir" || e.Kind == "mkdirtemp") {
					continue
				}
				sites = append(sites, cls{c, seen[c]})
			}
			for _, st := range sites {
				for _, en := range []string{"", "EACCES"} {
					if r.Expired() {
						r.Cut("internal deadline in tolerated-fault variants")
						return
					}
					r.Count("tolerated_fault_runs", 1)
					desc := fmt.Sprintf("+fault(%s#%d:%s)", strings.ReplaceAll(st.c, " ", ":"), st.k, map[string]string{"": "EIO", "EACCES": "EACCES"}[en])
					analyse([]fsx.Fault{{Class: st.c, K: st.k, Kind: "errno", Errno: en}}, desc)
				}
			}
		}
		if pi%5 == 0 && len(snaps) > 0 {
			s := snaps[len(snaps)-1]
			r.Sample(map[string]any{"driver": d.Name, "config": cfg, "kill_before_event": s.at, "event": s.ev, "events": len(res.trace)})
		}
	}
}

func c02exec(base string, d *FSDriver, cfg, collide string, tune func(c *fsx.Ctl)) *c01res {
	dir := filepath.Join(base, "w")
	os.RemoveAll(dir)
	os.MkdirAll(dir, 0o755)
	fx := GetFixtures()
	os.WriteFile(filepath.Join(dir, "in.pdf"), fx.Files[d.Fixture], 0o644)
	fx.WriteTo(dir, d.Extra...)
	in := filepath.Join(dir, "in.pdf")
	out := ""
	switch cfg {
	case "same":
		out = in
	case "existing":
		out = filepath.Join(dir, "out.pdf")
		os.WriteFile(out, fx.Files["existing.pdf"], 0o600)
		os.Chmod(out, 0o600)
	case "existing-readonly":
		out = filepath.Join(dir, "out.pdf")
		os.WriteFile(out, fx.Files["existing.pdf"], 0o444)
		os.Chmod(out, 0o444)
	case "inplace-readonly":
		os.Chmod(in, 0o444)
	case "collide":
		out = filepath.Join(dir, "outdir")
		os.Mkdir(out, 0o755)
		os.WriteFile(filepath.Join(out, collide), []byte("pre-existing file\n"), 0o600)
	}
	res := &c01res{out: out, dir: dir}
	res.t0 = fsx.Snap(dir)
	ctl := &fsx.Ctl{Root: dir}
	tune(ctl)
	vtime.Pinned = time.Date(2024, 5, 6, 7, 8, 9, 0, time.UTC)
	vrand.Pin(42)
	defer func() { vtime.Pinned = time.Time{}; vrand.Unpin() }()
	res.err, res.pv = ctl.Run(func() error { return d.Run(dir, in, out) })
	res.trace = append([]fsx.Ev{}, ctl.Trace...)
	res.fired = ctl.Fired
	res.t1 = fsx.Snap(dir)
	return res
}
