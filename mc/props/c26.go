package props

import (
	"bytes"
	"errors"
	"fmt"
	"sort"

	"github.com/pdfcpu/pdfcpu/pkg/api"
	"github.com/pdfcpu/pdfcpu/pkg/pdfcpu"
	"github.com/pdfcpu/pdfcpu/pkg/pdfcpu/model"
	"verif/mc/core"
	"verif/mc/docgen"
	"verif/mc/isocrypt"
)

// C26: restricted documents refuse operations their permissions deny.
func init() {
	core.Register(&core.Check{
		ID:    "C26",
		Level: "exploration",
		Rule: "every command mode of pdfcpu's own classification table x every combination of the permission bits 3,4,5,10,11,12 (64 words) x {RC4-40 (R2), RC4-128 (R4), AES-128 (R4), AES-256 (R6)} written by pdfcpu plus {R2, R3 with 40 and 128 bit keys, R4 AES, R5, R6} documents built by the harness' independent ISO 32000 implementation: the document is encrypted with that word and opened through ReadContext with only the user password and conf.Cmd = mode; refusal expected iff (mode needs extract and the extract bit for that revision is clear) or (mode needs modify and the modify bit is clear); " +
			"non-trivial = a mode that needs extract or modify rights",
		Assume: []string{"the classification of commands is pdfcpu's own table (the property is relative to it); which bit governs which right per revision is taken from pdfcpu's documented permission list (R2: bit 5 extract, bit 4 modify; R>=3: bit 10 extract, bit 11 modify)", "R3 and R5 files are not written by pdfcpu: they come from the harness' own security-handler implementation (mc/isocrypt), which C24 validates against pdfcpu in both directions"},
		Run:    runC26,
	})
}

func runC26(r *core.R) {
	table := pdfcpu.VerifPermTable()
	var modes []model.CommandMode
	for m := range table {
		modes = append(modes, m)
	}
	sort.Slice(modes, func(i, j int) bool { return modes[i] < modes[j] })
	r.Note("command_modes", len(modes))
	type alg struct {
		name string
		aes  bool
		kl   int
		rev  int
		iso  bool // built by the harness' independent ISO 32000 implementation (revisions pdfcpu does not write)
	}
	algs := []alg{{"RC4-40", false, 40, 2, false}, {"RC4-128", false, 128, 4, false}, {"AES-128", true, 128, 4, false}, {"AES-256", true, 256, 6, false},
		{"iso:RC4-128/R3", false, 128, 3, true}, {"iso:RC4-40/R3", false, 40, 3, true}, {"iso:RC4-40/R2", false, 40, 2, true}, {"iso:AES-128/R4", true, 128, 4, true}, {"iso:AES-256/R5", true, 256, 5, true}, {"iso:AES-256/R6", true, 256, 6, true}}
	bits := []int{0x4, 0x8, 0x10, 0x200, 0x400, 0x800}
	src := docgen.Marked(2, 0)
	type fixture struct {
		alg alg
		p   int
		b   []byte
	}
	var fx []fixture
	for _, a := range algs {
		for mask := 0; mask < 64; mask++ {
			p := 0xF0C3
			for i, b := range bits {
				if mask&(1<<i) != 0 {
					p |= b
				}
			}
			fx = append(fx, fixture{alg: a, p: p})
		}
	}
	core.ParFor(len(fx), func(i int) {
		f := &fx[i]
		if f.alg.iso {
			id0 := []byte("0123456789abcdef")
			pdf, _, _ := isocrypt.BuildEncryptedPDF(isocrypt.DocSpec{R: f.alg.rev, AES: f.alg.aes, KeyBits: f.alg.kl, UserPw: []byte("u"), OwnerPw: []byte("o"),
				P: int32(uint32(0xFFFF0000) | uint32(f.p)), ID0: id0, EncryptMetadata: true, Marker: "permission marker"})
			f.b = pdf
			return
		}
		var conf *model.Configuration
		if f.alg.aes {
			conf = model.NewAESConfiguration("u", "o", f.alg.kl)
		} else {
			conf = model.NewRC4Configuration("u", "o", f.alg.kl)
		}
		conf.ValidationMode = model.ValidationRelaxed
		conf.Permissions = model.PermissionFlags(f.p)
		var out bytes.Buffer
		if err := api.Encrypt(bytes.NewReader(src), &out, conf); err != nil {
			r.HarnessError("encrypt %s P=%#x: %v", f.alg.name, f.p, err)
			return
		}
		f.b = out.Bytes()
	})
	core.ParFor(len(fx), func(i int) {
		f := fx[i]
		if f.b == nil {
			return
		}
		// the word actually stored
		c0 := model.NewDefaultConfiguration()
		c0.ValidationMode = model.ValidationRelaxed
		c0.UserPW, c0.OwnerPW = "u", "o"
		pp, err := api.GetPermissions(bytes.NewReader(f.b), c0)
		if err != nil || pp == nil {
			r.HarnessError("GetPermissions %s P=%#x: %v", f.alg.name, f.p, err)
			return
		}
		stored := int(uint16(*pp))
		if stored&0x0F3C != f.p&0x0F3C {
			r.Violation(fmt.Sprintf("stored-permissions-differ:%s", f.alg.name), fmt.Sprintf("%s: requested P=%#x, document reports %#x", f.alg.name, f.p, stored), map[string]any{"alg": f.alg.name, "P": f.p})
		}
		for _, m := range modes {
			need := table[m]
			r.Eval(1)
			if need[0] != 0 || need[1] != 0 {
				r.Nontrivial(1)
			}
			xbit, mbit := 0x10, 0x8
			if f.alg.rev >= 3 {
				xbit, mbit = 0x200, 0x400
			}
			deny := (need[0] != 0 && stored&xbit == 0) || (need[1] != 0 && stored&mbit == 0)
			conf := model.NewDefaultConfiguration()
			conf.ValidationMode = model.ValidationRelaxed
			conf.UserPW = "u"
			conf.Cmd = m
			var rerr error
			pv, _ := core.Try(func() { _, rerr = api.ReadContext(bytes.NewReader(f.b), conf) })
			rep := map[string]any{"alg": f.alg.name, "P": fmt.Sprintf("%#x", f.p), "mode": int(m), "needs_extract": need[0], "needs_modify": need[1]}
			if pv != nil {
				r.Violation(fmt.Sprintf("panic:mode=%d", m), fmt.Sprintf("ReadContext panicked: %v", pv), rep)
				continue
			}
			denied := errors.Is(rerr, pdfcpu.ErrPermissionDenied)
			if deny && rerr == nil {
				key := fmt.Sprintf("not-refused:%s:extract=%d,modify=%d", f.alg.name, need[0], need[1])
				if r.Want(key) {
					r.Violation(key, fmt.Sprintf("%s P=%#x mode %d (needs extract=%d modify=%d) opened with the user password only was not refused", f.alg.name, stored, m, need[0], need[1]), rep)
				}
			}
			if !deny && denied {
				key := fmt.Sprintf("refused-although-granted:%s:extract=%d,modify=%d", f.alg.name, need[0], need[1])
				if r.Want(key) {
					r.Violation(key, fmt.Sprintf("%s P=%#x mode %d (needs extract=%d modify=%d): rights are granted but the read was refused with ErrPermissionDenied", f.alg.name, stored, m, need[0], need[1]), rep)
				}
			}
			if deny {
				r.Count("expected_refusals", 1)
			}
		}
	})
	r.Sample(map[string]any{"alg": "AES-256", "P": "0xf2d3", "mode": int(model.EXTRACTPAGES), "expected": "refused iff bit 10 clear"})
}
