package props

import (
	"bytes"
	"fmt"
	"sort"
	"strings"
	"sync"

	"github.com/pdfcpu/pdfcpu/pkg/api"
	"github.com/pdfcpu/pdfcpu/pkg/pdfcpu/model"
	"github.com/pdfcpu/pdfcpu/pkg/pdfcpu/types"
	"verif/mc/core"
	"verif/mc/docgen"
	"verif/mc/strictpdf"
)

// Foreign initial states for C39: pdfcpu itself only ever builds binary trees with leaves of at most
// maxEntries names, but "multi-level trees read from generated documents" may have any fan-out and any leaf
// size. ntShape enumerates every tree shape over n sorted keys with fan-out 2..4, leaves of 1..4 names and
// at most three levels; the BFS below starts from all of them at once.
type ntShape struct {
	Leaf int       // number of names if this is a leaf
	Kids []ntShape // else the kids
}

func (s ntShape) String() string {
	if len(s.Kids) == 0 {
		return fmt.Sprint(s.Leaf)
	}
	var ss []string
	for _, k := range s.Kids {
		ss = append(ss, k.String())
	}
	return "(" + strings.Join(ss, " ") + ")"
}

func (s ntShape) size() int {
	if len(s.Kids) == 0 {
		return s.Leaf
	}
	n := 0
	for _, k := range s.Kids {
		n += k.size()
	}
	return n
}

// ntShapes: every shape over n keys with at most `levels` levels.
func ntShapes(n, levels int) []ntShape {
	var out []ntShape
	if n >= 1 && n <= 4 {
		out = append(out, ntShape{Leaf: n})
	}
	if levels <= 1 {
		return out
	}
	// compositions of n into m parts, m = 2..4
	var comp func(rest, parts int, cur []int)
	comp = func(rest, parts int, cur []int) {
		if parts == 1 {
			if rest < 1 {
				return
			}
			c := append(append([]int{}, cur...), rest)
			// cartesian product of the kids' shapes
			choices := make([][]ntShape, len(c))
			for i, k := range c {
				choices[i] = ntShapes(k, levels-1)
				if len(choices[i]) == 0 {
					return
				}
			}
			idx := make([]int, len(c))
			for {
				kids := make([]ntShape, len(c))
				for i := range c {
					kids[i] = choices[i][idx[i]]
				}
				out = append(out, ntShape{Kids: kids})
				j := len(c) - 1
				for j >= 0 {
					idx[j]++
					if idx[j] < len(choices[j]) {
						break
					}
					idx[j] = 0
					j--
				}
				if j < 0 {
					break
				}
			}
			return
		}
		for k := 1; k <= rest-(parts-1); k++ {
			comp(rest-k, parts-1, append(cur, k))
		}
	}
	for m := 2; m <= 4 && m <= n; m++ {
		comp(n, m, nil)
	}
	return out
}

// ntBuildForeign builds the in-memory tree of shape s over keys (consumed left to right).
func ntBuildForeign(s ntShape, keys []string, want map[string]string) (*model.Node, []string) {
	n := &model.Node{}
	if len(s.Kids) == 0 {
		for _, k := range keys[:s.Leaf] {
			n.AppendToNames(k, types.StringLiteral("v-"+k))
			want[k] = "v-" + k
		}
		n.Kmin, n.Kmax = keys[0], keys[s.Leaf-1]
		return n, keys[s.Leaf:]
	}
	rest := keys
	for _, ks := range s.Kids {
		var kid *model.Node
		kid, rest = ntBuildForeign(ks, rest, want)
		n.Kids = append(n.Kids, kid)
	}
	n.Kmin, n.Kmax = n.Kids[0].Kmin, n.Kids[len(n.Kids)-1].Kmax
	return n, rest
}

// ntInvariantForeign: the property's invariants only (sorted unique keys, limits, lookups, kid ranges).
// pdfcpu does not re-balance somebody else's tree, so leaf sizes and fan-out are not judged here.
func ntInvariantForeign(root *model.Node, want map[string]string) string {
	return ntInvariantOpt(root, want, true)
}

var c39ForeignKeys = []string{"b", "d", "f", "h", "j", "l"}

func c39foreign(r *core.R) {
	maxN, depth := 5, 2
	if !r.Quick() {
		maxN, depth = 6, 3
	}
	type init struct {
		shape ntShape
		n     int
	}
	var inits []init
	for n := 2; n <= maxN; n++ {
		for _, s := range ntShapes(n, 3) {
			if len(s.Kids) == 0 && n <= 3 {
				continue // pdfcpu's own leaf: covered by part A
			}
			inits = append(inits, init{s, n})
		}
	}
	r.Count("foreign_initial_trees", int64(len(inits)))
	extra := []string{"a", "e", "m"}
	type state struct {
		init int
		path []ntOp
	}
	build := func(st state) (n *model.Node, want map[string]string, err error) {
		want = map[string]string{}
		in := inits[st.init]
		n, _ = ntBuildForeign(in.shape, c39ForeignKeys[:in.n], want)
		for i, op := range st.path {
			if err = ntApply(n, want, op, i); err != nil {
				return
			}
		}
		return
	}
	seen := map[string]bool{}
	var frontier []state
	for i := range inits {
		n, want, _ := build(state{init: i})
		if bad := ntInvariantForeign(n, want); bad != "" {
			r.HarnessError(fmt.Sprintf("foreign initial tree %s violates the invariant: %s", inits[i].shape, bad))
			return
		}
		c := ntCanon(n)
		if !seen[c] {
			seen[c] = true
			frontier = append(frontier, state{init: i})
		}
	}
	states, transitions := len(frontier), 0
	for d := 0; d < depth && len(frontier) > 0; d++ {
		var next []state
		for _, st := range frontier {
			in := inits[st.init]
			var ops []ntOp
			for _, k := range append(append([]string{}, c39ForeignKeys[:in.n]...), extra...) {
				ops = append(ops, ntOp{true, k}, ntOp{false, k})
			}
			for _, op := range ops {
				if r.Expired() {
					r.Cut("internal deadline in foreign name tree BFS")
					return
				}
				ns := state{st.init, append(append([]ntOp{}, st.path...), op)}
				var n *model.Node
				var want map[string]string
				var err error
				pv, _ := core.Try(func() { n, want, err = build(ns) })
				transitions++
				r.Eval(1)
				desc := func() string {
					var ss []string
					for _, o := range ns.path {
						ss = append(ss, o.String())
					}
					return fmt.Sprintf("foreign tree %s over %v, then %s", in.shape, c39ForeignKeys[:in.n], strings.Join(ss, " "))
				}
				rep := map[string]any{"shape": in.shape.String(), "keys": c39ForeignKeys[:in.n], "path": ns.path}
				if pv != nil {
					if k := "foreign:panic:" + op.String()[:1]; r.Want(k) {
						r.Violation(k, fmt.Sprintf("name tree panicked: %s: %v", desc(), pv), rep)
					}
					continue
				}
				if err != nil {
					if k := "foreign:op-error:" + op.String()[:1]; r.Want(k) {
						r.Violation(k, fmt.Sprintf("%s: %v", desc(), err), rep)
					}
					continue
				}
				r.Nontrivial(1)
				if bad := ntInvariantForeign(n, want); bad != "" {
					cls := strings.SplitN(bad, ":", 2)[0]
					if i := strings.IndexAny(cls, "[(0123456789\""); i > 0 {
						cls = strings.TrimSpace(cls[:i])
					}
					if k := "foreign:invariant:" + cls; r.Want(k) {
						r.Violation(k, fmt.Sprintf("%s: %s; tree %s", desc(), bad, ntCanon(n)), rep)
					}
					continue
				}
				c := ntCanon(n)
				if !seen[c] {
					seen[c] = true
					states++
					next = append(next, ns)
					if states%2000 == 1 {
						r.Sample(map[string]any{"foreign": desc(), "state": c})
					}
				}
			}
		}
		frontier = next
	}
	r.Count("foreign_states", int64(states))
	r.Count("foreign_transitions", int64(transitions))
	r.Note("foreign_bfs_depth", depth)
}

// ---- the same through documents ----

// c39TreeDoc writes a one-page document whose EmbeddedFiles name tree has shape s over the attachment
// names keys (every node an indirect object, /Limits on every non-root node as ISO 32000-1 7.9.6 asks).
func c39TreeDoc(s ntShape, keys []string) []byte {
	// a page without fonts: docgen's usual Helvetica dictionary is refused by strict validation
	d := docgen.New()
	cat, pages := d.Reserve(), d.Reserve()
	page := d.Add(fmt.Sprintf("<</Type/Page/Parent %s/Resources<<>>>>", docgen.Ref(pages)))
	d.Set(pages, fmt.Sprintf("<</Type/Pages/Kids[%s]/Count 1/MediaBox[0 0 595 842]>>", docgen.Ref(page)))
	d.Set(cat, fmt.Sprintf("<</Type/Catalog/Pages %s>>", docgen.Ref(pages)))
	d.Root = cat
	var rec func(s ntShape, keys []string, root bool) (int, []string)
	rec = func(s ntShape, keys []string, root bool) (int, []string) {
		lim := ""
		if len(s.Kids) == 0 {
			var names []string
			for _, k := range keys[:s.Leaf] {
				ef := d.AddStream("<</Type/EmbeddedFile>>", []byte("content of "+k+"\n"))
				fs := d.Add(fmt.Sprintf("<</Type/Filespec/F%s/UF%s/EF<</F %s>>>>", docgen.HexStr(k), docgen.HexStr(k), docgen.Ref(ef)))
				names = append(names, docgen.HexStr(k)+" "+docgen.Ref(fs))
			}
			if !root {
				lim = fmt.Sprintf("/Limits[%s %s]", docgen.HexStr(keys[0]), docgen.HexStr(keys[s.Leaf-1]))
			}
			return d.Add(fmt.Sprintf("<<%s/Names[%s]>>", lim, strings.Join(names, " "))), keys[s.Leaf:]
		}
		first := keys[0]
		rest := keys
		var kids []string
		for _, ks := range s.Kids {
			var nr int
			nr, rest = rec(ks, rest, false)
			kids = append(kids, docgen.Ref(nr))
		}
		last := keys[len(keys)-len(rest)-1]
		if !root {
			lim = fmt.Sprintf("/Limits[%s %s]", docgen.HexStr(first), docgen.HexStr(last))
		}
		return d.Add(fmt.Sprintf("<<%s/Kids[%s]>>", lim, strings.Join(kids, " "))), rest
	}
	nr, _ := rec(s, keys, true)
	d.PatchCatalog(fmt.Sprintf("/Names<</EmbeddedFiles %s>>", docgen.Ref(nr)))
	return d.Bytes()
}

// c39WalkTree inspects the EmbeddedFiles name tree of a written file with the independent parser: returns the
// keys in tree order and the first structural problem ("" if none): keys sorted and unique, every /Limits
// equal to the least and greatest key below the node, the root without /Limits, non-root nodes with /Limits.
func c39WalkTree(b []byte) (keys []string, problem string) {
	f := strictpdf.Parse(b)
	root, _ := f.Resolve(f.Trailer["Root"]).(strictpdf.Dict)
	if root == nil {
		return nil, "no catalog"
	}
	names, _ := f.Resolve(root["Names"]).(strictpdf.Dict)
	if names == nil {
		return nil, ""
	}
	top, _ := f.Resolve(names["EmbeddedFiles"]).(strictpdf.Dict)
	if top == nil {
		return nil, ""
	}
	set := func(p string) {
		if problem == "" {
			problem = p
		}
	}
	str := func(v any) (string, bool) {
		s, ok := f.Resolve(v).(strictpdf.String)
		return string(s), ok
	}
	var rec func(n strictpdf.Dict, isRoot bool, depth int) (lo, hi string, cnt int)
	rec = func(n strictpdf.Dict, isRoot bool, depth int) (lo, hi string, cnt int) {
		if depth > 16 {
			set("name tree deeper than 16 levels")
			return
		}
		if arr, ok := f.Resolve(n["Names"]).([]any); ok {
			if len(arr)%2 != 0 {
				set("odd /Names array")
			}
			for i := 0; i+1 < len(arr); i += 2 {
				k, ok := str(arr[i])
				if !ok {
					set("name tree key is not a string")
				}
				if cnt == 0 {
					lo = k
				}
				hi = k
				cnt++
				keys = append(keys, k)
			}
		}
		if arr, ok := f.Resolve(n["Kids"]).([]any); ok {
			if _, both := n["Names"]; both {
				set("node with both /Kids and /Names")
			}
			for _, kv := range arr {
				kd, _ := f.Resolve(kv).(strictpdf.Dict)
				if kd == nil {
					set("kid is not a dictionary")
					continue
				}
				klo, khi, kc := rec(kd, false, depth+1)
				if kc == 0 {
					set("empty kid node")
					continue
				}
				if cnt == 0 {
					lo = klo
				}
				hi = khi
				cnt += kc
			}
		}
		lim, has := f.Resolve(n["Limits"]).([]any)
		switch {
		case isRoot && has:
			set("root node carries /Limits")
		case !isRoot && !has:
			set("non-root node without /Limits")
		case !isRoot && cnt > 0:
			if len(lim) != 2 {
				set("/Limits is not a pair")
				break
			}
			a, _ := str(lim[0])
			z, _ := str(lim[1])
			if a != lo || z != hi {
				set(fmt.Sprintf("/Limits [%q %q] but the keys below span [%q %q]", a, z, lo, hi))
			}
		}
		return
	}
	rec(top, true, 0)
	for i := 1; i < len(keys); i++ {
		if !(keys[i-1] < keys[i]) {
			set(fmt.Sprintf("keys not strictly ascending: %q then %q", keys[i-1], keys[i]))
		}
	}
	return keys, problem
}

// c39foreignDocs: for every foreign tree shape as a real document, every single edit (thorough: every
// ordered pair of edits) through the API, then write -> independent walk of the written tree -> strict
// re-read -> listing against the set model.
func c39foreignDocs(r *core.R) {
	maxN, depth := 5, 1
	if !r.Quick() {
		maxN, depth = 6, 2
	}
	all := []string{"b.txt", "d.txt", "f.txt", "h.txt", "j.txt", "l.txt"}
	extra := []string{"a.txt", "e.txt", "m.txt"}
	type job struct {
		shape ntShape
		keys  []string
		ops   []string
	}
	var jobs []job
	for n := 3; n <= maxN; n++ {
		for _, s := range ntShapes(n, 3) {
			if len(s.Kids) == 0 {
				continue
			}
			keys := all[:n]
			var ops []string
			for _, k := range keys {
				ops = append(ops, "-"+k)
			}
			for _, k := range extra {
				ops = append(ops, "+"+k)
			}
			for _, o1 := range ops {
				jobs = append(jobs, job{s, keys, []string{o1}})
				// pairs only where the fan-out exceeds pdfcpu's own (the interesting foreign shapes)
				if depth >= 2 && n <= 5 {
					for _, o2 := range ops {
						if o2 != o1 {
							jobs = append(jobs, job{s, keys, []string{o1, o2}})
						}
					}
				}
			}
		}
	}
	var mu sync.Mutex
	viol := func(k, msg string, rep map[string]any) {
		mu.Lock()
		defer mu.Unlock()
		if r.Want(k) {
			r.Violation(k, msg, rep)
		}
	}
	strict := func() *model.Configuration {
		c := model.NewDefaultConfiguration()
		c.ValidationMode = model.ValidationStrict
		return c
	}
	var cut bool
	core.ParFor(len(jobs), func(i int) {
		if r.Expired() {
			mu.Lock()
			cut = true
			mu.Unlock()
			return
		}
		j := jobs[i]
		doc := c39TreeDoc(j.shape, j.keys)
		desc := fmt.Sprintf("document with EmbeddedFiles tree %s over %v, then %s", j.shape, j.keys, strings.Join(j.ops, " "))
		rep := map[string]any{"shape": j.shape.String(), "keys": j.keys, "ops": j.ops}
		have := map[string]bool{}
		for _, k := range j.keys {
			have[k] = true
		}
		ctx, err := api.ReadValidateAndOptimize(bytes.NewReader(doc), strict())
		if err != nil {
			mu.Lock()
			r.HarnessError("strict mode rejects the generated document: %v (%s)", err, desc)
			mu.Unlock()
			return
		}
		for _, op := range j.ops {
			n := op[1:]
			var opErr error
			pv, _ := core.Try(func() {
				if op[0] == '+' {
					opErr = ctx.AddAttachment(model.Attachment{Reader: strings.NewReader("content of " + n + "\n"), ID: n, FileName: n}, false)
					have[n] = true
				} else if have[n] {
					var ok bool
					ok, opErr = ctx.RemoveAttachments([]string{n})
					if opErr == nil && !ok {
						opErr = fmt.Errorf("RemoveAttachments reported nothing removed")
					}
					delete(have, n)
				}
			})
			if pv != nil || opErr != nil {
				viol("foreigndoc:op-failed:"+op[:1], fmt.Sprintf("%s: %s failed: %v %v", desc, op, opErr, pv), rep)
				return
			}
		}
		var out bytes.Buffer
		if err := api.WriteContext(ctx, &out); err != nil {
			viol("foreigndoc:write-failed", fmt.Sprintf("%s: write: %v", desc, err), rep)
			return
		}
		mu.Lock()
		r.Eval(1)
		r.Nontrivial(1)
		r.Count("foreign_doc_transitions", 1)
		mu.Unlock()
		var wk []string
		for k := range have {
			wk = append(wk, k)
		}
		sort.Strings(wk)
		keys, problem := c39WalkTree(out.Bytes())
		if problem != "" {
			viol("foreigndoc:written-tree:"+strings.SplitN(problem, " ", 3)[0], fmt.Sprintf("%s: the written name tree is inconsistent: %s", desc, problem), rep)
			return
		}
		if fmt.Sprint(keys) != fmt.Sprint(wk) {
			viol("foreigndoc:written-keys", fmt.Sprintf("%s: written tree holds %v, model %v", desc, keys, wk), rep)
			return
		}
		ctx2, err := api.ReadValidateAndOptimize(bytes.NewReader(out.Bytes()), strict())
		if err != nil {
			viol("foreigndoc:strict-reread", fmt.Sprintf("%s: the written document fails strict validation: %v", desc, err), rep)
			return
		}
		aa, err := ctx2.ListAttachments()
		if err != nil {
			viol("foreigndoc:list-failed", fmt.Sprintf("%s: %v", desc, err), rep)
			return
		}
		var got []string
		for _, a := range aa {
			got = append(got, a.ID)
		}
		sort.Strings(got)
		if fmt.Sprint(got) != fmt.Sprint(wk) {
			viol("foreigndoc:listing-differs", fmt.Sprintf("%s: attachments listed %v, model %v", desc, got, wk), rep)
		}
	})
	if cut {
		r.Cut("internal deadline in foreign name tree documents")
	}
	r.Note("foreign_doc_jobs", len(jobs))
}
