package props

import (
	"encoding/json"
	"fmt"
	"os"
	"os/exec"
	"path/filepath"
	"regexp"
	"sort"
	"strings"

	"verif/mc/core"
	"verif/mc/fsx"
)

// Conformance of the os shim with the real system calls (supporting step of C01, thorough tier):
// the intercepted event trace is the "model" all fault enumeration of C01/C02/C06/C07 is built on. Every
// driver is run once fault-free in a child process under strace; every file-system MUTATING system call on a
// path below the scratch directory made during the operation must correspond to an intercepted event on the
// same canonical path - otherwise some mutation bypasses the shim (a package that was not rewritten, a direct
// syscall) and faults could never be injected there.

// C01TraceMain: `mc c01trace <driver index> <config> <dir>` (child side).
func C01TraceMain(args []string) {
	var di int
	fmt.Sscan(args[0], &di)
	ds := fsDrivers()
	if di < 0 || di >= len(ds) {
		fmt.Println("no such driver")
		os.Exit(2)
	}
	base := args[2]
	os.MkdirAll(base, 0o755)
	// markers visible to strace, placed around the operation itself (not around the harness' own set-up)
	dd := ds[di]
	orig := dd.Run
	dd.Run = func(dir, in, out string) error {
		os.Stat("/verif-marker-begin")
		defer os.Stat("/verif-marker-end")
		return orig(dir, in, out)
	}
	res := c01exec(base, &dd, args[1], nil, "")
	b, _ := json.Marshal(map[string]any{"trace": res.trace, "err": fmt.Sprint(res.err), "dir": res.dir})
	os.WriteFile(filepath.Join(base, "shim-trace.json"), b, 0o644)
}

var straceLine = regexp.MustCompile(`^(?:\[pid\s+\d+\]\s+|\d+\s+)?([a-z0-9_]+)\((.*)$`)
var stracePath = regexp.MustCompile(`"((?:[^"\\]|\\.)*)"`)
var straceFdPath = regexp.MustCompile(`^\d+<([^>]*)>`)

func c01StraceConformance(r *core.R) {
	if _, err := exec.LookPath("strace"); err != nil {
		r.Note("strace_conformance", "strace not available: step skipped")
		return
	}
	ds := fsDrivers()
	base := core.Scratch("c01strace")
	defer os.RemoveAll(base)
	type job struct {
		di  int
		cfg string
	}
	var jobs []job
	for di := range ds {
		cfgs := c01configs(ds[di].Kind)
		jobs = append(jobs, job{di, cfgs[0]}, job{di, cfgs[len(cfgs)-1]})
	}
	checked, syscalls, unmatched := 0, 0, 0
	core.ParFor(len(jobs), func(ji int) {
		j := jobs[ji]
		d := ds[j.di]
		dir := filepath.Join(base, fmt.Sprintf("j%d", ji))
		os.MkdirAll(dir, 0o755)
		out := filepath.Join(dir, "strace.txt")
		cmd := exec.Command("strace", "-f", "-qq", "-y", "-s", "256", "-e", "trace=openat,open,creat,rename,renameat,renameat2,unlink,unlinkat,mkdir,mkdirat,rmdir,link,linkat,symlink,symlinkat,truncate,ftruncate,fchmod,fchmodat,chmod,newfstatat", "-o", out,
			os.Args[0], "c01trace", fmt.Sprint(j.di), j.cfg, dir)
		if b, err := cmd.CombinedOutput(); err != nil {
			r.HarnessError("strace run of %s/%s: %v: %s", d.Name, j.cfg, err, trimTo(string(b), 300))
			return
		}
		tb, err := os.ReadFile(filepath.Join(dir, "shim-trace.json"))
		if err != nil {
			r.HarnessError("strace run of %s/%s: no shim trace", d.Name, j.cfg)
			return
		}
		var st struct {
			Trace []fsx.Ev `json:"trace"`
			Dir   string   `json:"dir"`
		}
		json.Unmarshal(tb, &st)
		// intercepted paths per class of mutation
		seen := map[string]map[string]bool{"open": {}, "rename": {}, "remove": {}, "mkdir": {}, "chmod": {}, "truncate": {}, "link": {}}
		classOf := map[string]string{"openfile": "open", "create": "open", "createtemp": "open", "rename": "rename", "remove": "remove", "removeall": "remove",
			"mkdir": "mkdir", "mkdirall": "mkdir", "mkdirtemp": "mkdir", "chmod": "chmod", "fchmod": "chmod", "truncate": "truncate", "ftruncate": "truncate", "link": "link", "symlink": "link"}
		for _, e := range st.Trace {
			c := classOf[e.Kind]
			if c == "" {
				continue
			}
			seen[c][e.Path] = true
			if e.P2 != "" {
				seen[c][e.P2] = true
			}
		}
		sysClass := map[string]string{"openat": "open", "open": "open", "creat": "open", "rename": "rename", "renameat": "rename", "renameat2": "rename",
			"unlink": "remove", "unlinkat": "remove", "rmdir": "remove", "mkdir": "mkdir", "mkdirat": "mkdir", "link": "link", "linkat": "link", "symlink": "link", "symlinkat": "link",
			"truncate": "truncate", "ftruncate": "truncate", "fchmod": "chmod", "fchmodat": "chmod", "chmod": "chmod"}
		sb, _ := os.ReadFile(out)
		inOp := false
		var missing []string
		n := 0
		for _, ln := range strings.Split(string(sb), "\n") {
			if strings.Contains(ln, "/verif-marker-begin") {
				inOp = true
				continue
			}
			if strings.Contains(ln, "/verif-marker-end") {
				inOp = false
				continue
			}
			if !inOp {
				continue
			}
			m := straceLine.FindStringSubmatch(ln)
			if m == nil || m[1] == "newfstatat" {
				continue
			}
			call, rest := m[1], m[2]
			if strings.Contains(ln, "= -1 ") {
				continue // failed calls mutate nothing
			}
			mut := true
			if call == "openat" || call == "open" {
				mut = strings.Contains(rest, "O_CREAT") || strings.Contains(rest, "O_TRUNC") || strings.Contains(rest, "O_WRONLY") || strings.Contains(rest, "O_RDWR") || strings.Contains(rest, "O_APPEND")
			}
			if !mut {
				continue
			}
			var paths []string
			for _, pm := range stracePath.FindAllStringSubmatch(rest, -1) {
				paths = append(paths, pm[1])
			}
			if fm := straceFdPath.FindStringSubmatch(rest); fm != nil && (call == "ftruncate" || call == "fchmod") {
				paths = append(paths, fm[1])
			}
			for _, p := range paths {
				if !strings.HasPrefix(p, st.Dir+"/") {
					continue
				}
				rel := fsx.CanonName(strings.TrimPrefix(p, st.Dir+"/"))
				n++
				cls := sysClass[call]
				if !seen[cls][rel] {
					// removeall / mkdirall act on whole subtrees / parent chains: intercepted at the named directory
					covered := false
					for s := range seen[cls] {
						if (cls == "remove" && strings.HasPrefix(rel, s+"/")) || (cls == "mkdir" && strings.HasPrefix(s, rel+"/")) {
							covered = true
						}
					}
					if !covered {
						missing = append(missing, call+" "+rel)
					}
				}
			}
		}
		r.Eval(1)
		checked++
		syscalls += n
		if len(missing) > 0 {
			unmatched += len(missing)
			sort.Strings(missing)
			r.HarnessError("shim conformance: %s/%s: system calls that mutate the scratch tree without an intercepted event: %v", d.Name, j.cfg, missing)
		}
	})
	r.Note("strace_conformance", fmt.Sprintf("%d driver runs under strace, %d mutating system calls on scratch paths, %d without a matching intercepted event", checked, syscalls, unmatched))
}
