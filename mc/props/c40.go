package props

import (
	"encoding/json"
	"fmt"
	"os"
	"os/exec"
	"path/filepath"
	"sort"
	"strings"
	"time"

	"github.com/anishathalye/porcupine"
	"github.com/pdfcpu/pdfcpu/pkg/api"
	"github.com/pdfcpu/pdfcpu/pkg/font"
	"github.com/pdfcpu/pdfcpu/pkg/pdfcpu"
	"github.com/pdfcpu/pdfcpu/pkg/pdfcpu/model"
	"github.com/pdfcpu/pdfcpu/vx/vsched"
	"verif/mc/core"
	"verif/mc/sched"
)

// C40: concurrent use of the API is race-free and deterministic.
func init() {
	core.Register(&core.Check{
		ID:    "C40",
		Level: "model_checking",
		Rule: "deciding step: the real code of the lazily built globals (user font registry, trusted certificate pool cache, config-dir switch) runs under a cooperative scheduler that owns every sync.Mutex/RWMutex/Once and sync/atomic operation of pdfcpu (import rewriting by the build overlay); 2-3 harness threads with 1-3 operations each; stateless depth-first exploration of ALL schedules with at most 2 (thorough: 3) preemptions; every execution starts from the package's initial state; oracle per execution: no deadlock, no panic, horizon not reached, the call/return history is linearizable against a sequential reference model of the registry / the pool cache (porcupine), threads that only look things up get the result they get when run alone; replaying a recorded schedule gives identical observations; " +
			"supporting passes (reported separately): the same bodies and whole-API bodies free-running under the Go race detector in a separate -race build, concurrent results compared with sequential ones; " +
			"non-trivial = an execution with at least one preemption",
		Assume: []string{"scheduling points at synchronisation operations are sufficient provided unsynchronised accesses are caught separately: that is the role of the free-running -race pass", "the Go memory model's weaker-than-sequential orderings are not explored"},
		Run:    runC40,
	})
}

// ---------- font registry scenarios ----------

type fontOp struct {
	Kind string // add | reload | load | isuser | names
	Arg  string
}

type fontRes struct {
	Bool  bool
	Names string
	Err   string
}

type histEvent struct {
	thread    int
	op        fontOp
	res       fontRes
	call, ret int64
}

var (
	c40GobA, c40GobB []byte
)

func c40Gobs() error {
	if c40GobA != nil {
		return nil
	}
	loadFontFixtures()
	tmp := core.Scratch("c40gob")
	defer os.RemoveAll(tmp)
	os.MkdirAll(filepath.Join(tmp, "fonts"), 0o755)
	os.WriteFile(filepath.Join(tmp, "a.ttf"), fontA, 0o644)
	os.WriteFile(filepath.Join(tmp, "b.ttf"), fontB, 0o644)
	font.VerifReset(filepath.Join(tmp, "fonts"))
	if err := api.InstallFonts([]string{filepath.Join(tmp, "a.ttf"), filepath.Join(tmp, "b.ttf")}); err != nil {
		return err
	}
	c40GobA, _ = os.ReadFile(filepath.Join(tmp, "fonts", "Roboto-Regular.gob"))
	c40GobB, _ = os.ReadFile(filepath.Join(tmp, "fonts", "RobotX-Regular.gob"))
	if len(c40GobA) == 0 || len(c40GobB) == 0 {
		return fmt.Errorf("font installation produced no gob files")
	}
	return nil
}

const (
	fA = "Roboto-Regular"
	fB = "RobotX-Regular"
)

type fontScenario struct {
	name      string
	initial   []string   // fonts in the directory at the start
	preloaded bool       // LoadUserFonts done before the threads start
	threads   [][]fontOp // per thread
	alone     bool       // lookups only: results must equal the run-alone results
}

func c40FontScenarios() []fontScenario {
	return []fontScenario{
		{"first-use race: three lookups on an unloaded registry", []string{fA, fB}, false,
			[][]fontOp{{{"isuser", fA}}, {{"names", ""}}, {{"isuser", fB}, {"isuser", "Nope"}}}, true},
		{"reload after installing B vs lookups (loaded registry)", []string{fA}, true,
			[][]fontOp{{{"add", fB}, {"reload", ""}}, {{"isuser", fA}, {"isuser", fB}}, {{"names", ""}}}, false},
		// On an unloaded registry the lazy load inside a lookup reads the directory at some moment of the
		// lookup's interval that is not the moment its answer is read; the harness therefore calls the
		// real LoadUserFonts as an operation of its own first, so that both moments are separate history entries.
		{"reload after installing B vs first use (unloaded registry)", []string{fA}, false,
			[][]fontOp{{{"add", fB}, {"reload", ""}}, {{"load", ""}, {"isuser", fA}, {"isuser", fB}}, {{"load", ""}, {"names", ""}, {"isuser", fA}}}, false},
		{"reload vs explicit load vs lookup", []string{fA}, false,
			[][]fontOp{{{"add", fB}, {"reload", ""}, {"names", ""}}, {{"load", ""}, {"isuser", fA}}, {{"load", ""}, {"isuser", fB}, {"isuser", fA}}}, false},
		{"two reloads by one installer vs lookups", []string{fA}, true,
			[][]fontOp{{{"add", fB}, {"reload", ""}, {"reload", ""}}, {{"names", ""}, {"names", ""}}, {{"isuser", fA}}}, false},
	}
}

func runFontOp(dir string, op fontOp) fontRes {
	switch op.Kind {
	case "add":
		g := c40GobA
		if op.Arg == fB {
			g = c40GobB
		}
		if err := os.WriteFile(filepath.Join(dir, op.Arg+".gob"), g, 0o644); err != nil {
			return fontRes{Err: err.Error()}
		}
		return fontRes{}
	case "reload":
		if err := font.ReloadUserFonts(); err != nil {
			return fontRes{Err: err.Error()}
		}
		return fontRes{}
	case "load":
		if err := font.LoadUserFonts(); err != nil {
			return fontRes{Err: err.Error()}
		}
		return fontRes{}
	case "isuser":
		ok, err := font.IsUserFont(op.Arg)
		if err != nil {
			return fontRes{Err: err.Error()}
		}
		return fontRes{Bool: ok}
	case "names":
		ns, err := font.UserFontNames()
		if err != nil {
			return fontRes{Err: err.Error()}
		}
		sort.Strings(ns)
		return fontRes{Names: strings.Join(ns, ",")}
	}
	panic("unknown op")
}

// fontModel: sequential reference of the registry. state = "dir|table" with table "-" when unloaded.
type fontState struct {
	dir    string // sorted, comma separated
	table  string
	loaded bool
}

func setAdd(s, x string) string {
	parts := []string{}
	if s != "" {
		parts = strings.Split(s, ",")
	}
	for _, p := range parts {
		if p == x {
			return s
		}
	}
	parts = append(parts, x)
	sort.Strings(parts)
	return strings.Join(parts, ",")
}

func setHas(s, x string) bool {
	for _, p := range strings.Split(s, ",") {
		if p == x && x != "" {
			return true
		}
	}
	return false
}

var fontModel = porcupine.Model{
	Init: func() interface{} { return fontState{} },
	Step: func(state, input, output interface{}) (bool, interface{}) {
		st := state.(fontState)
		op := input.(fontOp)
		res := output.(fontRes)
		if res.Err != "" {
			return false, st // no operation may fail in these scenarios
		}
		lazy := func() {
			if !st.loaded {
				st.table, st.loaded = st.dir, true
			}
		}
		switch op.Kind {
		case "add":
			st.dir = setAdd(st.dir, op.Arg)
			return true, st
		case "reload":
			st.table, st.loaded = st.dir, true
			return true, st
		case "load":
			lazy()
			return true, st
		case "isuser":
			lazy()
			return res.Bool == setHas(st.table, op.Arg), st
		case "names":
			lazy()
			return res.Names == st.table, st
		}
		return false, st
	},
	Equal: func(a, b interface{}) bool { return a.(fontState) == b.(fontState) },
}

func (fs fontScenario) scenario(base string, seq *int) *sched.Scenario {
	return &sched.Scenario{Name: fs.name, Run: func(s *vsched.Scheduler) any {
		*seq++
		dir := filepath.Join(base, fmt.Sprintf("f%d", *seq%4))
		os.RemoveAll(dir)
		os.MkdirAll(dir, 0o755)
		for _, f := range fs.initial {
			runFontOp(dir, fontOp{"add", f})
		}
		font.VerifReset(dir)
		for o, n := range font.VerifSyncObjects() {
			s.Name(o, n)
		}
		var clock int64
		var hist []histEvent
		// the initial directory content enters the history as completed operations
		for _, f := range fs.initial {
			clock++
			hist = append(hist, histEvent{-1, fontOp{"add", f}, fontRes{}, clock, clock})
		}
		if fs.preloaded {
			font.LoadUserFonts()
			clock++
			hist = append(hist, histEvent{-1, fontOp{"load", ""}, fontRes{}, clock, clock})
		}
		bodies := make([]func(), len(fs.threads))
		for ti, ops := range fs.threads {
			ti, ops := ti, ops
			bodies[ti] = func() {
				for _, op := range ops {
					clock++
					call := clock
					res := runFontOp(dir, op)
					clock++
					hist = append(hist, histEvent{ti, op, res, call, clock})
				}
			}
		}
		s.Run(bodies)
		return hist
	}}
}

func histOps(h []histEvent) []porcupine.Operation {
	var ops []porcupine.Operation
	for _, e := range h {
		ops = append(ops, porcupine.Operation{ClientId: e.thread + 1, Input: e.op, Call: e.call, Output: e.res, Return: e.ret})
	}
	return ops
}

func histString(h []histEvent) string {
	var sb strings.Builder
	for _, e := range h {
		fmt.Fprintf(&sb, "[t%d %s(%s) -> %v @%d..%d] ", e.thread, e.op.Kind, e.op.Arg, e.res, e.call, e.ret)
	}
	return sb.String()
}

// ---------- certificate pool scenarios ----------

type certOp struct {
	Kind string // addcert2 | mark | load | invalidate | pool
}

type certRes struct {
	Err      string
	Subjects string
}

func runC40(r *core.R) {
	api.DisableConfigDir()
	if err := c40Gobs(); err != nil {
		r.HarnessError("font fixtures: %v", err)
		return
	}
	base := core.Scratch("c40")
	defer os.RemoveAll(base)
	bound := 2
	if !r.Quick() {
		bound = 3
	}
	r.Note("preemption_bound", bound)
	seq := 0
	total := 0
	for _, fs := range c40FontScenarios() {
		sc := fs.scenario(base, &seq)
		// run-alone results for lookup-only scenarios
		alone := map[string]fontRes{}
		if fs.alone {
			for ti, ops := range fs.threads {
				one := fontScenario{fs.name, fs.initial, fs.preloaded, [][]fontOp{ops}, true}
				x := (&sched.Explorer{}).Replay(one.scenario(base, &seq), nil)
				for _, e := range x.Obs.([]histEvent) {
					if e.thread == 0 {
						alone[fmt.Sprint(ti, e.op)] = e.res
					}
				}
			}
		}
		outcomes := map[string]bool{}
		var firstSchedule []int
		var firstObs string
		ex := &sched.Explorer{Bound: bound}
		ex.OnExec = func(x *sched.Exec) bool {
			r.Eval(1)
			pre := 0
			for k := range x.Choices {
				if x.Running[k] >= 0 && x.Enabled[k][0] == x.Running[k] && x.Choices[k] != 0 {
					pre++
				}
			}
			if pre > 0 {
				r.Nontrivial(1)
			}
			h := x.Obs.([]histEvent)
			hs := histString(h)
			outcomes[resultsOnly(h)] = true
			if firstSchedule == nil {
				firstSchedule, firstObs = append([]int{}, x.Choices...), hs
			}
			rep := func() any {
				return map[string]any{"scenario": fs.name, "schedule": x.Choices, "trace": x.Trace, "history": hs}
			}
			switch {
			case x.Deadlock:
				r.Violation("deadlock:"+fs.name, fmt.Sprintf("%s: deadlock: %s", fs.name, x.Trace[len(x.Trace)-1]), rep())
			case x.Livelock:
				r.Violation("livelock:"+fs.name, fmt.Sprintf("%s: horizon of scheduling points reached", fs.name), rep())
			case len(x.Panics) > 0:
				r.Violation("panic:"+fs.name, fmt.Sprintf("%s: %s", fs.name, trimTo(x.Panics[0], 300)), rep())
			default:
				res := porcupine.CheckOperationsTimeout(fontModel, histOps(h), 10*time.Second)
				if res == porcupine.Illegal {
					r.Violation("not-linearizable:"+fs.name, fmt.Sprintf("%s: history is not linearizable against the sequential registry model: %s (schedule %v)", fs.name, trimTo(hs, 600), x.Choices), rep())
				} else if res == porcupine.Unknown {
					r.Count("linearizability_checks_timed_out", 1)
				}
				if fs.alone {
					for _, e := range h {
						if e.thread >= 0 && alone[fmt.Sprint(e.thread, e.op)] != e.res {
							r.Violation("differs-from-run-alone:"+fs.name, fmt.Sprintf("%s: t%d %s(%s) returned %v, alone it returns %v (schedule %v)", fs.name, e.thread, e.op.Kind, e.op.Arg, e.res, alone[fmt.Sprint(e.thread, e.op)], x.Choices), rep())
						}
					}
				}
			}
			return !r.Expired()
		}
		ex.Explore(sc)
		if ex.Divergence != "" {
			r.HarnessError("%s: %s", fs.name, ex.Divergence)
		}
		// determinism of replay
		if firstSchedule != nil {
			x2 := ex.Replay(sc, firstSchedule)
			if hs := histString(x2.Obs.([]histEvent)); hs != firstObs {
				r.HarnessError("%s: replaying schedule %v gave different observations", fs.name, firstSchedule)
			}
		}
		total += ex.Execs
		r.Note("schedules:"+fs.name, fmt.Sprintf("%d executions, %d scheduling points, longest %d, %d distinct outcomes", ex.Execs, ex.Points, ex.MaxDepth, len(outcomes)))
		if r.Expired() {
			r.Cut("deadline during " + fs.name)
			break
		}
		r.Sample(map[string]any{"scenario": fs.name, "first_schedule_history": firstObs, "distinct_outcomes": len(outcomes)})
	}
	runC40Certs(r, base, bound)
	runC40RacePass(r, base)
	_ = pdfcpu.LoadCertificates
	_ = model.TrustedCertDir
}

func resultsOnly(h []histEvent) string {
	var parts []string
	for _, e := range h {
		if e.thread >= 0 {
			parts = append(parts, fmt.Sprintf("t%d.%s(%s)=%v", e.thread, e.op.Kind, e.op.Arg, e.res))
		}
	}
	sort.Strings(parts)
	return strings.Join(parts, " ")
}

// runC40RacePass: supporting pass. The racepass binary (built with -race by bin/build) runs whole-API
// bodies free on independent inputs; data races and differences from the run-alone results are violations.
func runC40RacePass(r *core.R, base string) {
	bin := filepath.Join(core.VerifDir(), ".work", "bin", "racepass")
	if _, err := os.Stat(bin); err != nil {
		r.HarnessError("racepass binary missing: %v", err)
		return
	}
	type cfg struct{ g, rounds, mp int }
	cfgs := []cfg{{8, 2, 8}, {2, 3, 1}}
	if !r.Quick() {
		cfgs = []cfg{{2, 4, 1}, {2, 4, 16}, {8, 3, 4}, {8, 3, 16}, {32, 2, 4}, {32, 2, 16}}
	}
	for _, c := range cfgs {
		if r.Expired() {
			r.Cut("deadline before race pass")
			return
		}
		dir := filepath.Join(base, fmt.Sprintf("race-%d-%d", c.g, c.mp))
		os.MkdirAll(dir, 0o755)
		cmd := exec.Command(bin, dir, fmt.Sprint(c.g), fmt.Sprint(c.rounds), fmt.Sprint(c.mp))
		cmd.Env = append(os.Environ(), "GORACE=halt_on_error=0 exitcode=0 log_path="+filepath.Join(dir, "race"))
		out, err := cmd.CombinedOutput()
		r.Eval(1)
		name := fmt.Sprintf("goroutines=%d,gomaxprocs=%d,rounds=%d", c.g, c.mp, c.rounds)
		if err != nil {
			if strings.Contains(string(out), "fatal error: concurrent map") || strings.Contains(string(out), "WARNING: DATA RACE") {
				r.Violation("crash-under-concurrency", fmt.Sprintf("race pass %s: the process died: %s", name, trimTo(string(out), 600)), map[string]any{"config": name})
			} else {
				r.HarnessError("race pass %s: %v: %s", name, err, trimTo(string(out), 400))
			}
			continue
		}
		var res struct {
			BodyRuns  int               `json:"body_runs"`
			Reference map[string]string `json:"reference"`
			Diffs     []struct {
				Body, Alone, Concurrent string
			} `json:"diffs"`
		}
		b, _ := os.ReadFile(filepath.Join(dir, "result.json"))
		if json.Unmarshal(b, &res) != nil || res.BodyRuns == 0 {
			r.HarnessError("race pass %s: no result: %s", name, trimTo(string(out), 300))
			continue
		}
		for n, v := range res.Reference {
			if strings.HasPrefix(v, "error") || strings.HasPrefix(v, "unreadable") {
				r.HarnessError("race pass body %q fails when run alone: %s", n, v)
			}
		}
		r.Count("race_pass_body_runs", int64(res.BodyRuns))
		for _, d := range res.Diffs {
			r.Violation("concurrent-result-differs:"+d.Body, fmt.Sprintf("race pass %s: body %q returned %q concurrently but %q when run alone", name, d.Body, d.Concurrent, d.Alone), map[string]any{"config": name, "body": d.Body})
		}
		logs, _ := filepath.Glob(filepath.Join(dir, "race.*"))
		for _, lf := range logs {
			lb, _ := os.ReadFile(lf)
			for _, rep := range strings.Split(string(lb), "==================") {
				if !strings.Contains(rep, "WARNING: DATA RACE") {
					continue
				}
				// key: first pdfcpu frame of the report
				key := "unknown"
				for _, ln := range strings.Split(rep, "\n") {
					ln = strings.TrimSpace(ln)
					if strings.HasPrefix(ln, "github.com/pdfcpu/pdfcpu/") && !strings.Contains(ln, "/vx/") {
						key = strings.SplitN(strings.TrimPrefix(ln, "github.com/pdfcpu/pdfcpu/"), "(", 2)[0]
						break
					}
				}
				r.Violation("data-race:"+key, fmt.Sprintf("race pass %s: the Go race detector reports a data race at %s: %s", name, key, trimTo(rep, 900)), map[string]any{"config": name})
			}
		}
		r.SetAdd("race_pass_configurations", name)
	}
}
