package props

import (
	"fmt"
	"os"
	"path/filepath"
	"strings"
	"time"

	"github.com/pdfcpu/pdfcpu/pkg/api"
	vrand "github.com/pdfcpu/pdfcpu/vx/vrand"
	vtime "github.com/pdfcpu/pdfcpu/vx/vtime"
	"verif/mc/core"
	"verif/mc/fsx"
)

// C03: successful operations publish exactly and only the result; aliased outputs are safe.
func init() {
	core.Register(&core.Check{
		ID:    "C03",
		Level: "exploration",
		Rule: "every single-output / create driver x relation of the output path to the input: new; existing with mode 0600/0640/0444; same string; ./in.pdf vs in.pdf; relative vs absolute; symlink to the input; hard link to the input; symlink to another existing file; input itself a symlink (in place); full product, no faults; " +
			"non-trivial = a case where the destination existed before the call or names the same file as the input",
		Assume: []string{"output bytes are compared with the output of the plain new-output run of the same operation under a pinned clock and random stream; when they differ (map-order effects) the comparison falls back to validation + page count"},
		Run:      func(r *core.R) { core.Sharded(r, core.Workers()) },
		RunShard: c03shard,
	})
}

type c03rel struct {
	name  string
	kinds string // which driver kinds: s=single, c=create
	// setup prepares the directory (in.pdf already written) and returns in, out as passed to the API,
	// the relative name whose content is the published result, and whether out aliases the input.
	setup func(dir string) (in, out, dest string, alias bool)
}

func c03rels() []c03rel {
	ex := func(mode os.FileMode) func(dir string) (string, string, string, bool) {
		return func(dir string) (string, string, string, bool) {
			out := filepath.Join(dir, "out.pdf")
			os.WriteFile(out, GetFixtures().Files["existing.pdf"], mode)
			os.Chmod(out, mode)
			return filepath.Join(dir, "in.pdf"), out, "out.pdf", false
		}
	}
	return []c03rel{
		{"new", "sc", func(dir string) (string, string, string, bool) {
			return filepath.Join(dir, "in.pdf"), filepath.Join(dir, "out.pdf"), "out.pdf", false
		}},
		{"existing-0600", "sc", ex(0o600)},
		{"existing-0640", "sc", ex(0o640)},
		{"existing-0444", "sc", ex(0o444)},
		{"inplace", "s", func(dir string) (string, string, string, bool) {
			return filepath.Join(dir, "in.pdf"), "", "in.pdf", true
		}},
		{"same-string", "s", func(dir string) (string, string, string, bool) {
			return filepath.Join(dir, "in.pdf"), filepath.Join(dir, "in.pdf"), "in.pdf", true
		}},
		{"dot-slash", "s", func(dir string) (string, string, string, bool) { return "in.pdf", "./in.pdf", "in.pdf", true }},
		{"rel-vs-abs", "s", func(dir string) (string, string, string, bool) {
			return "in.pdf", filepath.Join(dir, "in.pdf"), "in.pdf", true
		}},
		{"out-symlink-to-input", "s", func(dir string) (string, string, string, bool) {
			os.Symlink("in.pdf", filepath.Join(dir, "out.pdf"))
			return filepath.Join(dir, "in.pdf"), filepath.Join(dir, "out.pdf"), "out.pdf", true
		}},
		{"out-hardlink-to-input", "s", func(dir string) (string, string, string, bool) {
			os.Link(filepath.Join(dir, "in.pdf"), filepath.Join(dir, "out.pdf"))
			return filepath.Join(dir, "in.pdf"), filepath.Join(dir, "out.pdf"), "out.pdf", true
		}},
		{"out-symlink-to-other-0640", "sc", func(dir string) (string, string, string, bool) {
			os.WriteFile(filepath.Join(dir, "target.pdf"), GetFixtures().Files["existing.pdf"], 0o640)
			os.Chmod(filepath.Join(dir, "target.pdf"), 0o640)
			os.Symlink("target.pdf", filepath.Join(dir, "out.pdf"))
			return filepath.Join(dir, "in.pdf"), filepath.Join(dir, "out.pdf"), "out.pdf", false
		}},
		{"input-is-symlink-inplace", "s", func(dir string) (string, string, string, bool) {
			os.Rename(filepath.Join(dir, "in.pdf"), filepath.Join(dir, "real.pdf"))
			os.Chmod(filepath.Join(dir, "real.pdf"), 0o640)
			os.Symlink("real.pdf", filepath.Join(dir, "in.pdf"))
			return filepath.Join(dir, "in.pdf"), "", "in.pdf", true
		}},
	}
}

func statPerm(p string) (os.FileMode, bool) {
	fi, err := os.Stat(p)
	if err != nil {
		return 0, false
	}
	return fi.Mode().Perm(), true
}

func c03shard(r *core.R, shard, n int) {
	base := core.Scratch("c03")
	defer os.RemoveAll(base)
	cwd, _ := os.Getwd()
	defer os.Chdir(cwd)
	ds := fsDrivers()
	rels := c03rels()
	idx := 0
	for di := range ds {
		d := &ds[di]
		if d.Kind == "multi" || strings.HasSuffix(d.Name, "(incr)") {
			continue
		}
		idx++
		if idx%n != shard {
			continue
		}
		var refOut []byte // output of the plain "new" run
		refPages := -1
		for _, rel := range rels {
			k := "s"
			if d.Kind == "create" {
				k = "c"
			}
			if !strings.Contains(rel.kinds, k) {
				continue
			}
			dir := filepath.Join(base, "w")
			os.RemoveAll(dir)
			os.MkdirAll(dir, 0o755)
			fx := GetFixtures()
			os.WriteFile(filepath.Join(dir, "in.pdf"), fx.Files[d.Fixture], 0o644)
			fx.WriteTo(dir, d.Extra...)
			os.Chdir(dir)
			in, out, dest, alias := rel.setup(dir)
			destAbs := filepath.Join(dir, dest)
			permBefore, existed := statPerm(destAbs)
			oldIn, _ := os.ReadFile(filepath.Join(dir, "in.pdf"))
			t0 := fsx.Snap(dir)
			vtime.Pinned = time.Date(2024, 5, 6, 7, 8, 9, 0, time.UTC)
			vrand.Pin(42)
			var err error
			pv, _ := core.Try(func() { err = d.Run(dir, in, out) })
			vtime.Pinned = time.Time{}
			vrand.Unpin()
			t1 := fsx.Snap(dir)
			r.Eval(1)
			if existed || alias {
				r.Nontrivial(1)
			}
			cs := map[string]any{"driver": d.Name, "relation": rel.name}
			site := d.Name + "/" + rel.name
			r.SetAdd("relations", rel.name)
			if pv != nil {
				r.Violation(site+"/panic", fmt.Sprintf("%s panicked: %v", site, pv), cs)
				continue
			}
			if err != nil {
				r.Count("refused", 1)
				r.SetAdd("refusals", rel.name)
				// a clean refusal: nothing may have changed
				if df := fsx.Diff(t0, t1); len(df) > 0 {
					r.Violation(site+"/refusal-changed-files", fmt.Sprintf("%s refused (%v) but changed: %v", site, err, df), cs)
				}
				if !alias {
					r.Violation(site+"/valid-call-failed", fmt.Sprintf("%s failed on a non-aliased valid call: %v", site, err), cs)
				}
				continue
			}
			r.Count("succeeded", 1)
			// no staging names, no unexpected new names
			for name := range t1 {
				if _, was := t0[name]; !was && name != dest {
					r.Violation(site+"/unexpected-new-file:"+c01canonName(name), fmt.Sprintf("%s succeeded and left %s", site, name), cs)
				}
			}
			// destination holds the complete output
			nb, rerr := os.ReadFile(destAbs)
			if rerr != nil || len(nb) == 0 {
				r.Violation(site+"/no-output", fmt.Sprintf("%s succeeded but %s is unreadable/empty: %v", site, dest, rerr), cs)
				continue
			}
			isPDF := strings.HasPrefix(string(nb), "%PDF-")
			pages := -1
			if isPDF {
				if verr := api.ValidateFile(destAbs, newConf()); verr != nil && !strings.Contains(d.Name, "Encrypt") && !strings.Contains(d.Name, "Password") && !strings.Contains(d.Name, "Permissions") {
					r.Violation(site+"/output-invalid", fmt.Sprintf("%s: output does not validate: %v", site, verr), cs)
				}
				if pc, perr := api.PageCountFile(destAbs); perr == nil {
					pages = pc
				}
			}
			if rel.name == "new" {
				refOut, refPages = nb, pages
			} else if refOut != nil {
				if string(nb) == string(refOut) {
					r.Count("byte_equal_to_plain_run", 1)
				} else if (d.Name == "api.MergeAppendFile" || d.Name == "api.ImportImagesFile") && existed {
					// appending to an existing destination legitimately differs from creating it
				} else if isPDF && pages == refPages && absDiff(len(nb), len(refOut)) <= 64 {
					r.Count("equivalent_to_plain_run", 1)
				} else if alias && len(oldIn) > 0 && pages != refPages {
					r.Violation(site+"/aliased-output-differs", fmt.Sprintf("%s: output (%d bytes, %d pages) differs from the non-aliased run (%d bytes, %d pages): the input may have been damaged while being read", site, len(nb), pages, len(refOut), refPages), cs)
				} else if !alias {
					r.Violation(site+"/output-differs-from-plain-run", fmt.Sprintf("%s: output (%d bytes, %d pages) differs from the new-output run (%d bytes, %d pages)", site, len(nb), pages, len(refOut), refPages), cs)
				}
			}
			// permission bits of an existing destination are kept
			if existed {
				if pa, ok := statPerm(destAbs); !ok || pa != permBefore {
					r.Violation(site+"/permission-bits-changed", fmt.Sprintf("%s: destination permission bits %v -> %v", site, permBefore, pa), cs)
				}
			}
			// a distinctly named input is unchanged; every path naming the input holds old or new complete bytes
			for name, e0 := range t0 {
				e1, ok := t1[name]
				if name == dest {
					continue
				}
				if !ok {
					r.Violation(site+"/file-removed:"+name, fmt.Sprintf("%s removed %s", site, name), cs)
					continue
				}
				if e0.Sum != e1.Sum || e0.Link != e1.Link {
					if (name == "in.pdf" || name == "real.pdf" || name == "target.pdf") && alias {
						// written through a link: must be the complete new output
						b, _ := os.ReadFile(filepath.Join(dir, name))
						if string(b) == string(nb) {
							continue
						}
					}
					r.Violation(site+"/other-file-changed:"+name, fmt.Sprintf("%s changed %s", site, name), cs)
				} else if e0.Mode != e1.Mode {
					r.Violation(site+"/other-file-mode-changed:"+name, fmt.Sprintf("%s changed mode of %s %v->%v", site, name, e0.Mode, e1.Mode), cs)
				}
			}
			if idx%9 == 0 && rel.name == "out-hardlink-to-input" {
				r.Sample(cs)
			}
		}
	}
	r.Sample(map[string]any{"driver": "api.OptimizeFile", "relation": "out-symlink-to-other-0640"})
}

func absDiff(a, b int) int {
	if a > b {
		return a - b
	}
	return b - a
}
