package props

import (
	"bytes"
	"compress/zlib"
	"errors"
	"fmt"
	"io"
	"runtime"
	"runtime/debug"
	"strings"

	"github.com/pdfcpu/pdfcpu/pkg/api"
	"github.com/pdfcpu/pdfcpu/pkg/filter"
	"github.com/pdfcpu/pdfcpu/pkg/pdfcpu/types"
	"verif/mc/core"
)

// C09: configured resource limits bound what an input can make pdfcpu allocate.
func init() {
	core.Register(&core.Check{
		ID:    "C09",
		Level: "exploration",
		Rule: "three layers, full product in each. (1) filter layer: filter {Flate, LZW, RunLength, ASCIIHex, ASCII85} x data shape (zeros; RunLength run structures with 0-3 leading literals and repeat runs of 2/127/128 that straddle the limit) x decode limit L {1000, 1024, 4096, 65536} x true decoded size {L-1, L, L+1, L+127, 2L, 16L, 1024L}: at or below L the exact data comes back, above L an error matching ErrDecodeLimitExceeded, and the bytes allocated by the call stay within 64 x (L + encoded size) + 1 MiB; (2) stream layer: the same through StreamDict.DecodeLengthWithLimit for every two-stage pipeline of those filters and Flate with PNG predictors, intermediate and final sizes each around L; (3) document layer: documents carrying a bomb in one stream role {page content, form XObject, image, object stream, xref stream, metadata, embedded file, font file} or an oversized /Size, /Index, /N, /First, nesting depth, each x configured limits {tiny, default} x entry point {read, validate, optimize, extract content/images/metadata/attachments}: no stream in the resulting context holds more decoded bytes than MaxDecodeBytes or more raw bytes than MaxStreamBytes, beyond-limit inputs fail with a limit error, allocation stays within 64 x (limits in play + input size) + 8 MiB; " +
			"non-trivial = a case whose true size exceeds the limit in play",
		Assume: []string{"allocation is measured as the TotalAlloc delta of the calling goroutine's process with the garbage collector disabled during the call: an upper bound on the peak, single-threaded execution of the check"},
		Run:    runC09,
	})
}

func rlEncodeRuns(lits int, run int, total int) (enc []byte, dec []byte) {
	// lits leading literal bytes, then repeat runs of length run until total bytes are produced
	var e, d bytes.Buffer
	if lits > 0 {
		e.WriteByte(byte(lits - 1))
		for i := 0; i < lits && d.Len() < total; i++ {
			e.WriteByte(byte('a' + i))
			d.WriteByte(byte('a' + i))
		}
	}
	for d.Len() < total {
		n := run
		if total-d.Len() < n {
			n = total - d.Len()
		}
		if n == 1 {
			e.WriteByte(0)
			e.WriteByte(' ')
		} else {
			e.WriteByte(byte(257 - n))
			e.WriteByte(' ')
		}
		for i := 0; i < n; i++ {
			d.WriteByte(' ')
		}
	}
	e.WriteByte(0x80)
	return e.Bytes(), d.Bytes()
}

func flateEnc(b []byte) []byte {
	var w bytes.Buffer
	zw, _ := zlib.NewWriterLevel(&w, zlib.BestSpeed)
	zw.Write(b)
	zw.Close()
	return w.Bytes()
}

func hexEnc(b []byte) []byte {
	const hx = "0123456789abcdef"
	out := make([]byte, 0, 2*len(b)+1)
	for _, c := range b {
		out = append(out, hx[c>>4], hx[c&15])
	}
	return append(out, '>')
}

func a85Zeros(n int) []byte {
	// n must be a multiple of 4: 'z' encodes four zero bytes
	return append(bytes.Repeat([]byte{'z'}, n/4), '~', '>')
}

func pdfcpuEncode(name string, b []byte) ([]byte, error) {
	f, err := filter.NewFilter(name, nil)
	if err != nil {
		return nil, err
	}
	r, err := f.Encode(bytes.NewReader(b))
	if err != nil {
		return nil, err
	}
	return io.ReadAll(r)
}

// measured runs f with the collector off and returns the bytes allocated meanwhile.
func measured(f func()) uint64 {
	old := debug.SetGCPercent(-1)
	var m0, m1 runtime.MemStats
	runtime.ReadMemStats(&m0)
	f()
	runtime.ReadMemStats(&m1)
	debug.SetGCPercent(old)
	return m1.TotalAlloc - m0.TotalAlloc
}

type c09Enc struct {
	filter string
	shape  string
	enc    []byte
	dec    []byte // nil when the decoded data is all zero bytes of length n
	n      int
	zero   byte
}

func c09Encodings(n int) []c09Enc {
	var out []c09Enc
	zeros := make([]byte, n)
	out = append(out, c09Enc{filter.Flate, "zeros", flateEnc(zeros), nil, n, 0})
	if lz, err := pdfcpuEncode(filter.LZW, zeros); err == nil {
		out = append(out, c09Enc{filter.LZW, "zeros", lz, nil, n, 0})
	}
	if n <= 1<<20 {
		out = append(out, c09Enc{filter.ASCIIHex, "zeros", hexEnc(zeros), nil, n, 0})
	}
	if n%4 == 0 {
		out = append(out, c09Enc{filter.ASCII85, "z groups", a85Zeros(n), nil, n, 0})
	}
	for _, lits := range []int{0, 1, 3} {
		for _, run := range []int{2, 127, 128} {
			e, d := rlEncodeRuns(lits, run, n)
			out = append(out, c09Enc{filter.RunLength, fmt.Sprintf("%d literals then runs of %d", lits, run), e, d, n, ' '})
		}
	}
	return out
}

func c09Sizes(L int, quick bool) []int {
	s := []int{L - 1, L, L + 1, L + 127, 2 * L, 16 * L}
	if !quick || L <= 4096 {
		s = append(s, 1024*L)
	}
	return s
}

func runC09(r *core.R) {
	api.DisableConfigDir()
	limits := []int{1000, 1024, 4096, 65536}
	// ---- layer 1: filters
	for _, L := range limits {
		for _, n := range c09Sizes(L, r.Quick()) {
			for _, e := range c09Encodings(n) {
				if r.Expired() {
					r.Cut("deadline in layer 1")
					return
				}
				r.Eval(1)
				if n > L {
					r.Nontrivial(1)
				}
				var got []byte
				var err error
				alloc := measured(func() {
					f, ferr := filter.NewFilter(e.filter, nil, int64(L))
					if ferr != nil {
						err = ferr
						return
					}
					var rd io.Reader
					rd, err = f.Decode(bytes.NewReader(e.enc))
					if err == nil && rd != nil {
						got, err = io.ReadAll(rd)
					}
				})
				rep := map[string]any{"layer": "filter", "filter": e.filter, "shape": e.shape, "limit": L, "decoded_size": n}
				if n == L+1 && L == 4096 {
					r.Sample(map[string]any{"layer": "filter", "filter": e.filter, "shape": e.shape, "limit": L, "decoded_size": n, "encoded_size": len(e.enc), "error": fmt.Sprint(err), "allocated": alloc})
				}
				key := fmt.Sprintf("%s:%s", e.filter, e.shape)
				c09Judge(r, "filter:"+key, fmt.Sprintf("filter %s (%s), limit %d, true decoded size %d", e.filter, e.shape, L, n), rep, L, n, len(e.enc), got, err, alloc, e)
			}
		}
	}
	// ---- layer 2: pipelines through StreamDict
	c09Pipelines(r, limits)
	// ---- layer 3: documents
	c09Documents(r)
}

func c09Judge(r *core.R, key, what string, rep any, L, n, encLen int, got []byte, err error, alloc uint64, e c09Enc) {
	bound := uint64(64*(L+encLen) + 1<<20)
	if n <= L {
		switch {
		case err != nil:
			r.Violation("within-limit-rejected:"+key, fmt.Sprintf("%s: rejected although within the limit: %v", what, err), rep)
		case len(got) != n:
			r.Violation("wrong-length:"+key, fmt.Sprintf("%s: decoded %d bytes", what, len(got)), rep)
		default:
			if e.dec != nil && !bytes.Equal(got, e.dec) {
				r.Violation("wrong-data:"+key, what+": decoded data differs", rep)
			}
		}
		return
	}
	switch {
	case err == nil:
		r.Violation("limit-ignored:"+key, fmt.Sprintf("%s: no error, %d bytes were materialized", what, len(got)), rep)
	case !errors.Is(err, filter.ErrDecodeLimitExceeded):
		r.Violation("not-a-limit-error:"+key, fmt.Sprintf("%s: failed with %q, which does not match ErrDecodeLimitExceeded", what, trimTo(err.Error(), 160)), rep)
	}
	if alloc > bound {
		r.Violation("allocation-unbounded:"+key, fmt.Sprintf("%s: the call allocated %d bytes (bound %d = 64 x (limit + encoded %d) + 1 MiB)", what, alloc, bound, encLen), rep)
	}
}

// ---------- layer 2 ----------

func c09Stage(name string, b []byte) ([]byte, bool) {
	switch name {
	case filter.Flate:
		return flateEnc(b), true
	case filter.ASCIIHex:
		return hexEnc(b), true
	case filter.RunLength:
		// generic encoder: literal runs of up to 128 (no compression) unless all bytes equal
		allSame := len(b) > 0
		for _, c := range b {
			if c != b[0] {
				allSame = false
				break
			}
		}
		var e bytes.Buffer
		if allSame {
			for i := 0; i < len(b); {
				n := 128
				if len(b)-i < n {
					n = len(b) - i
				}
				if n == 1 {
					e.WriteByte(0)
				} else {
					e.WriteByte(byte(257 - n))
				}
				e.WriteByte(b[0])
				i += n
			}
		} else {
			for i := 0; i < len(b); {
				n := 128
				if len(b)-i < n {
					n = len(b) - i
				}
				e.WriteByte(byte(n - 1))
				e.Write(b[i : i+n])
				i += n
			}
		}
		e.WriteByte(0x80)
		return e.Bytes(), true
	case filter.LZW, filter.ASCII85:
		out, err := pdfcpuEncode(name, b)
		return out, err == nil
	}
	return nil, false
}

func c09Pipelines(r *core.R, limits []int) {
	stages := []string{filter.Flate, filter.LZW, filter.RunLength, filter.ASCIIHex, filter.ASCII85}
	for _, L := range limits[:3] {
		sizes := []int{L - 1, L, L + 1, 16 * L}
		if !r.Quick() {
			sizes = append(sizes, 256*L)
		}
		for _, first := range stages { // outermost filter (applied first when decoding)
			for _, second := range stages {
				for _, n := range sizes {
					if r.Expired() {
						r.Cut("deadline in layer 2")
						return
					}
					data := bytes.Repeat([]byte{' '}, n)
					mid, ok1 := c09Stage(second, data)
					raw, ok2 := c09Stage(first, mid)
					if !ok1 || !ok2 {
						continue
					}
					trueMax := n
					if len(mid) > trueMax {
						trueMax = len(mid)
					}
					r.Eval(1)
					if trueMax > L {
						r.Nontrivial(1)
					}
					sd := types.NewStreamDict(types.NewDict(), 0, nil, nil, []types.PDFFilter{{Name: first}, {Name: second}})
					sd.Raw = raw
					var err error
					alloc := measured(func() { err = sd.DecodeWithLimit(int64(L)) })
					rep := map[string]any{"layer": "stream", "pipeline": []string{first, second}, "limit": L, "intermediate_size": len(mid), "decoded_size": n}
					what := fmt.Sprintf("pipeline [%s %s], limit %d, intermediate %d bytes, final %d bytes", first, second, L, len(mid), n)
					key := "pipeline:" + first + "+" + second
					if trueMax <= L {
						if err != nil {
							r.Violation("within-limit-rejected:"+key, fmt.Sprintf("%s: rejected although every stage is within the limit: %v", what, err), rep)
						} else if !bytes.Equal(sd.Content, data) {
							r.Violation("wrong-data:"+key, what+": decoded data differs", rep)
						}
						continue
					}
					switch {
					case err == nil:
						r.Violation("limit-ignored:"+key, fmt.Sprintf("%s: no error, %d bytes materialized", what, len(sd.Content)), rep)
					case !errors.Is(err, filter.ErrDecodeLimitExceeded):
						r.Violation("not-a-limit-error:"+key, fmt.Sprintf("%s: failed with %q", what, trimTo(err.Error(), 160)), rep)
					}
					if bound := uint64(64*(L+len(raw)+min(len(mid), L)) + 1<<20); alloc > bound {
						r.Violation("allocation-unbounded:"+key, fmt.Sprintf("%s: allocated %d bytes (bound %d)", what, alloc, bound), rep)
					}
				}
			}
		}
		// predictors: Flate / LZW with PNG Up predictor, rows of C columns
		for _, fname := range []string{filter.Flate} { // pdfcpu does not support predictors with LZW
			for _, cols := range []int{1, 5, L / 2, L + 1} {
				for _, n := range []int{L - 1, L, L + 1, 16 * L, 1024 * L, 16384 * L} {
					if n > 64<<20 {
						continue // 1024 x 64 KiB is the largest bomb built
					}
					rows := n / cols
					if rows == 0 {
						continue
					}
					total := rows * cols
					var pre bytes.Buffer
					for i := 0; i < rows; i++ {
						pre.WriteByte(2) // PNG Up
						pre.Write(make([]byte, cols))
					}
					raw, ok := c09Stage(fname, pre.Bytes())
					if !ok {
						continue
					}
					r.Eval(1)
					if total > L {
						r.Nontrivial(1)
					}
					parms := types.Dict{"Predictor": types.Integer(12), "Columns": types.Integer(cols)}
					sd := types.NewStreamDict(types.NewDict(), 0, nil, nil, []types.PDFFilter{{Name: fname, DecodeParms: parms}})
					sd.Raw = raw
					var err error
					alloc := measured(func() { err = sd.DecodeWithLimit(int64(L)) })
					rep := map[string]any{"layer": "stream", "filter": fname, "predictor": 12, "columns": cols, "limit": L, "decoded_size": total}
					what := fmt.Sprintf("%s with PNG predictor, %d columns x %d rows = %d bytes, limit %d", fname, cols, rows, total, L)
					key := "predictor:" + fname
					if total <= L && pre.Len() <= L {
						if err != nil {
							r.Violation("within-limit-rejected:"+key, fmt.Sprintf("%s: %v", what, err), rep)
						} else if len(sd.Content) != total {
							r.Violation("wrong-length:"+key, fmt.Sprintf("%s: decoded %d bytes", what, len(sd.Content)), rep)
						}
						continue
					}
					if total > L {
						if err == nil {
							r.Violation("limit-ignored:"+key, fmt.Sprintf("%s: no error, %d bytes materialized", what, len(sd.Content)), rep)
						} else if !errors.Is(err, filter.ErrDecodeLimitExceeded) {
							r.Violation("not-a-limit-error:"+key, fmt.Sprintf("%s: failed with %q", what, trimTo(err.Error(), 160)), rep)
						}
						if bound := uint64(64*(L+len(raw)) + 1<<20); alloc > bound {
							r.Violation("allocation-unbounded:"+key, fmt.Sprintf("%s: allocated %d bytes (bound %d)", what, alloc, bound), rep)
						}
					}
				}
			}
		}
	}
	_ = strings.TrimSpace
}
