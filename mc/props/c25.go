package props

import (
	"bytes"
	"errors"
	"fmt"
	"strings"

	"github.com/pdfcpu/pdfcpu/pkg/api"
	"github.com/pdfcpu/pdfcpu/pkg/pdfcpu"
	"github.com/pdfcpu/pdfcpu/pkg/pdfcpu/model"
	"verif/mc/core"
	"verif/mc/docgen"
	"verif/mc/pdfx"
)

// C25: wrong passwords are rejected and password changes take effect.
func init() {
	core.Register(&core.Check{
		ID:    "C25",
		Level: "model_checking",
		Rule: "explicit-state search over real encrypted document bytes; model state = (algorithm, user password, owner password, permission word); initial states: 4 algorithms x user in {empty, a, b} x owner in {a, b} (quick: 3 pairs); 29 labelled transitions: change user password (new in {empty,a,b,c} x current-owner slot right/wrong x old-user slot right/wrong), change owner password (new in {a,b,c} x old-owner right/wrong, user slot right), set permissions (2 words x owner right/wrong); breadth-first to depth 2 (quick) / 3 (thorough), deduplicated on the model state; after every transition the accepted set is probed by opening with every (user-slot, owner-slot) pair over {empty,a,b,c}: must open when a slot holds its password, must fail with the wrong-password error and yield no document when neither slot holds either current password; changes must fail when the owner password is wrong and must take effect when both current passwords are right; a failed operation writes nothing; " +
			"non-trivial = a transition from a non-initial state or one that changes a password",
		Assume: []string{"crossed slots (owner password in the user slot and vice versa) are not judged (RC4/AES-128 accept, AES-256 does not; the statement is silent)", "pdfcpu also demands the current user password for changes; 'owner right, user wrong' is therefore not judged"},
		Run:    runC25,
	})
}

type pwModel struct {
	alg  calg
	u, o string
	perm int
}

func (m pwModel) key() string { return fmt.Sprintf("%s|u=%q|o=%q|p=%#x", m.alg.name, m.u, m.o, m.perm) }

type pwOp struct {
	name string
	// apply returns output bytes and error
	apply func(doc []byte, m pwModel) ([]byte, error)
	// expect: 1 = must succeed with the new model, 0 = must fail, -1 = not judged
	expect func(m pwModel) (pwModel, int)
}

func wrongOf(p string) string {
	if p == "x" {
		return "y"
	}
	return "x"
}

func c25ops() []pwOp {
	var ops []pwOp
	for _, nw := range []string{"", "a", "b", "c"} {
		for _, ownerRight := range []bool{true, false} {
			for _, oldRight := range []bool{true, false} {
				nw, ownerRight, oldRight := nw, ownerRight, oldRight
				ops = append(ops, pwOp{
					name: fmt.Sprintf("changeUser(new=%q,owner-right=%v,old-right=%v)", nw, ownerRight, oldRight),
					apply: func(doc []byte, m pwModel) ([]byte, error) {
						old, ow := m.u, m.o
						if !oldRight {
							old = wrongOf(m.u)
						}
						if !ownerRight {
							ow = wrongOf(m.o)
						}
						c := newConf()
						c.OwnerPW = ow
						var out bytes.Buffer
						err := api.ChangeUserPassword(bytes.NewReader(doc), &out, old, nw, c)
						return out.Bytes(), err
					},
					expect: func(m pwModel) (pwModel, int) {
						if !ownerRight {
							return m, 0
						}
						if !oldRight {
							return m, -1
						}
						n := m
						n.u = nw
						return n, 1
					},
				})
			}
		}
	}
	for _, nw := range []string{"a", "b", "c"} {
		nw := nw
		// right owner password, wrong user password: not judged whether it is accepted, but if it is,
		// the user password must be unaffected (pwModelAfter is probed)
		ops = append(ops, pwOp{
			name: fmt.Sprintf("changeOwner(new=%q,old-right=true,user-slot-wrong)", nw),
			apply: func(doc []byte, m pwModel) ([]byte, error) {
				c := newConf()
				c.UserPW = wrongOf(m.u)
				var out bytes.Buffer
				err := api.ChangeOwnerPassword(bytes.NewReader(doc), &out, m.o, nw, c)
				return out.Bytes(), err
			},
			expect: func(m pwModel) (pwModel, int) {
				n := m
				n.o = nw
				return n, -2
			},
		})
	}
	for _, nw := range []string{"a", "b", "c"} {
		for _, oldRight := range []bool{true, false} {
			nw, oldRight := nw, oldRight
			ops = append(ops, pwOp{
				name: fmt.Sprintf("changeOwner(new=%q,old-right=%v)", nw, oldRight),
				apply: func(doc []byte, m pwModel) ([]byte, error) {
					old := m.o
					if !oldRight {
						old = wrongOf(m.o)
					}
					c := newConf()
					c.UserPW = m.u
					var out bytes.Buffer
					err := api.ChangeOwnerPassword(bytes.NewReader(doc), &out, old, nw, c)
					return out.Bytes(), err
				},
				expect: func(m pwModel) (pwModel, int) {
					if !oldRight {
						return m, 0
					}
					n := m
					n.o = nw
					return n, 1
				},
			})
		}
	}
	for _, p := range []int{0xF0C3, 0xFFFF} {
		for _, ownerRight := range []bool{true, false} {
			p, ownerRight := p, ownerRight
			ops = append(ops, pwOp{
				name: fmt.Sprintf("setPermissions(%#x,owner-right=%v)", p, ownerRight),
				apply: func(doc []byte, m pwModel) ([]byte, error) {
					c := newConf()
					c.UserPW, c.OwnerPW = m.u, m.o
					if !ownerRight {
						c.OwnerPW = wrongOf(m.o)
					}
					c.Permissions = model.PermissionFlags(p)
					var out bytes.Buffer
					err := api.SetPermissions(bytes.NewReader(doc), &out, c)
					return out.Bytes(), err
				},
				expect: func(m pwModel) (pwModel, int) {
					if !ownerRight {
						return m, 0
					}
					n := m
					n.perm = p
					return n, 1
				},
			})
		}
	}
	for _, p := range []int{0xF0C3, 0xFFFF} {
		for _, slot := range []string{"wrong", "empty"} {
			p, slot := p, slot
			// right owner password, wrong or missing user password: not judged whether it is accepted, but if it
			// is, the passwords must be unaffected (the accepted set is probed afterwards)
			ops = append(ops, pwOp{
				name: fmt.Sprintf("setPermissions(%#x,owner-right=true,user-slot-%s)", p, slot),
				apply: func(doc []byte, m pwModel) ([]byte, error) {
					c := newConf()
					c.OwnerPW = m.o
					if slot == "wrong" {
						c.UserPW = wrongOf(m.u)
					}
					c.Permissions = model.PermissionFlags(p)
					var out bytes.Buffer
					err := api.SetPermissions(bytes.NewReader(doc), &out, c)
					return out.Bytes(), err
				},
				expect: func(m pwModel) (pwModel, int) {
					n := m
					n.perm = p
					return n, -2
				},
			})
		}
	}
	return ops
}

// c25probe opens the document with every slot pair and judges the accepted set.
func c25probe(r *core.R, doc []byte, m pwModel, path []string) bool {
	ok := true
	alpha := []string{"", "a", "b", "c"}
	for _, us := range alpha {
		for _, os := range alpha {
			c := newConf()
			c.UserPW, c.OwnerPW = us, os
			var ctx *model.Context
			var err error
			pv, _ := core.Try(func() {
				ctx, err = pdfx.Read(doc, c)
				if err == nil {
					_, err = pdfx.Pages(ctx)
				}
			})
			r.Count("opens_probed", 1)
			rep := map[string]any{"state": m.key(), "path": path, "user_slot": us, "owner_slot": os}
			if pv != nil {
				r.Violation("open:panic:"+m.alg.name, fmt.Sprintf("open panicked in state %s: %v", m.key(), pv), rep)
				ok = false
				continue
			}
			must := us == m.u || os == m.o
			mustNot := us != m.u && us != m.o && os != m.o && os != m.u
			if must && err != nil {
				key := "open:rejects-correct-password:" + m.alg.name
				if r.Want(key) {
					r.Violation(key, fmt.Sprintf("state %s after %v: open with user slot %q owner slot %q failed: %v", m.key(), path, us, os, err), rep)
				}
				ok = false
			}
			if mustNot {
				if err == nil {
					key := "open:accepts-wrong-password:" + m.alg.name
					if r.Want(key) {
						r.Violation(key, fmt.Sprintf("state %s after %v: open with user slot %q owner slot %q succeeded although neither is a current password", m.key(), path, us, os), rep)
					}
					ok = false
				} else if !errors.Is(err, pdfcpu.ErrWrongPassword) {
					key := "open:wrong-password-error-class:" + m.alg.name
					if r.Want(key) {
						r.Violation(key, fmt.Sprintf("state %s: open with wrong passwords failed with %v, not the wrong-password error", m.key(), err), rep)
					}
				}
			}
		}
	}
	return ok
}

func runC25(r *core.R) {
	api.DisableConfigDir()
	depth := 2
	if !r.Quick() {
		depth = 3
	}
	src := docgen.Marked(2, 0)
	ops := c25ops()
	r.Note("operations", len(ops))
	type state struct {
		doc  []byte
		m    pwModel
		path []string
	}
	pairs := [][2]string{{"", "a"}, {"a", "b"}, {"b", "b"}}
	if !r.Quick() {
		pairs = [][2]string{{"", "a"}, {"", "b"}, {"a", "a"}, {"a", "b"}, {"b", "a"}, {"b", "b"}}
	}
	var states, transitions int64
	type initS struct {
		a calg
		p [2]string
	}
	var inits []initS
	for _, a := range calgs {
		for _, p := range pairs {
			inits = append(inits, initS{a, p})
		}
	}
	resStates := make([]int64, len(inits))
	resTrans := make([]int64, len(inits))
	core.ParFor(len(inits), func(ii int) {
		in := inits[ii]
		var enc bytes.Buffer
		if err := api.Encrypt(bytes.NewReader(src), &enc, encConf(in.a, in.p[0], in.p[1], 0xF0C3)); err != nil {
			r.HarnessError("encrypt initial %v: %v", in, err)
			return
		}
		m0 := pwModel{in.a, in.p[0], in.p[1], 0xF0C3}
		c25probe(r, enc.Bytes(), m0, nil)
		seen := map[string]bool{m0.key(): true}
		resStates[ii]++
		frontier := []state{{enc.Bytes(), m0, nil}}
		for d := 0; d < depth; d++ {
			var next []state
			for _, s := range frontier {
				for _, op := range ops {
					if r.Expired() {
						r.Cut("internal deadline")
						return
					}
					want, exp := op.expect(s.m)
					var out []byte
					var err error
					pv, _ := core.Try(func() { out, err = op.apply(s.doc, s.m) })
					r.Eval(1)
					if len(s.path) > 0 || want.key() != s.m.key() {
						r.Nontrivial(1)
					}
					path := append(append([]string{}, s.path...), op.name)
					rep := map[string]any{"initial": m0.key(), "path": path}
					opk := strings.SplitN(op.name, "(", 2)[0]
					if pv != nil {
						r.Violation("panic:"+opk, fmt.Sprintf("%s after %v panicked: %v", m0.key(), path, pv), rep)
						continue
					}
					resTrans[ii]++
					switch exp {
					case 0:
						if err == nil {
							key := "change-without-owner-password:" + opk + ":" + in.a.name
							if r.Want(key) {
								r.Violation(key, fmt.Sprintf("from %s, %v succeeded although the current owner password was not supplied", s.m.key(), path), rep)
							}
						} else if len(out) != 0 {
							key := "failed-change-wrote-output:" + opk
							if r.Want(key) {
								r.Violation(key, fmt.Sprintf("from %s, %v failed (%v) but wrote %d bytes", s.m.key(), path, err, len(out)), rep)
							}
						}
					case -1:
						if err == nil {
							// accepted although the user password was wrong: then the document must be in a consistent state
							// in which the current owner password still opens it
							c := newConf()
							c.OwnerPW = s.m.o
							if _, oerr := pdfx.Read(out, c); oerr != nil {
								key := "unjudged-change-locks-out-owner:" + opk
								if r.Want(key) {
									r.Violation(key, fmt.Sprintf("from %s, %v succeeded with a wrong user password and the owner password no longer opens the result: %v", s.m.key(), path, oerr), rep)
								}
							}
							// "after a change only the new password works": the unchanged user password must still work if the operation was about the owner
							r.Count("accepted_with_wrong_user_password", 1)
						}
					case -2:
						// accepted or refused are both fine; if accepted only the owner password may have changed
						if err == nil {
							r.Count("owner_change_accepted_with_wrong_user_password", 1)
							if !c25probe(r, out, want, path) {
								r.Count("owner_change_with_wrong_user_password_changed_more", 1)
							}
						} else if len(out) != 0 {
							r.Violation("failed-change-wrote-output:"+opk, fmt.Sprintf("from %s, %v failed but wrote output", s.m.key(), path), rep)
						}
					case 1:
						if err != nil {
							key := "valid-change-refused:" + opk + ":" + in.a.name
							if r.Want(key) {
								r.Violation(key, fmt.Sprintf("from %s, %v failed although both current passwords were right: %v", s.m.key(), path, err), rep)
							}
							continue
						}
						if !c25probe(r, out, want, path) {
							continue
						}
						pc := newConf()
						pc.UserPW, pc.OwnerPW = want.u, want.o
						if pp, perr := api.GetPermissions(bytes.NewReader(out), pc); perr != nil || pp == nil || uint16(*pp)&0x0F3C != uint16(want.perm)&0x0F3C {
							key := "permissions-after-change:" + opk
							if r.Want(key) {
								r.Violation(key, fmt.Sprintf("from %s, %v: permissions read back differ from the model %#x (%v)", s.m.key(), path, want.perm, perr), rep)
							}
						}
						if k := want.key(); !seen[k] {
							seen[k] = true
							resStates[ii]++
							next = append(next, state{out, want, path})
						}
					}
				}
			}
			frontier = next
		}
	})
	for i := range inits {
		states += resStates[i]
		transitions += resTrans[i]
	}
	r.Count("states", states)
	r.Count("transitions", transitions)
	r.Note("traces_validated_against_impl", transitions)
	r.Note("depth", depth)
	r.Sample(map[string]any{"initial": "AES-256|u=\"a\"|o=\"b\"", "path": []string{"changeOwner(new=\"c\",old-right=true)", "changeUser(new=\"\",owner-right=true,old-right=true)"}})
}
