package props

import (
	"bytes"
	"fmt"
	"strings"
	"sync"

	"github.com/pdfcpu/pdfcpu/pkg/api"
	"github.com/pdfcpu/pdfcpu/pkg/pdfcpu"
	"verif/mc/core"
	"verif/mc/docgen"
)

// Outlines the harness writes itself (not through AddBookmarks): every forest of up to 4 nodes, each with
// every way another producer expresses a target - explicit destinations of several fit types, GoTo actions,
// named destinations through the catalog's /Dests dictionary and through the /Names /Dests name tree (array
// and dictionary values) - with closed nodes (negative /Count), /C and /F on some items and UTF-16 titles.
// Oracle 1: the export shows exactly the tree that was written (title, page, nesting, order, style).
// Oracle 2 (the property): importing that export into the same document and exporting again gives the same tree.

var c36DestKinds = []string{"dest-fit", "dest-xyz", "action-fith", "named-dests-dict", "named-name-tree-array", "action-named-name-tree-dict"}

func c36utf16(s string) string {
	b := []byte{0xFE, 0xFF}
	for _, rr := range []rune(s) {
		if rr >= 0x10000 {
			rr -= 0x10000
			hi, lo := 0xD800+(rr>>10), 0xDC00+(rr&0x3FF)
			b = append(b, byte(hi>>8), byte(hi), byte(lo>>8), byte(lo))
		} else {
			b = append(b, byte(rr>>8), byte(rr))
		}
	}
	return fmt.Sprintf("<%x>", b)
}

// c36ForeignOutline writes bms (pages 1..4) as an outline of the given destination kind.
func c36ForeignOutline(bms []pdfcpu.Bookmark, kind string) []byte {
	d := docgen.Simple([]docgen.PageSpec{{Marker: 1}, {Marker: 2}, {Marker: 3}, {Marker: 4}}, docgen.SimpleOpts{})
	pageNrs := d.PageNrs()
	var destsDict, nameTree []string
	seq := 0
	target := func(page int) string {
		seq++
		p := docgen.Ref(pageNrs[page-1])
		switch kind {
		case "dest-fit":
			return fmt.Sprintf("/Dest[%s /Fit]", p)
		case "dest-xyz":
			return fmt.Sprintf("/Dest[%s /XYZ 0 700 null]", p)
		case "action-fith":
			return fmt.Sprintf("/A<</S/GoTo/D[%s /FitH 500]>>", p)
		case "named-dests-dict":
			destsDict = append(destsDict, fmt.Sprintf("/N%02d[%s /Fit]", seq, p))
			return fmt.Sprintf("/Dest/N%02d", seq)
		case "named-name-tree-array":
			nameTree = append(nameTree, fmt.Sprintf("(n%02d)[%s /Fit]", seq, p))
			return fmt.Sprintf("/Dest(n%02d)", seq)
		default: // action-named-name-tree-dict
			nameTree = append(nameTree, fmt.Sprintf("(n%02d)<</D[%s /XYZ null null null]>>", seq, p))
			return fmt.Sprintf("/A<</S/GoTo/D(n%02d)>>", seq)
		}
	}
	var visible func(bs []pdfcpu.Bookmark) int
	visible = func(bs []pdfcpu.Bookmark) int {
		n := 0
		for _, b := range bs {
			n += 1 + visible(b.Kids)
		}
		return n
	}
	ol := d.Reserve()
	depthSeq := 0
	var write func(bs []pdfcpu.Bookmark, parent int) (first, last int)
	write = func(bs []pdfcpu.Bookmark, parent int) (int, int) {
		nrs := make([]int, len(bs))
		for i := range bs {
			nrs[i] = d.Reserve()
		}
		for i, b := range bs {
			var sb strings.Builder
			fmt.Fprintf(&sb, "<</Title %s/Parent %s", c36utf16(b.Title), docgen.Ref(parent))
			if i > 0 {
				fmt.Fprintf(&sb, "/Prev %s", docgen.Ref(nrs[i-1]))
			}
			if i+1 < len(bs) {
				fmt.Fprintf(&sb, "/Next %s", docgen.Ref(nrs[i+1]))
			}
			sb.WriteString(target(b.PageFrom))
			if len(b.Kids) > 0 {
				f, l := write(b.Kids, nrs[i])
				cnt := visible(b.Kids)
				depthSeq++
				if depthSeq%2 == 0 {
					cnt = -cnt // closed
				}
				fmt.Fprintf(&sb, "/First %s/Last %s/Count %d", docgen.Ref(f), docgen.Ref(l), cnt)
			}
			fl := 0
			if b.Italic {
				fl |= 1
			}
			if b.Bold {
				fl |= 2
			}
			if fl != 0 {
				fmt.Fprintf(&sb, "/F %d", fl)
			}
			if b.Color != nil {
				fmt.Fprintf(&sb, "/C[%g %g %g]", b.Color.R, b.Color.G, b.Color.B)
			}
			sb.WriteString(">>")
			d.Set(nrs[i], sb.String())
		}
		return nrs[0], nrs[len(nrs)-1]
	}
	f, l := write(bms, ol)
	d.Set(ol, fmt.Sprintf("<</Type/Outlines/First %s/Last %s/Count %d>>", docgen.Ref(f), docgen.Ref(l), len(bms)))
	cat := fmt.Sprintf("/Outlines %s", docgen.Ref(ol))
	if len(destsDict) > 0 {
		cat += "/Dests<<" + strings.Join(destsDict, "") + ">>"
	}
	if len(nameTree) > 0 {
		cat += "/Names<</Dests<</Names[" + strings.Join(nameTree, " ") + "]>>>>"
	}
	d.PatchCatalog(cat)
	return d.Bytes()
}

func c36Foreign(r *core.R) {
	maxNodes := 3
	if !r.Quick() {
		maxNodes = 4
	}
	type job struct {
		bms  []pdfcpu.Bookmark
		kind string
	}
	var jobs []job
	titles := []string{"A", "ü(", "第1章", "Part 1", "\U0001D11E"}
	for n := 1; n <= maxNodes; n++ {
		for fi, f := range forests(n, 3) {
			// ascending pages; titles and styles rotate with the shape so every title/style meets every kind
			pages, ts, ss := make([]int, n), make([]string, n), make([]int, n)
			for i := 0; i < n; i++ {
				pages[i] = 1 + i*4/n
				ts[i] = fmt.Sprintf("%s-%d", titles[(fi+i)%len(titles)], i)
				ss[i] = (fi + i) % 5
			}
			idx := 0
			bms := buildBms(f, pages, ts, ss, &idx)
			if !validPages(bms, nil) {
				for i := range pages {
					pages[i] = 2
				}
				idx = 0
				bms = buildBms(f, pages, ts, ss, &idx)
			}
			for _, k := range c36DestKinds {
				jobs = append(jobs, job{bms, k})
			}
		}
	}
	r.Count("foreign_outlines", int64(len(jobs)))
	var mu sync.Mutex
	viol := func(key, msg string, rep map[string]any) {
		mu.Lock()
		defer mu.Unlock()
		if r.Want(key) {
			r.Violation(key, msg, rep)
		}
	}
	core.ParFor(len(jobs), func(i int) {
		j := jobs[i]
		doc := c36ForeignOutline(j.bms, j.kind)
		want := canonB(j.bms)
		rep := map[string]any{"bookmarks": want, "destination_kind": j.kind}
		mu.Lock()
		r.Eval(1)
		r.Nontrivial(1)
		mu.Unlock()
		var j1 string
		var raw1 []byte
		var err error
		pv, _ := core.Try(func() { j1, raw1, err = exportTree(doc) })
		if pv != nil || err != nil {
			viol("foreign-outline:export-failed:"+j.kind, fmt.Sprintf("outline written by the harness (%s) %s: export failed: %v %v", j.kind, want, err, pv), rep)
			return
		}
		if j1 != want {
			viol("foreign-outline:export-differs-from-document:"+j.kind, fmt.Sprintf("outline written by the harness (%s):\n  written : %s\n  exported: %s", j.kind, want, j1), rep)
			return
		}
		var d2 bytes.Buffer
		pv, _ = core.Try(func() { err = api.ImportBookmarks(bytes.NewReader(doc), bytes.NewReader(raw1), &d2, true, newConf()) })
		if pv != nil || err != nil {
			viol("foreign-outline:import-failed:"+j.kind, fmt.Sprintf("importing the export of a harness-written outline (%s) %s into the same document failed: %v %v", j.kind, want, err, pv), rep)
			return
		}
		j2, _, err := exportTree(d2.Bytes())
		if err != nil || j2 != j1 {
			viol("foreign-outline:roundtrip-differs:"+j.kind, fmt.Sprintf("export -> import (replace) -> export on a harness-written outline (%s) differs (%v):\n  first : %s\n  second: %s", j.kind, err, j1, j2), rep)
		}
	})
}
