package props

import (
	"fmt"
	"math"
	"math/big"

	"github.com/pdfcpu/pdfcpu/pkg/pdfcpu/safemath"
	sm16 "github.com/pdfcpu/pdfcpu/vx/safemath16"
	sm8 "github.com/pdfcpu/pdfcpu/vx/safemath8"
	"verif/mc/core"
)

// C42: checked integer arithmetic. (a) width-scaled copies derived from the current source,
// all operand pairs; (b) the real 64-bit functions on a boundary lattice vs math/big.
func init() {
	core.Register(&core.Check{
		ID:    "C42",
		Level: "exploration",
		Rule: "(a) every operand pair of the int8 (quick) / int16 (thorough) width-scaled copy of safemath/int.go generated from the current source; " +
			"(b) every ordered pair of a boundary lattice (0..3, 2^k-1, 2^k, 2^k+1, Max/q-1..Max/q+1, isqrt(Max)±1, negatives, Min) through the real 64-bit functions vs math/big; " +
			"a case is non-trivial when the exact result lies within 2 of the type maximum or overflows, or an operand is negative",
		Assume: []string{"full-width correctness beyond the lattice is inferred from width-parametricity of the source (only comparison, +, *, / and MaxInt are used), not enumerated"},
		Run:    runC42,
	})
}

func c42lattice() []int64 {
	seen := map[int64]bool{}
	var out []int64
	add := func(v int64) {
		if !seen[v] {
			seen[v] = true
			out = append(out, v)
		}
	}
	for _, v := range []int64{0, 1, 2, 3, 5, 7, 10, 100, 255, 256, 65535, 65536} {
		add(v)
		add(-v)
	}
	for k := 1; k <= 62; k++ {
		p := int64(1) << uint(k)
		add(p - 1)
		add(p)
		add(p + 1)
		add(-p)
		add(-p - 1)
	}
	add(math.MaxInt64)
	add(math.MaxInt64 - 1)
	add(math.MinInt64)
	add(math.MinInt64 + 1)
	for q := int64(1); q <= 16; q++ {
		d := math.MaxInt64 / q
		add(d - 1)
		add(d)
		if d < math.MaxInt64 {
			add(d + 1)
		}
	}
	s := int64(math.Sqrt(float64(math.MaxInt64)))
	for d := int64(-2); d <= 2; d++ {
		add(s + d)
	}
	add(3037000499)
	add(3037000500)
	return out
}

func runC42(r *core.R) {
	if sm8.GenError != "" || sm16.GenError != "" {
		// the source uses something the width substitution cannot translate: part (a) is not decided, part (b)
		// still runs on the real functions
		r.Cut(fmt.Sprintf("width-scaled copy of safemath/int.go not derivable from the current source (%s %s): only the full-width lattice was explored", sm8.GenError, sm16.GenError))
	}
	scaledOK := sm8.GenError == "" && sm16.GenError == ""
	type fn struct {
		name string
		f    func(a, b int64) (int64, error)
		mul  bool
	}
	real := []fn{
		{"AddInt", func(a, b int64) (int64, error) { v, e := safemath.AddInt(int(a), int(b)); return int64(v), e }, false},
		{"MultiplyInt", func(a, b int64) (int64, error) { v, e := safemath.MultiplyInt(int(a), int(b)); return int64(v), e }, true},
		{"MultiplyInt64", safemath.MultiplyInt64, true},
	}
	judge := func(width string, f fn, a, b, max int64, got int64, err error, exact *big.Int) {
		r.Eval(1)
		bmax := big.NewInt(max)
		fits := a >= 0 && b >= 0 && exact.Cmp(bmax) <= 0
		near := new(big.Int).Sub(bmax, exact)
		if a < 0 || b < 0 || near.Cmp(big.NewInt(2)) <= 0 {
			r.Nontrivial(1)
		}
		rep := map[string]any{"width": width, "func": f.name, "a": a, "b": b}
		if fits {
			if err != nil {
				r.Violation(fmt.Sprintf("%s/%s:rejects-fitting-result", width, f.name), fmt.Sprintf("%s(%d,%d) reported overflow but exact result %s fits", f.name, a, b, exact), rep)
			} else if big.NewInt(got).Cmp(exact) != 0 {
				r.Violation(fmt.Sprintf("%s/%s:wrong-value", width, f.name), fmt.Sprintf("%s(%d,%d)=%d, exact %s", f.name, a, b, got, exact), rep)
			}
		} else if err == nil {
			r.Violation(fmt.Sprintf("%s/%s:overflow-or-negative-not-reported", width, f.name), fmt.Sprintf("%s(%d,%d)=%d without error; exact %s", f.name, a, b, got, exact), rep)
		}
	}
	// (b) real code on the lattice
	lat := c42lattice()
	r.Note("lattice_values", len(lat))
	core.ParFor(len(lat), func(i int) {
		a := lat[i]
		for _, b := range lat {
			for _, f := range real {
				got, err := f.f(a, b)
				ex := new(big.Int)
				if f.mul {
					ex.Mul(big.NewInt(a), big.NewInt(b))
				} else {
					ex.Add(big.NewInt(a), big.NewInt(b))
				}
				judge("64", f, a, b, math.MaxInt64, got, err, ex)
			}
		}
	})
	r.Sample(map[string]any{"width": 64, "func": "MultiplyInt64", "a": lat[len(lat)-1], "b": lat[len(lat)-2]})
	// (a) width-scaled, all pairs
	if !scaledOK {
		return
	}
	s8 := []fn{
		{"AddInt", func(a, b int64) (int64, error) { v, e := sm8.AddInt(int8(a), int8(b)); return int64(v), e }, false},
		{"MultiplyInt", func(a, b int64) (int64, error) { v, e := sm8.MultiplyInt(int8(a), int8(b)); return int64(v), e }, true},
		{"MultiplyInt64", func(a, b int64) (int64, error) { v, e := sm8.MultiplyInt64(int8(a), int8(b)); return int64(v), e }, true},
	}
	for a := int64(math.MinInt8); a <= math.MaxInt8; a++ {
		for b := int64(math.MinInt8); b <= math.MaxInt8; b++ {
			for _, f := range s8 {
				got, err := f.f(a, b)
				ex := big.NewInt(a + b)
				if f.mul {
					ex = big.NewInt(a * b)
				}
				judge("8", f, a, b, math.MaxInt8, got, err, ex)
			}
		}
	}
	r.Sample(map[string]any{"width": 8, "func": "AddInt", "a": 127, "b": 1})
	r.Count("int8_pairs", 1<<16)
	if !r.Quick() {
		// all 2^32 int16 pairs, exact arithmetic in int64 (no big.Int on the hot path)
		var viol [3]int64
		core.ParFor(1<<16, func(i int) {
			a := int64(int16(uint16(i)))
			var ev, nt int64
			for j := 0; j < 1<<16; j++ {
				b := int64(int16(uint16(j)))
				for k := 0; k < 3; k++ {
					var got int16
					var err error
					var ex int64
					switch k {
					case 0:
						got, err = sm16.AddInt(int16(a), int16(b))
						ex = a + b
					case 1:
						got, err = sm16.MultiplyInt(int16(a), int16(b))
						ex = a * b
					default:
						got, err = sm16.MultiplyInt64(int16(a), int16(b))
						ex = a * b
					}
					ev++
					fits := a >= 0 && b >= 0 && ex <= math.MaxInt16
					if a < 0 || b < 0 || ex >= math.MaxInt16-2 {
						nt++
					}
					if (fits && (err != nil || int64(got) != ex)) || (!fits && err == nil) {
						if viol[k] < 3 {
							viol[k]++
							r.Violation(fmt.Sprintf("16/f%d:mismatch", k), fmt.Sprintf("int16 func %d (%d,%d) -> %d,%v exact %d", k, a, b, got, err, ex), map[string]any{"width": "16", "k": k, "a": a, "b": b})
						}
					}
				}
			}
			r.Eval(ev)
			r.Nontrivial(nt)
		})
		r.Count("int16_pairs", 1<<32)
	}
}
