package props

import (
	"bytes"
	"encoding/hex"
	"fmt"
	"strings"
	"unicode/utf16"

	"github.com/pdfcpu/pdfcpu/pkg/api"
	"github.com/pdfcpu/pdfcpu/pkg/pdfcpu"
	"github.com/pdfcpu/pdfcpu/pkg/pdfcpu/model"
	"github.com/pdfcpu/pdfcpu/pkg/pdfcpu/types"
	"verif/mc/core"
	"verif/mc/docgen"
	"verif/mc/pdfx"
	"verif/mc/strictpdf"
)

// C22 (encrypt then decrypt changes nothing) and C23 (encrypted output reveals no plaintext).

type calg struct {
	name string
	aes  bool
	kl   int
	rev  int
}

var calgs = []calg{{"RC4-40", false, 40, 2}, {"RC4-128", false, 128, 4}, {"AES-128", true, 128, 4}, {"AES-256", true, 256, 5}}

func init() {
	core.Register(&core.Check{
		ID:    "C22",
		Level: "exploration",
		Rule: "documents = 9 location kinds (info strings incl. hex and escaped literals, strings nested in arrays/dictionaries incl. empty ones, annotation, attachment, outline, XMP metadata, filtered content, block-aligned strings/streams whose plaintext ends in padding-like bytes, signature dictionary) x input container {classic xref, object streams} x {RC4-40, RC4-128, AES-128, AES-256} x user password in {empty, a, 32 bytes, 33 bytes, 'pässwörd', 200 bytes} x owner password in {o, 32 bytes, 'pässwörd'} x permission word {none, all} x open with {user, owner}: the opened and the decrypted document equal the original (canonical serialisation of the object graph from catalog and Info with strings unescaped and streams decoded; page fingerprints), reported permissions equal the request; cipher primitives: every byte string of length <=2, ramps of length 0..48 and every length-16/32 string with a padding-like tail, x object/generation numbers {0,1,255,65535,2^23} x {RC4, AES} x revisions: decrypt(encrypt(x)) == x for bytes, string literals and streams; " +
			"non-trivial = every case (a real encryption and two decryptions each)",
		Run: runC22,
	})
	core.Register(&core.Check{
		ID:    "C23",
		Level: "exploration",
		Rule: "one document per location kind (info, content, annotation contents/author, attachment bytes/name/description/key, nested arrays/dictionaries, outline title, XMP, block-aligned strings, signature dictionary Name/Reason/Location) and input container {classic, object streams}, each string/stream carrying a unique 9-byte marker, x {RC4-40, RC4-128, AES-128, AES-256} x writer {object streams on/off} x {xref table, xref stream}: the raw output bytes and every stream decoded without decryption by the independent reader must not contain the marker in plain, hex (either case), UTF-16BE or escaped form; exceptions: signature /Contents; " +
			"non-trivial = every case",
		Assume: []string{"pdfcpu offers no option to leave metadata unencrypted, so the XMP exception of the statement does not arise"},
		Run:    runC23,
	})
}

func encConf(a calg, upw, opw string, perm int) *model.Configuration {
	var c *model.Configuration
	if a.aes {
		c = model.NewAESConfiguration(upw, opw, a.kl)
	} else {
		c = model.NewRC4Configuration(upw, opw, a.kl)
	}
	c.ValidationMode = model.ValidationRelaxed
	c.Permissions = model.PermissionFlags(perm)
	return c
}

// docView is what C22 compares: canonical graph + page fingerprints.
func docView(b []byte, upw, opw string) (string, error) {
	c := newConf()
	c.UserPW, c.OwnerPW = upw, opw
	ctx, err := pdfx.Read(b, c)
	if err != nil {
		return "", err
	}
	pgs, err := pdfx.Pages(ctx)
	if err != nil {
		return "", err
	}
	var sb strings.Builder
	for i, p := range pgs {
		fmt.Fprintf(&sb, "page%d:%s\n", i+1, pdfx.PageFingerprint(ctx, p))
	}
	skip := map[string]bool{"Parent": true, "P": true, "Version": true, "Extensions": true}
	sb.WriteString("root:" + pdfx.Canon(ctx, *ctx.Root, skip) + "\n")
	if ctx.Info != nil {
		sb.WriteString("info:" + pdfx.Canon(ctx, *ctx.Info, map[string]bool{"ModDate": true, "Producer": true, "CreationDate": true}) + "\n")
	}
	return sb.String(), nil
}

func firstDiff(a, b string) string {
	n := len(a)
	if len(b) < n {
		n = len(b)
	}
	i := 0
	for i < n && a[i] == b[i] {
		i++
	}
	lo := i - 60
	if lo < 0 {
		lo = 0
	}
	ha, hb := i+80, i+80
	if ha > len(a) {
		ha = len(a)
	}
	if hb > len(b) {
		hb = len(b)
	}
	return fmt.Sprintf("original …%q…  vs  …%q…", a[lo:ha], b[lo:hb])
}

func runC22(r *core.R) {
	api.DisableConfigDir()
	users := []string{"", "a", strings.Repeat("u", 32), strings.Repeat("v", 33), "pässwörd", strings.Repeat("w", 200)}
	owners := []string{"o", strings.Repeat("p", 32), "pässwörd"}
	perms := []int{0xF0C3, 0xFFFF}
	type dcase struct {
		kind, cont string
		alg        calg
		u, o       string
		perm       int
	}
	var cases []dcase
	for _, k := range docgen.CryptoKinds {
		for _, cont := range []string{"classic", "objstream", "indirect-lengths"} {
			for _, a := range calgs {
				for ui, u := range users {
					for oi, o := range owners {
						for pi, p := range perms {
							if r.Quick() && !((ui == 1 && oi == 0) || (ui == oi && pi == 0) || (k == "blockaligned" && pi == 0 && oi == 0)) {
								continue
							}
							cases = append(cases, dcase{k, cont, a, u, o, p})
						}
					}
				}
			}
		}
	}
	r.Note("document_cases", len(cases))
	plainViews := map[string]string{}
	for _, k := range docgen.CryptoKinds {
		for _, cont := range []string{"classic", "objstream", "indirect-lengths"} {
			v, err := docView(docgen.CryptoDoc(k, "MARKER", cont), "", "")
			if err != nil {
				r.HarnessError("plain %s/%s: %v", k, cont, err)
				return
			}
			plainViews[k+"/"+cont] = v
		}
	}
	core.ParFor(len(cases), func(i int) {
		c := cases[i]
		src := docgen.CryptoDoc(c.kind, "MARKER", c.cont)
		r.Eval(1)
		r.Nontrivial(1)
		rep := map[string]any{"kind": c.kind, "container": c.cont, "alg": c.alg.name, "user_pw": c.u, "owner_pw": c.o, "P": fmt.Sprintf("%#x", c.perm)}
		cls := c.alg.name + ":" + c.kind
		var enc bytes.Buffer
		var err error
		pv, _ := core.Try(func() { err = api.Encrypt(bytes.NewReader(src), &enc, encConf(c.alg, c.u, c.o, c.perm)) })
		if pv != nil || err != nil {
			key := "encrypt:failed:" + cls
			if r.Want(key) {
				r.Violation(key, fmt.Sprintf("Encrypt(%v): %v %v", rep, err, pv), rep)
			}
			return
		}
		want := plainViews[c.kind+"/"+c.cont]
		for _, who := range []string{"user", "owner"} {
			up, op := c.u, ""
			if who == "owner" {
				up, op = "", c.o
			}
			if who == "user" && c.u == "" {
				up = ""
			}
			v, err := docView(enc.Bytes(), up, op)
			if err != nil {
				key := "open:failed:" + cls + ":" + who
				if c.alg.kl == 256 && ((who == "user" && len(c.u) > 127) || (who == "owner" && len(c.o) > 127)) {
					key = "open:failed:AES-256:password-longer-than-127-bytes"
				}
				if r.Want(key) {
					r.Violation(key, fmt.Sprintf("opening the encrypted document with the %s password failed (%v): %v", who, rep, err), rep)
				}
				continue
			}
			if v != want {
				key := "open:document-differs:" + cls
				if r.Want(key) {
					r.Violation(key, fmt.Sprintf("document opened with the %s password differs from the original (%v): %s", who, rep, firstDiff(want, v)), rep)
				}
			}
			// decrypt
			dc := newConf()
			dc.UserPW, dc.OwnerPW = up, op
			var dec bytes.Buffer
			pv, _ := core.Try(func() { err = api.Decrypt(bytes.NewReader(enc.Bytes()), &dec, dc) })
			if pv != nil || err != nil {
				if who == "owner" || c.perm == 0xFFFF {
					key := "decrypt:failed:" + cls + ":" + who
					if r.Want(key) {
						r.Violation(key, fmt.Sprintf("Decrypt with the %s password failed (%v): %v %v", who, rep, err, pv), rep)
					}
				}
				continue
			}
			v2, err := docView(dec.Bytes(), "", "")
			if err != nil || v2 != want {
				key := "decrypt:document-differs:" + cls
				if r.Want(key) {
					r.Violation(key, fmt.Sprintf("decrypted document differs from the original (%v): %v %s", rep, err, firstDiff(want, v2)), rep)
				}
			}
		}
		pc := newConf()
		pc.UserPW, pc.OwnerPW = c.u, c.o
		pp, err := api.GetPermissions(bytes.NewReader(enc.Bytes()), pc)
		if err != nil || pp == nil || uint16(*pp)&0x0F3C != uint16(c.perm)&0x0F3C {
			key := "permissions-differ:" + c.alg.name
			if r.Want(key) {
				got := "nil"
				if pp != nil {
					got = fmt.Sprintf("%#x", uint16(*pp))
				}
				r.Violation(key, fmt.Sprintf("GetPermissions after Encrypt with P=%#x reports %s (%v)", c.perm, got, err), rep)
			}
		}
		if i%499 == 0 {
			r.Sample(rep)
		}
	})
	// ---- cipher primitives
	var datas [][]byte
	datas = append(datas, []byte{})
	for a := 0; a < 256; a++ {
		datas = append(datas, []byte{byte(a)})
		if !r.Quick() || a%5 == 0 || a < 18 {
			for b := 0; b < 256; b++ {
				if r.Quick() && b%7 != 0 && b > 17 {
					continue
				}
				datas = append(datas, []byte{byte(a), byte(b)})
			}
		}
	}
	for n := 0; n <= 48; n++ {
		datas = append(datas, ramp(n))
	}
	for _, L := range []int{16, 32, 48} {
		for t := 1; t <= 16; t++ {
			d := ramp(L)
			for k := 0; k < t; k++ {
				d[L-1-k] = byte(t)
			}
			datas = append(datas, d)
		}
	}
	r.Note("primitive_data_strings", len(datas))
	objs := [][2]int{{0, 0}, {1, 0}, {255, 1}, {65535, 65535}, {1 << 23, 0}}
	type prim struct {
		aes bool
		rev int
		key []byte
	}
	prims := []prim{{false, 2, ramp(5)}, {false, 3, ramp(16)}, {false, 4, ramp(16)}, {true, 4, ramp(16)}, {true, 5, ramp(32)}, {true, 6, ramp(32)}}
	core.ParFor(len(datas), func(di int) {
		d := datas[di]
		for _, p := range prims {
			for _, on := range objs {
				r.Eval(1)
				r.Nontrivial(1)
				rep := func() any {
					return map[string]any{"data_hex": hex.EncodeToString(d), "aes": p.aes, "rev": p.rev, "obj": on[0], "gen": on[1]}
				}
				cls := fmt.Sprintf("aes=%v,rev=%d", p.aes, p.rev)
				e, err := pdfcpu.VerifEncryptBytes(append([]byte{}, d...), on[0], on[1], p.key, p.aes, p.rev)
				var back []byte
				if err == nil {
					back, err = pdfcpu.VerifDecryptBytes(append([]byte{}, e...), on[0], on[1], p.key, p.aes, p.rev)
				}
				if err != nil || !bytes.Equal(back, d) {
					key := "primitive:bytes:" + cls
					if len(d)%16 == 0 && len(d) > 0 {
						key += ":block-aligned"
					}
					if r.Want(key) {
						r.Violation(key, fmt.Sprintf("decryptBytes(encryptBytes(%x)) = %x, %v (%s obj %d gen %d)", d, back, err, cls, on[0], on[1]), rep())
					}
				}
				se, err := pdfcpu.VerifEncryptStream(append([]byte{}, d...), on[0], on[1], p.key, p.aes, p.rev)
				if err == nil {
					back, err = pdfcpu.VerifDecryptStream(append([]byte{}, se...), on[0], on[1], p.key, p.aes, p.rev)
				}
				if err != nil || !bytes.Equal(back, d) {
					key := "primitive:stream:" + cls
					if r.Want(key) {
						r.Violation(key, fmt.Sprintf("decryptStream(encryptStream(%x)) = %x, %v (%s)", d, back, err, cls), rep())
					}
				}
				esc, _ := types.Escape(string(d))
				sl, err := pdfcpu.VerifEncryptStringLiteral(types.StringLiteral(*esc), on[0], on[1], p.key, p.aes, p.rev)
				if err == nil && sl != nil {
					var dl *types.StringLiteral
					dl, err = pdfcpu.VerifDecryptStringLiteral(*sl, on[0], on[1], p.key, p.aes, p.rev)
					if err == nil && dl != nil {
						back, err = types.Unescape(dl.Value())
					}
				}
				if err != nil || !bytes.Equal(back, d) {
					key := "primitive:string-literal:" + cls
					if r.Want(key) {
						r.Violation(key, fmt.Sprintf("decryptStringLiteral(encryptStringLiteral(%x)) = %x, %v (%s)", d, back, err, cls), rep())
					}
				}
			}
		}
	})
	r.Sample(map[string]any{"primitive": "AES rev 4", "data_hex": "000102030405060708090a0b0c030303", "obj": 65535, "gen": 65535})
}

// ---------------------------------------------------------------------------------------

func markerForms(m string) map[string][]byte {
	out := map[string][]byte{"plain": []byte(m)}
	out["hex-lower"] = []byte(hex.EncodeToString([]byte(m)))
	out["hex-upper"] = []byte(strings.ToUpper(hex.EncodeToString([]byte(m))))
	var u16 []byte
	for _, u := range utf16.Encode([]rune(m)) {
		u16 = append(u16, byte(u>>8), byte(u))
	}
	out["utf16be"] = u16
	out["utf16be-hex"] = []byte(strings.ToUpper(hex.EncodeToString(u16)))
	return out
}

func runC23(r *core.R) {
	api.DisableConfigDir()
	marker := "MRK7qZx9w"
	type lcase struct {
		kind, cont string
		alg        calg
		objStm, xs bool
	}
	var cases []lcase
	for _, k := range docgen.CryptoKinds {
		for _, cont := range []string{"classic", "objstream", "indirect-lengths"} {
			for _, a := range calgs {
				for _, os := range []bool{false, true} {
					for _, xs := range []bool{false, true} {
						cases = append(cases, lcase{k, cont, a, os, xs})
					}
				}
			}
		}
	}
	r.Note("cases", len(cases))
	forms := markerForms(marker)
	// vacuity guard: the marker is visible in every plain document
	for _, k := range docgen.CryptoKinds {
		if !bytes.Contains(docgen.CryptoDoc(k, marker, "classic"), []byte(marker)) && k != "filters" {
			r.HarnessError("marker not present in the plain %s document", k)
		}
	}
	core.ParFor(len(cases), func(i int) {
		c := cases[i]
		src := docgen.CryptoDoc(c.kind, marker, c.cont)
		conf := encConf(c.alg, "u", "o", 0xF0C3)
		conf.WriteObjectStream, conf.WriteXRefStream = c.objStm, c.xs
		var enc bytes.Buffer
		var err error
		pv, _ := core.Try(func() { err = api.Encrypt(bytes.NewReader(src), &enc, conf) })
		r.Eval(1)
		r.Nontrivial(1)
		rep := map[string]any{"kind": c.kind, "container": c.cont, "alg": c.alg.name, "write_objstreams": c.objStm, "write_xrefstream": c.xs}
		if pv != nil || err != nil {
			r.Violation("encrypt:failed:"+c.kind, fmt.Sprintf("Encrypt(%v): %v %v", rep, err, pv), rep)
			return
		}
		out := enc.Bytes()
		report := func(where, form string, at int, ctx []byte) {
			key := fmt.Sprintf("leak:%s:%s:input=%s", c.kind, where, c.cont)
			if r.Want(key) {
				lo, hi := at-60, at+60
				if lo < 0 {
					lo = 0
				}
				if hi > len(ctx) {
					hi = len(ctx)
				}
				r.Violation(key, fmt.Sprintf("%s-encrypted output (%v) contains the marker (%s form) in %s: …%q…", c.alg.name, rep, form, where, ctx[lo:hi]), rep)
			}
		}
		for fn, f := range forms {
			if at := bytes.Index(out, f); at >= 0 {
				report("raw-file-bytes", fn, at, out)
			}
		}
		sf := strictpdf.Parse(out)
		for nr, o := range sf.Objects {
			if !o.IsStream {
				continue
			}
			dec, err := sf.DecodeStream(o)
			if err != nil {
				continue
			}
			for fn, f := range forms {
				if at := bytes.Index(dec, f); at >= 0 {
					report(fmt.Sprintf("decoded-stream(obj-type=%v)", o.Dict["Type"]), fn, at, dec)
					_ = nr
				}
			}
		}
		if i%97 == 0 {
			r.Sample(rep)
		}
	})
}
