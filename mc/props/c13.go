package props

import (
	"encoding/hex"
	"fmt"
	"strings"
	"unicode/utf16"

	"github.com/pdfcpu/pdfcpu/pkg/pdfcpu/types"
	"verif/mc/core"
)

// C13: Unicode text stored as a PDF text string reads back unchanged.
func init() {
	core.Register(&core.Check{
		ID:    "C13",
		Level: "exploration",
		Rule: "every Unicode scalar value (1 112 064) singly and embedded as 'a<r>b', and every string of length <=3 over a 26-element boundary alphabet, through EncodeUTF16String->DecodeUTF16String, EscapedUTF16String->StringLiteralToString and hex->HexLiteralToString; every well-formed UTF-16BE code-unit sequence of length <=2 over boundary units must decode without error; " +
			"non-trivial = text containing a non-ASCII scalar or a byte that needs escaping in its UTF-16BE form",
		Run: runC13,
	})
}

var c13alpha = []rune{0x0000, 0x0001, 0x0028, 0x0029, 0x005C, 0x000A, 0x000D, 0x0041, 0x007F, 0x0080, 0x00FF, 0x0100, 0x0A0D, 0x5C28, 0xD7FF, 0xE000, 0xE001, 0xF8FF, 0xFEFF, 0xFFFD, 0xFFFE, 0xFFFF, 0x10000, 0x1F600, 0x10FFFF, 0x20AC}

func c13key(s string) string {
	var sb strings.Builder
	for i, r := range []rune(s) {
		if i > 0 {
			sb.WriteByte(',')
		}
		fmt.Fprintf(&sb, "U+%04X", r)
	}
	return sb.String()
}

func c13one(r *core.R, s string) {
	rep := func() any { return map[string]any{"text_codepoints": c13key(s)} }
	enc := types.EncodeUTF16String(s)
	if d, err := types.DecodeUTF16String(enc); err != nil || d != s {
		r.Violation("utf16-roundtrip:"+c13key(s), fmt.Sprintf("DecodeUTF16String(EncodeUTF16String(%s)) = %q, %v", c13key(s), d, err), rep())
	}
	ep, err := types.EscapedUTF16String(s)
	if err != nil || ep == nil {
		r.Violation("escaped-utf16-error:"+c13key(s), fmt.Sprintf("EscapedUTF16String(%s): %v", c13key(s), err), rep())
	} else if d, err := types.StringLiteralToString(types.StringLiteral(*ep)); err != nil || d != s {
		r.Violation("literal-roundtrip:"+c13key(s), fmt.Sprintf("StringLiteralToString(EscapedUTF16String(%s)) = %q (%s), %v", c13key(s), d, c13key(d), err), rep())
	}
	hl := types.HexLiteral(hex.EncodeToString([]byte(enc)))
	if d, err := types.HexLiteralToString(hl); err != nil || d != s {
		r.Violation("hex-roundtrip:"+c13key(s), fmt.Sprintf("HexLiteralToString(hex(EncodeUTF16String(%s))) = %q, %v", c13key(s), d, err), rep())
	}
}

func runC13(r *core.R) {
	defer c13EndToEnd(r)
	// (1) every scalar value, alone and embedded
	core.ParFor(0x110000/0x400, func(blk int) {
		var ev, nt int64
		for cp := rune(blk * 0x400); cp < rune((blk+1)*0x400); cp++ {
			if cp >= 0xD800 && cp <= 0xDFFF {
				continue
			}
			c13one(r, string(cp))
			c13one(r, "a"+string(cp)+"b")
			ev += 2
			if cp >= 0x80 || cp == '(' || cp == ')' || cp == '\\' || cp < 0x20 {
				nt += 2
			}
		}
		r.Eval(ev)
		r.Nontrivial(nt)
	})
	r.Count("scalars", 0x110000-0x800)
	r.Sample(map[string]any{"text_codepoints": "U+E000"})
	r.Sample(map[string]any{"text_codepoints": "U+0061,U+1F600,U+0062"})
	// (2) all strings of length <= 3 over the boundary alphabet
	n := len(c13alpha)
	core.ParFor(n, func(i int) {
		var ev int64
		for j := -1; j < n; j++ {
			for k := -1; k < n; k++ {
				if j < 0 && k >= 0 {
					continue
				}
				rs := []rune{c13alpha[i]}
				if j >= 0 {
					rs = append(rs, c13alpha[j])
				}
				if k >= 0 {
					rs = append(rs, c13alpha[k])
				}
				c13one(r, string(rs))
				ev++
			}
		}
		r.Eval(ev)
		r.Nontrivial(ev)
	})
	r.Sample(map[string]any{"text_codepoints": c13key(string([]rune{0x5C28, 0xE000, 0x10FFFF}))})
	// (3) decoding well-formed UTF-16BE never fails: all sequences of <=2 code points given as
	// raw code units over boundary units (BMP units and valid surrogate pairs).
	units := [][]uint16{}
	for _, u := range []uint16{0x0000, 0x0028, 0x005C, 0x000D, 0xD7FF, 0xE000, 0xE001, 0xFEFF, 0xFFFE, 0xFFFF} {
		units = append(units, []uint16{u})
	}
	for _, hi := range []uint16{0xD800, 0xD801, 0xDBFF} {
		for _, lo := range []uint16{0xDC00, 0xDC01, 0xDFFF} {
			units = append(units, []uint16{hi, lo})
		}
	}
	for i := range units {
		for j := -1; j < len(units); j++ {
			seq := append([]uint16{}, units[i]...)
			if j >= 0 {
				seq = append(seq, units[j]...)
			}
			b := []byte{0xFE, 0xFF}
			for _, u := range seq {
				b = append(b, byte(u>>8), byte(u))
			}
			want := string(utf16.Decode(seq))
			got, err := types.DecodeUTF16String(string(b))
			r.Eval(1)
			r.Nontrivial(1)
			if err != nil || got != want {
				r.Violation("utf16-decode-wellformed:"+hex.EncodeToString(b), fmt.Sprintf("DecodeUTF16String(%x) = %q, %v; want %q", b, got, err, want), map[string]any{"utf16be_hex": hex.EncodeToString(b)})
			}
		}
	}
}
