package props

import (
	"reflect"
	"bytes"
	"fmt"
	"io"
	"os"
	"path/filepath"
	"sort"
	"strings"

	"github.com/pdfcpu/pdfcpu/pkg/api"
	"github.com/pdfcpu/pdfcpu/pkg/pdfcpu/model"
	"verif/mc/core"
	"verif/mc/docgen"
)

// C35: document metadata edits behave like a simple key/value store.
func init() {
	core.Register(&core.Check{
		ID:    "C35",
		Level: "model_checking",
		Rule: "explicit-state search over real document bytes: 24 labelled operations (add/remove keyword in {k, 'ü €', 'two words', U+1F389}; add property A=1, A=2, 'Ключ'='(x)\\', emoji value; remove property A / 'Ключ'; set layout x2 / reset; set mode x2 / reset; set viewer preferences x2 / reset; add attachment a.txt / 'ä b.bin' / remove each / remove all) from 2 initial documents; breadth-first to depth 2 (quick) / 3 (thorough), deduplicated on the reference-model state; after every transition every list function and attachment extraction is compared with the key/value model, and a failed operation must have written nothing; " +
			"non-trivial = a transition from a non-initial state",
		Assume: []string{"keywords are a set of trimmed strings (pdfcpu joins them with '; '); removing an absent key is an error that leaves the document unchanged; adding an attachment whose name exists may replace it or keep both under a derived id (the model adopts what is listed, still demanding the stored bytes)"},
		Run:    runC35,
	})
}

type kvModel struct {
	kw     map[string]bool
	props  map[string]string
	layout string
	mode   string
	vp     map[string]string // every viewer preference the document carries: Go field name -> printed value
	atts   map[string]string // id -> content
}

func (m kvModel) clone() kvModel {
	n := kvModel{kw: map[string]bool{}, props: map[string]string{}, layout: m.layout, mode: m.mode, vp: map[string]string{}, atts: map[string]string{}}
	for k, v := range m.kw {
		n.kw[k] = v
	}
	for k, v := range m.props {
		n.props[k] = v
	}
	for k, v := range m.vp {
		n.vp[k] = v
	}
	for k, v := range m.atts {
		n.atts[k] = v
	}
	return n
}

func sortedKeysB(m map[string]bool) []string {
	var ks []string
	for k := range m {
		ks = append(ks, k)
	}
	sort.Strings(ks)
	return ks
}

func (m kvModel) key() string {
	var ps, as, vs []string
	for k, v := range m.props {
		ps = append(ps, k+"="+v)
	}
	for k, v := range m.atts {
		as = append(as, k+"="+v)
	}
	for k, v := range m.vp {
		vs = append(vs, fmt.Sprintf("%s=%v", k, v))
	}
	sort.Strings(ps)
	sort.Strings(as)
	sort.Strings(vs)
	return fmt.Sprintf("kw=%q|props=%q|layout=%s|mode=%s|vp=%v|atts=%q", sortedKeysB(m.kw), ps, m.layout, m.mode, vs, as)
}

type kvOp struct {
	name  string
	apply func(dir string, in []byte) ([]byte, error)
	model func(m kvModel) (kvModel, bool) // ok=false: must fail and leave the document unchanged
}

func c35ops() []kvOp {
	buf := func(f func(rs io.ReadSeeker, w io.Writer) error) func(dir string, in []byte) ([]byte, error) {
		return func(_ string, in []byte) ([]byte, error) {
			var out bytes.Buffer
			err := f(bytes.NewReader(in), &out)
			return out.Bytes(), err
		}
	}
	var ops []kvOp
	for _, k := range []string{"k", "ü €", "two words", "party \U0001F389 time"} {
		k := k
		ops = append(ops, kvOp{"addkw(" + k + ")", buf(func(rs io.ReadSeeker, w io.Writer) error { return api.AddKeywords(rs, w, []string{k}, newConf()) }),
			func(m kvModel) (kvModel, bool) { n := m.clone(); n.kw[k] = true; return n, true }})
		ops = append(ops, kvOp{"rmkw(" + k + ")", buf(func(rs io.ReadSeeker, w io.Writer) error { return api.RemoveKeywords(rs, w, []string{k}, newConf()) }),
			func(m kvModel) (kvModel, bool) {
				if !m.kw[k] {
					return m, false
				}
				n := m.clone()
				delete(n.kw, k)
				return n, true
			}})
	}
	// "remove every keyword the document lists" as one call, whatever they are (the list becomes empty)
	ops = append(ops, kvOp{"rmkw(every listed keyword)", func(dir string, in []byte) ([]byte, error) {
		kws, err := api.Keywords(bytes.NewReader(in), newConf())
		if err != nil {
			return nil, err
		}
		for i := range kws {
			kws[i] = strings.TrimSpace(kws[i])
		}
		var out bytes.Buffer
		err = api.RemoveKeywords(bytes.NewReader(in), &out, kws, newConf())
		return out.Bytes(), err
	}, func(m kvModel) (kvModel, bool) {
		if len(m.kw) == 0 {
			return m, false
		}
		n := m.clone()
		n.kw = map[string]bool{}
		return n, true
	}})
	for _, kv := range [][2]string{{"A", "1"}, {"A", "2"}, {"Ключ", "(x)\\"}, {"E", "\U0001D11E \u00a0z"}} {
		kv := kv
		ops = append(ops, kvOp{"addprop(" + kv[0] + "=" + kv[1] + ")", buf(func(rs io.ReadSeeker, w io.Writer) error {
			return api.AddProperties(rs, w, map[string]string{kv[0]: kv[1]}, newConf())
		}), func(m kvModel) (kvModel, bool) { n := m.clone(); n.props[kv[0]] = kv[1]; return n, true }})
	}
	for _, k := range []string{"A", "Ключ"} {
		k := k
		ops = append(ops, kvOp{"rmprop(" + k + ")", buf(func(rs io.ReadSeeker, w io.Writer) error { return api.RemoveProperties(rs, w, []string{k}, newConf()) }),
			func(m kvModel) (kvModel, bool) {
				if _, ok := m.props[k]; !ok {
					return m, false
				}
				n := m.clone()
				delete(n.props, k)
				return n, true
			}})
	}
	for _, pl := range []model.PageLayout{model.PageLayoutTwoColumnLeft, model.PageLayoutSinglePage} {
		pl := pl
		ops = append(ops, kvOp{"setlayout(" + pl.String() + ")", buf(func(rs io.ReadSeeker, w io.Writer) error { return api.SetPageLayout(rs, w, pl, newConf()) }),
			func(m kvModel) (kvModel, bool) { n := m.clone(); n.layout = pl.String(); return n, true }})
	}
	ops = append(ops, kvOp{"resetlayout", buf(func(rs io.ReadSeeker, w io.Writer) error { return api.ResetPageLayout(rs, w, newConf()) }),
		func(m kvModel) (kvModel, bool) { n := m.clone(); n.layout = ""; return n, true }})
	for _, pm := range []model.PageMode{model.PageModeUseOutlines, model.PageModeFullScreen} {
		pm := pm
		ops = append(ops, kvOp{"setmode(" + pm.String() + ")", buf(func(rs io.ReadSeeker, w io.Writer) error { return api.SetPageMode(rs, w, pm, newConf()) }),
			func(m kvModel) (kvModel, bool) { n := m.clone(); n.mode = pm.String(); return n, true }})
	}
	ops = append(ops, kvOp{"resetmode", buf(func(rs io.ReadSeeker, w io.Writer) error { return api.ResetPageMode(rs, w, newConf()) }),
		func(m kvModel) (kvModel, bool) { n := m.clone(); n.mode = ""; return n, true }})
	ops = append(ops, kvOp{"setvp(hideToolbar)", buf(func(rs io.ReadSeeker, w io.Writer) error {
		return api.SetViewerPreferencesFromJSONBytes(rs, w, []byte(`{"hideToolbar": true}`), newConf())
	}), func(m kvModel) (kvModel, bool) { n := m.clone(); n.vp["HideToolbar"] = "true"; return n, true }})
	ops = append(ops, kvOp{"setvp(fitWindow,!hideToolbar)", buf(func(rs io.ReadSeeker, w io.Writer) error {
		return api.SetViewerPreferencesFromJSONBytes(rs, w, []byte(`{"fitWindow": true, "hideToolbar": false}`), newConf())
	}), func(m kvModel) (kvModel, bool) {
		n := m.clone()
		n.vp["FitWindow"] = "true"
		n.vp["HideToolbar"] = "false"
		return n, true
	}})
	ops = append(ops, kvOp{"resetvp", buf(func(rs io.ReadSeeker, w io.Writer) error { return api.ResetViewerPreferences(rs, w, newConf()) }),
		func(m kvModel) (kvModel, bool) { n := m.clone(); n.vp = map[string]string{}; return n, true }})
	attContent := map[string]string{"a.txt": "abc", "ä b.bin": string(ramp(256))}
	for name, content := range attContent {
		name, content := name, content
		ops = append(ops, kvOp{"addatt(" + name + ")", func(dir string, in []byte) ([]byte, error) {
			p := filepath.Join(dir, name)
			os.WriteFile(p, []byte(content), 0o644)
			var out bytes.Buffer
			err := api.AddAttachments(bytes.NewReader(in), &out, []string{p}, false, newConf())
			return out.Bytes(), err
		}, func(m kvModel) (kvModel, bool) { n := m.clone(); n.atts[name] = content; return n, true }})
		ops = append(ops, kvOp{"rmatt(" + name + ")", buf(func(rs io.ReadSeeker, w io.Writer) error { return api.RemoveAttachments(rs, w, []string{name}, newConf()) }),
			func(m kvModel) (kvModel, bool) {
				if _, ok := m.atts[name]; !ok {
					return m, false
				}
				n := m.clone()
				delete(n.atts, name)
				return n, true
			}})
	}
	ops = append(ops, kvOp{"rmatt(all)", buf(func(rs io.ReadSeeker, w io.Writer) error { return api.RemoveAttachments(rs, w, nil, newConf()) }),
		func(m kvModel) (kvModel, bool) {
			if len(m.atts) == 0 {
				return m, false
			}
			n := m.clone()
			n.atts = map[string]string{}
			return n, true
		}})
	return ops
}

func ramp(n int) []byte {
	b := make([]byte, n)
	for i := range b {
		b[i] = byte(i)
	}
	return b
}

// c35observe reads everything back through the list functions.
func c35observe(dir string, doc []byte) (kvModel, error) {
	m := kvModel{kw: map[string]bool{}, props: map[string]string{}, vp: map[string]string{}, atts: map[string]string{}}
	kws, err := api.Keywords(bytes.NewReader(doc), newConf())
	if err != nil {
		return m, fmt.Errorf("Keywords: %w", err)
	}
	for _, k := range kws {
		m.kw[strings.TrimSpace(k)] = true
	}
	props, err := api.Properties(bytes.NewReader(doc), newConf())
	if err != nil {
		return m, fmt.Errorf("Properties: %w", err)
	}
	for k, v := range props {
		m.props[k] = v
	}
	pl, err := api.PageLayout(bytes.NewReader(doc), newConf())
	if err != nil {
		return m, fmt.Errorf("PageLayout: %w", err)
	}
	if pl != nil {
		m.layout = pl.String()
	}
	pm, err := api.PageMode(bytes.NewReader(doc), newConf())
	if err != nil {
		return m, fmt.Errorf("PageMode: %w", err)
	}
	if pm != nil {
		m.mode = pm.String()
	}
	vp, _, err := api.ViewerPreferences(bytes.NewReader(doc), newConf())
	if err != nil {
		return m, fmt.Errorf("ViewerPreferences: %w", err)
	}
	if vp != nil {
		rv := reflect.ValueOf(*vp)
		for i := 0; i < rv.NumField(); i++ {
			f := rv.Field(i)
			switch f.Kind() {
			case reflect.Ptr:
				if !f.IsNil() {
					m.vp[rv.Type().Field(i).Name] = fmt.Sprint(f.Elem().Interface())
				}
			case reflect.Slice:
				if f.Len() > 0 {
					m.vp[rv.Type().Field(i).Name] = fmt.Sprint(f.Interface())
				}
			}
		}
	}
	aa, err := api.ExtractAttachmentsRaw(bytes.NewReader(doc), dir, nil, newConf())
	if err != nil && strings.Contains(err.Error(), "no attachments available") {
		aa, err = nil, nil
	}
	if err != nil {
		return m, fmt.Errorf("ExtractAttachmentsRaw: %w", err)
	}
	for _, a := range aa {
		b, _ := io.ReadAll(a)
		m.atts[a.ID] = string(b)
	}
	return m, nil
}

func runC35(r *core.R) {
	depth := 2
	if !r.Quick() {
		depth = 3
	}
	api.DisableConfigDir()
	c35KeyRoundTrips(r)
	c35CollidingKeys(r)
	ops := c35ops()
	r.Note("operations", len(ops))
	dir := core.Scratch("c35")
	defer os.RemoveAll(dir)
	inits := [][]byte{docgen.Simple([]docgen.PageSpec{{Marker: 1}}, docgen.SimpleOpts{NoInfo: true}).Bytes(), docgen.Marked(2, 0), c35ForeignDoc()}
	type state struct {
		doc  []byte
		m    kvModel
		path []string
	}
	var states, transitions int64
	for di, init := range inits {
		m0, err := c35observe(dir, init)
		if err != nil {
			r.HarnessError("initial doc %d: %v", di, err)
			return
		}
		seen := map[string]bool{m0.key(): true}
		states++
		frontier := []state{{init, m0, nil}}
		for d := 0; d < depth; d++ {
			next := make([][]state, len(frontier))
			core.ParFor(len(frontier), func(fi int) {
				s := frontier[fi]
				wdir := filepath.Join(dir, fmt.Sprintf("w%d-%d-%d", di, d, fi))
				os.MkdirAll(wdir, 0o755)
				defer os.RemoveAll(wdir)
				for _, op := range ops {
					if r.Expired() {
						r.Cut("internal deadline")
						return
					}
					want, ok := op.model(s.m)
					var out []byte
					var err error
					pv, _ := core.Try(func() { out, err = op.apply(wdir, s.doc) })
					r.Eval(1)
					if len(s.path) > 0 {
						r.Nontrivial(1)
					}
					path := append(append([]string{}, s.path...), op.name)
					rep := map[string]any{"initial_document": di, "path": path}
					opk := strings.SplitN(op.name, "(", 2)[0]
					if pv != nil {
						r.Violation("panic:"+opk, fmt.Sprintf("doc %d after %v: panic %v", di, path, pv), rep)
						continue
					}
					if !ok {
						if err == nil {
							// removing something absent succeeded: acceptable only if nothing changed
							got, oerr := c35observe(wdir, out)
							if oerr != nil || got.key() != s.m.key() {
								key := "absent-removal-changed-document:" + opk
								if r.Want(key) {
									r.Violation(key, fmt.Sprintf("doc %d after %v: removal of an absent key returned nil and the document now lists %s (before %s) %v", di, path, got.key(), s.m.key(), oerr), rep)
								}
							}
						} else if len(out) != 0 {
							key := "failed-op-wrote-output:" + opk
							if r.Want(key) {
								r.Violation(key, fmt.Sprintf("doc %d after %v: failed (%v) but wrote %d bytes", di, path, err, len(out)), rep)
							}
						}
						continue
					}
					if err != nil {
						key := "op-failed:" + op.name
						if r.Want(key) {
							r.Violation(key, fmt.Sprintf("doc %d after %v: %v", di, path, err), rep)
						}
						continue
					}
					got, oerr := c35observe(wdir, out)
					if oerr != nil {
						key := "unreadable:" + opk
						if r.Want(key) {
							r.Violation(key, fmt.Sprintf("doc %d after %v: %v", di, path, oerr), rep)
						}
						continue
					}
					// duplicate attachment name: pdfcpu may keep both, the new one under a derived id. Accepted only if every
					// earlier attachment is still listed with its own bytes and exactly one new id appeared, which starts
					// with the added name and holds the added bytes.
					if opk == "addatt" && len(got.atts) == len(s.m.atts)+1 && len(want.atts) == len(s.m.atts) {
						name := strings.TrimSuffix(strings.SplitN(op.name, "(", 2)[1], ")")
						okDerived := true
						fresh := 0
						for id, c := range got.atts {
							if old, had := s.m.atts[id]; had {
								if old != c {
									okDerived = false
								}
								continue
							}
							fresh++
							if !strings.HasPrefix(id, name) || c != want.atts[name] {
								okDerived = false
							}
						}
						if okDerived && fresh == 1 {
							want.atts = got.atts
						}
					}
					if got.key() != want.key() {
						key := "model-mismatch:" + opk
						if r.Want(key) {
							r.Violation(key, fmt.Sprintf("doc %d after %v:\n  listed: %s\n  model : %s", di, path, got.key(), want.key()), rep)
						}
						continue
					}
					next[fi] = append(next[fi], state{out, want, path})
				}
			})
			var nf []state
			for _, ss := range next {
				for _, s := range ss {
					transitions++
					k := s.m.key()
					if !seen[k] {
						seen[k] = true
						states++
						nf = append(nf, s)
					}
				}
			}
			frontier = nf
			if len(frontier) > 0 {
				r.Sample(map[string]any{"initial_document": di, "path": frontier[len(frontier)/2].path, "model": frontier[len(frontier)/2].m.key()})
			}
		}
	}
	r.Count("states", states)
	r.Count("transitions", transitions)
	r.Note("traces_validated_against_impl", transitions)
	r.Note("depth", depth)
}


// c35KeyRoundTrips: every key / value of a hazard alphabet individually: add -> list shows exactly that pair ->
// remove by the same key -> gone (and the other pair untouched). Refusals of a key are counted, not judged.
func c35KeyRoundTrips(r *core.R) {
	base := docgen.Marked(2, 0)
	hazards := append([]string{"A#20B", "a#b", "#", "##", "#zz", "a b", "x/y", "(k)", "Ключ", "k\x00"}, c21Hazards...)
	conf := func() *model.Configuration { return newConf() }
	for _, h := range hazards {
		for _, asKey := range []bool{true, false} {
			k, v := "Plain", h
			if asKey {
				k, v = h, "plain value"
			}
			r.Eval(1)
			rep := map[string]any{"key": k, "value": v}
			var d1, d2, d3 bytes.Buffer
			if err := api.AddProperties(bytes.NewReader(base), &d1, map[string]string{"Other": "kept"}, conf()); err != nil {
				r.HarnessError("add Other: %v", err)
				return
			}
			if err := api.AddProperties(bytes.NewReader(d1.Bytes()), &d2, map[string]string{k: v}, conf()); err != nil {
				r.Count("property_refused", 1)
				continue
			}
			r.Nontrivial(1)
			ps, err := api.Properties(bytes.NewReader(d2.Bytes()), conf())
			if err != nil {
				r.Violation("property:unreadable-after-add", fmt.Sprintf("after AddProperties(%q=%q) the document cannot be listed: %v", k, v, err), rep)
				continue
			}
			if ps[k] != v || ps["Other"] != "kept" || len(ps) != 2 {
				r.Violation("property:add-list-mismatch", fmt.Sprintf("after AddProperties(%q=%q) the properties are %q", k, v, ps), rep)
				continue
			}
			if err := api.RemoveProperties(bytes.NewReader(d2.Bytes()), &d3, []string{k}, conf()); err != nil {
				r.Violation("property:remove-failed", fmt.Sprintf("RemoveProperties(%q) after adding it: %v", k, err), rep)
				continue
			}
			ps, err = api.Properties(bytes.NewReader(d3.Bytes()), conf())
			if err != nil || len(ps) != 1 || ps["Other"] != "kept" {
				r.Violation("property:remove-list-mismatch", fmt.Sprintf("after removing %q the properties are %q (err %v)", k, ps, err), rep)
			}
		}
	}
}

// c35CollidingKeys: pairs of property names one of which looks like the escaped spelling of the other ("K#41" vs
// "KA"): both are distinct keys of the key/value store whatever the order in which they are added or removed.
func c35CollidingKeys(r *core.R) {
	base := docgen.Marked(2, 0)
	pairs := [][2]string{{"K#41", "KA"}, {"a#20b", "a b"}, {"X#2341", "X#41"}, {"N#23", "N#"}, {"F#31", "F1"}}
	for _, p := range pairs {
		for _, ord := range [][2]string{{p[0], p[1]}, {p[1], p[0]}} {
			r.Eval(1)
			rep := map[string]any{"first": ord[0], "second": ord[1]}
			doc := base
			ok := true
			for i, k := range ord {
				var out bytes.Buffer
				if err := api.AddProperties(bytes.NewReader(doc), &out, map[string]string{k: fmt.Sprintf("value %d", i+1)}, newConf()); err != nil {
					r.Count("property_refused", 1)
					ok = false
					break
				}
				doc = out.Bytes()
			}
			if !ok {
				continue
			}
			r.Nontrivial(1)
			ps, err := api.Properties(bytes.NewReader(doc), newConf())
			if err != nil || len(ps) != 2 || ps[ord[0]] != "value 1" || ps[ord[1]] != "value 2" {
				if r.Want("property:colliding-names:add") {
					r.Violation("property:colliding-names:add", fmt.Sprintf("after adding %q=\"value 1\" then %q=\"value 2\" the properties are %q (err %v)", ord[0], ord[1], ps, err), rep)
				}
				continue
			}
			var out bytes.Buffer
			if err := api.RemoveProperties(bytes.NewReader(doc), &out, []string{ord[0]}, newConf()); err != nil {
				r.Violation("property:colliding-names:remove-failed", fmt.Sprintf("removing %q while %q exists: %v", ord[0], ord[1], err), rep)
				continue
			}
			ps, err = api.Properties(bytes.NewReader(out.Bytes()), newConf())
			if err != nil || len(ps) != 1 || ps[ord[1]] != "value 2" {
				if r.Want("property:colliding-names:remove") {
					r.Violation("property:colliding-names:remove", fmt.Sprintf("after removing %q (with %q present) the properties are %q (err %v)", ord[0], ord[1], ps, err), rep)
				}
			}
		}
	}
}

// c35ForeignDoc: a document that already carries metadata written by another producer: keywords in a UTF-16
// string, custom properties (one with an encoded name), page layout and mode, viewer preferences of several
// types held in an indirect object, and a two-level EmbeddedFiles tree one of whose names ("a.txt") is also
// used by the operation alphabet. The initial model is what pdfcpu lists for it; every edit afterwards must
// change exactly what it names.
func c35ForeignDoc() []byte {
	d := docgen.Simple([]docgen.PageSpec{{Marker: 1}, {Marker: 2}}, docgen.SimpleOpts{NoInfo: true})
	d.Info = d.Add("<</Title(foreign)/Producer(other)/Keywords" + c36utf16("alpha; ü €; beta gamma") + "/Company(ACME)/My#20Key(v1)/Trapped/False>>")
	vp := d.Add("<</HideToolbar true/HideMenubar false/Direction/R2L/PrintScaling/None/NonFullScreenPageMode/UseOutlines/NumCopies 2>>")
	mk := func(k, content string) string {
		ef := d.AddStream("<</Type/EmbeddedFile>>", []byte(content))
		fs := d.Add(fmt.Sprintf("<</Type/Filespec/F%s/UF%s/EF<</F %s>>>>", docgen.HexStr(k), docgen.HexStr(k), docgen.Ref(ef)))
		return docgen.HexStr(k) + " " + docgen.Ref(fs)
	}
	l1 := d.Add(fmt.Sprintf("<</Limits[%s %s]/Names[%s]>>", docgen.HexStr("a.txt"), docgen.HexStr("a.txt"), mk("a.txt", "foreign a")))
	l2 := d.Add(fmt.Sprintf("<</Limits[%s %s]/Names[%s]>>", docgen.HexStr("m.txt"), docgen.HexStr("m.txt"), mk("m.txt", "foreign m")))
	l3 := d.Add(fmt.Sprintf("<</Limits[%s %s]/Names[%s]>>", docgen.HexStr("z.txt"), docgen.HexStr("z.txt"), mk("z.txt", "foreign z")))
	mid := d.Add(fmt.Sprintf("<</Limits[%s %s]/Kids[%s %s %s]>>", docgen.HexStr("a.txt"), docgen.HexStr("z.txt"), docgen.Ref(l1), docgen.Ref(l2), docgen.Ref(l3)))
	top := d.Add(fmt.Sprintf("<</Kids[%s]>>", docgen.Ref(mid)))
	// the same keywords once more in the catalog's XMP packet, as most producers write them
	md := d.AddStream("<</Type/Metadata/Subtype/XML>>", []byte("<?xpacket begin='' id='W5M0MpCehiHzreSzNTczkc9d'?><x:xmpmeta xmlns:x='adobe:ns:meta/'><rdf:RDF xmlns:rdf='http://www.w3.org/1999/02/22-rdf-syntax-ns#'><rdf:Description rdf:about='' xmlns:pdf='http://ns.adobe.com/pdf/1.3/'><pdf:Keywords>alpha; ü €; beta gamma</pdf:Keywords><pdf:Producer>other</pdf:Producer></rdf:Description></rdf:RDF></x:xmpmeta><?xpacket end='w'?>"))
	d.PatchCatalog(fmt.Sprintf("/PageLayout/TwoColumnLeft/PageMode/UseOutlines/ViewerPreferences %s/Names<</EmbeddedFiles %s>>/Metadata %s", docgen.Ref(vp), docgen.Ref(top), docgen.Ref(md)))
	return d.Bytes()
}
