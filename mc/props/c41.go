package props

import (
	"bytes"
	"encoding/json"
	"fmt"
	"io"
	"os"
	"path/filepath"
	"reflect"
	"regexp"
	"sort"
	"strings"

	"github.com/pdfcpu/pdfcpu/pkg/api"
	"github.com/pdfcpu/pdfcpu/pkg/pdfcpu/model"
	"verif/mc/core"
	"verif/mc/fsx"
	"verif/mc/pdfx"
)

// C41: CLI streams and machine-readable output behave like the file interface.
func init() {
	core.Register(&core.Check{
		ID:    "C41",
		Level: "exploration",
		Rule: "commands and their stdin/stdout capability are discovered from the real binary's help texts ('use - to read from stdin' / 'use - to write to stdout'); for every command template (the C04 table plus listing/JSON commands and the input-less forms of create/import/merge) the stream variants {stdin->'-', stdin->omitted, file->'-', stdin->file} that the help documents are run against the file->file reference, x configuration directory {fresh, existing}; oracle: stream variant exits 0 iff the file variant does, stdout is exactly one PDF (starts %PDF-, ends %%EOF, no other text) whose canonical object graph (catalog + info, dates/ids skipped) equals the file variant's, JSON commands print exactly one JSON value equal to the file variant's (source name normalised); invalid inputs {garbage, empty, missing file, missing password} x every variant must exit non-zero; multi-input commands (info, info --json, validate, merge) x member order x one non-PDF member supplied as a file or on stdin must exit non-zero; " +
			"non-trivial = a stream variant compared with its file reference, or an invalid-input run",
		Assume: []string{"the binary is rebuilt from /repo's working tree by bin/build before the check runs"},
		Run:    runC41,
	})
}

type c41Tmpl struct {
	name    string
	args    []string // IN, OUT placeholders
	input   string
	out     string // pdf | json | text | jsonstdout (JSON printed on stdout regardless of '-')
	inplace bool
	// documented restrictions (merge --help: "use - to read from stdin for the first inFile in create mode only";
	// append writes into an existing outFile, so stdout is refused)
	noStdin, noStdout bool
}

func c41Templates() []c41Tmpl {
	var ts []c41Tmpl
	for k, t := range cliTemplates() {
		if k == "extract#font" {
			continue // the generated inputs embed no font program: nothing is produced
		}
		if t.outKind == "dir" {
			if hasArg(t.args, "IN") && (strings.HasSuffix(t.input, ".pdf") || t.input == "") {
				a := append([]string{}, t.args...)
				for i := range a {
					if a[i] == "OUTDIR" {
						a[i] = "outdir"
					}
				}
				ts = append(ts, c41Tmpl{name: k, args: a, input: t.input, out: "dir"})
			}
			continue
		}
		kind := "pdf"
		if t.outKind == "json" {
			kind = "json"
		}
		ct := c41Tmpl{name: k, args: t.args, input: t.input, out: kind, inplace: t.inplace}
		switch k {
		case "merge":
			// file-name wrapper bookmarks cannot exist for a nameless stdin input: the equivalent
			// file-based invocation is the one without them; merge#bookmarks keeps the default for file->stdout
			ct.args = []string{"merge", "-b=false", "OUT", "IN", "other.pdf"}
			ts = append(ts, c41Tmpl{name: "merge#bookmarks", args: t.args, out: "pdf", noStdin: true})
		case "merge#zip":
			ct.noStdin = true
		case "merge#append":
			ct.noStdin, ct.noStdout = true, true
		}
		ts = append(ts, ct)
	}
	ts = append(ts,
		c41Tmpl{name: "create#with-input", args: []string{"create", "form.json", "IN", "OUT"}, input: "", out: "pdf", inplace: false},
		c41Tmpl{name: "extract#page-stdout", args: []string{"extract", "-m", "page", "-p", "2", "IN", "OUT"}, input: "", out: "pdfdir", inplace: false},
		c41Tmpl{name: "info", args: []string{"info", "IN"}, input: "", out: "text", inplace: false},
		c41Tmpl{name: "info#json", args: []string{"info", "--json", "IN"}, input: "", out: "jsonstdout", inplace: false},
		c41Tmpl{name: "info#json-enc", args: []string{"info", "--json", "--upw", "upw", "IN"}, input: "enc.pdf", out: "jsonstdout", inplace: false},
		c41Tmpl{name: "validate", args: []string{"validate", "IN"}, input: "", out: "text", inplace: false},
		c41Tmpl{name: "annotations list", args: []string{"annotations", "list", "IN"}, input: "annot.pdf", out: "text", inplace: false},
		c41Tmpl{name: "annotations list#json", args: []string{"annotations", "list", "--json", "IN"}, input: "annot.pdf", out: "jsonstdout", inplace: false},
		c41Tmpl{name: "attachments list", args: []string{"attachments", "list", "IN"}, input: "att.pdf", out: "text", inplace: false},
		c41Tmpl{name: "bookmarks list", args: []string{"bookmarks", "list", "IN"}, input: "bm.pdf", out: "text", inplace: false},
		c41Tmpl{name: "boxes list", args: []string{"boxes", "list", "IN"}, input: "box.pdf", out: "text", inplace: false},
		c41Tmpl{name: "form list", args: []string{"form", "list", "IN"}, input: "form.pdf", out: "text", inplace: false},
		c41Tmpl{name: "form list#json", args: []string{"form", "list", "--json", "IN"}, input: "form.pdf", out: "jsonstdout", inplace: false},
		c41Tmpl{name: "images list", args: []string{"images", "list", "IN"}, input: "img.pdf", out: "text", inplace: false},
		c41Tmpl{name: "keywords list", args: []string{"keywords", "list", "IN"}, input: "kw.pdf", out: "text", inplace: false},
		c41Tmpl{name: "properties list", args: []string{"properties", "list", "IN"}, input: "prop.pdf", out: "text", inplace: false},
		c41Tmpl{name: "permissions list", args: []string{"permissions", "list", "--upw", "upw", "IN"}, input: "enc.pdf", out: "text", inplace: false},
		c41Tmpl{name: "viewerpref list", args: []string{"viewerpref", "list", "IN"}, input: "vp.pdf", out: "text", inplace: false},
		c41Tmpl{name: "viewerpref list#json", args: []string{"viewerpref", "list", "--json", "IN"}, input: "vp.pdf", out: "jsonstdout", inplace: false},
		c41Tmpl{name: "pagelayout list", args: []string{"pagelayout", "list", "IN"}, input: "pl.pdf", out: "text", inplace: false},
		c41Tmpl{name: "pagemode list", args: []string{"pagemode", "list", "IN"}, input: "pm.pdf", out: "text", inplace: false},
		c41Tmpl{name: "portfolio list", args: []string{"portfolio", "list", "IN"}, input: "portfolio.pdf", out: "text", inplace: false},
		c41Tmpl{name: "certificates list#json", args: []string{"certificates", "list", "--json"}, input: "", out: "jsonstdout", inplace: false},
	)
	sort.Slice(ts, func(i, j int) bool { return ts[i].name < ts[j].name })
	return ts
}

// oneJSON reports whether b is exactly one JSON value (surrounded by whitespace only).
func oneJSON(b []byte) (any, error) {
	dec := json.NewDecoder(bytes.NewReader(b))
	var v any
	if err := dec.Decode(&v); err != nil {
		return nil, fmt.Errorf("not JSON: %v", err)
	}
	if _, err := dec.Token(); err != io.EOF {
		return nil, fmt.Errorf("text after the JSON value")
	}
	return v, nil
}

// normJSON replaces every string equal to a source name by "<src>".
func normJSON(v any, names ...string) any {
	switch x := v.(type) {
	case map[string]any:
		if h, ok := x["header"].(map[string]any); ok {
			delete(h, "creation") // wall-clock time of the run
		}
		for k, e := range x {
			x[k] = normJSON(e, names...)
		}
	case []any:
		objs := len(x) > 0
		for i, e := range x {
			x[i] = normJSON(e, names...)
			if _, ok := x[i].(map[string]any); !ok {
				objs = false
			}
		}
		if objs {
			// pdfcpu emits form fields in map-iteration order, which varies between two runs of the
			// same command on the same file: lists of objects are compared as multisets
			sort.SliceStable(x, func(i, j int) bool {
				a, _ := json.Marshal(x[i])
				b, _ := json.Marshal(x[j])
				return string(a) < string(b)
			})
		}
	case string:
		for _, n := range names {
			if x == n {
				return "<src>"
			}
		}
	}
	return v
}

var c41Skip = map[string]bool{"ModDate": true, "CreationDate": true, "Metadata": true, "ID": true, "M": true}

func c41Canon(b []byte) (string, error) {
	var last error
	for _, pw := range [][2]string{{"", ""}, {"upw", "opw"}, {"", "o"}, {"new", "opw"}, {"upw", "new"}} {
		conf := model.NewDefaultConfiguration()
		conf.ValidationMode = model.ValidationRelaxed
		conf.UserPW, conf.OwnerPW = pw[0], pw[1]
		ctx, err := pdfx.Read(b, conf)
		if err != nil {
			last = err
			continue
		}
		s := pdfx.Canon(ctx, *ctx.Root, c41Skip)
		if ctx.Info != nil {
			s += "\nINFO " + pdfx.Canon(ctx, *ctx.Info, c41Skip)
		}
		s += fmt.Sprintf("\nENC %v", ctx.Encrypt != nil)
		// font subset tags are random per run
		return c41SubsetTag.ReplaceAllString(s, "/AAAAAA+"), nil
	}
	return "", last
}

// c41DirCanon: the multiset of produced files (PDFs canonically, others by bytes), names ignored
// because they are derived from the input name, which stdin does not have.
func c41DirCanon(dir string) (string, error) {
	es, err := os.ReadDir(dir)
	if err != nil {
		return "", err
	}
	var items []string
	for _, e := range es {
		b, err := os.ReadFile(filepath.Join(dir, e.Name()))
		if err != nil {
			return "", err
		}
		if strings.HasSuffix(e.Name(), ".pdf") {
			c, err := c41Canon(b)
			if err != nil {
				return "", fmt.Errorf("%s: %w", e.Name(), err)
			}
			items = append(items, c)
		} else {
			items = append(items, filepath.Ext(e.Name())+":"+string(b))
		}
	}
	if len(items) == 0 {
		return "", fmt.Errorf("no files produced")
	}
	sort.Strings(items)
	return strings.Join(items, "\n====\n"), nil
}

var c41SubsetTag = regexp.MustCompile(`/[A-Z]{6}\+`)

func cleanPDFStream(b []byte) string {
	if !bytes.HasPrefix(b, []byte("%PDF-")) {
		return fmt.Sprintf("stdout does not start with %%PDF- but with %q", trimTo(string(b), 60))
	}
	t := bytes.TrimRight(b, "\r\n")
	if !bytes.HasSuffix(t, []byte("%%EOF")) {
		tail := b
		if len(tail) > 60 {
			tail = tail[len(tail)-60:]
		}
		return fmt.Sprintf("stdout does not end with %%%%EOF but with %q", string(tail))
	}
	return ""
}

type c41Variant struct {
	name    string
	in, out string // "file", "stdin", "none" / "file", "stdout", "omitted", "none"
}

func runC41(r *core.R) {
	api.DisableConfigDir()
	if _, err := os.Stat(cliBin()); err != nil {
		r.HarnessError("CLI binary missing: %v", err)
		return
	}
	leaves, err := discoverCLI()
	if err != nil {
		r.HarnessError("command discovery: %v", err)
		return
	}
	// capability from the help text of each leaf
	type caps struct{ stdin, stdout bool }
	cap := map[string]caps{}
	for leaf := range leaves {
		res := runCLI(os.TempDir(), nil, append(strings.Fields(leaf), "--help")...)
		h := string(res.stdout) + string(res.stderr)
		cap[leaf] = caps{strings.Contains(h, "to read from stdin"), strings.Contains(h, "to write to stdout") || strings.Contains(h, "to stdout")}
	}
	nIn, nOut := 0, 0
	var undriven []string
	ts := c41Templates()
	driven := map[string]bool{}
	for _, t := range ts {
		driven[leafOf(t.name)] = true
	}
	for leaf, c := range cap {
		if c.stdin {
			nIn++
		}
		if c.stdout {
			nOut++
		}
		if (c.stdin || c.stdout) && !driven[leaf] {
			undriven = append(undriven, leaf)
		}
	}
	sort.Strings(undriven)
	r.Note("leaf_commands_discovered", len(leaves))
	r.Note("leaves_documenting_stdin", nIn)
	r.Note("leaves_documenting_stdout", nOut)
	r.Note("stream_capable_leaves_without_template", undriven)
	base := core.Scratch("c41")
	defer os.RemoveAll(base)
	fixdir := filepath.Join(base, "fix")
	os.MkdirAll(fixdir, 0o755)
	if err := cliFixtures(fixdir); err != nil {
		r.HarnessError("fixtures: %v", err)
		return
	}
	type job struct {
		t       c41Tmpl
		cfg     string // fresh | existing
		invalid string // "" | garbage | empty | missing | nopw
	}
	var jobs []job
	for _, t := range ts {
		for _, cfg := range []string{"fresh", "existing"} {
			jobs = append(jobs, job{t, cfg, ""})
		}
		if hasArg(t.args, "IN") {
			for _, inv := range []string{"garbage", "empty", "missing", "nopw"} {
				jobs = append(jobs, job{t, "existing", inv})
			}
		}
	}
	// commands taking several inputs: one failing member (file or stdin) must make the whole command fail
	type multi struct {
		name  string
		args  []string // GOOD, BAD placeholders
		stdin bool     // BAD is "-" (garbage on stdin)
	}
	var multis []multi
	for _, base := range [][]string{{"info"}, {"info", "--json"}, {"validate"}, {"merge", "out.pdf"}} {
		for _, order := range [][]string{{"GOOD", "BAD"}, {"BAD", "GOOD"}, {"GOOD", "GOOD", "BAD"}} {
			for _, viaStdin := range []bool{false, true} {
				if viaStdin && !cap[base[0]].stdin {
					continue
				}
				multis = append(multis, multi{strings.Join(base, " ") + " " + strings.Join(order, " "), append(append([]string{}, base...), order...), viaStdin})
			}
		}
	}
	core.ParFor(len(multis), func(mi int) {
		m := multis[mi]
		d := filepath.Join(base, fmt.Sprintf("m%d", mi))
		defer os.RemoveAll(d)
		if err := fsx.CopyTree(fixdir, d); err != nil {
			r.HarnessError("copy: %v", err)
			return
		}
		garbage := []byte("hello, this is not a PDF at all\n")
		os.WriteFile(filepath.Join(d, "bad.pdf"), garbage, 0o644)
		var args []string
		var stdin []byte
		for _, a := range m.args {
			switch a {
			case "GOOD":
				args = append(args, "in.pdf")
			case "BAD":
				if m.stdin {
					args = append(args, "-")
					stdin = garbage
				} else {
					args = append(args, "bad.pdf")
				}
			default:
				args = append(args, a)
			}
		}
		res := runCLI(d, stdin, args...)
		r.Eval(1)
		r.Nontrivial(1)
		r.SetAdd("multi_input_cases", m.name+fmt.Sprint(" stdin=", m.stdin))
		if res.code == 0 {
			r.Violation("failing-member-exit-0:"+strings.Fields(m.name)[0]+fmt.Sprint(":json=", strings.Contains(m.name, "--json"), ":stdin=", m.stdin), fmt.Sprintf("pdfcpu %s (one input is not a PDF%s) exits 0; stdout starts %q", strings.Join(args, " "), map[bool]string{true: ", supplied on stdin", false: ""}[m.stdin], trimTo(string(res.stdout), 120)), map[string]any{"args": args, "bad_on_stdin": m.stdin})
		}
	})
	r.Note("templates", len(ts))
	r.Note("template_jobs", len(jobs))
	core.ParFor(len(jobs), func(ji int) {
		j := jobs[ji]
		t := j.t
		leaf := leafOf(t.name)
		c := cap[leaf]
		if t.noStdin {
			c.stdin = false
		}
		if t.noStdout {
			c.stdout = false
		}
		dir := filepath.Join(base, fmt.Sprintf("j%d", ji))
		defer os.RemoveAll(dir)
		inName := t.input
		if inName == "" {
			inName = "in.pdf"
		}
		hasIn, hasOut := hasArg(t.args, "IN"), hasArg(t.args, "OUT")
		var inBytes []byte
		setup := func(sub string) string {
			d := filepath.Join(dir, sub)
			if err := fsx.CopyTree(fixdir, d); err != nil {
				r.HarnessError("copy: %v", err)
			}
			b, _ := os.ReadFile(filepath.Join(d, inName))
			switch j.invalid {
			case "garbage":
				b = []byte("hello, this is not a PDF at all\n")
			case "empty":
				b = []byte{}
			case "nopw":
				b, _ = os.ReadFile(filepath.Join(d, "enc.pdf"))
			}
			inBytes = b
			if j.invalid != "missing" {
				os.WriteFile(filepath.Join(d, "work.pdf"), b, 0o644)
			}
			if j.cfg == "existing" {
				runCLI(d, nil, "version")
			}
			return d
		}
		mkArgs := func(in, out string) []string {
			var a []string
			for _, x := range t.args {
				switch x {
				case "IN":
					a = append(a, in)
				case "OUT":
					if out != "" {
						a = append(a, out)
					}
				default:
					if j.invalid == "nopw" && (x == "--upw" || x == "--opw" || x == "upw" || x == "opw") && hasArg(t.args, "--upw") {
						continue
					}
					a = append(a, x)
				}
			}
			return a
		}
		outName := "out.pdf"
		if t.out == "json" {
			outName = "out.json"
		}
		if t.out == "pdfdir" {
			outName = "outdir"
		}
		// reference: file -> file
		refDir := setup("ref")
		if t.out == "pdfdir" || t.out == "dir" {
			os.Mkdir(filepath.Join(refDir, "outdir"), 0o755)
		}
		refArgs := mkArgs("work.pdf", outName)
		ref := runCLI(refDir, nil, refArgs...)
		r.Eval(1)
		rep := map[string]any{"template": t.name, "config": j.cfg, "invalid": j.invalid, "reference_args": refArgs}
		if j.invalid != "" {
			r.Nontrivial(1)
			if j.invalid == "nopw" && t.input == "enc.pdf" && !hasArg(t.args, "--upw") {
				return
			}
			if ref.code == 0 {
				r.Violation("invalid-input-exit-0:"+t.name+":"+j.invalid+":file", fmt.Sprintf("pdfcpu %s with %s input exits 0 (stderr %q)", strings.Join(refArgs, " "), j.invalid, trimTo(string(ref.stderr), 160)), rep)
			}
		} else if ref.code != 0 {
			r.Violation("valid-invocation-failed:"+t.name, fmt.Sprintf("pdfcpu %s failed: exit %d, stderr %q", strings.Join(refArgs, " "), ref.code, trimTo(string(ref.stderr), 300)), rep)
			return
		}
		var refDoc []byte
		var refCanon string
		var refJSON any
		if j.invalid == "" {
			switch t.out {
			case "pdf":
				refDoc, _ = os.ReadFile(filepath.Join(refDir, outName))
				refCanon, err = c41Canon(refDoc)
				if err != nil {
					r.HarnessError("%s: reference output unreadable: %v", t.name, err)
					return
				}
			case "pdfdir":
				es, _ := os.ReadDir(filepath.Join(refDir, "outdir"))
				if len(es) != 1 {
					r.HarnessError("%s: expected one extracted page, got %d", t.name, len(es))
					return
				}
				refDoc, _ = os.ReadFile(filepath.Join(refDir, "outdir", es[0].Name()))
				refCanon, err = c41Canon(refDoc)
				if err != nil {
					r.HarnessError("%s: reference output unreadable: %v", t.name, err)
					return
				}
			case "dir":
				refCanon, err = c41DirCanon(filepath.Join(refDir, "outdir"))
				if err != nil {
					r.HarnessError("%s: reference outputs unreadable: %v", t.name, err)
					return
				}
			case "json":
				b, _ := os.ReadFile(filepath.Join(refDir, outName))
				v, err := oneJSON(b)
				if err != nil {
					r.Violation("json-file-output-invalid:"+t.name, fmt.Sprintf("pdfcpu %s wrote %s that is not one JSON value: %v", strings.Join(refArgs, " "), outName, err), rep)
					return
				}
				refJSON = normJSON(v, "work.pdf", "-", "stdin")
			case "jsonstdout":
				v, err := oneJSON(ref.stdout)
				if err != nil {
					r.Violation("json-stdout-invalid:"+t.name+":file:"+j.cfg, fmt.Sprintf("pdfcpu %s (config dir %s): stdout is not exactly one JSON value: %v; stdout starts %q", strings.Join(refArgs, " "), j.cfg, err, trimTo(string(ref.stdout), 200)), rep)
					return
				}
				refJSON = normJSON(v, "work.pdf", "-", "stdin")
			}
		}
		// stream variants
		var vs []c41Variant
		probe := false
		if j.invalid == "" && hasIn && !c.stdin && !t.noStdin {
			// not documented: accepted anyway? (exit 0 on stdin input means the command claims to have processed it)
			c.stdin, probe = true, true
		}
		if hasIn && c.stdin {
			if hasOut && c.stdout {
				vs = append(vs, c41Variant{"stdin->stdout", "stdin", "stdout"})
				if t.inplace {
					vs = append(vs, c41Variant{"stdin->omitted", "stdin", "omitted"})
				}
			}
			if hasOut {
				vs = append(vs, c41Variant{"stdin->file", "stdin", "file"})
			} else {
				vs = append(vs, c41Variant{"stdin", "stdin", "none"})
			}
		}
		if hasOut && c.stdout {
			if hasIn {
				vs = append(vs, c41Variant{"file->stdout", "file", "stdout"})
			} else {
				vs = append(vs, c41Variant{"->stdout", "none", "stdout"})
			}
		}
		if t.out == "pdfdir" {
			vs = []c41Variant{{"stdin->stdout", "stdin", "stdout"}, {"file->stdout", "file", "stdout"}}
		}
		for _, v := range vs {
			if j.invalid == "missing" && v.in == "stdin" {
				continue
			}
			d := setup("v-" + strings.NewReplacer(">", "", "-", "").Replace(v.name))
			if t.out == "dir" {
				os.Mkdir(filepath.Join(d, "outdir"), 0o755)
			}
			in, out := "work.pdf", outName
			var stdin []byte
			if v.in == "stdin" {
				in = "-"
				stdin = inBytes
				if stdin == nil {
					stdin = []byte{}
				}
			}
			switch v.out {
			case "stdout":
				out = "-"
			case "omitted":
				out = ""
			}
			args := mkArgs(in, out)
			res := runCLI(d, stdin, args...)
			r.Eval(1)
			r.Nontrivial(1)
			r.SetAdd("variants_run", t.name+" "+v.name)
			vrep := map[string]any{"template": t.name, "variant": v.name, "config": j.cfg, "invalid": j.invalid, "args": args}
			cmdline := "pdfcpu " + strings.Join(args, " ")
			if j.invalid != "" {
				if res.code == 0 {
					r.Violation("invalid-input-exit-0:"+t.name+":"+j.invalid+":"+v.name, fmt.Sprintf("%s with %s input exits 0 (stderr %q)", cmdline, j.invalid, trimTo(string(res.stderr), 160)), vrep)
				}
				continue
			}
			if res.code != 0 && probe && v.in == "stdin" {
				r.SetAdd("undocumented_stdin_not_accepted", t.name)
				continue
			}
			if probe && v.in == "stdin" {
				r.SetAdd("undocumented_stdin_accepted_and_judged", t.name)
			}
			if res.code != 0 {
				r.Violation("stream-variant-fails:"+t.name+":"+v.name, fmt.Sprintf("%s (config dir %s) exits %d although the file-based form succeeds; stderr %q", cmdline, j.cfg, res.code, trimTo(string(res.stderr), 300)), vrep)
				continue
			}
			toStdout := v.out == "stdout" || v.out == "omitted"
			switch t.out {
			case "pdf", "pdfdir":
				var doc []byte
				if toStdout {
					doc = res.stdout
					if m := cleanPDFStream(doc); m != "" {
						r.Violation("stdout-not-a-clean-document:"+t.name+":"+v.name+":"+j.cfg, fmt.Sprintf("%s (config dir %s): %s", cmdline, j.cfg, m), vrep)
						continue
					}
				} else {
					doc, _ = os.ReadFile(filepath.Join(d, outName))
					if len(res.stdout) > 0 && bytes.Contains(res.stdout, []byte("%PDF-")) {
						r.Violation("document-on-stdout-in-file-mode:"+t.name+":"+v.name, cmdline+": a document was printed on stdout although an output file was named", vrep)
					}
				}
				cn, err := c41Canon(doc)
				if err != nil {
					r.Violation("stream-output-unreadable:"+t.name+":"+v.name, fmt.Sprintf("%s: the produced document cannot be read: %v", cmdline, err), vrep)
					continue
				}
				if cn != refCanon {
					r.Violation("stream-output-differs:"+t.name+":"+v.name, fmt.Sprintf("%s: the produced document differs from the file-based result (%s)", cmdline, firstDiff(refCanon, cn)), vrep)
				}
			case "dir":
				cn, err := c41DirCanon(filepath.Join(d, "outdir"))
				if err != nil {
					r.Violation("stream-output-unreadable:"+t.name+":"+v.name, fmt.Sprintf("%s: a produced file cannot be read: %v", cmdline, err), vrep)
					continue
				}
				if cn != refCanon {
					r.Violation("stream-output-differs:"+t.name+":"+v.name, fmt.Sprintf("%s: the produced files differ from the file-based result (%s)", cmdline, firstDiff(refCanon, cn)), vrep)
				}
			case "json", "jsonstdout":
				b := res.stdout
				if t.out == "json" && !toStdout {
					b, _ = os.ReadFile(filepath.Join(d, outName))
				}
				val, err := oneJSON(b)
				if err != nil {
					r.Violation("json-stdout-invalid:"+t.name+":"+v.name+":"+j.cfg, fmt.Sprintf("%s (config dir %s): output is not exactly one JSON value: %v; it starts %q", cmdline, j.cfg, err, trimTo(string(b), 200)), vrep)
					continue
				}
				if !reflect.DeepEqual(normJSON(val, "work.pdf", "-", "stdin"), refJSON) {
					ja, _ := json.Marshal(refJSON)
					jb, _ := json.Marshal(val)
					r.Violation("json-differs:"+t.name+":"+v.name, fmt.Sprintf("%s: JSON differs from the file-based result (%s)", cmdline, firstDiff(string(ja), string(jb))), vrep)
				}
			}
		}
		if ji%37 == 0 {
			r.Sample(rep)
		}
	})
}

