// Package fsx drives the vos shim: fault plans, event traces, directory snapshots and diffs.
package fsx

import (
	"crypto/sha256"
	"fmt"
	"io/fs"
	"os"
	"path/filepath"
	"regexp"
	"sort"
	"strings"
	"syscall"

	vos "github.com/pdfcpu/pdfcpu/vx/vos"
)

// ---------------------------------------------------------------------------------------
// snapshots

type Entry struct {
	Mode fs.FileMode
	Size int64
	Sum  [32]byte
	Link string
	Ino  uint64
}

type Tree map[string]Entry

// Snap records names, type, permission bits, content hash and link targets below root.
func Snap(root string) Tree {
	t := Tree{}
	filepath.Walk(root, func(p string, info os.FileInfo, err error) error {
		if err != nil || p == root {
			return nil
		}
		rel, _ := filepath.Rel(root, p)
		e := Entry{Mode: info.Mode()}
		if st, ok := info.Sys().(*syscall.Stat_t); ok {
			e.Ino = st.Ino
		}
		switch {
		case info.Mode()&os.ModeSymlink != 0:
			e.Link, _ = os.Readlink(p)
		case info.Mode().IsRegular():
			b, _ := os.ReadFile(p)
			e.Size = int64(len(b))
			e.Sum = sha256.Sum256(b)
		}
		t[rel] = e
		return nil
	})
	return t
}

var stagingRe = regexp.MustCompile(`(^|/)\.[^/]*\.tmp-[^/]*$|(^|/)\.pdfcpu-[^/]*$|\.pdfcpu-reservation-[^/]*$|(^|/)pdfcpu-stdin-[^/]*\.pdf$|(^|/)\.[^/]*\.(bak|backup|stage|staging)[^/]*$`)

// IsStaging reports whether a relative name looks like one of pdfcpu's staging/temporary names.
func IsStaging(rel string) bool { return stagingRe.MatchString(rel) }

// Diff lists differences between two snapshots (ignoring inode numbers).
func Diff(a, b Tree) []string {
	var out []string
	names := map[string]bool{}
	for k := range a {
		names[k] = true
	}
	for k := range b {
		names[k] = true
	}
	ks := make([]string, 0, len(names))
	for k := range names {
		ks = append(ks, k)
	}
	sort.Strings(ks)
	for _, k := range ks {
		x, okx := a[k]
		y, oky := b[k]
		switch {
		case okx && !oky:
			out = append(out, "removed:"+k)
		case !okx && oky:
			if y.Mode.IsDir() {
				out = append(out, "new-dir:"+k)
			} else {
				out = append(out, fmt.Sprintf("new:%s(%d bytes)", k, y.Size))
			}
		default:
			if x.Mode != y.Mode {
				out = append(out, fmt.Sprintf("mode:%s(%v->%v)", k, x.Mode, y.Mode))
			}
			if x.Sum != y.Sum || x.Link != y.Link {
				out = append(out, fmt.Sprintf("content:%s(%d->%d bytes)", k, x.Size, y.Size))
			}
		}
	}
	return out
}

// ---------------------------------------------------------------------------------------
// fault plans and traces

// Fault addresses one event either by its 1-based global index (At) or, when Class is set, as
// the K-th occurrence of an event class (kind + canonical path). Class addressing is stable
// under the one nondeterminism source the shims do not own (Go map iteration order changes the
// order in which pdfcpu reads objects, hence the interleaving of read/seek events).
type Fault struct {
	At    int    `json:"at,omitempty"`
	Class string `json:"class,omitempty"`
	K     int    `json:"k,omitempty"`
	Kind  string `json:"kind"` // errno | short | panic
	// Errno selects the error of an errno fault: "" = EIO, "EACCES", "EMFILE", "ENOSPC", "EROFS".
	Errno string `json:"errno,omitempty"`
}

// Class returns the event class of a traced event.
func (e Ev) Class() string {
	s := e.Kind + " " + e.Path
	if e.P2 != "" && e.Kind != "createtemp" && e.Kind != "mkdirtemp" {
		s += " -> " + e.P2
	}
	return s
}

type Ev struct {
	Kind string `json:"k"`
	Path string `json:"p"`           // canonical (relative to root, temp names normalised)
	P2   string `json:"p2,omitempty"`
	Err  bool   `json:"err,omitempty"`
	N    int    `json:"n,omitempty"`
}

func (e Ev) String() string {
	s := e.Kind + " " + e.Path
	if e.P2 != "" {
		s += " -> " + e.P2
	}
	return s
}

// InjectedPanic is the value raised by a panic fault.
type InjectedPanic struct{ At int }

func (p InjectedPanic) String() string { return fmt.Sprintf("injected panic at event %d", p.At) }

type Ctl struct {
	Root   string
	Plan   []Fault
	Trace  []Ev
	Fired  []int
	count  int
	classN map[string]int
	Filter func(ev *vos.Event) bool // nil = count events whose path is under Root
	OnEvent func(n int, ev *vos.Event) // called for each counted event before the decision
	OnMid   func(n int, ev *vos.Event)
	SplitWrites bool
}

var tmpRes = []*regexp.Regexp{
	regexp.MustCompile(`\.tmp-[0-9A-Za-z]+`),
	regexp.MustCompile(`\.pdfcpu-([a-z\-]+)-[0-9]+`),
	regexp.MustCompile(`pdfcpu-reservation-[0-9a-f]+`),
	regexp.MustCompile(`pdfcpu-stdin-[0-9]+`),
	regexp.MustCompile(`(pdfcpu[a-zA-Z\-_.]*?)[0-9]{6,}`),
	// hidden transaction files/directories with a random decimal suffix: .one.p7c.stage-3331133704, .input-1-2620386617
	regexp.MustCompile(`(^|/)(\.[^/]*?-)[0-9]{6,}`),
}

// Canon makes a path relative to root and normalises random temp-name suffixes.
func (c *Ctl) Canon(p string) string {
	if p == "" {
		return ""
	}
	if !filepath.IsAbs(p) {
		if wd, err := os.Getwd(); err == nil {
			p = filepath.Join(wd, p)
		}
	}
	if rel, err := filepath.Rel(c.Root, p); err == nil && !strings.HasPrefix(rel, "..") {
		p = rel
	}
	return CanonName(p)
}

// CanonName normalises random temp-name suffixes (no path resolution).
func CanonName(p string) string {
	p = tmpRes[0].ReplaceAllString(p, ".tmp-*")
	p = tmpRes[2].ReplaceAllString(p, "pdfcpu-reservation-*")
	p = tmpRes[1].ReplaceAllString(p, ".pdfcpu-$1-*")
	p = tmpRes[3].ReplaceAllString(p, "pdfcpu-stdin-*")
	p = tmpRes[4].ReplaceAllString(p, "$1*")
	p = tmpRes[5].ReplaceAllString(p, "$1$2*")
	return p
}

func (c *Ctl) under(p string) bool {
	if p == "" {
		return false
	}
	if !filepath.IsAbs(p) {
		return true
	}
	rel, err := filepath.Rel(c.Root, p)
	return err == nil && !strings.HasPrefix(rel, "..")
}

// Install makes c the controller of the vos shim.
func (c *Ctl) Install() {
	c.count = 0
	c.classN = map[string]int{}
	c.Trace = c.Trace[:0]
	c.Fired = nil
	vos.ResetSeq()
	vos.SkipRealSync = true
	vos.Before = func(ev *vos.Event) error {
		if c.Filter != nil {
			if !c.Filter(ev) {
				return nil
			}
		} else if !c.under(ev.Path) && !c.under(ev.Path2) {
			return nil
		}
		c.count++
		n := c.count
		e := Ev{Kind: ev.Kind, Path: c.Canon(ev.Path), N: ev.N}
		if ev.Kind == "rename" || ev.Kind == "link" || ev.Kind == "symlink" {
			e.P2 = c.Canon(ev.Path2)
		}
		c.Trace = append(c.Trace, e)
		ev.Seq = n
		cls := e.Class()
		c.classN[cls]++
		ck := c.classN[cls]
		if c.OnEvent != nil {
			c.OnEvent(n, ev)
		}
		if c.SplitWrites && (ev.Kind == "write" || ev.Kind == "writeat") && ev.N >= 2 {
			ev.Split = ev.N / 2
		}
		for _, f := range c.Plan {
			if f.Class != "" {
				if f.Class != cls || f.K != ck {
					continue
				}
			} else if f.At != n {
				continue
			}
			c.Fired = append(c.Fired, n)
			c.Trace[len(c.Trace)-1].Err = true
			switch f.Kind {
			case "panic":
				panic(InjectedPanic{At: n})
			case "short":
				if ev.Kind == "write" || ev.Kind == "writeat" {
					ev.Short = ev.N / 2
					return syscall.ENOSPC
				}
				return syscall.EIO
			default:
				switch f.Errno {
				case "EACCES":
					return syscall.EACCES
				case "EMFILE":
					return syscall.EMFILE
				case "ENOSPC":
					return syscall.ENOSPC
				case "EROFS":
					return syscall.EROFS
				}
				return syscall.EIO
			}
		}
		return nil
	}
	vos.After = func(ev *vos.Event, err error) {
		if ev.Kind == "createtemp" || ev.Kind == "mkdirtemp" {
			// record the created name for the event just traced
			if len(c.Trace) > 0 && ev.Seq == c.count && err == nil {
				c.Trace[len(c.Trace)-1].P2 = c.Canon(ev.Path2)
			}
		}
	}
	vos.Mid = func(ev *vos.Event) {
		if c.OnMid != nil {
			c.OnMid(ev.Seq, ev)
		}
	}
}

func Uninstall() {
	vos.Before = nil
	vos.After = nil
	vos.Mid = nil
}

// Run executes f under the controller, converting a panic into pv.
func (c *Ctl) Run(f func() error) (err error, pv any) {
	c.Install()
	defer Uninstall()
	defer func() {
		if x := recover(); x != nil {
			pv = x
		}
	}()
	err = f()
	return
}

// CopyTree copies a directory (regular files, dirs, symlinks) preserving modes.
func CopyTree(src, dst string) error {
	return filepath.Walk(src, func(p string, info os.FileInfo, err error) error {
		if err != nil {
			return err
		}
		rel, _ := filepath.Rel(src, p)
		q := filepath.Join(dst, rel)
		switch {
		case info.IsDir():
			return os.MkdirAll(q, info.Mode().Perm()|0o700)
		case info.Mode()&os.ModeSymlink != 0:
			l, _ := os.Readlink(p)
			return os.Symlink(l, q)
		default:
			b, err := os.ReadFile(p)
			if err != nil {
				return err
			}
			if err := os.WriteFile(q, b, info.Mode().Perm()); err != nil {
				return err
			}
			return os.Chmod(q, info.Mode().Perm())
		}
	})
}
