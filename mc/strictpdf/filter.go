package strictpdf

import (
	"bytes"
	"compress/zlib"
	"encoding/ascii85"
	"errors"
	"fmt"
	"io"
)

// DecodeStream applies the stream's /Filter pipeline (7.4) in order, WITHOUT
// decryption. Supported: FlateDecode (with /DecodeParms Predictor 2 and
// 10..15), ASCIIHexDecode, ASCII85Decode, RunLengthDecode, Crypt/Identity.
// LZWDecode and the image filters return an "unsupported" error.
func (f *File) DecodeStream(o *Object) ([]byte, error) {
	if o == nil || !o.IsStream {
		return nil, errors.New("not a stream object")
	}
	filters, parms := f.list(o.Dict["Filter"]), f.list(o.Dict["DecodeParms"])
	data := o.StreamData
	for i, fv := range filters {
		name, ok := f.Resolve(fv).(Name)
		if !ok {
			return nil, fmt.Errorf("filter #%d is not a name", i)
		}
		var dp Dict
		if i < len(parms) {
			dp, _ = f.Resolve(parms[i]).(Dict)
		}
		var err error
		if data, err = applyFilter(name, dp, data); err != nil {
			return nil, fmt.Errorf("%s: %w", name, err)
		}
	}
	return data, nil
}

// list turns "null | x | [x ...]" into a slice.
func (f *File) list(v any) []any {
	switch v = f.Resolve(v); a := v.(type) {
	case nil:
		return nil
	case []any:
		return a
	}
	return []any{v}
}

func applyFilter(name Name, dp Dict, data []byte) ([]byte, error) {
	switch name {
	case "FlateDecode":
		r, err := zlib.NewReader(bytes.NewReader(data))
		if err != nil {
			return nil, err
		}
		out, err := io.ReadAll(r)
		if err != nil {
			return nil, err
		}
		return unpredict(out, dp)
	case "ASCIIHexDecode":
		var out []byte
		hi := -1
		for i, c := range data {
			h := hexVal(c)
			switch {
			case c == '>':
				if hi >= 0 {
					out = append(out, byte(hi<<4))
				}
				return out, nil
			case isWS(c):
			case h < 0:
				return nil, fmt.Errorf("invalid character %q at %d", c, i)
			case hi < 0:
				hi = h
			default:
				out, hi = append(out, byte(hi<<4|h)), -1
			}
		}
		return nil, errors.New("missing EOD marker '>'")
	case "ASCII85Decode":
		src := bytes.TrimLeft(data, "\x00\t\n\f\r ")
		src = bytes.TrimPrefix(src, []byte("<~"))
		end := bytes.Index(src, []byte("~>"))
		if end < 0 {
			return nil, errors.New("missing EOD marker '~>'")
		}
		dst := make([]byte, 4*end+4)
		n, _, err := ascii85.Decode(dst, src[:end], true)
		return dst[:n], err
	case "RunLengthDecode":
		var out []byte
		for i := 0; i < len(data); {
			l := int(data[i])
			i++
			switch {
			case l == 128:
				return out, nil
			case l < 128:
				if i+l+1 > len(data) {
					return nil, errors.New("literal run exceeds data")
				}
				out = append(out, data[i:i+l+1]...)
				i += l + 1
			default:
				if i >= len(data) {
					return nil, errors.New("repeat run exceeds data")
				}
				out = append(out, bytes.Repeat(data[i:i+1], 257-l)...)
				i++
			}
		}
		return nil, errors.New("missing EOD marker 128")
	case "Crypt":
		if n, ok := dp["Name"].(Name); !ok || n == "Identity" {
			return data, nil
		}
	}
	return nil, errors.New("unsupported filter")
}

// unpredict reverses the TIFF (2) and PNG (10..15) predictors (7.4.4.4).
func unpredict(data []byte, dp Dict) ([]byte, error) {
	get := func(k string, def int) int {
		if v, ok := asInt(dp[k]); ok {
			return v
		}
		return def
	}
	pred := get("Predictor", 1)
	if pred == 1 {
		return data, nil
	}
	colors, bpc, cols := get("Colors", 1), get("BitsPerComponent", 8), get("Columns", 1)
	if colors < 1 || colors > 64 || cols < 1 || cols > 1<<24 || (bpc != 1 && bpc != 2 && bpc != 4 && bpc != 8 && bpc != 16) {
		return nil, fmt.Errorf("invalid predictor parameters Colors=%d BitsPerComponent=%d Columns=%d", colors, bpc, cols)
	}
	row, bpp := (colors*bpc*cols+7)/8, max(1, colors*bpc/8)
	switch {
	case pred == 2:
		if bpc != 8 && bpc != 16 {
			return nil, fmt.Errorf("unsupported TIFF predictor with BitsPerComponent %d", bpc)
		}
		if len(data)%row != 0 {
			return nil, fmt.Errorf("TIFF predictor: %d bytes is not a multiple of the row size %d", len(data), row)
		}
		out := bytes.Clone(data)
		for r := 0; r < len(out); r += row {
			for i := bpp; i < row; i++ {
				if bpc == 8 {
					out[r+i] += out[r+i-bpp]
				} else if i%2 == 1 { // 16 bit big endian samples
					v := (uint16(out[r+i-1])<<8 | uint16(out[r+i])) + (uint16(out[r+i-1-bpp])<<8 | uint16(out[r+i-bpp]))
					out[r+i-1], out[r+i] = byte(v>>8), byte(v)
				}
			}
		}
		return out, nil
	case pred >= 10 && pred <= 15:
		if len(data)%(row+1) != 0 {
			return nil, fmt.Errorf("PNG predictor: %d bytes is not a multiple of the row size %d+1", len(data), row)
		}
		out, prev := make([]byte, 0, len(data)/(row+1)*row), make([]byte, row)
		for r := 0; r < len(data); r += row + 1 {
			ft, cur := data[r], bytes.Clone(data[r+1:r+1+row])
			for i := range cur {
				var a, b, c int // left, up, upper left
				if i >= bpp {
					a, c = int(cur[i-bpp]), int(prev[i-bpp])
				}
				b = int(prev[i])
				switch ft {
				case 0:
				case 1:
					cur[i] += byte(a)
				case 2:
					cur[i] += byte(b)
				case 3:
					cur[i] += byte((a + b) / 2)
				case 4:
					p := a + b - c
					pa, pb, pc := abs(p-a), abs(p-b), abs(p-c)
					if pa <= pb && pa <= pc {
						cur[i] += byte(a)
					} else if pb <= pc {
						cur[i] += byte(b)
					} else {
						cur[i] += byte(c)
					}
				default:
					return nil, fmt.Errorf("PNG predictor: invalid filter type %d in row %d", ft, r/(row+1))
				}
			}
			out, prev = append(out, cur...), cur
		}
		return out, nil
	}
	return nil, fmt.Errorf("unsupported Predictor %d", pred)
}

func abs(x int) int {
	if x < 0 {
		return -x
	}
	return x
}
