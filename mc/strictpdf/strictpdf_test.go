package strictpdf

import (
	"bytes"
	"compress/zlib"
	"encoding/ascii85"
	"fmt"
	"math/rand"
	"os"
	"path/filepath"
	"reflect"
	"regexp"
	"sort"
	"strings"
	"testing"
)

// ---- hand-written files ------------------------------------------------------------------------

// mut selects the mutation a builder applies; the zero value gives a conforming file.
type mut struct {
	entryEnd     string      // end of each classic xref entry, default " \n" (20 byte entries)
	sizeDelta    int         // added to /Size
	startDelta   int         // added to the startxref offset
	offDelta     map[int]int // added to the xref offset of object nr
	lenDelta     map[int]int // added to /Length of stream object nr
	noEOF        bool
	swapIndex    bool // xref stream file: swap the index fields of the two compressed objects
	firstDelta   int  // xref stream file: added to /First
	freeOffChain bool // free file: object 5 is free but nobody links to it
	freeToInUse  bool // free file: object 3 links to in-use object 2
	prevSelf     bool // incremental file: /Prev of the update points at the update's own table
	prevLoop     bool // incremental file: /Prev of the original points at the update (cycle of 2)
	crStream     bool // classic file: "stream\r" instead of "stream\n" for object 4
	stmInStm     bool // xref stream file: compressed object 2 is a stream
	noSelf       bool // xref stream file: no entry for the xref stream itself, /Size 5
	encrypt      bool // xref stream file: trailer has /Encrypt and the object stream is not decodable
}

type bld struct {
	bytes.Buffer
	off map[int]int
	m   mut
}

func newBld(m mut) *bld {
	b := &bld{off: map[int]int{}, m: m}
	b.WriteString("%PDF-1.7\n%\xe2\xe3\xcf\xd3\n")
	return b
}

func (b *bld) obj(nr int, body string) {
	b.off[nr] = b.Len()
	fmt.Fprintf(b, "%d 0 obj\n%s\nendobj\n", nr, body)
}

// stream writes a stream object; length is written as given (so it can be a reference); eol goes before endstream.
func (b *bld) stream(nr int, dictBody, length string, data []byte, eol string) {
	b.off[nr] = b.Len()
	kw := "stream\n"
	if b.m.crStream && nr == 4 {
		kw = "stream\r"
	}
	fmt.Fprintf(b, "%d 0 obj\n<<%s /Length %s>>\n%s%s%sendstream\nendobj\n", nr, dictBody, length, kw, data, eol)
}

// xref writes a classic table made of subsections; e is "n", "f:next:gen" per object.
func (b *bld) xref(subs map[int][]string, trailer string) int {
	pos := b.Len()
	end := b.m.entryEnd
	if end == "" {
		end = " \n"
	}
	b.WriteString("xref\n")
	var firsts []int
	for first := range subs {
		firsts = append(firsts, first)
	}
	sort.Ints(firsts)
	for _, first := range firsts {
		fmt.Fprintf(b, "%d %d\n", first, len(subs[first]))
		for i, e := range subs[first] {
			if e == "n" {
				fmt.Fprintf(b, "%010d %05d n%s", b.off[first+i]+b.m.offDelta[first+i], 0, end)
			} else {
				var next, gen int
				fmt.Sscanf(e, "f:%d:%d", &next, &gen)
				fmt.Fprintf(b, "%010d %05d f%s", next, gen, end)
			}
		}
	}
	fmt.Fprintf(b, "trailer\n<<%s>>\n", trailer)
	return pos
}

func (b *bld) tail(startxref int) []byte {
	fmt.Fprintf(b, "startxref\n%d\n", startxref+b.m.startDelta)
	if !b.m.noEOF {
		b.WriteString("%%EOF\n")
	}
	return b.Bytes()
}

const content = "BT /F1 12 Tf (Hi) Tj ET" // 23 bytes, does not end in an EOL character

// classicBody writes objects 1..6 of the classic file.
func classicBody(b *bld) {
	b.obj(1, "<</Type /Catalog /Pages 2 0 R>>")
	b.obj(2, "<</Type /Pages /Kids [3 0 R] /Count 1>>")
	b.obj(3, "<</Type /Page /Parent 2 0 R /MediaBox [0 0 200 200] /Contents [4 0 R 5 0 R]>>")
	b.stream(4, "", fmt.Sprint(len(content)+b.m.lenDelta[4]), []byte(content), "\n")
	b.stream(5, "", "6 0 R", []byte(content), "") // endstream directly after the data, indirect /Length
	b.obj(6, fmt.Sprint(len(content)+b.m.lenDelta[5]))
}

func classicPDF(m mut) []byte {
	b := newBld(m)
	classicBody(b)
	x := b.xref(map[int][]string{0: {"f:0:65535", "n", "n", "n", "n", "n", "n"}},
		fmt.Sprintf("/Size %d /Root 1 0 R", 7+m.sizeDelta))
	return b.tail(x)
}

func freePDF(m mut) []byte {
	b := newBld(m)
	b.obj(1, "<</Type /Catalog /Pages 2 0 R>>")
	b.obj(2, "<</Type /Pages /Kids [] /Count 0>>")
	b.obj(4, "(four)")
	b.obj(6, "[1 2 3]")
	e0, e3, e5 := "f:3:65535", "f:5:1", "f:0:1"
	if m.freeOffChain {
		e3 = "f:0:1" // 0 -> 3 -> 0, object 5 is left out
	}
	if m.freeToInUse {
		e3 = "f:2:1"
	}
	x := b.xref(map[int][]string{0: {e0, "n", "n", e3, "n", e5, "n"}}, "/Size 7 /Root 1 0 R")
	return b.tail(x)
}

func incrementalPDF(m mut) []byte {
	b := newBld(m)
	classicBody(b)
	prev0 := ""
	if m.prevLoop {
		prev0 = " /Prev 0000000000" // patched below once the offset of the update is known
	}
	x1 := b.xref(map[int][]string{0: {"f:0:65535", "n", "n", "n", "n", "n", "n"}}, "/Size 7 /Root 1 0 R"+prev0)
	b.tail(x1)
	b.obj(3, "<</Type /Page /Parent 2 0 R /MediaBox [0 0 300 300] /Contents 7 0 R>>")
	b.stream(7, "", "2", []byte("q "), "\r\n")
	prev := x1
	if m.prevSelf {
		prev = b.Len()
	}
	x2 := b.xref(map[int][]string{0: {"f:0:65535"}, 3: {"n"}, 7: {"n"}},
		fmt.Sprintf("/Size %d /Root 1 0 R /Prev %d", 8+m.sizeDelta, prev))
	out := b.tail(x2)
	return bytes.Replace(out, []byte("/Prev 0000000000"), []byte(fmt.Sprintf("/Prev %010d", x2)), 1)
}

func deflate(b []byte) []byte {
	var z bytes.Buffer
	w := zlib.NewWriter(&z)
	w.Write(b)
	w.Close()
	return z.Bytes()
}

// pngUp applies the PNG "Up" filter to rows of n bytes.
func pngUp(data []byte, n int) []byte {
	var out []byte
	prev := make([]byte, n)
	for r := 0; r < len(data); r += n {
		out = append(out, 2)
		for i := 0; i < n; i++ {
			out = append(out, data[r+i]-prev[i])
		}
		prev = data[r : r+n]
	}
	return out
}

// xrefStreamPDF: objects 1 and 2 live in object stream 4; 3 is a plain object; 5 is the xref stream.
func xrefStreamPDF(m mut) []byte {
	b := newBld(m)
	o1, o2 := "<</Type /Catalog /Pages 2 0 R>>", "<</Type /Pages /Kids [3 0 R] /Count 1>>"
	if m.stmInStm {
		o2 = "<</Length 1>>stream\nx\nendstream"
	}
	prolog := fmt.Sprintf("1 0 2 %d\n", len(o1)+1)
	b.obj(3, "<</Type /Page /Parent 2 0 R /MediaBox [0 0 200 200]>>")
	z := deflate([]byte(prolog + o1 + "\n" + o2))
	enc := ""
	if m.encrypt {
		z, enc = []byte("\x01\x02 these bytes are not a zlib stream"), " /Encrypt 3 0 R"
	}
	b.stream(4, fmt.Sprintf("/Type /ObjStm /N 2 /First %d /Filter /FlateDecode", len(prolog)+m.firstDelta), fmt.Sprint(len(z)+m.lenDelta[4]), z, "\n")
	b.off[5] = b.Len()
	i1, i2 := 0, 1
	if m.swapIndex {
		i1, i2 = 1, 0
	}
	rows := [][3]int{{0, 0, 65535}, {2, 4, i1}, {2, 4, i2}, {1, b.off[3] + m.offDelta[3], 0}, {1, b.off[4], 0}, {1, b.off[5] + m.offDelta[5], 0}}
	size := 6
	if m.noSelf {
		rows, size, enc = rows[:5], 5, enc+" /Index [0 5]"
	}
	var raw []byte
	for _, r := range rows {
		raw = append(raw, byte(r[0]), byte(r[1]>>8), byte(r[1]), byte(r[2]>>8), byte(r[2]))
	}
	z = deflate(pngUp(raw, 5))
	b.stream(5, fmt.Sprintf("/Type /XRef /Size %d /W [1 2 2] /Root 1 0 R%s /Filter /FlateDecode /DecodeParms <</Predictor 12 /Columns 5>>", size+m.sizeDelta, enc),
		fmt.Sprint(len(z)), z, "\n")
	return b.tail(b.off[5])
}

// ---- conforming files ----------------------------------------------------------------------------

func mustOK(t *testing.T, name string, data []byte) *File {
	t.Helper()
	f := Parse(data)
	if !f.OK() {
		t.Fatalf("%s: expected no problems, got:\n  %s\n%s", name, strings.Join(f.Problems, "\n  "), data)
	}
	t.Logf("%s: %s", name, f.Summary())
	return f
}

func TestConformingFiles(t *testing.T) {
	f := mustOK(t, "classic", classicPDF(mut{}))
	if f.Version != "1.7" || len(f.Sections) != 1 || f.Sections[0].IsStream || f.Sections[0].Entries != 7 || len(f.Objects) != 6 || len(f.Free) != 1 {
		t.Errorf("classic: unexpected structure: %s", f.Summary())
	}
	for _, nr := range []int{4, 5} {
		if o := f.Objects[nr]; !o.IsStream || string(o.StreamData) != content {
			t.Errorf("classic: stream %d data %q", nr, o.StreamData)
		}
	}
	if v := f.Resolve(f.Objects[5].Dict["Length"]); v != int64(len(content)) {
		t.Errorf("classic: resolved /Length = %v", v)
	}
	if d, _ := f.Resolve(f.Trailer["Root"]).(Dict); d["Type"] != Name("Catalog") {
		t.Errorf("classic: /Root resolves to %v", d)
	}
	if !strings.HasPrefix(string(f.Objects[6].Raw), "\n23\n") {
		t.Errorf("classic: Raw of object 6 = %q", f.Objects[6].Raw)
	}

	f = mustOK(t, "free", freePDF(mut{}))
	if !reflect.DeepEqual(f.Free, map[int]int{0: 3, 3: 5, 5: 0}) || f.Gen[0] != 65535 || f.Gen[3] != 1 || len(f.Objects) != 4 {
		t.Errorf("free: Free=%v Gen=%v", f.Free, f.Gen)
	}

	f = mustOK(t, "incremental", incrementalPDF(mut{}))
	if len(f.Sections) != 2 || !f.Sections[0].HasPrev || f.Sections[0].Prev != f.Sections[1].Offset || len(f.Objects) != 7 {
		t.Errorf("incremental: unexpected structure: %s", f.Summary())
	}
	if mb := f.Objects[3].Dict["MediaBox"].([]any); mb[2] != int64(300) {
		t.Errorf("incremental: newest definition of object 3 must win, got %v", mb)
	}
	if f.Objects[3].Offset <= f.Sections[1].Offset {
		t.Errorf("incremental: object 3 taken from the old section")
	}

	f = mustOK(t, "xrefstream", xrefStreamPDF(mut{}))
	if len(f.Sections) != 1 || !f.Sections[0].IsStream || f.Sections[0].Entries != 6 || len(f.Objects) != 5 {
		t.Errorf("xrefstream: unexpected structure: %s", f.Summary())
	}
	o1, o2 := f.Objects[1], f.Objects[2]
	if o1.Offset != -1 || o1.InObjStm != 4 || o1.Index != 0 || o2.Index != 1 || o1.Dict["Type"] != Name("Catalog") || o2.Dict["Count"] != int64(1) {
		t.Errorf("xrefstream: compressed objects wrong: %+v %+v", o1, o2)
	}
	if f.Trailer["Root"] != (Ref{1, 0}) {
		t.Errorf("xrefstream: trailer %v", f.Trailer)
	}
}

func TestEncryptedObjectStreamsAreSkipped(t *testing.T) {
	f := mustOK(t, "encrypted", xrefStreamPDF(mut{encrypt: true}))
	if len(f.Notes) == 0 || !strings.Contains(f.Notes[0], "encrypted") || f.Objects[1] == nil || f.Objects[1].InObjStm != 4 || f.Objects[1].Dict != nil {
		t.Errorf("notes %q, object 1 %+v", f.Notes, f.Objects[1])
	}
	if f = Parse(xrefStreamPDF(mut{encrypt: true, swapIndex: true, firstDelta: 1})); !f.OK() {
		t.Errorf("contents of encrypted object streams must not be checked: %q", f.Problems)
	}
}

// A cross-reference stream without an entry for itself: /Size may or may not count its object number.
func TestXRefStreamWithoutOwnEntry(t *testing.T) {
	for delta, ok := range map[int]bool{-1: false, 0: true, 1: true, 2: false} {
		f := Parse(xrefStreamPDF(mut{noSelf: true, sizeDelta: delta}))
		if f.OK() != ok || len(f.Notes) != 2 {
			t.Errorf("/Size %d: problems %q notes %q", 5+delta, f.Problems, f.Notes)
		}
	}
}

// ---- mutations that must be reported ---------------------------------------------------------

func TestMutationsAreReported(t *testing.T) {
	cases := []struct {
		name string
		data []byte
		want string // substring of one of the problems
	}{
		{"xref offset +1", classicPDF(mut{offDelta: map[int]int{2: 1}}), `object 2 0: no "2 0 obj" exactly at offset`},
		{"xref offset -1", classicPDF(mut{offDelta: map[int]int{3: -1}}), `object 3 0: no "3 0 obj" exactly at offset`},
		{"xref offset -1 of stream", classicPDF(mut{offDelta: map[int]int{4: -1}}), `object 4 0: no "4 0 obj" exactly at offset`},
		{"size too small", classicPDF(mut{sizeDelta: -1}), "trailer /Size is 6 but the highest object number with a cross-reference entry is 6 (expected /Size 7)"},
		{"size too large", classicPDF(mut{sizeDelta: 1}), "trailer /Size is 8 but the highest object number with a cross-reference entry is 6 (expected /Size 7)"},
		{"size too large, incremental", incrementalPDF(mut{sizeDelta: 2}), "trailer /Size is 10 but the highest object number with a cross-reference entry is 7"},
		{"size too small, xref stream", xrefStreamPDF(mut{sizeDelta: -1}), "announces 5 entries"},
		{"size too large, xref stream", xrefStreamPDF(mut{sizeDelta: 1}), "announces 7 entries"},
		{"19 byte entries", classicPDF(mut{entryEnd: "\n"}), "not a well-formed 20 byte entry"},
		{"21 byte entries", classicPDF(mut{entryEnd: " \r\n"}), "not a well-formed 20 byte entry"},
		{"18+LF LF entries", classicPDF(mut{entryEnd: "\n\n"}), "not a well-formed 20 byte entry"},
		{"length -1 (EOL before endstream)", classicPDF(mut{lenDelta: map[int]int{4: -1}}), "/Length 22 (data starts at"},
		{"length +2 (EOL before endstream)", classicPDF(mut{lenDelta: map[int]int{4: 2}}), "/Length 25 (data starts at"},
		{"length -1 (indirect, no EOL)", classicPDF(mut{lenDelta: map[int]int{5: -1}}), "/Length 22 (data starts at"},
		{"length +1 (indirect, no EOL)", classicPDF(mut{lenDelta: map[int]int{5: 1}}), "/Length 24 (data starts at"},
		{"length -1 (object stream)", xrefStreamPDF(mut{lenDelta: map[int]int{4: -1}}), "stream 4 at"},
		{"stream CR", classicPDF(mut{crStream: true}), "followed by CR alone"},
		{"free object not on chain", freePDF(mut{freeOffChain: true}), "free object 5 (next 0, generation 1) is not on the chain"},
		{"free chain to in-use object", freePDF(mut{freeToInUse: true}), "free object 3 links to object 2 which is in use"},
		{"startxref one byte early", classicPDF(mut{startDelta: -1}), "expected keyword xref or"},
		{"startxref one byte late", classicPDF(mut{startDelta: 1}), "expected keyword xref or"},
		{"startxref one byte early, xref stream", xrefStreamPDF(mut{startDelta: -1}), "expected keyword xref or"},
		{"startxref one byte late, xref stream", xrefStreamPDF(mut{startDelta: 1}), "startxref offset"},
		{"xref stream own entry wrong", xrefStreamPDF(mut{offDelta: map[int]int{5: 1}}), "its own entry is"},
		{"xref stream type 1 offset +1", xrefStreamPDF(mut{offDelta: map[int]int{3: 1}}), `object 3 0: no "3 0 obj" exactly at offset`},
		{"type 2 wrong index", xrefStreamPDF(mut{swapIndex: true}), "object 1: cross-reference entry says index 1 of object stream 4, but that position holds object 2"},
		{"/First +1", xrefStreamPDF(mut{firstDelta: 1}), "object stream 4: /First 10 is not the offset of the first object"},
		{"/First -1", xrefStreamPDF(mut{firstDelta: -1}), "object stream 4: offset /First+0 = 8 of object 1 (index 0) points at white space"},
		{"missing %%EOF", classicPDF(mut{noEOF: true}), "%%EOF expected at"},
		{"/Prev self cycle", incrementalPDF(mut{prevSelf: true}), "the /Prev chain has a cycle"},
		{"/Prev cycle of two", incrementalPDF(mut{prevLoop: true}), "the /Prev chain has a cycle"},
	}
	for _, c := range cases {
		f := Parse(c.data)
		found := false
		for _, p := range f.Problems {
			found = found || strings.Contains(p, c.want)
			if strings.Contains(p, "internal error") {
				t.Errorf("%s: %s", c.name, p)
			}
		}
		if !found {
			t.Errorf("%s: expected a problem containing %q, got %d problem(s):\n  %s", c.name, c.want, len(f.Problems), strings.Join(f.Problems, "\n  "))
		} else {
			t.Logf("%-40s %d problem(s), e.g. %s", c.name, len(f.Problems), f.Problems[0])
		}
	}
}

// Byte level mutations applied to the finished conforming files.
func TestPatchedFiles(t *testing.T) {
	patch := func(data []byte, old, new string) []byte {
		if bytes.Count(data, []byte(old)) != 1 {
			t.Fatalf("patch %q: %d occurrences", old, bytes.Count(data, []byte(old)))
		}
		return bytes.Replace(data, []byte(old), []byte(new), 1)
	}
	cases := []struct {
		name string
		data []byte
		want string
	}{
		{"leading garbage", append([]byte("\n"), classicPDF(mut{})...), "header: file does not start with %PDF-M.m at byte 0"},
		{"version 1.9", patch(classicPDF(mut{}), "%PDF-1.7", "%PDF-1.9"), "version 1.9"},
		{"trailing garbage", append(classicPDF(mut{}), "x\n"...), "unexpected bytes after the last %%EOF"},
		{"startxref same line", patch(classicPDF(mut{}), "startxref\n", "startxref "), "is not followed by an EOL, found \" 374"},
		{"missing endobj", patch(classicPDF(mut{}), "/Count 1>>\nendobj", "/Count 1>>\n      "), "object 2 0 at 62: endobj expected at"},
		{"object header double space", patch(classicPDF(mut{}), "\n3 0 obj", "\n3  0obj"), `object 3 0: no "3 0 obj" exactly`},
		{"object generation mismatch", patch(classicPDF(mut{}), "\n3 0 obj", "\n3 1 obj"), `object 3 0: no "3 0 obj" exactly`},
		{"root direct", patch(classicPDF(mut{}), "/Root 1 0 R", "/Root 1      "), "/Root missing or not an indirect reference"},
		{"root free", patch(freePDF(mut{}), "/Root 1 0 R", "/Root 3 1 R"), "/Root 3 1 R does not refer to an in-use object"},
		{"overlapping subsections", patch(incrementalPDF(mut{}), "\n7 1\n", "\n3 1\n"), "subsections overlap, object 3"},
		{"object 0 generation", patch(classicPDF(mut{}), "0000000000 65535 f", "0000000000 00000 f"), "object 0 has generation 0, expected 65535"},
		{"object 0 in use", patch(classicPDF(mut{}), "0000000000 65535 f", "0000000000 65535 n"), "object 0 is not a free entry"},
		{"duplicate key", patch(classicPDF(mut{}), "/Size 7 /Root 1 0 R", "/Size 7 /Root 1 0 R /Size 7"), "duplicate dictionary key /Size"},
		{"single 21 byte entry before trailer", patch(classicPDF(mut{}), " n \ntrailer", " n \r\ntrailer"), "it has 21 bytes instead of 20"},
		{"blank line before trailer is only noted", patch(classicPDF(mut{}), " n \ntrailer", " n \n\ntrailer"), ""},
		{"stream in object stream", xrefStreamPDF(mut{stmInStm: true}), "object 2 (in object stream 4) is a stream"},
		{"xref stream /Length indirect", regexp.MustCompile(`(/Columns 5>> /Length )\d+`).ReplaceAll(xrefStreamPDF(mut{}), []byte("${1}3 0 R")), "/Length is not a direct integer"},
	}
	for _, c := range cases {
		f := Parse(c.data)
		if c.want == "" && (!f.OK() || len(f.Notes) != 1) {
			t.Errorf("%s: expected one note and no problem, got %q %q", c.name, f.Problems, f.Notes)
		}
		if !strings.Contains(strings.Join(f.Problems, "\n"), c.want) {
			t.Errorf("%s: expected a problem containing %q, got:\n  %s", c.name, c.want, strings.Join(f.Problems, "\n  "))
		}
	}
}

// ---- robustness: never panic, never hang ---------------------------------------------------------

func TestRobustness(t *testing.T) {
	rng := rand.New(rand.NewSource(1))
	for _, base := range [][]byte{classicPDF(mut{}), freePDF(mut{}), incrementalPDF(mut{}), xrefStreamPDF(mut{})} {
		check := func(kind string, data []byte) {
			for _, p := range Parse(data).Problems {
				if strings.Contains(p, "internal error") {
					t.Fatalf("%s: %s\n%q", kind, p, data)
				}
			}
		}
		for n := 0; n <= len(base); n++ {
			check("truncation", base[:n])
			check("truncation+tail", append(bytes.Clone(base[:n]), "\nstartxref\n9\n%%EOF\n"...))
		}
		for i := 0; i < 4000; i++ {
			d := bytes.Clone(base)
			for k := rng.Intn(3) + 1; k > 0; k-- {
				switch pos := rng.Intn(len(d)); rng.Intn(3) {
				case 0:
					d[pos] = byte(rng.Intn(256))
				case 1:
					d[pos] = "0123456789 \n<>[]/()R"[rng.Intn(20)]
				case 2:
					d = append(d[:pos], d[pos+1:]...)
				}
			}
			check("random", d)
		}
	}
	for _, s := range []string{"", "%PDF-1.7", "startxref", "%PDF-1.4\nstartxref\n0\n%%EOF", "%PDF-1.4\n1 0 obj\n<</Type/XRef/Length 0/W[0 0 0]/Size 1>>stream\n\nendstream endobj\nstartxref\n9\n%%EOF",
		"%PDF-1.4\nxref\n0 99999999999\ntrailer<<>>\nstartxref\n9\n%%EOF", "%PDF-1.4\nxref\n0 0\ntrailer" + strings.Repeat("[", 100000) + "\nstartxref\n9\n%%EOF"} {
		if f := Parse([]byte(s)); f.OK() {
			t.Errorf("%q parsed without problems", s)
		} else if strings.Contains(strings.Join(f.Problems, "\n"), "internal error") {
			t.Errorf("%q: %v", s, f.Problems)
		}
	}
}

// ---- object parser and filters -----------------------------------------------------------------

func TestParseObject(t *testing.T) {
	in := "  % comment\n<</A 1 /B -2.5 /C (a\\(b\\)\\n\\101(x)) /D <48 656C6c6F7> /E [1 0 R 2 3 true null /N#20m] /F<</G false>>/H 12 0 R>>rest"
	v, n, err := ParseObject([]byte(in))
	if err != nil || in[n:] != "rest" {
		t.Fatalf("err %v, rest %q", err, in[n:])
	}
	want := Dict{"A": int64(1), "B": -2.5, "C": String("a(b)\nA(x)"), "D": String("Hello\x70"),
		"E": []any{Ref{1, 0}, int64(2), int64(3), true, nil, Name("N m")}, "F": Dict{"G": false}, "H": Ref{12, 0}}
	if !reflect.DeepEqual(v, want) {
		t.Errorf("got  %#v\nwant %#v", v, want)
	}
	for _, bad := range []string{"", "<<", "<</A>>", "<<1 2>>", "[1 2", "(abc", "<4x>", "/A#G0", "12abc", "+", "foo", "<</A 1", strings.Repeat("[", 1000)} {
		if v, _, err := ParseObject([]byte(bad)); err == nil {
			t.Errorf("%q: expected an error, got %v", bad, v)
		}
	}
	for in, want := range map[string]any{"1 0 R": Ref{1, 0}, "1 0 Rx": int64(1), "1 0": int64(1), "007": int64(7), "4.": 4.0, "-.5": -0.5, "+17": int64(17), "()": String{}, "<>": String{}, "/": Name("")} {
		if v, _, err := ParseObject([]byte(in)); err != nil || !reflect.DeepEqual(v, want) {
			t.Errorf("%q: got %#v, %v want %#v", in, v, err, want)
		}
	}
}

func TestDecodeStream(t *testing.T) {
	f := Parse(nil)
	dec := func(dict string, data []byte) (string, error) {
		d, _, err := ParseObject([]byte(dict))
		if err != nil {
			t.Fatal(err)
		}
		out, err := f.DecodeStream(&Object{IsStream: true, Dict: d.(Dict), StreamData: data})
		return string(out), err
	}
	expect := func(name, dict string, data []byte, want string) {
		t.Helper()
		if got, err := dec(dict, data); err != nil || got != want {
			t.Errorf("%s: got %q, %v; want %q", name, got, err, want)
		}
	}
	plain := "hello hello hello PDF"
	expect("none", "<<>>", []byte(plain), plain)
	expect("flate", "<</Filter /FlateDecode>>", deflate([]byte(plain)), plain)
	expect("hex", "<</Filter [/ASCIIHexDecode]>>", []byte("68 656C\n6c6F 7>"), "hello\x70")
	a85 := make([]byte, ascii85.MaxEncodedLen(len(plain)))
	a85 = a85[:ascii85.Encode(a85, []byte(plain))]
	expect("a85", "<</Filter /ASCII85Decode>>", append(a85, "~>"...), plain)
	expect("runlength", "<</Filter /RunLengthDecode>>", []byte{2, 'a', 'b', 'c', 254, 'x', 0, 'y', 128}, "abcxxxy")
	expect("chain", "<</Filter [/ASCIIHexDecode /FlateDecode] /DecodeParms [null null]>>", []byte(fmt.Sprintf("%X>", deflate([]byte(plain)))), plain)
	// PNG predictors: one row per filter type 0..4, 2 colours x 8 bit x 3 columns = 6 bytes per row
	rows := []byte{
		0, 1, 2, 3, 4, 5, 6, // None
		1, 1, 1, 1, 1, 1, 1, // Sub     -> 1 1 2 2 3 3
		2, 1, 1, 1, 1, 1, 1, // Up      -> 2 2 3 3 4 4
		3, 10, 10, 10, 10, 10, 10, // Average -> 11 11 17 17 20 20
		4, 1, 1, 1, 1, 1, 1, // Paeth   -> 12 12 18 18 21 21
	}
	expect("png", "<</Filter /FlateDecode /DecodeParms <</Predictor 15 /Colors 2 /Columns 3>>>>", deflate(rows),
		string([]byte{1, 2, 3, 4, 5, 6, 1, 1, 2, 2, 3, 3, 2, 2, 3, 3, 4, 4, 11, 11, 17, 17, 20, 20, 12, 12, 18, 18, 21, 21}))
	expect("tiff", "<</Filter /FlateDecode /DecodeParms <</Predictor 2 /Columns 4>>>>", deflate([]byte{1, 1, 1, 1, 5, 0, 255, 2}), string([]byte{1, 2, 3, 4, 5, 5, 4, 6}))
	for name, c := range map[string][2]string{
		"lzw":          {"<</Filter /LZWDecode>>", "x"},
		"bad flate":    {"<</Filter /FlateDecode>>", "not zlib"},
		"short flate":  {"<</Filter /FlateDecode>>", string(deflate([]byte(plain))[:8])},
		"hex no EOD":   {"<</Filter /ASCIIHexDecode>>", "6865"},
		"png bad rows": {"<</Filter /FlateDecode /DecodeParms <</Predictor 12 /Columns 4>>>>", string(deflate([]byte{2, 1, 2, 3}))},
		"png bad type": {"<</Filter /FlateDecode /DecodeParms <</Predictor 12 /Columns 3>>>>", string(deflate([]byte{9, 1, 2, 3}))},
	} {
		if out, err := dec(c[0], []byte(c[1])); err == nil {
			t.Errorf("%s: expected an error, got %q", name, out)
		}
	}
}

// ---- plausibility on third party files (not a strictness test) ---------------------------------

func TestThirdPartyFiles(t *testing.T) {
	files, _ := filepath.Glob("/repo/pkg/testdata/*.pdf")
	if len(files) == 0 {
		t.Skip("no files under /repo/pkg/testdata")
	}
	clean := 0
	for _, fn := range files {
		data, err := os.ReadFile(fn)
		if err != nil {
			t.Fatal(err)
		}
		f := Parse(data)
		for _, p := range f.Problems {
			if strings.Contains(p, "internal error") {
				t.Errorf("%s: %s", fn, p)
			}
		}
		if f.OK() {
			clean++
			t.Logf("ok   %-48s %s", filepath.Base(fn), f.Summary())
		} else {
			t.Logf("FAIL %-48s %d problem(s); first: %s", filepath.Base(fn), len(f.Problems), f.Problems[0])
		}
	}
	t.Logf("%d of %d third party files are reported problem-free", clean, len(files))
	if clean == 0 {
		t.Errorf("no third party file parses cleanly: the reader is implausibly strict or broken")
	}
}
