// Package strictpdf is an independent, strict, non-repairing reader of the PDF
// file structure (ISO 32000-1 clause 7.5) built on the standard library only.
// It never searches for objects and never repairs anything: whatever is not
// exactly where the cross-reference information says it is, or is not written
// the way the standard requires, is recorded in File.Problems.
package strictpdf

import (
	"bytes"
	"fmt"
	"sort"
	"strings"
)

// File is a parsed PDF file structure.
type File struct {
	Data     []byte
	Version  string          // from the header, e.g. "1.7"
	Sections []Section       // xref sections, newest first (following /Prev)
	Trailer  Dict            // trailer of the newest section (for xref streams: the stream dict)
	Objects  map[int]*Object // in-use objects of the current document state (newest definition wins)
	Free     map[int]int     // free object number -> next free object number (current state)
	Gen      map[int]int     // generation per object number (current state, in-use and free)
	Problems []string        // every structural problem found; empty means the file is conforming
	Notes    []string        // remarks that are not problems (e.g. checks skipped because of encryption)

	ent   map[int]entry   // merged cross-reference information (current state)
	busy  map[int]bool    // objects being parsed (recursion guard)
	stms  map[int]*objStm // decoded object streams
	seen  map[string]bool // de-duplication of Problems and Notes
	xstms []int           // object numbers of the cross-reference streams of the chain
	nComp int
}

// Section describes one cross-reference section.
type Section struct {
	Offset   int
	IsStream bool
	Entries  int
	Prev     int
	HasPrev  bool
	XRefStm  int // offset given by /XRefStm of a hybrid-reference file, 0 if absent
}

// Object is one in-use indirect object.
type Object struct {
	Nr, Gen    int
	Offset     int    // byte offset of "n g obj" (type 1); -1 for compressed objects
	InObjStm   int    // object stream number for compressed objects, else 0
	Index      int    // index within the object stream
	Raw        []byte // bytes between "obj" and "endobj", or the slice of the decoded object stream
	IsStream   bool
	Dict       Dict   // parsed dictionary if the object is a dictionary or stream (nil otherwise)
	Value      any    // parsed value (for streams: the stream dictionary)
	StreamData []byte // raw (still encoded, still encrypted) stream bytes
}

// entry is one cross-reference entry. typ 0: a=next free, b=gen; typ 1: a=offset, b=gen; typ 2: a=objstm, b=index.
type entry struct{ typ, a, b int }

type section struct {
	Section
	ent     map[int]entry
	trailer Dict
	hybrid  bool // reached through /XRefStm
}

type objStm struct {
	ok        bool
	data      []byte
	nrs, offs []int
	first     int
}

const maxProblems = 500

func (f *File) problemf(format string, a ...any) {
	s := fmt.Sprintf(format, a...)
	if f.seen[s] || len(f.Problems) > maxProblems {
		return
	}
	f.seen[s] = true
	if len(f.Problems) == maxProblems {
		s = "too many problems, further problems are suppressed"
	}
	f.Problems = append(f.Problems, s)
}

func (f *File) notef(format string, a ...any) {
	if s := fmt.Sprintf(format, a...); !f.seen[s] {
		f.seen[s] = true
		f.Notes = append(f.Notes, s)
	}
}

// OK reports whether no structural problem was found.
func (f *File) OK() bool { return len(f.Problems) == 0 }

// Parse reads the file structure of data. It never panics; everything wrong is recorded in Problems.
func Parse(data []byte) (f *File) {
	f = &File{Data: data, Objects: map[int]*Object{}, Free: map[int]int{}, Gen: map[int]int{},
		ent: map[int]entry{}, busy: map[int]bool{}, stms: map[int]*objStm{}, seen: map[string]bool{}}
	defer func() {
		if r := recover(); r != nil {
			f.problemf("internal error: panic while parsing: %v", r)
		}
	}()
	f.parse()
	return f
}

func (f *File) parse() {
	f.checkHeader()
	off, ok := f.checkTail()
	if !ok {
		return
	}
	secs := f.readSections(off)
	if len(secs) == 0 {
		return
	}
	f.Trailer = secs[0].trailer
	// 7.5.6: merge, newest first; older sections only supply objects not defined by newer ones.
	src := map[int]int{}
	for i, s := range secs {
		f.Sections = append(f.Sections, s.Section)
		for nr, e := range s.ent {
			if old, dup := f.ent[nr]; dup {
				// 7.5.8.4 hybrid files: objects of the /XRefStm stream are listed as free in the table that owns it.
				if !(s.hybrid && src[nr] == i-1 && old.typ == 0 && e.typ != 0) {
					continue
				}
			}
			f.ent[nr], src[nr] = e, i
		}
	}
	for nr, e := range f.ent {
		switch e.typ {
		case 0:
			f.Free[nr], f.Gen[nr] = e.a, e.b
		case 1:
			f.Gen[nr] = e.b
		case 2:
			f.Gen[nr] = 0
		}
	}
	f.checkSize()
	f.checkRoot()
	f.checkFreeList()
	if _, enc := f.Trailer["Encrypt"]; enc {
		f.notef("file is encrypted: contents of object streams cannot be decoded, check of compressed objects limited to the object stream dictionaries")
	}
	for _, nr := range f.sortedEntries() { // 7.3.10 / 7.5.4 every in-use entry, then 7.5.7 compressed ones
		if f.ent[nr].typ != 0 {
			f.get(nr)
		}
	}
}

func (f *File) sortedEntries() []int {
	nrs := make([]int, 0, len(f.ent))
	for nr := range f.ent {
		nrs = append(nrs, nr)
	}
	sort.Ints(nrs)
	return nrs
}

// ---- low level helpers -------------------------------------------------------------------------

func (f *File) hasAt(p int, s string) bool {
	return p >= 0 && p+len(s) <= len(f.Data) && string(f.Data[p:p+len(s)]) == s
}

// eol returns the length of the end-of-line marker at p (CRLF 2, CR or LF 1) or 0 (7.2.3).
func (f *File) eol(p int) int {
	switch {
	case f.hasAt(p, "\r\n"):
		return 2
	case f.hasAt(p, "\n"), f.hasAt(p, "\r"):
		return 1
	}
	return 0
}

// show quotes a few bytes at p for messages.
func (f *File) show(p int) string {
	if p < 0 || p >= len(f.Data) {
		return "end of file"
	}
	return fmt.Sprintf("%q", f.Data[p:min(len(f.Data), p+24)])
}

// digits reads a run of decimal digits at p.
func (f *File) digits(p int) (v, end int, ok bool) {
	end = p
	for end < len(f.Data) && end >= 0 && isDigit(f.Data[end]) && end-p < 18 {
		v = v*10 + int(f.Data[end]-'0')
		end++
	}
	return v, end, end > p
}

func (f *File) skipBlank(p int) int {
	for p < len(f.Data) && isWS(f.Data[p]) {
		p++
	}
	return p
}

// ---- 7.5.2 header, 7.5.5 end of file -----------------------------------------------------------

func (f *File) checkHeader() {
	d := f.Data
	if len(d) < 8 || string(d[:5]) != "%PDF-" || !isDigit(d[5]) || d[6] != '.' || !isDigit(d[7]) {
		f.problemf("header: file does not start with %%PDF-M.m at byte 0, found %s", f.show(0))
		return
	}
	f.Version = string(d[5:8])
	if !(f.Version >= "1.0" && f.Version <= "1.7") && f.Version != "2.0" {
		f.problemf("header: version %s is not in 1.0..1.7, 2.0", f.Version)
	}
	if f.eol(8) == 0 {
		f.problemf("header: %%PDF-%s is not followed by an EOL, found %s", f.Version, f.show(8))
	}
}

// checkTail checks "startxref EOL offset EOL %%EOF" at the end of the file and returns the offset.
func (f *File) checkTail() (int, bool) {
	i := bytes.LastIndex(f.Data, []byte("startxref"))
	if i < 0 {
		f.problemf("tail: no startxref keyword in file")
		return 0, false
	}
	if i == 0 || (f.Data[i-1] != '\n' && f.Data[i-1] != '\r') {
		f.problemf("tail: startxref at %d does not start a line", i)
	}
	p := i + 9
	if n := f.eol(p); n == 0 {
		f.problemf("tail: startxref at %d is not followed by an EOL, found %s", i, f.show(p))
		p = f.skipBlank(p)
	} else {
		p += n
	}
	off, q, ok := f.digits(p)
	if !ok {
		f.problemf("tail: no decimal offset after startxref at %d, found %s", i, f.show(p))
		return 0, false
	}
	if p = q; f.eol(p) == 0 {
		f.problemf("tail: startxref offset at %d is not followed by an EOL, found %s", p, f.show(p))
		p = f.skipBlank(p)
	} else {
		p += f.eol(p)
	}
	if !f.hasAt(p, "%%EOF") {
		f.problemf("tail: %%%%EOF expected at %d after the startxref offset, found %s", p, f.show(p))
	} else if r := f.skipBlank(p + 5); r != len(f.Data) {
		f.problemf("tail: unexpected bytes after the last %%%%EOF at %d: %s", r, f.show(r))
	}
	return off, true
}

// ---- 7.5.4 cross-reference table, 7.5.8 cross-reference streams, 7.5.6 /Prev chain -----------

func (f *File) readSections(off int) (secs []*section) {
	visited := map[int]bool{}
	ctx := "startxref"
	for {
		if visited[off] {
			f.problemf("%s offset %d: cross-reference section already visited, the /Prev chain has a cycle", ctx, off)
			return
		}
		visited[off] = true
		s := f.readSection(off, ctx)
		if s == nil {
			return
		}
		secs = append(secs, s)
		if x := s.XRefStm; x != 0 { // 7.5.8.4 hybrid-reference file
			if visited[x] {
				f.problemf("/XRefStm offset %d: cross-reference section already visited", x)
			} else if xs := f.readSection(x, "/XRefStm"); xs != nil && !xs.IsStream {
				f.problemf("/XRefStm offset %d is not a cross-reference stream", x)
			} else if xs != nil {
				xs.hybrid, xs.HasPrev = true, false
				secs = append(secs, xs)
				f.notef("hybrid-reference file: table at %d has /XRefStm %d", off, x)
			}
			visited[x] = true
		}
		if !s.HasPrev {
			return
		}
		off, ctx = s.Prev, fmt.Sprintf("/Prev of section at %d:", s.Offset)
	}
}

func (f *File) readSection(off int, ctx string) *section {
	if off < 0 || off >= len(f.Data) {
		f.problemf("%s offset %d is outside the file (%d bytes)", ctx, off, len(f.Data))
		return nil
	}
	var s *section
	if f.hasAt(off, "xref") {
		s = f.readTable(off)
	} else if nr, gen, _, ok := f.objHeader(off); ok {
		if off > 0 && isDigit(f.Data[off-1]) {
			f.problemf("%s offset %d points into the middle of an object number: %s", ctx, off, f.show(off-1))
		}
		s = f.readXRefStream(off, nr, gen)
	} else {
		f.problemf("%s offset %d: expected keyword xref or the \"n g obj\" header of a cross-reference stream exactly there, found %s", ctx, off, f.show(off))
	}
	if s == nil {
		return nil
	}
	// 7.5.5 trailer entries used for navigation.
	if v, has := s.trailer["Prev"]; has {
		if s.Prev, s.HasPrev = asInt(v); !s.HasPrev {
			f.problemf("section at %d: /Prev is not a direct integer", off)
		}
	}
	if v, has := s.trailer["XRefStm"]; has && !s.IsStream {
		if x, ok := asInt(v); !ok || x <= 0 {
			f.problemf("section at %d: /XRefStm is not a positive direct integer", off)
		} else {
			s.XRefStm = x
		}
	}
	s.Entries = len(s.ent)
	if size, ok := asInt(s.trailer["Size"]); !ok {
		f.problemf("section at %d: /Size missing or not a direct integer", off)
	} else {
		for nr := range s.ent {
			if nr >= size {
				f.problemf("section at %d: entry for object %d but /Size is %d", off, nr, size)
			}
		}
	}
	return s
}

// xrefEntryOK checks the fixed 20 byte layout of 7.5.4: nnnnnnnnnn ggggg n|f followed by SP LF, SP CR or CR LF.
func xrefEntryOK(e []byte) bool {
	for i, c := range e[:18] {
		switch {
		case i == 10 || i == 16:
			if c != ' ' {
				return false
			}
		case i == 17:
			if c != 'n' && c != 'f' {
				return false
			}
		case !isDigit(c):
			return false
		}
	}
	end := string(e[18:20])
	return end == " \n" || end == " \r" || end == "\r\n"
}

// readTable parses a classic cross-reference table and its trailer (7.5.4, 7.5.5).
func (f *File) readTable(off int) *section {
	s := &section{Section: Section{Offset: off}, ent: map[int]entry{}}
	d, p := f.Data, off+4
	if n := f.eol(p); n == 0 {
		f.problemf("xref table at %d: keyword xref is not followed by an EOL, found %s", off, f.show(p))
		p = f.skipBlank(p)
	} else {
		p += n
	}
	bad := 0
	for !f.hasAt(p, "trailer") {
		// subsection header "first count" EOL
		first, q, ok1 := f.digits(p)
		if !ok1 {
			if q = f.skipBlank(p); f.hasAt(p-2, " \r\n") && len(s.ent) > 0 {
				f.problemf("xref table at %d: the entry before %d ends with SP CR LF, i.e. it has 21 bytes instead of 20", off, p)
			} else if q > p && f.hasAt(q, "trailer") { // not forbidden by 7.5.4/7.5.5, but worth knowing
				f.notef("xref table at %d: %d white-space byte(s) between the last entry and the keyword trailer at %d", off, q-p, q)
			} else {
				f.problemf("xref table at %d: expected a subsection header or the keyword trailer at %d, found %s", off, p, f.show(p))
				if q == p || q >= len(d) || !isDigit(d[q]) {
					return nil
				}
			}
			p = q
			continue
		}
		count, r, ok2 := f.digits(q + 1)
		if !f.hasAt(q, " ") || !ok2 || f.eol(r) == 0 {
			f.problemf("xref table at %d: subsection header at %d is not \"first count\" EOL: %s", off, p, f.show(p))
			if count, r, ok2 = f.digits(f.skipBlank(q)); !ok2 {
				return nil
			}
			r = f.skipBlank(r)
		} else {
			r += f.eol(r)
		}
		p = r
		for i := 0; i < count; i++ {
			nr := first + i
			var e entry
			if p+20 <= len(d) && xrefEntryOK(d[p:p+20]) {
				a, _, _ := f.digits(p)
				g, _, _ := f.digits(p + 11)
				e = entry{1, a, g}
				if d[p+17] == 'f' {
					e.typ = 0
				}
				p += 20
			} else {
				if bad++; bad <= 5 {
					f.problemf("xref table at %d: entry for object %d at %d is not a well-formed 20 byte entry: %s", off, nr, p, f.show(p))
				}
				// Read the entry token-wise only to be able to report further problems.
				a, q, ok1 := f.digits(p)
				for q < len(d) && d[q] == ' ' {
					q++
				}
				g, q, ok2 := f.digits(q)
				for q < len(d) && d[q] == ' ' {
					q++
				}
				if !ok1 || !ok2 || q >= len(d) || (d[q] != 'n' && d[q] != 'f') {
					f.problemf("xref table at %d: cannot read the entry for object %d at %d, giving up on this section", off, nr, p)
					return nil
				}
				e = entry{1, a, g}
				if d[q] == 'f' {
					e.typ = 0
				}
				p = f.skipBlank(q + 1)
			}
			if _, dup := s.ent[nr]; dup {
				f.problemf("xref table at %d: subsections overlap, object %d has more than one entry", off, nr)
				continue
			}
			s.ent[nr] = e
		}
	}
	if bad > 5 {
		f.problemf("xref table at %d: %d malformed entries in total", off, bad)
	}
	ps := &parser{b: d, p: p + 7}
	v, err := ps.value()
	t, isDict := v.(Dict)
	if err != nil || !isDict {
		f.problemf("xref table at %d: the keyword trailer at %d is not followed by a dictionary (%v)", off, p, err)
		return nil
	}
	for _, k := range ps.dups {
		f.problemf("trailer at %d: duplicate dictionary key /%s", p, k)
	}
	s.trailer = t
	return s
}

// readXRefStream parses a cross-reference stream (7.5.8).
func (f *File) readXRefStream(off, nr, gen int) *section {
	o := f.readObject(off, nr, gen)
	if !o.IsStream || o.Dict["Type"] != Name("XRef") {
		f.problemf("offset %d: object %d %d is not a cross-reference stream (/Type /XRef)", off, nr, gen)
		return nil
	}
	if _, direct := o.Dict["Length"].(int64); !direct {
		f.problemf("xref stream %d at %d: /Length is not a direct integer", nr, off)
	}
	s := &section{Section: Section{Offset: off, IsStream: true}, ent: map[int]entry{}, trailer: o.Dict}
	f.xstms = append(f.xstms, nr)
	dec, err := f.DecodeStream(o)
	if err != nil {
		f.problemf("xref stream %d at %d: cannot decode: %v", nr, off, err)
		return nil
	}
	var w [3]int
	wa, _ := o.Dict["W"].([]any)
	for i := range w {
		ok := len(wa) == 3
		if ok {
			w[i], ok = asInt(wa[i])
		}
		if !ok || w[i] < 0 || w[i] > 8 {
			f.problemf("xref stream %d at %d: /W is not an array of 3 integers in 0..8", nr, off)
			return nil
		}
	}
	size, ok := asInt(o.Dict["Size"])
	if !ok || size < 0 {
		f.problemf("xref stream %d at %d: /Size missing or not a non-negative direct integer", nr, off)
		return s
	}
	index := []any{int64(0), int64(size)}
	if v, has := o.Dict["Index"]; has {
		if index, ok = v.([]any); !ok || len(index)%2 != 0 {
			f.problemf("xref stream %d at %d: /Index is not an array of integer pairs", nr, off)
			return s
		}
	}
	rowLen, p, want := w[0]+w[1]+w[2], 0, 0
	if rowLen == 0 {
		f.problemf("xref stream %d at %d: /W describes empty entries", nr, off)
		return s
	}
	field := func(p, n, def int) int {
		if n == 0 {
			return def
		}
		v := 0
		for _, c := range dec[p : p+n] {
			v = v<<8 | int(c)
		}
		return v
	}
	for i := 0; i+1 < len(index); i += 2 {
		first, ok1 := asInt(index[i])
		count, ok2 := asInt(index[i+1])
		if !ok1 || !ok2 || first < 0 || count < 0 {
			f.problemf("xref stream %d at %d: /Index is not an array of integer pairs", nr, off)
			return s
		}
		want += count
		for k := 0; k < count && p+rowLen <= len(dec); k, p = k+1, p+rowLen {
			// default type is 1 when W[0] is 0; default of the 3rd field is 0 (Table 18)
			e := entry{field(p, w[0], 1), field(p+w[0], w[1], 0), field(p+w[0]+w[1], w[2], 0)}
			if e.typ > 2 {
				f.problemf("xref stream %d at %d: entry for object %d has unknown type %d", nr, off, first+k, e.typ)
				continue
			}
			if _, dup := s.ent[first+k]; dup {
				f.problemf("xref stream %d at %d: /Index subsections overlap, object %d has more than one entry", nr, off, first+k)
				continue
			}
			s.ent[first+k] = e
		}
	}
	if want*rowLen != len(dec) {
		f.problemf("xref stream %d at %d: /Index announces %d entries of %d bytes = %d bytes, decoded stream has %d bytes", nr, off, want, rowLen, want*rowLen, len(dec))
	}
	// The stream itself must be locatable through its own entry.
	if e, has := s.ent[nr]; !has {
		f.notef("xref stream %d at %d has no entry for itself", nr, off)
	} else if e != (entry{1, off, gen}) {
		f.problemf("xref stream %d %d at %d: its own entry is {type %d, %d, %d}, expected {type 1, %d, %d}", nr, gen, off, e.typ, e.a, e.b, off, gen)
	}
	return s
}

// ---- checks on the merged state ----------------------------------------------------------------

// checkSize: 7.5.5 Table 15 /Size = highest object number + 1. The highest object number is taken
// from the cross-reference entries (in use or free) of the merged state. A cross-reference stream
// without an entry for itself still occupies an object number; whether that number has to be below
// /Size is not settled by 7.5.8, so for such a file both readings are accepted and a Note is recorded.
func (f *File) checkSize() {
	size, ok := asInt(f.Trailer["Size"])
	if !ok {
		return // reported by readSection
	}
	hi, hiAll := -1, -1
	for nr := range f.ent {
		hi = max(hi, nr)
	}
	for _, nr := range f.xstms {
		hiAll = max(hiAll, nr)
	}
	if hiAll > hi {
		f.notef("/Size is %d, the highest object number with a cross-reference entry is %d, cross-reference stream %d has no entry for itself", size, hi, hiAll)
		if size == hiAll+1 {
			return
		}
	}
	if size != hi+1 {
		f.problemf("trailer /Size is %d but the highest object number with a cross-reference entry is %d (expected /Size %d)", size, hi, hi+1)
	}
}

// checkRoot: 7.5.5 Table 15 /Root shall be an indirect reference (to an object that exists).
func (f *File) checkRoot() {
	r, ok := f.Trailer["Root"].(Ref)
	if !ok {
		f.problemf("trailer /Root missing or not an indirect reference (%v)", f.Trailer["Root"])
	} else if e, has := f.ent[r.Nr]; !has || e.typ == 0 {
		f.problemf("trailer /Root %d %d R does not refer to an in-use object", r.Nr, r.Gen)
	} else if f.Gen[r.Nr] != r.Gen {
		f.problemf("trailer /Root %d %d R: object %d has generation %d", r.Nr, r.Gen, r.Nr, f.Gen[r.Nr])
	}
}

// checkFreeList: 7.5.4 the free entries form a linked list headed by object 0 (generation 65535)
// whose last entry links back to object 0.
func (f *File) checkFreeList() {
	n0 := len(f.Problems)
	chain, onChain := []string{"0"}, map[int]bool{0: true}
	if e, has := f.ent[0]; !has || e.typ != 0 {
		f.problemf("free list: object 0 is not a free entry")
	} else {
		if e.b != 65535 {
			f.problemf("free list: object 0 has generation %d, expected 65535", e.b)
		}
		for cur := 0; ; {
			nx := f.Free[cur]
			chain = append(chain, fmt.Sprint(nx))
			if nx == 0 {
				break
			}
			if _, free := f.Free[nx]; !free {
				what := "has no cross-reference entry"
				if _, has := f.ent[nx]; has {
					what = "is in use"
				}
				f.problemf("free list: free object %d links to object %d which %s", cur, nx, what)
				break
			}
			if onChain[nx] {
				f.problemf("free list: object %d is reached twice, the list does not end at object 0", nx)
				break
			}
			onChain[nx], cur = true, nx
		}
	}
	for _, nr := range f.sortedEntries() {
		if e := f.ent[nr]; e.typ == 0 && !onChain[nr] {
			f.problemf("free list: free object %d (next %d, generation %d) is not on the chain starting at object 0", nr, e.a, e.b)
		}
	}
	if len(f.Problems) > n0 {
		f.problemf("free list: chain followed from object 0: %s", strings.Join(chain, " -> "))
	}
}

// ---- 7.3.10 indirect objects, 7.3.8 streams ---------------------------------------------------

// objHeader reads "nr gen obj" (single spaces) exactly at off.
func (f *File) objHeader(off int) (nr, gen, end int, ok bool) {
	nr, p, ok1 := f.digits(off)
	gen, q, ok2 := f.digits(p + 1)
	if !ok1 || !ok2 || !f.hasAt(p, " ") || !f.hasAt(q, " obj") {
		return 0, 0, 0, false
	}
	return nr, gen, q + 4, true
}

// get returns the in-use object nr of the current state, parsing it on first use.
func (f *File) get(nr int) *Object {
	if o, ok := f.Objects[nr]; ok {
		return o
	}
	e, ok := f.ent[nr]
	if !ok || e.typ == 0 || f.busy[nr] || len(f.busy) > 32 { // no cycles, no deep /Length chains
		return nil
	}
	f.busy[nr] = true
	defer delete(f.busy, nr)
	var o *Object
	if e.typ == 1 {
		o = f.readObject(e.a, nr, e.b)
	} else {
		o = f.readCompressed(nr, e.a, e.b)
	}
	f.Objects[nr] = o
	return o
}

// Resolve follows a Ref to the object's value one level; any other value is returned unchanged.
// A reference to a free or undefined object yields nil (the null object, 7.3.10).
func (f *File) Resolve(v any) any {
	r, ok := v.(Ref)
	if !ok {
		return v
	}
	o := f.get(r.Nr)
	if o == nil || o.Gen != r.Gen {
		return nil
	}
	if o.Dict != nil {
		return o.Dict
	}
	return o.Value
}

// readObject parses the indirect object that a type 1 entry claims to be at off.
func (f *File) readObject(off, nr, gen int) *Object {
	o := &Object{Nr: nr, Gen: gen, Offset: off}
	d := f.Data
	hdr := fmt.Sprintf("%d %d obj", nr, gen)
	p := off + len(hdr)
	if !f.hasAt(off, hdr) {
		f.problemf("object %d %d: no \"%s\" exactly at offset %d, found %s", nr, gen, hdr, off, f.show(off))
		return o
	}
	if p >= len(d) || !(isWS(d[p]) || isDelim(d[p])) {
		f.problemf("object %d %d at %d: keyword obj is not followed by white space or a delimiter, found %s", nr, gen, off, f.show(p))
		return o
	}
	ps := &parser{b: d, p: p}
	v, err := ps.value()
	if err != nil {
		f.problemf("object %d %d at %d: cannot parse the object: %v", nr, gen, off, err)
		return o
	}
	for _, k := range ps.dups {
		f.problemf("object %d %d at %d: duplicate dictionary key /%s", nr, gen, off, k)
	}
	o.Value = v
	o.Dict, _ = v.(Dict)
	ps.skipWS()
	if ps.hasPrefix("stream") && o.Dict != nil {
		o.IsStream = true
		ps.p = f.readStreamData(o, ps.p+6)
		ps.skipWS()
	}
	if !ps.hasPrefix("endobj") {
		f.problemf("object %d %d at %d: endobj expected at %d, found %s", nr, gen, off, ps.p, f.show(ps.p))
		return o
	}
	o.Raw = d[p:ps.p]
	return o
}

// readStreamData checks 7.3.8.1: "stream" CRLF|LF, exactly /Length bytes, optional single EOL, "endstream".
// p is the position after the keyword stream; the position after endstream is returned.
func (f *File) readStreamData(o *Object, p int) int {
	d := f.Data
	switch {
	case f.hasAt(p, "\r\n"):
		p += 2
	case f.hasAt(p, "\n"):
		p++
	case f.hasAt(p, "\r"):
		f.problemf("stream %d at %d: keyword stream is followed by CR alone (must be CRLF or LF)", o.Nr, o.Offset)
		p++
	default:
		f.problemf("stream %d at %d: keyword stream is not followed by CRLF or LF, found %s", o.Nr, o.Offset, f.show(p))
	}
	length, ok := -1, false
	switch l := o.Dict["Length"].(type) {
	case int64:
		length, ok = int(l), true
	case Ref:
		if t := f.get(l.Nr); t == nil || t.Gen != l.Gen {
			f.problemf("stream %d at %d: /Length %d %d R cannot be resolved to an in-use object", o.Nr, o.Offset, l.Nr, l.Gen)
		} else if length, ok = asInt(t.Value); !ok {
			f.problemf("stream %d at %d: /Length %d %d R is not an integer object", o.Nr, o.Offset, l.Nr, l.Gen)
		}
	default:
		f.problemf("stream %d at %d: /Length missing or neither an integer nor a reference", o.Nr, o.Offset)
	}
	if ok && length >= 0 && p+length <= len(d) {
		e := p + length
		if k := e + f.eol(e); f.hasAt(e, "endstream") || f.hasAt(k, "endstream") {
			o.StreamData = d[p:e]
			if f.hasAt(e, "endstream") {
				return e + 9
			}
			return k + 9
		}
	}
	// Only to word the problem and to carry on with endobj: where is the next endstream keyword?
	i := bytes.Index(d[min(p, len(d)):], []byte("endstream"))
	if i < 0 {
		f.problemf("stream %d at %d: /Length %d, data starts at %d, no endstream keyword found", o.Nr, o.Offset, length, p)
		return len(d)
	}
	if ok {
		f.problemf("stream %d at %d: /Length %d (data starts at %d, so endstream is expected at %d or after one EOL there) but endstream found at %d (%+d)",
			o.Nr, o.Offset, length, p, p+length, p+i, i-length)
	}
	o.StreamData = d[p : p+i]
	return p + i + 9
}

// ---- 7.5.7 object streams ----------------------------------------------------------------------

// readCompressed checks a type 2 entry (nr is stored at position idx of object stream snr).
func (f *File) readCompressed(nr, snr, idx int) *Object {
	f.nComp++
	o := &Object{Nr: nr, Offset: -1, InObjStm: snr, Index: idx}
	if e, has := f.ent[snr]; !has || e.typ != 1 {
		f.problemf("object %d: its object stream %d is not an in-use uncompressed object", nr, snr)
		return o
	} else if e.b != 0 {
		f.problemf("object %d: its object stream %d has generation %d, must be 0", nr, snr, e.b)
	}
	so := f.get(snr)
	if so == nil || !so.IsStream || so.Dict["Type"] != Name("ObjStm") {
		f.problemf("object %d: object %d is not an object stream (stream with /Type /ObjStm)", nr, snr)
		return o
	}
	n, ok1 := asInt(so.Dict["N"])
	first, ok2 := asInt(so.Dict["First"])
	if !ok1 || !ok2 || n < 0 || first < 0 {
		f.problemf("object stream %d: /N and /First must be non-negative direct integers", snr)
		return o
	}
	if idx >= n {
		f.problemf("object %d: index %d in object stream %d but /N is %d", nr, idx, snr, n)
		return o
	}
	if _, enc := f.Trailer["Encrypt"]; enc {
		return o
	}
	st := f.stms[snr]
	if st == nil {
		st = f.loadObjStm(so, n, first)
		f.stms[snr] = st
	}
	if !st.ok {
		return o
	}
	if st.nrs[idx] != nr {
		f.problemf("object %d: cross-reference entry says index %d of object stream %d, but that position holds object %d (stream lists %v)", nr, idx, snr, st.nrs[idx], st.nrs)
		return o
	}
	start, end := first+st.offs[idx], len(st.data)
	if idx+1 < n {
		end = first + st.offs[idx+1]
	}
	o.Raw = st.data[start:end]
	ps := &parser{b: o.Raw}
	v, err := ps.value()
	if err != nil {
		f.problemf("object %d (index %d of object stream %d, bytes %d..%d): cannot parse: %v", nr, idx, snr, start, end, err)
		return o
	}
	for _, k := range ps.dups {
		f.problemf("object %d (in object stream %d): duplicate dictionary key /%s", nr, snr, k)
	}
	o.Value = v
	o.Dict, _ = v.(Dict)
	if ps.skipWS(); ps.hasPrefix("stream") {
		f.problemf("object %d (in object stream %d) is a stream; streams must not be stored in object streams", nr, snr)
	} else if ps.p < len(ps.b) {
		f.problemf("object %d (index %d of object stream %d): unexpected bytes after the object: %q", nr, idx, snr, ps.b[ps.p:min(len(ps.b), ps.p+24)])
	}
	return o
}

// loadObjStm decodes an object stream and checks its prolog: N pairs "objnr offset", /First, offsets.
func (f *File) loadObjStm(so *Object, n, first int) *objStm {
	st := &objStm{first: first}
	dec, err := f.DecodeStream(so)
	if err != nil {
		f.problemf("object stream %d: cannot decode: %v", so.Nr, err)
		return st
	}
	st.data = dec
	ps := &parser{b: dec}
	for i := 0; i < n; i++ {
		ps.skipWS()
		nr, ok1 := ps.uint()
		ps.skipWS()
		off, ok2 := ps.uint()
		if !ok1 || !ok2 {
			f.problemf("object stream %d: prolog does not consist of /N = %d integer pairs (pair %d unreadable at %d)", so.Nr, n, i, ps.p)
			return st
		}
		st.nrs, st.offs = append(st.nrs, nr), append(st.offs, off)
	}
	bad := false
	fail := func(format string, a ...any) {
		bad = true
		f.problemf("object stream %d: "+format, append([]any{so.Nr}, a...)...)
	}
	if first > len(dec) {
		fail("/First %d is beyond the %d decoded bytes", first, len(dec))
	} else if ps.p > first {
		fail("/First is %d but the prolog of %d pairs extends to %d", first, n, ps.p)
	} else if gap := bytes.TrimLeft(dec[ps.p:first], "\x00\t\n\f\r "); len(gap) > 0 {
		fail("/First %d is not the offset of the first object: non-blank bytes %q between the prolog (ends at %d) and /First", first, gap[:min(len(gap), 16)], ps.p)
	}
	for i, off := range st.offs {
		switch {
		case i == 0 && off != 0:
			fail("offset of the first object (%d) is %d, expected 0 (offsets are relative to /First)", st.nrs[0], off)
		case i > 0 && off < st.offs[i-1]:
			fail("offsets decrease at pair %d (object %d): %d after %d", i, st.nrs[i], off, st.offs[i-1])
		case first+off >= len(dec):
			fail("offset %d of object %d is outside the %d decoded bytes (/First %d)", off, st.nrs[i], len(dec), first)
		case isWS(dec[first+off]):
			fail("offset /First+%d = %d of object %d (index %d) points at white space, not at the first byte of the object", off, first+off, st.nrs[i], i)
		}
	}
	st.ok = !bad
	return st
}

// Summary returns a one-line description of the file structure.
func (f *File) Summary() string {
	var secs []string
	kind := map[bool]string{false: "table", true: "stream"}
	for _, s := range f.Sections {
		secs = append(secs, fmt.Sprintf("%s@%d[%d]", kind[s.IsStream], s.Offset, s.Entries))
	}
	_, enc := f.Trailer["Encrypt"]
	return fmt.Sprintf("PDF %s, %d bytes, %d xref section(s) newest first: %s; /Size %v, %d in-use objects (%d compressed), %d free, encrypted %v, %d problem(s), %d note(s)",
		f.Version, len(f.Data), len(f.Sections), strings.Join(secs, " "), f.Trailer["Size"], len(f.Objects), f.nComp, len(f.Free), enc, len(f.Problems), len(f.Notes))
}
