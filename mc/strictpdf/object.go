package strictpdf

import (
	"errors"
	"fmt"
	"strconv"
)

// Value model (ISO 32000-1 7.3): nil (null), bool, int64, float64, Name,
// String, Ref, []any, Dict.
type Dict map[string]any
type Name string
type String []byte
type Ref struct{ Nr, Gen int }

const maxDepth = 256 // nesting limit for arrays/dicts: keeps recursion bounded

// parser is a small recursive descent parser for PDF objects (7.3).
type parser struct {
	b     []byte
	p     int
	depth int
	dups  []string // duplicate dictionary keys seen (reported by Parse as problems)
}

// 7.2.2 character classes.
func isWS(c byte) bool { return c == 0 || c == 9 || c == 10 || c == 12 || c == 13 || c == 32 }
func isDelim(c byte) bool {
	switch c {
	case '(', ')', '<', '>', '[', ']', '{', '}', '/', '%':
		return true
	}
	return false
}
func isDigit(c byte) bool   { return c >= '0' && c <= '9' }
func isRegular(c byte) bool { return !isWS(c) && !isDelim(c) }
func hexVal(c byte) int {
	switch {
	case c >= '0' && c <= '9':
		return int(c - '0')
	case c >= 'a' && c <= 'f':
		return int(c-'a') + 10
	case c >= 'A' && c <= 'F':
		return int(c-'A') + 10
	}
	return -1
}

// skipWS skips white space and comments (7.2.3).
func (ps *parser) skipWS() {
	for ps.p < len(ps.b) {
		c := ps.b[ps.p]
		if isWS(c) {
			ps.p++
		} else if c == '%' {
			for ps.p < len(ps.b) && ps.b[ps.p] != '\n' && ps.b[ps.p] != '\r' {
				ps.p++
			}
		} else {
			break
		}
	}
}

func (ps *parser) hasPrefix(s string) bool {
	return ps.p+len(s) <= len(ps.b) && string(ps.b[ps.p:ps.p+len(s)]) == s
}

// ParseObject parses one PDF object (scalar, array, dict, reference) at the
// start of b (leading white space/comments are skipped) and returns the value
// and the number of bytes consumed.
func ParseObject(b []byte) (v any, n int, err error) {
	defer func() {
		if r := recover(); r != nil {
			err = fmt.Errorf("internal error: %v", r)
		}
	}()
	ps := &parser{b: b}
	v, err = ps.value()
	return v, ps.p, err
}

func (ps *parser) value() (any, error) {
	ps.skipWS()
	if ps.p >= len(ps.b) {
		return nil, fmt.Errorf("unexpected end of data at %d", ps.p)
	}
	if ps.depth > maxDepth {
		return nil, errors.New("nesting too deep")
	}
	c := ps.b[ps.p]
	switch {
	case c == '/':
		return ps.name()
	case c == '(':
		return ps.litString()
	case c == '<':
		if ps.hasPrefix("<<") {
			return ps.dict()
		}
		return ps.hexString()
	case c == '[':
		return ps.array()
	case isDigit(c) || c == '+' || c == '-' || c == '.':
		return ps.number()
	}
	s := ps.p
	for ps.p < len(ps.b) && isRegular(ps.b[ps.p]) {
		ps.p++
	}
	switch string(ps.b[s:ps.p]) {
	case "true":
		return true, nil
	case "false":
		return false, nil
	case "null":
		return nil, nil
	}
	e := min(len(ps.b), s+16)
	ps.p = s
	return nil, fmt.Errorf("unexpected token %q at %d", ps.b[s:e], s)
}

// number parses 7.3.3 numeric objects and, for non-negative integers, looks
// ahead for "gen R" to form an indirect reference (7.3.10).
func (ps *parser) number() (any, error) {
	s := ps.p
	signed := ps.b[ps.p] == '+' || ps.b[ps.p] == '-'
	if signed {
		ps.p++
	}
	digits, dot := 0, false
	for ps.p < len(ps.b) {
		c := ps.b[ps.p]
		if isDigit(c) {
			digits++
		} else if c == '.' && !dot {
			dot = true
		} else {
			break
		}
		ps.p++
	}
	if digits == 0 || (ps.p < len(ps.b) && isRegular(ps.b[ps.p])) {
		return nil, fmt.Errorf("malformed number at %d", s)
	}
	tok := string(ps.b[s:ps.p])
	if dot {
		x, err := strconv.ParseFloat(tok, 64)
		if err != nil {
			return nil, fmt.Errorf("malformed real %q at %d", tok, s)
		}
		return x, nil
	}
	i, err := strconv.ParseInt(tok, 10, 64)
	if err != nil { // out of range: keep the magnitude as a real
		x, _ := strconv.ParseFloat(tok, 64)
		return x, nil
	}
	if signed {
		return i, nil
	}
	save := ps.p
	ps.skipWS()
	if g, ok := ps.uint(); ok && ps.p > save && ps.p < len(ps.b) && isWS(ps.b[ps.p]) {
		ps.skipWS()
		if ps.p < len(ps.b) && ps.b[ps.p] == 'R' && (ps.p+1 == len(ps.b) || !isRegular(ps.b[ps.p+1])) {
			ps.p++
			return Ref{int(i), g}, nil
		}
	}
	ps.p = save
	return i, nil
}

// uint reads an unsigned decimal integer at the current position (no white space skipping).
func (ps *parser) uint() (int, bool) {
	s, v := ps.p, 0
	for ps.p < len(ps.b) && isDigit(ps.b[ps.p]) && ps.p-s < 18 {
		v = v*10 + int(ps.b[ps.p]-'0')
		ps.p++
	}
	return v, ps.p > s
}

// name parses 7.3.5 name objects including #xx escapes.
func (ps *parser) name() (any, error) {
	s := ps.p
	ps.p++
	var out []byte
	for ps.p < len(ps.b) && isRegular(ps.b[ps.p]) {
		c := ps.b[ps.p]
		if c == '#' {
			if ps.p+2 >= len(ps.b) || hexVal(ps.b[ps.p+1]) < 0 || hexVal(ps.b[ps.p+2]) < 0 {
				return nil, fmt.Errorf("invalid #-escape in name at %d", s)
			}
			c = byte(hexVal(ps.b[ps.p+1])<<4 | hexVal(ps.b[ps.p+2]))
			ps.p += 2
		}
		out = append(out, c)
		ps.p++
	}
	return Name(out), nil
}

// litString parses 7.3.4.2 literal strings.
func (ps *parser) litString() (any, error) {
	s := ps.p
	ps.p++
	out, depth := String{}, 1
	for ps.p < len(ps.b) {
		c := ps.b[ps.p]
		ps.p++
		switch c {
		case '(':
			depth++
		case ')':
			if depth--; depth == 0 {
				return out, nil
			}
		case '\r': // an unescaped EOL is read as LF
			if ps.p < len(ps.b) && ps.b[ps.p] == '\n' {
				ps.p++
			}
			c = '\n'
		case '\\':
			if ps.p >= len(ps.b) {
				return nil, fmt.Errorf("unterminated string starting at %d", s)
			}
			e := ps.b[ps.p]
			ps.p++
			switch {
			case e == 'n':
				c = '\n'
			case e == 'r':
				c = '\r'
			case e == 't':
				c = '\t'
			case e == 'b':
				c = '\b'
			case e == 'f':
				c = '\f'
			case e == '\n': // line continuation
				continue
			case e == '\r':
				if ps.p < len(ps.b) && ps.b[ps.p] == '\n' {
					ps.p++
				}
				continue
			case e >= '0' && e <= '7':
				v := int(e - '0')
				for k := 0; k < 2 && ps.p < len(ps.b) && ps.b[ps.p] >= '0' && ps.b[ps.p] <= '7'; k++ {
					v = v*8 + int(ps.b[ps.p]-'0')
					ps.p++
				}
				c = byte(v)
			default: // "(", ")", "\" and unknown escapes: the backslash is dropped
				c = e
			}
		}
		out = append(out, c)
	}
	return nil, fmt.Errorf("unterminated string starting at %d", s)
}

// hexString parses 7.3.4.3 hexadecimal strings.
func (ps *parser) hexString() (any, error) {
	s := ps.p
	ps.p++
	out, hi := String{}, -1
	for ps.p < len(ps.b) {
		c := ps.b[ps.p]
		ps.p++
		switch h := hexVal(c); {
		case c == '>':
			if hi >= 0 {
				out = append(out, byte(hi<<4))
			}
			return out, nil
		case isWS(c):
		case h < 0:
			return nil, fmt.Errorf("invalid character %q in hex string at %d", c, ps.p-1)
		case hi < 0:
			hi = h
		default:
			out, hi = append(out, byte(hi<<4|h)), -1
		}
	}
	return nil, fmt.Errorf("unterminated hex string starting at %d", s)
}

// array parses 7.3.6 array objects.
func (ps *parser) array() (any, error) {
	s := ps.p
	ps.p++
	out := []any{}
	for {
		ps.skipWS()
		if ps.p >= len(ps.b) {
			return nil, fmt.Errorf("unterminated array starting at %d", s)
		}
		if ps.b[ps.p] == ']' {
			ps.p++
			return out, nil
		}
		ps.depth++
		v, err := ps.value()
		ps.depth--
		if err != nil {
			return nil, err
		}
		out = append(out, v)
	}
}

// dict parses 7.3.7 dictionary objects. Keys must be names; duplicate keys are
// recorded in ps.dups (the last value wins in the returned map).
func (ps *parser) dict() (any, error) {
	s := ps.p
	ps.p += 2
	out := Dict{}
	for {
		ps.skipWS()
		if ps.p >= len(ps.b) {
			return nil, fmt.Errorf("unterminated dictionary starting at %d", s)
		}
		if ps.hasPrefix(">>") {
			ps.p += 2
			return out, nil
		}
		if ps.b[ps.p] != '/' {
			return nil, fmt.Errorf("dictionary key at %d is not a name", ps.p)
		}
		k, err := ps.name()
		if err != nil {
			return nil, err
		}
		ps.depth++
		v, err := ps.value()
		ps.depth--
		if err != nil {
			return nil, err
		}
		key := string(k.(Name))
		if _, dup := out[key]; dup {
			ps.dups = append(ps.dups, key)
		}
		out[key] = v
	}
}

func asInt(v any) (int, bool) {
	i, ok := v.(int64)
	return int(i), ok
}
