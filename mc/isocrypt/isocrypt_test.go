package isocrypt

import (
	"bytes"
	"encoding/hex"
	"fmt"
	"regexp"
	"strings"
	"testing"

	"github.com/pdfcpu/pdfcpu/pkg/api"
	"github.com/pdfcpu/pdfcpu/pkg/pdfcpu"
	"github.com/pdfcpu/pdfcpu/pkg/pdfcpu/model"
)

func unhexs(t *testing.T, s string) []byte {
	t.Helper()
	b, err := hex.DecodeString(strings.ReplaceAll(s, " ", ""))
	if err != nil {
		t.Fatal(err)
	}
	return b
}

// ---------------------------------------------------------------------------
// 1. known answer tests

func TestPaddingString(t *testing.T) {
	want := unhexs(t, "28BF4E5E4E758A41 64004E56FFFA0108 2E2E00B6D0683E80 2F0CA9FE6453697A")
	if !bytes.Equal(PadPassword(nil), want) {
		t.Fatalf("padding string: %X", PadPassword(nil))
	}
	got := PadPassword([]byte("abc"))
	if !bytes.Equal(got[:3], []byte("abc")) || !bytes.Equal(got[3:], want[:29]) || len(got) != 32 {
		t.Fatalf("PadPassword(abc) = %X", got)
	}
	long := bytes.Repeat([]byte("x"), 40)
	if !bytes.Equal(PadPassword(long), long[:32]) {
		t.Fatal("PadPassword does not truncate to 32 bytes")
	}
}

func TestRC4KnownAnswers(t *testing.T) {
	// classic test vectors
	for _, c := range []struct{ key, plain, cipher string }{
		{"Key", "Plaintext", "BBF316E8D940AF0AD3"},
		{"Wiki", "pedia", "1021BF0420"},
		{"Secret", "Attack at dawn", "45A01F645FC35B383552544B9BF5"},
	} {
		got := RC4([]byte(c.key), []byte(c.plain))
		if fmt.Sprintf("%X", got) != c.cipher {
			t.Errorf("RC4(%q,%q) = %X, want %s", c.key, c.plain, got, c.cipher)
		}
		if back := RC4([]byte(c.key), got); string(back) != c.plain {
			t.Errorf("RC4 round trip failed for %q", c.key)
		}
	}
	// RFC 6229: 40 bit key 0x0102030405, key stream offset 0 and 16
	ks := RC4(unhexs(t, "0102030405"), make([]byte, 32))
	want := unhexs(t, "b2396305f03dc027ccc3524a0a1118a8 6982944f18fc82d589c403a47a0d0919")
	if !bytes.Equal(ks, want) {
		t.Errorf("RFC 6229 40 bit: %x", ks)
	}
	// RFC 6229: 128 bit key 0x0102..10, offset 0
	ks = RC4(unhexs(t, "0102030405060708090a0b0c0d0e0f10"), make([]byte, 16))
	want = unhexs(t, "9ac7cc9a609d1ef7b2932899cde41b97")
	if !bytes.Equal(ks, want) {
		t.Errorf("RFC 6229 128 bit: %x", ks)
	}
}

func TestAESCBCKnownAnswer(t *testing.T) {
	// NIST SP 800-38A F.2.1 CBC-AES128.Encrypt
	key := unhexs(t, "2b7e151628aed2a6abf7158809cf4f3c")
	iv := unhexs(t, "000102030405060708090a0b0c0d0e0f")
	plain := unhexs(t, "6bc1bee22e409f96e93d7e117393172a ae2d8a571e03ac9c9eb76fac45af8e51"+
		"30c81c46a35ce411e5fbc1191a0a52ef f69f2445df4f9b17ad2b417be66c3710")
	cipher := unhexs(t, "7649abac8119b246cee98e9b12e9197d 5086cb9b507219ee95db113a917678b2"+
		"73bed6b8e3c1743b7116e69e22229516 3ff1caa1681fac09120eca307586e1a7")
	got := AESCBCEncrypt(key, iv, plain)
	if len(got) != 16+64+16 {
		t.Fatalf("length %d: a full padding block must be appended", len(got))
	}
	if !bytes.Equal(got[:16], iv) {
		t.Error("IV is not prepended")
	}
	if !bytes.Equal(got[16:80], cipher) {
		t.Errorf("cipher text mismatch: %x", got[16:80])
	}
	back, err := AESCBCDecrypt(key, got)
	if err != nil || !bytes.Equal(back, plain) {
		t.Errorf("decrypt: %v %x", err, back)
	}
	for n := 0; n < 40; n++ {
		p := bytes.Repeat([]byte{byte(n)}, n)
		c := AESCBCEncrypt(key, iv, p)
		if len(c) != 16+(n/16+1)*16 {
			t.Errorf("n=%d: len %d", n, len(c))
		}
		back, err := AESCBCDecrypt(key, c)
		if err != nil || !bytes.Equal(back, p) {
			t.Errorf("n=%d: round trip failed: %v", n, err)
		}
	}
	if _, err := AESCBCDecrypt(key, got[:40]); err == nil {
		t.Error("partial block accepted")
	}
}

func TestObjectKey(t *testing.T) {
	fk := unhexs(t, "0102030405")
	if k := ObjectKey(fk, 1, 0, false, 2); len(k) != 10 {
		t.Errorf("40 bit key: object key length %d, want 10", len(k))
	}
	fk = make([]byte, 16)
	k1, k2 := ObjectKey(fk, 1, 0, false, 4), ObjectKey(fk, 1, 0, true, 4)
	if len(k1) != 16 || len(k2) != 16 || bytes.Equal(k1, k2) {
		t.Error("128 bit object key: length or sAlT")
	}
	if bytes.Equal(ObjectKey(fk, 1, 0, false, 4), ObjectKey(fk, 1, 1, false, 4)) ||
		bytes.Equal(ObjectKey(fk, 1, 0, false, 4), ObjectKey(fk, 0x10001, 0, false, 4)) ||
		!bytes.Equal(ObjectKey(fk, 1, 0, false, 4), ObjectKey(fk, 0x1000001, 0x10000, false, 4)) {
		t.Error("object key must depend on the low 3 bytes of the number and low 2 bytes of the generation")
	}
	fk = make([]byte, 32)
	if !bytes.Equal(ObjectKey(fk, 7, 3, true, 6), fk) {
		t.Error("R6 uses the file key directly")
	}
}

func TestPreparePassword(t *testing.T) {
	for _, c := range []struct {
		in   string
		R    int
		want string
		err  bool
	}{
		{"user", 3, "user", false},
		{"p\u00e4ss", 4, "p\xe4ss", false},     // Latin-1
		{"\u20ac\u2022", 2, "\xa0\x80", false}, // Euro, bullet in PDFDocEncoding
		{"\u4e2d", 3, "", true},                // not representable
		{"user", 6, "user", false},
		{"p\u00e4ss", 6, "p\xc3\xa4ss", false}, // UTF-8
		{"I\u00adX", 6, "IX", false},           // RFC 4013 example 1: soft hyphen mapped to nothing
		{"\u00aa", 6, "a", false},              // RFC 4013 example 3: NFKC
		{"\u2168", 5, "IX", false},             // RFC 4013 example 4: NFKC
		{"a\u00a0b", 6, "a b", false},          // non-ASCII space
		{"\u0007", 6, "", true},                // RFC 4013 example 5: prohibited
		{"\u06271", 6, "", true},               // RFC 4013 example 6: bidi
		{"\ue000", 6, "", true},                // private use
		{strings.Repeat("x", 200), 6, strings.Repeat("x", 127), false},
	} {
		got, err := PreparePassword(c.in, c.R)
		if (err != nil) != c.err {
			t.Errorf("PreparePassword(%q,%d): err=%v", c.in, c.R, err)
			continue
		}
		if err == nil && string(got) != c.want {
			t.Errorf("PreparePassword(%q,%d) = %q, want %q", c.in, c.R, got, c.want)
		}
	}
}

// ---------------------------------------------------------------------------
// 2. self consistency

type variant struct {
	name    string
	R       int
	aes     bool
	keyBits int
}

var variants = []variant{
	{"R2", 2, false, 40},
	{"R3-40", 3, false, 40},
	{"R3-56", 3, false, 56},
	{"R3-128", 3, false, 128},
	{"R4-RC4", 4, false, 128},
	{"R4-AES", 4, true, 128},
	{"R5", 5, true, 256},
	{"R6", 6, true, 256},
}

func specFor(v variant, upw, opw string, encMeta bool) DocSpec {
	return DocSpec{
		R: v.R, AES: v.aes, KeyBits: v.keyBits,
		UserPw: []byte(upw), OwnerPw: []byte(opw),
		P:               -3904, // 0xFFFFF0C0: nothing allowed
		ID0:             []byte("0123456789abcdef"),
		EncryptMetadata: encMeta,
		Marker:          "Marker (" + v.name + ") \\ text",
	}
}

var reTitle = regexp.MustCompile(`/Title <([0-9A-F]*)>`)
var reStream = regexp.MustCompile(`(?s)4 0 obj\n<< /Length (\d+) >>\nstream\n`)

func TestSelfConsistency(t *testing.T) {
	for _, v := range variants {
		for _, encMeta := range []bool{true, false} {
			for _, pws := range [][2]string{{"user", "owner"}, {"", "owner"}, {"user", ""}, {strings.Repeat("u", 40), strings.Repeat("o", 140)}} {
				name := fmt.Sprintf("%s/meta=%v/%.4q,%.4q", v.name, encMeta, pws[0], pws[1])
				t.Run(name, func(t *testing.T) {
					s := specFor(v, pws[0], pws[1], encMeta)
					pdf, e, fk := BuildEncryptedPDF(s)
					pdf2, _, _ := BuildEncryptedPDF(s)
					if !bytes.Equal(pdf, pdf2) {
						t.Fatal("build is not reproducible")
					}
					wantLen := v.keyBits / 8
					if len(fk) != wantLen {
						t.Fatalf("file key length %d, want %d", len(fk), wantLen)
					}
					// the encryption dictionary read back from the bytes equals e
					e2, err := ExtractEnc(pdf)
					if err != nil {
						t.Fatal(err)
					}
					if fmt.Sprintf("%+v", e) != fmt.Sprintf("%+v", e2) {
						t.Fatalf("ExtractEnc:\n got %+v\nwant %+v", e2, e)
					}

					k, ok := CheckUserPassword(s.UserPw, e)
					if !ok || !bytes.Equal(k, fk) {
						t.Errorf("user password: ok=%v key=%X want %X", ok, k, fk)
					}
					opw := s.OwnerPw
					if len(opw) == 0 && v.R <= 4 {
						opw = s.UserPw // Algorithm 3 (a)
					}
					k, ok = CheckOwnerPassword(opw, e)
					if !ok || !bytes.Equal(k, fk) {
						t.Errorf("owner password: ok=%v key=%X want %X", ok, k, fk)
					}
					if _, ok := CheckUserPassword([]byte("wrong"), e); ok {
						t.Error("wrong user password accepted")
					}
					if _, ok := CheckOwnerPassword([]byte("wrong"), e); ok {
						t.Error("wrong owner password accepted")
					}
					if pws[0] != pws[1] && pws[1] != "" {
						if _, ok := CheckUserPassword(s.OwnerPw, e); ok {
							t.Error("owner password accepted as user password")
						}
						if _, ok := CheckOwnerPassword(s.UserPw, e); ok {
							t.Error("user password accepted as owner password")
						}
					}
					if v.R >= 5 {
						if !CheckPerms(fk, e) {
							t.Error("CheckPerms failed")
						}
						bad := e
						bad.P ^= 4
						if CheckPerms(fk, bad) {
							t.Error("CheckPerms ignores P")
						}
						bad = e
						bad.EncryptMetadata = !bad.EncryptMetadata
						if CheckPerms(fk, bad) {
							t.Error("CheckPerms ignores EncryptMetadata")
						}
					} else {
						// ComputeO / ComputeU reproduce the dictionary values
						if o := ComputeO(s.OwnerPw, s.UserPw, e.R, e.KeyBits); !bytes.Equal(o, e.O) {
							t.Error("ComputeO mismatch")
						}
						if u := ComputeU(s.UserPw, e); !bytes.Equal(u, e.U) {
							t.Error("ComputeU mismatch")
						}
					}

					// Info /Title
					m := reTitle.FindSubmatch(pdf)
					if m == nil {
						t.Fatal("no /Title hex string")
					}
					ct, _ := hex.DecodeString(string(m[1]))
					if bytes.Contains(pdf, []byte(s.Marker)) || bytes.Contains(pdf, []byte("Tj ET")) {
						t.Error("clear text in the encrypted file")
					}
					pt, err := DecryptString(fk, ObjInfo, 0, e, ct)
					if err != nil || string(pt) != s.Marker {
						t.Errorf("title: %v %q", err, pt)
					}
					// content stream
					loc := reStream.FindSubmatchIndex(pdf)
					if loc == nil {
						t.Fatal("content stream not found")
					}
					var n int
					fmt.Sscan(string(pdf[loc[2]:loc[3]]), &n)
					pt, err = DecryptString(fk, ObjContents, 0, e, pdf[loc[1]:loc[1]+n])
					if err != nil || !bytes.Equal(pt, ContentStream(s.Marker)) {
						t.Errorf("content: %v %q", err, pt)
					}
					if !bytes.HasPrefix(pdf[loc[1]+n:], []byte("\nendstream")) {
						t.Error("stream /Length is wrong")
					}
				})
			}
		}
	}
}

func TestEncryptMetadataAffectsKeyOnlyForR4(t *testing.T) {
	for _, v := range variants {
		if v.R > 4 {
			continue
		}
		_, _, k1 := BuildEncryptedPDF(specFor(v, "user", "owner", true))
		_, _, k2 := BuildEncryptedPDF(specFor(v, "user", "owner", false))
		if (v.R == 4) == bytes.Equal(k1, k2) {
			t.Errorf("%s: keys equal = %v", v.name, bytes.Equal(k1, k2))
		}
	}
}

func TestHash2BShape(t *testing.T) {
	h := Hash2B([]byte("pw"), []byte("12345678"), nil)
	if len(h) != 32 {
		t.Fatalf("length %d", len(h))
	}
	if bytes.Equal(h, HashR5([]byte("pw"), []byte("12345678"), nil)) {
		t.Error("Hash2B equals plain SHA-256")
	}
	if bytes.Equal(h, Hash2B([]byte("pw"), []byte("12345678"), make([]byte, 48))) {
		t.Error("udata is ignored")
	}
}

// ---------------------------------------------------------------------------
// 3. cross check against pdfcpu

func newConf(upw, opw string) *model.Configuration {
	conf := model.NewDefaultConfiguration()
	conf.UserPW, conf.OwnerPW = upw, opw
	conf.ValidationMode = model.ValidationRelaxed
	return conf
}

func pdfcpuOpen(pdf []byte, upw, opw string) (*model.Context, error) {
	ctx, err := api.ReadContext(bytes.NewReader(pdf), newConf(upw, opw))
	if err != nil {
		return nil, err
	}
	if err := api.ValidateContext(ctx); err != nil {
		return nil, fmt.Errorf("validate: %w", err)
	}
	return ctx, nil
}

func crossVariants() []variant {
	return []variant{
		{"R2", 2, false, 40},
		{"R3-40", 3, false, 40},
		{"R3-128", 3, false, 128},
		{"R4-RC4", 4, false, 128},
		{"R4-AES", 4, true, 128},
		{"R5", 5, true, 256},
		{"R6", 6, true, 256},
	}
}

// (a) files written by this package are opened by pdfcpu.
func TestPdfcpuReadsOurFiles(t *testing.T) {
	api.DisableConfigDir()
	for _, v := range crossVariants() {
		for _, encMeta := range []bool{true, false} {
			if !encMeta && v.R < 4 {
				continue
			}
			for _, literal := range []bool{false, true} {
				t.Run(fmt.Sprintf("%s/meta=%v/literal=%v", v.name, encMeta, literal), func(t *testing.T) {
					s := specFor(v, "user", "owner", encMeta)
					s.P = -1 // all permissions, so that the user password suffices for everything
					s.LiteralStrings = literal
					// no backslash here, see TestPdfcpuHexStringBackslash
					s.Marker = "Marker (" + v.name + ") text"
					pdf, _, _ := BuildEncryptedPDF(s)
					for _, pw := range [][2]string{{"user", ""}, {"", "owner"}, {"user", "owner"}} {
						ctx, err := pdfcpuOpen(pdf, pw[0], pw[1])
						if err != nil {
							t.Errorf("upw=%q opw=%q: %v", pw[0], pw[1], err)
							continue
						}
						if ctx.PageCount != 1 {
							t.Errorf("upw=%q opw=%q: page count %d", pw[0], pw[1], ctx.PageCount)
						}
						if ctx.Title != s.Marker {
							t.Errorf("upw=%q opw=%q: title %q, want %q", pw[0], pw[1], ctx.Title, s.Marker)
						}
						// decrypted page content
						r, err := pdfcpu.ExtractPageContent(ctx, 1)
						if err != nil {
							t.Errorf("content: %v", err)
							continue
						}
						var buf bytes.Buffer
						buf.ReadFrom(r)
						if !bytes.Equal(bytes.TrimSpace(buf.Bytes()), ContentStream(s.Marker)) {
							t.Errorf("upw=%q opw=%q: content %q", pw[0], pw[1], buf.Bytes())
						}
					}
					for _, pw := range [][2]string{{"wrong", ""}, {"", "wrong"}, {"wrong", "wrong"}, {"", ""}} {
						if _, err := pdfcpuOpen(pdf, pw[0], pw[1]); err == nil {
							t.Errorf("upw=%q opw=%q: wrong password accepted", pw[0], pw[1])
						}
					}
					// Not asserted, only recorded: the right password in the "other" slot.
					for _, pw := range [][2]string{{"owner", ""}, {"", "user"}} {
						_, err := pdfcpuOpen(pdf, pw[0], pw[1])
						t.Logf("swapped slot upw=%q opw=%q: accepted=%v", pw[0], pw[1], err == nil)
					}
				})
			}
		}
	}
}

// Observation (recorded, not asserted): when an encrypted string is stored as
// a hexadecimal string, pdfcpu applies literal-string escape processing to the
// decrypted bytes, so a plain text containing a backslash comes out changed.
// With the same encrypted string stored as a literal string, and in the
// unencrypted file, the value is right.  ISO 32000-1 7.6.2: decryption yields
// the string value; escape sequences belong to the literal string syntax only.
func TestPdfcpuHexStringBackslash(t *testing.T) {
	api.DisableConfigDir()
	for _, marker := range []string{`a \\ b`, `a \101 b`, `a \( b`} {
		ctx, err := pdfcpuOpen(BuildPlainPDF(marker, nil), "", "")
		if err != nil {
			t.Fatal(err)
		}
		if ctx.Title != marker {
			t.Errorf("plain file: title %q, want %q", ctx.Title, marker)
		}
		for _, v := range crossVariants() {
			for _, literal := range []bool{true, false} {
				s := specFor(v, "user", "owner", true)
				s.Marker, s.LiteralStrings = marker, literal
				pdf, _, _ := BuildEncryptedPDF(s)
				ctx, err := pdfcpuOpen(pdf, "user", "")
				if err != nil {
					t.Fatal(err)
				}
				if ctx.Title != marker {
					t.Logf("DEVIATION %s literal=%v: title %q, want %q", v.name, literal, ctx.Title, marker)
				}
			}
		}
	}
}

// (b) files written by pdfcpu are accepted by this package.
func TestWeReadPdfcpuFiles(t *testing.T) {
	api.DisableConfigDir()
	const marker = "plain marker"
	plain := BuildPlainPDF(marker, []byte("fedcba9876543210"))
	if _, err := pdfcpuOpen(plain, "", ""); err != nil {
		t.Fatalf("pdfcpu rejects the plain file: %v", err)
	}
	for _, c := range []struct {
		name string
		aes  bool
		bits int
	}{
		{"RC4-40", false, 40},
		{"RC4-128", false, 128},
		{"AES-128", true, 128},
		{"AES-256", true, 256},
	} {
		for _, pws := range [][2]string{{"user", "owner"}, {"", "owner"}, {"a much longer user password exceeding 32 bytes", "an even longer owner password that exceeds 32 bytes too"}} {
			t.Run(fmt.Sprintf("%s/%.6q", c.name, pws[0]), func(t *testing.T) {
				var conf *model.Configuration
				if c.aes {
					conf = model.NewAESConfiguration(pws[0], pws[1], c.bits)
				} else {
					conf = model.NewRC4Configuration(pws[0], pws[1], c.bits)
				}
				conf.ValidationMode = model.ValidationRelaxed
				var out bytes.Buffer
				if err := api.Encrypt(bytes.NewReader(plain), &out, conf); err != nil {
					t.Fatalf("api.Encrypt: %v", err)
				}
				pdf := out.Bytes()
				if bytes.Contains(pdf, []byte(marker)) {
					t.Error("marker in clear text in pdfcpu output")
				}
				e, err := ExtractEnc(pdf)
				if err != nil {
					t.Fatal(err)
				}
				t.Logf("pdfcpu wrote V=%d R=%d Length=%d AES=%v P=%d EncryptMetadata=%v |O|=%d |U|=%d |ID0|=%d",
					e.V, e.R, e.KeyBits, e.AES, e.P, e.EncryptMetadata, len(e.O), len(e.U), len(e.ID0))
				if len(e.ID0) == 0 {
					t.Fatal("no /ID")
				}
				upw, err := PreparePassword(pws[0], e.R)
				if err != nil {
					t.Fatal(err)
				}
				opw, err := PreparePassword(pws[1], e.R)
				if err != nil {
					t.Fatal(err)
				}
				ku, ok := CheckUserPassword(upw, e)
				if !ok {
					t.Error("user password rejected")
				}
				ko, ok := CheckOwnerPassword(opw, e)
				if !ok {
					t.Error("owner password rejected")
				}
				if !bytes.Equal(ku, ko) || len(ku) != c.bits/8 {
					t.Errorf("file keys: %X vs %X", ku, ko)
				}
				if _, ok := CheckUserPassword([]byte("wrong"), e); ok {
					t.Error("wrong user password accepted")
				}
				if _, ok := CheckOwnerPassword([]byte("wrong"), e); ok {
					t.Error("wrong owner password accepted")
				}
				if e.R >= 5 {
					if !CheckPerms(ku, e) {
						t.Error("CheckPerms failed on pdfcpu file")
					}
					// Algorithms 8/9 with pdfcpu's salts reproduce U, UE, O, OE.
					var salts [4][8]byte
					copy(salts[0][:], e.U[32:40])
					copy(salts[1][:], e.U[40:48])
					copy(salts[2][:], e.O[32:40])
					copy(salts[3][:], e.O[40:48])
					U, UE, O, OE, _ := ComputeR56(upw, opw, ku, e.P, e.EncryptMetadata, e.R, salts, [4]byte{})
					if !bytes.Equal(U, e.U) || !bytes.Equal(UE, e.UE) || !bytes.Equal(O, e.O) || !bytes.Equal(OE, e.OE) {
						t.Error("ComputeR56 does not reproduce pdfcpu's U/UE/O/OE")
					}
				} else {
					if o := ComputeO(opw, upw, e.R, e.KeyBits); !bytes.Equal(o, e.O) {
						t.Errorf("ComputeO:\n got %X\nwant %X", o, e.O)
					}
					n := 32
					if e.R >= 3 {
						n = 16
					}
					if u := ComputeU(upw, e); !bytes.Equal(u[:n], e.U[:n]) {
						t.Errorf("ComputeU:\n got %X\nwant %X", u, e.U)
					}
				}
				// The Info dictionary strings must decrypt with the key.  pdfcpu may
				// write object streams; look for a top level /Title only.
				if ok && len(ku) > 0 {
					checkSomeString(t, pdf, ku, e, marker)
				}
			})
		}
	}
}

var reObj = regexp.MustCompile(`(?m)^(\d+) (\d+) obj\s*`)

// checkSomeString walks over the top level objects of a pdfcpu written file,
// decrypts every string of every dictionary object and reports whether the
// marker was seen (title of the Info dictionary).
func checkSomeString(t *testing.T, pdf, key []byte, e Enc, marker string) {
	t.Helper()
	found := false
	for _, m := range reObj.FindAllSubmatchIndex(pdf, -1) {
		var nr, gen int
		fmt.Sscan(string(pdf[m[2]:m[3]]), &nr)
		fmt.Sscan(string(pdf[m[4]:m[5]]), &gen)
		v, err := ParseObject(pdf, m[1])
		if err != nil {
			continue
		}
		d, ok := v.(map[Name]any)
		if !ok || d["Filter"] == Name("Standard") || d["Type"] == Name("XRef") {
			continue
		}
		for k, x := range d {
			s, ok := x.([]byte)
			if !ok {
				continue
			}
			pt, err := DecryptString(key, nr, gen, e, s)
			if err != nil {
				t.Errorf("object %d /%s: %v", nr, k, err)
				continue
			}
			if k == "Title" && string(pt) == marker {
				found = true
			}
		}
	}
	if !found {
		t.Log("note: Info /Title not found at top level (object streams?)")
	}
}

// Observation (recorded, not asserted): which byte form of a non-ASCII
// password pdfcpu feeds into the algorithms when encrypting.
func TestPdfcpuNonASCIIPasswordForm(t *testing.T) {
	api.DisableConfigDir()
	plain := BuildPlainPDF("m", []byte("fedcba9876543210"))
	for _, c := range []struct {
		aes  bool
		bits int
		pw   string
	}{
		{false, 40, "päss"}, {false, 128, "päss"}, {true, 128, "päss"},
		{true, 256, "päss"}, {true, 256, "Ⅸª"}, {true, 256, "a b"}, {true, 256, "I­X"},
	} {
		conf := model.NewRC4Configuration(c.pw, "owner", c.bits)
		if c.aes {
			conf = model.NewAESConfiguration(c.pw, "owner", c.bits)
		}
		conf.ValidationMode = model.ValidationRelaxed
		var out bytes.Buffer
		if err := api.Encrypt(bytes.NewReader(plain), &out, conf); err != nil {
			t.Logf("aes=%v bits=%d pw=%q: api.Encrypt: %v", c.aes, c.bits, c.pw, err)
			continue
		}
		e, err := ExtractEnc(out.Bytes())
		if err != nil {
			t.Fatal(err)
		}
		prepared, perr := PreparePassword(c.pw, e.R)
		_, okPrepared := CheckUserPassword(prepared, e)
		_, okUTF8 := CheckUserPassword([]byte(c.pw), e)
		t.Logf("R=%d pw=%q: spec-prepared %q (err=%v) accepted=%v; raw UTF-8 bytes accepted=%v",
			e.R, c.pw, prepared, perr, okPrepared, okUTF8)
	}
}

// Observation (recorded, not asserted): R5/R6 password preparation on pdfcpu's
// read side versus SASLprep, and pdfcpu's own write/read round trip.
func TestPdfcpuR56PasswordPreparation(t *testing.T) {
	api.DisableConfigDir()
	plain := BuildPlainPDF("m", []byte("fedcba9876543210"))
	for _, pw := range []string{"user", "pass word", "päss", "Ⅸª", "a b", "I­X", "pw!#$%"} {
		prepared, err := PreparePassword(pw, 6)
		if err != nil {
			t.Fatal(err)
		}
		// our file (password prepared as the specification says) read by pdfcpu
		for _, R := range []int{5, 6} {
			s := specFor(variant{"x", R, true, 256}, "", "owner", true)
			s.UserPw, s.Marker, s.P = prepared, "m", -1
			pdf, _, _ := BuildEncryptedPDF(s)
			_, err := pdfcpuOpen(pdf, pw, "")
			t.Logf("R%d file with SASLprep(%q)=%q opened by pdfcpu with %q: err=%v", R, pw, prepared, pw, err)
		}
		// pdfcpu's file read by pdfcpu with the very same password
		conf := model.NewAESConfiguration(pw, "owner", 256)
		conf.ValidationMode = model.ValidationRelaxed
		var out bytes.Buffer
		if err := api.Encrypt(bytes.NewReader(plain), &out, conf); err != nil {
			t.Logf("api.Encrypt with %q: %v", pw, err)
			continue
		}
		_, err = pdfcpuOpen(out.Bytes(), pw, "")
		t.Logf("pdfcpu AES-256 file written with %q reopened by pdfcpu with %q: err=%v", pw, pw, err)
	}
}
