package isocrypt

import (
	"errors"
	"fmt"
	"regexp"
	"strconv"
)

// Name is a PDF name object as returned by the mini parser.
type Name string

// Ref is an indirect reference.
type Ref struct{ Nr, Gen int }

type parser struct {
	b []byte
	i int
}

func isWhite(c byte) bool {
	return c == 0 || c == '\t' || c == '\n' || c == '\f' || c == '\r' || c == ' '
}

func isDelim(c byte) bool {
	switch c {
	case '(', ')', '<', '>', '[', ']', '{', '}', '/', '%':
		return true
	}
	return false
}

func (p *parser) skip() {
	for p.i < len(p.b) {
		c := p.b[p.i]
		if isWhite(c) {
			p.i++
		} else if c == '%' {
			for p.i < len(p.b) && p.b[p.i] != '\n' && p.b[p.i] != '\r' {
				p.i++
			}
		} else {
			return
		}
	}
}

func (p *parser) token() string {
	s := p.i
	for p.i < len(p.b) && !isWhite(p.b[p.i]) && !isDelim(p.b[p.i]) {
		p.i++
	}
	return string(p.b[s:p.i])
}

func unhex(c byte) (byte, bool) {
	switch {
	case c >= '0' && c <= '9':
		return c - '0', true
	case c >= 'a' && c <= 'f':
		return c - 'a' + 10, true
	case c >= 'A' && c <= 'F':
		return c - 'A' + 10, true
	}
	return 0, false
}

func (p *parser) literal() ([]byte, error) {
	p.i++ // (
	var out []byte
	depth := 1
	for p.i < len(p.b) {
		c := p.b[p.i]
		p.i++
		switch c {
		case '(':
			depth++
			out = append(out, c)
		case ')':
			depth--
			if depth == 0 {
				return out, nil
			}
			out = append(out, c)
		case '\r':
			if p.i < len(p.b) && p.b[p.i] == '\n' {
				p.i++
			}
			out = append(out, '\n')
		case '\\':
			if p.i >= len(p.b) {
				return nil, errors.New("unterminated string")
			}
			e := p.b[p.i]
			p.i++
			switch e {
			case 'n':
				out = append(out, '\n')
			case 'r':
				out = append(out, '\r')
			case 't':
				out = append(out, '\t')
			case 'b':
				out = append(out, '\b')
			case 'f':
				out = append(out, '\f')
			case '\r':
				if p.i < len(p.b) && p.b[p.i] == '\n' {
					p.i++
				}
			case '\n':
			default:
				if e >= '0' && e <= '7' {
					v := int(e - '0')
					for k := 0; k < 2 && p.i < len(p.b) && p.b[p.i] >= '0' && p.b[p.i] <= '7'; k++ {
						v = v*8 + int(p.b[p.i]-'0')
						p.i++
					}
					out = append(out, byte(v))
				} else {
					out = append(out, e)
				}
			}
		default:
			out = append(out, c)
		}
	}
	return nil, errors.New("unterminated string")
}

func (p *parser) hex() ([]byte, error) {
	p.i++ // <
	var out []byte
	var hi byte
	half := false
	for p.i < len(p.b) {
		c := p.b[p.i]
		p.i++
		if c == '>' {
			if half {
				out = append(out, hi<<4)
			}
			return out, nil
		}
		if isWhite(c) {
			continue
		}
		v, ok := unhex(c)
		if !ok {
			return nil, fmt.Errorf("bad hex digit %q", c)
		}
		if half {
			out = append(out, hi<<4|v)
		} else {
			hi = v
		}
		half = !half
	}
	return nil, errors.New("unterminated hex string")
}

func (p *parser) name() Name {
	p.i++ // /
	s := p.i
	for p.i < len(p.b) && !isWhite(p.b[p.i]) && !isDelim(p.b[p.i]) {
		p.i++
	}
	raw := p.b[s:p.i]
	out := make([]byte, 0, len(raw))
	for k := 0; k < len(raw); k++ {
		if raw[k] == '#' && k+2 < len(raw) {
			h, ok1 := unhex(raw[k+1])
			l, ok2 := unhex(raw[k+2])
			if ok1 && ok2 {
				out = append(out, h<<4|l)
				k += 2
				continue
			}
		}
		out = append(out, raw[k])
	}
	return Name(out)
}

// value parses one object: map[Name]any, []any, []byte (string), Name, int,
// float64, bool, nil or Ref.
func (p *parser) value() (any, error) {
	p.skip()
	if p.i >= len(p.b) {
		return nil, errors.New("unexpected end of data")
	}
	c := p.b[p.i]
	switch {
	case c == '<' && p.i+1 < len(p.b) && p.b[p.i+1] == '<':
		p.i += 2
		d := map[Name]any{}
		for {
			p.skip()
			if p.i+1 < len(p.b) && p.b[p.i] == '>' && p.b[p.i+1] == '>' {
				p.i += 2
				return d, nil
			}
			if p.i >= len(p.b) || p.b[p.i] != '/' {
				return nil, errors.New("dictionary key expected")
			}
			k := p.name()
			v, err := p.value()
			if err != nil {
				return nil, err
			}
			d[k] = v
		}
	case c == '<':
		return p.hex()
	case c == '(':
		return p.literal()
	case c == '/':
		return p.name(), nil
	case c == '[':
		p.i++
		var a []any
		for {
			p.skip()
			if p.i < len(p.b) && p.b[p.i] == ']' {
				p.i++
				return a, nil
			}
			v, err := p.value()
			if err != nil {
				return nil, err
			}
			a = append(a, v)
		}
	}
	t := p.token()
	switch t {
	case "true":
		return true, nil
	case "false":
		return false, nil
	case "null":
		return nil, nil
	case "":
		return nil, fmt.Errorf("unexpected %q", c)
	}
	if n, err := strconv.Atoi(t); err == nil {
		// possibly "n g R"
		save := p.i
		p.skip()
		g := p.token()
		if gn, err := strconv.Atoi(g); err == nil && g != "" && gn >= 0 && n >= 0 {
			p.skip()
			if p.token() == "R" {
				return Ref{n, gn}, nil
			}
		}
		p.i = save
		return n, nil
	}
	if f, err := strconv.ParseFloat(t, 64); err == nil {
		return f, nil
	}
	return nil, fmt.Errorf("unexpected token %q", t)
}

// ParseObject parses the PDF object starting at b[pos:] with a small hand
// written parser (dictionaries, arrays, strings, names, numbers, references).
func ParseObject(b []byte, pos int) (any, error) {
	p := &parser{b: b, i: pos}
	return p.value()
}

var (
	reEncryptRef = regexp.MustCompile(`/Encrypt\s+(\d+)\s+(\d+)\s+R`)
	reEncryptDir = regexp.MustCompile(`/Encrypt\s*<<`)
	reID         = regexp.MustCompile(`/ID\s*\[`)
)

// ExtractEnc locates the encryption dictionary and the file identifier in the
// raw bytes of a PDF file (the last /Encrypt and /ID entries win, which are
// those of the newest trailer or cross-reference stream dictionary) and
// returns them as an Enc.  Both are never encrypted nor compressed into object
// streams, so no decoding is necessary.
func ExtractEnc(pdf []byte) (Enc, error) {
	var e Enc
	var dictPos int
	if m := reEncryptRef.FindAllSubmatchIndex(pdf, -1); len(m) > 0 {
		l := m[len(m)-1]
		nr, gen := string(pdf[l[2]:l[3]]), string(pdf[l[4]:l[5]])
		re := regexp.MustCompile(`(?:^|[\s>])` + nr + `\s+` + gen + `\s+obj\b`)
		om := re.FindAllIndex(pdf, -1)
		if len(om) == 0 {
			return e, fmt.Errorf("isocrypt: object %s %s not found", nr, gen)
		}
		dictPos = om[len(om)-1][1]
	} else if m := reEncryptDir.FindAllIndex(pdf, -1); len(m) > 0 {
		dictPos = m[len(m)-1][1] - 2
	} else {
		return e, errors.New("isocrypt: no /Encrypt entry")
	}
	v, err := ParseObject(pdf, dictPos)
	if err != nil {
		return e, fmt.Errorf("isocrypt: encryption dictionary: %w", err)
	}
	d, ok := v.(map[Name]any)
	if !ok {
		return e, errors.New("isocrypt: encryption dictionary is not a dictionary")
	}
	if f, _ := d["Filter"].(Name); f != "Standard" {
		return e, fmt.Errorf("isocrypt: /Filter %q is not /Standard", f)
	}
	num := func(k Name, def int) int {
		switch n := d[k].(type) {
		case int:
			return n
		case float64:
			return int(n)
		}
		return def
	}
	str := func(k Name) []byte { s, _ := d[k].([]byte); return s }
	e.V = num("V", 0)
	e.R = num("R", 0)
	e.KeyBits = num("Length", 0)
	if e.KeyBits == 0 {
		e.KeyBits = 40 // default of /Length
		if e.V == 4 {
			e.KeyBits = 128 // V4 files without /Length: AESV2 and V2 crypt filters of the standard handler use 128 bit keys
		}
	}
	// /P is a 32 bit quantity; some writers store it as unsigned number.
	e.P = int32(uint32(int64(num("P", 0))))
	e.O, e.U, e.OE, e.UE, e.Perms = str("O"), str("U"), str("OE"), str("UE"), str("Perms")
	e.EncryptMetadata = true
	if b, ok := d["EncryptMetadata"].(bool); ok {
		e.EncryptMetadata = b
	}
	if e.V >= 4 {
		// crypt filter used for strings (the builder and most writers use the
		// same one for streams)
		strf, _ := d["StrF"].(Name)
		if strf == "" {
			strf = "Identity"
		}
		if cf, ok := d["CF"].(map[Name]any); ok {
			if f, ok := cf[strf].(map[Name]any); ok {
				cfm, _ := f["CFM"].(Name)
				e.AES = cfm == "AESV2" || cfm == "AESV3"
			}
		}
	}
	if e.R >= 5 {
		e.KeyBits = 256
		e.AES = true
	}
	if m := reID.FindAllIndex(pdf, -1); len(m) > 0 {
		if v, err := ParseObject(pdf, m[len(m)-1][1]); err == nil {
			if s, ok := v.([]byte); ok {
				e.ID0 = s
			}
		}
	}
	return e, nil
}
