package isocrypt

import (
	"bytes"
	"crypto/sha256"
	"encoding/binary"
	"fmt"
	"strings"
)

// DocSpec describes the encrypted one page document made by BuildEncryptedPDF.
type DocSpec struct {
	R               int    // 2,3,4,5,6
	AES             bool   // only meaningful for R4 (AESV2 vs V2); R5/6 always AES-256
	KeyBits         int    // 40 for R2; 40..128 for R3; 128 for R4; 256 for R5/6
	UserPw, OwnerPw []byte // already prepared bytes
	P               int32
	ID0             []byte // 16 bytes
	EncryptMetadata bool
	// Marker is placed (encrypted) into the Info /Title string and into the
	// page content stream: "BT /F1 12 Tf 72 720 Td (" + Marker + ") Tj ET".
	Marker string
	// LiteralStrings serialises the encrypted strings as literal strings with
	// escapes "(...)" instead of hexadecimal strings "<...>" (optional).
	LiteralStrings bool
	// IndirectLength writes the content stream's /Length as a reference to an integer object (the last object).
	IndirectLength bool
}

// Object numbers used by the builder.
const (
	ObjCatalog  = 1
	ObjPages    = 2
	ObjPage     = 3
	ObjContents = 4
	ObjFont     = 5
	ObjInfo     = 6
	ObjEncrypt  = 7
)

// detRand is a deterministic byte source: block i = SHA-256(seed || i).
type detRand struct {
	seed []byte
	ctr  uint32
}

func (d *detRand) next(n int) []byte {
	var out []byte
	for len(out) < n {
		var c [4]byte
		binary.BigEndian.PutUint32(c[:], d.ctr)
		d.ctr++
		h := sha256.Sum256(append(append([]byte("isocrypt/detrand/"), d.seed...), c[:]...))
		out = append(out, h[:]...)
	}
	return out[:n]
}

func hexString(b []byte) string { return fmt.Sprintf("<%X>", b) }

// escapeLiteral writes b as the body of a literal string.
func escapeLiteral(s string) string {
	var sb strings.Builder
	for i := 0; i < len(s); i++ {
		c := s[i]
		switch {
		case c == '(' || c == ')' || c == '\\':
			sb.WriteByte('\\')
			sb.WriteByte(c)
		case c < 0x20 || c > 0x7E:
			fmt.Fprintf(&sb, "\\%03o", c)
		default:
			sb.WriteByte(c)
		}
	}
	return sb.String()
}

// ContentStream is the clear text of the page content stream for a marker.
func ContentStream(marker string) []byte {
	return []byte("BT /F1 12 Tf 72 720 Td (" + escapeLiteral(marker) + ") Tj ET")
}

// BuildPlainPDF returns the unencrypted counterpart of BuildEncryptedPDF.
func BuildPlainPDF(marker string, id0 []byte) []byte {
	pdf, _, _ := build(DocSpec{Marker: marker, ID0: id0}, false)
	return pdf
}

// BuildEncryptedPDF writes a complete, minimal single page PDF (classic xref
// table, no object streams) encrypted with the standard security handler as
// described by s.  All IVs, salts and (for R5/6) the file key are derived from
// the specification with a counter, so the output is reproducible.
func BuildEncryptedPDF(s DocSpec) (pdf []byte, e Enc, fileKey []byte) {
	return build(s, true)
}

func build(s DocSpec, encrypt bool) (pdf []byte, e Enc, fileKey []byte) {
	id0 := s.ID0
	if len(id0) == 0 {
		id0 = bytes.Repeat([]byte{0x42}, 16)
	}
	rnd := &detRand{seed: []byte(fmt.Sprintf("%d|%v|%d|%x|%x|%d|%x|%v|%s|%v",
		s.R, s.AES, s.KeyBits, s.UserPw, s.OwnerPw, s.P, id0, s.EncryptMetadata, s.Marker, s.LiteralStrings))}

	var encDict string
	if encrypt {
		e = Enc{R: s.R, P: s.P, ID0: id0, EncryptMetadata: s.EncryptMetadata, KeyBits: s.KeyBits}
		switch s.R {
		case 2:
			e.V, e.KeyBits, e.AES = 1, 40, false
		case 3:
			e.V, e.AES = 2, false
			if e.KeyBits == 0 {
				e.KeyBits = 128
			}
		case 4:
			e.V, e.KeyBits, e.AES = 4, 128, s.AES
		case 5, 6:
			e.V, e.KeyBits, e.AES = 5, 256, true
		default:
			panic(fmt.Sprintf("isocrypt: unsupported revision %d", s.R))
		}
		if s.R < 4 {
			e.EncryptMetadata = true // the entry only exists for V>=4
		}
		if s.R <= 4 {
			e.O = ComputeO(s.OwnerPw, s.UserPw, e.R, e.KeyBits)
			e.U = ComputeU(s.UserPw, e)
			fileKey = FileKeyR2to4(PadPassword(s.UserPw), e)
		} else {
			fileKey = rnd.next(32)
			var salts [4][8]byte
			for i := range salts {
				copy(salts[i][:], rnd.next(8))
			}
			var pr [4]byte
			copy(pr[:], rnd.next(4))
			e.U, e.UE, e.O, e.OE, e.Perms = ComputeR56(s.UserPw, s.OwnerPw, fileKey, s.P, e.EncryptMetadata, s.R, salts, pr)
		}

		var d strings.Builder
		fmt.Fprintf(&d, "<< /Filter /Standard /V %d /R %d", e.V, e.R)
		if s.R >= 3 {
			fmt.Fprintf(&d, " /Length %d", e.KeyBits)
		}
		if s.R >= 4 {
			cfm, n := "V2", 16
			switch {
			case s.R >= 5:
				cfm, n = "AESV3", 32
			case e.AES:
				cfm = "AESV2"
			}
			fmt.Fprintf(&d, " /CF << /StdCF << /CFM /%s /AuthEvent /DocOpen /Length %d >> >> /StmF /StdCF /StrF /StdCF", cfm, n)
			if !e.EncryptMetadata {
				d.WriteString(" /EncryptMetadata false")
			}
		}
		fmt.Fprintf(&d, " /O %s /U %s", hexString(e.O), hexString(e.U))
		if s.R >= 5 {
			fmt.Fprintf(&d, " /OE %s /UE %s /Perms %s", hexString(e.OE), hexString(e.UE), hexString(e.Perms))
		}
		fmt.Fprintf(&d, " /P %d >>", e.P)
		encDict = d.String()
	}

	// str serialises a string belonging to object nr, stm the data of a stream.
	crypt := func(nr int, b []byte) []byte {
		if !encrypt {
			return b
		}
		return EncryptString(fileKey, nr, 0, e, rnd.next(16), b)
	}
	str := func(nr int, v string) string {
		if !encrypt {
			return "(" + escapeLiteral(v) + ")"
		}
		if s.LiteralStrings {
			return "(" + escapeLiteral(string(crypt(nr, []byte(v)))) + ")"
		}
		return hexString(crypt(nr, []byte(v)))
	}

	version := "1.7"
	if s.R == 6 {
		version = "2.0"
	}
	var buf bytes.Buffer
	fmt.Fprintf(&buf, "%%PDF-%s\n%%\xE2\xE3\xCF\xD3\n", version)

	nObj := ObjInfo
	if encrypt {
		nObj = ObjEncrypt
	}
	lenObj := 0
	if s.IndirectLength {
		nObj++
		lenObj = nObj
	}
	offsets := make([]int, nObj+1)
	obj := func(nr int, body string) {
		offsets[nr] = buf.Len()
		fmt.Fprintf(&buf, "%d 0 obj\n%s\nendobj\n", nr, body)
	}

	catalog := "<< /Type /Catalog /Pages 2 0 R"
	if s.R == 5 {
		// revision 5 is the Adobe extension level 3 to PDF 1.7
		catalog += " /Extensions << /ADBE << /BaseVersion /1.7 /ExtensionLevel 3 >> >>"
	}
	obj(ObjCatalog, catalog+" >>")
	obj(ObjPages, "<< /Type /Pages /Kids [3 0 R] /Count 1 >>")
	obj(ObjPage, "<< /Type /Page /Parent 2 0 R /MediaBox [0 0 612 792] /Contents 4 0 R /Resources << /Font << /F1 5 0 R >> >> >>")

	data := crypt(ObjContents, ContentStream(s.Marker))
	offsets[ObjContents] = buf.Len()
	if lenObj != 0 {
		fmt.Fprintf(&buf, "%d 0 obj\n<< /Length %d 0 R >>\nstream\n", ObjContents, lenObj)
	} else {
		fmt.Fprintf(&buf, "%d 0 obj\n<< /Length %d >>\nstream\n", ObjContents, len(data))
	}
	buf.Write(data)
	buf.WriteString("\nendstream\nendobj\n")

	obj(ObjFont, "<< /Type /Font /Subtype /Type1 /BaseFont /Helvetica /Encoding /WinAnsiEncoding >>")
	obj(ObjInfo, "<< /Title "+str(ObjInfo, s.Marker)+" /Producer "+str(ObjInfo, "isocrypt")+" >>")
	if encrypt {
		obj(ObjEncrypt, encDict)
	}
	if lenObj != 0 {
		obj(lenObj, fmt.Sprint(len(data)))
	}

	xref := buf.Len()
	fmt.Fprintf(&buf, "xref\n0 %d\n0000000000 65535 f \n", nObj+1)
	for i := 1; i <= nObj; i++ {
		fmt.Fprintf(&buf, "%010d 00000 n \n", offsets[i])
	}
	fmt.Fprintf(&buf, "trailer\n<< /Size %d /Root 1 0 R /Info 6 0 R", nObj+1)
	if encrypt {
		fmt.Fprintf(&buf, " /Encrypt %d 0 R", ObjEncrypt)
	}
	fmt.Fprintf(&buf, " /ID [%s %s] >>\nstartxref\n%d\n%%%%EOF\n", hexString(id0), hexString(id0), xref)
	return buf.Bytes(), e, fileKey
}
