// Package isocrypt is an independent implementation of the standard security
// handler of ISO 32000-1:2008 (section 7.6, revisions 2, 3 and 4) and of
// ISO 32000-2:2020 (section 7.6.4, revisions 5 and 6).
//
// It is written from the text of the specification only and serves as a
// reference ("oracle") for checking another PDF library.  It depends on the Go
// standard library and, for password preparation, on golang.org/x/text/unicode/norm.
//
// Algorithm numbers in the comments are those of ISO 32000-1 for revisions 2-4
// (Algorithm 1..7) and those of ISO 32000-2 for revisions 5/6
// (Algorithm 2.A, 2.B, 8..13).
package isocrypt

import (
	"bytes"
	"crypto/aes"
	"crypto/cipher"
	"crypto/md5"
	"crypto/sha256"
	"crypto/sha512"
	"encoding/binary"
	"errors"
)

// Enc are the entries of an encryption dictionary plus the first element of the trailer /ID.
type Enc struct {
	V, R            int
	KeyBits         int    // /Length (40..128) for R2-4; 256 for R5/6
	O, U            []byte // 32 bytes (R2-4) or 48 bytes (R5/6)
	OE, UE          []byte // 32 bytes, R5/6 only
	Perms           []byte // 16 bytes, R5/6 only
	P               int32  // permission word (signed 32-bit as stored)
	ID0             []byte // first element of the file identifier
	EncryptMetadata bool   // default true
	AES             bool   // stream/string crypt filter is AESV2 (R4) / AESV3 (R5,R6); false = RC4 (V2)
}

// padding is the 32 byte padding string of Algorithm 2 step (a).
var padding = [32]byte{
	0x28, 0xBF, 0x4E, 0x5E, 0x4E, 0x75, 0x8A, 0x41,
	0x64, 0x00, 0x4E, 0x56, 0xFF, 0xFA, 0x01, 0x08,
	0x2E, 0x2E, 0x00, 0xB6, 0xD0, 0x68, 0x3E, 0x80,
	0x2F, 0x0C, 0xA9, 0xFE, 0x64, 0x53, 0x69, 0x7A,
}

// PadPassword implements Algorithm 2 step (a): the password is truncated to 32
// bytes or padded to 32 bytes with the leading bytes of the padding string.
func PadPassword(pw []byte) []byte {
	out := make([]byte, 32)
	n := copy(out, pw)
	copy(out[n:], padding[:])
	return out
}

// keyLen is the number of bytes n of the file encryption key for R2-4.
// For revision 2 it is always 5 (Algorithm 2 step (i), Algorithm 3 step (d)).
func keyLen(R, keyBits int) int {
	if R == 2 {
		return 5
	}
	n := keyBits / 8
	if n < 5 {
		n = 5
	}
	if n > 16 {
		n = 16
	}
	return n
}

// FileKeyR2to4 implements Algorithm 2 (computing a file encryption key) for
// revisions 2, 3 and 4.  userPwPadded is the result of PadPassword.
func FileKeyR2to4(userPwPadded []byte, e Enc) []byte {
	h := md5.New()
	h.Write(userPwPadded) // (b)
	h.Write(e.O[:min(len(e.O), 32)])
	var p [4]byte // (d) P as unsigned 32-bit, low-order byte first
	binary.LittleEndian.PutUint32(p[:], uint32(e.P))
	h.Write(p[:])
	h.Write(e.ID0)                      // (e)
	if e.R >= 4 && !e.EncryptMetadata { // (f)
		h.Write([]byte{0xFF, 0xFF, 0xFF, 0xFF})
	}
	sum := h.Sum(nil) // (g)
	n := keyLen(e.R, e.KeyBits)
	if e.R >= 3 { // (h)
		for i := 0; i < 50; i++ {
			s := md5.Sum(sum[:n])
			sum = s[:]
		}
	}
	return append([]byte(nil), sum[:n]...) // (i)
}

// ownerRC4Key implements Algorithm 3 steps (a)-(d).
func ownerRC4Key(ownerPw []byte, R, keyBits int) []byte {
	s := md5.Sum(PadPassword(ownerPw)) // (a) (b)
	sum := s[:]
	if R >= 3 { // (c)
		for i := 0; i < 50; i++ {
			s = md5.Sum(sum)
			sum = s[:]
		}
	}
	return append([]byte(nil), sum[:keyLen(R, keyBits)]...) // (d)
}

func xorKey(key []byte, x byte) []byte {
	out := make([]byte, len(key))
	for i, b := range key {
		out[i] = b ^ x
	}
	return out
}

// ComputeO implements Algorithm 3: computing the /O value for revisions 2-4.
// If there is no owner password the user password is used instead.
func ComputeO(ownerPw, userPw []byte, R, keyBits int) []byte {
	if len(ownerPw) == 0 {
		ownerPw = userPw
	}
	key := ownerRC4Key(ownerPw, R, keyBits)
	out := RC4(key, PadPassword(userPw)) // (e) (f)
	if R >= 3 {                          // (g)
		for i := 1; i <= 19; i++ {
			out = RC4(xorKey(key, byte(i)), out)
		}
	}
	return out
}

// computeUWithKey implements Algorithm 4 / 5 from step (b) on, given the file key.
func computeUWithKey(fileKey []byte, e Enc) []byte {
	if e.R == 2 {
		return RC4(fileKey, padding[:]) // Algorithm 4 (b)
	}
	h := md5.New() // Algorithm 5 (b)
	h.Write(padding[:])
	h.Write(e.ID0)                  // (c)
	out := RC4(fileKey, h.Sum(nil)) // (d)
	for i := 1; i <= 19; i++ {      // (e)
		out = RC4(xorKey(fileKey, byte(i)), out)
	}
	return append(out, make([]byte, 16)...) // (f) arbitrary padding: zeros
}

// ComputeU implements Algorithm 4 (R2) and Algorithm 5 (R3, R4).  e.O, e.P,
// e.ID0, e.R, e.KeyBits and e.EncryptMetadata have to be set.  For R>=3 the
// last 16 bytes of the result are arbitrary padding and are zero here.
func ComputeU(userPw []byte, e Enc) []byte {
	return computeUWithKey(FileKeyR2to4(PadPassword(userPw), e), e)
}

// truncate127 truncates an R5/6 password to 127 bytes (Algorithm 2.A (a)).
func truncate127(pw []byte) []byte {
	if len(pw) > 127 {
		return pw[:127]
	}
	return pw
}

func hash56(R int, pw, salt, udata []byte) []byte {
	if R == 5 {
		return HashR5(pw, salt, udata)
	}
	return Hash2B(pw, salt, udata)
}

// aes256CBCNoPad en/decrypts whole blocks with a zero IV and no padding
// (used for UE/OE in Algorithm 2.A, 8, 9).
func aes256CBCNoPad(key, data []byte, encrypt bool) []byte {
	blk, err := aes.NewCipher(key)
	if err != nil || len(data)%16 != 0 {
		return nil
	}
	out := make([]byte, len(data))
	iv := make([]byte, 16)
	if encrypt {
		cipher.NewCBCEncrypter(blk, iv).CryptBlocks(out, data)
	} else {
		cipher.NewCBCDecrypter(blk, iv).CryptBlocks(out, data)
	}
	return out
}

// CheckUserPassword authenticates the user password.
// R2-4: Algorithm 6.  R5/6: Algorithm 2.A steps (c)-(e) / Algorithm 11.
// pw are the prepared password bytes (see PreparePassword).
func CheckUserPassword(pw []byte, e Enc) (fileKey []byte, ok bool) {
	switch e.R {
	case 2, 3, 4:
		if len(e.O) < 32 || len(e.U) < 32 {
			return nil, false
		}
		key := FileKeyR2to4(PadPassword(pw), e)
		u := computeUWithKey(key, e)
		n := 32
		if e.R >= 3 {
			n = 16
		}
		if !bytes.Equal(u[:n], e.U[:n]) {
			return nil, false
		}
		return key, true
	case 5, 6:
		if len(e.U) < 48 || len(e.UE) < 32 {
			return nil, false
		}
		pw = truncate127(pw)
		if !bytes.Equal(hash56(e.R, pw, e.U[32:40], nil), e.U[:32]) {
			return nil, false
		}
		ik := hash56(e.R, pw, e.U[40:48], nil)
		key := aes256CBCNoPad(ik, e.UE[:32], false)
		return key, key != nil
	}
	return nil, false
}

// CheckOwnerPassword authenticates the owner password.
// R2-4: Algorithm 7 (recover the padded user password from /O, then Algorithm 6).
// R5/6: Algorithm 2.A steps (b), (d) / Algorithm 12.
func CheckOwnerPassword(pw []byte, e Enc) (fileKey []byte, ok bool) {
	switch e.R {
	case 2, 3, 4:
		if len(e.O) < 32 {
			return nil, false
		}
		key := ownerRC4Key(pw, e.R, e.KeyBits) // (a)
		upw := append([]byte(nil), e.O[:32]...)
		if e.R == 2 { // (b)
			upw = RC4(key, upw)
		} else {
			for i := 19; i >= 0; i-- {
				upw = RC4(xorKey(key, byte(i)), upw)
			}
		}
		// (c) upw is the padded user password; PadPassword is the identity on 32 bytes.
		return CheckUserPassword(upw, e)
	case 5, 6:
		if len(e.O) < 48 || len(e.U) < 48 || len(e.OE) < 32 {
			return nil, false
		}
		pw = truncate127(pw)
		if !bytes.Equal(hash56(e.R, pw, e.O[32:40], e.U[:48]), e.O[:32]) {
			return nil, false
		}
		ik := hash56(e.R, pw, e.O[40:48], e.U[:48])
		key := aes256CBCNoPad(ik, e.OE[:32], false)
		return key, key != nil
	}
	return nil, false
}

// HashR5 is the revision 5 hash: SHA-256(pw || salt || udata).
func HashR5(pw, salt, udata []byte) []byte {
	h := sha256.New()
	h.Write(pw)
	h.Write(salt)
	h.Write(udata)
	return h.Sum(nil)
}

// Hash2B implements Algorithm 2.B (revision 6 hardened hash).  udata is the
// 48 byte /U string when hashing an owner password and empty otherwise.
func Hash2B(pw, salt, udata []byte) []byte {
	k := HashR5(pw, salt, udata)
	for round := 0; ; round++ {
		// (a) K1 = 64 repetitions of pw || K || udata
		unit := make([]byte, 0, len(pw)+len(k)+len(udata))
		unit = append(unit, pw...)
		unit = append(unit, k...)
		unit = append(unit, udata...)
		k1 := bytes.Repeat(unit, 64)
		// (b) AES-128 CBC, no padding, key = K[0:16], IV = K[16:32]
		blk, _ := aes.NewCipher(k[:16])
		e := make([]byte, len(k1))
		cipher.NewCBCEncrypter(blk, k[16:32]).CryptBlocks(e, k1)
		// (c) first 16 bytes of E as big-endian unsigned integer modulo 3.
		// 256 = 1 (mod 3), hence the remainder equals that of the byte sum.
		s := 0
		for _, b := range e[:16] {
			s += int(b)
		}
		// (d)
		switch s % 3 {
		case 0:
			h := sha256.Sum256(e)
			k = h[:]
		case 1:
			h := sha512.Sum384(e)
			k = h[:]
		default:
			h := sha512.Sum512(e)
			k = h[:]
		}
		// (e) (f) rounds 0..63 are unconditional.  From "round number 64" on
		// (i.e. once 64 rounds have been done) the last byte of E decides:
		// continue while it is greater than (round number - 32), where the
		// round number is the number of the round that would come next.
		if next := round + 1; next >= 64 && int(e[len(e)-1]) <= next-32 {
			break
		}
	}
	return k[:32]
}

// ComputeR56 implements Algorithm 8 (U, UE), Algorithm 9 (O, OE) and Algorithm
// 10 (Perms) for revisions 5 and 6.
// salts = user validation, user key, owner validation, owner key salt.
func ComputeR56(userPw, ownerPw, fileKey []byte, P int32, encryptMetadata bool, R int, salts [4][8]byte, permsRandom [4]byte) (U, UE, O, OE, Perms []byte) {
	userPw, ownerPw = truncate127(userPw), truncate127(ownerPw)
	// Algorithm 8
	U = append(U, hash56(R, userPw, salts[0][:], nil)...)
	U = append(U, salts[0][:]...)
	U = append(U, salts[1][:]...)
	UE = aes256CBCNoPad(hash56(R, userPw, salts[1][:], nil), fileKey, true)
	// Algorithm 9
	O = append(O, hash56(R, ownerPw, salts[2][:], U)...)
	O = append(O, salts[2][:]...)
	O = append(O, salts[3][:]...)
	OE = aes256CBCNoPad(hash56(R, ownerPw, salts[3][:], U), fileKey, true)
	// Algorithm 10
	blk := make([]byte, 16)
	binary.LittleEndian.PutUint32(blk[0:4], uint32(P)) // (a)
	copy(blk[4:8], []byte{0xFF, 0xFF, 0xFF, 0xFF})     // (b)
	blk[8] = 'F'                                       // (c)
	if encryptMetadata {
		blk[8] = 'T'
	}
	copy(blk[9:12], "adb")           // (d)
	copy(blk[12:16], permsRandom[:]) // (e)
	c, err := aes.NewCipher(fileKey)
	if err == nil {
		Perms = make([]byte, 16)
		c.Encrypt(Perms, blk) // (f) ECB, single block
	}
	return
}

// CheckPerms implements Algorithm 13: validating the permissions of an R5/6 file.
func CheckPerms(fileKey []byte, e Enc) bool {
	if len(e.Perms) != 16 {
		return false
	}
	c, err := aes.NewCipher(fileKey)
	if err != nil || len(fileKey) != 32 {
		return false
	}
	blk := make([]byte, 16)
	c.Decrypt(blk, e.Perms)
	if string(blk[9:12]) != "adb" {
		return false
	}
	if binary.LittleEndian.Uint32(blk[0:4]) != uint32(e.P) {
		return false
	}
	switch blk[8] {
	case 'T':
		return e.EncryptMetadata
	case 'F':
		return !e.EncryptMetadata
	}
	return false
}

// ObjectKey implements Algorithm 1 steps (a)-(c): the key used for the strings
// and streams of one indirect object.  For R5/R6 (AESV3, Algorithm 1.A) the
// file encryption key is used directly.
func ObjectKey(fileKey []byte, objNr, gen int, useAES bool, R int) []byte {
	if R >= 5 {
		return fileKey
	}
	h := md5.New()
	h.Write(fileKey)
	h.Write([]byte{byte(objNr), byte(objNr >> 8), byte(objNr >> 16), byte(gen), byte(gen >> 8)})
	if useAES {
		h.Write([]byte("sAlT"))
	}
	n := len(fileKey) + 5
	if n > 16 {
		n = 16
	}
	return h.Sum(nil)[:n]
}

// RC4 en/decrypts data with key; own implementation of the cipher.
func RC4(key, data []byte) []byte {
	out := make([]byte, len(data))
	if len(key) == 0 {
		copy(out, data)
		return out
	}
	var s [256]byte
	for i := range s {
		s[i] = byte(i)
	}
	j := 0
	for i := 0; i < 256; i++ {
		j = (j + int(s[i]) + int(key[i%len(key)])) & 0xFF
		s[i], s[j] = s[j], s[i]
	}
	i, j := 0, 0
	for n, b := range data {
		i = (i + 1) & 0xFF
		j = (j + int(s[i])) & 0xFF
		s[i], s[j] = s[j], s[i]
		out[n] = b ^ s[(int(s[i])+int(s[j]))&0xFF]
	}
	return out
}

// AESCBCDecrypt decrypts data whose first 16 bytes are the IV, and removes the
// PKCS#5 padding (7.6.2: AES in CBC mode, 16 byte IV stored as first block).
func AESCBCDecrypt(key, data []byte) ([]byte, error) {
	blk, err := aes.NewCipher(key)
	if err != nil {
		return nil, err
	}
	if len(data) < 32 || len(data)%16 != 0 {
		return nil, errors.New("isocrypt: AES data is not IV plus a positive number of blocks")
	}
	out := make([]byte, len(data)-16)
	cipher.NewCBCDecrypter(blk, data[:16]).CryptBlocks(out, data[16:])
	p := int(out[len(out)-1])
	if p < 1 || p > 16 {
		return nil, errors.New("isocrypt: invalid PKCS#5 padding")
	}
	for _, b := range out[len(out)-p:] {
		if int(b) != p {
			return nil, errors.New("isocrypt: invalid PKCS#5 padding")
		}
	}
	return out[:len(out)-p], nil
}

// AESCBCEncrypt pads data (PKCS#5, always 1..16 bytes), encrypts it in CBC mode
// and returns IV || ciphertext.
func AESCBCEncrypt(key, iv, data []byte) []byte {
	blk, err := aes.NewCipher(key)
	if err != nil || len(iv) != 16 {
		return nil
	}
	p := 16 - len(data)%16
	in := make([]byte, 0, len(data)+p)
	in = append(in, data...)
	in = append(in, bytes.Repeat([]byte{byte(p)}, p)...)
	out := make([]byte, 16+len(in))
	copy(out, iv)
	cipher.NewCBCEncrypter(blk, iv).CryptBlocks(out[16:], in)
	return out
}

// DecryptString decrypts a string or stream belonging to object (objNr, gen).
func DecryptString(fileKey []byte, objNr, gen int, e Enc, data []byte) ([]byte, error) {
	k := ObjectKey(fileKey, objNr, gen, e.AES, e.R)
	if e.AES || e.R >= 5 {
		return AESCBCDecrypt(k, data)
	}
	return RC4(k, data), nil
}

// EncryptString encrypts a string or stream belonging to object (objNr, gen).
// iv is only used for AES.
func EncryptString(fileKey []byte, objNr, gen int, e Enc, iv, data []byte) []byte {
	k := ObjectKey(fileKey, objNr, gen, e.AES, e.R)
	if e.AES || e.R >= 5 {
		return AESCBCEncrypt(k, iv, data)
	}
	return RC4(k, data)
}
