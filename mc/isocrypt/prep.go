package isocrypt

import (
	"errors"
	"fmt"
	"unicode"
	"unicode/utf8"

	"golang.org/x/text/unicode/norm"
)

// pdfDocSpecial maps the Unicode characters that PDFDocEncoding (ISO 32000-1
// Annex D.2) places at code positions that differ from ISO Latin-1.
var pdfDocSpecial = map[rune]byte{
	0x02D8: 0x18, 0x02C7: 0x19, 0x02C6: 0x1A, 0x02D9: 0x1B,
	0x02DD: 0x1C, 0x02DB: 0x1D, 0x02DA: 0x1E, 0x02DC: 0x1F,
	0x2022: 0x80, 0x2020: 0x81, 0x2021: 0x82, 0x2026: 0x83,
	0x2014: 0x84, 0x2013: 0x85, 0x0192: 0x86, 0x2044: 0x87,
	0x2039: 0x88, 0x203A: 0x89, 0x2212: 0x8A, 0x2030: 0x8B,
	0x201E: 0x8C, 0x201C: 0x8D, 0x201D: 0x8E, 0x2018: 0x8F,
	0x2019: 0x90, 0x201A: 0x91, 0x2122: 0x92, 0xFB01: 0x93,
	0xFB02: 0x94, 0x0141: 0x95, 0x0152: 0x96, 0x0160: 0x97,
	0x0178: 0x98, 0x017D: 0x99, 0x0131: 0x9A, 0x0142: 0x9B,
	0x0153: 0x9C, 0x0161: 0x9D, 0x017E: 0x9E, 0x20AC: 0xA0,
}

// PreparePassword converts a password given as a Go (UTF-8) string into the
// byte string that enters the algorithms.
//
// R2-4 (ISO 32000-1 7.6.3.3, Algorithm 2 (a)): the password is converted to
// PDFDocEncoding.  What this function does: code points below 256 are emitted
// as the byte of the same value (ISO Latin-1; for ASCII and U+00A1..U+00FF
// except U+00AD this is exactly PDFDocEncoding); the characters that
// PDFDocEncoding places at 0x18..0x1F, 0x80..0x9E and 0xA0 (bullet, dagger,
// quotes, Euro, ...) are mapped to these codes; anything else is not
// representable and yields an error.  For pure ASCII passwords the result is
// identical to the UTF-8 bytes of the string, which is what a library that
// passes the Go string bytes through unchanged produces; for non-ASCII
// passwords the two differ (UTF-8 is two or more bytes per character).
// No truncation is done here; PadPassword truncates to 32 bytes.
//
// R5/6 (ISO 32000-2 7.6.4.3.2, Algorithm 2.A (a)): SASLprep (RFC 4013) for
// stored strings, then UTF-8, truncated to 127 bytes.
func PreparePassword(pw string, R int) ([]byte, error) {
	if !utf8.ValidString(pw) {
		return nil, errors.New("isocrypt: password is not valid UTF-8")
	}
	if R >= 5 {
		s, err := saslprep(pw)
		if err != nil {
			return nil, err
		}
		b := []byte(s)
		if len(b) > 127 {
			b = b[:127]
		}
		return b, nil
	}
	out := make([]byte, 0, len(pw))
	for _, r := range pw {
		if r < 256 {
			out = append(out, byte(r))
		} else if b, ok := pdfDocSpecial[r]; ok {
			out = append(out, b)
		} else {
			return nil, fmt.Errorf("isocrypt: U+%04X is not representable in PDFDocEncoding", r)
		}
	}
	return out, nil
}

func inRanges(r rune, rr [][2]rune) bool {
	for _, x := range rr {
		if r >= x[0] && r <= x[1] {
			return true
		}
	}
	return false
}

// RFC 3454 table B.1 "commonly mapped to nothing".
var mapToNothing = [][2]rune{
	{0x00AD, 0x00AD}, {0x034F, 0x034F}, {0x1806, 0x1806}, {0x180B, 0x180D},
	{0x200B, 0x200D}, {0x2060, 0x2060}, {0xFE00, 0xFE0F}, {0xFEFF, 0xFEFF},
}

// RFC 3454 table C.1.2 "non-ASCII space characters".
var nonASCIISpace = [][2]rune{
	{0x00A0, 0x00A0}, {0x1680, 0x1680}, {0x2000, 0x200B}, {0x202F, 0x202F},
	{0x205F, 0x205F}, {0x3000, 0x3000},
}

// RFC 4013 2.3 prohibited output: RFC 3454 tables C.1.2, C.2.1, C.2.2, C.3,
// C.4, C.5, C.6, C.7, C.8, C.9.
var prohibited = [][2]rune{
	// C.1.2
	{0x00A0, 0x00A0}, {0x1680, 0x1680}, {0x2000, 0x200B}, {0x202F, 0x202F},
	{0x205F, 0x205F}, {0x3000, 0x3000},
	// C.2.1
	{0x0000, 0x001F}, {0x007F, 0x007F},
	// C.2.2
	{0x0080, 0x009F}, {0x06DD, 0x06DD}, {0x070F, 0x070F}, {0x180E, 0x180E},
	{0x200C, 0x200D}, {0x2028, 0x2029}, {0x2060, 0x2063}, {0x206A, 0x206F},
	{0xFEFF, 0xFEFF}, {0xFFF9, 0xFFFC}, {0x1D173, 0x1D17A},
	// C.3
	{0xE000, 0xF8FF}, {0xF0000, 0xFFFFD}, {0x100000, 0x10FFFD},
	// C.4
	{0xFDD0, 0xFDEF}, {0xFFFE, 0xFFFF}, {0x1FFFE, 0x1FFFF}, {0x2FFFE, 0x2FFFF},
	{0x3FFFE, 0x3FFFF}, {0x4FFFE, 0x4FFFF}, {0x5FFFE, 0x5FFFF}, {0x6FFFE, 0x6FFFF},
	{0x7FFFE, 0x7FFFF}, {0x8FFFE, 0x8FFFF}, {0x9FFFE, 0x9FFFF}, {0xAFFFE, 0xAFFFF},
	{0xBFFFE, 0xBFFFF}, {0xCFFFE, 0xCFFFF}, {0xDFFFE, 0xDFFFF}, {0xEFFFE, 0xEFFFF},
	{0xFFFFE, 0xFFFFF}, {0x10FFFE, 0x10FFFF},
	// C.5
	{0xD800, 0xDFFF},
	// C.6
	{0xFFF9, 0xFFFD},
	// C.7
	{0x2FF0, 0x2FFB},
	// C.8
	{0x0340, 0x0341}, {0x200E, 0x200F}, {0x202A, 0x202E}, {0x206A, 0x206F},
	// C.9
	{0xE0001, 0xE0001}, {0xE0020, 0xE007F},
}

// isRandAL approximates RFC 3454 table D.1 (bidi classes R and AL) with the
// right-to-left scripts of the standard library tables.
func isRandAL(r rune) bool {
	if r == 0x200F {
		return true
	}
	return unicode.IsLetter(r) && unicode.In(r, unicode.Hebrew, unicode.Arabic, unicode.Syriac, unicode.Thaana, unicode.Nko)
}

// isL approximates RFC 3454 table D.2 (bidi class L) with "letter of a
// left-to-right script".
func isL(r rune) bool {
	return unicode.IsLetter(r) && !isRandAL(r)
}

// saslprep implements the SASLprep profile (RFC 4013) of stringprep (RFC 3454)
// for stored strings: map, NFKC-normalise, prohibit, bidi check.  The check for
// code points unassigned in Unicode 3.2 (table A.1) is not performed; the bidi
// tables are approximated by script (see isRandAL).
func saslprep(s string) (string, error) {
	// 2.1 mapping
	mapped := make([]rune, 0, len(s))
	for _, r := range s {
		switch {
		case inRanges(r, mapToNothing):
		case inRanges(r, nonASCIISpace):
			mapped = append(mapped, ' ')
		default:
			mapped = append(mapped, r)
		}
	}
	// 2.2 normalisation
	out := norm.NFKC.String(string(mapped))
	// 2.3 prohibited output, 2.4 bidirectional characters
	var hasRandAL, hasL bool
	var first, last rune
	n := 0
	for _, r := range out {
		if inRanges(r, prohibited) {
			return "", fmt.Errorf("isocrypt: SASLprep: prohibited code point U+%04X", r)
		}
		if n == 0 {
			first = r
		}
		last = r
		n++
		hasRandAL = hasRandAL || isRandAL(r)
		hasL = hasL || isL(r)
	}
	if hasRandAL {
		if hasL {
			return "", errors.New("isocrypt: SASLprep: mixed RandALCat and LCat characters")
		}
		if !isRandAL(first) || !isRandAL(last) {
			return "", errors.New("isocrypt: SASLprep: RandALCat string must start and end with RandALCat")
		}
	}
	return out, nil
}
