// Package pagesel is an independent recogniser and evaluator of pdfcpu's page selection syntax,
// written from the documented syntax (pdfcpu help "pages"), not from the implementation.
//
//	expr   = term { "," term }
//	term   = "even" | "odd" | [ "!" | "n" ] body
//	body   = "-" N | N | N "-" | N "-" N | N "-l" [ "-" N ] | "-l" [ "-" N ] | "l" [ "-" N [ "-" ] ]
package pagesel

import (
	"strconv"
	"strings"
)

type Term struct {
	Kind    string // even | odd | range
	Negated bool
	// range: pages From..Thru computed by Pages(pc)
	form string
	a, b int
}

func isNum(s string) bool {
	if s == "" {
		return false
	}
	for _, c := range s {
		if c < '0' || c > '9' {
			return false
		}
	}
	return true
}

// ParseTerm returns ok=false for anything outside the grammar.
func ParseTerm(t string) (Term, bool) {
	if t == "even" || t == "odd" {
		return Term{Kind: t}, true
	}
	var tm Term
	tm.Kind = "range"
	if strings.HasPrefix(t, "!") || strings.HasPrefix(t, "n") {
		tm.Negated = true
		t = t[1:]
	}
	if t == "" {
		return tm, false
	}
	num := func(s string) int { v, _ := strconv.Atoi(s); return v }
	switch {
	case t == "l":
		tm.form = "l"
	case t == "-l":
		tm.form = "-l"
	case strings.HasPrefix(t, "-l-") && isNum(t[3:]):
		tm.form, tm.a = "-l-#", num(t[3:])
	case strings.HasPrefix(t, "l-"):
		rest := t[2:]
		if strings.HasSuffix(rest, "-") && isNum(rest[:len(rest)-1]) {
			tm.form, tm.a = "l-#-", num(rest[:len(rest)-1])
		} else if isNum(rest) {
			tm.form, tm.a = "l-#", num(rest)
		} else {
			return tm, false
		}
	case strings.HasPrefix(t, "-") && isNum(t[1:]):
		tm.form, tm.a = "-#", num(t[1:])
	case isNum(t):
		tm.form, tm.a = "#", num(t)
	default:
		i := strings.Index(t, "-")
		if i <= 0 || !isNum(t[:i]) {
			return tm, false
		}
		tm.a = num(t[:i])
		rest := t[i+1:]
		switch {
		case rest == "":
			tm.form = "#-"
		case isNum(rest):
			tm.form, tm.b = "#-#", num(rest)
		case rest == "l":
			tm.form = "#-l"
		case strings.HasPrefix(rest, "l-") && isNum(rest[2:]):
			tm.form, tm.b = "#-l-#", num(rest[2:])
		default:
			return tm, false
		}
	}
	return tm, true
}

// Parse splits and recognises an expression.
func Parse(expr string) ([]Term, bool) {
	if expr == "" {
		return nil, false
	}
	var out []Term
	for _, t := range strings.Split(expr, ",") {
		tm, ok := ParseTerm(t)
		if !ok {
			return nil, false
		}
		out = append(out, tm)
	}
	return out, true
}

// Pages lists the pages a range term denotes for a document of pc pages, in ascending order,
// always within 1..pc.
func (t Term) Pages(pc int) []int {
	from, thru := 1, 0
	switch t.form {
	case "l":
		from, thru = pc, pc
	case "-l":
		from, thru = 1, pc
	case "-l-#":
		from, thru = 1, pc-t.a
	case "l-#":
		from, thru = pc-t.a, pc-t.a
	case "l-#-":
		from, thru = pc-t.a, pc
		if pc-t.a < 1 {
			return nil // the anchor page does not exist
		}
	case "-#":
		from, thru = 1, t.a
	case "#":
		from, thru = t.a, t.a
	case "#-":
		from, thru = t.a, pc
	case "#-#":
		from, thru = t.a, t.b
	case "#-l":
		from, thru = t.a, pc
	case "#-l-#":
		from, thru = t.a, pc-t.b
	}
	if thru > pc {
		thru = pc
	}
	var out []int
	for p := from; p <= thru; p++ {
		if p >= 1 && p <= pc {
			out = append(out, p)
		}
	}
	return out
}

// Select evaluates terms left to right: a term decides its pages (selected, or deselected when
// negated); even/odd add their pages that no earlier term decided.
func Select(terms []Term, pc int) map[int]bool {
	decided := map[int]bool{}
	for _, t := range terms {
		switch t.Kind {
		case "even", "odd":
			start := 2
			if t.Kind == "odd" {
				start = 1
			}
			for p := start; p <= pc; p += 2 {
				if _, ok := decided[p]; !ok {
					decided[p] = true
				}
			}
		default:
			for _, p := range t.Pages(pc) {
				decided[p] = !t.Negated
			}
		}
	}
	out := map[int]bool{}
	for p, v := range decided {
		if v {
			out[p] = true
		}
	}
	return out
}

// Collect lists pages in term order with repetitions (terms without negation only).
// CollectNeg is Collect extended to negated terms under the reading "a negated term deselects its pages":
// every occurrence of the term's pages collected so far is removed. The second result is false if a term
// cannot be evaluated.
func CollectNeg(terms []Term, pc int) []int {
	var out []int
	for _, t := range terms {
		var ps []int
		switch t.Kind {
		case "even":
			for p := 2; p <= pc; p += 2 {
				ps = append(ps, p)
			}
		case "odd":
			for p := 1; p <= pc; p += 2 {
				ps = append(ps, p)
			}
		default:
			ps = t.Pages(pc)
		}
		if !t.Negated {
			out = append(out, ps...)
			continue
		}
		del := map[int]bool{}
		for _, p := range ps {
			del[p] = true
		}
		var kept []int
		for _, p := range out {
			if !del[p] {
				kept = append(kept, p)
			}
		}
		out = kept
	}
	return out
}

func Collect(terms []Term, pc int) ([]int, bool) {
	var out []int
	for _, t := range terms {
		if t.Negated {
			return nil, false
		}
		switch t.Kind {
		case "even":
			for p := 2; p <= pc; p += 2 {
				out = append(out, p)
			}
		case "odd":
			for p := 1; p <= pc; p += 2 {
				out = append(out, p)
			}
		default:
			out = append(out, t.Pages(pc)...)
		}
	}
	return out, true
}
