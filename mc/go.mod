module verif/mc

go 1.25.0

require (
	github.com/anishathalye/porcupine v1.3.0
	github.com/pdfcpu/pdfcpu v0.0.0
	golang.org/x/text v0.40.0
)

require (
	github.com/clipperhouse/uax29/v2 v2.7.0 // indirect
	github.com/hhrutter/tiff v1.0.6 // indirect
	github.com/mattn/go-runewidth v0.0.27 // indirect
	go.yaml.in/yaml/v3 v3.0.5 // indirect
	golang.org/x/crypto v0.54.0 // indirect
	golang.org/x/image v0.44.0 // indirect
)

replace github.com/pdfcpu/pdfcpu => /repo
