// mc <property> <quick|thorough> [--replay file] | mc worker <property> <tier> <i> <n>
package main

import (
	"strings"
	"encoding/json"
	"fmt"
	"os"

	"verif/mc/core"
	"verif/mc/props"
)

func main() {
	if len(os.Args) >= 6 && os.Args[1] == "worker" {
		core.WorkerMain(os.Args[2:])
		return
	}
	if len(os.Args) == 5 && os.Args[1] == "c01trace" {
		props.C01TraceMain(os.Args[2:])
		return
	}
	if len(os.Args) == 3 && os.Args[1] == "clifixtures" {
		if err := props.CLIFixtures(os.Args[2]); err != nil {
			fmt.Println(err)
			os.Exit(2)
		}
		return
	}
	if len(os.Args) < 3 {
		fmt.Fprintln(os.Stderr, "usage: mc <property> <quick|thorough> [--replay file]")
		os.Exit(2)
	}
	c := core.Registry[os.Args[1]]
	if c == nil {
		fmt.Println("HARNESS-ERROR unknown property", os.Args[1])
		os.Exit(2)
	}
	tier := os.Args[2]
	r := core.NewR(c, tier)
	if len(os.Args) >= 5 && os.Args[3] == "--replay" {
		b, err := os.ReadFile(os.Args[4])
		if err != nil || c.Replay == nil {
			fmt.Println("HARNESS-ERROR replay not available:", err)
			os.Exit(2)
		}
		var rec struct {
			Case json.RawMessage `json:"case"`
		}
		json.Unmarshal(b, &rec)
		c.Replay(r, rec.Case)
		for _, v := range r.Viol {
			fmt.Printf("replayed violation key=%s: %s\n", v.Key, v.Detail)
		}
		if len(r.Viol) > 0 {
			os.Exit(1)
		}
		fmt.Println("replay: no violation")
		return
	}
	if pv, st := core.Try(func() { c.Run(r) }); pv != nil {
		if wp, ok := pv.(*core.WorkerPanic); ok {
			pv, st = wp.Val, wp.Stack
		}
		origin := core.PanicOrigin(st)
		if strings.HasPrefix(origin, "github.com/pdfcpu/pdfcpu/") && !strings.HasPrefix(origin, "github.com/pdfcpu/pdfcpu/vx/") {
			// raised inside pdfcpu on an input the check considers valid for the operation: that is the
			// implementation failing, not the harness. The exploration stops here (reported as incomplete).
			r.Cut("the exploration was aborted by a panic inside pdfcpu")
			r.Violation("panic-in-pdfcpu:"+origin, fmt.Sprintf("pdfcpu panicked during the check: %v (raised in %s)\n%s", pv, origin, st), map[string]any{"panic": fmt.Sprint(pv), "raised_in": origin})
		} else {
			r.HarnessError("check panicked: %v\n%s", pv, st)
		}
	}
	os.Exit(r.Finish())
}
