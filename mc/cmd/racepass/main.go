// racepass: supporting pass of C40. Built with -race. Whole-API bodies run free (no cooperative
// scheduler) on independent inputs in G goroutines; every result is compared with the result of the
// same body run alone. Data races are reported by the Go race detector into GORACE's log_path.
package main

import (
	"bytes"
	"encoding/json"
	"fmt"
	"os"
	"path/filepath"
	"runtime"
	"sort"
	"strconv"
	"sync"

	"github.com/pdfcpu/pdfcpu/pkg/api"
	"github.com/pdfcpu/pdfcpu/pkg/font"
	"verif/mc/props"
)

func main() {
	if len(os.Args) < 5 {
		fmt.Fprintln(os.Stderr, "usage: racepass <scratch dir> <goroutines> <rounds> <gomaxprocs>")
		os.Exit(2)
	}
	dir := os.Args[1]
	g, _ := strconv.Atoi(os.Args[2])
	rounds, _ := strconv.Atoi(os.Args[3])
	mp, _ := strconv.Atoi(os.Args[4])
	runtime.GOMAXPROCS(mp)
	api.DisableConfigDir()
	bodies, err := props.C40Bodies(dir)
	if err != nil {
		fmt.Println("HARNESS-ERROR", err)
		os.Exit(2)
	}
	// The sequential reference is computed AFTER the concurrent rounds (VERIF_RACEPASS_REF_FIRST=1 restores the old
	// order): state that is filled in lazily on first use (a cached width, a parsed table) would otherwise be
	// written by the reference run, and the concurrent runs would only ever read it.
	ref := make([]string, len(bodies))
	refFirst := os.Getenv("VERIF_RACEPASS_REF_FIRST") == "1"
	if refFirst {
		for i, b := range bodies {
			ref[i] = safeRun(b.Run, 0)
		}
	}
	type diff struct {
		Body string `json:"body"`
		Want string `json:"alone"`
		Got  string `json:"concurrent"`
	}
	var diffs []diff
	runs := 0
	type obs struct {
		body int
		out  string
	}
	var all []obs
	// Phase A: every body once, all goroutines on the SAME body at the same moment: whatever the implementation
	// works out lazily on first use (and keeps in shared state) is then written and read by several goroutines
	// within the same instant, before anything has run alone.
	for i := range bodies {
		var wg sync.WaitGroup
		start := make(chan struct{})
		outs := make([]string, g)
		for k := 0; k < g; k++ {
			wg.Add(1)
			go func(k int) {
				defer wg.Done()
				<-start
				outs[k] = safeRun(bodies[i].Run, k+1)
			}(k)
		}
		close(start)
		wg.Wait()
		for k := 0; k < g; k++ {
			runs++
			all = append(all, obs{i, outs[k]})
		}
	}
	// Phase B: rotating mix of different bodies
	for r := 0; r < rounds; r++ {
		var wg sync.WaitGroup
		start := make(chan struct{})
		// results are kept per goroutine and merged after the join: a shared lock taken between two bodies
		// would order one goroutine's earlier bodies before another's later ones and hide their races
		// from the detector. Without it every body of one goroutine is unordered with every body of the
		// others within a round, so every pair of bodies (including a body with itself) is a judged pair.
		outs := make([][]string, g)
		for k := 0; k < g; k++ {
			wg.Add(1)
			outs[k] = make([]string, len(bodies))
			go func(k int) {
				defer wg.Done()
				<-start
				for j := 0; j < len(bodies); j++ {
					i := (k + j + r) % len(bodies)
					outs[k][i] = safeRun(bodies[i].Run, k+1)
				}
			}(k)
		}
		close(start)
		wg.Wait()
		for k := 0; k < g; k++ {
			for i := range bodies {
				runs++
				all = append(all, obs{i, outs[k][i]})
			}
		}
	}
	if !refFirst {
		for i, b := range bodies {
			ref[i] = safeRun(b.Run, 0)
		}
	}
	for _, o := range all {
		if o.out != ref[o.body] && !bodies[o.body].Varies {
			diffs = append(diffs, diff{bodies[o.body].Name, trim(ref[o.body]), trim(o.out)})
		}
	}
	var names []string
	for _, b := range bodies {
		names = append(names, b.Name)
	}
	sort.Strings(names)
	refs := map[string]string{}
	for i, b := range bodies {
		refs[b.Name] = trim(ref[i])
	}
	js, _ := json.Marshal(map[string]any{"reference": refs, "bodies": names, "goroutines": g, "rounds": rounds, "gomaxprocs": mp, "body_runs": runs, "diffs": diffs, "user_font_dir": font.UserFontDir})
	os.WriteFile(filepath.Join(dir, "result.json"), js, 0o644)
	fmt.Println(string(bytes.TrimSpace(js)))
}

func safeRun(f func(int) string, slot int) (out string) {
	defer func() {
		if v := recover(); v != nil {
			out = fmt.Sprintf("panic: %v", v)
		}
	}()
	return f(slot)
}

func trim(s string) string {
	if len(s) > 300 {
		return s[:300] + "..."
	}
	return s
}
