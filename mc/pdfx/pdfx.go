// Package pdfx is the harness's own view of a document read by pdfcpu: it walks the page tree
// itself (own inheritance of MediaBox/CropBox/Rotate/Resources, own cycle guard) on top of
// pdfcpu's object table, so that oracles do not depend on pdfcpu's page-tree helpers.
package pdfx

import (
	"bytes"
	"fmt"
	"regexp"
	"sort"
	"strconv"
	"strings"

	"github.com/pdfcpu/pdfcpu/pkg/api"
	"github.com/pdfcpu/pdfcpu/pkg/pdfcpu/model"
	"github.com/pdfcpu/pdfcpu/pkg/pdfcpu/types"
)

type Page struct {
	Dict      types.Dict
	ObjNr     int
	MediaBox  []float64
	CropBox   []float64 // nil = not set anywhere
	Boxes     map[string][]float64 // page-level TrimBox/BleedBox/ArtBox
	Rotate    int
	Resources types.Dict
	Contents  [][]byte // decoded content streams in order
}

// Read parses b with pdfcpu (relaxed, no optimisation).
func Read(b []byte, conf *model.Configuration) (*model.Context, error) {
	if conf == nil {
		conf = model.NewDefaultConfiguration()
		conf.ValidationMode = model.ValidationRelaxed
	}
	return api.ReadContext(bytes.NewReader(b), conf)
}

func nums(ctx *model.Context, o types.Object) []float64 {
	o, _ = ctx.Dereference(o)
	a, ok := o.(types.Array)
	if !ok {
		return nil
	}
	var out []float64
	for _, e := range a {
		e, _ = ctx.Dereference(e)
		switch v := e.(type) {
		case types.Integer:
			out = append(out, float64(v))
		case types.Float:
			out = append(out, v.Value())
		}
	}
	return out
}

// Pages walks the page tree from the catalog.
func Pages(ctx *model.Context) ([]Page, error) {
	root, err := ctx.Catalog()
	if err != nil {
		return nil, err
	}
	var out []Page
	seen := map[int]bool{}
	type inh struct {
		mb, cb []float64
		rot    int
		hasRot bool
		res    types.Dict
	}
	var walk func(o types.Object, in inh, depth int) error
	walk = func(o types.Object, in inh, depth int) error {
		if depth > 64 {
			return fmt.Errorf("page tree too deep")
		}
		nr := 0
		if ir, ok := o.(types.IndirectRef); ok {
			nr = ir.ObjectNumber.Value()
			if seen[nr] {
				return fmt.Errorf("page tree cycle at %d", nr)
			}
			seen[nr] = true
		}
		d, err := ctx.DereferenceDict(o)
		if err != nil || d == nil {
			return fmt.Errorf("page tree node %d: %v", nr, err)
		}
		if v, ok := d.Find("MediaBox"); ok {
			in.mb = nums(ctx, v)
		}
		if v, ok := d.Find("CropBox"); ok {
			in.cb = nums(ctx, v)
		}
		if v, ok := d.Find("Rotate"); ok {
			v, _ = ctx.Dereference(v)
			if i, ok := v.(types.Integer); ok {
				in.rot = int(i)
				in.hasRot = true
			}
		}
		if v, ok := d.Find("Resources"); ok {
			if rd, err := ctx.DereferenceDict(v); err == nil {
				in.res = rd
			}
		}
		if kids, ok := d.Find("Kids"); ok {
			ka, err := ctx.DereferenceArray(kids)
			if err != nil {
				return err
			}
			for _, k := range ka {
				if err := walk(k, in, depth+1); err != nil {
					return err
				}
			}
			return nil
		}
		p := Page{Dict: d, ObjNr: nr, MediaBox: in.mb, CropBox: in.cb, Rotate: ((in.rot % 360) + 360) % 360, Resources: in.res, Boxes: map[string][]float64{}}
		for _, bn := range []string{"TrimBox", "BleedBox", "ArtBox"} {
			if v, ok := d.Find(bn); ok {
				p.Boxes[bn] = nums(ctx, v)
			}
		}
		if c, ok := d.Find("Contents"); ok {
			c, _ = ctx.Dereference(c)
			var items []types.Object
			if arr, ok := c.(types.Array); ok {
				items = arr
			} else if c != nil {
				items = []types.Object{d["Contents"]}
			}
			for _, it := range items {
				sd, _, err := ctx.DereferenceStreamDict(it)
				if err != nil || sd == nil {
					continue
				}
				if err := sd.Decode(); err != nil {
					return fmt.Errorf("decode content of page obj %d: %v", nr, err)
				}
				p.Contents = append(p.Contents, append([]byte{}, sd.Content...))
			}
		}
		out = append(out, p)
		return nil
	}
	pr, ok := root.Find("Pages")
	if !ok {
		return nil, fmt.Errorf("no /Pages")
	}
	if err := walk(pr, inh{}, 0); err != nil {
		return nil, err
	}
	return out, nil
}

var markerRe = regexp.MustCompile(`1 0 0 1 (\d+) 0 cm|/([^\s/\[\]<>()]+)\s+Do`)

// Markers lists the docgen markers drawn by a page in drawing order, following form XObjects.
func Markers(ctx *model.Context, p Page) []int {
	var out []int
	var scan func(content []byte, res types.Dict, depth int)
	scan = func(content []byte, res types.Dict, depth int) {
		if depth > 8 {
			return
		}
		for _, m := range markerRe.FindAllSubmatch(content, -1) {
			if len(m[1]) > 0 {
				v, _ := strconv.Atoi(string(m[1]))
				out = append(out, v)
				continue
			}
			if res == nil {
				continue
			}
			xo, ok := res.Find("XObject")
			if !ok {
				continue
			}
			xd, err := ctx.DereferenceDict(xo)
			if err != nil || xd == nil {
				continue
			}
			name, _ := types.DecodeName(string(m[2]))
			ref, ok := xd.Find(name)
			if !ok {
				continue
			}
			sd, _, err := ctx.DereferenceStreamDict(ref)
			if err != nil || sd == nil {
				continue
			}
			if st := sd.NameEntry("Subtype"); st == nil || *st != "Form" {
				continue
			}
			if sd.Decode() != nil {
				continue
			}
			r2 := res
			if rv, ok := sd.Find("Resources"); ok {
				if rd, err := ctx.DereferenceDict(rv); err == nil && rd != nil {
					r2 = rd
				}
			}
			scan(sd.Content, r2, depth+1)
		}
	}
	scan(bytes.Join(p.Contents, []byte("\n")), p.Resources, 0)
	return out
}

// NormContent is the whitespace-normalised concatenation of the page's content streams.
func NormContent(p Page) string {
	return strings.Join(strings.Fields(string(bytes.Join(p.Contents, []byte("\n")))), " ")
}

// Canon serialises an object graph canonically: indirect references are followed (object numbers
// erased), streams are decoded, dictionary keys sorted; cycles are cut with a back-reference index.
func Canon(ctx *model.Context, o types.Object, skipKeys map[string]bool) string {
	var sb strings.Builder
	onPath := map[int]int{}
	var rec func(o types.Object, depth int)
	rec = func(o types.Object, depth int) {
		if depth > 40 {
			sb.WriteString("<deep>")
			return
		}
		if ir, ok := o.(types.IndirectRef); ok {
			nr := ir.ObjectNumber.Value()
			if d, ok := onPath[nr]; ok {
				fmt.Fprintf(&sb, "<up %d>", depth-d)
				return
			}
			onPath[nr] = depth
			defer delete(onPath, nr)
			t, err := ctx.Dereference(ir)
			if err != nil {
				sb.WriteString("<err>")
				return
			}
			o = t
		}
		switch v := o.(type) {
		case nil:
			sb.WriteString("null")
		case types.Dict:
			writeDict(&sb, v, skipKeys, func(x types.Object) { rec(x, depth+1) })
		case types.StreamDict:
			writeDict(&sb, v.Dict, map[string]bool{"Length": true, "Filter": true, "DecodeParms": true}, func(x types.Object) { rec(x, depth+1) })
			sd := v
			if err := sd.Decode(); err == nil {
				fmt.Fprintf(&sb, "stream(%d:%x)", len(sd.Content), hash(sd.Content))
			} else {
				fmt.Fprintf(&sb, "stream(raw %d:%x)", len(sd.Raw), hash(sd.Raw))
			}
		case types.Array:
			sb.WriteByte('[')
			for i, e := range v {
				if i > 0 {
					sb.WriteByte(' ')
				}
				rec(e, depth+1)
			}
			sb.WriteByte(']')
		case types.Float:
			fmt.Fprintf(&sb, "%.6f", v.Value())
		case types.Integer:
			fmt.Fprintf(&sb, "%d", int(v))
		case types.StringLiteral:
			b, _ := types.Unescape(v.Value())
			fmt.Fprintf(&sb, "(%x)", b)
		case types.HexLiteral:
			b, _ := v.Bytes()
			fmt.Fprintf(&sb, "(%x)", b)
		default:
			sb.WriteString(o.PDFString())
		}
	}
	rec(o, 0)
	return sb.String()
}

func writeDict(sb *strings.Builder, d types.Dict, skip map[string]bool, rec func(types.Object)) {
	ks := make([]string, 0, len(d))
	for k := range d {
		if skip != nil && skip[k] {
			continue
		}
		if d[k] == nil {
			continue
		}
		ks = append(ks, k)
	}
	sort.Strings(ks)
	sb.WriteString("<<")
	for _, k := range ks {
		sb.WriteByte('/')
		sb.WriteString(k)
		sb.WriteByte(' ')
		rec(d[k])
	}
	sb.WriteString(">>")
}

func hash(b []byte) uint64 {
	var h uint64 = 1469598103934665603
	for _, c := range b {
		h ^= uint64(c)
		h *= 1099511628211
	}
	return h
}

// PageFingerprint: content + effective boxes + rotation + canonical resources.
func PageFingerprint(ctx *model.Context, p Page) string {
	res := "none"
	if p.Resources != nil {
		res = Canon(ctx, p.Resources, nil)
	}
	return fmt.Sprintf("content=%s|mb=%v|cb=%v|boxes=%v|rot=%d|res=%s", NormContent(p), p.MediaBox, p.CropBox, boxString(p.Boxes), p.Rotate, res)
}

func boxString(m map[string][]float64) string {
	ks := make([]string, 0, len(m))
	for k := range m {
		ks = append(ks, k)
	}
	sort.Strings(ks)
	var ss []string
	for _, k := range ks {
		ss = append(ss, fmt.Sprintf("%s%v", k, m[k]))
	}
	return strings.Join(ss, ",")
}

// UsedFingerprint: as PageFingerprint, but of the resources only those the page's content actually uses
// (operands of Tf, Do, gs): an optimising writer may prune names nothing refers to, it may not lose a used one.
func UsedFingerprint(ctx *model.Context, p Page) string {
	content := NormContent(p)
	used := map[string][]string{}
	toks := strings.Fields(content)
	for i, t := range toks {
		if i == 0 || !strings.HasPrefix(toks[i-1], "/") && !(i >= 2 && strings.HasPrefix(toks[i-2], "/")) {
			continue
		}
		switch t {
		case "Do":
			used["XObject"] = append(used["XObject"], toks[i-1][1:])
		case "gs":
			used["ExtGState"] = append(used["ExtGState"], toks[i-1][1:])
		case "Tf":
			if i >= 2 {
				used["Font"] = append(used["Font"], toks[i-2][1:])
			}
		}
	}
	var parts []string
	for _, cat := range []string{"ExtGState", "Font", "XObject"} {
		names := used[cat]
		sort.Strings(names)
		for _, raw := range names {
			name, _ := types.DecodeName(raw)
			val := "MISSING"
			if p.Resources != nil {
				if sub, ok := p.Resources.Find(cat); ok {
					if sd, err := ctx.DereferenceDict(sub); err == nil && sd != nil {
						if o, ok := sd[name]; ok {
							val = Canon(ctx, o, nil)
						}
					}
				}
			}
			parts = append(parts, cat+"/"+name+"="+val)
		}
	}
	return fmt.Sprintf("content=%s|mb=%v|cb=%v|boxes=%v|rot=%d|used=%s", content, p.MediaBox, p.CropBox, boxString(p.Boxes), p.Rotate, strings.Join(parts, ";"))
}
