// Package pngtiff is an independent implementation of PNG row un-filtering (RFC 2083 section 6)
// and TIFF 6.0 horizontal differencing (predictor 2) as ISO 32000 7.4.4.4 applies them to
// Flate/LZW decoded data. It shares no code with pdfcpu.
package pngtiff

import "fmt"

// RowBytes returns the number of data bytes per row.
func RowBytes(colors, bpc, columns int) int { return (colors*bpc*columns + 7) / 8 }

// Undo reverses the predictor on data (the output of the decompressor).
// predictor: 2 (TIFF) or 10..15 (PNG, row filter byte per row).
func Undo(data []byte, predictor, colors, bpc, columns int) ([]byte, error) {
	rb := RowBytes(colors, bpc, columns)
	if predictor == 1 {
		return append([]byte{}, data...), nil
	}
	if predictor == 2 {
		if len(data)%rb != 0 {
			return nil, fmt.Errorf("partial row")
		}
		out := append([]byte{}, data...)
		for off := 0; off < len(out); off += rb {
			tiffRow(out[off:off+rb], colors, bpc, columns)
		}
		return out, nil
	}
	if predictor < 10 || predictor > 15 {
		return nil, fmt.Errorf("undefined predictor %d", predictor)
	}
	if len(data)%(rb+1) != 0 {
		return nil, fmt.Errorf("partial row")
	}
	bpp := (colors*bpc + 7) / 8 // RFC 2083: bytes per complete pixel, rounding up to one
	prev := make([]byte, rb)
	var out []byte
	for off := 0; off < len(data); off += rb + 1 {
		ft := data[off]
		cur := append([]byte{}, data[off+1:off+1+rb]...)
		for i := 0; i < rb; i++ {
			var a, b, c int
			if i >= bpp {
				a = int(cur[i-bpp])
				c = int(prev[i-bpp])
			}
			b = int(prev[i])
			switch ft {
			case 0:
			case 1:
				cur[i] = byte(int(cur[i]) + a)
			case 2:
				cur[i] = byte(int(cur[i]) + b)
			case 3:
				cur[i] = byte(int(cur[i]) + (a+b)/2)
			case 4:
				cur[i] = byte(int(cur[i]) + paeth(a, b, c))
			default:
				return nil, fmt.Errorf("invalid row filter %d", ft)
			}
		}
		out = append(out, cur...)
		prev = cur
	}
	return out, nil
}

func paeth(a, b, c int) int {
	p := a + b - c
	pa, pb, pc := abs(p-a), abs(p-b), abs(p-c)
	if pa <= pb && pa <= pc {
		return a
	}
	if pb <= pc {
		return b
	}
	return c
}

func abs(x int) int {
	if x < 0 {
		return -x
	}
	return x
}

// tiffRow adds each sample to the sample of the same component of the previous pixel, in place.
func tiffRow(row []byte, colors, bpc, columns int) {
	switch bpc {
	case 8:
		for i := colors; i < columns*colors; i++ {
			row[i] += row[i-colors]
		}
	case 16:
		for i := colors; i < columns*colors; i++ {
			cur := int(row[2*i])<<8 | int(row[2*i+1])
			pv := int(row[2*(i-colors)])<<8 | int(row[2*(i-colors)+1])
			s := (cur + pv) & 0xFFFF
			row[2*i], row[2*i+1] = byte(s>>8), byte(s)
		}
	default: // 1, 2, 4 bits: samples are packed MSB first
		n := columns * colors
		get := func(i int) int {
			bit := i * bpc
			return int(row[bit/8]>>(8-bpc-bit%8)) & (1<<bpc - 1)
		}
		set := func(i, v int) {
			bit := i * bpc
			sh := uint(8 - bpc - bit%8)
			mask := byte((1<<bpc - 1) << sh)
			row[bit/8] = row[bit/8]&^mask | byte(v<<sh)&mask
		}
		for i := colors; i < n; i++ {
			set(i, (get(i)+get(i-colors))&(1<<bpc-1))
		}
	}
}
