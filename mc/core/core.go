// Package core is the shared runner plumbing: check registry, counters, evidence, known
// findings, violations with replay artefacts, in-process and sub-process parallelism.
package core

import (
	"bytes"
	"bufio"
	"crypto/sha256"
	"encoding/hex"
	"encoding/json"
	"fmt"
	"os"
	"os/exec"
	"path/filepath"
	"runtime"
	"runtime/debug"
	"sort"
	"strconv"
	"strings"
	"sync"
	"sync/atomic"
	"time"
)

type Check struct {
	ID        string
	Level     string // evidence level
	Rule      string // how cases are enumerated / what is non-trivial
	Assume    []string
	Run       func(r *R)               // parent entry point
	RunShard  func(r *R, i, n int)     // optional: body of one worker sub-process
	Replay    func(r *R, data []byte) // optional: re-run one recorded case
	QuickSecs int                      // internal deadline for quick tier (0 = 240)
	ThorSecs  int                      // internal deadline for thorough tier (0 = 1500)
}

var Registry = map[string]*Check{}

func Register(c *Check) { Registry[c.ID] = c }

type Violation struct {
	Key    string          `json:"key"`
	Detail string          `json:"detail"`
	Replay json.RawMessage `json:"replay,omitempty"`
}

// R is the state of one run (parent or worker).
type R struct {
	Check    *Check `json:"-"`
	ID       string `json:"id"`
	Tier     string `json:"tier"`
	Seed     int64  `json:"seed"`
	IsWorker bool   `json:"-"`
	Start    time.Time `json:"-"`
	Deadline time.Time `json:"-"`

	mu         sync.Mutex
	Evals      int64               `json:"evals"`
	Nontriv    int64               `json:"nontriv"`
	Counters   map[string]int64    `json:"counters"`
	Sets       map[string]map[string]bool `json:"sets"`
	Samples    []any               `json:"samples"`
	Viol       []Violation         `json:"viol"`
	Notes      map[string]any      `json:"notes"`
	Incomplete []string            `json:"incomplete"` // reasons the run is not exhaustive
	HarnessErr []string            `json:"harness_err"`
	sampleSeen int64
	vcount     map[string]int
}

func NewR(c *Check, tier string) *R {
	seed, _ := strconv.ParseInt(os.Getenv("VERIF_SEED"), 10, 64)
	r := &R{Check: c, ID: c.ID, Tier: tier, Seed: seed, Start: time.Now(),
		Counters: map[string]int64{}, Sets: map[string]map[string]bool{}, Notes: map[string]any{}}
	secs := c.QuickSecs
	if secs == 0 {
		secs = 240
	}
	if tier == "thorough" {
		secs = c.ThorSecs
		if secs == 0 {
			secs = 1500
		}
	}
	if v := os.Getenv("VERIF_DEADLINE_S"); v != "" {
		if n, err := strconv.Atoi(v); err == nil {
			secs = n
		}
	}
	r.Deadline = r.Start.Add(time.Duration(secs) * time.Second)
	return r
}

func VerifDir() string {
	if d := os.Getenv("VERIF_DIR"); d != "" {
		return d
	}
	return "/verif"
}
func RepoDir() string {
	if d := os.Getenv("REPO_DIR"); d != "" {
		return d
	}
	return "/repo"
}

func (r *R) Quick() bool { return r.Tier != "thorough" }

// Expired reports whether the internal deadline passed; callers stop enumerating and call
// r.Cut(reason) so that the evidence says exhaustive:false.
func (r *R) Expired() bool { return time.Now().After(r.Deadline) }

func (r *R) Cut(reason string) {
	r.mu.Lock()
	defer r.mu.Unlock()
	for _, x := range r.Incomplete {
		if x == reason {
			return
		}
	}
	r.Incomplete = append(r.Incomplete, reason)
}

func (r *R) Eval(n int64)       { atomic.AddInt64(&r.Evals, n) }
func (r *R) Nontrivial(n int64) { atomic.AddInt64(&r.Nontriv, n) }

func (r *R) Count(key string, n int64) {
	r.mu.Lock()
	r.Counters[key] += n
	r.mu.Unlock()
}

func (r *R) SetAdd(set, member string) {
	r.mu.Lock()
	m := r.Sets[set]
	if m == nil {
		m = map[string]bool{}
		r.Sets[set] = m
	}
	if len(m) < 100000 {
		m[member] = true
	}
	r.mu.Unlock()
}

func (r *R) Note(k string, v any) {
	r.mu.Lock()
	r.Notes[k] = v
	r.mu.Unlock()
}

// Sample keeps the first 4 samples and then exponentially sparser ones (at most ~12).
func (r *R) Sample(v any) {
	n := atomic.AddInt64(&r.sampleSeen, 1)
	if n > 4 && (n&(n-1)) != 0 {
		return
	}
	r.mu.Lock()
	if len(r.Samples) < 14 {
		r.Samples = append(r.Samples, v)
	}
	r.mu.Unlock()
}

func (r *R) HarnessError(f string, a ...any) {
	r.mu.Lock()
	r.HarnessErr = append(r.HarnessErr, fmt.Sprintf(f, a...))
	r.mu.Unlock()
}

// Want reports whether another violation with this key would still be recorded (cheap guard
// to skip formatting when a key already overflowed).
func (r *R) Want(key string) bool {
	r.mu.Lock()
	defer r.mu.Unlock()
	if r.vcount == nil {
		r.vcount = map[string]int{}
	}
	r.vcount[key]++
	if r.vcount[key] > 3 {
		r.Counters["violations_total"]++
		return false
	}
	return true
}

// Violation records a property violation. key identifies the specific failing input / call
// site / history class; it is what known_findings.jsonl lists.
func (r *R) Violation(key, detail string, replay any) {
	var raw json.RawMessage
	if replay != nil {
		raw, _ = json.Marshal(replay)
	}
	r.mu.Lock()
	defer r.mu.Unlock()
	cnt := 0
	for _, v := range r.Viol {
		if v.Key == key {
			cnt++
		}
	}
	r.Counters["violations_total"]++
	if cnt >= 3 || len(r.Viol) > 2000 {
		return
	}
	if len(detail) > 2000 {
		detail = detail[:2000] + "…"
	}
	r.Viol = append(r.Viol, Violation{Key: key, Detail: detail, Replay: raw})
}

// ---------------------------------------------------------------------------------------
// parallel helpers

func Workers() int {
	n := runtime.NumCPU()
	if v := os.Getenv("VERIF_WORKERS"); v != "" {
		if k, err := strconv.Atoi(v); err == nil && k > 0 {
			n = k
		}
	}
	return n
}

// ParFor runs fn(i) for i in [0,n) on all cores. fn must be goroutine safe. A panic inside fn is
// a harness error unless fn recovers itself.
func ParFor(n int, fn func(i int)) {
	w := Workers()
	if w > n {
		w = n
	}
	if w <= 1 {
		for i := 0; i < n; i++ {
			fn(i)
		}
		return
	}
	var next int64 = -1
	var wg sync.WaitGroup
	var pmu sync.Mutex
	var first *WorkerPanic
	for k := 0; k < w; k++ {
		wg.Add(1)
		go func() {
			defer wg.Done()
			for {
				i := int(atomic.AddInt64(&next, 1))
				if i >= n {
					return
				}
				// a panic in a worker would take the whole process down without evidence: carry it to the caller
				if pv, st := Try(func() { fn(i) }); pv != nil {
					pmu.Lock()
					if first == nil {
						first = &WorkerPanic{Val: pv, Stack: st}
					}
					pmu.Unlock()
					atomic.StoreInt64(&next, int64(n)) // stop handing out work
					return
				}
			}
		}()
	}
	wg.Wait()
	if first != nil {
		panic(first)
	}
}

// WorkerPanic carries a panic out of a ParFor worker together with the stack it was raised on.
type WorkerPanic struct {
	Val   any
	Stack string
}

func (w *WorkerPanic) Error() string { return fmt.Sprint(w.Val) }

// PanicOrigin returns the first frame of a recovered panic's stack that is neither the Go runtime nor the
// harness's own recovery plumbing: the function that raised it.
func PanicOrigin(stack string) string {
	lines := strings.Split(stack, "\n")
	seenPanic := false
	for _, l := range lines {
		if strings.HasPrefix(l, "panic(") || strings.HasPrefix(l, "runtime.gopanic") {
			seenPanic = true
			continue
		}
		if !seenPanic || strings.HasPrefix(l, "\t") || l == "" {
			continue
		}
		if strings.HasPrefix(l, "runtime.") || strings.HasPrefix(l, "runtime/") || strings.HasPrefix(l, "verif/mc/core.") {
			continue
		}
		if i := strings.LastIndex(l, "("); i > 0 {
			l = l[:i]
		}
		return l
	}
	return ""
}

// Try runs f and converts a panic into a value (with stack).
func Try(f func()) (pv any, stack string) {
	defer func() {
		if x := recover(); x != nil {
			pv = x
			stack = string(debug.Stack())
		}
	}()
	f()
	return nil, ""
}

// Sharded runs the check's RunShard in n sub-processes (GOMAXPROCS=1 each unless procs>0) and
// merges their state into r.
func Sharded(r *R, n int, extraEnv ...string) {
	if r.Check.RunShard == nil {
		r.HarnessError("no RunShard for %s", r.ID)
		return
	}
	var wg sync.WaitGroup
	results := make([]*R, n)
	errs := make([]string, n)
	left := time.Until(r.Deadline)
	for i := 0; i < n; i++ {
		wg.Add(1)
		go func(i int) {
			defer wg.Done()
			cmd := exec.Command(os.Args[0], "worker", r.ID, r.Tier, strconv.Itoa(i), strconv.Itoa(n))
			cmd.Env = append(os.Environ(), "VERIF_DEADLINE_S="+strconv.Itoa(int(left.Seconds())))
			cmd.Env = append(cmd.Env, extraEnv...)
			cmd.Stderr = os.Stderr
			out, err := cmd.StdoutPipe()
			if err != nil {
				errs[i] = err.Error()
				return
			}
			if err := cmd.Start(); err != nil {
				errs[i] = err.Error()
				return
			}
			var last string
			sc := bufio.NewScanner(out)
			sc.Buffer(make([]byte, 1<<20), 1<<30)
			for sc.Scan() {
				line := sc.Text()
				if strings.HasPrefix(line, "RESULT ") {
					last = line[7:]
				}
			}
			werr := cmd.Wait()
			if last == "" {
				errs[i] = fmt.Sprintf("worker %d/%d produced no result (%v)", i, n, werr)
				return
			}
			wr := &R{}
			if err := json.Unmarshal([]byte(last), wr); err != nil {
				errs[i] = err.Error()
				return
			}
			results[i] = wr
		}(i)
	}
	wg.Wait()
	for i, w := range results {
		if errs[i] != "" {
			r.HarnessError("%s", errs[i])
			continue
		}
		r.Merge(w)
	}
}

func (r *R) Merge(w *R) {
	r.mu.Lock()
	defer r.mu.Unlock()
	r.Evals += w.Evals
	r.Nontriv += w.Nontriv
	for k, v := range w.Counters {
		r.Counters[k] += v
	}
	for s, m := range w.Sets {
		if r.Sets[s] == nil {
			r.Sets[s] = map[string]bool{}
		}
		for k := range m {
			r.Sets[s][k] = true
		}
	}
	for _, s := range w.Samples {
		if len(r.Samples) < 14 {
			r.Samples = append(r.Samples, s)
		}
	}
	r.Viol = append(r.Viol, w.Viol...)
	for k, v := range w.Notes {
		if _, ok := r.Notes[k]; !ok {
			r.Notes[k] = v
		}
	}
	for _, x := range w.Incomplete {
		dup := false
		for _, y := range r.Incomplete {
			dup = dup || x == y
		}
		if !dup {
			r.Incomplete = append(r.Incomplete, x)
		}
	}
	r.HarnessErr = append(r.HarnessErr, w.HarnessErr...)
}

// WorkerMain is called by main for `mc worker <id> <tier> <i> <n>`.
func WorkerMain(args []string) {
	c := Registry[args[0]]
	if c == nil || c.RunShard == nil {
		fmt.Fprintln(os.Stderr, "no such sharded check", args[0])
		os.Exit(2)
	}
	i, _ := strconv.Atoi(args[2])
	n, _ := strconv.Atoi(args[3])
	r := NewR(c, args[1])
	r.IsWorker = true
	if pv, st := Try(func() { c.RunShard(r, i, n) }); pv != nil {
		r.HarnessError("worker %d/%d panicked: %v\n%s", i, n, pv, st)
	}
	b, _ := json.Marshal(r)
	w := bufio.NewWriter(os.Stdout)
	w.WriteString("RESULT ")
	w.Write(b)
	w.WriteString("\nDONE\n")
	w.Flush()
}

// ---------------------------------------------------------------------------------------
// known findings

type Finding struct {
	Property string `json:"property"`
	Key      string `json:"key,omitempty"`
	What     string `json:"what,omitempty"`
	Fixed    string `json:"fixed,omitempty"`
}

func LoadFindings(id string) map[string]Finding {
	out := map[string]Finding{}
	f, err := os.Open(filepath.Join(VerifDir(), "known_findings.jsonl"))
	if err != nil {
		return out
	}
	defer f.Close()
	sc := bufio.NewScanner(f)
	sc.Buffer(make([]byte, 1<<20), 1<<24)
	for sc.Scan() {
		line := strings.TrimSpace(sc.Text())
		if line == "" || strings.HasPrefix(line, "#") {
			continue
		}
		var fd Finding
		if json.Unmarshal([]byte(line), &fd) != nil {
			continue
		}
		if fd.Property == id && fd.Fixed == "" && fd.Key != "" {
			out[fd.Key] = fd
		}
	}
	return out
}

// ---------------------------------------------------------------------------------------
// finishing: evidence + exit status

func (r *R) Finish() int {
	known := LoadFindings(r.ID)
	var unknown []Violation
	matched := map[string]int{}
	for _, v := range r.Viol {
		if _, ok := known[v.Key]; ok {
			matched[v.Key]++
		} else {
			unknown = append(unknown, v)
		}
	}
	sort.SliceStable(unknown, func(i, j int) bool { return unknown[i].Key < unknown[j].Key })

	exhaustive := len(r.Incomplete) == 0 && len(r.HarnessErr) == 0
	if r.Nontriv > r.Evals {
		// a non-trivial case is an evaluated case; a check that counts otherwise is miscounting (conservative side)
		r.Nontriv = r.Evals
	}
	cov := map[string]any{
		"evaluations":         r.Evals,
		"distinct_nontrivial": r.Nontriv,
		"rule":                r.Check.Rule,
		"samples":             r.Samples,
		"exhaustive":          exhaustive,
	}
	if len(r.Incomplete) > 0 {
		cov["caps_hit"] = r.Incomplete
	}
	for k, v := range r.Counters {
		cov[k] = v
	}
	for s, m := range r.Sets {
		cov["distinct_"+s] = len(m)
		if len(m) <= 40 || os.Getenv("VERIF_FULL_SETS") != "" {
			ks := make([]string, 0, len(m))
			for k := range m {
				ks = append(ks, k)
			}
			sort.Strings(ks)
			cov[s] = ks
		}
	}
	for k, v := range r.Notes {
		cov[k] = v
	}
	if len(matched) > 0 {
		ks := []string{}
		for k := range matched {
			ks = append(ks, k)
		}
		sort.Strings(ks)
		cov["known_findings_reproduced"] = ks
	}
	if r.Samples == nil {
		cov["samples"] = []any{}
	}
	ev := map[string]any{
		"property_id": r.ID,
		"tier":        r.Tier,
		"seed":        r.Seed,
		"level":       r.Check.Level,
		"coverage":    cov,
		"assumptions": r.Check.Assume,
		"wall_s":      time.Since(r.Start).Seconds(),
		"violations":  len(unknown),
	}
	if r.Check.Assume == nil {
		ev["assumptions"] = []string{}
	}
	os.MkdirAll(filepath.Join(VerifDir(), "evidence"), 0o755)
	b, _ := json.MarshalIndent(ev, "", " ")
	if err := os.WriteFile(filepath.Join(VerifDir(), "evidence", r.ID+".json"), append(b, '\n'), 0o644); err != nil {
		fmt.Println("HARNESS-ERROR cannot write evidence:", err)
		return 2
	}

	ks := []string{}
	for k := range matched {
		ks = append(ks, k)
	}
	sort.Strings(ks)
	for _, k := range ks {
		fmt.Printf("KNOWN-FINDING: property=%s %s [%s]\n", r.ID, known[k].What, k)
	}
	fmt.Printf("%s %s: evaluations=%d nontrivial=%d exhaustive=%v wall=%.1fs", r.ID, r.Tier, r.Evals, r.Nontriv, exhaustive, time.Since(r.Start).Seconds())
	for _, k := range sortedKeys(r.Counters) {
		fmt.Printf(" %s=%d", k, r.Counters[k])
	}
	fmt.Println()
	for _, c := range r.Incomplete {
		fmt.Println("  cap:", c)
	}
	for _, h := range r.HarnessErr {
		fmt.Println("HARNESS-ERROR", r.ID, firstLine(h))
	}
	{
		var sb strings.Builder
		for _, u := range r.Viol {
			tag := "NEW  "
			if _, ok := known[u.Key]; ok {
				tag = "KNOWN"
			}
			fmt.Fprintf(&sb, "%s %s\t%s\n", tag, u.Key, firstLine(u.Detail))
		}
		os.WriteFile(filepath.Join(VerifDir(), ".work", "last-"+r.ID+"-violations.txt"), []byte(sb.String()), 0o644)
	}
	if len(unknown) > 0 {
		v := unknown[0]
		h := sha256.Sum256([]byte(v.Key))
		os.MkdirAll(filepath.Join(VerifDir(), "replay"), 0o755)
		p := filepath.Join(VerifDir(), "replay", r.ID+"-"+hex.EncodeToString(h[:6])+".json")
		rb, _ := json.MarshalIndent(map[string]any{"property": r.ID, "key": v.Key, "detail": v.Detail, "case": v.Replay}, "", " ")
		os.WriteFile(p, rb, 0o644)
		seen := map[string]bool{}
		for _, u := range unknown {
			if !seen[u.Key] && len(seen) < 12 {
				fmt.Printf("  violation key=%s: %s\n", u.Key, firstLine(u.Detail))
			}
			seen[u.Key] = true
		}
		fmt.Printf("VIOLATION property=%s replay=%s\n", r.ID, p)
		return 1
	}
	if len(r.HarnessErr) > 0 {
		return 2
	}
	return 0
}

func firstLine(s string) string {
	if i := strings.IndexByte(s, '\n'); i >= 0 {
		s = s[:i]
	}
	if len(s) > 300 {
		s = s[:300]
	}
	return s
}

func sortedKeys(m map[string]int64) []string {
	ks := make([]string, 0, len(m))
	for k := range m {
		ks = append(ks, k)
	}
	sort.Strings(ks)
	return ks
}

// Scratch returns a fresh private scratch directory under /verif/.work/scratch.
func Scratch(tag string) string {
	base := filepath.Join(VerifDir(), ".work", "scratch")
	os.MkdirAll(base, 0o755)
	d, err := os.MkdirTemp(base, tag+"-")
	if err != nil {
		panic(err)
	}
	return d
}

// ---------------------------------------------------------------------------------------
// crash tolerant sharding (C08): a worker may die (stack overflow, out of memory, fatal error) or hang on
// a case. Workers announce every case before running it; the parent attributes a death or a stall to the
// announced case, reports it through onCrash and restarts the worker after that case.

// Inflight announces the case about to run (worker side). seq is the worker's deterministic case number.
func Inflight(seq int, id string) {
	fmt.Fprintf(os.Stdout, "INFLIGHT %d %s\n", seq, id)
}

// ResumeAfter is the case number after which a restarted worker continues (-1: from the start).
func ResumeAfter() int {
	if s := os.Getenv("VERIF_RESUME_AFTER"); s != "" {
		if n, err := strconv.Atoi(s); err == nil {
			return n
		}
	}
	return -1
}

// Snapshot prints the cumulative result so far (worker side); the parent keeps the latest one.
func (r *R) Snapshot() {
	r.mu.Lock()
	b, _ := json.Marshal(r)
	r.mu.Unlock()
	fmt.Fprintf(os.Stdout, "RESULT %s\n", b)
}

// ShardedResilient runs n workers like Sharded but survives worker deaths and stalls.
func ShardedResilient(r *R, n int, stallSecs int, onCrash func(caseID, kind, detail string)) {
	if r.Check.RunShard == nil {
		r.HarnessError("no RunShard for %s", r.ID)
		return
	}
	var wg sync.WaitGroup
	var mu sync.Mutex
	for i := 0; i < n; i++ {
		wg.Add(1)
		go func(i int) {
			defer wg.Done()
			resume := -1
			for attempt := 0; attempt < 200; attempt++ {
				left := time.Until(r.Deadline)
				if left < time.Second {
					return
				}
				cmd := exec.Command(os.Args[0], "worker", r.ID, r.Tier, strconv.Itoa(i), strconv.Itoa(n))
				cmd.Env = append(os.Environ(), "VERIF_DEADLINE_S="+strconv.Itoa(int(left.Seconds())), "VERIF_RESUME_AFTER="+strconv.Itoa(resume))
				var stderr bytes.Buffer
				cmd.Stderr = &stderr
				out, err := cmd.StdoutPipe()
				if err != nil || cmd.Start() != nil {
					r.HarnessError("worker %d: cannot start: %v", i, err)
					return
				}
				var last, inflightID string
				inflightSeq := -1
				done := false
				progress := make(chan struct{}, 1)
				finished := make(chan struct{})
				stalled := false
				go func() {
					t := time.NewTimer(time.Duration(stallSecs) * time.Second)
					for {
						select {
						case <-progress:
							if !t.Stop() {
								select {
								case <-t.C:
								default:
								}
							}
							t.Reset(time.Duration(stallSecs) * time.Second)
						case <-t.C:
							stalled = true
							cmd.Process.Kill()
							return
						case <-finished:
							return
						}
					}
				}()
				sc := bufio.NewScanner(out)
				sc.Buffer(make([]byte, 1<<20), 1<<30)
				for sc.Scan() {
					line := sc.Text()
					switch {
					case strings.HasPrefix(line, "INFLIGHT "):
						f := strings.SplitN(line[9:], " ", 2)
						inflightSeq, _ = strconv.Atoi(f[0])
						if len(f) > 1 {
							inflightID = f[1]
						}
						select {
						case progress <- struct{}{}:
						default:
						}
					case strings.HasPrefix(line, "RESULT "):
						last = line[7:]
					case line == "DONE":
						done = true
					}
				}
				cmd.Wait()
				close(finished)
				if last != "" {
					wr := &R{}
					if json.Unmarshal([]byte(last), wr) == nil {
						mu.Lock()
						r.Merge(wr)
						mu.Unlock()
					}
				}
				if done {
					return
				}
				if inflightSeq < 0 {
					r.HarnessError("worker %d/%d died before its first case: %s", i, n, tailStr(stderr.String(), 600))
					return
				}
				kind := "process died"
				if stalled {
					kind = fmt.Sprintf("no progress for %d s (killed)", stallSecs)
				}
				mu.Lock()
				onCrash(inflightID, kind, tailStr(firstFatal(stderr.String()), 1200))
				mu.Unlock()
				resume = inflightSeq
			}
		}(i)
	}
	wg.Wait()
}

func tailStr(s string, n int) string {
	if len(s) > n {
		return s[len(s)-n:]
	}
	return s
}

// firstFatal returns stderr from the first runtime fatal/panic marker on (the interesting part of a crash dump).
func firstFatal(s string) string {
	for _, m := range []string{"fatal error:", "runtime: goroutine stack exceeds", "panic:"} {
		if i := strings.Index(s, m); i >= 0 {
			e := i + 1500
			if e > len(s) {
				e = len(s)
			}
			return s[i:e]
		}
	}
	return s
}
