// Package sync (github.com/pdfcpu/pdfcpu/vx/vsync) shadows sync for pdfcpu's files. Without an
// active scheduler every primitive is the real one. With a scheduler (vsched.Active != nil) the calling
// goroutine must be one of the scheduler's threads: every operation is announced to the scheduler
// first (a scheduling point), blocks cooperatively while it is not enabled, and is then executed
// atomically. Exactly one thread runs at any time, so the state fields need no protection.
package sync

import (
	real "sync"

	"github.com/pdfcpu/pdfcpu/vx/vsched"
)

// Mutex shadows sync.Mutex.
type Mutex struct {
	r    real.Mutex
	held bool
}

func (m *Mutex) Lock() {
	if s := vsched.Active; s != nil && s.OnThread() {
		s.Point("Mutex.Lock", m, func() bool { return !m.held })
		m.held = true
		return
	}
	m.r.Lock()
}

func (m *Mutex) TryLock() bool {
	if s := vsched.Active; s != nil && s.OnThread() {
		s.Point("Mutex.TryLock", m, nil)
		if m.held {
			return false
		}
		m.held = true
		return true
	}
	return m.r.TryLock()
}

func (m *Mutex) Unlock() {
	if s := vsched.Active; s != nil && s.OnThread() {
		s.Point("Mutex.Unlock", m, nil)
		if !m.held {
			panic("sync: unlock of unlocked mutex")
		}
		m.held = false
		return
	}
	m.r.Unlock()
}

// Locker shadows sync.Locker.
type Locker = real.Locker

// RWMutex shadows sync.RWMutex.
type RWMutex struct {
	r       real.RWMutex
	writer  bool
	readers int
}

func (m *RWMutex) Lock() {
	if s := vsched.Active; s != nil && s.OnThread() {
		s.Point("RWMutex.Lock", m, func() bool { return !m.writer && m.readers == 0 })
		m.writer = true
		return
	}
	m.r.Lock()
}

func (m *RWMutex) Unlock() {
	if s := vsched.Active; s != nil && s.OnThread() {
		s.Point("RWMutex.Unlock", m, nil)
		if !m.writer {
			panic("sync: Unlock of unlocked RWMutex")
		}
		m.writer = false
		return
	}
	m.r.Unlock()
}

func (m *RWMutex) RLock() {
	if s := vsched.Active; s != nil && s.OnThread() {
		s.Point("RWMutex.RLock", m, func() bool { return !m.writer })
		m.readers++
		return
	}
	m.r.RLock()
}

func (m *RWMutex) RUnlock() {
	if s := vsched.Active; s != nil && s.OnThread() {
		s.Point("RWMutex.RUnlock", m, nil)
		if m.readers <= 0 {
			panic("sync: RUnlock of unlocked RWMutex")
		}
		m.readers--
		return
	}
	m.r.RUnlock()
}

func (m *RWMutex) TryLock() bool {
	if s := vsched.Active; s != nil && s.OnThread() {
		s.Point("RWMutex.TryLock", m, nil)
		if m.writer || m.readers > 0 {
			return false
		}
		m.writer = true
		return true
	}
	return m.r.TryLock()
}

func (m *RWMutex) TryRLock() bool {
	if s := vsched.Active; s != nil && s.OnThread() {
		s.Point("RWMutex.TryRLock", m, nil)
		if m.writer {
			return false
		}
		m.readers++
		return true
	}
	return m.r.TryRLock()
}

func (m *RWMutex) RLocker() Locker { return (*rlocker)(m) }

type rlocker RWMutex

func (r *rlocker) Lock()   { (*RWMutex)(r).RLock() }
func (r *rlocker) Unlock() { (*RWMutex)(r).RUnlock() }

// Once shadows sync.Once: same blocking semantics as the real one (a second caller waits until the
// first call of f has returned), built from the scheduled Mutex so that the waiting is visible.
type Once struct {
	m    Mutex
	done bool
}

func (o *Once) Do(f func()) {
	if s := vsched.Active; s != nil && s.OnThread() {
		s.Point("Once.Do(check)", o, nil)
	}
	if o.done {
		return
	}
	o.m.Lock()
	defer o.m.Unlock()
	if !o.done {
		defer func() { o.done = true }()
		f()
	}
}
