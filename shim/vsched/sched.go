// Package vsched is the cooperative scheduler behind the vsync / vatomic shims: a controlled,
// deterministic replacement for the Go scheduler for a handful of harness threads. The explorer
// (verif/mc/sched) drives it; pdfcpu's code only reaches it through the shims.
package vsched

import (
	"fmt"
	"runtime"
	"strings"
	"sync"
)

// Active is the scheduler in charge, nil when the shims must behave like the real packages.
var Active *Scheduler

// Chooser picks the thread to run at a scheduling point. enabled lists the ids of the threads whose
// pending operation can execute, in canonical order: the thread that ran last first (if enabled),
// then ascending ids. It returns an index into enabled.
type Chooser func(step int, running int, enabled []int, pending []string) int

type thread struct {
	id      int
	resume  chan struct{}
	op      string
	obj     any
	ready   func() bool // nil = always enabled
	done    bool
	started bool
	panicV  any
	panicSt string
}

// Scheduler runs harness threads one at a time.
type Scheduler struct {
	threads []*thread
	gids    sync.Map // goroutine id -> *thread
	yield   chan *thread
	choose  Chooser
	Steps   int
	Horizon int
	// results
	Deadlock  bool
	Livelock  bool
	Trace     []string // "t<id>:<op>" per executed point
	Choices   []int
	Enabled   [][]int // enabled set at each point (same indexing as Choices)
	Running   []int   // thread that had been running before each point (-1 at start)
	objNames  map[any]string
	Panics    []string
}

func New(choose Chooser) *Scheduler {
	return &Scheduler{yield: make(chan *thread), choose: choose, Horizon: 20000, objNames: map[any]string{}}
}

// Name gives a stable name to a synchronisation object for traces (optional).
func (s *Scheduler) Name(obj any, name string) { s.objNames[obj] = name }

func goid() int64 {
	var buf [64]byte
	n := runtime.Stack(buf[:], false)
	// "goroutine 123 ["
	f := strings.Fields(string(buf[:n]))
	var id int64
	fmt.Sscan(f[1], &id)
	return id
}

// OnThread reports whether the calling goroutine is one of the scheduler's threads.
func (s *Scheduler) OnThread() bool {
	_, ok := s.gids.Load(goid())
	return ok
}

func (s *Scheduler) cur() *thread {
	v, ok := s.gids.Load(goid())
	if !ok {
		panic("vsched: synchronisation operation on a goroutine the scheduler does not own")
	}
	return v.(*thread)
}

// Point announces the next operation of the calling thread and returns when the scheduler has
// selected this thread with the operation enabled.
func (s *Scheduler) Point(op string, obj any, ready func() bool) {
	t := s.cur()
	t.op, t.obj, t.ready = op, obj, ready
	s.yield <- t
	<-t.resume
}

// Yield is a scheduling point without an operation (for spin loops).
func (s *Scheduler) Yield() { s.Point("yield", nil, nil) }

// Run executes the bodies as threads 0..n-1 under the scheduler until all have finished, a deadlock is
// found or the horizon is reached.
func (s *Scheduler) Run(bodies []func()) {
	Active = s
	defer func() { Active = nil }()
	for i, b := range bodies {
		t := &thread{id: i, resume: make(chan struct{}), op: "start"}
		s.threads = append(s.threads, t)
		b := b
		go func() {
			s.gids.Store(goid(), t)
			defer func() {
				if v := recover(); v != nil {
					buf := make([]byte, 4096)
					n := runtime.Stack(buf, false)
					t.panicV, t.panicSt = v, string(buf[:n])
				}
				t.done = true
				s.gids.Delete(goid())
				s.yield <- t
			}()
			<-t.resume // first scheduling
			b()
		}()
	}
	running := -1
	for {
		// enabled threads in canonical order
		var en []int
		var pend []string
		alive := 0
		add := func(t *thread) {
			if t.done {
				return
			}
			if t.ready == nil || t.ready() {
				en = append(en, t.id)
				pend = append(pend, t.op)
			}
		}
		for _, t := range s.threads {
			if !t.done {
				alive++
			}
		}
		if alive == 0 {
			break
		}
		if running >= 0 {
			add(s.threads[running])
		}
		for _, t := range s.threads {
			if t.id != running {
				add(t)
			}
		}
		if len(en) == 0 {
			s.Deadlock = true
			var w []string
			for _, t := range s.threads {
				if !t.done {
					w = append(w, fmt.Sprintf("t%d waits at %s(%s)", t.id, t.op, s.objName(t.obj)))
				}
			}
			s.Trace = append(s.Trace, "DEADLOCK: "+strings.Join(w, "; "))
			break // blocked goroutines are abandoned (they hold no real locks)
		}
		if s.Steps >= s.Horizon {
			s.Livelock = true
			break
		}
		ci := s.choose(s.Steps, running, en, pend)
		if ci < 0 || ci >= len(en) {
			panic(fmt.Sprintf("vsched: choice %d out of range (enabled %v) at step %d", ci, en, s.Steps))
		}
		s.Choices = append(s.Choices, ci)
		s.Enabled = append(s.Enabled, en)
		s.Running = append(s.Running, running)
		t := s.threads[en[ci]]
		s.Trace = append(s.Trace, fmt.Sprintf("t%d:%s(%s)", t.id, t.op, s.objName(t.obj)))
		s.Steps++
		running = t.id
		t.ready = nil
		t.resume <- struct{}{}
		back := <-s.yield // the thread that ran reports its next point (or its end)
		if back != t {
			panic("vsched: a thread other than the scheduled one reported")
		}
		if t.done && t.panicV != nil {
			s.Panics = append(s.Panics, fmt.Sprintf("t%d panicked: %v\n%s", t.id, t.panicV, t.panicSt))
		}
		if t.done {
			running = -1
		}
	}
}

func (s *Scheduler) objName(o any) string {
	if o == nil {
		return ""
	}
	if n, ok := s.objNames[o]; ok {
		return n
	}
	return fmt.Sprintf("%T", o)
}
