// Package atomic (github.com/pdfcpu/pdfcpu/vx/vatomic) shadows sync/atomic for pdfcpu's files: each
// operation of the typed atomics pdfcpu uses is a scheduling point under an active scheduler.
package atomic

import (
	real "sync/atomic"

	"github.com/pdfcpu/pdfcpu/vx/vsched"
)

func point(op string, obj any) {
	if s := vsched.Active; s != nil && s.OnThread() {
		s.Point(op, obj, nil)
	}
}

type Uint64 struct{ v real.Uint64 }

func (x *Uint64) Load() uint64             { point("Uint64.Load", x); return x.v.Load() }
func (x *Uint64) Store(v uint64)           { point("Uint64.Store", x); x.v.Store(v) }
func (x *Uint64) Add(d uint64) uint64      { point("Uint64.Add", x); return x.v.Add(d) }
func (x *Uint64) Swap(v uint64) uint64     { point("Uint64.Swap", x); return x.v.Swap(v) }
func (x *Uint64) CompareAndSwap(o, n uint64) bool {
	point("Uint64.CompareAndSwap", x)
	return x.v.CompareAndSwap(o, n)
}

type Int64 struct{ v real.Int64 }

func (x *Int64) Load() int64         { point("Int64.Load", x); return x.v.Load() }
func (x *Int64) Store(v int64)       { point("Int64.Store", x); x.v.Store(v) }
func (x *Int64) Add(d int64) int64   { point("Int64.Add", x); return x.v.Add(d) }
func (x *Int64) Swap(v int64) int64  { point("Int64.Swap", x); return x.v.Swap(v) }
func (x *Int64) CompareAndSwap(o, n int64) bool {
	point("Int64.CompareAndSwap", x)
	return x.v.CompareAndSwap(o, n)
}

type Int32 struct{ v real.Int32 }

func (x *Int32) Load() int32         { point("Int32.Load", x); return x.v.Load() }
func (x *Int32) Store(v int32)       { point("Int32.Store", x); x.v.Store(v) }
func (x *Int32) Add(d int32) int32   { point("Int32.Add", x); return x.v.Add(d) }
func (x *Int32) CompareAndSwap(o, n int32) bool {
	point("Int32.CompareAndSwap", x)
	return x.v.CompareAndSwap(o, n)
}

type Uint32 struct{ v real.Uint32 }

func (x *Uint32) Load() uint32        { point("Uint32.Load", x); return x.v.Load() }
func (x *Uint32) Store(v uint32)      { point("Uint32.Store", x); x.v.Store(v) }
func (x *Uint32) Add(d uint32) uint32 { point("Uint32.Add", x); return x.v.Add(d) }
func (x *Uint32) CompareAndSwap(o, n uint32) bool {
	point("Uint32.CompareAndSwap", x)
	return x.v.CompareAndSwap(o, n)
}

type Bool struct{ v real.Bool }

func (x *Bool) Load() bool        { point("Bool.Load", x); return x.v.Load() }
func (x *Bool) Store(v bool)      { point("Bool.Store", x); x.v.Store(v) }
func (x *Bool) Swap(v bool) bool  { point("Bool.Swap", x); return x.v.Swap(v) }
func (x *Bool) CompareAndSwap(o, n bool) bool {
	point("Bool.CompareAndSwap", x)
	return x.v.CompareAndSwap(o, n)
}

type Pointer[T any] struct{ v real.Pointer[T] }

func (x *Pointer[T]) Load() *T       { point("Pointer.Load", x); return x.v.Load() }
func (x *Pointer[T]) Store(v *T)     { point("Pointer.Store", x); x.v.Store(v) }
func (x *Pointer[T]) Swap(v *T) *T   { point("Pointer.Swap", x); return x.v.Swap(v) }
func (x *Pointer[T]) CompareAndSwap(o, n *T) bool {
	point("Pointer.CompareAndSwap", x)
	return x.v.CompareAndSwap(o, n)
}

type Value struct{ v real.Value }

func (x *Value) Load() any     { point("Value.Load", x); return x.v.Load() }
func (x *Value) Store(v any)   { point("Value.Store", x); x.v.Store(v) }
