// Package net (github.com/pdfcpu/pdfcpu/vx/vnet) shadows net for the files of pdfcpu that import it:
// name resolution and dialling go through hooks the harness owns; everything else is the real package.
package net

import (
	"context"
	"errors"
	real "net"
	"sync"
	"time"
)

// Hooks. With both nil the shim behaves like the real package.
var (
	mu sync.Mutex
	// LookupHook answers a name lookup (called for IP literals too, like the real resolver).
	LookupHook func(host string) ([]real.IPAddr, error)
	// DialHook is called for every connection attempt with the address exactly as passed by pdfcpu.
	DialHook func(via, network, addr string) (real.Conn, error)
)

func hooks() (func(string) ([]real.IPAddr, error), func(string, string, string) (real.Conn, error)) {
	mu.Lock()
	defer mu.Unlock()
	return LookupHook, DialHook
}

// SetHooks installs (or with nils removes) the hooks.
func SetHooks(l func(string) ([]real.IPAddr, error), d func(string, string, string) (real.Conn, error)) {
	mu.Lock()
	LookupHook, DialHook = l, d
	mu.Unlock()
}

// Resolver shadows net.Resolver (the methods pdfcpu could reach for).
type Resolver struct {
	PreferGo     bool
	StrictErrors bool
	Dial         func(ctx context.Context, network, address string) (real.Conn, error)
}

var DefaultResolver = &Resolver{}

func (r *Resolver) LookupIPAddr(ctx context.Context, host string) ([]real.IPAddr, error) {
	if l, _ := hooks(); l != nil {
		return l(host)
	}
	return real.DefaultResolver.LookupIPAddr(ctx, host)
}

func (r *Resolver) LookupIP(ctx context.Context, network, host string) ([]real.IP, error) {
	as, err := r.LookupIPAddr(ctx, host)
	if err != nil {
		return nil, err
	}
	var out []real.IP
	for _, a := range as {
		out = append(out, a.IP)
	}
	return out, nil
}

func (r *Resolver) LookupHost(ctx context.Context, host string) ([]string, error) {
	as, err := r.LookupIPAddr(ctx, host)
	if err != nil {
		return nil, err
	}
	var out []string
	for _, a := range as {
		out = append(out, a.IP.String())
	}
	return out, nil
}

func LookupIP(host string) ([]real.IP, error) {
	return DefaultResolver.LookupIP(context.Background(), "ip", host)
}
func LookupHost(host string) ([]string, error) {
	return DefaultResolver.LookupHost(context.Background(), host)
}

// Dialer shadows net.Dialer.
type Dialer struct {
	Timeout       time.Duration
	Deadline      time.Time
	LocalAddr     real.Addr
	DualStack     bool
	FallbackDelay time.Duration
	KeepAlive     time.Duration
	Resolver      *Resolver
	Control       func(network, address string, c interface{ Control(func(uintptr)) error }) error
}

func (d *Dialer) DialContext(ctx context.Context, network, addr string) (real.Conn, error) {
	if _, dh := hooks(); dh != nil {
		return dh("Dialer.DialContext", network, addr)
	}
	rd := &real.Dialer{Timeout: d.Timeout, Deadline: d.Deadline, LocalAddr: d.LocalAddr, FallbackDelay: d.FallbackDelay, KeepAlive: d.KeepAlive}
	return rd.DialContext(ctx, network, addr)
}

func (d *Dialer) Dial(network, addr string) (real.Conn, error) {
	return d.DialContext(context.Background(), network, addr)
}

func Dial(network, addr string) (real.Conn, error) {
	if _, dh := hooks(); dh != nil {
		return dh("Dial", network, addr)
	}
	return real.Dial(network, addr)
}

func DialTimeout(network, addr string, timeout time.Duration) (real.Conn, error) {
	if _, dh := hooks(); dh != nil {
		return dh("DialTimeout", network, addr)
	}
	return real.DialTimeout(network, addr, timeout)
}

// ErrRefused is what a hook may return for a dial it observed but does not serve.
var ErrRefused = errors.New("vnet: connection refused by the harness")
