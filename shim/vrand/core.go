// Package rand (github.com/pdfcpu/pdfcpu/vx/vrand) shadows crypto/rand: in pinned mode the
// stream is a deterministic counter sequence.
package rand

import (
	real "crypto/rand"
	"io"
	"math/big"
)

// Pin switches the deterministic stream on (and restarts it); Unpin switches it off.
var (
	pinned  bool
	counter uint64
)

func Pin(seed uint64) { pinned = true; counter = seed }
func Unpin()          { pinned = false }

type reader struct{}

func (reader) Read(p []byte) (int, error) {
	if !pinned {
		return real.Reader.Read(p)
	}
	for i := range p {
		counter = counter*6364136223846793005 + 1442695040888963407
		p[i] = byte(counter >> 56)
	}
	return len(p), nil
}

var Reader io.Reader = reader{}

func Read(b []byte) (int, error) { return io.ReadFull(Reader, b) }

func Int(r io.Reader, max *big.Int) (*big.Int, error) { return real.Int(r, max) }
func Prime(r io.Reader, bits int) (*big.Int, error)   { return real.Prime(r, bits) }

const base32alphabet = "ABCDEFGHIJKLMNOPQRSTUVWXYZ234567"

func Text() string {
	if !pinned {
		return real.Text()
	}
	src := make([]byte, 26)
	Read(src)
	for i := range src {
		src[i] = base32alphabet[src[i]%32]
	}
	return string(src)
}
