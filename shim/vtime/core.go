// Package time (github.com/pdfcpu/pdfcpu/vx/vtime) shadows time: Now/Since/Until follow a
// pinned clock when one is set.
package time

import real "time"

// Pinned, when non-zero, is returned by Now (and advanced by Step per call).
var (
	Pinned real.Time
	Step   real.Duration
)

func Now() real.Time {
	if Pinned.IsZero() {
		return real.Now()
	}
	t := Pinned
	Pinned = Pinned.Add(Step)
	return t
}

func Since(t real.Time) real.Duration { return Now().Sub(t) }
func Until(t real.Time) real.Duration { return t.Sub(Now()) }
