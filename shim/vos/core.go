// Package os (import path github.com/pdfcpu/pdfcpu/vx/vos) shadows the standard os package in
// the overlay build. With no hook installed it is a pass-through. With a hook installed every
// filesystem call of pdfcpu becomes an Event the explorer can answer: proceed, fail with an
// errno, short write, panic, or snapshot.
package os

import (
	"errors"
	"io"
	"io/fs"
	real "os"
	"syscall"
	"time"
)

// Event describes one intercepted environment call.
type Event struct {
	Seq   int    // 1-based index in the current execution (assigned by the shim)
	Kind  string // open, openfile, create, createtemp, mkdir, mkdirall, mkdirtemp, stat, lstat, readdir, read, readat, seek, write, writeat, sync, chmod, fchmod, truncate, ftruncate, close, rename, remove, removeall, link, symlink, readfile, writefile, fstat
	Path  string
	Path2 string
	Flag  int
	N     int // byte count for read/write style events
	// Answers set by the hook before the call is performed:
	Short int  // for write events: >0 => write only Short bytes, then fail with the returned error
	Split int  // for write events: >0 => write Split bytes, call Mid, then write the rest
	Data  []byte // for write events: the buffer (read only)
	IsDir bool   // for sync events: the descriptor is a directory
}

// Hooks. Before returns a non-nil error to make the call fail without being performed (for
// write events with Short>0, after the short write). Before may also panic. After sees the result.
var (
	Before func(ev *Event) error
	After  func(ev *Event, err error)
	Mid    func(ev *Event)
	seq    int
)

// SkipRealSync makes Sync events no-ops on the real file system (they are still reported):
// explored executions do not need real durability and fsync dominates their cost.
var SkipRealSync bool

// ResetSeq restarts event numbering (start of an explored execution).
func ResetSeq() { seq = 0 }

// Redirects for UserConfigDir / TempDir (empty = real).
var (
	ConfigDirOverride string
	TempDirOverride   string
)

func pre(ev *Event) error {
	if Before == nil {
		return nil
	}
	seq++
	ev.Seq = seq
	return Before(ev)
}

func post(ev *Event, err error) {
	if After != nil {
		After(ev, err)
	}
}

func perr(op, path string, err error) error {
	var pe *fs.PathError
	if errors.As(err, &pe) {
		return err
	}
	var le *real.LinkError
	if errors.As(err, &le) {
		return err
	}
	return &fs.PathError{Op: op, Path: path, Err: err}
}

// File wraps *os.File as a distinct type so that every method call lands in the shim.
type File struct {
	f *real.File
}

// Wrap / Unwrap are for the harness.
func Wrap(f *real.File) *File {
	if f == nil {
		return nil
	}
	return &File{f: f}
}
func (f *File) Unwrap() *real.File {
	if f == nil {
		return nil
	}
	return f.f
}

var (
	Stdin  = &File{f: real.Stdin}
	Stdout = &File{f: real.Stdout}
	Stderr = &File{f: real.Stderr}
)

func (f *File) name() string {
	if f == nil || f.f == nil {
		return ""
	}
	return f.f.Name()
}

func Open(name string) (*File, error) {
	ev := &Event{Kind: "open", Path: name}
	if err := pre(ev); err != nil {
		err = perr("open", name, err)
		post(ev, err)
		return nil, err
	}
	f, err := real.Open(name)
	post(ev, err)
	if err != nil {
		return nil, err
	}
	return &File{f: f}, nil
}

func OpenFile(name string, flag int, perm FileMode) (*File, error) {
	ev := &Event{Kind: "openfile", Path: name, Flag: flag}
	if err := pre(ev); err != nil {
		err = perr("open", name, err)
		post(ev, err)
		return nil, err
	}
	f, err := real.OpenFile(name, flag, perm)
	post(ev, err)
	if err != nil {
		return nil, err
	}
	return &File{f: f}, nil
}

func Create(name string) (*File, error) {
	ev := &Event{Kind: "create", Path: name, Flag: real.O_RDWR | real.O_CREATE | real.O_TRUNC}
	if err := pre(ev); err != nil {
		err = perr("open", name, err)
		post(ev, err)
		return nil, err
	}
	f, err := real.Create(name)
	post(ev, err)
	if err != nil {
		return nil, err
	}
	return &File{f: f}, nil
}

func CreateTemp(dir, pattern string) (*File, error) {
	d := dir
	if d == "" {
		d = TempDir()
	}
	ev := &Event{Kind: "createtemp", Path: d, Path2: pattern}
	if err := pre(ev); err != nil {
		err = perr("createtemp", d+"/"+pattern, err)
		post(ev, err)
		return nil, err
	}
	f, err := real.CreateTemp(d, pattern)
	if err == nil {
		ev.Path2 = f.Name()
	}
	post(ev, err)
	if err != nil {
		return nil, err
	}
	return &File{f: f}, nil
}

func NewFile(fd uintptr, name string) *File {
	f := real.NewFile(fd, name)
	if f == nil {
		return nil
	}
	return &File{f: f}
}

func Pipe() (r *File, w *File, err error) {
	rr, ww, err := real.Pipe()
	if err != nil {
		return nil, nil, err
	}
	return &File{f: rr}, &File{f: ww}, nil
}

func OpenInRoot(dir, name string) (*File, error) {
	f, err := real.OpenInRoot(dir, name)
	if err != nil {
		return nil, err
	}
	return &File{f: f}, nil
}

func simple(kind, op, path, path2 string, do func() error) error {
	ev := &Event{Kind: kind, Path: path, Path2: path2}
	if err := pre(ev); err != nil {
		if path2 != "" {
			err = &real.LinkError{Op: op, Old: path, New: path2, Err: err}
		} else {
			err = perr(op, path, err)
		}
		post(ev, err)
		return err
	}
	err := do()
	post(ev, err)
	return err
}

func Mkdir(name string, perm FileMode) error {
	return simple("mkdir", "mkdir", name, "", func() error { return real.Mkdir(name, perm) })
}
func MkdirAll(path string, perm FileMode) error {
	return simple("mkdirall", "mkdir", path, "", func() error { return real.MkdirAll(path, perm) })
}
func MkdirTemp(dir, pattern string) (string, error) {
	d := dir
	if d == "" {
		d = TempDir()
	}
	var out string
	ev := &Event{Kind: "mkdirtemp", Path: d, Path2: pattern}
	if err := pre(ev); err != nil {
		err = perr("mkdirtemp", d+"/"+pattern, err)
		post(ev, err)
		return "", err
	}
	out, err := real.MkdirTemp(d, pattern)
	if err == nil {
		ev.Path2 = out
	}
	post(ev, err)
	return out, err
}
func Rename(oldpath, newpath string) error {
	return simple("rename", "rename", oldpath, newpath, func() error { return real.Rename(oldpath, newpath) })
}
func Remove(name string) error {
	return simple("remove", "remove", name, "", func() error { return real.Remove(name) })
}
func RemoveAll(path string) error {
	return simple("removeall", "unlinkat", path, "", func() error { return real.RemoveAll(path) })
}
func Link(oldname, newname string) error {
	return simple("link", "link", oldname, newname, func() error { return real.Link(oldname, newname) })
}
func Symlink(oldname, newname string) error {
	return simple("symlink", "symlink", oldname, newname, func() error { return real.Symlink(oldname, newname) })
}
func Chmod(name string, mode FileMode) error {
	return simple("chmod", "chmod", name, "", func() error { return real.Chmod(name, mode) })
}
func Truncate(name string, size int64) error {
	return simple("truncate", "truncate", name, "", func() error { return real.Truncate(name, size) })
}

func Stat(name string) (FileInfo, error) {
	var fi FileInfo
	err := simple("stat", "stat", name, "", func() (e error) { fi, e = real.Stat(name); return })
	return fi, err
}
func Lstat(name string) (FileInfo, error) {
	var fi FileInfo
	err := simple("lstat", "lstat", name, "", func() (e error) { fi, e = real.Lstat(name); return })
	return fi, err
}
func ReadDir(name string) ([]DirEntry, error) {
	var es []DirEntry
	err := simple("readdir", "open", name, "", func() (e error) { es, e = real.ReadDir(name); return })
	return es, err
}

// ReadFile / WriteFile are decomposed into open, read/write, close events.
func ReadFile(name string) ([]byte, error) {
	f, err := Open(name)
	if err != nil {
		return nil, err
	}
	b, err := io.ReadAll(f)
	cerr := f.Close()
	if err != nil {
		return nil, err
	}
	if cerr != nil {
		return nil, cerr
	}
	return b, nil
}

func WriteFile(name string, data []byte, perm FileMode) error {
	f, err := OpenFile(name, real.O_WRONLY|real.O_CREATE|real.O_TRUNC, perm)
	if err != nil {
		return err
	}
	_, err = f.Write(data)
	if err1 := f.Close(); err1 != nil && err == nil {
		err = err1
	}
	return err
}

func UserConfigDir() (string, error) {
	if ConfigDirOverride != "" {
		return ConfigDirOverride, nil
	}
	return real.UserConfigDir()
}

func TempDir() string {
	if TempDirOverride != "" {
		return TempDirOverride
	}
	return real.TempDir()
}

// ---- File methods (all written out; no embedding) ----

func (f *File) Name() string { return f.f.Name() }
func (f *File) Fd() uintptr  { return f.f.Fd() }

func (f *File) Close() error {
	if f == nil {
		return real.ErrInvalid
	}
	ev := &Event{Kind: "close", Path: f.name()}
	if err := pre(ev); err != nil {
		// a failing close still releases the descriptor (as on Linux)
		f.f.Close()
		err = perr("close", f.name(), err)
		post(ev, err)
		return err
	}
	err := f.f.Close()
	post(ev, err)
	return err
}

func (f *File) Read(b []byte) (int, error) {
	if f == nil {
		return 0, real.ErrInvalid
	}
	ev := &Event{Kind: "read", Path: f.name(), N: len(b)}
	if err := pre(ev); err != nil {
		err = perr("read", f.name(), err)
		post(ev, err)
		return 0, err
	}
	n, err := f.f.Read(b)
	ev.N = n
	post(ev, err)
	return n, err
}

func (f *File) ReadAt(b []byte, off int64) (int, error) {
	if f == nil {
		return 0, real.ErrInvalid
	}
	ev := &Event{Kind: "readat", Path: f.name(), N: len(b)}
	if err := pre(ev); err != nil {
		err = perr("read", f.name(), err)
		post(ev, err)
		return 0, err
	}
	n, err := f.f.ReadAt(b, off)
	ev.N = n
	post(ev, err)
	return n, err
}

func (f *File) Seek(offset int64, whence int) (int64, error) {
	if f == nil {
		return 0, real.ErrInvalid
	}
	ev := &Event{Kind: "seek", Path: f.name()}
	if err := pre(ev); err != nil {
		err = perr("seek", f.name(), err)
		post(ev, err)
		return 0, err
	}
	n, err := f.f.Seek(offset, whence)
	post(ev, err)
	return n, err
}

func (f *File) write(kind string, b []byte, do func([]byte, int64) (int, error)) (int, error) {
	if f == nil {
		return 0, real.ErrInvalid
	}
	ev := &Event{Kind: kind, Path: f.name(), N: len(b), Data: b}
	err := pre(ev)
	ev.Data = nil
	if err != nil {
		n := 0
		if ev.Short > 0 && ev.Short < len(b) {
			n, _ = do(b[:ev.Short], 0)
		}
		err = perr("write", f.name(), err)
		post(ev, err)
		return n, err
	}
	if ev.Split > 0 && ev.Split < len(b) && Mid != nil {
		n, err := do(b[:ev.Split], 0)
		if err != nil {
			post(ev, err)
			return n, err
		}
		Mid(ev)
		m, err := do(b[ev.Split:], int64(ev.Split))
		post(ev, err)
		return n + m, err
	}
	n, err := do(b, 0)
	post(ev, err)
	return n, err
}

func (f *File) Write(b []byte) (int, error) {
	return f.write("write", b, func(p []byte, _ int64) (int, error) { return f.f.Write(p) })
}
func (f *File) WriteString(s string) (int, error) { return f.Write([]byte(s)) }
func (f *File) WriteAt(b []byte, off int64) (int, error) {
	return f.write("writeat", b, func(p []byte, d int64) (int, error) { return f.f.WriteAt(p, off+d) })
}

type writerOnly struct{ w io.Writer }

func (w writerOnly) Write(p []byte) (int, error) { return w.w.Write(p) }

type readerOnly struct{ r io.Reader }

func (r readerOnly) Read(p []byte) (int, error) { return r.r.Read(p) }

// ReadFrom / WriteTo go through Write / Read so that io.Copy fast paths are intercepted too.
func (f *File) ReadFrom(r io.Reader) (int64, error) { return io.Copy(writerOnly{f}, r) }
func (f *File) WriteTo(w io.Writer) (int64, error)  { return io.Copy(w, readerOnly{f}) }

func (f *File) Sync() error {
	if f == nil {
		return real.ErrInvalid
	}
	ev := &Event{Kind: "sync", Path: f.name()}
	if Before != nil {
		if fi, err := f.f.Stat(); err == nil && fi.IsDir() {
			ev.IsDir = true
			ev.Kind = "syncdir"
		}
	}
	if err := pre(ev); err != nil {
		err = perr("sync", f.name(), err)
		post(ev, err)
		return err
	}
	var err error
	if !SkipRealSync {
		err = f.f.Sync()
	}
	post(ev, err)
	return err
}
func (f *File) Chmod(mode FileMode) error {
	if f == nil {
		return real.ErrInvalid
	}
	return simple("fchmod", "chmod", f.name(), "", func() error { return f.f.Chmod(mode) })
}
func (f *File) Truncate(size int64) error {
	if f == nil {
		return real.ErrInvalid
	}
	return simple("ftruncate", "truncate", f.name(), "", func() error { return f.f.Truncate(size) })
}
func (f *File) Stat() (FileInfo, error) {
	if f == nil {
		return nil, real.ErrInvalid
	}
	var fi FileInfo
	err := simple("fstat", "stat", f.name(), "", func() (e error) { fi, e = f.f.Stat(); return })
	return fi, err
}
func (f *File) ReadDir(n int) ([]DirEntry, error) {
	if f == nil {
		return nil, real.ErrInvalid
	}
	var es []DirEntry
	err := simple("readdir", "readdirent", f.name(), "", func() (e error) { es, e = f.f.ReadDir(n); return })
	return es, err
}
func (f *File) Readdir(n int) ([]FileInfo, error)        { return f.f.Readdir(n) }
func (f *File) Readdirnames(n int) ([]string, error)     { return f.f.Readdirnames(n) }
func (f *File) Chdir() error                             { return f.f.Chdir() }
func (f *File) Chown(uid, gid int) error                 { return f.f.Chown(uid, gid) }
func (f *File) SetDeadline(t time.Time) error            { return f.f.SetDeadline(t) }
func (f *File) SetReadDeadline(t time.Time) error        { return f.f.SetReadDeadline(t) }
func (f *File) SetWriteDeadline(t time.Time) error       { return f.f.SetWriteDeadline(t) }
func (f *File) SyscallConn() (syscall.RawConn, error)    { return f.f.SyscallConn() }
