# sourced by every script: offline Go environment (toolchain 1.25.0 is selected from go.mod)
export GOFLAGS=-mod=mod GOPROXY=off
unset GOTOOLCHAIN GOSUMDB
export VERIF_DIR=${VERIF_DIR:-/verif} REPO_DIR=${REPO_DIR:-/repo}
export GOCACHE=${GOCACHE:-$HOME/.cache/go-build}
