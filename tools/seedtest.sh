#!/bin/bash
# tools/seedtest.sh <patch.diff> <check id>... : apply a seeded change to /repo, run the quick checks, undo.
patch=$1; shift
cd /repo || exit 2
if [ -n "$(git status --porcelain --untracked-files=no)" ]; then echo "repo not clean"; exit 2; fi
git apply "$patch" || { echo "patch does not apply"; exit 2; }
trap 'git -C /repo checkout -- . ; git -C /repo clean -fdq -- pkg cmd internal 2>/dev/null' EXIT
for id in "$@"; do
  out=$(/verif/bin/check $id ${TIER:-quick} 2>&1); rc=$?
  echo "== $id rc=$rc"; echo "$out" | grep -E 'VIOLATION|violation key|HARNESS' | head -6
done
