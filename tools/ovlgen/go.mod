module verif/ovlgen

go 1.25.0
