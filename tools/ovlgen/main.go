// ovlgen builds the `go build -overlay` description that binds the explorers to the
// current /repo working tree without touching it:
//
//  1. generates shim packages (virtual packages github.com/pdfcpu/pdfcpu/vx/<name>) that
//     re-export the complete exported API of a standard package; hand-written core files
//     (from /verif/shim/<name>) replace the intercepted subset;
//  2. rewrites, in every non-test .go file of the repository, the imports of the shadowed
//     standard packages into imports of the shims (bodies byte-identical, line numbers kept);
//  3. adds the per-package export files (/verif/export/<pkg path with _>.go) as
//     zz_verif_export.go of that package.
//
// usage: ovlgen -repo /repo -verif /verif -out /verif/.work/ovl-<flavour> -rewrite os,time,...
package main

import (
	"bytes"
	"encoding/json"
	"flag"
	"fmt"
	"go/ast"
	"go/build"
	"go/importer"
	"go/parser"
	"go/printer"
	"go/token"
	"go/types"
	"os"
	"os/exec"
	"path/filepath"
	"sort"
	"strconv"
	"strings"
)

const modPath = "github.com/pdfcpu/pdfcpu"

// shim name -> shadowed std package
var shims = map[string]string{
	"vos":     "os",
	"vtime":   "time",
	"vrand":   "crypto/rand",
	"vsync":   "sync",
	"vatomic": "sync/atomic",
	"vnet":    "net",
	"vsched":  "", // the cooperative scheduler behind vsync/vatomic: hand-written only
}

func die(f string, a ...any) {
	fmt.Fprintf(os.Stderr, "ovlgen: "+f+"\n", a...)
	os.Exit(2)
}

func main() {
	repo := flag.String("repo", "/repo", "")
	verif := flag.String("verif", "/verif", "")
	out := flag.String("out", "", "")
	rewrite := flag.String("rewrite", "", "comma separated std packages whose imports are rewritten")
	flag.Parse()
	if *out == "" {
		die("-out required")
	}
	rw := map[string]string{} // std path -> shim import path
	for _, p := range strings.Split(*rewrite, ",") {
		p = strings.TrimSpace(p)
		if p == "" {
			continue
		}
		found := false
		for s, std := range shims {
			if std == p && std != "" {
				rw[p] = modPath + "/vx/" + s
				found = true
			}
		}
		if !found {
			die("no shim for %q", p)
		}
	}
	os.RemoveAll(*out)
	if err := os.MkdirAll(*out, 0o755); err != nil {
		die("%v", err)
	}
	replace := map[string]string{}

	// 1. shim packages (always present so that the harness compiles in every flavour).
	goroot := strings.TrimSpace(run(*repo, "go", "env", "GOROOT"))
	build.Default.GOROOT = goroot
	names := make([]string, 0, len(shims))
	for s := range shims {
		names = append(names, s)
	}
	sort.Strings(names)
	for _, s := range names {
		dir := filepath.Join(*out, "vx", s)
		os.MkdirAll(dir, 0o755)
		skip := map[string]bool{}
		cores, _ := filepath.Glob(filepath.Join(*verif, "shim", s, "*.go"))
		for _, c := range cores {
			b, err := os.ReadFile(c)
			if err != nil {
				die("%v", err)
			}
			dst := filepath.Join(dir, filepath.Base(c))
			os.WriteFile(dst, b, 0o644)
			replace[filepath.Join(*repo, "vx", s, filepath.Base(c))] = dst
			for _, n := range declaredNames(c, b) {
				skip[n] = true
			}
		}
		if shims[s] == "" {
			continue
		}
		gen := genShim(shims[s], skip)
		dst := filepath.Join(dir, "zz_gen.go")
		os.WriteFile(dst, gen, 0o644)
		replace[filepath.Join(*repo, "vx", s, "zz_gen.go")] = dst
	}

	// 1b. width-scaled copies of safemath (C42): int/int64 -> int8 / int16.
	for _, w := range []string{"8", "16"} {
		src, err := os.ReadFile(filepath.Join(*repo, "pkg/pdfcpu/safemath/int.go"))
		var gen []byte
		if err == nil {
			gen, err = scaleWidth(src, w)
		}
		if err == nil {
			err = typeCheck("safemath"+w, gen)
		}
		if err != nil {
			// not derivable (the source uses a construct the width substitution does not understand): a stub
			// with the same entry points, so that everything still builds and C42 can say what happened.
			gen = []byte("package safemath" + w + "\n\nimport \"errors\"\n\nconst GenError = " + fmt.Sprintf("%q", err.Error()) + "\n\n" +
				"var errStub = errors.New(GenError)\n\n" +
				"func AddInt(a, b int" + w + ") (int" + w + ", error) { return 0, errStub }\n" +
				"func MultiplyInt(a, b int" + w + ") (int" + w + ", error) { return 0, errStub }\n" +
				"func MultiplyInt64(a, b int" + w + ") (int" + w + ", error) { return 0, errStub }\n")
		}
		dir := filepath.Join(*out, "vx", "safemath"+w)
		os.MkdirAll(dir, 0o755)
		dst := filepath.Join(dir, "int.go")
		os.WriteFile(dst, gen, 0o644)
		replace[filepath.Join(*repo, "vx", "safemath"+w, "int.go")] = dst
	}

	// 2. import rewriting over the current working tree.
	nrew := 0
	if len(rw) > 0 {
		filepath.Walk(*repo, func(p string, info os.FileInfo, err error) error {
			if err != nil {
				return nil
			}
			if info.IsDir() {
				b := filepath.Base(p)
				if b == ".git" || b == "testdata" || b == "vx" || (strings.HasPrefix(b, "_") && p != *repo) {
					return filepath.SkipDir
				}
				return nil
			}
			if !strings.HasSuffix(p, ".go") || strings.HasSuffix(p, "_test.go") {
				return nil
			}
			src, err := os.ReadFile(p)
			if err != nil {
				return nil
			}
			nsrc, changed := rewriteImports(p, src, rw)
			if !changed {
				return nil
			}
			rel, _ := filepath.Rel(*repo, p)
			dst := filepath.Join(*out, "src", rel)
			os.MkdirAll(filepath.Dir(dst), 0o755)
			os.WriteFile(dst, nsrc, 0o644)
			replace[p] = dst
			nrew++
			return nil
		})
	}

	// 3. export files.
	exps, _ := filepath.Glob(filepath.Join(*verif, "export", "*.go"))
	for _, e := range exps {
		base := strings.TrimSuffix(filepath.Base(e), ".go")
		pkgRel := strings.ReplaceAll(base, "__", "/")
		pkgDir := filepath.Join(*repo, pkgRel)
		if st, err := os.Stat(pkgDir); err != nil || !st.IsDir() {
			die("export file %s: no package directory %s", e, pkgDir)
		}
		b, _ := os.ReadFile(e)
		if len(rw) > 0 {
			b, _ = rewriteImports(e, b, rw)
		}
		dst := filepath.Join(*out, "export", base+".go")
		os.MkdirAll(filepath.Dir(dst), 0o755)
		os.WriteFile(dst, b, 0o644)
		replace[filepath.Join(pkgDir, "zz_verif_export.go")] = dst
	}

	// 4. generated state reset (C40): every file-scope variable of the listed files gets its declared
	// initial value back, so that each explored execution starts from the package's initial state,
	// whatever variables the current working tree declares there.
	for _, rs := range []struct {
		pkg   string
		files []string // nil = all non-test files
	}{{"pkg/font", nil}, {"pkg/pdfcpu", []string{"certificate.go"}}, {"pkg/pdfcpu/model", []string{"certificate.go"}}} {
		gen, err := genReset(filepath.Join(*repo, rs.pkg), rs.files)
		if err != nil {
			die("reset %s: %v", rs.pkg, err)
		}
		if len(rw) > 0 {
			gen, _ = rewriteImports("zz_verif_reset.go", gen, rw)
		}
		dst := filepath.Join(*out, "reset", strings.ReplaceAll(rs.pkg, "/", "__")+".go")
		os.MkdirAll(filepath.Dir(dst), 0o755)
		os.WriteFile(dst, gen, 0o644)
		replace[filepath.Join(*repo, rs.pkg, "zz_verif_reset.go")] = dst
	}

	js, _ := json.MarshalIndent(map[string]any{"Replace": replace}, "", " ")
	if err := os.WriteFile(filepath.Join(*out, "overlay.json"), js, 0o644); err != nil {
		die("%v", err)
	}
	fmt.Printf("ovlgen: %d files rewritten, %d export files, %d shim packages -> %s\n", nrew, len(exps), len(shims), *out)
}

// genReset emits VerifResetGenerated() for a package directory: an assignment of the declared initial
// value to every file-scope variable whose initialiser is absent or cheap and side-effect free
// (empty composite literal, &T{}, make, basic literal). Error sentinels and tables are left alone.
func genReset(dir string, only []string) ([]byte, error) {
	fset := token.NewFileSet()
	ents, err := os.ReadDir(dir)
	if err != nil {
		return nil, err
	}
	pkgName := ""
	var body bytes.Buffer
	imports := map[string]string{} // name -> path
	used := map[string]bool{}
	for _, e := range ents {
		n := e.Name()
		if !strings.HasSuffix(n, ".go") || strings.HasSuffix(n, "_test.go") || strings.HasPrefix(n, "zz_verif") {
			continue
		}
		if only != nil {
			ok := false
			for _, o := range only {
				if o == n {
					ok = true
				}
			}
			if !ok {
				continue
			}
		}
		src, err := os.ReadFile(filepath.Join(dir, n))
		if err != nil {
			return nil, err
		}
		f, err := parser.ParseFile(fset, n, src, parser.SkipObjectResolution)
		if err != nil {
			return nil, err
		}
		if f.Name.Name != "" && pkgName == "" {
			pkgName = f.Name.Name
		}
		if strings.Contains(string(src[:bytes.Index(src, []byte("package "))+1]), "//go:build") {
			continue // platform specific files are left alone
		}
		for _, is := range f.Imports {
			p := strings.Trim(is.Path.Value, "\"`")
			name := p[strings.LastIndex(p, "/")+1:]
			if is.Name != nil {
				name = is.Name.Name
			}
			imports[name] = p
		}
		text := func(nd ast.Node) string {
			return string(src[fset.Position(nd.Pos()).Offset:fset.Position(nd.End()).Offset])
		}
		cheap := func(x ast.Expr) bool {
			switch v := x.(type) {
			case *ast.BasicLit:
				return true
			case *ast.CompositeLit:
				return len(v.Elts) == 0
			case *ast.UnaryExpr:
				if cl, ok := v.X.(*ast.CompositeLit); ok && v.Op == token.AND {
					return len(cl.Elts) == 0
				}
			case *ast.CallExpr:
				if id, ok := v.Fun.(*ast.Ident); ok && id.Name == "make" {
					return true
				}
			case *ast.Ident:
				return v.Name == "nil" || v.Name == "true" || v.Name == "false"
			}
			return false
		}
		note := func(nd ast.Node) {
			ast.Inspect(nd, func(x ast.Node) bool {
				if se, ok := x.(*ast.SelectorExpr); ok {
					if id, ok := se.X.(*ast.Ident); ok {
						used[id.Name] = true
					}
				}
				return true
			})
		}
		for _, d := range f.Decls {
			gd, ok := d.(*ast.GenDecl)
			if !ok || gd.Tok != token.VAR {
				continue
			}
			for _, sp := range gd.Specs {
				vs := sp.(*ast.ValueSpec)
				for i, name := range vs.Names {
					if name.Name == "_" {
						continue
					}
					switch {
					case len(vs.Values) == 0 && vs.Type != nil:
						fmt.Fprintf(&body, "\t%s = *new(%s)\n", name.Name, text(vs.Type))
						note(vs.Type)
					case len(vs.Values) == len(vs.Names) && cheap(vs.Values[i]):
						fmt.Fprintf(&body, "\t%s = %s\n", name.Name, text(vs.Values[i]))
						note(vs.Values[i])
					}
				}
			}
		}
	}
	var b bytes.Buffer
	fmt.Fprintf(&b, "//go:build verif\n\npackage %s\n\n", pkgName)
	var names []string
	for n := range used {
		if _, ok := imports[n]; ok {
			names = append(names, n)
		}
	}
	sort.Strings(names)
	if len(names) > 0 {
		b.WriteString("import (\n")
		for _, n := range names {
			fmt.Fprintf(&b, "\t%s %q\n", n, imports[n])
		}
		b.WriteString(")\n\n")
	}
	b.WriteString("// VerifResetGenerated gives every resettable file-scope variable its declared initial value back.\nfunc VerifResetGenerated() {\n")
	b.Write(body.Bytes())
	b.WriteString("}\n")
	return b.Bytes(), nil
}

func run(dir string, name string, args ...string) string {
	c := exec.Command(name, args...)
	c.Dir = dir
	c.Stderr = os.Stderr
	b, err := c.Output()
	if err != nil {
		die("%s %v: %v", name, args, err)
	}
	return string(b)
}

// scaleWidth rewrites safemath/int.go to a narrower integer width by AST substitution.
func scaleWidth(src []byte, w string) ([]byte, error) {
	fset := token.NewFileSet()
	f, err := parser.ParseFile(fset, "int.go", src, 0)
	if err != nil {
		return nil, err
	}
	f.Name.Name = "safemath" + w
	scaledConsts := map[string]int{}
	scaledLits := map[*ast.BasicLit]bool{}
	var unscalable []string
	usesW := false
	ast.Inspect(f, func(n ast.Node) bool {
		switch x := n.(type) {
		case *ast.Ident:
			if x.Name == "int" || x.Name == "int64" || x.Name == "int32" {
				x.Name = "int" + w
			}
		case *ast.BinaryExpr:
			// shift counts that are fractions of the 64-bit width keep their fraction
			if x.Op == token.SHL || x.Op == token.SHR {
				if lit, ok := x.Y.(*ast.BasicLit); ok && lit.Kind == token.INT {
					bits, _ := strconv.Atoi(w)
					n, _ := strconv.Atoi(lit.Value)
					m := map[int]int{64: bits, 63: bits - 1, 62: bits - 2, 32: bits / 2, 31: bits/2 - 1, 33: bits/2 + 1, 16: bits / 4, 15: bits/4 - 1, 8: bits / 8}
					if v, ok := m[n]; ok {
						lit.Value = strconv.Itoa(v)
						scaledLits[lit] = true
					}
				}
			}
		case *ast.BasicLit:
			if x.Kind == token.INT && !scaledLits[x] {
				if n, err := strconv.ParseInt(x.Value, 0, 64); err != nil || n >= 8 {
					unscalable = append(unscalable, "integer literal "+x.Value)
				}
			}
		case *ast.SelectorExpr:
			if id, ok := x.X.(*ast.Ident); ok && id.Name == "bits" {
				if x.Sel.Name == "UintSize" {
					id.Name, x.Sel.Name = "scaled", "W"
					usesW = true
				} else {
					unscalable = append(unscalable, "bits."+x.Sel.Name)
				}
			}
			if id, ok := x.X.(*ast.Ident); ok && id.Name == "math" {
				switch x.Sel.Name {
				case "MaxInt", "MaxInt64", "MaxInt32":
					x.Sel.Name = "MaxInt" + w
				case "MinInt", "MinInt64", "MinInt32":
					x.Sel.Name = "MinInt" + w
				case "MaxUint", "MaxUint64":
					x.Sel.Name = "MaxUint" + w
				case "MaxUint32", "MaxUint16", "MaxUint8":
					// a fraction of the 64-bit width: keep the fraction (MaxUint32 = half the bits)
					bits, _ := strconv.Atoi(w)
					frac := map[string]int{"MaxUint32": 2, "MaxUint16": 4, "MaxUint8": 8}[x.Sel.Name]
					id.Name, x.Sel.Name = "scaled", fmt.Sprintf("U%d", bits/frac)
					scaledConsts[fmt.Sprintf("U%d", bits/frac)] = bits / frac
				}
			}
		}
		return true
	})
	if len(unscalable) > 0 {
		return nil, fmt.Errorf("width substitution does not understand: %s", strings.Join(unscalable, ", "))
	}
	var b bytes.Buffer
	if err := printer.Fprint(&b, fset, f); err != nil {
		return nil, err
	}
	b.WriteString("\nconst GenError = \"\"\n")
	out := b.String()
	if usesW {
		out = strings.ReplaceAll(out, "scaled.W", w)
		out = strings.ReplaceAll(out, "\t\"math/bits\"\n", "")
	}
	// scaled.U<k> -> (1<<k - 1)
	for name, bits := range scaledConsts {
		out = strings.ReplaceAll(out, "scaled."+name, fmt.Sprintf("(1<<%d - 1)", bits))
	}
	return []byte(out), nil
}

// typeCheck compiles one generated file in isolation (standard library imports only).
func typeCheck(pkg string, src []byte) error {
	fset := token.NewFileSet()
	f, err := parser.ParseFile(fset, pkg+".go", src, 0)
	if err != nil {
		return err
	}
	conf := types.Config{Importer: importer.ForCompiler(fset, "source", nil)}
	_, err = conf.Check(pkg, fset, []*ast.File{f}, nil)
	return err
}

// declaredNames lists the exported top-level identifiers of a hand-written core file.
func declaredNames(name string, src []byte) []string {
	fset := token.NewFileSet()
	f, err := parser.ParseFile(fset, name, src, 0)
	if err != nil {
		die("parse %s: %v", name, err)
	}
	var out []string
	for _, d := range f.Decls {
		switch d := d.(type) {
		case *ast.FuncDecl:
			if d.Recv == nil {
				out = append(out, d.Name.Name)
			}
		case *ast.GenDecl:
			for _, s := range d.Specs {
				switch s := s.(type) {
				case *ast.TypeSpec:
					out = append(out, s.Name.Name)
				case *ast.ValueSpec:
					for _, n := range s.Names {
						out = append(out, n.Name)
					}
				}
			}
		}
	}
	return out
}

// rewriteImports replaces import paths in place (same line count).
func rewriteImports(name string, src []byte, rw map[string]string) ([]byte, bool) {
	fset := token.NewFileSet()
	f, err := parser.ParseFile(fset, name, src, parser.ImportsOnly)
	if err != nil {
		return src, false
	}
	type edit struct {
		from, to int
		text     string
	}
	var edits []edit
	for _, is := range f.Imports {
		p := strings.Trim(is.Path.Value, "\"`")
		np, ok := rw[p]
		if !ok {
			continue
		}
		start := fset.Position(is.Path.Pos()).Offset
		end := fset.Position(is.Path.End()).Offset
		text := `"` + np + `"`
		if is.Name == nil {
			base := p[strings.LastIndex(p, "/")+1:]
			text = base + " " + text
		}
		edits = append(edits, edit{start, end, text})
	}
	if len(edits) == 0 {
		return src, false
	}
	sort.Slice(edits, func(i, j int) bool { return edits[i].from > edits[j].from })
	out := append([]byte{}, src...)
	for _, e := range edits {
		out = append(out[:e.from], append([]byte(e.text), out[e.to:]...)...)
	}
	return out, true
}

// genShim emits pass-through declarations for every exported object of std that is not in skip.
func genShim(std string, skip map[string]bool) []byte {
	fset := token.NewFileSet()
	imp := importer.ForCompiler(fset, "source", nil)
	pkg, err := imp.Import(std)
	if err != nil {
		die("import %s: %v", std, err)
	}
	var b bytes.Buffer
	imports := map[string]string{} // path -> local name
	qual := func(p *types.Package) string {
		if p.Path() == std {
			return "real"
		}
		n, ok := imports[p.Path()]
		if !ok {
			n = "p_" + strings.NewReplacer("/", "_", ".", "_", "-", "_").Replace(p.Path())
			imports[p.Path()] = n
		}
		return n
	}
	var body bytes.Buffer
	scope := pkg.Scope()
	for _, name := range scope.Names() {
		if !token.IsExported(name) || skip[name] {
			continue
		}
		obj := scope.Lookup(name)
		switch o := obj.(type) {
		case *types.Const:
			fmt.Fprintf(&body, "const %s = real.%s\n", name, name)
		case *types.Var:
			// pointer-free re-export: value copy at init. Vars that are reassigned by
			// callers need a hand-written core declaration.
			fmt.Fprintf(&body, "var %s = real.%s\n", name, name)
		case *types.TypeName:
			tp := ""
			targs := ""
			if named, ok := o.Type().(*types.Named); ok && named.TypeParams().Len() > 0 {
				var ps, as []string
				for i := 0; i < named.TypeParams().Len(); i++ {
					p := named.TypeParams().At(i)
					ps = append(ps, p.Obj().Name()+" "+types.TypeString(p.Constraint(), qual))
					as = append(as, p.Obj().Name())
				}
				tp = "[" + strings.Join(ps, ", ") + "]"
				targs = "[" + strings.Join(as, ", ") + "]"
			}
			fmt.Fprintf(&body, "type %s%s = real.%s%s\n", name, tp, name, targs)
		case *types.Func:
			sig := o.Type().(*types.Signature)
			var tps, tas []string
			for i := 0; i < sig.TypeParams().Len(); i++ {
				p := sig.TypeParams().At(i)
				tps = append(tps, p.Obj().Name()+" "+types.TypeString(p.Constraint(), qual))
				tas = append(tas, p.Obj().Name())
			}
			var ps, as []string
			for i := 0; i < sig.Params().Len(); i++ {
				p := sig.Params().At(i)
				pn := fmt.Sprintf("a%d", i)
				ts := types.TypeString(p.Type(), qual)
				if sig.Variadic() && i == sig.Params().Len()-1 {
					ts = "..." + types.TypeString(p.Type().(*types.Slice).Elem(), qual)
					as = append(as, pn+"...")
				} else {
					as = append(as, pn)
				}
				ps = append(ps, pn+" "+ts)
			}
			var rs []string
			for i := 0; i < sig.Results().Len(); i++ {
				rs = append(rs, types.TypeString(sig.Results().At(i).Type(), qual))
			}
			res := ""
			if len(rs) == 1 {
				res = " " + rs[0]
			} else if len(rs) > 1 {
				res = " (" + strings.Join(rs, ", ") + ")"
			}
			tpl := ""
			if len(tps) > 0 {
				tpl = "[" + strings.Join(tps, ", ") + "]"
			}
			ret := "return "
			if len(rs) == 0 {
				ret = ""
			}
			fmt.Fprintf(&body, "func %s%s(%s)%s { %sreal.%s(%s) }\n", name, tpl, strings.Join(ps, ", "), res, ret, name, strings.Join(as, ", "))
		}
	}
	if !bytes.Contains(body.Bytes(), []byte("real.")) {
		for _, name := range scope.Names() {
			if _, ok := scope.Lookup(name).(*types.Func); ok && token.IsExported(name) {
				fmt.Fprintf(&body, "var _ = real.%s\n", name)
				break
			}
		}
	}
	base := std[strings.LastIndex(std, "/")+1:]
	fmt.Fprintf(&b, "// Code generated by ovlgen; DO NOT EDIT.\n\npackage %s\n\nimport (\n\treal %q\n", base, std)
	var ips []string
	for p := range imports {
		ips = append(ips, p)
	}
	sort.Strings(ips)
	for _, p := range ips {
		fmt.Fprintf(&b, "\t%s %q\n", imports[p], p)
	}
	fmt.Fprintf(&b, ")\n\n")
	b.Write(body.Bytes())
	return b.Bytes()
}
