#!/bin/bash
# tools/seedverify.sh <id>... : independently confirm a sub-agent's seeded change in its scratch worktree:
#   applies to current /repo HEAD, builds, existing suite unchanged, demo fails with / passes without.
# On success stores it under /verif/seeded/<id>/ and removes the worktree.
export GOFLAGS=-mod=mod GOPROXY=off
HEAD=$(git -C /repo rev-parse HEAD)
for id in "$@"; do
  wt=/tmp/seed/$id; out=/tmp/seed/$id.out; log=/tmp/seed/$id.verify.log
  : > $log
  say() { echo "[$id] $*" | tee -a $log; }
  [ -f $out/patch.diff ] || { say "no patch"; continue; }
  cd $wt || { say "no worktree"; continue; }
  git checkout -q -- . ; git clean -fdq ; git checkout -q --detach $HEAD || { say "cannot checkout HEAD"; continue; }
  git apply $out/patch.diff || { say "FAIL patch does not apply to current HEAD"; continue; }
  go build ./... >>$log 2>&1 || { say "FAIL build"; continue; }
  go test -vet=off -count=1 -timeout 25m ./... > $wt.suite.log 2>&1
  fails=$(grep -E '^--- FAIL' $wt.suite.log | awk '{print $3}' | sort -u | tr '\n' ' ')
  pk=$(grep -E '^FAIL\s' $wt.suite.log | awk '{print $2}' | sort -u | tr '\n' ' ')
  say "suite failing tests: $fails| failing pkgs: $pk"
  # re-run unexpected failures alone (load-sensitive deadline tests)
  bad=""
  for t in $fails; do
    [ "$t" = "TestReadTIFFWritePNG" ] && continue
    p=$(grep -B200 -- "--- FAIL: $t" $wt.suite.log | grep -E '^(ok|FAIL|---)' | tail -1 >/dev/null; grep -l "func $t(" -r pkg cmd internal --include=*_test.go | head -1 | xargs dirname)
    if go test -vet=off -count=1 -run "^$t\$" ./$p >>$log 2>&1; then say "  $t passes when re-run alone (load flake)"; else bad="$bad $t"; fi
  done
  [ -n "$bad" ] && { say "FAIL suite: $bad"; continue; }
  # demo
  if [ -f $out/demo/cmd.sh ]; then cmds=$(cat $out/demo/cmd.sh); else
  cmds=$(sed -e ':a' -e '/\\$/N; s/\\\n//; ta' $out/demo/RUN.md | awk '/^    [^ ]/{print substr($0,5)}' | grep -v 'git apply\|git stash\|git diff\|git checkout' ); fi
  say "demo commands: $(echo "$cmds" | tr '\n' ';')"
  ( set -e; eval "$cmds" ) > $wt.demo_with.log 2>&1; rc_with=$?
  git apply -R $out/patch.diff
  ( set -e; eval "$cmds" ) > $wt.demo_without.log 2>&1; rc_without=$?
  say "demo with change rc=$rc_with ; without rc=$rc_without"
  if [ $rc_with -ne 0 ] && [ $rc_without -eq 0 ]; then
    mkdir -p /verif/seeded/$id && cp -r $out/patch.diff $out/demo /verif/seeded/$id/ 2>/dev/null
    python3 - "$id" "$fails" "$pk" <<'PY'
import json,sys
i=sys.argv[1]
try: m=json.load(open(f'/tmp/seed/{i}.out/meta.json'))
except Exception: m={"property":i}
m["verified_by_main"]={"applies_to":"current /repo HEAD","build":"ok","suite_failing_tests":sys.argv[2].strip(),"suite_failing_pkgs":sys.argv[3].strip(),"baseline_note":"TestReadTIFFWritePNG and the TestMain aborts of pkg/api/test and pkg/cli/test (0-byte unifont fixtures) fail on the untouched tree as well","demo_with_change":"fails","demo_without_change":"passes"}
json.dump(m,open(f'/verif/seeded/{i}/meta.json','w'),indent=1)
PY
    say "VERIFIED -> /verif/seeded/$id"
    cd /; git -C /repo worktree remove --force $wt; rm -f $wt.suite.log $wt.demo_with.log $wt.demo_without.log
  else
    say "FAIL demo expectation"
  fi
done
