#!/usr/bin/env python3
# writes /tmp/seed/<id>.task.md : the brief for an independent seeding sub-agent (property text only)
import json, sys
props = {json.loads(l)['id']: json.loads(l) for l in open('/verif/properties.jsonl')}
for arg in sys.argv[1:]:
    # "C30" or "C30:b" (second round: directory C30b, property C30)
    pid, _, suf = arg.partition(':')
    i = pid + suf
    p = props[pid]
    open(f'/tmp/seed/{i}.task.md', 'w').write(f"""# Task: seed a realistic property-breaking change into pdfcpu

You work ONLY inside the git worktree `/tmp/seed/{i}` (a checkout of the pdfcpu Go library + CLI).
Never read or write `/repo` or `/verif`. Never use `git stash` (the stash is shared with other worktrees of the same repository): to test without your change use `git diff > /tmp/seed/{i}.out/patch.diff && git apply -R /tmp/seed/{i}.out/patch.diff`, and `git apply` it again afterwards. Work offline: every shell call needs
`export GOFLAGS=-mod=mod GOPROXY=off` (do NOT set GOTOOLCHAIN or GOSUMDB; the go.mod selects go 1.25.0 from the module cache).

## The property (id {pid}): {p['title']}

{p['statement']}

Scope of the quantifier: {p['quantifier']['text']}

## What to produce

A small source change to pdfcpu (non-test .go files only, typically 1-15 lines, one or two sites) that
**breaks this property** while
1. still compiling (`go build ./... && go vet ./pkg/... ` is not required, build is), and
2. still passing the ENTIRE existing test suite unchanged: `cd /tmp/seed/{i} && go test -vet=off -count=1 -timeout 25m ./... 2>&1 | tail -40`
   (on the untouched tree exactly one test fails already: `TestReadTIFFWritePNG` - ignore that one; every other test must still pass), and
3. looks like a plausible maintenance mistake or refactoring slip (not sabotage with an obviously named flag), and
4. **needs something specific to manifest** - a particular interleaving, a crash or fault at a particular
   point, a multi-step sequence of operations, an unusual input/boundary value, or two cooperating sites that each look fine alone.
   Do NOT produce a change that ordinary use would expose at once (e.g. every output file broken).

Also produce a **demonstration**: a Go test file (or small Go program) that FAILS with your change applied and PASSES on the
untouched tree, showing the property violation concretely. Put it somewhere it can be run from the worktree
(e.g. `pkg/api/seed_demo_test.go` or `cmd/seeddemo/main.go`); it is not part of the change itself.

## Deliverables (write these files)

- `/tmp/seed/{i}.out/patch.diff` : `git diff` of the source change ONLY (no demo files), applicable with `git apply` at the repository root.
- `/tmp/seed/{i}.out/demo/...` : the demonstration file(s), plus `/tmp/seed/{i}.out/demo/RUN.md` saying where to copy them and the exact command to run (absolute paths, no placeholders; each shell command on its own line indented by four spaces; do not include the commands that revert or re-apply the patch).
- `/tmp/seed/{i}.out/meta.json` : {{"property": "{pid}", "summary": "...what the change does...", "needs": "...what specific condition makes it manifest...", "files": [...], "suite": "the test-suite result you observed with the change", "demo_with": "demo result with change", "demo_without": "demo result without change"}}

Verify all of it yourself before finishing: suite passes with the change (except the one pre-existing failure), demo fails with it, demo passes
after `git stash`/reverting the source change. Leave the worktree with your change applied. Keep your final answer short: the summary, what it needs to manifest, and the verification results.
Note: the machine is shared; the tests TestReadLargeDictObject and TestReadLargeDictObjectStream in pkg/pdfcpu have a 10 s wall-clock deadline and may fail under load on the untouched tree too - re-run them alone before counting them; the packages pkg/api/test and pkg/cli/test abort in TestMain on the untouched tree too (empty font fixtures) - ignore them.
If your first idea is caught by the existing tests, pick a different one - the existing suite is large (4400 tests) and catches many obvious changes.
""")
    print(i)
