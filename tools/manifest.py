#!/usr/bin/env python3
"""Regenerates /verif/MANIFEST.json from tools/checks.json (one record per built check).
Every property without a record is listed under not_applicable with its reason from
tools/not_applicable.json (or a 'not built yet' placeholder)."""
import json, os, sys
V = os.path.dirname(os.path.dirname(os.path.abspath(__file__)))
props = [json.loads(l) for l in open(os.path.join(V, 'properties.jsonl'))]
checks = json.load(open(os.path.join(V, 'tools', 'checks.json')))
na_path = os.path.join(V, 'tools', 'not_applicable.json')
na = json.load(open(na_path)) if os.path.exists(na_path) else {}
out_checks, out_na = [], []
for p in props:
    i = p['id']
    c = checks.get(i)
    if not c:
        out_na.append({"property_id": i, "reason": na.get(i, "check not built yet in this session (planned in DESIGN.md section 4)")})
        continue
    e = {
        "property_id": i,
        "quick_cmd": f"bin/check {i} quick",
        "evidence_file": f"/verif/evidence/{i}.json",
        "replay_cmd_template": f"bin/check {i} quick --replay {{path}}",
        "engine": c.get("engine", "mc"),
        "level_claimed": {"category": c["level"], "text": c["text"], "design_ref": c.get("design_ref", f"DESIGN.md section 4, {i}")},
        "level_note": c["note"],
        "technique": c["technique"],
    }
    if c.get("thorough", True):
        e["thorough_cmd"] = f"bin/check {i} thorough"
    out_checks.append(e)
m = {
    "version": 1,
    "setup_cmd": "bin/setup",
    "hooks": {
        "guard": "verif",
        "enable": "no source changes in /repo: bin/build generates a `go build -overlay` (import rewriting to shim packages vx/* plus export files tagged //go:build verif) from the current working tree and builds the harness with -tags verif",
        "baseline_off_cmd": "cd /repo && go test -mod=mod -json -vet=off -count=1 -timeout 25m ./...",
        "source_commits": [],
        "add_only": True,
    },
    "engines": [
        {"name": "mc", "path": "/verif/mc", "serves_properties": sorted(checks.keys()),
         "kind_free_text": "hand-written bounded-exhaustive explorers (deviation-bounded fault/crash/cancellation enumeration, explicit-state BFS over the real step functions, small-scope exhaustive input enumeration, cooperative scheduler) bound to the code through an overlay build"},
    ],
    "checks": out_checks,
    "not_applicable": out_na,
    "notes": "See DESIGN.md. bin/check <id> <tier> regenerates the overlay from /repo's working tree, rebuilds and runs. Exit 0 held / only KNOWN-FINDING lines; 1 VIOLATION; 2 HARNESS-ERROR.",
}
json.dump(m, open(os.path.join(V, 'MANIFEST.json'), 'w'), indent=1)
print(f"MANIFEST.json: {len(out_checks)} checks, {len(out_na)} not claimed")
