//go:build verif

package model

// Export file added by the verification overlay (never part of the repository).

// VerifRevisionObject names the counter for traces.
func VerifRevisionObject() any { return &certificateStoreRevision }
