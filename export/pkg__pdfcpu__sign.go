//go:build verif

package sign

import (
	"crypto/x509"
	"net/http"
	"time"

	"github.com/pdfcpu/pdfcpu/pkg/pdfcpu/model"
)

// Export file added by the verification overlay (never part of the repository).

// VerifCheckCRL runs the real online CRL path (no archived CRLs).
func VerifCheckCRL(cert, issuer *x509.Certificate, conf *model.Configuration) (*model.RevocationDetails, error) {
	return checkCertAgainstCRL(cert, issuer, nil, nil, conf)
}

// VerifCheckOCSP runs the real online OCSP path (no archived responses).
func VerifCheckOCSP(cert, issuer *x509.Certificate, conf *model.Configuration) (*model.RevocationDetails, error) {
	return checkCertViaOCSP(cert, issuer, nil, nil, conf)
}

// VerifRevocationHTTPClient returns the client the CRL/OCSP fetch paths use.
func VerifRevocationHTTPClient(allowed []string) *http.Client {
	return revocationHTTPClient(3*time.Second, allowed)
}
