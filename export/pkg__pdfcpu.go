//go:build verif

package pdfcpu

import (
	"github.com/pdfcpu/pdfcpu/pkg/pdfcpu/model"
	"github.com/pdfcpu/pdfcpu/pkg/pdfcpu/types"
)

// Export file added by the verification overlay (never part of the repository).

func VerifAppendPDFObject(dst []byte, obj types.Object) ([]byte, error) {
	return appendPDFObject(dst, obj)
}

func VerifBookletOrdering(pages types.IntSet, nup *model.NUp) []model.BookletPage {
	return getBookletOrdering(pages, nup)
}

// VerifPermTable exposes pdfcpu's own classification of commands (extract, modify rights needed).
func VerifPermTable() map[model.CommandMode][2]int {
	out := map[model.CommandMode][2]int{}
	for k, v := range perm {
		out[k] = [2]int{v.extract, v.modify}
	}
	return out
}

// Crypto primitives (C22).
func VerifEncryptBytes(b []byte, objNr, genNr int, encKey []byte, needAES bool, r int) ([]byte, error) {
	return encryptBytes(b, objNr, genNr, encKey, needAES, r)
}
func VerifDecryptBytes(b []byte, objNr, genNr int, encKey []byte, needAES bool, r int) ([]byte, error) {
	return decryptBytes(b, objNr, genNr, encKey, needAES, r)
}
func VerifEncryptStream(b []byte, objNr, genNr int, encKey []byte, needAES bool, r int) ([]byte, error) {
	return encryptStream(b, objNr, genNr, encKey, needAES, r)
}
func VerifDecryptStream(b []byte, objNr, genNr int, encKey []byte, needAES bool, r int) ([]byte, error) {
	return decryptStream(b, objNr, genNr, encKey, needAES, r)
}
func VerifEncryptStringLiteral(sl types.StringLiteral, objNr, genNr int, key []byte, needAES bool, r int) (*types.StringLiteral, error) {
	return encryptStringLiteral(sl, objNr, genNr, key, needAES, r)
}
func VerifDecryptStringLiteral(sl types.StringLiteral, objNr, genNr int, key []byte, needAES bool, r int) (*types.StringLiteral, error) {
	return decryptStringLiteral(sl, objNr, genNr, key, needAES, r)
}

// Certificate pool cache (C40).
func VerifResetCertificatePool() {
	VerifResetGenerated()
	model.VerifResetGenerated()
}

// VerifUserCertificatePoolSubjects: the subjects of the pool in-flight calls would use, "" when none.
func VerifUserCertificatePoolSubjects() []string {
	p := userCertificatePool()
	if p == nil {
		return nil
	}
	var out []string
	for _, s := range p.Subjects() { //nolint:staticcheck
		out = append(out, string(s))
	}
	return out
}

func VerifCertPoolState() (loaded bool, dir string, rev uint64) {
	return trustedCertificatePool.loaded, trustedCertificatePool.dir, trustedCertificatePool.storeRevision
}
