//go:build verif

package pdfcpu

import (
	"github.com/pdfcpu/pdfcpu/pkg/pdfcpu/model"
	"github.com/pdfcpu/pdfcpu/pkg/pdfcpu/types"
)

// Export file added by the verification overlay (never part of the repository).

func VerifAppendPDFObject(dst []byte, obj types.Object) ([]byte, error) {
	return appendPDFObject(dst, obj)
}

func VerifBookletOrdering(pages types.IntSet, nup *model.NUp) []model.BookletPage {
	return getBookletOrdering(pages, nup)
}

// VerifPermTable exposes pdfcpu's own classification of commands (extract, modify rights needed).
func VerifPermTable() map[model.CommandMode][2]int {
	out := map[model.CommandMode][2]int{}
	for k, v := range perm {
		out[k] = [2]int{v.extract, v.modify}
	}
	return out
}
