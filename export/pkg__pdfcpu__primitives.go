//go:build verif

package primitives

import "net/http"

// Export file added by the verification overlay (never part of the repository).

// VerifImageBoxHTTPClient returns the client the image fetch path would use.
func VerifImageBoxHTTPClient(timeout int) *http.Client {
	pdf := &PDF{Timeout: timeout}
	return pdf.imageBoxHTTPClient()
}
