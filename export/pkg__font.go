//go:build verif

package font

// Export file added by the verification overlay (never part of the repository).

// VerifReset puts the lazily built user font state back to its initial value.
func VerifReset(dir string) {
	VerifResetGenerated() // generated from the current working tree: every file-scope variable of the package
	UserFontDir = dir
}

// VerifSyncObjects names the package's synchronisation objects for traces.
func VerifSyncObjects() map[any]string {
	return map[any]string{userFontMetricsLock: "userFontMetricsLock", &loadUserFontsOnce: "loadUserFontsOnce", &loadUserFontsMutex: "loadUserFontsMutex"}
}

// VerifTableSize is the size of the registry (unsynchronised; for quiescent states only).
func VerifTableSize() int { return len(userFontMetrics) }
